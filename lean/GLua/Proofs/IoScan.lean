/-
  C19, `*n`: the model of `fmt.Fscanf(reader, "%f", &v)` reads, from every state satisfying the cursor invariant
  (any read-ahead, any buffer size), exactly what the Spec prescribes on the texts of `numProved`.
  Core Lean only.
-/
import GLua.Proofs.IoFile

namespace GLua.IoFile
open GLua.FileSpec (Bytes Fmt Whence VBuf Mode Op Res)
open GLua.FileSpec (isBlank isDigit isSign)

def toOut : Option Bytes → ReadOut
  | none => .eof
  | some d => .val d

/-- facts about single bytes: unfold the character classes, go to `Nat`, `omega` -/
macro "byte_omega" : tactic => `(tactic| (
  simp only [isBlank, isDigit, isSign, okDec, okSign, okN, okA, okI, okF, okZero, okX, okDot, okExp, okP, okHex, isSpaceRune,
    Bool.or_eq_true, Bool.and_eq_true, Bool.not_eq_true, Bool.or_eq_false_iff, Bool.and_eq_false_iff,
    decide_eq_true_eq, decide_eq_false_iff_not, beq_iff_eq, beq_eq_false_iff_ne, ne_eq,
    UInt8.le_iff_toNat_le, UInt8.lt_iff_toNat_lt, ← UInt8.toNat_inj, UInt8.toNat_ofNat, UInt8.reduceToNat,
    Nat.reducePow, Nat.reduceMod] at *
  <;> omega))

/-! ### one rune -/

theorem decodeRune_ascii {c : UInt8} (hc : c < 128) (t : Bytes) : decodeRune (c :: t) = (c.toNat, 1) := by
  have : c < 0x80 := hc
  simp [decodeRune, utf8First, this]

theorem fullRune_ascii {c : UInt8} (hc : c < 128) (t : Bytes) : fullRune (c :: t) = true := by
  have : c < 0x80 := hc
  simp [fullRune, utf8First, this]

/-- with an ASCII byte at the head of the buffer `ReadRune` does not fill. -/
theorem brPeekRune_buffered (R : Nat) {f : LFile} {c : UInt8} {t : Bytes} (hb : f.rbuf = c :: t) (hc : c < 128) :
    ∀ fuel, brPeekRune R fuel f = (f, .rune c.toNat 1) := by
  intro fuel
  have hd : decodeBuf f = .rune c.toNat 1 := by simp [decodeBuf, hb, decodeRune_ascii hc]
  cases fuel with
  | zero => simp [brPeekRune, hd]
  | succ n =>
    unfold brPeekRune
    have : ¬ (f.rbuf.length < 4 ∧ fullRune f.rbuf = false ∧ f.rbuf.length < R) := by
      rw [hb, fullRune_ascii hc]; simp
    rw [if_neg this, hd]

theorem brPeekRune_ascii {R : Nat} (hR : 0 < R) {f : LFile} (h : Readable f) {c : UInt8} {t : Bytes}
    (hS : stream f = c :: t) (hc : c < 128) (fuel : Nat) :
    ∃ f', Reads f f' [] ∧ (∃ t', f'.rbuf = c :: t') ∧ brPeekRune R (fuel + 1) f = (f', .rune c.toNat 1) := by
  by_cases he : f.rbuf = []
  · have hd : f.disk.drop f.off = c :: t := by rw [← stream_of_nil he]; exact hS
    have hlen : R - f.rbuf.length = R := by simp [he]
    have hp := reads_pull h R
    have htk : (f.disk.drop f.off).take R = c :: t.take (R - 1) := by
      rw [hd]
      cases R with
      | zero => omega
      | succ n => simp
    have hrb : (f.rbuf ++ (f.disk.drop f.off).take R) = c :: t.take (R - 1) := by rw [he, htk]; rfl
    refine ⟨_, hp, ⟨t.take (R - 1), hrb⟩, ?_⟩
    unfold brPeekRune
    have hcond : f.rbuf.length < 4 ∧ fullRune f.rbuf = false ∧ f.rbuf.length < R := by
      rw [he]; simp [fullRune, hR]
    rw [if_pos hcond, brFill_eq h, hlen]
    have hne : ¬ ((f.disk.drop f.off).take R = []) := by rw [htk]; simp
    simp only [hne, if_false]
    exact brPeekRune_buffered R hrb hc fuel
  · obtain ⟨c', t', hb⟩ := List.exists_cons_of_ne_nil he
    have : c' = c := by
      have := hS; simp only [stream, hb, List.cons_append] at this
      exact (List.cons.inj this).1
    subst this
    exact ⟨f, Reads.refl h.inv, ⟨t', hb⟩, brPeekRune_buffered R hb hc _⟩

theorem brPeekRune_eof {R : Nat} (hR : 0 < R) {f : LFile} (h : Readable f) (hS : stream f = []) (fuel : Nat) :
    ∃ f', Reads f f' [] ∧ stream f' = [] ∧ brPeekRune R (fuel + 1) f = (f', .eof) := by
  have he : f.rbuf = [] := by
    have := hS; simp only [stream, List.append_eq_nil_iff] at this; exact this.1
  have hd : f.disk.drop f.off = [] := by rw [← stream_of_nil he]; exact hS
  have hlen : R - f.rbuf.length = R := by simp [he]
  have hp := reads_pull h R
  refine ⟨_, hp, by rw [reads_nil_stream hp]; exact hS, ?_⟩
  unfold brPeekRune
  have hcond : f.rbuf.length < 4 ∧ fullRune f.rbuf = false ∧ f.rbuf.length < R := by
    rw [he]; simp [fullRune, hR]
  rw [if_pos hcond, brFill_eq h, hlen]
  simp [hd, he, decodeBuf]

/-- invariant of the scanner: the reader is usable, and `atEOF` is set only at the end of the stream -/
structure SInv (s : Scan) : Prop where
  rd : Readable s.f
  eof : s.atEOF = true → stream s.f = []

/-- a step of the scanner that appends what it consumes to the token -/
structure Step (s s' : Scan) (out : Bytes) : Prop where
  reads : Reads s.f s'.f out
  buf : s'.buf = s.buf ++ out
  inv : SInv s'

theorem Step.trans {a b c : Scan} {o1 o2 : Bytes} (h1 : Step a b o1) (h2 : Step b c o2) : Step a c (o1 ++ o2) :=
  ⟨h1.reads.trans h2.reads, by rw [h2.buf, h1.buf, List.append_assoc], h2.inv⟩

theorem stream_after {f f' : LFile} {out T : Bytes} (r : Reads f f' out) (hS : stream f = out ++ T) : stream f' = T := by
  have := r.str; rw [hS] at this
  exact (List.append_cancel_left this).symm

theorem peekRune_ascii {R : Nat} (hR : 0 < R) {s : Scan} (hs : SInv s) {c : UInt8} {t : Bytes}
    (hS : stream s.f = c :: t) (hc : c < 128) :
    ∃ f', Reads s.f f' [] ∧ (∃ t', f'.rbuf = c :: t') ∧ peekRune R s = ({ s with f := f' }, .rune c.toNat 1) := by
  have hne : s.atEOF = false := by
    cases he : s.atEOF with
    | false => rfl
    | true => have := hs.eof he; rw [hS] at this; cases this
  obtain ⟨f', hr, hb, he⟩ := brPeekRune_ascii hR hs.rd hS hc 3
  refine ⟨f', hr, hb, ?_⟩
  simp [peekRune, hne, he]

theorem peekRune_eof {R : Nat} (hR : 0 < R) {s : Scan} (hs : SInv s) (hS : stream s.f = []) :
    ∃ s', peekRune R s = (s', .eof) ∧ Reads s.f s'.f [] ∧ s'.buf = s.buf ∧ SInv s' := by
  cases he : s.atEOF with
  | true => exact ⟨s, by simp [peekRune, he], Reads.refl hs.rd.inv, rfl, hs⟩
  | false =>
    obtain ⟨f', hr, hs', hp⟩ := brPeekRune_eof hR hs.rd hS 3
    refine ⟨{ s with f := f', atEOF := true }, by simp [peekRune, he, hp], hr, rfl, ⟨hs.rd.of_reads hr, fun _ => hs'⟩⟩

/-- consuming the ASCII byte that was just looked at -/
theorem advance_ascii {s : Scan} {f' : LFile} {c : UInt8} {t t' : Bytes} (hs : SInv s) (hS : stream s.f = c :: t)
    (hr : Reads s.f f' []) (hb : f'.rbuf = c :: t') :
    Reads s.f (({ s with f := f' } : Scan).advance 1).f [c] ∧ SInv (({ s with f := f' } : Scan).advance 1) ∧
    stream (({ s with f := f' } : Scan).advance 1).f = t := by
  have hc := reads_consume hr.inv 1
  have h2 := hr.trans hc
  have ht : f'.rbuf.take 1 = [c] := by rw [hb]; rfl
  rw [ht] at h2
  have h3 : Reads s.f (({ s with f := f' } : Scan).advance 1).f [c] := by simpa [Scan.advance] using h2
  have hst := stream_after h3 (by rw [hS]; rfl)
  refine ⟨h3, ⟨hs.rd.of_reads h3, ?_⟩, hst⟩
  intro he
  have hne : s.atEOF = false := by
    cases hq : s.atEOF with
    | false => rfl
    | true => have := hs.eof hq; rw [hS] at this; cases this
  simp [Scan.advance, hne] at he

/-! ### accept -/

/-- the next byte is not in the set, or the stream is at its end: `accept` stops -/
def Stops (ok : Nat → Bool) (S : Bytes) : Prop := S = [] ∨ ∃ c t, S = c :: t ∧ c < 128 ∧ ok c.toNat = false

theorem accept_hit {R : Nat} (hR : 0 < R) {ok : Nat → Bool} {s : Scan} (hs : SInv s) {c : UInt8} {t : Bytes}
    (hS : stream s.f = c :: t) (hc : c < 128) (hok : ok c.toNat = true) :
    ∃ s', accept R ok s = (s', some true) ∧ Step s s' [c] ∧ stream s'.f = t := by
  obtain ⟨f', hr, ⟨t', hb⟩, hp⟩ := peekRune_ascii hR hs hS hc
  obtain ⟨h1, h2, h3⟩ := advance_ascii hs hS hr hb
  refine ⟨{ ({ s with f := f' } : Scan).advance 1 with buf := s.buf ++ [c] }, ?_, ⟨h1, rfl, ⟨h2.rd, h2.eof⟩⟩, h3⟩
  simp [accept, hp, hok]

theorem accept_stop {R : Nat} (hR : 0 < R) {ok : Nat → Bool} {s : Scan} (hs : SInv s) (hst : Stops ok (stream s.f)) :
    ∃ s', accept R ok s = (s', some false) ∧ Step s s' [] := by
  rcases hst with h0 | ⟨c, t, hS, hc, hok⟩
  · obtain ⟨s', hp, hr, hb, hi⟩ := peekRune_eof hR hs h0
    exact ⟨s', by simp [accept, hp], ⟨hr, by simp [hb], hi⟩⟩
  · obtain ⟨f', hr, _, hp⟩ := peekRune_ascii hR hs hS hc
    refine ⟨{ s with f := f' }, by simp [accept, hp, hok], ⟨hr, by simp, ⟨hs.rd.of_reads hr, ?_⟩⟩⟩
    intro he
    have := hs.eof he; rw [hS] at this; cases this

/-- `for s.accept(ok) {}` consumes a run of bytes of the set and stops at the first other byte -/
theorem acceptMany_spec {R : Nat} (hR : 0 < R) {ok : Nat → Bool} :
    ∀ (ds : Bytes) (fuel : Nat) {s : Scan} {T : Bytes}, SInv s → stream s.f = ds ++ T →
      (∀ c ∈ ds, c < 128 ∧ ok c.toNat = true) → Stops ok T → ds.length < fuel →
      ∃ s', acceptMany R ok fuel s = (s', some ()) ∧ Step s s' ds := by
  intro ds
  induction ds with
  | nil =>
    intro fuel s T hs hS _ hst hf
    cases fuel with
    | zero => omega
    | succ n =>
      obtain ⟨s', ha, hstep⟩ := accept_stop hR hs (by rw [hS]; exact hst)
      exact ⟨s', by simp [acceptMany, ha], hstep⟩
  | cons c ds ih =>
    intro fuel s T hs hS hall hst hf
    cases fuel with
    | zero => omega
    | succ n =>
      have hc := hall c (List.mem_cons_self ..)
      obtain ⟨s1, ha, hstep, hS1⟩ := accept_hit hR hs (t := ds ++ T) (by rw [hS]; rfl) hc.1 hc.2
      obtain ⟨s2, hm, hstep2⟩ := ih n hstep.inv hS1 (fun c' hc' => hall c' (List.mem_cons_of_mem _ hc')) hst
        (by simp at hf; omega)
      refine ⟨s2, by simp [acceptMany, ha, hm], ?_⟩
      have := hstep.trans hstep2
      simpa using this

/-! ### SkipSpace -/

theorem peekRune_ok {R : Nat} (hR : 0 < R) {s : Scan} (hs : SInv s)
    (hh : stream s.f = [] ∨ ∃ c t, stream s.f = c :: t ∧ c < 128) :
    ∃ s' r, peekRune R s = (s', r) ∧ r ≠ .err ∧ Reads s.f s'.f [] ∧ s'.buf = s.buf ∧ SInv s' := by
  rcases hh with h0 | ⟨c, t, hS, hc⟩
  · obtain ⟨s', hp, hr, hb, hi⟩ := peekRune_eof hR hs h0
    exact ⟨s', _, hp, by simp, hr, hb, hi⟩
  · obtain ⟨f', hr, _, hp⟩ := peekRune_ascii hR hs hS hc
    refine ⟨{ s with f := f' }, _, hp, by simp, hr, rfl, ⟨hs.rd.of_reads hr, ?_⟩⟩
    intro he
    have := hs.eof he; rw [hS] at this; cases this

/-- `SkipSpace` over white space that contains no line feed: all of it is consumed, nothing else. -/
theorem skipSpace_spec {R : Nat} (hR : 0 < R) :
    ∀ (ws : Bytes) (fuel : Nat) {s : Scan} {T : Bytes}, SInv s → stream s.f = ws ++ T →
      (∀ c ∈ ws, isBlank c = true ∧ c ≠ 10) →
      (T = [] ∨ ∃ c t, T = c :: t ∧ c < 128 ∧ isBlank c = false) → ws.length < fuel →
      ∃ s', skipSpace R fuel s = (s', .done) ∧ Reads s.f s'.f ws ∧ s'.buf = s.buf ∧ SInv s' := by
  intro ws
  induction ws with
  | nil =>
    intro fuel s T hs hS _ hT hf
    cases fuel with
    | zero => omega
    | succ n =>
      rcases hT with h0 | ⟨c, t, hT, hc, hnb⟩
      · obtain ⟨s', hp, hr, hb, hi⟩ := peekRune_eof hR hs (by rw [hS, h0]; rfl)
        exact ⟨s', by simp [skipSpace, hp], hr, hb, hi⟩
      · obtain ⟨f', hr, _, hp⟩ := peekRune_ascii hR hs (c := c) (t := t) (by rw [hS, hT]; rfl) hc
        have h13 : c.toNat ≠ 13 := by byte_omega
        have h10 : c.toNat ≠ 10 := by byte_omega
        have hsp : isSpaceRune c.toNat = false := by byte_omega
        refine ⟨{ s with f := f' }, by simp [skipSpace, hp, h13, h10, hsp], hr, rfl, ⟨hs.rd.of_reads hr, ?_⟩⟩
        intro he
        have := hs.eof he; rw [hS, hT] at this; cases this
  | cons c ws ih =>
    intro fuel s T hs hS hall hT hf
    cases fuel with
    | zero => omega
    | succ n =>
      have hcb := hall c (List.mem_cons_self ..)
      have hc : c < 128 := by have := hcb.1; byte_omega
      have hS' : stream s.f = c :: (ws ++ T) := by rw [hS]; rfl
      obtain ⟨f', hr, ⟨t', hb⟩, hp⟩ := peekRune_ascii hR hs hS' hc
      obtain ⟨h1, h2, h3⟩ := advance_ascii hs hS' hr hb
      have hall' : ∀ c' ∈ ws, isBlank c' = true ∧ c' ≠ 10 := fun c' hc' => hall c' (List.mem_cons_of_mem _ hc')
      have hf' : ws.length < n := by simp at hf; omega
      have h10 : c.toNat ≠ 10 := by have := hcb.2; byte_omega
      have hsp : isSpaceRune c.toNat = true := by have := hcb.1; byte_omega
      by_cases h13 : c.toNat = 13
      · -- CR: a look at the next rune, then on
        have hh : stream (({ s with f := f' } : Scan).advance 1).f = [] ∨
            ∃ c2 t2, stream (({ s with f := f' } : Scan).advance 1).f = c2 :: t2 ∧ c2 < 128 := by
          rw [h3]
          cases ws with
          | nil =>
            rcases hT with h0 | ⟨c2, t2, hT, hc2, _⟩
            · left; rw [h0]; rfl
            · right; exact ⟨c2, t2, by rw [hT]; rfl, hc2⟩
          | cons c2 ws2 =>
            right
            have := (hall' c2 (List.mem_cons_self ..)).1
            exact ⟨c2, ws2 ++ T, rfl, by byte_omega⟩
        obtain ⟨s2, r, hp2, hne, hr2, hb2, hi2⟩ := peekRune_ok hR h2 hh
        have hS2 : stream s2.f = ws ++ T := by rw [reads_nil_stream hr2]; exact h3
        obtain ⟨s3, hk, hr3, hb3, hi3⟩ := ih n hi2 hS2 hall' hT hf'
        refine ⟨s3, ?_, ?_, ?_, hi3⟩
        · unfold skipSpace
          simp only [hp, h13, if_true, hp2]
          cases r with
          | err => exact absurd rfl hne
          | eof => exact hk
          | rune a b => exact hk
        · have := (h1.trans hr2).trans hr3
          simpa using this
        · rw [hb3, hb2]; rfl
      · obtain ⟨s3, hk, hr3, hb3, hi3⟩ := ih n h2 h3 hall' hT hf'
        refine ⟨s3, ?_, ?_, ?_, hi3⟩
        · unfold skipSpace
          simp only [hp, h13, h10, if_false, hsp, if_true]
          exact hk
        · have := h1.trans hr3
          simpa using this
        · rw [hb3]; rfl

/-! ### floatToken on a decimal numeral -/

/-- the head of a list, if there is one, has the property -/
def HeadIn (P : UInt8 → Prop) (L : Bytes) : Prop := L = [] ∨ ∃ c t, L = c :: t ∧ P c

theorem HeadIn.mono {P Q : UInt8 → Prop} {L : Bytes} (h : ∀ c, P c → Q c) : HeadIn P L → HeadIn Q L
  | .inl e => .inl e
  | .inr ⟨c, t, e, p⟩ => .inr ⟨c, t, e, h c p⟩

theorem HeadIn.cons {P : UInt8 → Prop} {c : UInt8} (p : P c) (t : Bytes) : HeadIn P (c :: t) := .inr ⟨c, t, rfl, p⟩

theorem stops_of_headIn {ok : Nat → Bool} {L : Bytes} (h : HeadIn (fun c => c < 128 ∧ ok c.toNat = false) L) : Stops ok L := h

/-- the shape of an exponent part -/
def ExpShape (ex : Bytes) : Prop :=
  ex = [] ∨ ∃ e sg2 d3, ex = e :: sg2 ++ d3 ∧ (e = 101 ∨ e = 69) ∧
    (sg2 = [] ∨ ∃ c, sg2 = [c] ∧ isSign c = true) ∧ d3 ≠ [] ∧ ∀ c ∈ d3, isDigit c = true

def FracShape (fr : Bytes) : Prop := fr = [] ∨ ∃ d2, fr = 46 :: d2 ∧ ∀ c ∈ d2, isDigit c = true

def SignShape (sg : Bytes) : Prop := sg = [] ∨ ∃ c, sg = [c] ∧ isSign c = true

/-- what can follow the integer digits: a period, an exponent letter, white space, the end -/
def AfterDigits (c : UInt8) : Prop := c = 46 ∨ c = 101 ∨ c = 69 ∨ isBlank c = true
/-- what can follow the fraction -/
def AfterFrac (c : UInt8) : Prop := c = 101 ∨ c = 69 ∨ isBlank c = true

theorem head_exrest {ex rest : Bytes} (hex : ExpShape ex) (hrest : HeadIn (fun c => isBlank c = true) rest) :
    HeadIn AfterFrac (ex ++ rest) := by
  rcases hex with rfl | ⟨e, sg2, d3, rfl, he, _⟩
  · have : HeadIn AfterFrac rest := hrest.mono (fun c h => Or.inr (Or.inr h))
    simpa using this
  · exact HeadIn.cons (by rcases he with h | h <;> simp [AfterFrac, h]) _

theorem head_frexrest {fr ex rest : Bytes} (hfr : FracShape fr) (hex : ExpShape ex)
    (hrest : HeadIn (fun c => isBlank c = true) rest) : HeadIn AfterDigits (fr ++ (ex ++ rest)) := by
  rcases hfr with rfl | ⟨d2, rfl, _⟩
  · have : HeadIn AfterDigits (ex ++ rest) := (head_exrest hex hrest).mono (fun c h => Or.inr h)
    simpa using this
  · exact HeadIn.cons (Or.inl rfl) _

theorem afterDigits_stop {c : UInt8} (h : AfterDigits c) :
    c < 128 ∧ okDec c.toNat = false ∧ okX c.toNat = false ∧ okZero c.toNat = false ∧ okI c.toNat = false ∧
    okN c.toNat = false ∧ okSign c.toNat = false := by
  rcases h with h | h | h | h
  · subst h; decide
  · subst h; decide
  · subst h; decide
  · byte_omega

theorem afterFrac_stop {c : UInt8} (h : AfterFrac c) : c < 128 ∧ okDec c.toNat = false ∧ okDot c.toNat = false := by
  rcases h with h | h | h
  · subst h; decide
  · subst h; decide
  · byte_omega

theorem blank_stop {c : UInt8} (h : isBlank c = true) : c < 128 ∧ okDec c.toNat = false ∧ okExp c.toNat = false := by
  byte_omega

theorem digit_facts {c : UInt8} (h : isDigit c = true) :
    c < 128 ∧ okDec c.toNat = true ∧ okX c.toNat = false ∧ okI c.toNat = false ∧ okN c.toNat = false ∧
    okSign c.toNat = false ∧ (c ≠ 48 → okZero c.toNat = false) := by
  refine ⟨?_, ?_, ?_, ?_, ?_, ?_, ?_⟩ <;> byte_omega

theorem sign_facts {c : UInt8} (h : isSign c = true) : c < 128 ∧ okSign c.toNat = true ∧ okN c.toNat = false := by
  byte_omega

/-- `s.accept(sign)` in front of a digit, a period or nothing to accept: consumes exactly an optional sign. -/
theorem acceptSign_spec {R : Nat} (hR : 0 < R) {s : Scan} (hs : SInv s) {sg M : Bytes} (hS : stream s.f = sg ++ M)
    (hsg : SignShape sg) (hM : Stops okSign M) :
    ∃ s' b, accept R okSign s = (s', some b) ∧ Step s s' sg ∧ stream s'.f = M := by
  rcases hsg with rfl | ⟨c, rfl, hc⟩
  · obtain ⟨s', ha, hst⟩ := accept_stop hR hs (by rw [hS]; exact hM)
    exact ⟨s', false, ha, hst, by rw [reads_nil_stream hst.reads]; exact hS⟩
  · obtain ⟨s', ha, hst, hS'⟩ := accept_hit hR hs (t := M) (by rw [hS]; rfl) (sign_facts hc).1 (sign_facts hc).2.1
    exact ⟨s', true, ha, hst, hS'⟩

/-- `0x`? and the integer digits of a decimal numeral -/
theorem acceptInt_spec {R : Nat} (hR : 0 < R) {s : Scan} (hs : SInv s) {d1 T : Bytes} (fuel : Nat)
    (hS : stream s.f = d1 ++ T) (hd1 : ∀ c ∈ d1, isDigit c = true) (hT : HeadIn AfterDigits T)
    (hf : d1.length < fuel) :
    ∃ s2 s3, acceptHexPrefix R s = (s2, some false) ∧ acceptMany R okDec fuel s2 = (s3, some ()) ∧ Step s s3 d1 ∧
      stream s3.f = T := by
  have hTs : Stops okDec T := stops_of_headIn (hT.mono fun c h => ⟨(afterDigits_stop h).1, (afterDigits_stop h).2.1⟩)
  have hall : ∀ {l : Bytes}, (∀ c ∈ l, isDigit c = true) → ∀ c ∈ l, c < 128 ∧ okDec c.toNat = true :=
    fun h c hc => ⟨(digit_facts (h c hc)).1, (digit_facts (h c hc)).2.1⟩
  cases d1 with
  | nil =>
    -- no digit: "0"? fails on a period / exponent letter / blank / end
    have h0 : Stops okZero (stream s.f) := by
      rw [hS]; exact stops_of_headIn (hT.mono fun c h => ⟨(afterDigits_stop h).1, (afterDigits_stop h).2.2.2.1⟩)
    obtain ⟨s2, ha, hst⟩ := accept_stop hR hs h0
    have hS2 : stream s2.f = [] ++ T := by rw [reads_nil_stream hst.reads]; exact hS
    obtain ⟨s3, hm, hst3⟩ := acceptMany_spec hR [] fuel hst.inv hS2 (by simp) hTs hf
    refine ⟨s2, s3, by simp [acceptHexPrefix, ha], hm, by simpa using hst.trans hst3, ?_⟩
    exact stream_after hst3.reads hS2
  | cons c d1' =>
    have hc := hd1 c (List.mem_cons_self ..)
    have hd1' : ∀ c' ∈ d1', isDigit c' = true := fun c' h' => hd1 c' (List.mem_cons_of_mem _ h')
    by_cases hz : c = 48
    · subst hz
      obtain ⟨s1, ha, hst1, hS1⟩ := accept_hit hR (ok := okZero) hs (c := 48) (t := d1' ++ T) (by rw [hS]; rfl) (by decide) (by decide)
      -- "xX"? fails on the next byte
      have hx : Stops okX (stream s1.f) := by
        rw [hS1]
        cases d1' with
        | nil => exact stops_of_headIn (hT.mono fun c h => ⟨(afterDigits_stop h).1, (afterDigits_stop h).2.2.1⟩)
        | cons c2 d2 =>
          have := hd1' c2 (List.mem_cons_self ..)
          exact Or.inr ⟨c2, d2 ++ T, rfl, (digit_facts this).1, (digit_facts this).2.2.1⟩
      obtain ⟨s2, ha2, hst2⟩ := accept_stop hR hst1.inv hx
      have hS2 : stream s2.f = d1' ++ T := by rw [reads_nil_stream hst2.reads]; exact hS1
      obtain ⟨s3, hm, hst3⟩ := acceptMany_spec hR d1' fuel hst2.inv hS2 (hall hd1') hTs (by simp at hf; omega)
      refine ⟨s2, s3, by simp [acceptHexPrefix, ha, ha2], hm, ?_, stream_after hst3.reads hS2⟩
      simpa using (hst1.trans hst2).trans hst3
    · have h0 : Stops okZero (stream s.f) := by
        rw [hS]; exact Or.inr ⟨c, d1' ++ T, rfl, (digit_facts hc).1, (digit_facts hc).2.2.2.2.2.2 hz⟩
      obtain ⟨s2, ha, hst⟩ := accept_stop hR hs h0
      have hS2 : stream s2.f = (c :: d1') ++ T := by rw [reads_nil_stream hst.reads]; exact hS
      obtain ⟨s3, hm, hst3⟩ := acceptMany_spec hR (c :: d1') fuel hst.inv hS2 (hall hd1) hTs hf
      refine ⟨s2, s3, by simp [acceptHexPrefix, ha], hm, by simpa using hst.trans hst3, stream_after hst3.reads hS2⟩

/-- the fraction -/
theorem acceptFrac_spec {R : Nat} (hR : 0 < R) {s : Scan} (hs : SInv s) {fr T : Bytes} (fuel : Nat)
    (hS : stream s.f = fr ++ T) (hfr : FracShape fr) (hT : HeadIn AfterFrac T) (hf : fr.length < fuel) :
    ∃ s', acceptFrac R okDec fuel s = (s', some ()) ∧ Step s s' fr ∧ stream s'.f = T := by
  have hTs : Stops okDec T := stops_of_headIn (hT.mono fun c h => ⟨(afterFrac_stop h).1, (afterFrac_stop h).2.1⟩)
  rcases hfr with rfl | ⟨d2, rfl, hd2⟩
  · have h0 : Stops okDot (stream s.f) := by
      rw [hS]; exact stops_of_headIn (hT.mono fun c h => ⟨(afterFrac_stop h).1, (afterFrac_stop h).2.2⟩)
    obtain ⟨s', ha, hst⟩ := accept_stop hR hs h0
    exact ⟨s', by simp [acceptFrac, ha], hst, by rw [reads_nil_stream hst.reads]; exact hS⟩
  · obtain ⟨s1, ha, hst1, hS1⟩ := accept_hit hR (ok := okDot) hs (c := 46) (t := d2 ++ T) (by rw [hS]; rfl) (by decide) (by decide)
    obtain ⟨s2, hm, hst2⟩ := acceptMany_spec hR d2 fuel hst1.inv hS1
      (fun c hc => ⟨(digit_facts (hd2 c hc)).1, (digit_facts (hd2 c hc)).2.1⟩) hTs (by simp at hf; omega)
    exact ⟨s2, by simp [acceptFrac, ha, hm], by simpa using hst1.trans hst2, stream_after hst2.reads hS1⟩

/-- the exponent -/
theorem acceptExp_spec {R : Nat} (hR : 0 < R) {s : Scan} (hs : SInv s) {ex T : Bytes} (fuel : Nat)
    (hS : stream s.f = ex ++ T) (hex : ExpShape ex) (hT : HeadIn (fun c => isBlank c = true) T) (hf : ex.length < fuel) :
    ∃ s', acceptExp R okExp fuel s = (s', some ()) ∧ Step s s' ex ∧ stream s'.f = T := by
  have hTs : Stops okDec T := stops_of_headIn (hT.mono fun c h => ⟨(blank_stop h).1, (blank_stop h).2.1⟩)
  rcases hex with rfl | ⟨e, sg2, d3, rfl, he, hsg2, hne, hd3⟩
  · have h0 : Stops okExp (stream s.f) := by
      rw [hS]; exact stops_of_headIn (hT.mono fun c h => ⟨(blank_stop h).1, (blank_stop h).2.2⟩)
    obtain ⟨s', ha, hst⟩ := accept_stop hR hs h0
    exact ⟨s', by simp [acceptExp, ha], hst, by rw [reads_nil_stream hst.reads]; exact hS⟩
  · have hee : e < 128 ∧ okExp e.toNat = true := by rcases he with h | h <;> subst h <;> decide
    obtain ⟨s1, ha, hst1, hS1⟩ := accept_hit hR hs (c := e) (t := sg2 ++ (d3 ++ T)) (by rw [hS]; simp) hee.1 hee.2
    -- the digits are not empty, so without a sign the next byte is a digit
    have hM : Stops okSign (d3 ++ T) := by
      obtain ⟨c3, t3, rfl⟩ := List.exists_cons_of_ne_nil hne
      have := hd3 c3 (List.mem_cons_self ..)
      exact Or.inr ⟨c3, t3 ++ T, rfl, (digit_facts this).1, (digit_facts this).2.2.2.2.2.1⟩
    obtain ⟨s2, b, ha2, hst2, hS2⟩ := acceptSign_spec hR hst1.inv hS1 hsg2 hM
    obtain ⟨s3, hm, hst3⟩ := acceptMany_spec hR d3 fuel hst2.inv hS2
      (fun c hc => ⟨(digit_facts (hd3 c hc)).1, (digit_facts (hd3 c hc)).2.1⟩) hTs (by simp at hf; omega)
    refine ⟨s3, by simp [acceptExp, ha, ha2, hm], ?_, stream_after hst3.reads hS2⟩
    have := (hst1.trans hst2).trans hst3
    simpa using this

/-- **`floatToken` on a decimal numeral followed by white space or the end of the file reads exactly the numeral.** -/
theorem floatToken_dec {R : Nat} (hR : 0 < R) {s : Scan} (hs : SInv s) {sg d1 fr ex rest : Bytes} (fuel : Nat)
    (hS : stream s.f = sg ++ (d1 ++ (fr ++ (ex ++ rest))))
    (hsg : SignShape sg) (hd1 : ∀ c ∈ d1, isDigit c = true) (hfr : FracShape fr)
    (hne : ¬ (d1 = [] ∧ fr.length ≤ 1)) (hex : ExpShape ex)
    (hrest : HeadIn (fun c => isBlank c = true) rest)
    (hfuel : (sg ++ (d1 ++ (fr ++ (ex ++ rest)))).length < fuel) :
    ∃ s', floatToken R fuel s = (s', some ()) ∧ Reads s.f s'.f (sg ++ (d1 ++ (fr ++ ex))) ∧
      s'.buf = sg ++ (d1 ++ (fr ++ ex)) ∧ SInv s' := by
  have hT1 := head_frexrest hfr hex hrest
  have hT2 := head_exrest hex hrest
  -- the byte after the sign: a digit or the period
  have hM : HeadIn (fun c => isDigit c = true ∨ c = 46) (d1 ++ (fr ++ (ex ++ rest))) ∧ d1 ++ (fr ++ (ex ++ rest)) ≠ [] := by
    cases d1 with
    | cons c d => exact ⟨HeadIn.cons (Or.inl (hd1 c (List.mem_cons_self ..))) _, by simp⟩
    | nil =>
      rcases hfr with rfl | ⟨d2, rfl, _⟩
      · exact absurd ⟨rfl, by simp⟩ hne
      · exact ⟨HeadIn.cons (Or.inr rfl) _, by simp⟩
  have hMfacts : ∀ c, (isDigit c = true ∨ c = 46) →
      c < 128 ∧ okSign c.toNat = false ∧ okI c.toNat = false ∧ okN c.toNat = false := by
    intro c h
    rcases h with h | h
    · exact ⟨(digit_facts h).1, (digit_facts h).2.2.2.2.2.1, (digit_facts h).2.2.2.1, (digit_facts h).2.2.2.2.1⟩
    · subst h; decide
  -- s.buf = s.buf[:0]
  have hs0 : SInv ({ s with buf := [] } : Scan) := ⟨hs.rd, hs.eof⟩
  -- NaN? no: the first byte is a sign, a digit or a period
  have hN : Stops okN (stream ({ s with buf := [] } : Scan).f) := by
    show Stops okN (stream s.f)
    rw [hS]
    rcases hsg with rfl | ⟨c, rfl, hc⟩
    · exact stops_of_headIn (hM.1.mono fun c h => ⟨(hMfacts c h).1, (hMfacts c h).2.2.2⟩)
    · exact Or.inr ⟨c, _, rfl, (sign_facts hc).1, (sign_facts hc).2.2⟩
  obtain ⟨sA, haA, hstA⟩ := accept_stop hR hs0 hN
  have hSA : stream sA.f = sg ++ (d1 ++ (fr ++ (ex ++ rest))) := by rw [reads_nil_stream hstA.reads]; exact hS
  -- sign?
  obtain ⟨sB, b, haB, hstB, hSB⟩ := acceptSign_spec hR hstA.inv hSA hsg
    (stops_of_headIn (hM.1.mono fun c h => ⟨(hMfacts c h).1, (hMfacts c h).2.1⟩))
  -- Inf? no
  have hI : Stops okI (stream sB.f) := by
    rw [hSB]; exact stops_of_headIn (hM.1.mono fun c h => ⟨(hMfacts c h).1, (hMfacts c h).2.2.1⟩)
  obtain ⟨sC, haC, hstC⟩ := accept_stop hR hstB.inv hI
  have hSC : stream sC.f = d1 ++ (fr ++ (ex ++ rest)) := by rw [reads_nil_stream hstC.reads]; exact hSB
  have hlen := hfuel
  simp only [List.length_append] at hlen
  -- digits, fraction, exponent
  obtain ⟨s2, s3, hhx, hm3, hst3, hS3⟩ := acceptInt_spec hR hstC.inv fuel hSC hd1 hT1 (by omega)
  obtain ⟨s5, hf5, hst5, hS5⟩ := acceptFrac_spec hR hst3.inv fuel hS3 hfr hT2 (by omega)
  obtain ⟨s6, he6, hst6, _⟩ := acceptExp_spec hR hst5.inv fuel hS5 hex hrest (by omega)
  have hall := (((hstA.trans hstB).trans hstC).trans hst3).trans (hst5.trans hst6)
  refine ⟨s6, ?_, ?_, ?_, hst6.inv⟩
  · simp [floatToken, accept3, haA, haB, haC, floatTokenNum, hhx, hm3, hf5, he6]
  · simpa using hall.reads
  · have := hall.buf; simpa using this

/-! ### the Spec's numeral, taken apart -/

/-- the texts at the cursor on which `*n` is PROVED to agree with the Spec: white space without a line feed (open
    finding C19-readnum-rejects-newline), then the end of the file, or a DECIMAL numeral (open finding
    C19-readnum-rejects-hex) followed by white space or the end of the file, whose value rounds to a finite double
    and which the model of `strconv.ParseFloat` accepts (that it accepts every such numeral is observed on each run,
    not proved). -/
def numProved (S : Bytes) : Bool :=
  !(S.takeWhile isBlank).contains 10 &&
  ((S.dropWhile isBlank).isEmpty ||
   ((FileSpec.hexNumeral (S.dropWhile isBlank)).isNone &&
    match FileSpec.decNumeral (S.dropWhile isBlank) with
    | some (tok, rest) =>
      (rest.isEmpty || rest.head?.map isBlank == some true) &&
      FileSpec.roundsFinite (FileSpec.numValue tok) && convertFloat tok == .ok
    | none => false))

theorem mem_tw {p : UInt8 → Bool} {l : Bytes} {c : UInt8} (h : c ∈ l.takeWhile p) : p c = true := by
  induction l with
  | nil => simp at h
  | cons a r ih =>
    by_cases ha : p a = true
    · rw [List.takeWhile_cons_of_pos ha] at h
      rcases List.mem_cons.mp h with e | e
      · subst e; exact ha
      · exact ih e
    · rw [List.takeWhile_cons_of_neg ha] at h; simp at h

theorem spanSign_eq (t : Bytes) : (FileSpec.spanSign t).1 ++ (FileSpec.spanSign t).2 = t ∧ SignShape (FileSpec.spanSign t).1 := by
  cases t with
  | nil => exact ⟨rfl, Or.inl rfl⟩
  | cons c r =>
    by_cases h : isSign c = true
    · simp only [FileSpec.spanSign, h, if_true]
      exact ⟨rfl, Or.inr ⟨c, rfl, h⟩⟩
    · simp only [FileSpec.spanSign, h]
      exact ⟨rfl, Or.inl rfl⟩

theorem spanFrac_eq (l : Bytes) : (FileSpec.spanFrac l).1 ++ (FileSpec.spanFrac l).2 = l ∧ FracShape (FileSpec.spanFrac l).1 := by
  cases l with
  | nil => exact ⟨rfl, Or.inl rfl⟩
  | cons c r =>
    by_cases h : c = 46
    · subst h
      simp only [FileSpec.spanFrac, if_true]
      refine ⟨by simp [List.takeWhile_append_dropWhile], Or.inr ⟨_, rfl, fun c hc => mem_tw hc⟩⟩
    · simp only [FileSpec.spanFrac, h, if_false]
      exact ⟨rfl, Or.inl rfl⟩

theorem spanExp_eq (l : Bytes) : (FileSpec.spanExp l).1 ++ (FileSpec.spanExp l).2 = l ∧ ExpShape (FileSpec.spanExp l).1 := by
  cases l with
  | nil => exact ⟨rfl, Or.inl rfl⟩
  | cons e r =>
    by_cases h : e = 101 ∨ e = 69
    · by_cases hd : (FileSpec.spanSign r).2.takeWhile isDigit = []
      · simp only [FileSpec.spanExp, h, if_true, hd]
        exact ⟨rfl, Or.inl rfl⟩
      · simp only [FileSpec.spanExp, h, if_true, hd, if_false]
        refine ⟨?_, Or.inr ⟨e, _, _, rfl, h, (spanSign_eq r).2, hd, fun c hc => mem_tw hc⟩⟩
        have := (spanSign_eq r).1
        simp only [List.cons_append, List.append_assoc, List.takeWhile_append_dropWhile, this]
    · simp only [FileSpec.spanExp, h, if_false]
      exact ⟨rfl, Or.inl rfl⟩

theorem dropWhile_head (p : UInt8 → Bool) (l : Bytes) : HeadIn (fun c => p c = false) (l.dropWhile p) := by
  induction l with
  | nil => exact Or.inl rfl
  | cons c r ih =>
    by_cases h : p c = true
    · rw [List.dropWhile_cons_of_pos h]; exact ih
    · rw [List.dropWhile_cons_of_neg h]; exact HeadIn.cons (by simpa using h) _

theorem scanFuel_eq (f : LFile) : scanFuel f = (stream f).length + 2 := by
  rw [stream_length]; rfl

/-- **`*n` on the texts of `numProved`: the Model reads what the Spec prescribes, and the cursor ends where the
    Spec puts it** — right after the numeral, or at the end of the file; for every buffer size and read-ahead. -/
theorem fscanNumber_sim {R : Nat} (hR : 0 < R) {f : LFile} (h : Readable f) (hg : numProved (stream f) = true) :
    ∃ f' out, Reads f f' out ∧
      fscanNumber R f = (f', toOut (FileSpec.readFmt f.disk (cursor f) .num).1) ∧
      (FileSpec.readFmt f.disk (cursor f) .num).2 = cursor f' := by
  have hSd : f.disk.drop (cursor f) = stream f := h.inv.snap.symm
  generalize hSdef : stream f = S at hg hSd
  have hsplit : S.takeWhile isBlank ++ S.dropWhile isBlank = S := List.takeWhile_append_dropWhile
  simp only [numProved, Bool.and_eq_true, Bool.or_eq_true, Bool.not_eq_true'] at hg
  obtain ⟨hlf, hg⟩ := hg
  have hws : ∀ c ∈ S.takeWhile isBlank, isBlank c = true ∧ c ≠ 10 := by
    intro c hc
    refine ⟨mem_tw hc, ?_⟩
    intro e; subst e
    have : (S.takeWhile isBlank).contains 10 = true := List.contains_iff_mem.mpr hc
    rw [hlf] at this; cases this
  have hfuel : scanFuel f = S.length + 2 := by rw [scanFuel_eq, hSdef]
  have hs0 : SInv ({ f := f } : Scan) := ⟨h, fun he => by cases he⟩
  have hlenS : S.length = (S.takeWhile isBlank).length + (S.dropWhile isBlank).length := by
    rw [← List.length_append, hsplit]
  by_cases ht : S.dropWhile isBlank = []
  · -- nothing but white space up to the end of the file: nil
    have hS0 : stream ({ f := f } : Scan).f = S.takeWhile isBlank ++ [] := by
      show stream f = _; rw [hSdef, List.append_nil]; rw [ht, List.append_nil] at hsplit; exact hsplit.symm
    obtain ⟨s1, hk1, hr1, _, hi1⟩ := skipSpace_spec hR _ (scanFuel f) hs0 hS0 hws (Or.inl rfl) (by omega)
    have hS1 : stream s1.f = [] ++ [] := stream_after hr1 hS0
    obtain ⟨s2, hk2, hr2, _, hi2⟩ := skipSpace_spec hR [] (scanFuel f) hi1 hS1 (by simp) (Or.inl rfl) (by rw [hfuel]; simp)
    have hS2 : stream s2.f = [] := by rw [reads_nil_stream hr2]; exact hS1
    obtain ⟨s3, hp3, hr3, _, _⟩ := peekRune_eof hR hi2 hS2
    have hall := (hr1.trans hr2).trans hr3
    refine ⟨s3.f, _, hall, ?_, ?_⟩
    · simp [fscanNumber, hk1, hk2, hp3, FileSpec.readFmt, hSd, FileSpec.numClass, ht, toOut]
    · simp [FileSpec.readFmt, hSd, FileSpec.numClass, ht, hall.cur]
  · -- a decimal numeral
    have hne : (S.dropWhile isBlank).isEmpty = false := by
      cases hq : S.dropWhile isBlank with
      | nil => exact absurd hq ht
      | cons a b => rfl
    rw [hne] at hg
    simp only [Bool.false_eq_true, false_or, Bool.and_eq_true] at hg
    obtain ⟨hhex, hdec⟩ := hg
    generalize hT : S.dropWhile isBlank = t at *
    rcases hq : FileSpec.decNumeral t with _ | ⟨tok, rest⟩
    · rw [hq] at hdec; cases hdec
    rw [hq] at hdec
    simp only [Bool.and_eq_true, Bool.or_eq_true, beq_iff_eq] at hdec
    obtain ⟨⟨hrest, hfin⟩, hconv⟩ := hdec
    -- take the numeral apart
    have hdn := hq
    unfold FileSpec.decNumeral at hdn
    simp only at hdn
    split at hdn
    · cases hdn
    rename_i hnd
    have hsgn := spanSign_eq t
    have hfrc := spanFrac_eq ((FileSpec.spanSign t).2.dropWhile isDigit)
    have hexp := spanExp_eq (FileSpec.spanFrac ((FileSpec.spanSign t).2.dropWhile isDigit)).2
    generalize hsg : (FileSpec.spanSign t).1 = sg at *
    generalize hs1 : (FileSpec.spanSign t).2 = s1 at *
    generalize hfr : (FileSpec.spanFrac (s1.dropWhile isDigit)).1 = fr at *
    generalize hs3 : (FileSpec.spanFrac (s1.dropWhile isDigit)).2 = s3 at *
    generalize hex : (FileSpec.spanExp s3).1 = ex at *
    generalize hs4 : (FileSpec.spanExp s3).2 = s4 at *
    simp only [Option.some.injEq, Prod.mk.injEq] at hdn
    obtain ⟨htok, hrs⟩ := hdn
    subst hrs
    have hd1 : ∀ c ∈ s1.takeWhile isDigit, isDigit c = true := fun c hc => mem_tw hc
    have htdec : t = sg ++ (s1.takeWhile isDigit ++ (fr ++ (ex ++ s4))) := by
      rw [hexp.1, hfrc.1, List.takeWhile_append_dropWhile, hsgn.1]
    have htok' : tok = sg ++ (s1.takeWhile isDigit ++ (fr ++ ex)) := by rw [← htok]; simp
    have hrestH : HeadIn (fun c => isBlank c = true) s4 := by
      cases s4 with
      | nil => exact Or.inl rfl
      | cons a b =>
        rcases hrest with h0 | h0
        · simp at h0
        · exact HeadIn.cons (by simpa using h0) _
    -- the first byte of the numeral is ASCII and not white space
    have htne : t ≠ [] := ht
    have hthead : ∃ c t', t = c :: t' ∧ c < 128 ∧ isBlank c = false := by
      have hnb := dropWhile_head isBlank S
      rw [hT] at hnb
      rcases hnb with h0 | ⟨c, t', e, hc⟩
      · exact absurd h0 htne
      · refine ⟨c, t', e, ?_, hc⟩
        -- a sign, a digit or the period
        rw [htdec] at e
        rcases hsgn.2 with h1 | ⟨c1, h1, hc1⟩
        · rw [h1] at e
          cases hq1 : s1.takeWhile isDigit with
          | cons a b =>
            rw [hq1] at e
            have : c = a := by simpa using (List.cons.inj e).1.symm
            subst this
            exact (digit_facts (hd1 c (by rw [hq1]; exact List.mem_cons_self ..))).1
          | nil =>
            rw [hq1] at e
            rcases hfrc.2 with h2 | ⟨d2, h2, _⟩
            · exact absurd ⟨hq1, by rw [h2]; simp⟩ hnd
            · rw [h2] at e
              have : c = 46 := by simpa using (List.cons.inj e).1.symm
              subst this; decide
        · rw [h1] at e
          have : c = c1 := by simpa using (List.cons.inj e).1.symm
          subst this
          exact (sign_facts hc1).1
    obtain ⟨c0, t0, ht0, hc0, hnb0⟩ := hthead
    have hS0 : stream ({ f := f } : Scan).f = S.takeWhile isBlank ++ t := by
      show stream f = _; rw [hSdef]; exact hsplit.symm
    have hTstop : t = [] ∨ ∃ c t', t = c :: t' ∧ c < 128 ∧ isBlank c = false := Or.inr ⟨c0, t0, ht0, hc0, hnb0⟩
    obtain ⟨s1', hk1, hr1, _, hi1⟩ := skipSpace_spec hR _ (scanFuel f) hs0 hS0 hws hTstop (by omega)
    have hS1 : stream s1'.f = [] ++ t := stream_after hr1 hS0
    obtain ⟨s2, hk2, hr2, _, hi2⟩ := skipSpace_spec hR [] (scanFuel f) hi1 hS1 (by simp) hTstop (by rw [hfuel]; simp)
    have hS2 : stream s2.f = c0 :: t0 := by rw [reads_nil_stream hr2, ← ht0]; exact hS1
    obtain ⟨f3, hr3, _, hp3⟩ := peekRune_ascii hR hi2 hS2 hc0
    have hi3 : SInv ({ s2 with f := f3 } : Scan) := ⟨hi2.rd.of_reads hr3, fun he => by
      have := hi2.eof he; rw [hS2] at this; cases this⟩
    have hS3 : stream ({ s2 with f := f3 } : Scan).f = sg ++ (s1.takeWhile isDigit ++ (fr ++ (ex ++ s4))) := by
      show stream f3 = _
      rw [reads_nil_stream hr3, hS2, ← ht0]; exact htdec
    have hlt : t.length ≤ S.length := by omega
    obtain ⟨s4', hft, hr4, hb4, _⟩ := floatToken_dec hR hi3 (scanFuel f) hS3 hsgn.2 hd1 hfrc.2 hnd hexp.2 hrestH
      (by rw [← htdec]; omega)
    rw [← htok'] at hr4 hb4
    have hall := ((hr1.trans hr2).trans hr3).trans hr4
    have hcls : FileSpec.numClass S = .value (S.takeWhile isBlank) tok := by
      have hh : FileSpec.hexNumeral t = none := by
        cases hx : FileSpec.hexNumeral t with
        | none => rfl
        | some v => rw [hx] at hhex; cases hhex
      have hcond : (s4 = [] ∨ Option.map isBlank s4.head? = some true) ∧ FileSpec.roundsFinite (FileSpec.numValue tok) = true := by
        refine ⟨?_, hfin⟩
        rcases hrest with h0 | h0
        · left; simpa using h0
        · right; exact h0
      simp only [FileSpec.numClass, hT]
      rw [ht0] at hh hq
      simp only [ht0, FileSpec.numeralPrefix, hh, hq, hcond, and_self, if_true]
    refine ⟨s4'.f, _, hall, ?_, ?_⟩
    · simp [fscanNumber, hk1, hk2, hp3, hft, hb4, hconv, FileSpec.readFmt, hSd, hcls, toOut]
    · simp [FileSpec.readFmt, hSd, hcls, hall.cur]
      omega

/-! ### the line feed: `SkipSpace` of `Fscanf` gives up at the first one -/

theorem skipSpace_newline {R : Nat} (hR : 0 < R) :
    ∀ (ws : Bytes) (fuel : Nat) {s : Scan} {T : Bytes}, SInv s → stream s.f = ws ++ 10 :: T →
      (∀ c ∈ ws, isBlank c = true ∧ c ≠ 10) → ws.length < fuel →
      ∃ s', skipSpace R fuel s = (s', .newline) ∧ Reads s.f s'.f (ws ++ [10]) := by
  intro ws
  induction ws with
  | nil =>
    intro fuel s T hs hS _ hf
    cases fuel with
    | zero => omega
    | succ n =>
      have hS' : stream s.f = 10 :: T := by rw [hS]; rfl
      obtain ⟨f', hr, ⟨t', hb⟩, hp⟩ := peekRune_ascii hR hs hS' (by decide)
      obtain ⟨h1, _, _⟩ := advance_ascii hs hS' hr hb
      refine ⟨_, ?_, by simpa using h1⟩
      unfold skipSpace
      simp [hp]
  | cons c ws ih =>
    intro fuel s T hs hS hall hf
    cases fuel with
    | zero => omega
    | succ n =>
      have hcb := hall c (List.mem_cons_self ..)
      have hc : c < 128 := by have := hcb.1; byte_omega
      have hS' : stream s.f = c :: (ws ++ 10 :: T) := by rw [hS]; rfl
      obtain ⟨f', hr, ⟨t', hb⟩, hp⟩ := peekRune_ascii hR hs hS' hc
      obtain ⟨h1, h2, h3⟩ := advance_ascii hs hS' hr hb
      have hall' : ∀ c' ∈ ws, isBlank c' = true ∧ c' ≠ 10 := fun c' hc' => hall c' (List.mem_cons_of_mem _ hc')
      have hf' : ws.length < n := by simp at hf; omega
      have h10 : c.toNat ≠ 10 := by have := hcb.2; byte_omega
      have hsp : isSpaceRune c.toNat = true := by have := hcb.1; byte_omega
      by_cases h13 : c.toNat = 13
      · have hh : stream (({ s with f := f' } : Scan).advance 1).f = [] ∨
            ∃ c2 t2, stream (({ s with f := f' } : Scan).advance 1).f = c2 :: t2 ∧ c2 < 128 := by
          rw [h3]
          right
          cases ws with
          | nil => exact ⟨10, T, rfl, by decide⟩
          | cons c2 ws2 =>
            have := (hall' c2 (List.mem_cons_self ..)).1
            exact ⟨c2, ws2 ++ 10 :: T, rfl, by byte_omega⟩
        obtain ⟨s2, r, hp2, hne, hr2, _, hi2⟩ := peekRune_ok hR h2 hh
        have hS2 : stream s2.f = ws ++ 10 :: T := by rw [reads_nil_stream hr2]; exact h3
        obtain ⟨s3, hk, hr3⟩ := ih n hi2 hS2 hall' hf'
        refine ⟨s3, ?_, ?_⟩
        · unfold skipSpace
          simp only [hp, h13, if_true, hp2]
          cases r with
          | err => exact absurd rfl hne
          | eof => exact hk
          | rune a b => exact hk
        · have := (h1.trans hr2).trans hr3
          simpa using this
      · obtain ⟨s3, hk, hr3⟩ := ih n h2 h3 hall' hf'
        refine ⟨s3, ?_, ?_⟩
        · unfold skipSpace
          simp only [hp, h13, h10, if_false, hsp, if_true]
          exact hk
        · have := h1.trans hr3
          simpa using this

/-- **whenever a line feed is among the white space in front of the numeral, `*n` fails** (`errreturn`: nil, "unexpected
    newline", 1) and the cursor stops right after the first line feed — from every state with the invariant, whatever
    follows the line feed. -/
theorem fscanNumber_newline {R : Nat} (hR : 0 < R) {f : LFile} (h : Readable f) {ws T : Bytes}
    (hS : stream f = ws ++ 10 :: T) (hws : ∀ c ∈ ws, isBlank c = true ∧ c ≠ 10) :
    ∃ f', Reads f f' (ws ++ [10]) ∧ fscanNumber R f = (f', .err) := by
  have hs0 : SInv ({ f := f } : Scan) := ⟨h, fun he => by cases he⟩
  have hf : ws.length < scanFuel f := by
    rw [scanFuel_eq, hS]; simp; omega
  obtain ⟨s1, hk, hr⟩ := skipSpace_newline hR ws (scanFuel f) hs0 (T := T) hS hws hf
  exact ⟨s1.f, hr, by simp [fscanNumber, hk]⟩

end GLua.IoFile
