/-
  C19, `*n`: the model of utils.go `readBufioNumber` (fixes/C19-6) reads, from every state satisfying the cursor
  invariant (any read-ahead, any buffer size), exactly what the Spec prescribes on EVERY text whose reading the Spec
  fixes (`FileSpec.numSpecified`).  Core Lean only.
-/
import GLua.Proofs.IoFile

namespace GLua.IoFile
open GLua.FileSpec (Bytes Fmt Whence VBuf Mode Op Res)
open GLua.FileSpec (isBlank isDigit isSign isHexDigit)

def toOut : Option Bytes → ReadOut
  | none => .eof
  | some d => .val d

/-- facts about single bytes: unfold the character classes, go to `Nat`, `omega` -/
macro "byte_omega" : tactic => `(tactic| (
  simp only [isBlank, isDigit, isSign, FileSpec.canStartNumeral, isBlankB, isSignB, isDecB, isZeroB, isXB, isDotB, isEB,
    Bool.or_eq_true, Bool.and_eq_true, Bool.not_eq_true, Bool.or_eq_false_iff, Bool.and_eq_false_iff, Bool.not_eq_true',
    Bool.not_eq_false', bne_iff_ne, decide_eq_true_eq, decide_eq_false_iff_not, beq_iff_eq, beq_eq_false_iff_ne, ne_eq,
    UInt8.le_iff_toNat_le, UInt8.lt_iff_toNat_lt, ← UInt8.toNat_inj, UInt8.toNat_ofNat, UInt8.reduceToNat,
    Nat.reducePow, Nat.reduceMod] at *
  <;> omega))

theorem isBlankB_eq (c : UInt8) : isBlankB c = isBlank c := by
  have h : ∀ n, n < 256 → isBlankB (UInt8.ofNat n) = isBlank (UInt8.ofNat n) := by decide +kernel
  have := h c.toNat (UInt8.toNat_lt c)
  simpa using this

theorem isDecB_eq (c : UInt8) : isDecB c = isDigit c := rfl
theorem isSignB_eq (c : UInt8) : isSignB c = isSign c := rfl

/-- `c|0x20` in 'a'..'f' or a digit: the hexadecimal digits (all 256 bytes, by evaluation) -/
theorem isHexB_eq (c : UInt8) : isHexB c = isHexDigit c := by
  have h : ∀ n, n < 256 → isHexB (UInt8.ofNat n) = isHexDigit (UInt8.ofNat n) := by decide +kernel
  have := h c.toNat (UInt8.toNat_lt c)
  simpa using this

/-! ### one byte -/

theorem brPeekByte_cons {R : Nat} (hR : 0 < R) {f : LFile} (h : Readable f) {c : UInt8} {t : Bytes}
    (hS : stream f = c :: t) :
    ∃ f', Reads f f' [] ∧ (∃ t', f'.rbuf = c :: t') ∧ brPeekByte R f = (f', .byte c) := by
  by_cases he : f.rbuf = []
  · have hd : f.disk.drop f.off = c :: t := by rw [← stream_of_nil he]; exact hS
    have hlen : R - f.rbuf.length = R := by simp [he]
    have hp := reads_pull h R
    have htk : (f.disk.drop f.off).take R = c :: t.take (R - 1) := by
      rw [hd]
      cases R with
      | zero => omega
      | succ n => simp
    have hrb : (f.rbuf ++ (f.disk.drop f.off).take R) = c :: t.take (R - 1) := by rw [he, htk]; rfl
    refine ⟨_, hp, ⟨t.take (R - 1), hrb⟩, ?_⟩
    unfold brPeekByte
    rw [brFill_eq h, hlen]
    simp [he, htk]
  · obtain ⟨c', t', hb⟩ := List.exists_cons_of_ne_nil he
    have : c' = c := by
      have := hS; simp only [stream, hb, List.cons_append] at this
      exact (List.cons.inj this).1
    subst this
    exact ⟨f, Reads.refl h.inv, ⟨t', hb⟩, by simp [brPeekByte, hb]⟩

theorem brPeekByte_nil {R : Nat} {f : LFile} (h : Readable f) (hS : stream f = []) :
    ∃ f', Reads f f' [] ∧ stream f' = [] ∧ brPeekByte R f = (f', .eof) := by
  have he : f.rbuf = [] := by
    have := hS; simp only [stream, List.append_eq_nil_iff] at this; exact this.1
  have hd : f.disk.drop f.off = [] := by rw [← stream_of_nil he]; exact hS
  have hlen : R - f.rbuf.length = R := by simp [he]
  have hp := reads_pull h R
  refine ⟨_, hp, by rw [reads_nil_stream hp]; exact hS, ?_⟩
  unfold brPeekByte
  rw [brFill_eq h, hlen]
  simp [he, hd]

/-- invariant of the reader's state: the bufio.Reader is usable and no read error has been seen -/
structure NInv (s : NScan) : Prop where
  rd : Readable s.f
  noerr : s.ioerr = false

/-- a step of the reader that appends what it consumes to the token -/
structure NStep (s s' : NScan) (out : Bytes) : Prop where
  reads : Reads s.f s'.f out
  tok : s'.tok = s.tok ++ out
  inv : NInv s'

theorem NStep.trans {a b c : NScan} {o1 o2 : Bytes} (h1 : NStep a b o1) (h2 : NStep b c o2) : NStep a c (o1 ++ o2) :=
  ⟨h1.reads.trans h2.reads, by rw [h2.tok, h1.tok, List.append_assoc], h2.inv⟩

theorem stream_after {f f' : LFile} {out T : Bytes} (r : Reads f f' out) (hS : stream f = out ++ T) : stream f' = T := by
  have := r.str; rw [hS] at this
  exact (List.append_cancel_left this).symm

/-- the next byte fails the predicate, or the stream is at its end: `accept` stops -/
def Stops (pred : UInt8 → Bool) (S : Bytes) : Prop := S = [] ∨ ∃ c t, S = c :: t ∧ pred c = false

theorem nAccept_hit {R : Nat} (hR : 0 < R) {pred : UInt8 → Bool} {s : NScan} (hs : NInv s) {c : UInt8} {t : Bytes}
    (hS : stream s.f = c :: t) (hok : pred c = true) :
    ∃ s', nAccept R pred s = (s', true) ∧ NStep s s' [c] ∧ stream s'.f = t := by
  obtain ⟨f', hr, ⟨t', hb⟩, hp⟩ := brPeekByte_cons hR hs.rd hS
  have hc := reads_consume hr.inv 1
  have h2 := hr.trans hc
  have ht : f'.rbuf.take 1 = [c] := by rw [hb]; rfl
  rw [ht] at h2
  have h3 : Reads s.f ({ f' with rbuf := f'.rbuf.drop 1 } : LFile) [c] := by simpa using h2
  refine ⟨{ s with f := { f' with rbuf := f'.rbuf.drop 1 }, tok := s.tok ++ [c] }, by simp [nAccept, hp, hok],
    ⟨h3, rfl, ⟨hs.rd.of_reads h3, hs.noerr⟩⟩, stream_after h3 (by rw [hS]; rfl)⟩

theorem nAccept_stop {R : Nat} (hR : 0 < R) {pred : UInt8 → Bool} {s : NScan} (hs : NInv s) (hst : Stops pred (stream s.f)) :
    ∃ s', nAccept R pred s = (s', false) ∧ NStep s s' [] := by
  rcases hst with h0 | ⟨c, t, hS, hok⟩
  · obtain ⟨f', hr, _, hp⟩ := brPeekByte_nil (R := R) hs.rd h0
    exact ⟨{ s with f := f' }, by simp [nAccept, hp], ⟨hr, by simp, ⟨hs.rd.of_reads hr, hs.noerr⟩⟩⟩
  · obtain ⟨f', hr, _, hp⟩ := brPeekByte_cons hR hs.rd hS
    exact ⟨{ s with f := f' }, by simp [nAccept, hp, hok], ⟨hr, by simp, ⟨hs.rd.of_reads hr, hs.noerr⟩⟩⟩

/-- `for accept(pred) { n++ }` consumes a run of bytes of the class, counts them, and stops at the first other byte -/
theorem nAcceptMany_spec {R : Nat} (hR : 0 < R) {pred : UInt8 → Bool} :
    ∀ (ds : Bytes) (fuel : Nat) {s : NScan} {T : Bytes}, NInv s → stream s.f = ds ++ T →
      (∀ c ∈ ds, pred c = true) → Stops pred T → ds.length < fuel →
      ∃ s', nAcceptMany R pred fuel s = (s', ds.length) ∧ NStep s s' ds := by
  intro ds
  induction ds with
  | nil =>
    intro fuel s T hs hS _ hst hf
    cases fuel with
    | zero => omega
    | succ n =>
      obtain ⟨s', ha, hstep⟩ := nAccept_stop hR hs (by rw [hS]; exact hst)
      exact ⟨s', by simp [nAcceptMany, ha], hstep⟩
  | cons c ds ih =>
    intro fuel s T hs hS hall hst hf
    cases fuel with
    | zero => omega
    | succ n =>
      obtain ⟨s1, ha, hstep, hS1⟩ := nAccept_hit hR hs (t := ds ++ T) (by rw [hS]; rfl) (hall c (List.mem_cons_self ..))
      obtain ⟨s2, hm, hstep2⟩ := ih n hstep.inv hS1 (fun c' hc' => hall c' (List.mem_cons_of_mem _ hc')) hst
        (by simp at hf; omega)
      refine ⟨s2, by simp [nAcceptMany, ha, hm], ?_⟩
      have := hstep.trans hstep2
      simpa using this

/-- the white-space loop consumes all the white space — line feeds included — and nothing else -/
theorem nSkipBlanks_spec {R : Nat} (hR : 0 < R) :
    ∀ (ws : Bytes) (fuel : Nat) {s : NScan} {T : Bytes}, NInv s → stream s.f = ws ++ T →
      (∀ c ∈ ws, isBlank c = true) → Stops isBlank T → ws.length < fuel →
      ∃ s', nSkipBlanks R fuel s = (s', decide (T ≠ [])) ∧ Reads s.f s'.f ws ∧ s'.tok = s.tok ∧ NInv s' := by
  intro ws
  induction ws with
  | nil =>
    intro fuel s T hs hS _ hT hf
    cases fuel with
    | zero => omega
    | succ n =>
      rcases hT with h0 | ⟨c, t, hT, hnb⟩
      · obtain ⟨f', hr, _, hp⟩ := brPeekByte_nil (R := R) hs.rd (by rw [hS, h0]; rfl)
        exact ⟨{ s with f := f' }, by simp [nSkipBlanks, hp, h0], hr, rfl, ⟨hs.rd.of_reads hr, hs.noerr⟩⟩
      · obtain ⟨f', hr, _, hp⟩ := brPeekByte_cons hR hs.rd (c := c) (t := t) (by rw [hS, hT]; rfl)
        exact ⟨{ s with f := f' }, by simp [nSkipBlanks, hp, isBlankB_eq, hnb, hT], hr, rfl, ⟨hs.rd.of_reads hr, hs.noerr⟩⟩
  | cons c ws ih =>
    intro fuel s T hs hS hall hT hf
    cases fuel with
    | zero => omega
    | succ n =>
      have hcb := hall c (List.mem_cons_self ..)
      have hS' : stream s.f = c :: (ws ++ T) := by rw [hS]; rfl
      obtain ⟨f', hr, ⟨t', hb⟩, hp⟩ := brPeekByte_cons hR hs.rd hS'
      have hc := reads_consume hr.inv 1
      have h2 := hr.trans hc
      have ht : f'.rbuf.take 1 = [c] := by rw [hb]; rfl
      rw [ht] at h2
      have h3 : Reads s.f ({ f' with rbuf := f'.rbuf.drop 1 } : LFile) [c] := by simpa using h2
      have hi : NInv ({ s with f := { f' with rbuf := f'.rbuf.drop 1 } } : NScan) := ⟨hs.rd.of_reads h3, hs.noerr⟩
      obtain ⟨s3, hk, hr3, ht3, hi3⟩ := ih n hi (stream_after h3 hS') (fun c' hc' => hall c' (List.mem_cons_of_mem _ hc')) hT
        (by simp at hf; omega)
      refine ⟨s3, ?_, ?_, ht3, hi3⟩
      · unfold nSkipBlanks
        simp only [hp, isBlankB_eq, hcb, if_true]
        exact hk
      · have := h3.trans hr3
        simpa using this

/-! ### the shapes of the Spec's numerals -/

def HeadIn (P : UInt8 → Prop) (L : Bytes) : Prop := L = [] ∨ ∃ c t, L = c :: t ∧ P c

theorem HeadIn.mono {P Q : UInt8 → Prop} {L : Bytes} (h : ∀ c, P c → Q c) : HeadIn P L → HeadIn Q L
  | .inl e => .inl e
  | .inr ⟨c, t, e, p⟩ => .inr ⟨c, t, e, h c p⟩

theorem HeadIn.cons {P : UInt8 → Prop} {c : UInt8} (p : P c) (t : Bytes) : HeadIn P (c :: t) := .inr ⟨c, t, rfl, p⟩

theorem stops_of_headIn {pred : UInt8 → Bool} {L : Bytes} (h : HeadIn (fun c => pred c = false) L) : Stops pred L := h

def ExpShape (ex : Bytes) : Prop :=
  ex = [] ∨ ∃ e sg2 d3, ex = e :: sg2 ++ d3 ∧ (e = 101 ∨ e = 69) ∧
    (sg2 = [] ∨ ∃ c, sg2 = [c] ∧ isSign c = true) ∧ d3 ≠ [] ∧ ∀ c ∈ d3, isDigit c = true

def FracShape (fr : Bytes) : Prop := fr = [] ∨ ∃ d2, fr = 46 :: d2 ∧ ∀ c ∈ d2, isDigit c = true

def SignShape (sg : Bytes) : Prop := sg = [] ∨ ∃ c, sg = [c] ∧ isSign c = true

/-- what can follow the integer digits: a period, an exponent letter, white space, the end -/
def AfterDigits (c : UInt8) : Prop := c = 46 ∨ c = 101 ∨ c = 69 ∨ isBlank c = true
def AfterFrac (c : UInt8) : Prop := c = 101 ∨ c = 69 ∨ isBlank c = true

theorem head_exrest {ex rest : Bytes} (hex : ExpShape ex) (hrest : HeadIn (fun c => isBlank c = true) rest) :
    HeadIn AfterFrac (ex ++ rest) := by
  rcases hex with rfl | ⟨e, sg2, d3, rfl, he, _⟩
  · have : HeadIn AfterFrac rest := hrest.mono (fun c h => Or.inr (Or.inr h))
    simpa using this
  · exact HeadIn.cons (by rcases he with h | h <;> simp [AfterFrac, h]) _

theorem head_frexrest {fr ex rest : Bytes} (hfr : FracShape fr) (hex : ExpShape ex)
    (hrest : HeadIn (fun c => isBlank c = true) rest) : HeadIn AfterDigits (fr ++ (ex ++ rest)) := by
  rcases hfr with rfl | ⟨d2, rfl, _⟩
  · have : HeadIn AfterDigits (ex ++ rest) := (head_exrest hex hrest).mono (fun c h => Or.inr h)
    simpa using this
  · exact HeadIn.cons (Or.inl rfl) _

theorem afterDigits_stop {c : UInt8} (h : AfterDigits c) :
    isDecB c = false ∧ isXB c = false ∧ isZeroB c = false ∧ isSignB c = false := by
  rcases h with h | h | h | h
  · subst h; decide
  · subst h; decide
  · subst h; decide
  · refine ⟨?_, ?_, ?_, ?_⟩ <;> byte_omega

theorem afterFrac_stop {c : UInt8} (h : AfterFrac c) : isDecB c = false ∧ isDotB c = false := by
  rcases h with h | h | h
  · subst h; decide
  · subst h; decide
  · refine ⟨?_, ?_⟩ <;> byte_omega

theorem blank_stop {c : UInt8} (h : isBlank c = true) :
    isDecB c = false ∧ isEB c = false ∧ isHexB c = false ∧ isSignB c = false ∧ isZeroB c = false ∧ isDotB c = false := by
  refine ⟨?_, ?_, ?_, ?_, ?_, ?_⟩
  · byte_omega
  · byte_omega
  · rw [isHexB_eq]; simp only [isHexDigit, Bool.or_eq_false_iff]
    refine ⟨⟨?_, ?_⟩, ?_⟩ <;> byte_omega
  · byte_omega
  · byte_omega
  · byte_omega

theorem digit_facts {c : UInt8} (h : isDigit c = true) :
    isDecB c = true ∧ isXB c = false ∧ isSignB c = false ∧ (c ≠ 48 → isZeroB c = false) ∧ c ≠ 120 ∧ c ≠ 88 := by
  refine ⟨h, ?_, ?_, ?_, ?_, ?_⟩ <;> byte_omega

/-- `accept(isSign)` in front of something that is not a sign: consumes exactly an optional sign. -/
theorem nAcceptSign_spec {R : Nat} (hR : 0 < R) {s : NScan} (hs : NInv s) {sg M : Bytes} (hS : stream s.f = sg ++ M)
    (hsg : SignShape sg) (hM : Stops isSignB M) :
    ∃ s' b, nAccept R isSignB s = (s', b) ∧ NStep s s' sg ∧ stream s'.f = M := by
  rcases hsg with rfl | ⟨c, rfl, hc⟩
  · obtain ⟨s', ha, hst⟩ := nAccept_stop hR hs (by rw [hS]; exact hM)
    exact ⟨s', false, ha, hst, by rw [reads_nil_stream hst.reads]; exact hS⟩
  · obtain ⟨s', ha, hst, hS'⟩ := nAccept_hit hR hs (t := M) (by rw [hS]; rfl) hc
    exact ⟨s', true, ha, hst, hS'⟩

/-- `'0'`? then `'x'`? in front of the integer digits of a decimal numeral: at most a zero is taken, never an `x` -/
theorem nZeroX_dec {R : Nat} (hR : 0 < R) {s : NScan} (hs : NInv s) {d1 T : Bytes}
    (hS : stream s.f = d1 ++ T) (hd1 : ∀ c ∈ d1, isDigit c = true) (hT : HeadIn AfterDigits T) :
    ∃ s2 z d1', d1 = z ++ d1' ∧ nZeroX R s = (s2, z.length, false) ∧ NStep s s2 z ∧ stream s2.f = d1' ++ T := by
  cases d1 with
  | nil =>
    have h0 : Stops isZeroB (stream s.f) := by
      rw [hS]; exact stops_of_headIn (hT.mono fun c h => (afterDigits_stop h).2.2.1)
    obtain ⟨s2, ha, hst⟩ := nAccept_stop hR hs h0
    exact ⟨s2, [], [], rfl, by simp [nZeroX, ha], hst, by rw [reads_nil_stream hst.reads]; exact hS⟩
  | cons c d1' =>
    have hc := hd1 c (List.mem_cons_self ..)
    have hd1' : ∀ c' ∈ d1', isDigit c' = true := fun c' h' => hd1 c' (List.mem_cons_of_mem _ h')
    by_cases hz : c = 48
    · subst hz
      obtain ⟨s2, ha, hst2, hS2⟩ := nAccept_hit hR (pred := isZeroB) hs (c := 48) (t := d1' ++ T) (by rw [hS]; rfl) (by decide)
      have hx : Stops isXB (stream s2.f) := by
        rw [hS2]
        cases d1' with
        | nil => exact stops_of_headIn (hT.mono fun c h => (afterDigits_stop h).2.1)
        | cons c2 d2 => exact Or.inr ⟨c2, _, rfl, (digit_facts (hd1' c2 (List.mem_cons_self ..))).2.1⟩
      obtain ⟨s3, ha3, hst3⟩ := nAccept_stop hR hst2.inv hx
      refine ⟨s3, [48], d1', rfl, by simp [nZeroX, ha, ha3], by simpa using hst2.trans hst3, ?_⟩
      rw [reads_nil_stream hst3.reads]; exact hS2
    · have h0 : Stops isZeroB (stream s.f) := by
        rw [hS]; exact Or.inr ⟨c, _, rfl, (digit_facts hc).2.2.2.1 hz⟩
      obtain ⟨s2, ha, hst⟩ := nAccept_stop hR hs h0
      exact ⟨s2, [], c :: d1', rfl, by simp [nZeroX, ha], hst, by rw [reads_nil_stream hst.reads]; exact hS⟩

/-- the digits and the fraction -/
theorem nMantissa_spec {R : Nat} (hR : 0 < R) {s : NScan} (hs : NInv s) {d1 fr T : Bytes} (fuel : Nat)
    (hS : stream s.f = d1 ++ (fr ++ T)) (hd1 : ∀ c ∈ d1, isDigit c = true) (hfr : FracShape fr)
    (hT : HeadIn AfterFrac T) (hf : d1.length + fr.length < fuel) :
    ∃ s', nMantissa R fuel s = (s', d1.length + (fr.length - 1)) ∧ NStep s s' (d1 ++ fr) ∧ stream s'.f = T := by
  have hTs : Stops isDecB T := stops_of_headIn (hT.mono fun c h => (afterFrac_stop h).1)
  have hT1 : Stops isDecB (fr ++ T) := by
    rcases hfr with rfl | ⟨d2, rfl, _⟩
    · simpa using hTs
    · exact Or.inr ⟨46, _, rfl, by decide⟩
  obtain ⟨s1, hm1, hst1⟩ := nAcceptMany_spec hR (pred := isDecB) d1 fuel hs hS (fun c hc => hd1 c hc) hT1 (by omega)
  have hS1 : stream s1.f = fr ++ T := stream_after hst1.reads hS
  rcases hfr with rfl | ⟨d2, rfl, hd2⟩
  · have h0 : Stops isDotB (stream s1.f) := by
      rw [hS1]; exact stops_of_headIn (by simpa using hT.mono fun c h => (afterFrac_stop h).2)
    obtain ⟨s2, ha, hst2⟩ := nAccept_stop hR hst1.inv h0
    refine ⟨s2, by simp [nMantissa, hm1, ha], by simpa using hst1.trans hst2, ?_⟩
    rw [reads_nil_stream hst2.reads]; simpa using hS1
  · obtain ⟨s2, ha, hst2, hS2⟩ := nAccept_hit hR (pred := isDotB) hst1.inv (c := 46) (t := d2 ++ T) (by rw [hS1]; rfl) (by decide)
    obtain ⟨s3, hm3, hst3⟩ := nAcceptMany_spec hR (pred := isDecB) d2 fuel hst2.inv hS2 (fun c hc => hd2 c hc) hTs (by simp at hf; omega)
    refine ⟨s3, by simp [nMantissa, hm1, ha, hm3], ?_, stream_after hst3.reads hS2⟩
    have := (hst1.trans hst2).trans hst3
    simpa using this

/-- the exponent -/
theorem nExponent_spec {R : Nat} (hR : 0 < R) {s : NScan} (hs : NInv s) {ex T : Bytes} (fuel : Nat)
    (hS : stream s.f = ex ++ T) (hex : ExpShape ex) (hT : HeadIn (fun c => isBlank c = true) T) (hf : ex.length < fuel) :
    NStep s (nExponent R fuel s) ex := by
  have hTs : Stops isDecB T := stops_of_headIn (hT.mono fun c h => (blank_stop h).1)
  rcases hex with rfl | ⟨e, sg2, d3, rfl, he, hsg2, hne, hd3⟩
  · have h0 : Stops isEB (stream s.f) := by
      rw [hS]; exact stops_of_headIn (by simpa using hT.mono fun c h => (blank_stop h).2.1)
    obtain ⟨s', ha, hst⟩ := nAccept_stop hR hs h0
    simpa [nExponent, ha] using hst
  · have hee : isEB e = true := by rcases he with h | h <;> subst h <;> decide
    obtain ⟨s1, ha, hst1, hS1⟩ := nAccept_hit hR hs (c := e) (t := sg2 ++ (d3 ++ T)) (by rw [hS]; simp) hee
    have hM : Stops isSignB (d3 ++ T) := by
      obtain ⟨c3, t3, rfl⟩ := List.exists_cons_of_ne_nil hne
      exact Or.inr ⟨c3, t3 ++ T, rfl, (digit_facts (hd3 c3 (List.mem_cons_self ..))).2.2.1⟩
    obtain ⟨s2, b, ha2, hst2, hS2⟩ := nAcceptSign_spec hR hst1.inv hS1 hsg2 hM
    obtain ⟨s3, hm, hst3⟩ := nAcceptMany_spec hR (pred := isDecB) d3 fuel hst2.inv hS2 (fun c hc => hd3 c hc) hTs (by simp at hf; omega)
    have := (hst1.trans hst2).trans hst3
    simpa [nExponent, ha, ha2, hm] using this

/-- **the token part on a decimal numeral followed by white space or the end of the file reads exactly the numeral.** -/
theorem nToken_dec {R : Nat} (hR : 0 < R) {s : NScan} (hs : NInv s) {sg d1 fr ex rest : Bytes} (fuel : Nat)
    (hS : stream s.f = sg ++ (d1 ++ (fr ++ (ex ++ rest))))
    (hsg : SignShape sg) (hd1 : ∀ c ∈ d1, isDigit c = true) (hfr : FracShape fr)
    (hne : ¬ (d1 = [] ∧ fr.length ≤ 1)) (hex : ExpShape ex)
    (hrest : HeadIn (fun c => isBlank c = true) rest)
    (hfuel : (sg ++ (d1 ++ (fr ++ (ex ++ rest)))).length < fuel) :
    NStep s (nToken R fuel s) (sg ++ (d1 ++ (fr ++ ex))) := by
  have hT1 := head_frexrest hfr hex hrest
  have hT2 := head_exrest hex hrest
  have hlen := hfuel
  simp only [List.length_append] at hlen
  -- the byte after the sign: a digit or the period
  have hM : HeadIn (fun c => isDigit c = true ∨ c = 46) (d1 ++ (fr ++ (ex ++ rest))) := by
    cases d1 with
    | cons c d => exact HeadIn.cons (Or.inl (hd1 c (List.mem_cons_self ..))) _
    | nil =>
      rcases hfr with rfl | ⟨d2, rfl, _⟩
      · exact absurd ⟨rfl, by simp⟩ hne
      · exact HeadIn.cons (Or.inr rfl) _
  have hMs : Stops isSignB (d1 ++ (fr ++ (ex ++ rest))) := stops_of_headIn (hM.mono fun c h => by
    rcases h with h | h
    · exact (digit_facts h).2.2.1
    · subst h; decide)
  obtain ⟨s1, b1, ha1, hst1, hS1⟩ := nAcceptSign_spec hR hs hS hsg hMs
  obtain ⟨s2, z, d1', hz, hzx, hst2, hS2⟩ := nZeroX_dec hR hst1.inv hS1 hd1 hT1
  have hd1' : ∀ c ∈ d1', isDigit c = true := fun c hc => hd1 c (by rw [hz]; exact List.mem_append_right _ hc)
  have hl1 : d1.length = z.length + d1'.length := by rw [hz, List.length_append]
  obtain ⟨s3, hm, hst3, hS3⟩ := nMantissa_spec hR hst2.inv fuel hS2 hd1' hfr hT2 (by omega)
  have hnd : z.length + (d1'.length + (fr.length - 1)) > 0 := by
    apply Classical.byContradiction
    intro hc
    apply hne
    refine ⟨?_, by omega⟩
    apply List.eq_nil_of_length_eq_zero; omega
  have hst4 := nExponent_spec hR hst3.inv fuel hS3 hex hrest (by omega)
  have htok : nToken R fuel s = nExponent R fuel s3 := by
    simp only [nToken, ha1, hzx, hm]
    rw [if_pos hnd]
  rw [htok]
  have := ((hst1.trans hst2).trans hst3).trans hst4
  rw [hz]
  simpa using this

/-- the token part on a hexadecimal integer followed by something that is not a hexadecimal digit -/
theorem nToken_hex {R : Nat} (hR : 0 < R) {s : NScan} (hs : NInv s) {sg hs' rest : Bytes} {x : UInt8} (fuel : Nat)
    (hS : stream s.f = sg ++ (48 :: x :: (hs' ++ rest)))
    (hsg : SignShape sg) (hx : x = 120 ∨ x = 88) (hh : ∀ c ∈ hs', isHexDigit c = true)
    (hrest : HeadIn (fun c => isHexDigit c = false) rest)
    (hfuel : hs'.length < fuel) :
    NStep s (nToken R fuel s) (sg ++ (48 :: x :: hs')) := by
  have hMs : Stops isSignB (48 :: x :: (hs' ++ rest)) := Or.inr ⟨48, _, rfl, by decide⟩
  obtain ⟨s1, b1, ha1, hst1, hS1⟩ := nAcceptSign_spec hR hs hS hsg hMs
  obtain ⟨s2, ha2, hst2, hS2⟩ := nAccept_hit hR (pred := isZeroB) hst1.inv hS1 (by decide)
  have hxb : isXB x = true := by rcases hx with h | h <;> subst h <;> decide
  obtain ⟨s3, ha3, hst3, hS3⟩ := nAccept_hit hR (pred := isXB) hst2.inv hS2 hxb
  obtain ⟨s4, hm, hst4⟩ := nAcceptMany_spec hR (pred := isHexB) hs' fuel hst3.inv hS3 (fun c hc => by rw [isHexB_eq]; exact hh c hc)
    (stops_of_headIn (hrest.mono fun c h => by rw [isHexB_eq]; exact h)) hfuel
  have htok : nToken R fuel s = s4 := by
    simp [nToken, ha1, nZeroX, ha2, ha3, hm]
  rw [htok]
  have := ((hst1.trans hst2).trans hst3).trans hst4
  simpa using this

/-- the token part in front of a byte that cannot begin a numeral (or at the end): nothing is taken -/
theorem nToken_none {R : Nat} (hR : 0 < R) {s : NScan} (hs : NInv s) (fuel : Nat) (hf : 0 < fuel)
    (hh : HeadIn (fun c => isSign c = false ∧ isDigit c = false ∧ c ≠ 46) (stream s.f)) :
    NStep s (nToken R fuel s) [] := by
  obtain ⟨s1, ha1, hst1⟩ := nAccept_stop hR (pred := isSignB) hs (stops_of_headIn (hh.mono fun c h => h.1))
  have hS1 := reads_nil_stream hst1.reads
  have hh1 : HeadIn (fun c => isSign c = false ∧ isDigit c = false ∧ c ≠ 46) (stream s1.f) := by rw [hS1]; exact hh
  obtain ⟨s2, ha2, hst2⟩ := nAccept_stop hR (pred := isZeroB) hst1.inv
    (stops_of_headIn (hh1.mono fun c h => by have := h.2.1; byte_omega))
  have hh2 : HeadIn (fun c => isSign c = false ∧ isDigit c = false ∧ c ≠ 46) (stream s2.f) := by
    rw [reads_nil_stream hst2.reads]; exact hh1
  cases fuel with
  | zero => omega
  | succ n =>
    obtain ⟨s3, ha3, hst3⟩ := nAccept_stop hR (pred := isDecB) hst2.inv (stops_of_headIn (hh2.mono fun c h => h.2.1))
    have hh3 : HeadIn (fun c => isSign c = false ∧ isDigit c = false ∧ c ≠ 46) (stream s3.f) := by
      rw [reads_nil_stream hst3.reads]; exact hh2
    obtain ⟨s4, ha4, hst4⟩ := nAccept_stop hR (pred := isDotB) hst3.inv
      (stops_of_headIn (hh3.mono fun c h => by have := h.2.2; byte_omega))
    have htok : nToken R (n + 1) s = s4 := by
      simp [nToken, ha1, nZeroX, ha2, nMantissa, nAcceptMany, ha3, ha4]
    rw [htok]
    simpa using ((hst1.trans hst2).trans hst3).trans hst4

/-! ### `luaNumeralBase` accepts the Spec's numerals -/

theorem mem_tw {p : UInt8 → Bool} {l : Bytes} {c : UInt8} (h : c ∈ l.takeWhile p) : p c = true := by
  induction l with
  | nil => simp at h
  | cons a r ih =>
    by_cases ha : p a = true
    · rw [List.takeWhile_cons_of_pos ha] at h
      rcases List.mem_cons.mp h with e | e
      · subst e; exact ha
      · exact ih e
    · rw [List.takeWhile_cons_of_neg ha] at h; simp at h

theorem span_stop {p : UInt8 → Bool} {ds T : Bytes} (hall : ∀ c ∈ ds, p c = true) (hT : Stops p T) :
    (ds ++ T).takeWhile p = ds ∧ (ds ++ T).dropWhile p = T := by
  induction ds with
  | nil =>
    rcases hT with rfl | ⟨c, t, rfl, hc⟩
    · simp
    · simp [List.takeWhile_cons, List.dropWhile_cons, hc]
  | cons a r ih =>
    have ha := hall a (List.mem_cons_self ..)
    have := ih (fun c hc => hall c (List.mem_cons_of_mem _ hc))
    simp [List.takeWhile_cons, List.dropWhile_cons, ha, this.1, this.2]

theorem sign_byte {c : UInt8} (h : isSign c = true) : c = 43 ∨ c = 45 := by
  simp only [isSign, Bool.or_eq_true, beq_iff_eq] at h; exact h

theorem stripSignB_sign {sg M : Bytes} (hsg : SignShape sg) (hM : HeadIn (fun c => isSign c = false) M) :
    stripSignB (sg ++ M) = M := by
  rcases hsg with rfl | ⟨c, rfl, hc⟩
  · rcases hM with rfl | ⟨c, t, rfl, hc⟩
    · rfl
    · have h1 : ¬ (c = 43 ∨ c = 45) := by
        intro h; have : isSign c = true := by simp [isSign, h]
        rw [hc] at this; cases this
      simp [stripSignB, h1]
  · simp [stripSignB, sign_byte hc]

theorem isHexPrefix_noX {M : Bytes} (h : ∀ c ∈ M, c ≠ 120 ∧ c ≠ 88) : isHexPrefix M = false := by
  match M with
  | [] => rfl
  | [_] => rfl
  | [_, _] => rfl
  | z :: x :: y :: t =>
    have := h x (by simp)
    simp [isHexPrefix, this.1, this.2]

theorem luaNumeralBase_dec {sg d1 fr ex : Bytes} (hsg : SignShape sg) (hd1 : ∀ c ∈ d1, isDigit c = true)
    (hfr : FracShape fr) (hne : ¬ (d1 = [] ∧ fr.length ≤ 1)) (hex : ExpShape ex) :
    luaNumeralBase (sg ++ (d1 ++ (fr ++ ex))) = 10 := by
  -- the first byte after the sign is a digit or the period
  have hM : HeadIn (fun c => isSign c = false) (d1 ++ (fr ++ ex)) := by
    cases d1 with
    | cons c d => exact HeadIn.cons (by have := hd1 c (List.mem_cons_self ..); byte_omega) _
    | nil =>
      rcases hfr with rfl | ⟨d2, rfl, _⟩
      · exact absurd ⟨rfl, by simp⟩ hne
      · exact HeadIn.cons (by decide) _
  have hstrip := stripSignB_sign hsg hM
  -- no x anywhere
  have hnox : ∀ c ∈ d1 ++ (fr ++ ex), c ≠ 120 ∧ c ≠ 88 := by
    intro c hc
    have hdig : ∀ {c : UInt8}, isDigit c = true → c ≠ 120 ∧ c ≠ 88 := fun h => ⟨(digit_facts h).2.2.2.2.1, (digit_facts h).2.2.2.2.2⟩
    rcases List.mem_append.mp hc with h | h
    · exact hdig (hd1 c h)
    · rcases List.mem_append.mp h with h | h
      · rcases hfr with rfl | ⟨d2, rfl, hd2⟩
        · simp at h
        · rcases List.mem_cons.mp h with e | e
          · subst e; decide
          · exact hdig (hd2 c e)
      · rcases hex with rfl | ⟨e, sg2, d3, rfl, he, hsg2, _, hd3⟩
        · simp at h
        · rcases List.mem_cons.mp h with e1 | e1
          · subst e1; rcases he with h2 | h2 <;> subst h2 <;> decide
          · rcases List.mem_append.mp e1 with e2 | e2
            · rcases hsg2 with rfl | ⟨c2, rfl, hc2⟩
              · simp at e2
              · have : c = c2 := by simpa using e2
                subst this
                rcases sign_byte hc2 with h3 | h3 <;> subst h3 <;> decide
            · exact hdig (hd3 c e2)
  unfold luaNumeralBase
  rw [hstrip, isHexPrefix_noX hnox]
  simp only [Bool.false_eq_true, if_false]
  -- the digits, the fraction, the exponent
  have hE : Stops isDecB ex := by
    rcases hex with rfl | ⟨e, sg2, d3, rfl, he, _⟩
    · exact Or.inl rfl
    · exact Or.inr ⟨e, _, rfl, by rcases he with h | h <;> subst h <;> decide⟩
  have hFE : Stops isDecB (fr ++ ex) := by
    rcases hfr with rfl | ⟨d2, rfl, _⟩
    · simpa using hE
    · exact Or.inr ⟨46, _, rfl, by decide⟩
  obtain ⟨ht1, hdr1⟩ := span_stop (p := isDecB) (fun c hc => hd1 c hc) hFE
  unfold luaNumeralDec
  simp only [ht1, hdr1]
  -- after the mantissa: the digits of the fraction, the exponent part is left
  have hmant : fracDigits (fr ++ ex) = (fr.length - 1, ex) := by
    rcases hfr with rfl | ⟨d2, rfl, hd2⟩
    · rcases hex with rfl | ⟨e, sg2, d3, rfl, he, _⟩
      · rfl
      · have : e ≠ 46 := by rcases he with h | h <;> subst h <;> decide
        simp [fracDigits, this]
    · obtain ⟨h1, h2⟩ := span_stop (p := isDecB) (fun c hc => hd2 c hc) hE
      simp [fracDigits, h1, h2]
  rw [hmant]
  have hnd : d1.length + (fr.length - 1) > 0 := by
    apply Classical.byContradiction
    intro hc
    apply hne
    exact ⟨List.eq_nil_of_length_eq_zero (by omega), by omega⟩
  generalize d1.length + (fr.length - 1) = n at hnd ⊢
  have hn0 : n ≠ 0 := by omega
  rcases hex with rfl | ⟨e, sg2, d3, rfl, he, hsg2, hne3, hd3⟩
  · simp [startsE, hnd, hn0]
  · have heb : (e == 101 || e == 69) = true := by rcases he with h | h <;> subst h <;> decide
    have hd3h : HeadIn (fun c => isSign c = false) d3 := by
      obtain ⟨c3, t3, rfl⟩ := List.exists_cons_of_ne_nil hne3
      exact HeadIn.cons (by have := hd3 c3 (List.mem_cons_self ..); byte_omega) _
    have hs := stripSignB_sign hsg2 hd3h
    obtain ⟨h1, h2⟩ := span_stop (p := isDecB) (T := []) (fun c hc => hd3 c hc) (Or.inl rfl)
    simp only [List.append_nil] at h1 h2
    have hpos : 0 < d3.length := List.length_pos_iff.mpr hne3
    have hd0 : d3.length ≠ 0 := by omega
    simp [startsE, hnd, heb, hs, h1, h2, hne3]

theorem luaNumeralBase_hex {sg hs' : Bytes} {x : UInt8} (hsg : SignShape sg) (hx : x = 120 ∨ x = 88)
    (hne : hs' ≠ []) (hh : ∀ c ∈ hs', isHexDigit c = true) :
    luaNumeralBase (sg ++ (48 :: x :: hs')) = 16 := by
  have hstrip := stripSignB_sign (M := 48 :: x :: hs') hsg (HeadIn.cons (by decide) _)
  obtain ⟨h0, t0, rfl⟩ := List.exists_cons_of_ne_nil hne
  have hxb : (x == 120 || x == 88) = true := by rcases hx with h | h <;> subst h <;> decide
  unfold luaNumeralBase
  rw [hstrip]
  have hall : (h0 :: t0).all isHexB = true := by
    rw [List.all_eq_true]; intro c hc; rw [isHexB_eq]; exact hh c hc
  simp only [isHexPrefix, beq_self_eq_true, hxb, Bool.and_self, if_true, List.drop_succ_cons, List.drop_zero, hall]

/-! ### the Spec's numerals, taken apart -/

theorem spanSign_eq (t : Bytes) : (FileSpec.spanSign t).1 ++ (FileSpec.spanSign t).2 = t ∧ SignShape (FileSpec.spanSign t).1 := by
  cases t with
  | nil => exact ⟨rfl, Or.inl rfl⟩
  | cons c r =>
    by_cases h : isSign c = true
    · simp only [FileSpec.spanSign, h, if_true]
      exact ⟨rfl, Or.inr ⟨c, rfl, h⟩⟩
    · simp only [FileSpec.spanSign, h]
      exact ⟨rfl, Or.inl rfl⟩

theorem spanFrac_eq (l : Bytes) : (FileSpec.spanFrac l).1 ++ (FileSpec.spanFrac l).2 = l ∧ FracShape (FileSpec.spanFrac l).1 := by
  cases l with
  | nil => exact ⟨rfl, Or.inl rfl⟩
  | cons c r =>
    by_cases h : c = 46
    · subst h
      simp only [FileSpec.spanFrac, if_true]
      refine ⟨by simp [List.takeWhile_append_dropWhile], Or.inr ⟨_, rfl, fun c hc => mem_tw hc⟩⟩
    · simp only [FileSpec.spanFrac, h, if_false]
      exact ⟨rfl, Or.inl rfl⟩

theorem spanExp_eq (l : Bytes) : (FileSpec.spanExp l).1 ++ (FileSpec.spanExp l).2 = l ∧ ExpShape (FileSpec.spanExp l).1 := by
  cases l with
  | nil => exact ⟨rfl, Or.inl rfl⟩
  | cons e r =>
    by_cases h : e = 101 ∨ e = 69
    · by_cases hd : (FileSpec.spanSign r).2.takeWhile isDigit = []
      · simp only [FileSpec.spanExp, h, if_true, hd]
        exact ⟨rfl, Or.inl rfl⟩
      · simp only [FileSpec.spanExp, h, if_true, hd, if_false]
        refine ⟨?_, Or.inr ⟨e, _, _, rfl, h, (spanSign_eq r).2, hd, fun c hc => mem_tw hc⟩⟩
        have := (spanSign_eq r).1
        simp only [List.cons_append, List.append_assoc, List.takeWhile_append_dropWhile, this]
    · simp only [FileSpec.spanExp, h, if_false]
      exact ⟨rfl, Or.inl rfl⟩

theorem dropWhile_head (p : UInt8 → Bool) (l : Bytes) : HeadIn (fun c => p c = false) (l.dropWhile p) := by
  induction l with
  | nil => exact Or.inl rfl
  | cons c r ih =>
    by_cases h : p c = true
    · rw [List.dropWhile_cons_of_pos h]; exact ih
    · rw [List.dropWhile_cons_of_neg h]; exact HeadIn.cons (by simpa using h) _

theorem scanFuel_eq (f : LFile) : scanFuel f = (stream f).length + 2 := by
  rw [stream_length]; rfl

/-- what the Spec's classification says about a text that begins with a byte that is not white space -/
inductive TokCase (t : Bytes) : FileSpec.NumClass → Bytes → Prop where
  | dec (sg d1 fr ex rest : Bytes) (ws : Bytes) :
      t = sg ++ (d1 ++ (fr ++ (ex ++ rest))) → SignShape sg → (∀ c ∈ d1, isDigit c = true) → FracShape fr →
      ¬ (d1 = [] ∧ fr.length ≤ 1) → ExpShape ex → HeadIn (fun c => isBlank c = true) rest →
      TokCase t (.value ws (sg ++ (d1 ++ (fr ++ ex)))) ws
  | hex (sg hs' rest : Bytes) (x : UInt8) (ws : Bytes) :
      t = sg ++ (48 :: x :: (hs' ++ rest)) → SignShape sg → (x = 120 ∨ x = 88) → hs' ≠ [] →
      (∀ c ∈ hs', isHexDigit c = true) → HeadIn (fun c => isHexDigit c = false) rest →
      TokCase t (.value ws (sg ++ (48 :: x :: hs'))) ws
  | noMatch (ws : Bytes) :
      HeadIn (fun c => isSign c = false ∧ isDigit c = false ∧ c ≠ 46) t → TokCase t (.nomatch ws) ws

/-- the classification of a specified text, case by case -/
theorem numClass_cases {S : Bytes} (hg : FileSpec.numSpecified S = true) (hne : S.dropWhile isBlank ≠ []) :
    TokCase (S.dropWhile isBlank) (FileSpec.numClass S) (S.takeWhile isBlank) := by
  generalize hT : S.dropWhile isBlank = t at *
  obtain ⟨c0, t0, ht0⟩ := List.exists_cons_of_ne_nil hne
  have hcls : FileSpec.numClass S ≠ .unspecified := by
    simpa [FileSpec.numSpecified] using hg
  unfold FileSpec.numClass at hcls ⊢
  simp only [hT, ht0] at hcls ⊢
  rw [← ht0] at hcls ⊢
  unfold FileSpec.numeralPrefix at hcls ⊢
  rcases hhx : FileSpec.hexNumeral t with _ | ⟨tok, rest⟩
  · rw [hhx] at hcls; simp only at hcls
    simp only [hhx]
    rcases hdc : FileSpec.decNumeral t with _ | ⟨tok, rest⟩
    · -- no numeral: the byte cannot begin one
      rw [hdc] at hcls; simp only at hcls
      simp only [hdc]
      by_cases hcs : (FileSpec.canStartNumeral c0 || decide (c0 ≥ 128)) = true
      · rw [if_pos hcs] at hcls; exact absurd rfl hcls
      · rw [if_neg hcs]
        refine TokCase.noMatch _ ?_
        rw [ht0]
        refine HeadIn.cons ?_ _
        simp only [Bool.or_eq_true, not_or, Bool.not_eq_true] at hcs
        have h1 := hcs.1
        simp only [FileSpec.canStartNumeral, Bool.or_eq_false_iff] at h1
        refine ⟨h1.1.1.1.1.1.2, h1.1.1.1.1.1.1, ?_⟩
        have := h1.1.1.1.1.2
        intro e; subst e; simp at this
    · rw [hdc] at hcls; simp only at hcls
      simp only [hdc]
      by_cases hcond : (rest = [] ∨ rest.head?.map isBlank = some true) ∧ FileSpec.roundsFinite (FileSpec.numValue tok) = true
      · rw [if_pos hcond]
        -- take the decimal numeral apart
        have hdn := hdc
        unfold FileSpec.decNumeral at hdn
        simp only at hdn
        split at hdn
        · cases hdn
        rename_i hnd
        have hsgn := spanSign_eq t
        have hfrc := spanFrac_eq ((FileSpec.spanSign t).2.dropWhile isDigit)
        have hexp := spanExp_eq (FileSpec.spanFrac ((FileSpec.spanSign t).2.dropWhile isDigit)).2
        generalize (FileSpec.spanSign t).1 = sg at *
        generalize (FileSpec.spanSign t).2 = s1 at *
        generalize (FileSpec.spanFrac (s1.dropWhile isDigit)).1 = fr at *
        generalize (FileSpec.spanFrac (s1.dropWhile isDigit)).2 = s3 at *
        generalize (FileSpec.spanExp s3).1 = ex at *
        generalize (FileSpec.spanExp s3).2 = s4 at *
        simp only [Option.some.injEq, Prod.mk.injEq] at hdn
        obtain ⟨htok, hrs⟩ := hdn
        subst hrs
        have htdec : t = sg ++ (s1.takeWhile isDigit ++ (fr ++ (ex ++ s4))) := by
          rw [hexp.1, hfrc.1, List.takeWhile_append_dropWhile, hsgn.1]
        have htok' : tok = sg ++ (s1.takeWhile isDigit ++ (fr ++ ex)) := by rw [← htok]; simp
        have hrestH : HeadIn (fun c => isBlank c = true) s4 := by
          cases s4 with
          | nil => exact Or.inl rfl
          | cons a b =>
            rcases hcond.1 with h0 | h0
            · cases h0
            · exact HeadIn.cons (by simpa using h0) _
        rw [htok']
        exact TokCase.dec sg _ fr ex s4 _ htdec hsgn.2 (fun c hc => mem_tw hc) hfrc.2 hnd hexp.2 hrestH
      · rw [if_neg hcond] at hcls; exact absurd rfl hcls
  · rw [hhx] at hcls; simp only at hcls
    simp only [hhx]
    by_cases hcond : (rest = [] ∨ rest.head?.map isBlank = some true) ∧ FileSpec.roundsFinite (FileSpec.numValue tok) = true
    · rw [if_pos hcond]
      have hdn := hhx
      unfold FileSpec.hexNumeral at hdn
      have hsgn := spanSign_eq t
      generalize (FileSpec.spanSign t).1 = sg at *
      generalize (FileSpec.spanSign t).2 = s1 at *
      match s1, hdn, hsgn with
      | [], hdn, _ => cases hdn
      | [_], hdn, _ => cases hdn
      | z :: x :: t2, hdn, hsgn =>
        simp only at hdn
        split at hdn
        · rename_i hc
          simp only [Option.some.injEq, Prod.mk.injEq] at hdn
          obtain ⟨htok, hrs⟩ := hdn
          obtain ⟨hz, hx, hne2⟩ := hc
          subst hz
          rw [← htok]
          refine TokCase.hex sg _ rest x _ ?_ hsgn.2 hx hne2 (fun c hc => mem_tw hc) ?_
          · rw [← hsgn.1, ← hrs, List.takeWhile_append_dropWhile]
          · rw [← hrs]; exact dropWhile_head _ _
        · cases hdn
    · rw [if_neg hcond] at hcls; exact absurd rfl hcls

/-- **`*n`: on every text whose reading the Spec fixes, the Model reads what the Spec prescribes and the cursor ends
    where the Spec puts it** — for every buffer size and every amount of read-ahead. -/
theorem readBufioNumber_sim {R : Nat} (hR : 0 < R) {f : LFile} (h : Readable f)
    (hg : FileSpec.numSpecified (stream f) = true) :
    ∃ f' out, Reads f f' out ∧
      readBufioNumber R f = (f', toOut (FileSpec.readFmt f.disk (cursor f) .num).1) ∧
      (FileSpec.readFmt f.disk (cursor f) .num).2 = cursor f' := by
  have hSd : f.disk.drop (cursor f) = stream f := h.inv.snap.symm
  generalize hSdef : stream f = S at hg hSd
  have hsplit : S.takeWhile isBlank ++ S.dropWhile isBlank = S := List.takeWhile_append_dropWhile
  have hws : ∀ c ∈ S.takeWhile isBlank, isBlank c = true := fun c hc => mem_tw hc
  have hfuel : scanFuel f = S.length + 2 := by rw [scanFuel_eq, hSdef]
  have hs0 : NInv ({ f := f } : NScan) := ⟨h, rfl⟩
  have hlenS : S.length = (S.takeWhile isBlank).length + (S.dropWhile isBlank).length := by
    rw [← List.length_append, hsplit]
  have hS0 : stream ({ f := f } : NScan).f = S.takeWhile isBlank ++ S.dropWhile isBlank := by
    show stream f = _; rw [hSdef]; exact hsplit.symm
  have hstopT : Stops isBlank (S.dropWhile isBlank) := dropWhile_head isBlank S
  obtain ⟨s1, hk1, hr1, ht1, hi1⟩ := nSkipBlanks_spec hR _ (scanFuel f) hs0 hS0 hws hstopT (by omega)
  have hS1 : stream s1.f = S.dropWhile isBlank := stream_after hr1 hS0
  by_cases ht : S.dropWhile isBlank = []
  · -- nothing but white space up to the end of the file: nil
    refine ⟨s1.f, _, hr1, ?_, ?_⟩
    · simp [readBufioNumber, hk1, ht, hi1.noerr, FileSpec.readFmt, hSd, FileSpec.numClass, toOut]
    · simp [FileSpec.readFmt, hSd, FileSpec.numClass, ht, hr1.cur]
  · have hk1' : nSkipBlanks R (scanFuel f) { f := f } = (s1, true) := by rw [hk1]; simp [ht]
    have hcase := numClass_cases hg ht
    generalize hT : S.dropWhile isBlank = t at *
    have htok0 : s1.tok = [] := ht1
    -- the three shapes
    have key : ∀ (out tok : Bytes) (v : Option Bytes), NStep s1 (nToken R (scanFuel f) s1) out →
        (parseNumberOk out = true → v = some out) → (parseNumberOk out = false → v = none) →
        ∃ f', Reads f f' (S.takeWhile isBlank ++ out) ∧ readBufioNumber R f = (f', toOut v) := by
      intro out tok v hst hv1 hv2
      refine ⟨(nToken R (scanFuel f) s1).f, hr1.trans hst.reads, ?_⟩
      have htk : (nToken R (scanFuel f) s1).tok = out := by rw [hst.tok, htok0]; rfl
      simp only [readBufioNumber, hk1', hst.inv.noerr, Bool.false_eq_true, if_false, htk]
      by_cases hp : parseNumberOk out = true
      · rw [if_pos hp, hv1 hp]; rfl
      · rw [if_neg hp, hv2 (by simpa using hp)]; rfl
    generalize hcls : FileSpec.numClass S = cls at hcase
    generalize hwsd : S.takeWhile isBlank = ws0 at hcase
    cases hcase with
    | dec sg d1 fr ex rest _ htd hsg hd1 hfr hnd hex hrest =>
      subst hwsd
      have hst := nToken_dec hR hi1 (scanFuel f) (by rw [hS1]; exact htd) hsg hd1 hfr hnd hex hrest
        (by rw [← htd]; omega)
      have hok : parseNumberOk (sg ++ (d1 ++ (fr ++ ex))) = true := by
        simp [parseNumberOk, luaNumeralBase_dec hsg hd1 hfr hnd hex]
      obtain ⟨f', hr, he⟩ := key _ [] (some (sg ++ (d1 ++ (fr ++ ex)))) hst (fun _ => rfl) (fun h0 => by rw [hok] at h0; cases h0)
      refine ⟨f', _, hr, ?_, ?_⟩
      · rw [he]; simp [FileSpec.readFmt, hSd, hcls]
      · simp only [FileSpec.readFmt, hSd, hcls, hr.cur, List.length_append]; omega
    | hex sg hs' rest x _ htd hsg hx hne2 hh hrest =>
      subst hwsd
      have hl : hs'.length ≤ t.length := by rw [htd]; simp; omega
      have hst := nToken_hex hR hi1 (scanFuel f) (by rw [hS1]; exact htd) hsg hx hh hrest (by omega)
      have hok : parseNumberOk (sg ++ (48 :: x :: hs')) = true := by
        simp [parseNumberOk, luaNumeralBase_hex hsg hx hne2 hh]
      obtain ⟨f', hr, he⟩ := key _ [] (some (sg ++ (48 :: x :: hs'))) hst (fun _ => rfl) (fun h0 => by rw [hok] at h0; cases h0)
      refine ⟨f', _, hr, ?_, ?_⟩
      · rw [he]; simp [FileSpec.readFmt, hSd, hcls]
      · simp only [FileSpec.readFmt, hSd, hcls, hr.cur, List.length_append]; omega
    | noMatch _ hhead =>
      subst hwsd
      have hst := nToken_none hR hi1 (scanFuel f) (by omega) (by rw [hS1]; exact hhead)
      have hok : parseNumberOk [] = false := by decide
      obtain ⟨f', hr, he⟩ := key [] [] none hst (fun h0 => by rw [hok] at h0; cases h0) (fun _ => rfl)
      refine ⟨f', _, hr, ?_, ?_⟩
      · rw [he]; simp [FileSpec.readFmt, hSd, hcls]
      · simp [FileSpec.readFmt, hSd, hcls, hr.cur]

end GLua.IoFile
