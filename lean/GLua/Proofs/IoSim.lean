/-
  C19: the lFile model (unbuffered writer) simulates the one-cursor Spec, operation by operation.
-/
import GLua.Proofs.IoFile
import GLua.Proofs.IoScan

namespace GLua.IoFile
open GLua.FileSpec (Bytes Fmt Whence VBuf Mode Op Res Stream)

/-- the abstraction function: what the Spec sees of a handle whose writer holds nothing. -/
def absOf (f : LFile) : Stream :=
  { bytes := f.disk, cur := cursor f, canRead := f.hasReader, canWrite := f.wr, app := f.app, closed := f.closed }

def Unbuf (f : LFile) : Prop := f.writer = .none ∨ f.writer = .direct

/-- simulation invariant; `pend` is the flag of `FileSpec.disc` (an input operation since the last
    seek/flush): while it is false the read-ahead of a writable handle is empty. -/
structure Sim (pend : Bool) (f : LFile) : Prop where
  inv : Inv f
  unbuf : Unbuf f
  fresh : pend = false → f.wr = true → f.rbuf = []
  closedNil : f.closed = true → f.rbuf = []

theorem pending_unbuf {f : LFile} (h : Unbuf f) : pending f = [] := by
  rcases h with h | h <;> simp [pending, h]

theorem flushWriter_unbuf {f : LFile} (h : Unbuf f) : flushWriter f = .ok f := by
  rcases h with h | h <;> simp [flushWriter, h]

/-- the state after a successful `AbandonReadBuffer` -/
def aband (f : LFile) : LFile :=
  if f.hasReader then { f with off := f.off - f.rbuf.length, rbuf := [] } else f

theorem abandon_eq {f : LFile} (hc : f.closed = false) (hle : f.rbuf.length ≤ f.off) :
    abandonReadBuffer f = .ok (aband f) := by
  unfold abandonReadBuffer aband osSeek
  by_cases hr : f.hasReader = true
  · simp only [hr, if_true, hc]
    have h1 : ¬ ((f.off : Int) + -(f.rbuf.length : Int) < 0) := by omega
    have h2 : ((f.off : Int) + -(f.rbuf.length : Int)).toNat = f.off - f.rbuf.length := by omega
    simp [h1, h2]
  · simp [hr]

theorem abandonIgnore_eq {f : LFile} (hc : f.closed = false) (hle : f.rbuf.length ≤ f.off) :
    abandonIgnore f = aband f := by
  simp [abandonIgnore, abandon_eq hc hle]

theorem aband_rbuf {f : LFile} (h : Inv f) : (aband f).rbuf = [] := by
  unfold aband
  by_cases hr : f.hasReader = true
  · simp [hr]
  · simp only [hr]; exact h.nord (by simpa using hr)

theorem aband_cursor {f : LFile} : cursor (aband f) = cursor f := by
  unfold aband cursor
  by_cases hr : f.hasReader = true <;> simp [hr]

theorem aband_frame (f : LFile) : Frame f (aband f) := by
  unfold aband
  by_cases hr : f.hasReader = true <;> simp [hr, Frame]

theorem inv_frame_nil {f f' : LFile} (h : Inv f) (hf : Frame f f') (hn : f'.rbuf = []) : Inv f' := by
  obtain ⟨_, _, h3, h4, h5, h6, _⟩ := hf
  exact inv_of_rbuf_nil hn (by rw [h5, h3]; exact h.caps) (by rw [h6, h4]; exact h.wcap)

theorem aband_inv {f : LFile} (h : Inv f) : Inv (aband f) :=
  inv_frame_nil h (aband_frame f) (aband_rbuf h)

theorem absOf_frame {f f' : LFile} (hf : Frame f f') : absOf f' = { absOf f with cur := cursor f' } := by
  obtain ⟨h1, h2, _, h4, h5, _, h7⟩ := hf
  simp [absOf, h1, h2, h4, h5, h7]

theorem absOf_aband (f : LFile) : absOf (aband f) = absOf f := by
  rw [absOf_frame (aband_frame f), aband_cursor]; rfl

theorem unbuf_frame {f f' : LFile} (h : Unbuf f) (hf : Frame f f') : Unbuf f' := by
  unfold Unbuf; rw [hf.2.2.2.2.2.1]; exact h

/-- the stream of a handle is the disk from its cursor on. -/
theorem stream_eq {f : LFile} (h : Inv f) : stream f = f.disk.drop (cursor f) := h.snap

/-! ### reads -/

theorem lineOf_eq (S : Bytes) : lineOf S = S.takeWhile (· ≠ 10) := by
  unfold lineOf
  cases h : nlIndex S with
  | none => simp only; exact (takeWhile_of_nlIndex_none h).symm
  | some i => simp only; exact (takeWhile_of_nlIndex_some h).symm

theorem lineLen_eq (S : Bytes) :
    lineLen S = (S.takeWhile (· ≠ 10)).length + (if (S.takeWhile (· ≠ 10)).length < S.length then 1 else 0) := by
  unfold lineLen
  cases h : nlIndex S with
  | none => simp only; rw [takeWhile_of_nlIndex_none h]; simp
  | some i =>
    have hi := (nlIndex_some_spec h).1
    simp only; rw [takeWhile_of_nlIndex_some h, List.length_take, Nat.min_eq_left (Nat.le_of_lt hi)]
    simp [hi]

/-- one format: the Model delivers what the Spec prescribes at the cursor, and the cursor moves alike. -/
theorem readOne_sim {R : Nat} (hR : 0 < R) {f : LFile} (h : Readable f) (fm : Fmt)
    (hcr : fm = .line → (13 : UInt8) ∉ f.disk)
    (hnum : fm = .num → FileSpec.numSpecified (f.disk.drop (cursor f)) = true) (hstr : ∀ s, fm ≠ .str s) :
    ∃ f' out, Reads f f' out ∧
      readOne R f fm = (f', toOut (FileSpec.readFmt f.disk (cursor f) fm).1) ∧
      (FileSpec.readFmt f.disk (cursor f) fm).2 = cursor f' := by
  have hS := stream_eq h.inv
  cases fm with
  | count n =>
    cases n with
    | zero =>
      obtain ⟨f1, hr1, he1⟩ := peekEOF_spec hR h
      simp only [readOne, he1, FileSpec.readFmt]
      by_cases hs : stream f = []
      · simp only [hs, if_true]
        have : ¬ cursor f < f.disk.length := by
          intro hlt; rw [hS] at hs
          have := congrArg List.length hs; simp at this; omega
        refine ⟨f1, [], hr1, by simp [this, toOut], by rw [hr1.cur]; simp⟩
      · simp only [hs, if_false]
        obtain ⟨f2, hr2, he2⟩ := readBufioSize_spec hR (h.of_reads hr1) 0
        have : cursor f < f.disk.length := by
          rw [hS] at hs
          apply Classical.byContradiction; intro hlt
          exact hs (List.drop_of_length_le (Nat.le_of_not_lt hlt))
        refine ⟨f2, [] ++ (stream f1).take 0, hr1.trans hr2, ?_, ?_⟩
        · rw [he2]; simp [this, toOut]
        · rw [hr2.cur, hr1.cur]; simp
    | succ n =>
      obtain ⟨f1, hr1, he1⟩ := readBufioSize_spec hR h (n + 1)
      refine ⟨f1, _, hr1, ?_, ?_⟩
      · simp only [readOne, he1, FileSpec.readFmt, ← hS]
        by_cases hs : stream f = []
        · simp [hs, toOut]
        · have : (stream f).take (n + 1) ≠ [] := fun h0 => hs (take_eq_nil_pos (by omega) h0)
          simp [hs, this, toOut]
      · simp only [FileSpec.readFmt, ← hS]
        rw [hr1.cur]
        by_cases hs : (stream f).take (n + 1) = []
        · simp [hs]
        · simp [hs]
  | line =>
    have hcr' : (13 : UInt8) ∉ stream f := by
      rw [hS]; intro hm; exact hcr rfl (List.mem_of_mem_drop hm)
    obtain ⟨f1, hr1, he1⟩ := readBufioLine_spec hR h hcr'
    refine ⟨f1, _, hr1, ?_, ?_⟩
    · simp only [readOne, he1, FileSpec.readFmt, ← hS]
      by_cases hs : stream f = []
      · simp [hs, toOut]
      · simp [hs, toOut, lineOf_eq]
    · simp only [FileSpec.readFmt, ← hS]
      rw [hr1.cur]
      by_cases hs : stream f = []
      · simp [hs, lineLen, nlIndex]
      · simp only [hs, if_false]
        have hle : lineLen (stream f) ≤ (stream f).length := by
          unfold lineLen
          cases hn : nlIndex (stream f) with
          | none => simp
          | some i => have := (nlIndex_some_spec hn).1; simp only; omega
        rw [List.length_take, Nat.min_eq_left hle, lineLen_eq]; omega
  | all =>
    obtain ⟨f1, hr1, _, he1⟩ := readAll_spec h
    refine ⟨f1, _, hr1, ?_, ?_⟩
    · simp only [readOne, he1, FileSpec.readFmt, ← hS, toOut]
    · simp only [FileSpec.readFmt]
      rw [hr1.cur, hS, List.length_drop]; omega
  | num =>
    have hg := hnum rfl
    rw [← hS] at hg
    obtain ⟨f1, o1, hr1, he1, hc1⟩ := readBufioNumber_sim hR h hg
    exact ⟨f1, o1, hr1, by simpa only [readOne] using he1, hc1⟩
  | str s => exact absurd rfl (hstr s)

/-- an invalid format string raises at once, whatever follows. -/
theorem readLoop_invalid (R : Nat) (f : LFile) (s : Bytes) (rest : List Fmt)
    (hi : FileSpec.classify (.str s) = .invalid) :
    readLoop R f (expandFmt (.str s) ++ rest) = (f, [], .raise) := by
  match s with
  | [] => simp [expandFmt, readLoop, readOne]
  | [c] => simp [expandFmt, readLoop, readOne]
  | c :: c2 :: t =>
    by_cases hc : c = 42
    · subst hc
      have h2 : c2 ≠ 110 ∧ c2 ≠ 108 ∧ c2 ≠ 97 := by
        cases t with
        | nil =>
          simp only [FileSpec.classify] at hi
          refine ⟨?_, ?_, ?_⟩ <;> intro h0 <;> simp [h0] at hi
        | cons t1 t2 =>
          simp only [FileSpec.classify] at hi
          refine ⟨?_, ?_, ?_⟩ <;> intro h0 <;> simp [h0] at hi
      simp [expandFmt, optFmt, h2.1, h2.2.1, h2.2.2, readLoop, readOne]
    · simp [expandFmt, hc, readLoop, readOne]

/-- a format the manual defines, however it is written ("*l" as `line` or as the string): the Model serves the
    same primitive format -/
theorem expand_classify {fm g : Fmt} (h : FileSpec.classify fm = .is g) : expandFmt fm = [g] ∧ ∀ s, g ≠ .str s := by
  cases fm with
  | str s =>
    match s with
    | [] => simp [FileSpec.classify] at h
    | [_] => simp [FileSpec.classify] at h
    | [a, c] =>
      simp only [FileSpec.classify] at h
      by_cases ha : a = 42
      · subst ha
        by_cases h1 : c = 110
        · subst h1; simp at h; subst h; exact ⟨rfl, fun s e => by cases e⟩
        · by_cases h2 : c = 108
          · subst h2; simp at h; subst h; exact ⟨rfl, fun s e => by cases e⟩
          · by_cases h3 : c = 97
            · subst h3; simp at h; subst h; exact ⟨rfl, fun s e => by cases e⟩
            · simp [h1, h2, h3] at h
      · simp [ha] at h
    | a :: c :: d :: t =>
      simp only [FileSpec.classify] at h
      split at h <;> cases h
  | count n => simp only [FileSpec.classify] at h; cases h; exact ⟨rfl, fun s e => by cases e⟩
  | line => simp only [FileSpec.classify] at h; cases h; exact ⟨rfl, fun s e => by cases e⟩
  | all => simp only [FileSpec.classify] at h; cases h; exact ⟨rfl, fun s e => by cases e⟩
  | num => simp only [FileSpec.classify] at h; cases h; exact ⟨rfl, fun s e => by cases e⟩

/-- **the format loop**: on every call whose meaning the Spec fixes (`readSpecified`: formats the manual defines or
    liolib rejects; every `*n` that is reached meets a specified text) the Model returns the Spec's values, raises
    where the Spec raises, and moves the cursor alike. -/
theorem readLoop_sim {R : Nat} (hR : 0 < R) :
    ∀ (fs : List Fmt) {f : LFile}, Readable f →
      ((∃ fm ∈ fs, FileSpec.classify fm = .is .line) → (13 : UInt8) ∉ f.disk) →
      FileSpec.readSpecified f.disk (cursor f) fs = true →
      ∃ f' out, Reads f f' out ∧
        readLoop R f (fs.flatMap expandFmt) =
          (f', (FileSpec.readFmts f.disk (cursor f) fs).1,
           if (FileSpec.readFmts f.disk (cursor f) fs).2.2 then RStat.raise else RStat.done) ∧
        (FileSpec.readFmts f.disk (cursor f) fs).2.1 = cursor f' := by
  intro fs
  induction fs with
  | nil => intro f h _ _; exact ⟨f, [], Reads.refl h.inv, rfl, rfl⟩
  | cons fm fs ih =>
    intro f h hcr hp
    rcases hcl : FileSpec.classify fm with g | _ | _
    · -- a defined format
      obtain ⟨hex, hstr'⟩ := expand_classify hcl
      simp only [FileSpec.readSpecified, hcl, Bool.and_eq_true, Bool.or_eq_true, decide_eq_true_eq] at hp
      have hnum : g = .num → FileSpec.numSpecified (f.disk.drop (cursor f)) = true := by
        intro e
        rcases hp.1 with h1 | h1
        · exact absurd e (by simpa using h1)
        · exact h1
      obtain ⟨f1, o1, hr1, he1, hc1⟩ := readOne_sim hR h g
        (fun e => hcr ⟨fm, List.mem_cons_self .., by rw [hcl, e]⟩) hnum hstr'
      rcases hq : FileSpec.readFmt f.disk (cursor f) g with ⟨v, c⟩
      rw [hq] at he1 hc1
      have hrest := hp.2
      rw [hq] at hrest
      simp only at he1 hc1 hrest
      rw [List.flatMap_cons, hex, List.singleton_append]
      cases v with
      | none =>
        refine ⟨f1, o1, hr1, ?_, ?_⟩
        · simp [readLoop, he1, toOut, FileSpec.readFmts, hcl, hq]
        · simp [FileSpec.readFmts, hcl, hq, hc1]
      | some d =>
        have hd : f1.disk = f.disk := hr1.frame.1
        obtain ⟨f2, o2, hr2, he2, hc2⟩ := ih (h.of_reads hr1)
          (fun ⟨fm', hm, hc'⟩ => by rw [hd]; exact hcr ⟨fm', List.mem_cons_of_mem _ hm, hc'⟩)
          (by rw [hd, ← hc1]; exact hrest)
        rw [hd, ← hc1] at he2 hc2
        refine ⟨f2, o1 ++ o2, hr1.trans hr2, ?_, ?_⟩
        · simp [readLoop, he1, toOut, FileSpec.readFmts, hcl, hq, he2]
        · simp [FileSpec.readFmts, hcl, hq, hc2]
    · -- an invalid format: both raise
      have hs : ∃ s, fm = .str s := by
        cases fm with
        | str s => exact ⟨s, rfl⟩
        | _ => simp [FileSpec.classify] at hcl
      obtain ⟨s, rfl⟩ := hs
      refine ⟨f, [], Reads.refl h.inv, ?_, ?_⟩
      · rw [List.flatMap_cons, readLoop_invalid R f s _ hcl]
        simp [FileSpec.readFmts, hcl]
      · simp [FileSpec.readFmts, hcl]
    · simp [FileSpec.readSpecified, hcl] at hp

/-! ### the simulation, operation by operation -/

/-- the `pending` flag of `FileSpec.disc` after an operation -/
def pendNext (pend : Bool) (o : Op) : Bool :=
  match o with
  | .write _ => false
  | _ => if FileSpec.isInput o then true else if FileSpec.isSeparator o then false else pend

def usesLine : Op → Bool
  | .read fs => fs = [] ∨ ∃ fm ∈ fs, FileSpec.classify fm = .is .line
  | .iter => true
  | _ => false

def isBuffering : Op → Bool
  | .setvbuf .full _ | .setvbuf .line _ => true
  | _ => false

theorem sim_readable {pend : Bool} {f : LFile} (h : Sim pend f) (hc : f.closed = false) (hr : f.hasReader = true) :
    Readable f :=
  ⟨h.inv, by rw [← h.inv.caps]; exact hr, hc, pending_unbuf h.unbuf⟩

theorem sim_of_reads {pend : Bool} {f f' : LFile} {o : Bytes} (h : Sim pend f) (hc : f.closed = false)
    (r : Reads f f' o) : Sim true f' :=
  ⟨r.inv, unbuf_frame h.unbuf r.frame, (fun h0 => by cases h0),
   (fun h1 => by
    have h2 := r.frame.2.2.2.2.2.2
    rw [h2, hc] at h1; cases h1)⟩

theorem sim_aband {pend pend' : Bool} {f : LFile} (h : Sim pend f) : Sim pend' (aband f) :=
  ⟨aband_inv h.inv, unbuf_frame h.unbuf (aband_frame f), fun _ _ => aband_rbuf h.inv, fun _ => aband_rbuf h.inv⟩

/-- **closed_handle_guard** (any handle state, buffered or not): on a closed handle every operation raises and
    the handle, the descriptor and the disk stay exactly as they were. -/
theorem step_closed (R : Nat) {f : LFile} (hc : f.closed = true) (op : Op) (hro : ∀ m, op ≠ .reopen m) :
    step R f op = (f, .raise) := by
  cases op with
  | write s => simp [step, fileWriteAux, hc]
  | read fs => simp [step, fileReadAux, hc]
  | lines => simp [step, fileLines, hc]
  | iter => simp [step, fileLinesIter, hc]
  | seek w d => simp [step, fileSeek, hc]
  | flush => simp [step, fileFlushAux, hc]
  | setvbuf m n => simp [step, fileSetVBuf, hc]
  | reopen m => exact absurd rfl (hro m)
  | close =>
    have hself : ({ f with closed := true } : LFile) = f := by cases f; simp_all
    have hab : abandonIgnore f = f := by
      unfold abandonIgnore abandonReadBuffer osSeek
      by_cases hr : f.hasReader = true <;> simp [hr, hc]
    simp only [step, fileCloseAux]
    cases hw : f.writer with
    | none => simp [flushWriter, hw, hab, hc]
    | direct => simp [flushWriter, hw, hab, hc]
    | buffered sz p =>
      by_cases hp : p = []
      · simp [flushWriter, hw, hp, hab, hc]
      · simp [flushWriter, hw, hp, osWrite, hc, Except.map]
        rw [← hw]; exact hself

theorem spec_step_closed {s : Stream} (hc : s.closed = true) (op : Op) (hro : ∀ m, op ≠ .reopen m) :
    FileSpec.step s op = (s, .raise) := by
  cases op with
  | reopen m => exact absurd rfl (hro m)
  | _ => simp [FileSpec.step, hc]

theorem write_sim {f : LFile} (h : Sim false f) (hc : f.closed = false) (s : Bytes) :
    (fileWriteAux f s).2 = (FileSpec.step (absOf f) (.write s)).2 ∧
    (FileSpec.step (absOf f) (.write s)).1 = absOf (fileWriteAux f s).1 ∧
    Sim false (fileWriteAux f s).1 := by
  have hac : (absOf f).closed = false := hc
  rcases h.unbuf with hw | hw
  · have hwr : f.wr = false := h.inv.wcap.mp hw
    have : (absOf f).canWrite = false := hwr
    simp [fileWriteAux, hc, hw, FileSpec.step, hac, this, h]
  · have hwr : f.wr = true := by
      cases hq : f.wr with
      | true => rfl
      | false => have := h.inv.wcap.mpr hq; rw [hw] at this; cases this
    have hcw : (absOf f).canWrite = true := hwr
    have hrb := h.fresh rfl hwr
    by_cases hs : s = []
    · have hle : f.rbuf.length ≤ f.off := h.inv.le
      have hw0 : fileWriteAux f s = (aband f, .ok) := by
        simp only [fileWriteAux, hc, hw, osWrite, hwr, hs]
        simp only [Bool.false_eq_true, if_false, Bool.not_true, if_true]
        rw [abandonIgnore_eq hc hle]
      rw [hw0]
      refine ⟨?_, ?_, sim_aband h⟩
      · simp [FileSpec.step, hac, hcw, hs]
      · rw [absOf_aband]; simp [FileSpec.step, hac, hcw, hs]
    · let pos := if f.app then f.disk.length else f.off
      let f1 : LFile := { f with disk := diskWrite f.disk pos s, off := pos + s.length }
      have hi1 : Inv f1 := inv_of_rbuf_nil hrb h.inv.caps h.inv.wcap
      have hs1 : Sim false f1 := ⟨hi1, h.unbuf, fun _ _ => hrb, fun _ => hrb⟩
      have hle1 : f1.rbuf.length ≤ f1.off := by simp [f1, hrb]
      have hw1 : fileWriteAux f s = (aband f1, .ok) := by
        simp only [fileWriteAux, hc, hw, osWrite, hwr, hs]
        simp only [Bool.false_eq_true, if_false, Bool.not_true]
        rw [← abandonIgnore_eq (show f1.closed = false from hc) hle1]
        congr 2
        simp [f1, pos, hwr, hw, hc]
      rw [hw1]
      refine ⟨?_, ?_, sim_aband hs1⟩
      · simp [FileSpec.step, hac, hcw, hs]
      · rw [absOf_aband]
        have hcur : cursor f = f.off := by simp [cursor, hrb]
        simp only [FileSpec.step, hac, hcw, hs]
        simp only [Bool.false_eq_true, if_false, Bool.not_true]
        simp [absOf, f1, pos, cursor, hrb, FileSpec.writeAt, diskWrite, hs, hwr, hc]

theorem sim_wr {pend : Bool} {f : LFile} (h : Sim pend f) :
    (f.writer = .none ∧ f.wr = false) ∨ (f.writer = .direct ∧ f.wr = true) := by
  rcases h.unbuf with hw | hw
  · exact Or.inl ⟨hw, h.inv.wcap.mp hw⟩
  · refine Or.inr ⟨hw, ?_⟩
    cases hq : f.wr with
    | true => rfl
    | false => have := h.inv.wcap.mpr hq; rw [hw] at this; cases this

/-- the operations whose meaning the Spec fixes in the state `s`: every read is `readSpecified` (this is a guard of
    the SPEC — what the manual / C leave open —, not a proof-effort guard: all of it is proved). -/
def opProved (s : Stream) : Op → Bool
  | .read fs => s.closed || !s.canRead || FileSpec.readSpecified s.bytes s.cur (if fs = [] then [.line] else fs)
  | _ => true

theorem read_sim {R : Nat} (hR : 0 < R) {pend : Bool} {f : LFile} (h : Sim pend f) (hc : f.closed = false)
    (fs : List Fmt) (hcr : usesLine (.read fs) = true → (13 : UInt8) ∉ f.disk)
    (hfp : opProved (absOf f) (.read fs) = true) :
    (fileReadAux R f fs).2 = (FileSpec.step (absOf f) (.read fs)).2 ∧
    (FileSpec.step (absOf f) (.read fs)).1 = absOf (fileReadAux R f fs).1 ∧
    Sim true (fileReadAux R f fs).1 := by
  have hac : (absOf f).closed = false := hc
  by_cases hr : f.hasReader = true
  · have hcr' : (∃ fm ∈ (if fs = [] then [Fmt.line] else fs), FileSpec.classify fm = .is .line) → (13 : UInt8) ∉ f.disk := by
      intro hm; apply hcr
      by_cases he : fs = []
      · simp [usesLine, he]
      · simp only [he, if_false] at hm
        simp only [usesLine, decide_eq_true_eq]
        exact Or.inr hm
    have hfp' : FileSpec.readSpecified f.disk (cursor f) (if fs = [] then [Fmt.line] else fs) = true := by
      simpa [opProved, absOf, hc, hr] using hfp
    obtain ⟨f', out, hrd, he, hcur⟩ := readLoop_sim hR (if fs = [] then [Fmt.line] else fs) (sim_readable h hc hr) hcr' hfp'
    have hcan : (absOf f).canRead = true := hr
    have hm : fileReadAux R f fs = (f', if (FileSpec.readFmts f.disk (cursor f) (if fs = [] then [Fmt.line] else fs)).2.2 then .raise
        else .vals (FileSpec.readFmts f.disk (cursor f) (if fs = [] then [Fmt.line] else fs)).1) := by
      simp only [fileReadAux, hc, hr, flushWriter_unbuf h.unbuf, he]
      by_cases hx : (FileSpec.readFmts f.disk (cursor f) (if fs = [] then [Fmt.line] else fs)).2.2 = true <;> simp [hx]
    rw [hm]
    refine ⟨?_, ?_, sim_of_reads h hc hrd⟩
    · simp [FileSpec.step, absOf, hc, hr]
    · rw [absOf_frame hrd.frame, ← hcur]
      simp [FileSpec.step, absOf, hc, hr]
  · have hr' : f.hasReader = false := by simpa using hr
    have hcan : (absOf f).canRead = false := hr'
    have hm : fileReadAux R f fs = (f, .fail) := by simp [fileReadAux, hc, hr']
    rw [hm]
    refine ⟨by simp [FileSpec.step, hac, hcan], by simp [FileSpec.step, hac, hcan], ?_⟩
    exact ⟨h.inv, h.unbuf, (fun h0 => by cases h0), h.closedNil⟩

theorem lines_sim {pend : Bool} {f : LFile} (h : Sim pend f) (hc : f.closed = false) :
    (fileLines f).2 = (FileSpec.step (absOf f) .lines).2 ∧
    (FileSpec.step (absOf f) .lines).1 = absOf (fileLines f).1 ∧
    Sim pend (fileLines f).1 := by
  have hac : (absOf f).closed = false := hc
  by_cases hr : f.hasReader = true
  · have hcan : (absOf f).canRead = true := hr
    simp [fileLines, hc, hr, FileSpec.step, hac, hcan, h]
  · have hr' : f.hasReader = false := by simpa using hr
    have hcan : (absOf f).canRead = false := hr'
    simp [fileLines, hc, hr', FileSpec.step, hac, hcan, h]

theorem self_of_rbuf_nil {f : LFile} (h : f.rbuf = []) : ({ f with rbuf := [] } : LFile) = f := by
  cases f; simp_all

/-- a handle whose descriptor cannot be read: the line reader fails at once and changes nothing. -/
theorem readBufioLine_unreadable {R : Nat} (hR : 0 < R) {f : LFile} (hrd : f.rd = false) (hrb : f.rbuf = []) :
    readBufioLine R f = (f, .err) := by
  have hfill : brFill R f = (f, .err) := by
    unfold brFill osRead
    by_cases hc : f.closed = true <;> simp [hc, hrd]
  have hslice : brReadSlice R (R + 1) f = (f, .atEof [] true) := by
    unfold brReadSlice
    have : ¬ (f.rbuf.length ≥ R) := by rw [hrb]; simp; omega
    simp only [hrb, nlIndex, hfill]
    simp only [List.length_nil, ge_iff_le, Nat.le_zero_eq, Nat.ne_of_gt hR, if_false]
    congr 1
    cases f; simp_all
  have hline : brReadLine R f = (f, .err) := by
    unfold brReadLine; rw [hslice]; simp
  have hf : lineFuel f = (f.disk.length - f.off + 1) + 1 := by simp [lineFuel, hrb]
  unfold readBufioLine
  rw [hf]
  simp [readBufioLineLoop, hline]

theorem iter_sim {R : Nat} (hR : 0 < R) {pend : Bool} {f : LFile} (h : Sim pend f) (hc : f.closed = false)
    (hcr : (13 : UInt8) ∉ f.disk) :
    (fileLinesIter R f).2 = (FileSpec.step (absOf f) .iter).2 ∧
    (FileSpec.step (absOf f) .iter).1 = absOf (fileLinesIter R f).1 ∧
    Sim true (fileLinesIter R f).1 := by
  by_cases hr : f.hasReader = true
  · obtain ⟨f', out, hrd, he, hcur⟩ := readOne_sim hR (sim_readable h hc hr) .line (fun _ => hcr) (fun e => by cases e) (fun s e => by cases e)
    simp only [readOne] at he
    rcases hq : FileSpec.readFmt f.disk (cursor f) .line with ⟨v, c⟩
    rw [hq] at he hcur
    simp only at he hcur
    cases v with
    | none =>
      have hm : fileLinesIter R f = (f', .vals [none]) := by
        simp [fileLinesIter, hc, flushWriter_unbuf h.unbuf, he, toOut]
      rw [hm]
      refine ⟨?_, ?_, sim_of_reads h hc hrd⟩
      · simp [FileSpec.step, absOf, hc, hr, hq]
      · rw [absOf_frame hrd.frame, ← hcur]; simp [FileSpec.step, absOf, hc, hr, hq]
    | some d =>
      have hm : fileLinesIter R f = (f', .vals [some d]) := by
        simp [fileLinesIter, hc, flushWriter_unbuf h.unbuf, he, toOut]
      rw [hm]
      refine ⟨?_, ?_, sim_of_reads h hc hrd⟩
      · simp [FileSpec.step, absOf, hc, hr, hq]
      · rw [absOf_frame hrd.frame, ← hcur]; simp [FileSpec.step, absOf, hc, hr, hq]
  · have hr' : f.hasReader = false := by simpa using hr
    have hrd : f.rd = false := by rw [← h.inv.caps]; exact hr'
    have hm : fileLinesIter R f = (f, .raise) := by
      simp [fileLinesIter, hc, flushWriter_unbuf h.unbuf, readBufioLine_unreadable hR hrd (h.inv.nord hr')]
    rw [hm]
    refine ⟨by simp [FileSpec.step, absOf, hc, hr'], by simp [FileSpec.step, absOf, hc, hr'], ?_⟩
    exact ⟨h.inv, h.unbuf, (fun h0 => by cases h0), h.closedNil⟩

theorem aband_off {f : LFile} (h : Inv f) : (aband f).off = cursor f := by
  unfold aband cursor
  by_cases hr : f.hasReader = true
  · simp [hr]
  · have := h.nord (by simpa using hr); simp [hr, this]

def seekBase (g : LFile) : Whence → Int
  | .set => 0
  | .cur => g.off
  | .«end» => g.disk.length

theorem osSeek_eq {g : LFile} (hc : g.closed = false) (w : Whence) (d : Int) :
    osSeek g w d = if seekBase g w + d < 0 then .error .einval
      else .ok ({ g with off := (seekBase g w + d).toNat }, (seekBase g w + d).toNat) := by
  cases w <;> simp [osSeek, seekBase, hc]

theorem seek_sim {pend : Bool} {f : LFile} (h : Sim pend f) (hc : f.closed = false) (w : Whence) (d : Int) :
    (fileSeek f w d).2 = (FileSpec.step (absOf f) (.seek w d)).2 ∧
    (FileSpec.step (absOf f) (.seek w d)).1 = absOf (fileSeek f w d).1 ∧
    Sim false (fileSeek f w d).1 := by
  have hg : Sim false (aband f) := sim_aband h
  have hgc : (aband f).closed = false := by rw [(aband_frame f).2.2.2.2.2.2]; exact hc
  have hoff := aband_off h.inv
  have hdisk : (aband f).disk = f.disk := (aband_frame f).1
  have hrb := aband_rbuf h.inv
  have ht : FileSpec.seekTarget (absOf f) w d = seekBase (aband f) w + d := by
    cases w <;> simp [FileSpec.seekTarget, seekBase, absOf, hoff, hdisk]
  by_cases hneg : FileSpec.seekTarget (absOf f) w d < 0
  · have hm : fileSeek f w d = (aband f, .fail) := by
      simp only [fileSeek, hc, flushWriter_unbuf h.unbuf, abandon_eq hc h.inv.le, osSeek_eq hgc]
      rw [← ht]; simp [hneg]
    rw [hm, absOf_aband]
    exact ⟨by simp [FileSpec.step, show (absOf f).closed = false from hc, hneg],
           by simp [FileSpec.step, show (absOf f).closed = false from hc, hneg], hg⟩
  · have hm : fileSeek f w d = ({ aband f with off := (FileSpec.seekTarget (absOf f) w d).toNat },
        .pos (FileSpec.seekTarget (absOf f) w d).toNat) := by
      simp only [fileSeek, hc, flushWriter_unbuf h.unbuf, abandon_eq hc h.inv.le, osSeek_eq hgc]
      rw [← ht]; simp [hneg]
    rw [hm]
    refine ⟨by simp [FileSpec.step, show (absOf f).closed = false from hc, hneg], ?_, ?_⟩
    · obtain ⟨h1, h2, _, h4, h5, _, h7⟩ := aband_frame f
      simp only [FileSpec.step, show (absOf f).closed = false from hc, hneg]
      simp [absOf, cursor, hrb, h1, h2, h4, h5, h7, hc]
    · exact ⟨inv_of_rbuf_nil hrb hg.inv.caps hg.inv.wcap, hg.unbuf, fun _ _ => hrb, fun _ => hrb⟩

theorem flush_sim {pend : Bool} {f : LFile} (h : Sim pend f) (hc : f.closed = false) :
    (fileFlushAux f).2 = (FileSpec.step (absOf f) .flush).2 ∧
    (FileSpec.step (absOf f) .flush).1 = absOf (fileFlushAux f).1 ∧
    Sim false (fileFlushAux f).1 := by
  rcases sim_wr h with ⟨hw, hwr⟩ | ⟨hw, hwr⟩
  · have hm : fileFlushAux f = (f, .fail) := by simp [fileFlushAux, hc, hw]
    rw [hm]
    have hsim : Sim false f := ⟨h.inv, h.unbuf, (fun _ h1 => by rw [hwr] at h1; cases h1), h.closedNil⟩
    exact ⟨by simp [FileSpec.step, absOf, hc, hwr], by simp [FileSpec.step, absOf, hc, hwr], hsim⟩
  · have hm : fileFlushAux f = (aband f, .ok) := by
      simp [fileFlushAux, hc, hw, flushWriter_unbuf h.unbuf, abandon_eq hc h.inv.le]
    rw [hm, absOf_aband]
    exact ⟨by simp [FileSpec.step, absOf, hc, hwr], by simp [FileSpec.step, absOf, hc, hwr], sim_aband h⟩

theorem setvbuf_sim {pend : Bool} {f : LFile} (h : Sim pend f) (hc : f.closed = false) (n : Nat) :
    (fileSetVBuf f .no n).2 = (FileSpec.step (absOf f) (.setvbuf .no n)).2 ∧
    (FileSpec.step (absOf f) (.setvbuf .no n)).1 = absOf (fileSetVBuf f .no n).1 ∧
    Sim pend (fileSetVBuf f .no n).1 := by
  rcases sim_wr h with ⟨hw, hwr⟩ | ⟨hw, hwr⟩
  · have hm : fileSetVBuf f .no n = (f, .fail) := by simp [fileSetVBuf, hc, hw]
    rw [hm]
    exact ⟨by simp [FileSpec.step, absOf, hc, hwr], by simp [FileSpec.step, absOf, hc, hwr], h⟩
  · have hself : ({ f with writer := .direct } : LFile) = f := by cases f; simp_all
    have hm : fileSetVBuf f .no n = (f, .ok) := by
      simp [fileSetVBuf, hc, hw, flushWriter_unbuf h.unbuf]
      cases f; simp_all
    rw [hm]
    exact ⟨by simp [FileSpec.step, absOf, hc, hwr], by simp [FileSpec.step, absOf, hc, hwr], h⟩

theorem close_sim {pend : Bool} {f : LFile} (h : Sim pend f) (hc : f.closed = false) :
    (fileCloseAux f).2 = (FileSpec.step (absOf f) .close).2 ∧
    (FileSpec.step (absOf f) .close).1 = absOf (fileCloseAux f).1 ∧
    Sim false (fileCloseAux f).1 := by
  have hg : Sim false (aband f) := sim_aband h
  have hgc : (aband f).closed = false := by rw [(aband_frame f).2.2.2.2.2.2]; exact hc
  have hrb := aband_rbuf h.inv
  have hm : fileCloseAux f = ({ aband f with closed := true }, .ok) := by
    simp [fileCloseAux, flushWriter_unbuf h.unbuf, abandonIgnore_eq hc h.inv.le, hgc]
  rw [hm]
  refine ⟨by simp [FileSpec.step, absOf, hc], ?_, ?_⟩
  · obtain ⟨h1, h2, _, h4, h5, _, h7⟩ := aband_frame f
    have hcur : cursor (aband f) = cursor f := aband_cursor
    simp only [FileSpec.step, show (absOf f).closed = false from hc]
    simp [absOf, h1, h2, h4, h5, hcur, cursor] at hcur ⊢
    simp [cursor, hrb] at hcur ⊢
    exact hcur.symm
  · exact ⟨inv_of_rbuf_nil hrb hg.inv.caps hg.inv.wcap, hg.unbuf, fun _ _ => hrb, fun _ => hrb⟩

theorem absOf_open (d : Bytes) (m : Mode) : absOf (ioOpenFile d m) = FileSpec.openStream d m := by
  cases m <;> simp [absOf, ioOpenFile, FileSpec.openStream, cursor, FileSpec.Mode.trunc, FileSpec.Mode.canRead,
    FileSpec.Mode.canWrite, FileSpec.Mode.app]

theorem sim_open (d : Bytes) (m : Mode) : Sim false (ioOpenFile d m) := by
  have hrb : (ioOpenFile d m).rbuf = [] := by cases m <;> rfl
  refine ⟨inv_of_rbuf_nil hrb ?_ ?_, ?_, fun _ _ => hrb, fun _ => hrb⟩
  · cases m <;> rfl
  · cases m <;> simp [ioOpenFile]
  · cases m <;> simp [Unbuf, ioOpenFile]

/-- **one step of the simulation** (unbuffered writer). -/
theorem step_sim {R : Nat} (hR : 0 < R) {pend : Bool} {f : LFile} (h : Sim pend f) (op : Op)
    (hw : ∀ s, op = .write s → pend = false)
    (hro : ∀ m, op = .reopen m → f.closed = true)
    (hnb : isBuffering op = false)
    (hcr : usesLine op = true → (13 : UInt8) ∉ f.disk)
    (hfp : opProved (absOf f) op = true) :
    (step R f op).2 = (FileSpec.step (absOf f) op).2 ∧
    (FileSpec.step (absOf f) op).1 = absOf (step R f op).1 ∧
    Sim (pendNext pend op) (step R f op).1 := by
  by_cases hre : ∃ m, op = .reopen m
  · obtain ⟨m, rfl⟩ := hre
    refine ⟨by simp [step, FileSpec.step], ?_, ?_⟩
    · simp only [step, FileSpec.step]; rw [absOf_open]; rfl
    · simpa [step, pendNext, FileSpec.isInput, FileSpec.isSeparator] using sim_open f.disk m
  · have hre' : ∀ m, op ≠ .reopen m := fun m e => hre ⟨m, e⟩
    by_cases hc : f.closed = true
    · rw [step_closed R hc op hre', spec_step_closed (show (absOf f).closed = true from hc) op hre']
      refine ⟨rfl, rfl, h.inv, h.unbuf, fun _ _ => h.closedNil hc, h.closedNil⟩
    · have hc' : f.closed = false := by simpa using hc
      cases op with
      | write s =>
        have hp := hw s rfl; subst hp
        simpa [step, pendNext] using write_sim h hc' s
      | read fs => simpa [step, pendNext, FileSpec.isInput] using read_sim hR h hc' fs hcr hfp
      | lines => simpa [step, pendNext, FileSpec.isInput, FileSpec.isSeparator] using lines_sim h hc'
      | iter => simpa [step, pendNext, FileSpec.isInput] using iter_sim hR h hc' (hcr rfl)
      | seek w d => simpa [step, pendNext, FileSpec.isInput, FileSpec.isSeparator] using seek_sim h hc' w d
      | flush => simpa [step, pendNext, FileSpec.isInput, FileSpec.isSeparator] using flush_sim h hc'
      | setvbuf m n =>
        cases m with
        | no => simpa [step, pendNext, FileSpec.isInput, FileSpec.isSeparator] using setvbuf_sim h hc' n
        | full => simp [isBuffering] at hnb
        | line => simp [isBuffering] at hnb
      | close => simpa [step, pendNext, FileSpec.isInput, FileSpec.isSeparator] using close_sim h hc'
      | reopen m => exact absurd rfl (hre' m)

/-! ### whole histories -/

/-- the formats of the original vocabulary: count, `*l`, `*a` -/
def isPlainFmt : Fmt → Bool
  | .count _ | .line | .all => true
  | _ => false

def plainOp : Op → Bool
  | .read fs => fs.all isPlainFmt
  | _ => true

/-- no `*n`, no format given as a raw string (those are covered by the state-dependent guard `opProved`, see
    `wrun_sim`) -/
def plainReads (ops : List Op) : Prop := ∀ o ∈ ops, plainOp o = true

instance (ops : List Op) : Decidable (plainReads ops) := by unfold plainReads; infer_instance

theorem readSpecified_plain (b : Bytes) : ∀ (fs : List Fmt) (cur : Nat), fs.all isPlainFmt = true →
    FileSpec.readSpecified b cur fs = true := by
  intro fs
  induction fs with
  | nil => intro _ _; rfl
  | cons g fs ih =>
    intro cur h
    simp only [List.all_cons, Bool.and_eq_true] at h
    cases g with
    | num => simp [isPlainFmt] at h
    | str s => simp [isPlainFmt] at h
    | count n => simp only [FileSpec.readSpecified, FileSpec.classify]; split <;> simp_all
    | line => simp only [FileSpec.readSpecified, FileSpec.classify]; split <;> simp_all
    | all => simp only [FileSpec.readSpecified, FileSpec.classify]; split <;> simp_all

theorem opProved_plain (s : Stream) {o : Op} (h : plainOp o = true) : opProved s o = true := by
  cases o with
  | read fs =>
    simp only [plainOp] at h
    simp only [opProved, Bool.or_eq_true]
    refine Or.inr (readSpecified_plain _ _ _ ?_)
    by_cases he : fs = []
    · simp [he, isPlainFmt]
    · simpa [he] using h
  | _ => rfl

def noBuffering (ops : List Op) : Prop := ∀ o ∈ ops, isBuffering o = false

/-- either no line-oriented read occurs, or no CR byte is ever in the file (open finding C19-readline-strips-cr). -/
def writeCRFree : Op → Bool
  | .write s => decide ((13 : UInt8) ∉ s)
  | _ => true

def lineSafe (d : Bytes) (ops : List Op) : Prop :=
  (∀ o ∈ ops, usesLine o = false) ∨ ((13 : UInt8) ∉ d ∧ ∀ o ∈ ops, writeCRFree o = true)

instance (ops : List Op) : Decidable (noBuffering ops) := by unfold noBuffering; infer_instance
instance (d : Bytes) (ops : List Op) : Decidable (lineSafe d ops) := by unfold lineSafe; infer_instance

theorem disc_cons {pend : Bool} {o : Op} {os : List Op} (h : FileSpec.disc pend (o :: os) = true) :
    (∀ s, o = .write s → pend = false) ∧ FileSpec.disc (pendNext pend o) os = true := by
  cases o <;> simp_all [FileSpec.disc, pendNext]

theorem spec_closed_flag (s : Stream) (o : Op) :
    (FileSpec.step s o).1.closed =
      match o with
      | .reopen _ => false
      | .close => true
      | _ => s.closed := by
  by_cases hc : s.closed = true
  · cases o <;> simp [FileSpec.step, hc, FileSpec.openStream]
  · have hc' : s.closed = false := by simpa using hc
    cases o with
    | write d =>
      by_cases h1 : s.canWrite = true <;> by_cases h2 : d = [] <;> simp [FileSpec.step, hc', h1, h2]
    | read fs => by_cases h1 : s.canRead = true <;> simp [FileSpec.step, hc', h1]
    | lines => by_cases h1 : s.canRead = true <;> simp [FileSpec.step, hc', h1]
    | iter => by_cases h1 : s.canRead = true <;> simp [FileSpec.step, hc', h1]
    | seek w d => by_cases h1 : FileSpec.seekTarget s w d < 0 <;> simp [FileSpec.step, hc', h1]
    | flush => by_cases h1 : s.canWrite = true <;> simp [FileSpec.step, hc', h1]
    | setvbuf m n => by_cases h1 : s.canWrite = true <;> simp [FileSpec.step, hc', h1]
    | close => simp [FileSpec.step, hc']
    | reopen m => simp [FileSpec.step, FileSpec.openStream]

theorem reopenOk_cons {s : Stream} {o : Op} {os : List Op} (h : FileSpec.reopenOk s.closed (o :: os) = true) :
    (∀ m, o = .reopen m → s.closed = true) ∧ FileSpec.reopenOk (FileSpec.step s o).1.closed os = true := by
  rw [spec_closed_flag]
  cases o <;> simp_all [FileSpec.reopenOk]

theorem mem_writeAt {b d : Bytes} {p : Nat} {x : UInt8} (hx : x ≠ 0) (h : x ∈ FileSpec.writeAt b p d) :
    x ∈ b ∨ x ∈ d := by
  unfold FileSpec.writeAt at h
  by_cases hd : d = []
  · simp [hd] at h; exact Or.inl h
  · simp only [hd, if_false, List.mem_append, List.mem_replicate] at h
    rcases h with ((h | h) | h) | h
    · exact Or.inl (List.mem_of_mem_take h)
    · exact absurd h.2 hx
    · exact Or.inr h
    · exact Or.inl (List.mem_of_mem_drop h)

theorem spec_bytes_crfree {s : Stream} {o : Op} (h : (13 : UInt8) ∉ s.bytes)
    (hw : ∀ d, o = .write d → (13 : UInt8) ∉ d) : (13 : UInt8) ∉ (FileSpec.step s o).1.bytes := by
  by_cases hc : s.closed = true
  · cases o with
    | reopen m => cases m <;> simp [FileSpec.step, FileSpec.openStream, FileSpec.Mode.trunc, h]
    | _ => simp [FileSpec.step, hc, h]
  · have hc' : s.closed = false := by simpa using hc
    cases o with
    | write d =>
      by_cases h1 : s.canWrite = true <;> by_cases h2 : d = [] <;> simp [FileSpec.step, hc', h1, h2, h]
      intro hm
      rcases mem_writeAt (by decide) hm with h3 | h3
      · exact h h3
      · exact hw d rfl h3
    | read fs => by_cases h1 : s.canRead = true <;> simp [FileSpec.step, hc', h1, h]
    | lines => by_cases h1 : s.canRead = true <;> simp [FileSpec.step, hc', h1, h]
    | iter => by_cases h1 : s.canRead = true <;> simp [FileSpec.step, hc', h1, h]
    | seek w d => by_cases h1 : FileSpec.seekTarget s w d < 0 <;> simp [FileSpec.step, hc', h1, h]
    | flush => by_cases h1 : s.canWrite = true <;> simp [FileSpec.step, hc', h1, h]
    | setvbuf m n => by_cases h1 : s.canWrite = true <;> simp [FileSpec.step, hc', h1, h]
    | close => simp [FileSpec.step, hc', h]
    | reopen m => cases m <;> simp [FileSpec.step, FileSpec.openStream, FileSpec.Mode.trunc, h]

theorem lineSafe_cons {s : Stream} {o : Op} {os : List Op} (h : lineSafe s.bytes (o :: os)) :
    (usesLine o = true → (13 : UInt8) ∉ s.bytes) ∧ lineSafe (FileSpec.step s o).1.bytes os := by
  rcases h with h | ⟨h1, h2⟩
  · refine ⟨fun hu => ?_, Or.inl (fun o' ho' => h o' (List.mem_cons_of_mem _ ho'))⟩
    have := h o (List.mem_cons_self ..); rw [this] at hu; cases hu
  · refine ⟨fun _ => h1, Or.inr ⟨?_, fun o' ho' => h2 o' (List.mem_cons_of_mem _ ho')⟩⟩
    refine spec_bytes_crfree h1 (fun d hd => ?_)
    have := h2 o (List.mem_cons_self ..)
    subst hd; simpa [writeCRFree] using this

/-- **the refinement, for whole histories** (unbuffered writer): same results, and the final handle abstracts to
    the Spec's final state (same bytes on disk, same cursor, same closed flag). -/
theorem run_sim {R : Nat} (hR : 0 < R) :
    ∀ (ops : List Op) {pend : Bool} {f : LFile}, Sim pend f →
      FileSpec.disc pend ops = true → FileSpec.reopenOk f.closed ops = true →
      noBuffering ops → lineSafe f.disk ops → plainReads ops →
      (run R f ops).2 = (FileSpec.run (absOf f) ops).2 ∧
      absOf (run R f ops).1 = (FileSpec.run (absOf f) ops).1 := by
  intro ops
  induction ops with
  | nil => intro pend f _ _ _ _ _ _; exact ⟨rfl, rfl⟩
  | cons o os ih =>
    intro pend f h hd hro hnb hls hpl
    obtain ⟨hw, hd'⟩ := disc_cons hd
    obtain ⟨hro1, hro'⟩ := reopenOk_cons (s := absOf f) hro
    obtain ⟨hcr, hls'⟩ := lineSafe_cons (s := absOf f) hls
    obtain ⟨hres, habs, hsim⟩ := step_sim hR h o hw hro1 (hnb o (List.mem_cons_self ..)) hcr
      (opProved_plain _ (hpl o (List.mem_cons_self ..)))
    rw [habs] at hro' hls'
    obtain ⟨ih1, ih2⟩ := ih hsim hd' hro' (fun o' ho' => hnb o' (List.mem_cons_of_mem _ ho')) hls'
      (fun o' ho' => hpl o' (List.mem_cons_of_mem _ ho'))
    simp only [run, FileSpec.run]
    rw [habs]
    exact ⟨by rw [hres, ih1], ih2⟩

end GLua.IoFile
