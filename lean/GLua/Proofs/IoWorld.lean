/-
  C19, the `io` library level: default files (`io.input/output/read/write/flush/close`), `io.lines`, `io.type`,
  `tostring`.  The world model (`IoFile.wstep`) simulates the Spec (`FileSpec.wstep`) operation by operation; every
  world operation reduces to `step_sim` on the current handle, or touches no handle at all.  Core Lean only.
-/
import GLua.Proofs.IoSim

namespace GLua.IoFile
open GLua.FileSpec (Bytes Fmt Whence VBuf Mode Op Res Stream Slot WOp WStream)

/-- what the Spec sees of a world -/
def absW (w : World) : WStream := { s := absOf w.f, defIn := w.defIn, defOut := w.defOut }

/-- the guard of one handle operation in the Spec state `s` (`pend`: an input operation since the last
    seek/flush): the ISO C discipline, one handle at a time, the unbuffered writer, CR-free line reads, and reads
    of `opProved`. -/
def stepGuard (pend : Bool) (s : Stream) (o : Op) : Bool :=
  (match o with | .write _ => !pend | _ => true) &&
  (match o with | .reopen _ => s.closed | _ => true) &&
  !isBuffering o &&
  (!usesLine o || !s.bytes.contains 13) &&
  opProved s o

/-- the guard of one world operation: its default slot holds a handle of the file; the handle operation it
    performs is within `stepGuard`; `io.lines()` over an open handle that cannot be read is left out (what it
    returns is not fixed by the property, cf. `lines`).  No deviation of the code is excluded any more. -/
def wopProved (pend : Bool) (w : WStream) (op : WOp) : Bool :=
  FileSpec.slotOk w op &&
  (match op with
   | .ioLines => !(decide (w.defIn = .cur) && !w.s.closed && !w.s.canRead)
   | _ => true) &&
  (match FileSpec.effOp w op with
   | none => true
   | some o => stepGuard pend w.s o)

/-- the discipline flag after a world operation -/
def wpendNext (pend : Bool) (w : WStream) (op : WOp) : Bool :=
  match FileSpec.effOp w op with
  | none => pend
  | some o => pendNext pend o

/-- the guard along a history, evaluated on the Spec's states -/
def wguard (pend : Bool) (w : WStream) : List WOp → Bool
  | [] => true
  | o :: os => wopProved pend w o && wguard (wpendNext pend w o) (FileSpec.wstep w o).1 os

theorem stepGuard_elim {pend : Bool} {f : LFile} {o : Op} (h : stepGuard pend (absOf f) o = true) :
    (∀ s, o = .write s → pend = false) ∧ (∀ m, o = .reopen m → f.closed = true) ∧ isBuffering o = false ∧
    (usesLine o = true → (13 : UInt8) ∉ f.disk) ∧ opProved (absOf f) o = true := by
  simp only [stepGuard, Bool.and_eq_true] at h
  obtain ⟨⟨⟨⟨h1, h2⟩, h3⟩, h4⟩, h5⟩ := h
  refine ⟨?_, ?_, by simpa using h3, ?_, h5⟩
  · intro s e; subst e; simpa using h1
  · intro m e; subst e; simpa [absOf] using h2
  · intro hu
    rw [hu] at h4
    simpa [absOf] using h4

/-- one handle operation of the current handle, lifted to the world -/
theorem onSlot_cur_sim {R : Nat} (hR : 0 < R) {pend : Bool} {w : World} (h : Sim pend w.f) (o : Op)
    (hg : stepGuard pend (absOf w.f) o = true) (hnr : ∀ m, o ≠ .reopen m) :
    (w.onSlot R .cur o).2 = ((absW w).onSlot .cur o).2 ∧
    ((absW w).onSlot .cur o).1 = absW (w.onSlot R .cur o).1 ∧
    Sim (pendNext pend o) (w.onSlot R .cur o).1.f := by
  obtain ⟨h1, h2, h3, h4, h5⟩ := stepGuard_elim hg
  obtain ⟨hres, habs, hsim⟩ := step_sim hR h o h1 h2 h3 h4 h5
  refine ⟨?_, ?_, ?_⟩
  · simpa [World.onSlot, WStream.onSlot, absW] using hres
  · simp only [World.onSlot, WStream.onSlot, absW]
    rw [habs]
  · simpa [World.onSlot] using hsim

theorem absW_newHandle (w : World) (f' : LFile) (a b : Bool) :
    absW (w.newHandle f' a b) = (absW w).newHandle (absOf f') a b := by
  simp [absW, World.newHandle, WStream.newHandle]

/-- `ioOutput(name)` is `fopen(name, "w")` (fixes/C19-8: O_TRUNC). -/
theorem absOf_ioOutputFile (d : Bytes) : absOf (ioOutputFile d) = FileSpec.openStream d .w := by
  simp [absOf, ioOutputFile, FileSpec.openStream, cursor, FileSpec.Mode.trunc, FileSpec.Mode.canRead,
    FileSpec.Mode.canWrite, FileSpec.Mode.app]

theorem sim_ioOutputFile (d : Bytes) : Sim false (ioOutputFile d) := by
  refine ⟨inv_of_rbuf_nil rfl rfl ?_, Or.inr rfl, fun _ _ => rfl, fun _ => rfl⟩
  simp [ioOutputFile]

/-- `ioLinesIter` on the current handle: like `fileLinesIter`, and with `toclose` the file is closed at the end. -/
theorem ioLinesIter_sim {R : Nat} (hR : 0 < R) {pend : Bool} {f : LFile} (h : Sim pend f) (auto : Bool)
    (hcr : (13 : UInt8) ∉ f.disk) :
    let r := FileSpec.step (absOf f) .iter
    (ioLinesIter R f auto).2 = r.2 ∧
    absOf (ioLinesIter R f auto).1 = (if auto ∧ r.2 = .vals [none] then { r.1 with closed := true } else r.1) ∧
    Sim true (ioLinesIter R f auto).1 := by
  intro r
  by_cases hc : f.closed = true
  · have hm : ioLinesIter R f auto = (f, .raise) := by simp [ioLinesIter, hc]
    have hr : r = (absOf f, .raise) := spec_step_closed (show (absOf f).closed = true from hc) .iter (by intro m e; cases e)
    rw [hm, hr]
    refine ⟨rfl, by simp, h.inv, h.unbuf, (fun h0 => by cases h0), h.closedNil⟩
  · have hc' : f.closed = false := by simpa using hc
    obtain ⟨hres, habs, hsim⟩ := iter_sim hR h hc' hcr
    rcases hq : readBufioLine R f with ⟨f2, out⟩
    have hne : ∀ {x : Res}, x = (FileSpec.step (absOf f) .iter).2 → x ≠ .vals [none] →
        ¬ (auto = true ∧ r.2 = .vals [none]) := fun e hx hy => hx (e.trans hy.2)
    cases out with
    | val v =>
      have hfl : fileLinesIter R f = (f2, .vals [some v]) := by simp [fileLinesIter, hc', flushWriter_unbuf h.unbuf, hq]
      have hio : ioLinesIter R f auto = (f2, .vals [some v]) := by simp [ioLinesIter, hc', flushWriter_unbuf h.unbuf, hq]
      rw [hfl] at hres habs hsim
      rw [hio]
      refine ⟨hres, ?_, hsim⟩
      rw [if_neg (hne hres (by simp))]; exact habs.symm
    | err =>
      have hfl : fileLinesIter R f = (f2, .raise) := by simp [fileLinesIter, hc', flushWriter_unbuf h.unbuf, hq]
      have hio : ioLinesIter R f auto = (f2, .raise) := by simp [ioLinesIter, hc', flushWriter_unbuf h.unbuf, hq]
      rw [hfl] at hres habs hsim
      rw [hio]
      refine ⟨hres, ?_, hsim⟩
      rw [if_neg (hne hres (by simp))]; exact habs.symm
    | raise =>
      have hfl : fileLinesIter R f = (f2, .raise) := by simp [fileLinesIter, hc', flushWriter_unbuf h.unbuf, hq]
      have hio : ioLinesIter R f auto = (f2, .raise) := by simp [ioLinesIter, hc', flushWriter_unbuf h.unbuf, hq]
      rw [hfl] at hres habs hsim
      rw [hio]
      refine ⟨hres, ?_, hsim⟩
      rw [if_neg (hne hres (by simp))]; exact habs.symm
    | eof =>
      have hfl : fileLinesIter R f = (f2, .vals [none]) := by simp [fileLinesIter, hc', flushWriter_unbuf h.unbuf, hq]
      rw [hfl] at hres habs hsim
      simp only at hres habs hsim
      cases auto with
      | false =>
        have hio : ioLinesIter R f false = (f2, .vals [none]) := by simp [ioLinesIter, hc', flushWriter_unbuf h.unbuf, hq]
        rw [hio]
        refine ⟨hres, ?_, hsim⟩
        simp; exact habs.symm
      | true =>
        -- the handle after the read is open (reads frame `closed`); closing it is `close_sim`
        have hc2 : f2.closed = false := by
          have : (absOf f2).closed = false := by
            rw [← habs]
            have := spec_closed_flag (absOf f) .iter
            simp only at this
            rw [this]; exact hc'
          exact this
        obtain ⟨cres, cabs, csim⟩ := close_sim hsim hc2
        have hcl : (fileCloseAux f2).2 = .ok := by
          rw [cres]; simp [FileSpec.step, absOf, hc2]
        have hio : ioLinesIter R f true = ((fileCloseAux f2).1, .vals [none]) := by
          rcases hx : fileCloseAux f2 with ⟨f3, rr⟩
          rw [hx] at hcl
          simp only at hcl
          subst hcl
          simp [ioLinesIter, hc', flushWriter_unbuf h.unbuf, hq, hx]
        rw [hio]
        refine ⟨hres, ?_, ?_⟩
        · have hcond : (true = true ∧ r.2 = .vals [none]) := ⟨rfl, hres.symm⟩
          rw [if_pos hcond]
          show absOf (fileCloseAux f2).1 = { r.1 with closed := true }
          rw [← cabs, show r.1 = absOf f2 from habs]
          simp [FileSpec.step, absOf, hc2]
        · exact ⟨csim.inv, csim.unbuf, (fun h0 => by cases h0), csim.closedNil⟩

theorem spec_ioIter_snd (ws : WStream) (auto : Bool) :
    (FileSpec.wstep ws (.ioIter auto)).2 = (FileSpec.step ws.s .iter).2 := by
  simp only [FileSpec.wstep]; split <;> rfl

theorem spec_ioIter_fst (ws : WStream) (auto : Bool) :
    (FileSpec.wstep ws (.ioIter auto)).1 =
      { ws with s := if auto = true ∧ (FileSpec.step ws.s .iter).2 = .vals [none]
                     then { (FileSpec.step ws.s .iter).1 with closed := true } else (FileSpec.step ws.s .iter).1 } := by
  simp only [FileSpec.wstep]; split <;> simp_all

theorem sim_weaken {pend : Bool} {f : LFile} (h : Sim false f) : Sim pend f :=
  ⟨h.inv, h.unbuf, fun _ hw => h.fresh rfl hw, h.closedNil⟩

/-- **one step of the world simulation.** -/
theorem wstep_sim {R : Nat} (hR : 0 < R) {pend : Bool} {w : World} (h : Sim pend w.f) (op : WOp)
    (hg : wopProved pend (absW w) op = true) :
    (wstep R w op).2 = (FileSpec.wstep (absW w) op).2 ∧
    (FileSpec.wstep (absW w) op).1 = absW (wstep R w op).1 ∧
    Sim (wpendNext pend (absW w) op) (wstep R w op).1.f := by
  simp only [wopProved, Bool.and_eq_true] at hg
  obtain ⟨⟨hslot, hkf⟩, heff⟩ := hg
  cases op with
  | h o =>
    simp only [FileSpec.effOp] at heff
    by_cases hre : ∃ m, o = .reopen m
    · obtain ⟨m, rfl⟩ := hre
      refine ⟨rfl, ?_, ?_⟩
      · simp only [wstep, FileSpec.wstep]
        rw [absW_newHandle, absOf_open]; rfl
      · simpa [wstep, wpendNext, FileSpec.effOp, pendNext, FileSpec.isInput, FileSpec.isSeparator, World.newHandle]
          using sim_open w.f.disk m
    · have hnr : ∀ m, o ≠ .reopen m := fun m e => hre ⟨m, e⟩
      have := onSlot_cur_sim hR h o heff hnr
      cases o with
      | reopen m => exact absurd rfl (hnr m)
      | _ => simpa [wstep, FileSpec.wstep, wpendNext, FileSpec.effOp] using this
  | ioInput =>
    cases hc : w.f.closed with
    | true =>
      refine ⟨by simp [wstep, FileSpec.wstep, absW, absOf, hc], by simp [wstep, FileSpec.wstep, absW, absOf, hc], ?_⟩
      simpa [wstep, wpendNext, FileSpec.effOp, hc] using h
    | false =>
      refine ⟨by simp [wstep, FileSpec.wstep, absW, absOf, hc], by simp [wstep, FileSpec.wstep, absW, absOf, hc], ?_⟩
      simpa [wstep, wpendNext, FileSpec.effOp, hc] using h
  | ioOutput =>
    cases hc : w.f.closed with
    | true =>
      refine ⟨by simp [wstep, FileSpec.wstep, absW, absOf, hc], by simp [wstep, FileSpec.wstep, absW, absOf, hc], ?_⟩
      simpa [wstep, wpendNext, FileSpec.effOp, hc] using h
    | false =>
      refine ⟨by simp [wstep, FileSpec.wstep, absW, absOf, hc], by simp [wstep, FileSpec.wstep, absW, absOf, hc], ?_⟩
      simpa [wstep, wpendNext, FileSpec.effOp, hc] using h
  | ioInputName =>
    refine ⟨rfl, ?_, ?_⟩
    · simp only [wstep, FileSpec.wstep]
      rw [absW_newHandle, absOf_open]; rfl
    · simpa [wstep, wpendNext, FileSpec.effOp, pendNext, FileSpec.isInput, FileSpec.isSeparator, World.newHandle]
        using sim_open w.f.disk .r
  | ioLinesName =>
    refine ⟨rfl, ?_, ?_⟩
    · simp only [wstep, FileSpec.wstep]
      rw [absW_newHandle, absOf_open]; rfl
    · simpa [wstep, wpendNext, FileSpec.effOp, pendNext, FileSpec.isInput, FileSpec.isSeparator, World.newHandle]
        using sim_open w.f.disk .r
  | ioOutputName =>
    refine ⟨rfl, ?_, ?_⟩
    · simp only [wstep, FileSpec.wstep]
      rw [absW_newHandle, absOf_ioOutputFile]; rfl
    · simpa [wstep, wpendNext, FileSpec.effOp, pendNext, FileSpec.isInput, FileSpec.isSeparator, World.newHandle]
        using sim_ioOutputFile w.f.disk
  | ioRead fs =>
    have hs : w.defIn ≠ .std := by simp [FileSpec.slotOk, absW] at hslot; exact of_decide_eq_true hslot
    cases hd : w.defIn with
    | std => exact absurd hd hs
    | stale =>
      refine ⟨by simp [wstep, FileSpec.wstep, absW, hd, World.onSlot, WStream.onSlot],
              by simp [wstep, FileSpec.wstep, absW, hd, World.onSlot, WStream.onSlot], ?_⟩
      simpa [wstep, wpendNext, FileSpec.effOp, absW, hd, World.onSlot] using h
    | cur =>
      have heff' : stepGuard pend (absOf w.f) (.read fs) = true := by simpa [FileSpec.effOp, absW, hd] using heff
      have := onSlot_cur_sim hR h (.read fs) heff' (by intro m e; cases e)
      simpa [wstep, FileSpec.wstep, wpendNext, FileSpec.effOp, absW, hd] using this
  | ioWrite d =>
    have hs : w.defOut ≠ .std := by simp [FileSpec.slotOk, absW] at hslot; exact of_decide_eq_true hslot
    cases hd : w.defOut with
    | std => exact absurd hd hs
    | stale =>
      refine ⟨by simp [wstep, FileSpec.wstep, absW, hd, World.onSlot, WStream.onSlot],
              by simp [wstep, FileSpec.wstep, absW, hd, World.onSlot, WStream.onSlot], ?_⟩
      simpa [wstep, wpendNext, FileSpec.effOp, absW, hd, World.onSlot] using h
    | cur =>
      have heff' : stepGuard pend (absOf w.f) (.write d) = true := by simpa [FileSpec.effOp, absW, hd] using heff
      have := onSlot_cur_sim hR h (.write d) heff' (by intro m e; cases e)
      simpa [wstep, FileSpec.wstep, wpendNext, FileSpec.effOp, absW, hd] using this
  | ioFlush =>
    have hs : w.defOut ≠ .std := by simp [FileSpec.slotOk, absW] at hslot; exact of_decide_eq_true hslot
    cases hd : w.defOut with
    | std => exact absurd hd hs
    | stale =>
      refine ⟨by simp [wstep, FileSpec.wstep, absW, hd, World.onSlot, WStream.onSlot],
              by simp [wstep, FileSpec.wstep, absW, hd, World.onSlot, WStream.onSlot], ?_⟩
      simpa [wstep, wpendNext, FileSpec.effOp, absW, hd, World.onSlot] using h
    | cur =>
      have heff' : stepGuard pend (absOf w.f) .flush = true := by simpa [FileSpec.effOp, absW, hd] using heff
      have := onSlot_cur_sim hR h .flush heff' (by intro m e; cases e)
      simpa [wstep, FileSpec.wstep, wpendNext, FileSpec.effOp, absW, hd] using this
  | ioClose =>
    have hs : w.defOut ≠ .std := by simp [FileSpec.slotOk, absW] at hslot; exact of_decide_eq_true hslot
    cases hd : w.defOut with
    | std => exact absurd hd hs
    | stale =>
      refine ⟨by simp [wstep, FileSpec.wstep, absW, hd, World.onSlot, WStream.onSlot],
              by simp [wstep, FileSpec.wstep, absW, hd, World.onSlot, WStream.onSlot], ?_⟩
      simpa [wstep, wpendNext, FileSpec.effOp, absW, hd, World.onSlot] using h
    | cur =>
      have heff' : stepGuard pend (absOf w.f) .close = true := by simpa [FileSpec.effOp, absW, hd] using heff
      have := onSlot_cur_sim hR h .close heff' (by intro m e; cases e)
      simpa [wstep, FileSpec.wstep, wpendNext, FileSpec.effOp, absW, hd] using this
  | ioLines =>
    have hs : w.defIn ≠ .std := by simp [FileSpec.slotOk, absW] at hslot; exact of_decide_eq_true hslot
    cases hd : w.defIn with
    | std => exact absurd hd hs
    | stale =>
      refine ⟨by simp [wstep, FileSpec.wstep, absW, hd, WStream.onSlot], by simp [wstep, FileSpec.wstep, absW, hd, WStream.onSlot], ?_⟩
      simpa [wstep, wpendNext, FileSpec.effOp, absW, hd] using h
    | cur =>
      have hsim : Sim (wpendNext pend (absW w) .ioLines) (wstep R w .ioLines).1.f := by
        cases hc : w.f.closed <;>
          simpa [wstep, wpendNext, FileSpec.effOp, absW, hd, hc, pendNext, FileSpec.isInput, FileSpec.isSeparator] using h
      cases hc : w.f.closed with
      | true =>
        exact ⟨by simp [wstep, FileSpec.wstep, absW, hd, WStream.onSlot, FileSpec.step, absOf, hc],
               by simp [wstep, FileSpec.wstep, absW, hd, WStream.onSlot, FileSpec.step, absOf, hc], hsim⟩
      | false =>
        have hr : w.f.hasReader = true := by
          cases hq : w.f.hasReader with
          | true => rfl
          | false => simp [absW, absOf, hd, hc, hq] at hkf
        exact ⟨by simp [wstep, FileSpec.wstep, absW, hd, WStream.onSlot, FileSpec.step, absOf, hc, hr],
               by simp [wstep, FileSpec.wstep, absW, hd, WStream.onSlot, FileSpec.step, absOf, hc, hr], hsim⟩
  | ioIter auto =>
    have heff' : stepGuard pend (absOf w.f) .iter = true := by simpa [FileSpec.effOp, absW] using heff
    have hcr := (stepGuard_elim heff').2.2.2.1 rfl
    obtain ⟨h1, h2, h3⟩ := ioLinesIter_sim hR h auto hcr
    refine ⟨?_, ?_, ?_⟩
    · rw [spec_ioIter_snd]; simpa [wstep, absW] using h1
    · rw [spec_ioIter_fst]
      simp only [wstep, absW]
      rw [h2]
      by_cases hx : auto = true ∧ (FileSpec.step (absOf w.f) .iter).2 = .vals [none] <;> simp [hx]
    · simpa [wstep, wpendNext, FileSpec.effOp, pendNext, FileSpec.isInput] using h3
  | ioType =>
    refine ⟨by cases hcl : w.f.closed <;> simp [wstep, FileSpec.wstep, absW, absOf, hcl], by simp [wstep, FileSpec.wstep], ?_⟩
    simpa [wstep, wpendNext, FileSpec.effOp] using h
  | toStr =>
    refine ⟨by cases hcl : w.f.closed <;> simp [wstep, FileSpec.wstep, absW, absOf, hcl], by simp [wstep, FileSpec.wstep], ?_⟩
    simpa [wstep, wpendNext, FileSpec.effOp] using h

/-- **the refinement for whole histories of `io` library calls.** -/
theorem wrun_sim {R : Nat} (hR : 0 < R) :
    ∀ (ops : List WOp) {pend : Bool} {w : World}, Sim pend w.f → wguard pend (absW w) ops = true →
      (wrun R w ops).2 = (FileSpec.wrun (absW w) ops).2 ∧
      absW (wrun R w ops).1 = (FileSpec.wrun (absW w) ops).1 := by
  intro ops
  induction ops with
  | nil => intro pend w _ _; exact ⟨rfl, rfl⟩
  | cons o os ih =>
    intro pend w h hg
    simp only [wguard, Bool.and_eq_true] at hg
    obtain ⟨hres, habs, hsim⟩ := wstep_sim hR h o hg.1
    have hg2 := hg.2
    rw [habs] at hg2
    obtain ⟨ih1, ih2⟩ := ih hsim hg2
    simp only [wrun, FileSpec.wrun]
    rw [habs]
    exact ⟨by rw [hres, ih1], ih2⟩

/-- a default slot that holds an earlier (closed) handle of the file: the `io` function raises and nothing —
    handle, slots, disk — changes. -/
theorem stale_slot_guard (R : Nat) (w : World) (op : Op) : w.onSlot R .stale op = (w, .raise) := rfl

/-- the world in which a file holding `d` has just been opened in mode `m` (default files: stdin/stdout) -/
def openWorld (d : Bytes) (m : Mode) : World := { f := ioOpenFile d m }
def openWStream (d : Bytes) (m : Mode) : WStream := { s := FileSpec.openStream d m }

theorem absW_openWorld (d : Bytes) (m : Mode) : absW (openWorld d m) = openWStream d m := by
  simp [absW, openWorld, openWStream, absOf_open]

theorem readable_open_r (d : Bytes) : Readable (ioOpenFile d .r) :=
  sim_readable (sim_open d .r) rfl rfl

end GLua.IoFile
