/-
  Model = Spec on renderings: the token stream of the scanner model realises, token by token, the stream of the Spec's
  reference lexer (both are the expected streams of the rendered token list).
-/
import GLua.Proofs.LexSpecRT
import GLua.Proofs.LexerCol

namespace GLua.Lexer
open GLua.Generated.Lexer
open GLua.LexSpec (Bytes STok Kind)
open GLua.LexRender

/-- does the scanner's token `t` realise the Spec's token `st`?  (The comparison the driver engine makes on every
    run, Engines/LexEng.lean `tokMatches` — here also with the numeral's text.) -/
def realises (st : STok) (t : Token) : Prop :=
  t.line = (st.line : Int) ∧
  match st.kind with
  | .name => t.type = TIdent ∧ t.str = st.text
  | .keyword => t.str = st.text ∧ t.type ≠ TIdent ∧ t.type > 256
  | .string => t.type = TString ∧ t.str = st.text
  | .number => t.type = TNumber ∧ t.str = st.text
  | .symbol =>
    match st.text with
    | [c] => t.type = (c.toNat : Int)
    | _ => t.str = st.text ∧ t.type > 256

theorem kw_type_facts : ∀ k ∈ LexSpec.keywords,
    (((reservedWords.lookup k).getD 0 : Nat) : Int) ≠ TIdent ∧ (((reservedWords.lookup k).getD 0 : Nat) : Int) > 256 := by
  decide +kernel

def symFactsB (sp : Bytes) : Bool :=
  match sp with
  | [c] => decide (symType sp = (c.toNat : Int))
  | _ => decide (symStr sp = sp ∧ symType sp > 256)

theorem sym_type_facts : ∀ sp ∈ symbols, symFactsB sp = true := by
  decide +kernel

/-- the two streams agree token by token. -/
inductive AllRealise : List STok → List Token → Prop where
  | nil : AllRealise [] []
  | cons {st : STok} {t : Token} {S : List STok} {T : List Token} (h : realises st t) (hr : AllRealise S T) :
      AllRealise (st :: S) (t :: T)

theorem realises_tok (t : RTok) (hwf : t.wf = true) (tok : Token) (line : Nat)
    (h1 : tok.type = tokType t) (h2 : tok.str = tokStr t) (h3 : tok.line = (line : Int)) :
    realises { kind := t.kind, text := t.specText, line := line } tok := by
  refine ⟨h3, ?_⟩
  cases t with
  | name w => exact ⟨h1, h2⟩
  | kw k =>
    have hk : k ∈ LexSpec.keywords := by simpa [RTok.wf] using hwf
    obtain ⟨a, b⟩ := kw_type_facts k hk
    simp only [RTok.kind, RTok.specText]
    rw [h1, h2]
    exact ⟨rfl, a, b⟩
  | sym sp =>
    have hm : sp ∈ symbols := by simpa [RTok.wf] using hwf
    have := sym_type_facts sp hm
    unfold symFactsB at this
    simp only [RTok.kind, RTok.specText]
    rw [h1, h2]
    simp only [tokType, tokStr]
    split
    · rename_i c; simpa using this
    · rename_i hne
      split at this
      · rename_i c; exact absurd rfl (hne c)
      · simpa using this
  | num n => exact ⟨h1, h2⟩
  | str q cs => exact ⟨h1, h2⟩
  | lstr l f c => exact ⟨h1, h2⟩

/-- from the expected streams to the token-by-token agreement. -/
theorem forall2_realises (lay : Layout) : ∀ (toks : List RTok) (i k : Nat) (pre : Bytes) (L : List (Token × Bool)),
    (∀ t ∈ toks, t.wf = true) →
    L.map view = expectFrom lay i k toks → L.map (fun p => p.1.line) = linesFrom lay i pre toks →
    AllRealise (specExpectFrom lay i pre toks) (L.dropLast.map (fun p => p.1)) := by
  intro toks
  induction toks with
  | nil =>
    intro i k pre L _ hv _
    simp only [expectFrom] at hv
    obtain ⟨p, L', rfl, _, hL'⟩ := List.map_eq_cons_iff.mp hv
    simp only [List.map_eq_nil_iff] at hL'
    subst hL'
    exact AllRealise.nil
  | cons t ts ih =>
    intro i k pre L hwf hv hl
    simp only [expectFrom] at hv
    simp only [linesFrom] at hl
    obtain ⟨p, L', rfl, hp, hL'⟩ := List.map_eq_cons_iff.mp hv
    simp only [List.map_cons, List.cons.injEq] at hl
    have hne : L' ≠ [] := by
      intro e; rw [e] at hL'
      cases ts <;> simp [expectFrom] at hL'
    have hdl : (p :: L').dropLast = p :: L'.dropLast := by
      cases L' with
      | nil => exact absurd rfl hne
      | cons q L'' => rfl
    rw [hdl]
    simp only [List.map_cons, specExpectFrom]
    refine AllRealise.cons ?_ (ih (i + 1) _ _ L' (fun t' ht' => hwf t' (List.mem_cons_of_mem _ ht')) hL' hl.2)
    have hty : p.1.type = tokType t := by
      have := congrArg (fun e => e.1) hp; simpa [view] using this
    have hst : p.1.str = tokStr t := by
      have := congrArg (fun e => e.2.1) hp; simpa [view] using this
    exact realises_tok t (hwf t (List.mem_cons_self ..)) p.1 _ hty hst (by rw [hl.1]; push_cast; rfl)

end GLua.Lexer
