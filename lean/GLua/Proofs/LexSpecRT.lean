/-
  Round trip of the Spec's reference lexer: gaps, tokens, the whole rendered token list.

      LexSpec.lex (render toks lay) = .ok (specExpect toks lay)        for every well-formed toks / lay
-/
import GLua.Proofs.LexSpecRTLong
import GLua.Proofs.LexSpecRTNum

namespace GLua.LexSpec
open GLua.LexRender
open GLua.Lexer (HeadNot forall_byte nlRest lineEnds_nil renderSeps_cons renderSeps_nil)

/-! ### every token -/

theorem specTok_all (t : RTok) (hwf : t.wf = true) (r : Bytes) (hf : follow t r = true) : SpecTok t r := by
  cases t with
  | name w => exact specTok_name w hwf r hf
  | kw k => exact specTok_kw k hwf r hf
  | sym sp => exact specTok_sym sp hwf r hf
  | num n => exact specTok_num n hwf r hf
  | str q cs => exact specTok_str q cs hwf r
  | lstr l f c => exact specTok_lstr l f c hwf r

theorem noNL_last (a : Bytes) (h : NoNL a) : ∀ x, a.getLast? = some x → isNewline x = false := by
  intro x hx
  have hm : x ∈ a := List.mem_of_getLast? hx
  unfold NoNL at h
  rw [List.all_eq_true] at h
  simpa using h x hm

/-- the last byte of a rendered token is no line terminator. -/
theorem render_last (t : RTok) (hwf : t.wf = true) : ∀ x, t.render.getLast? = some x → isNewline x = false := by
  cases t with
  | name w =>
    simp only [RTok.wf, Bool.and_eq_true] at hwf
    exact noNL_last _ (alnum_noNL w hwf.1.2)
  | kw k =>
    have hk : k ∈ keywords := by simpa [RTok.wf] using hwf
    exact noNL_last _ (alnum_noNL _ (keyword_spec_facts k hk).2.1)
  | sym sp =>
    have hm : sp ∈ symbols := by simpa [RTok.wf] using hwf
    have : ∀ sp ∈ symbols, sp.all (fun b => !isNewline b) = true := by decide +kernel
    exact noNL_last _ (this sp hm)
  | num n => exact noNL_last _ (numeral_noNL n hwf)
  | str q cs =>
    simp only [RTok.wf, Bool.and_eq_true, Bool.or_eq_true, beq_iff_eq] at hwf
    intro x hx
    have : (RTok.str q cs).render = (q :: cs.flatMap SChar.render) ++ [q] := by simp [RTok.render]
    rw [this, List.getLast?_append] at hx
    simp only [List.getLast?_singleton, Option.some_or, Option.some.injEq] at hx
    rw [← hx]
    rcases hwf.1 with rfl | rfl <;> decide
  | lstr l f c =>
    intro x hx
    have : (RTok.lstr l f c).render = (91 :: (List.replicate l 61 ++ 91 :: (f ++ (c ++ (93 :: List.replicate l 61))))) ++ [93] := by
      simp [RTok.render, closer]
    rw [this, List.getLast?_append] at hx
    simp only [List.getLast?_singleton, Option.some_or, Option.some.injEq] at hx
    rw [← hx]; decide

/-! ### gaps -/

theorem nlRest_cases (b : UInt8) (X : Bytes) :
    nlRest b X = X ∨ ∃ p X', X = p :: X' ∧ isNewline p = true ∧ nlRest b X = X' := by
  cases X with
  | nil => left; rfl
  | cons c X' =>
    by_cases hp : (b = 10 ∧ c = 13) ∨ (b = 13 ∧ c = 10)
    · right
      refine ⟨c, X', rfl, ?_, by simp [nlRest, hp]⟩
      rcases hp with ⟨_, h⟩ | ⟨_, h⟩ <;> (rw [h]; decide)
    · left; simp [nlRest, hp]

theorem gap_head_newline (g : List Sep) (R : Bytes) (hR : ∀ c R', R = c :: R' → isNewline c = false)
    (p : UInt8) (X' : Bytes) (hp : isNewline p = true) (h : renderSeps g ++ R = p :: X') :
    ∃ g', g = Sep.blank p :: g' ∧ X' = renderSeps g' ++ R := by
  cases g with
  | nil =>
    simp only [renderSeps_nil, List.nil_append] at h
    have := hR p X' h
    rw [hp] at this; exact absurd this (by decide)
  | cons x g' =>
    rw [renderSeps_cons] at h
    cases x with
    | blank b =>
      simp only [Sep.render, List.cons_append, List.nil_append, List.cons.injEq] at h
      exact ⟨g', by rw [h.1], h.2.symm⟩
    | short t e =>
      simp only [Sep.render, List.cons_append, List.cons.injEq] at h
      rw [← h.1] at hp; exact absurd hp (by decide)
    | long l c =>
      simp only [Sep.render, List.cons_append, List.cons.injEq] at h
      rw [← h.1] at hp; exact absurd hp (by decide)

theorem blank_newline (e : UInt8) (h : isNewline e = true) : isBlank e = true := by
  rcases (isNewline_iff' e).mp h with rfl | rfl <;> decide

/-- the reference lexer over a whole gap: blanks, line ends (with their partner bytes), comments. -/
theorem spec_gap (input : Bytes) (R : Bytes) (hasNext : Bool)
    (hR : ∀ c R', R = c :: R' → isNewline c = false) (hRn : hasNext = false → R = []) :
    ∀ (n : Nat) (g : List Sep), (renderSeps g).length ≤ n → (∀ x ∈ g, x.wf = true) → endsOK hasNext g = true →
      ∀ (fuel : Nat) (pre : Bytes) (line : Nat) (acc : List STok),
        SpecInv input pre line (renderSeps g ++ R) → (renderSeps g ++ R).length < fuel →
        ∃ fuel' line', go fuel (renderSeps g ++ R) line acc = go fuel' R line' acc ∧ R.length < fuel' ∧
          SpecInv input (pre ++ renderSeps g) line' R := by
  intro n
  induction n with
  | zero =>
    intro g hl _ _ fuel pre line acc hI hf
    have hg : renderSeps g = [] := List.eq_nil_of_length_eq_zero (by omega)
    rw [hg] at hI hf ⊢
    exact ⟨fuel, line, rfl, by simpa using hf, by simpa using hI⟩
  | succ n ih =>
    intro g hl hwf he fuel pre line acc hI hf
    cases g with
    | nil => exact ⟨fuel, line, rfl, by simpa [renderSeps_nil] using hf, by simpa [renderSeps_nil] using hI⟩
    | cons x g' =>
      have hx := hwf x (List.mem_cons_self ..)
      have hwf' : ∀ y ∈ g', y.wf = true := fun y hy => hwf y (List.mem_cons_of_mem _ hy)
      simp only [endsOK, Bool.and_eq_true, Bool.or_eq_true, Bool.not_eq_true'] at he
      obtain ⟨he1, he'⟩ := he
      obtain ⟨f, rfl⟩ : ∃ f, fuel = f + 1 := ⟨fuel - 1, by
        have : 0 < (renderSeps (x :: g') ++ R).length := by
          rw [renderSeps_cons]; cases x <;> simp [Sep.render]
        omega⟩
      rw [renderSeps_cons] at hl hI hf ⊢
      cases x with
      | blank b =>
        have hb : isBlank b = true := by simpa [Sep.wf] using hx
        simp only [Sep.render, List.cons_append, List.nil_append, List.length_cons, List.length_append] at hl hI hf ⊢
        by_cases hnl : isNewline b = true
        · rw [go_newline f b _ line acc hnl]
          obtain ⟨U, hU, hI'⟩ := SpecInv.newline b _ hnl hI
          rcases nlRest_cases b (renderSeps g' ++ R) with hcase | ⟨p, X', hX, hp, hcase⟩
          · rw [hcase] at hU hI' ⊢
            have hUb : U = [b] := by
              have : [b] ++ (renderSeps g' ++ R) = U ++ (renderSeps g' ++ R) := by simpa using hU
              exact (List.append_cancel_right this).symm
            obtain ⟨f', l', h1, h2, h3⟩ := ih g' (by omega) hwf' he' f (pre ++ U) (line + 1) acc hI'
              (by simp only [List.length_append] at hf ⊢; omega)
            exact ⟨f', l', h1, h2, by rw [hUb] at h3; simpa using h3⟩
          · obtain ⟨g'', hg'', hX'⟩ := gap_head_newline g' R hR p X' hp hX
            subst hg''
            rw [hcase, hX'] at hU hI' ⊢
            have hUb : U = [b, p] := by
              have : [b, p] ++ (renderSeps g'' ++ R) = U ++ (renderSeps g'' ++ R) := by
                rw [← hU, renderSeps_cons]; simp [Sep.render]
              exact (List.append_cancel_right this).symm
            simp only [endsOK, Bool.and_eq_true] at he'
            rw [renderSeps_cons] at hl hf
            simp only [Sep.render, List.cons_append, List.nil_append, List.length_cons, List.length_append] at hl hf
            obtain ⟨f', l', h1, h2, h3⟩ := ih g'' (by omega) (fun y hy => hwf' y (List.mem_cons_of_mem _ hy)) he'.2 f
              (pre ++ U) (line + 1) acc hI' (by simp only [List.length_append] at hf ⊢; omega)
            refine ⟨f', l', h1, h2, ?_⟩
            rw [hUb] at h3
            rw [renderSeps_cons]
            simpa [Sep.render] using h3
        · have hnl' : isNewline b = false := by simpa using hnl
          rw [go_blank f b _ line acc hnl' hb]
          have hI' := SpecInv.lexeme [b] _ (by simpa using hI) (by intro y hy; simp at hy; rw [← hy]; exact hnl')
          rw [lineEnds_cons_plain b [] hnl', lineEnds_nil, Nat.add_zero] at hI'
          obtain ⟨f', l', h1, h2, h3⟩ := ih g' (by omega) hwf' he' f (pre ++ [b]) line acc hI'
            (by simp only [List.length_append] at hf ⊢; omega)
          exact ⟨f', l', h1, h2, by simpa using h3⟩
      | short text eol =>
        simp only [Sep.wf, Bool.and_eq_true, Option.isNone_iff_eq_none] at hx
        obtain ⟨⟨htext, heol⟩, hopen⟩ := hx
        -- the comment itself
        have hL : (Sep.short text eol).render = (45 :: 45 :: text) ++ GLua.Lexer.eolBytes eol := by
          cases eol <;> simp [Sep.render, GLua.Lexer.eolBytes]
        rw [hL] at hl hI hf ⊢
        simp only [List.append_assoc] at hI hf ⊢
        have hXhead : HeadNot (fun c => !isNewline c) (GLua.Lexer.eolBytes eol ++ (renderSeps g' ++ R)) := by
          cases eol with
          | some e =>
            simp only [GLua.Lexer.eolBytes, List.cons_append, List.nil_append]
            exact GLua.Lexer.HeadNot.cons _ _ _ (by simpa using heol)
          | none =>
            have h1 : g' = [] ∧ R = [] := by
              rcases he1 with h | h
              · simp [Sep.openEnded] at h
              · exact ⟨by simpa using h.1, hRn (by simpa using h.2)⟩
            rw [h1.1, h1.2]
            exact GLua.Lexer.HeadNot.nil _
        have hgo := go_short_comment text _ htext hopen hXhead f line acc
        simp only [List.cons_append] at hI hf ⊢
        rw [hgo]
        have hLnonl : NoNL (45 :: 45 :: text) := by
          unfold NoNL; simp only [List.all_cons, Bool.and_eq_true]; exact ⟨by decide, by decide, htext⟩
        have hI' := SpecInv.lexeme (45 :: 45 :: text) _ (by simpa using hI) (noNL_last _ hLnonl)
        rw [lineEnds_noNL _ hLnonl, Nat.add_zero] at hI'
        cases eol with
        | none =>
          have h1 : g' = [] ∧ R = [] := by
            rcases he1 with h | h
            · simp [Sep.openEnded] at h
            · exact ⟨by simpa using h.1, hRn (by simpa using h.2)⟩
          rw [h1.1, h1.2] at hI' hf ⊢
          simp only [GLua.Lexer.eolBytes, renderSeps_nil, List.append_nil, List.length_cons] at hI' hf ⊢
          exact ⟨f, line, rfl, by simp; omega, by simpa using hI'⟩
        | some e =>
          have he : isNewline e = true := by simpa using heol
          have hren : GLua.Lexer.eolBytes (some e) ++ (renderSeps g' ++ R) = renderSeps (Sep.blank e :: g') ++ R := by
            rw [renderSeps_cons]; simp [GLua.Lexer.eolBytes, Sep.render]
          rw [hren] at hI' hf ⊢
          have hlen : (renderSeps (Sep.blank e :: g')).length ≤ n := by
            rw [renderSeps_cons]
            simp only [GLua.Lexer.eolBytes, List.length_append, List.length_cons, Sep.render, List.length_nil] at hl ⊢
            omega
          obtain ⟨f', l', h1, h2, h3⟩ := ih (Sep.blank e :: g') hlen
            (by
              intro y hy
              simp only [List.mem_cons] at hy
              rcases hy with rfl | hy
              · simpa [Sep.wf] using blank_newline e he
              · exact hwf' y hy)
            (by simp [endsOK, Sep.openEnded, he']) f _ line acc hI'
            (by simp only [List.length_append, List.length_cons] at hf ⊢; omega)
          refine ⟨f', l', h1, h2, ?_⟩
          rw [renderSeps_cons] at h3
          simpa [GLua.Lexer.eolBytes, Sep.render] using h3
      | long level content =>
        have hnc : noClose level content = true := hx
        simp only [Sep.render, List.cons_append, List.append_assoc] at hl hI hf ⊢
        rw [go_long_comment level content _ hnc f line acc]
        have hLr : (45 :: 45 :: 91 :: (List.replicate level 61 ++ 91 :: (content ++ closer level))) ++ (renderSeps g' ++ R) =
            45 :: 45 :: 91 :: (List.replicate level 61 ++ 91 :: (content ++ (closer level ++ (renderSeps g' ++ R)))) := by
          simp
        have hlast : ∀ y, (45 :: 45 :: 91 :: (List.replicate level 61 ++ 91 :: (content ++ closer level))).getLast? = some y →
            isNewline y = false := by
          intro y hy
          have : (45 :: 45 :: 91 :: (List.replicate level 61 ++ 91 :: (content ++ closer level))) =
              (45 :: 45 :: 91 :: (List.replicate level 61 ++ 91 :: (content ++ (93 :: List.replicate level 61)))) ++ [93] := by
            simp [closer]
          rw [this, List.getLast?_append] at hy
          simp only [List.getLast?_singleton, Option.some_or, Option.some.injEq] at hy
          rw [← hy]; decide
        have hI' := SpecInv.lexeme _ _ (by rw [hLr]; exact hI) hlast
        rw [lineEnds_cons_plain 45 _ (by decide), lineEnds_cons_plain 45 _ (by decide), lineEnds_bracket] at hI'
        obtain ⟨f', l', h1, h2, h3⟩ := ih g' (by simp only [List.length_cons, List.length_append] at hl ⊢; omega) hwf' he' f _
          (line + lineEnds content) acc hI'
          (by simp only [List.length_cons, List.length_append] at hf ⊢; omega)
        exact ⟨f', l', h1, h2, by simpa using h3⟩

/-! ### the whole token list -/

theorem go_render (input : Bytes) (lay : Layout) :
    ∀ (toks : List RTok) (i : Nat) (pt : Option RTok) (fuel : Nat) (pre : Bytes) (line : Nat) (acc : List STok),
      wfFrom lay i pt toks = true → SpecInv input pre line (renderFrom lay i toks) →
      (renderFrom lay i toks).length < fuel →
      go fuel (renderFrom lay i toks) line acc = .ok (acc.reverse ++ specExpectFrom lay i pre toks) := by
  intro toks
  induction toks with
  | nil =>
    intro i pt fuel pre line acc hwf hI hf
    simp only [wfFrom] at hwf
    obtain ⟨hsw, hends⟩ := GLua.Lexer.gapOK_parts _ _ _ hwf
    simp only [renderFrom] at hI hf ⊢
    obtain ⟨f', l', h1, h2, _⟩ := spec_gap input [] false (by intro c R' h; simp at h) (fun _ => rfl)
      _ (lay i) (Nat.le_refl _) hsw hends fuel pre line acc (by simpa using hI) (by simpa using hf)
    simp only [List.append_nil] at h1
    obtain ⟨f'', rfl⟩ : ∃ f'', f' = f'' + 1 := ⟨f' - 1, by simp at h2; omega⟩
    rw [h1, go_nil]
    simp [specExpectFrom]
  | cons t ts ih =>
    intro i pt fuel pre line acc hwf hI hf
    simp only [wfFrom, Bool.and_eq_true] at hwf
    obtain ⟨⟨htwf, hgap⟩, hrest⟩ := hwf
    obtain ⟨hsw, hends⟩ := GLua.Lexer.gapOK_parts _ _ _ hgap
    simp only [renderFrom] at hI hf ⊢
    -- what follows `t` may follow it
    have hfol : follow t (renderFrom lay (i + 1) ts) = true := by
      cases ts with
      | nil =>
        simp only [wfFrom] at hrest
        simp only [renderFrom]
        have := GLua.Lexer.gapOK_follow t (lay (i + 1)) none [] hrest rfl
        simpa using this
      | cons t2 ts2 =>
        simp only [wfFrom, Bool.and_eq_true] at hrest
        simp only [renderFrom]
        obtain ⟨c2, tail2, hr2, _⟩ := GLua.Lexer.tokScan_all t2 hrest.1.1 [] (GLua.Lexer.follow_nil t2)
        exact GLua.Lexer.gapOK_follow t (lay (i + 1)) (some t2) _ hrest.1.2 ⟨_, by rw [hr2]; simp, rfl⟩
    obtain ⟨c, tail, hr, hcb, _⟩ := GLua.Lexer.tokScan_all t htwf [] (GLua.Lexer.follow_nil t)
    have hcn : isNewline c = false := by
      have : ∀ c : UInt8, isBlank c = false → isNewline c = false := by
        intro c; revert c; apply forall_byte; decide +kernel
      exact this c hcb
    obtain ⟨f', l', h1, h2, h3⟩ := spec_gap input (t.render ++ renderFrom lay (i + 1) ts) true
      (by
        intro c' R' h
        rw [hr] at h
        simp only [List.cons_append, List.cons.injEq] at h
        rw [← h.1]; exact hcn)
      (by intro h; simp at h) _ (lay i) (Nat.le_refl _) hsw hends fuel pre line acc hI hf
    obtain ⟨f'', rfl⟩ : ∃ f'', f' = f'' + 1 := ⟨f' - 1, by
      rw [hr] at h2; simp only [List.cons_append, List.length_cons] at h2; omega⟩
    have hline : l' = 1 + lineEnds (pre ++ renderSeps (lay i)) := by
      have h3' := h3
      rw [hr] at h3'
      exact SpecInv.line_eq c _ hcn (by simpa using h3')
    have hstep := specTok_all t htwf _ hfol f'' l' acc
    have hI' := SpecInv.lexeme t.render _ h3 (render_last t htwf)
    rw [h1, hstep]
    have hlt : 0 < t.render.length := by rw [hr]; simp
    rw [ih (i + 1) (some t) f'' _ _ _ hrest hI' (by simp only [List.length_append] at h2 ⊢; omega)]
    simp only [specExpectFrom, List.reverse_cons, List.append_assoc, List.singleton_append, hline]

/-- **the round trip of the reference lexer**. -/
theorem lex_render (toks : List RTok) (lay : Layout) (hwf : WF toks lay = true) :
    lex (render toks lay) = .ok (specExpectFrom lay 0 [] toks) := by
  unfold lex
  have := go_render (render toks lay) lay toks 0 none ((render toks lay).length + 1) [] 1 [] hwf
    (specInv_init _) (by simp [render])
  simpa [render] using this

end GLua.LexSpec
