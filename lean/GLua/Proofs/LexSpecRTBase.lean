/-
  Round trip of the Spec's own reference lexer (`LexSpec.lex`, GLua/Spec/LexSpec.lean) on rendered token lists,
  part 0: line-end algebra (`lineEnds`, `lineMap`), `takeWhile`/`dropWhile` over a lexeme and what follows it,
  unfolding of `LexSpec.go`.
-/
import GLua.Proofs.LexerRTLong
import GLua.Proofs.LexerRT
import GLua.Proofs.LexerLineEnds

namespace GLua.LexSpec
open GLua.LexRender
open GLua.Lexer (HeadNot nlRest lineEnds_nil lineEnds_plain lineEnds_nl_single lineEnds_nl_pair lineEnds_nl_nopair)

/-! ### `takeWhile` / `dropWhile` -/

theorem takeWhile_append_stop (p : UInt8 → Bool) (a b : Bytes) (ha : a.all p = true) (hb : HeadNot p b) :
    (a ++ b).takeWhile p = a ∧ (a ++ b).dropWhile p = b := by
  induction a with
  | nil =>
    simp only [List.nil_append]
    cases b with
    | nil => exact ⟨rfl, rfl⟩
    | cons c b' =>
      have := hb c b' rfl
      simp [List.takeWhile, List.dropWhile, this]
  | cons x a' ih =>
    simp only [List.all_cons, Bool.and_eq_true] at ha
    obtain ⟨i1, i2⟩ := ih ha.2
    simp [List.takeWhile, List.dropWhile, ha.1, i1, i2]

/-! ### line ends -/

theorem isNewline_iff' (b : UInt8) : isNewline b = true ↔ (b = 10 ∨ b = 13) := by
  simp [isNewline]

theorem not_newline (b : UInt8) (h : isNewline b = false) : ¬ (b = 10 ∨ b = 13) := by
  intro hh; rw [(isNewline_iff' b).mpr hh] at h; exact absurd h (by decide)

theorem dropNewline_eq (b : UInt8) (r : Bytes) (hb : isNewline b = true) : dropNewline (b :: r) = nlRest b r := by
  rcases (isNewline_iff' b).mp hb with rfl | rfl
  · cases r with
    | nil => rfl
    | cons c r' =>
      by_cases hc : c = 13
      · subst hc; simp [dropNewline, nlRest]
      · have : nlRest 10 (c :: r') = c :: r' := by simp [nlRest, hc]
        rw [this]
        unfold dropNewline
        split
        · rename_i h; simp only [List.cons.injEq] at h; exact absurd h.2.1.symm (by intro e; exact hc e.symm)
        · rename_i h; simp only [List.cons.injEq] at h; exact absurd h.1 (by decide)
        · rename_i h; simp only [List.cons.injEq] at h; rw [h.2]
        · rename_i h; simp at h
  · cases r with
    | nil => rfl
    | cons c r' =>
      by_cases hc : c = 10
      · subst hc; simp [dropNewline, nlRest]
      · have : nlRest 13 (c :: r') = c :: r' := by simp [nlRest, hc]
        rw [this]
        unfold dropNewline
        split
        · rename_i h; simp only [List.cons.injEq] at h; exact absurd h.1 (by decide)
        · rename_i h; simp only [List.cons.injEq] at h; exact absurd h.2.1.symm (by intro e; exact hc e.symm)
        · rename_i h; simp only [List.cons.injEq] at h; rw [h.2]
        · rename_i h; simp at h

theorem lineEnds_nl (b : UInt8) (r : Bytes) (hb : b = 10 ∨ b = 13) : lineEnds (b :: r) = 1 + lineEnds (nlRest b r) := by
  cases r with
  | nil => rw [lineEnds_nl_single b hb]; simp [nlRest, lineEnds_nil]
  | cons c r' =>
    by_cases hp : (b = 10 ∧ c = 13) ∨ (b = 13 ∧ c = 10)
    · rw [lineEnds_nl_pair b c r' hb hp]; simp [nlRest, hp]
    · rw [lineEnds_nl_nopair b c r' hb hp]; simp [nlRest, hp]

/-- a text without line terminator bytes. -/
def NoNL (a : Bytes) : Prop := a.all (fun b => !isNewline b) = true

theorem lineEnds_noNL (a : Bytes) (ha : NoNL a) : lineEnds a = 0 := by
  induction a with
  | nil => exact lineEnds_nil
  | cons x a' ih =>
    simp only [NoNL, List.all_cons, Bool.and_eq_true, Bool.not_eq_true'] at ha
    rw [lineEnds_plain x a' (not_newline x ha.1)]
    exact ih ha.2

theorem lineEnds_noNL_append (a b : Bytes) (ha : NoNL a) : lineEnds (a ++ b) = lineEnds b := by
  induction a with
  | nil => rfl
  | cons x a' ih =>
    simp only [NoNL, List.all_cons, Bool.and_eq_true, Bool.not_eq_true'] at ha
    rw [List.cons_append, lineEnds_plain x _ (not_newline x ha.1)]
    exact ih ha.2

theorem nlRest_append' (b : UInt8) (a X : Bytes) (hX : HeadNot isNewline X) :
    nlRest b (a ++ X) = nlRest b a ++ X := GLua.Lexer.nlRest_append b a X hX

/-- line ends add up over a split whose second part does not start with a line terminator. -/
theorem lineEnds_append (b : Bytes) (hb : HeadNot isNewline b) :
    ∀ (n : Nat) (a : Bytes), a.length ≤ n → lineEnds (a ++ b) = lineEnds a + lineEnds b := by
  intro n
  induction n with
  | zero =>
    intro a hl
    have : a = [] := List.eq_nil_of_length_eq_zero (by omega)
    subst this; simp [lineEnds_nil]
  | succ n ih =>
    intro a hl
    cases a with
    | nil => simp [lineEnds_nil]
    | cons x a' =>
      simp only [List.length_cons] at hl
      by_cases hx : x = 10 ∨ x = 13
      · rw [List.cons_append, lineEnds_nl x _ hx, lineEnds_nl x a' hx, nlRest_append' x a' b hb,
          ih (nlRest x a') (by have := GLua.Lexer.nlRest_length x a'; omega)]
        omega
      · rw [List.cons_append, lineEnds_plain x _ hx, lineEnds_plain x a' hx, ih a' (by omega)]

/-- the Spec's line map behind a lexeme `L` whose last byte is no line terminator: the line has advanced by the
    line ends of `L`. -/
theorem lineMap_lexeme (b : Bytes) : ∀ (n : Nat) (L : Bytes) (l : Int), L.length ≤ n →
    (∀ x, L.getLast? = some x → isNewline x = false) →
    (lineMap l (L ++ b)).drop L.length = lineMap (l + (lineEnds L : Int)) b := by
  intro n
  induction n with
  | zero =>
    intro L l hl _
    have : L = [] := List.eq_nil_of_length_eq_zero (by omega)
    subst this; simp [lineEnds_nil]
  | succ n ih =>
    intro L l hl hlast
    cases L with
    | nil => simp [lineEnds_nil]
    | cons x L' =>
      simp only [List.length_cons] at hl
      by_cases hx : x = 10 ∨ x = 13
      · -- a line terminator inside the lexeme (not its last byte)
        cases L' with
        | nil =>
          have := hlast x rfl
          rw [(isNewline_iff' x).mpr hx] at this
          exact absurd this (by decide)
        | cons c L'' =>
          have hlast' : ∀ y, (c :: L'').getLast? = some y → isNewline y = false := by
            intro y hy; apply hlast y; simpa [List.getLast?_cons_cons] using hy
          by_cases hp : (x = 10 ∧ c = 13) ∨ (x = 13 ∧ c = 10)
          · have hlm : lineMap l (x :: c :: L'' ++ b) = l :: l :: lineMap (l + 1) (L'' ++ b) := by
              rw [List.cons_append, List.cons_append, lineMap.eq_def]; simp only [hx, if_true, hp]
            rw [hlm, lineEnds_nl_pair x c L'' hx hp]
            simp only [List.length_cons, List.drop_succ_cons]
            cases L'' with
            | nil =>
              have hc : isNewline c = true := by
                rcases hp with ⟨_, h⟩ | ⟨_, h⟩ <;> (rw [h]; decide)
              have := hlast' c rfl
              rw [hc] at this; exact absurd this (by decide)
            | cons d L3 =>
              have hlast'' : ∀ y, (d :: L3).getLast? = some y → isNewline y = false := by
                intro y hy; apply hlast' y; simpa [List.getLast?_cons_cons] using hy
              rw [ih (d :: L3) (l + 1) (by simp only [List.length_cons] at hl ⊢; omega) hlast'']
              congr 1
              push_cast
              omega
          · have hlm : lineMap l (x :: c :: L'' ++ b) = l :: lineMap (l + 1) (c :: L'' ++ b) := by
              rw [List.cons_append, List.cons_append, lineMap.eq_def]; simp only [hx, if_true, hp, if_false]
            rw [hlm, lineEnds_nl_nopair x c L'' hx hp]
            simp only [List.length_cons, List.drop_succ_cons]
            have := ih (c :: L'') (l + 1) (by simp only [List.length_cons] at hl ⊢; omega) hlast'
            simp only [List.length_cons] at this
            rw [this]
            congr 1
            push_cast
            omega
      · have hlm : lineMap l (x :: L' ++ b) = l :: lineMap l (L' ++ b) := by
          rw [List.cons_append, lineMap.eq_def]; simp only [hx, if_false]
        rw [hlm, lineEnds_plain x L' hx]
        simp only [List.length_cons, List.drop_succ_cons]
        cases L' with
        | nil => simp [lineEnds_nil]
        | cons c L'' =>
          have hlast' : ∀ y, (c :: L'').getLast? = some y → isNewline y = false := by
            intro y hy; apply hlast y; simpa [List.getLast?_cons_cons] using hy
          exact ih (c :: L'') l (by omega) hlast'

/-- one line terminator (with its partner byte) `U` in front of `nlRest x r`: the Spec's line map behind it. -/
theorem nl_unit (x : UInt8) (r : Bytes) (hx : x = 10 ∨ x = 13) :
    ∃ U, x :: r = U ++ nlRest x r ∧ ∀ l : Int, (lineMap l (x :: r)).drop U.length = lineMap (l + 1) (nlRest x r) := by
  cases r with
  | nil =>
    refine ⟨[x], by simp [nlRest], ?_⟩
    intro l
    rw [lineMap.eq_def]; simp only [hx, if_true, nlRest]
    simp [lineMap]
  | cons c r' =>
    by_cases hp : (x = 10 ∧ c = 13) ∨ (x = 13 ∧ c = 10)
    · refine ⟨[x, c], by simp [nlRest, hp], ?_⟩
      intro l
      rw [lineMap.eq_def]; simp only [hx, if_true, hp, nlRest]
      simp
    · refine ⟨[x], by simp [nlRest, hp], ?_⟩
      intro l
      rw [lineMap.eq_def]; simp only [hx, if_true, hp, if_false, nlRest]
      simp

/-! ### the state of the reference lexer against the text -/

/-- `pre` has been consumed, `rest` is unread, and the line counter agrees with the Spec's line map. -/
def SpecInv (input pre : Bytes) (line : Nat) (rest : Bytes) : Prop :=
  input = pre ++ rest ∧ (lineMap 1 input).drop pre.length = lineMap (line : Int) rest

theorem specInv_init (input : Bytes) : SpecInv input [] 1 input := ⟨rfl, rfl⟩

/-- advancing over a lexeme. -/
theorem SpecInv.lexeme {input pre : Bytes} {line : Nat} (L rest : Bytes) (h : SpecInv input pre line (L ++ rest))
    (hlast : ∀ x, L.getLast? = some x → isNewline x = false) :
    SpecInv input (pre ++ L) (line + lineEnds L) rest := by
  obtain ⟨h1, h2⟩ := h
  refine ⟨by rw [h1]; simp, ?_⟩
  have := lineMap_lexeme rest L.length L (line : Int) (Nat.le_refl _) hlast
  rw [List.length_append, ← List.drop_drop, h2, this]
  push_cast; rfl

/-- advancing over one line terminator. -/
theorem SpecInv.newline {input pre : Bytes} {line : Nat} (x : UInt8) (r : Bytes) (hx : isNewline x = true)
    (h : SpecInv input pre line (x :: r)) :
    ∃ U, x :: r = U ++ nlRest x r ∧ SpecInv input (pre ++ U) (line + 1) (nlRest x r) := by
  obtain ⟨h1, h2⟩ := h
  obtain ⟨U, hU, hmap⟩ := nl_unit x r ((isNewline_iff' x).mp hx)
  refine ⟨U, hU, ?_, ?_⟩
  · rw [h1, hU]; simp
  · rw [List.length_append, ← List.drop_drop, h2, hmap]
    push_cast; rfl

/-- the line of the next token: 1 + the line ends of the consumed text. -/
theorem SpecInv.line_eq {input pre : Bytes} {line : Nat} (c : UInt8) (r : Bytes) (hc : isNewline c = false)
    (h : SpecInv input pre line (c :: r)) : line = 1 + lineEnds pre := by
  obtain ⟨h1, h2⟩ := h
  have hnn := not_newline c hc
  have hget : input[pre.length]? = some c := by rw [h1]; simp
  have e1 := GLua.Lexer.lineMap_lineEnds 1 input pre.length c hget (fun e => hnn (Or.inl e)) (fun e => hnn (Or.inr e))
  have e2 : (lineMap 1 input)[pre.length]? = some (line : Int) := by
    have : (lineMap 1 input)[pre.length]? = ((lineMap 1 input).drop pre.length)[0]? := by simp
    rw [this, h2]
    exact GLua.Lexer.lineMap_head _ c r
  rw [e1] at e2
  simp only [Option.some.injEq] at e2
  have ht : input.take pre.length = pre := by rw [h1]; simp
  rw [ht] at e2
  omega

/-! ### unfolding `go` -/

theorem go_nil (fuel : Nat) (line : Nat) (acc : List STok) : go (fuel + 1) [] line acc = .ok acc.reverse := by
  rw [go.eq_def]

theorem go_newline (fuel : Nat) (b : UInt8) (r : Bytes) (line : Nat) (acc : List STok) (hb : isNewline b = true) :
    go (fuel + 1) (b :: r) line acc = go fuel (nlRest b r) (line + 1) acc := by
  rw [go.eq_def]; simp only [hb, if_true]; rw [dropNewline_eq b r hb]

theorem go_blank (fuel : Nat) (b : UInt8) (r : Bytes) (line : Nat) (acc : List STok) (hb : isNewline b = false)
    (hbl : isBlank b = true) : go (fuel + 1) (b :: r) line acc = go fuel r line acc := by
  rw [go.eq_def]; simp only [hb, hbl, if_true, Bool.false_eq_true, if_false]

end GLua.LexSpec
