/-
  Round trip of the Spec's reference lexer, part 4: long brackets (`longOpen`, `longClose`, `longBody`, `longString`),
  long strings, comments.
-/
import GLua.Proofs.LexSpecRTStr

namespace GLua.LexSpec
open GLua.LexRender
open GLua.Lexer (HeadNot forall_byte nlRest lineEnds_nil normNL dropFirstNL)

/-! ### opening and closing brackets -/

theorem eqs_stop (k : Nat) (X : Bytes) (hX : HeadNot (fun c => c == 61) X) :
    List.takeWhile (fun c => c == 61) (List.replicate k 61 ++ X) = List.replicate k 61 ∧
    List.dropWhile (fun c => c == 61) (List.replicate k 61 ++ X) = X :=
  takeWhile_append_stop (fun c => c == 61) _ X (by simp) hX

theorem longOpen_bracket (level : Nat) (X : Bytes) :
    longOpen (91 :: (List.replicate level 61 ++ 91 :: X)) = some (level, X) := by
  obtain ⟨t1, t2⟩ := eqs_stop level (91 :: X) (GLua.Lexer.HeadNot.cons _ _ _ (by decide))
  unfold longOpen
  simp only [t1, t2, List.length_replicate]

theorem longClose_closer (level : Nat) (r : Bytes) : longClose level (closer level ++ r) = some r := by
  unfold longClose closer
  simp only [List.cons_append, List.append_assoc, List.nil_append]
  have h1 : List.take level (List.replicate level 61 ++ 93 :: r) = List.replicate level 61 := by
    have : level = (List.replicate level (61 : UInt8)).length := by simp
    conv => lhs; rw [this]
    simp
  have h2 : List.drop level (List.replicate level 61 ++ 93 :: r) = 93 :: r := by
    have : level = (List.replicate level (61 : UInt8)).length := by simp
    conv => lhs; rw [this]
    simp
  rw [h1, h2]
  simp

/-- if the Spec sees a closing bracket, so does `closesAt`. -/
theorem closesAt_of_longClose (level : Nat) (X r' : Bytes) (h : longClose level X = some r') :
    X = 93 :: (List.replicate level 61 ++ 93 :: r') := by
  unfold longClose at h
  split at h
  · rename_i r
    split at h
    · rename_i hc
      obtain ⟨hall, hlen⟩ := hc
      split at h
      · rename_i r2 hd
        simp only [Option.some.injEq] at h
        subst h
        have htake : List.take level r = List.replicate level 61 := by
          apply List.ext_getElem
          · simp [hlen]
          · intro i h1 h2
            rw [List.all_eq_true] at hall
            have := hall _ (List.getElem_mem h1)
            simp only [beq_iff_eq] at this
            rw [this]; simp
        have : r = List.take level r ++ List.drop level r := (List.take_append_drop level r).symm
        rw [this, htake, hd]
      · simp at h
    · simp at h
  · simp at h

theorem longClose_none (level : Nat) (b : UInt8) (body' rest : Bytes)
    (h : closesAt level (b :: body' ++ closer level) = false) :
    longClose level (b :: body' ++ (closer level ++ rest)) = none := by
  cases hlc : longClose level (b :: body' ++ (closer level ++ rest)) with
  | none => rfl
  | some r' =>
    exfalso
    have := closesAt_of_longClose level _ r' hlc
    simp only [List.cons_append, List.cons.injEq] at this
    obtain ⟨hb, htail⟩ := this
    subst hb
    have hpre1 : (List.replicate level 61 ++ [93]) <+: body' ++ (closer level ++ rest) :=
      ⟨r', by rw [htail]; simp⟩
    have hpre2 : (body' ++ closer level) <+: body' ++ (closer level ++ rest) := ⟨rest, by simp⟩
    have hlen : (List.replicate level (61 : UInt8) ++ [93]).length ≤ (body' ++ closer level).length := by
      simp [closer]; omega
    have := List.prefix_of_prefix_length_le hpre1 hpre2 hlen
    simp only [List.cons_append, closesAt] at h
    rw [← List.isPrefixOf_iff_prefix] at this
    rw [this] at h
    exact absurd h (by decide)

/-! ### the body -/

theorem longBody_run (level : Nat) (rest : Bytes) :
    ∀ (len : Nat) (body : Bytes) (fuel : Nat) (acc : Bytes) (nl : Nat), body.length ≤ len →
      noClose level body = true → (body ++ (closer level ++ rest)).length < fuel →
      longBody level fuel (body ++ (closer level ++ rest)) acc nl =
        some (acc ++ normNL body, rest, nl + lineEnds body) := by
  have hcl : HeadNot isNewline (closer level ++ rest) := GLua.Lexer.HeadNot.cons _ _ _ (by decide)
  intro len
  induction len with
  | zero =>
    intro body fuel acc nl hl _ hf
    have : body = [] := List.eq_nil_of_length_eq_zero (by omega)
    subst this
    obtain ⟨f, rfl⟩ : ∃ f, fuel = f + 1 := ⟨fuel - 1, by omega⟩
    simp only [List.nil_append]
    have hc : closer level ++ rest = 93 :: (List.replicate level 61 ++ 93 :: rest) := by simp [closer]
    rw [hc, longBody.eq_def]
    simp only [← hc, longClose_closer]
    simp [GLua.Lexer.normNL_nil, lineEnds_nil]
  | succ len ih =>
    intro body fuel acc nl hl hnc hf
    cases body with
    | nil =>
      obtain ⟨f, rfl⟩ : ∃ f, fuel = f + 1 := ⟨fuel - 1, by omega⟩
      simp only [List.nil_append]
      have hc : closer level ++ rest = 93 :: (List.replicate level 61 ++ 93 :: rest) := by simp [closer]
      rw [hc, longBody.eq_def]
      simp only [← hc, longClose_closer]
      simp [GLua.Lexer.normNL_nil, lineEnds_nil]
    | cons b body' =>
      obtain ⟨f, rfl⟩ : ∃ f, fuel = f + 1 := ⟨fuel - 1, by omega⟩
      simp only [List.length_cons] at hl
      have hnc' := GLua.Lexer.noClose_tail level b body' hnc
      have hca : closesAt level (b :: body' ++ closer level) = false := by
        simp only [noClose, Bool.and_eq_true, Bool.not_eq_true'] at hnc; exact hnc.1
      have hnone := longClose_none level b body' rest hca
      rw [List.cons_append, longBody.eq_def]
      simp only [← List.cons_append, hnone]
      simp only [List.cons_append, List.length_cons] at hf
      by_cases hb : isNewline b = true
      · simp only [hb, if_true]
        rw [List.cons_append, dropNewline_eq b _ hb, nlRest_append' b body' _ hcl,
          ih (nlRest b body') f (acc ++ [10]) (nl + 1) (by have := GLua.Lexer.nlRest_length b body'; omega)
            (GLua.Lexer.noClose_nlRest level b body' hnc')
            (by have := GLua.Lexer.nlRest_length b body'; simp only [List.length_append] at hf ⊢; omega),
          GLua.Lexer.normNL_nl b body' ((isNewline_iff' b).mp hb), lineEnds_nl b body' ((isNewline_iff' b).mp hb)]
        simp only [List.append_assoc, List.cons_append, List.nil_append, Option.some.injEq, Prod.mk.injEq, true_and]
        omega
      · have hb' : isNewline b = false := by simpa using hb
        simp only [hb', Bool.false_eq_true, if_false]
        rw [ih body' f (acc ++ [b]) nl (by omega) hnc' (by omega),
          GLua.Lexer.normNL_plain b body' (not_newline b hb'), lineEnds_cons_plain b body' hb']
        simp

/-- `longString` on `body ]=ⁿ] rest`. -/
theorem longString_run (level : Nat) (body rest : Bytes) (hnc : noClose level body = true) :
    longString level (body ++ (closer level ++ rest)) =
      some (normNL (dropFirstNL body), rest, lineEnds body) := by
  have hcl : HeadNot isNewline (closer level ++ rest) := GLua.Lexer.HeadNot.cons _ _ _ (by decide)
  cases body with
  | nil =>
    have hc : closer level ++ rest = 93 :: (List.replicate level 61 ++ 93 :: rest) := by simp [closer]
    simp only [List.nil_append]
    rw [hc]
    unfold longString
    simp only [show isNewline 93 = false from by decide, Bool.false_eq_true, if_false]
    rw [← hc]
    have := longBody_run level rest 0 [] ((closer level ++ rest).length + 1) [] 0 (Nat.le_refl _) hnc (by simp)
    simp only [List.nil_append] at this
    rw [this]
    simp [dropFirstNL, GLua.Lexer.normNL_nil, lineEnds_nil]
  | cons b body' =>
    rw [List.cons_append]
    unfold longString
    by_cases hb : isNewline b = true
    · simp only [hb, if_true]
      rw [dropNewline_eq b _ hb, nlRest_append' b body' _ hcl]
      have hle := GLua.Lexer.nlRest_length b body'
      have := longBody_run level rest _ (nlRest b body') ((b :: (body' ++ (closer level ++ rest))).length + 1) [] 0
        (Nat.le_refl _) (GLua.Lexer.noClose_nlRest level b body' (GLua.Lexer.noClose_tail level b body' hnc))
        (by simp only [List.length_append, List.length_cons]; omega)
      rw [this]
      have hbb := (isNewline_iff' b).mp hb
      simp only [Option.map_some, dropFirstNL, hbb, if_true, lineEnds_nl b body' hbb, List.nil_append]
      simp only [Option.some.injEq, Prod.mk.injEq, true_and]
      omega
    · have hb' : isNewline b = false := by simpa using hb
      simp only [hb', Bool.false_eq_true, if_false]
      have := longBody_run level rest _ (b :: body') ((b :: (body' ++ (closer level ++ rest))).length + 1) [] 0
        (Nat.le_refl _) hnc (by simp)
      simp only [List.cons_append] at this
      rw [this]
      have hbb := not_newline b hb'
      simp [dropFirstNL, hbb]

/-! ### long strings as tokens -/

theorem lineEnds_bracket (level : Nat) (body : Bytes) :
    lineEnds (91 :: (List.replicate level 61 ++ 91 :: (body ++ closer level))) = lineEnds body := by
  have hp : NoNL (91 :: (List.replicate level 61 ++ [91])) := by
    unfold NoNL; simp [isNewline]
  have : 91 :: (List.replicate level 61 ++ 91 :: (body ++ closer level)) =
      (91 :: (List.replicate level 61 ++ [91])) ++ (body ++ closer level) := by simp
  rw [this, lineEnds_noNL_append _ _ hp,
    lineEnds_append (closer level) (GLua.Lexer.HeadNot.cons _ _ _ (by decide)) body.length body (Nat.le_refl _)]
  have hc : NoNL (closer level) := by unfold NoNL closer; simp [isNewline]
  rw [lineEnds_noNL _ hc]; rfl

theorem headP_eqs_bracket (level : Nat) (X : Bytes) :
    headP (fun d => d == 91 || d == 61) (List.replicate level 61 ++ 91 :: X) = true := by
  cases level with
  | zero => rfl
  | succ k => rw [List.replicate_succ]; rfl

theorem specTok_lstr (level : Nat) (first content : Bytes) (hwf : (RTok.lstr level first content).wf = true)
    (r : Bytes) : SpecTok (.lstr level first content) r := by
  obtain ⟨hnc, hden⟩ := GLua.Lexer.lstr_body_facts level first content hwf
  intro fuel line acc
  have hr : (RTok.lstr level first content).render ++ r =
      91 :: (List.replicate level 61 ++ 91 :: ((first ++ content) ++ (closer level ++ r))) := by
    simp [RTok.render]
  have hl : lineEnds (RTok.lstr level first content).render = lineEnds (first ++ content) := by
    have : (RTok.lstr level first content).render =
        91 :: (List.replicate level 61 ++ 91 :: ((first ++ content) ++ closer level)) := by simp [RTok.render]
    rw [this, lineEnds_bracket]
  rw [hr, hl, go_chain 91 _ fuel line acc (by decide) (by decide)]
  simp only [show isLetter 91 = false from by decide, show isDigit 91 = false from by decide,
    show ((91 : UInt8) == 46) = false from by decide, show ((91 : UInt8) == 45) = false from by decide,
    show ((91 : UInt8) == 34 || (91 : UInt8) == 39) = false from by decide, Bool.false_and, Bool.or_false,
    Bool.false_eq_true, if_false, headP_eqs_bracket, beq_self_eq_true, Bool.and_true, if_true]
  rw [longOpen_bracket]
  simp only []
  rw [longString_run level (first ++ content) r hnc, hden]
  rfl

/-! ### comments -/

theorem go_long_comment (level : Nat) (content R : Bytes) (hnc : noClose level content = true)
    (fuel line : Nat) (acc : List STok) :
    go (fuel + 1) (45 :: 45 :: 91 :: (List.replicate level 61 ++ 91 :: (content ++ (closer level ++ R)))) line acc =
      go fuel R (line + lineEnds content) acc := by
  rw [go_chain 45 _ fuel line acc (by decide) (by decide)]
  simp only [show isLetter 45 = false from by decide, show isDigit 45 = false from by decide,
    show ((45 : UInt8) == 46) = false from by decide, Bool.false_and, Bool.or_false, Bool.false_eq_true, if_false,
    headP_cons, beq_self_eq_true, Bool.and_true, if_true, List.drop_succ_cons, List.drop_zero]
  rw [longOpen_bracket]
  simp only []
  rw [longString_run level content R hnc]

theorem dropWhile_eqs_append (X : Bytes) (hX : HeadNot (fun c => c == 61 || c == 91) X) :
    ∀ t' : Bytes, (∀ r', t'.dropWhile (fun c => c == 61) ≠ 91 :: r') →
      ∀ r', (t' ++ X).dropWhile (fun c => c == 61) ≠ 91 :: r' := by
  intro t'
  induction t' with
  | nil =>
    intro _ r' e
    simp only [List.nil_append] at e
    cases X with
    | nil => simp at e
    | cons c X' =>
      have := hX c X' rfl
      simp only [Bool.or_eq_false_iff, beq_eq_false_iff_ne, ne_eq] at this
      rw [List.dropWhile_cons_of_neg (by simpa using this.1)] at e
      simp only [List.cons.injEq] at e
      exact this.2 e.1
  | cons c t'' ih =>
    intro h r' e
    by_cases hc : c = 61
    · subst hc
      rw [List.cons_append, List.dropWhile_cons_of_pos (by simp)] at e
      exact ih (fun r'' e' => h r'' (by rw [List.dropWhile_cons_of_pos (by simp)]; exact e')) r' e
    · rw [List.cons_append, List.dropWhile_cons_of_neg (by simpa using hc)] at e
      simp only [List.cons.injEq] at e
      exact h t'' (by rw [List.dropWhile_cons_of_neg (by simpa using hc), e.1])

/-- a short comment's text does not open a long bracket, whatever line end (or the end of the text) follows. -/
theorem longOpen_none_append (text X : Bytes) (h : longOpen text = none)
    (hX : HeadNot (fun c => c == 61 || c == 91) X) : longOpen (text ++ X) = none := by
  cases text with
  | nil =>
    simp only [List.nil_append]
    cases X with
    | nil => rfl
    | cons c X' =>
      have := hX c X' rfl
      simp only [Bool.or_eq_false_iff, beq_eq_false_iff_ne, ne_eq] at this
      unfold longOpen
      split
      · rename_i r heq; simp only [List.cons.injEq] at heq; exact absurd heq.1 this.2
      · rfl
  | cons b t' =>
    by_cases hb : b = 91
    · subst hb
      rw [List.cons_append, GLua.Lexer.longOpen_bracket_none]
      exact dropWhile_eqs_append X hX t' ((GLua.Lexer.longOpen_bracket_none t').mp h)
    · unfold longOpen
      split
      · rename_i r heq; simp only [List.cons_append, List.cons.injEq] at heq; exact absurd heq.1 hb
      · rfl

theorem go_short_comment (text X : Bytes) (htext : text.all (fun b => !isNewline b) = true)
    (hopen : longOpen text = none) (hX : HeadNot (fun c => !isNewline c) X)
    (fuel line : Nat) (acc : List STok) :
    go (fuel + 1) (45 :: 45 :: (text ++ X)) line acc = go fuel X line acc := by
  have hX' : HeadNot (fun c => c == 61 || c == 91) X := by
    intro c r' e
    have := hX c r' e
    simp only [Bool.not_eq_false'] at this
    rcases (isNewline_iff' c).mp this with rfl | rfl <;> decide
  obtain ⟨_, t2⟩ := takeWhile_append_stop (fun c => !isNewline c) text X htext hX
  rw [go_chain 45 _ fuel line acc (by decide) (by decide)]
  simp only [show isLetter 45 = false from by decide, show isDigit 45 = false from by decide,
    show ((45 : UInt8) == 46) = false from by decide, Bool.false_and, Bool.or_false, Bool.false_eq_true, if_false,
    headP_cons, beq_self_eq_true, Bool.and_true, if_true, List.drop_succ_cons, List.drop_zero]
  rw [longOpen_none_append text X hopen hX', t2]

end GLua.LexSpec
