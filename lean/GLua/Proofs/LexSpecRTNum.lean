/-
  Round trip of the Spec's reference lexer, part 2: numerals (`numeralExtent`, `numeralValue`).
-/
import GLua.Proofs.LexSpecRTTok

namespace GLua.LexSpec
open GLua.LexRender
open GLua.Lexer (HeadNot forall_byte follow_headNot renderFrac renderExp numStop)


def dd (b : UInt8) : Bool := isDigit b || b == 46

theorem dd_stop (a X : Bytes) (ha : a.all dd = true) (hX : HeadNot dd X) :
    List.takeWhile (fun b => isDigit b || b == 46) (a ++ X) = a ∧
    List.dropWhile (fun b => isDigit b || b == 46) (a ++ X) = X := takeWhile_append_stop dd a X ha hX

theorem numeralExtent_plain (a : Bytes) (ha : a.all dd = true) (X : Bytes) (hX : HeadNot dd X)
    (hE : HeadNot (fun c => c == 69 || c == 101) X) :
    numeralExtent (a ++ X) = (a ++ X.takeWhile isAlnum, X.dropWhile isAlnum) := by
  obtain ⟨a1, a2⟩ := dd_stop a X ha hX
  unfold numeralExtent
  simp only []
  rw [a1, a2]
  cases X with
  | nil => simp
  | cons d rest =>
    have hd := hE d rest rfl
    simp only [Bool.or_eq_false_iff, beq_eq_false_iff_ne, ne_eq] at hd
    split <;> simp_all

theorem numeralExtent_signed (a : Bytes) (ha : a.all dd = true) (E s : UInt8) (rest : Bytes)
    (hE : E = 69 ∨ E = 101) (hs : s = 43 ∨ s = 45) :
    numeralExtent (a ++ E :: s :: rest) = (a ++ [E, s] ++ rest.takeWhile isAlnum, rest.dropWhile isAlnum) := by
  obtain ⟨a1, a2⟩ := dd_stop a (E :: s :: rest) ha
    (GLua.Lexer.HeadNot.cons _ _ _ (by rcases hE with rfl | rfl <;> decide))
  unfold numeralExtent
  simp only []
  rw [a1, a2]
  rcases hE with rfl | rfl <;> rcases hs with rfl | rfl <;> simp

theorem numeralExtent_unsigned (a : Bytes) (ha : a.all dd = true) (E : UInt8) (X : Bytes)
    (hE : E = 69 ∨ E = 101) (hX : HeadNot (fun c => c == 43 || c == 45) X) :
    numeralExtent (a ++ E :: X) = (a ++ [E] ++ X.takeWhile isAlnum, X.dropWhile isAlnum) := by
  obtain ⟨a1, a2⟩ := dd_stop a (E :: X) ha
    (GLua.Lexer.HeadNot.cons _ _ _ (by rcases hE with rfl | rfl <;> decide))
  unfold numeralExtent
  simp only []
  rw [a1, a2]
  cases X with
  | nil => rcases hE with rfl | rfl <;> simp
  | cons d rest =>
    have hd := hX d rest rfl
    simp only [Bool.or_eq_false_iff, beq_eq_false_iff_ne, ne_eq] at hd
    rcases hE with rfl | rfl <;> (split <;> simp_all)

theorem numeralValue_decimal (t : Bytes) (h : ∀ x hs, t = 48 :: x :: hs → x ≠ 120 ∧ x ≠ 88) :
    numeralValue t = numeralValue.decimal t := by
  unfold numeralValue
  split
  · rename_i x hs
    obtain ⟨h1, h2⟩ := h x hs rfl
    simp [h1, h2]
  · rfl

theorem numeralValue_hex (x : UInt8) (hs : Bytes) (hx : x = 120 ∨ x = 88) (hne : hs ≠ []) (hh : hs.all isHex = true) :
    (numeralValue (48 :: x :: hs)).isSome = true := by
  unfold numeralValue
  rcases hx with rfl | rfl <;> simp [hne, hh]



theorem digits_stop (ip X : Bytes) (hip : ip.all isDigit = true) (hX : HeadNot isDigit X) :
    List.takeWhile isDigit (ip ++ X) = ip ∧ List.dropWhile isDigit (ip ++ X) = X :=
  takeWhile_append_stop isDigit ip X hip hX

/-- the exponent part `X` of a rendered decimal numeral: empty, or marker, optional sign, digits. -/
inductive ExpShape : Bytes → Prop where
  | none : ExpShape []
  | unsigned (E d : UInt8) (ds : Bytes) (hE : E = 69 ∨ E = 101) (hd : isDigit d = true) (hds : ds.all isDigit = true) :
      ExpShape (E :: d :: ds)
  | signed (E s d : UInt8) (ds : Bytes) (hE : E = 69 ∨ E = 101) (hs : s = 43 ∨ s = 45) (hd : isDigit d = true)
      (hds : ds.all isDigit = true) : ExpShape (E :: s :: d :: ds)

theorem expShape_of (ex : Option Exp) (hex : (match ex with | some x => x.wf | none => true) = true) :
    ExpShape (renderExp ex) := by
  cases ex with
  | none => exact .none
  | some x =>
    obtain ⟨E, sg, ds⟩ := x
    simp only [Exp.wf, Bool.and_eq_true, Bool.or_eq_true, beq_iff_eq, bne_iff_ne, ne_eq] at hex
    obtain ⟨⟨⟨hE, hsg⟩, hds0⟩, hds⟩ := hex
    have hE' : E = 69 ∨ E = 101 := hE.symm
    cases ds with
    | nil => exact absurd rfl hds0
    | cons d ds' =>
      simp only [List.all_cons, Bool.and_eq_true] at hds
      cases sg with
      | none => exact .unsigned E d ds' hE' hds.1 hds.2
      | some s =>
        have hs : s = 43 ∨ s = 45 := by simpa using hsg
        exact .signed E s d ds' hE' hs hds.1 hds.2

theorem expShape_headNot_digit (X : Bytes) (h : ExpShape X) : HeadNot isDigit X := by
  cases h with
  | none => exact GLua.Lexer.HeadNot.nil _
  | unsigned E d ds hE _ _ => exact GLua.Lexer.HeadNot.cons _ _ _ (by rcases hE with rfl | rfl <;> decide)
  | signed E s d ds hE _ _ _ => exact GLua.Lexer.HeadNot.cons _ _ _ (by rcases hE with rfl | rfl <;> decide)

/-- the Spec's numeral grammar accepts every rendered decimal numeral. -/
theorem decimal_isSome (ip : Bytes) (fp : Option Bytes) (X : Bytes)
    (hip : ip.all isDigit = true) (hfp : (match fp with | some f => f.all isDigit | none => true) = true)
    (hne : ip ≠ [] ∨ ∃ f, fp = some f ∧ f ≠ [])
    (hX : ExpShape X) :
    (numeralValue.decimal (ip ++ (renderFrac fp ++ X))).isSome = true := by
  have hexd := expShape_headNot_digit X hX
  have hfd : HeadNot isDigit (renderFrac fp ++ X) :=
    GLua.Lexer.headNot_append _ _ _ (GLua.Lexer.frac_head fp _ (by decide)) hexd
  obtain ⟨i1, i2⟩ := digits_stop ip _ hip hfd
  unfold numeralValue.decimal
  simp only []
  rw [i1, i2]
  cases fp with
  | none =>
    have hip' : ip ≠ [] := by
      rcases hne with h | ⟨f, h, _⟩
      · exact h
      · simp at h
    simp only [renderFrac, List.nil_append]
    cases hX with
    | none => simp [hip']
    | unsigned E d ds hE hd hds =>
      obtain ⟨_, d43, d45, _⟩ := GLua.Lexer.digit_facts d hd
      rcases hE with rfl | rfl <;> (simp [hip']; split <;> simp_all)
    | signed E s d ds hE hs hd hds =>
      rcases hE with rfl | rfl <;> rcases hs with rfl | rfl <;> simp_all
  | some f =>
    obtain ⟨f1, f2⟩ := digits_stop f _ hfp hexd
    simp only [renderFrac, List.cons_append]
    rw [f1, f2]
    have hn : ¬ (ip = [] ∧ f = []) := by
      rintro ⟨a, b⟩
      rcases hne with h | ⟨f', h1, h2⟩
      · exact h a
      · simp only [Option.some.injEq] at h1; rw [← h1] at h2; exact h2 b
    cases hX with
    | none => simp [hn]
    | unsigned E d ds hE hd hds =>
      obtain ⟨_, d43, d45, _⟩ := GLua.Lexer.digit_facts d hd
      rcases hE with rfl | rfl <;> (simp [hn]; split <;> simp_all)
    | signed E s d ds hE hs hd hds =>
      rcases hE with rfl | rfl <;> rcases hs with rfl | rfl <;> simp_all

/-! ### the step of `go` over a numeral -/

/-- the bytes a numeral is made of. -/
def numCh (b : UInt8) : Bool := isAlnum b || b == 46 || b == 43 || b == 45


theorem digit_class (d : UInt8) : isDigit d = true →
    isNewline d = false ∧ isBlank d = false ∧ isLetter d = false ∧ dd d = true ∧ isAlnum d = true := by
  revert d; apply forall_byte; decide +kernel

theorem hex_class (d : UInt8) : isHex d = true → isAlnum d = true ∧ isNewline d = false := by
  revert d; apply forall_byte; decide +kernel

theorem dd_class (b : UInt8) : dd b = true → isNewline b = false ∧ isBlank b = false ∧ isLetter b = false := by
  revert b; apply forall_byte; decide +kernel

theorem alnum_facts (r : Bytes) (hr : HeadNot isAlnum r) :
    HeadNot (fun c => c == 69 || c == 101) r ∧ HeadNot isDigit r := by
  have h : ∀ c : UInt8, isAlnum c = false → (c == 69 || c == 101) = false ∧ isDigit c = false := by
    intro c; revert c; apply forall_byte; decide +kernel
  refine ⟨?_, ?_⟩ <;> (intro c r' e; have := h c (hr c r' e))
  · exact this.1
  · exact this.2

theorem dd_of (r : Bytes) (hr : HeadNot isAlnum r) (hd : HeadNot (fun c => c == 46) r) : HeadNot dd r := by
  have h : ∀ c : UInt8, isAlnum c = false → (c == 46) = false → dd c = false := by
    intro c; revert c; apply forall_byte; decide +kernel
  intro c r' e
  exact h c (hr c r' e) (hd c r' e)

/-- `go` on a text that starts with a numeral whose extent and validity are known. -/
theorem go_numeral (b : UInt8) (rg : Bytes) (text r : Bytes) (fuel line : Nat) (acc : List STok)
    (h1 : isNewline b = false) (h2 : isBlank b = false) (h3 : isLetter b = false)
    (h4 : (isDigit b || (b == 46 && headP isDigit rg)) = true)
    (hext : numeralExtent (b :: rg) = (text, r)) (hval : (numeralValue text).isSome = true) :
    go (fuel + 1) (b :: rg) line acc = go fuel r line ({ kind := .number, text := text, line := line } :: acc) := by
  rw [go_chain b rg fuel line acc h1 h2]
  simp only [h3, Bool.false_eq_true, if_false, h4, if_true, hext]
  obtain ⟨v, hv⟩ := Option.isSome_iff_exists.mp hval
  rw [hv]

theorem noNL_of_all (p : UInt8 → Bool) (hp : ∀ b, p b = true → isNewline b = false) (a : Bytes)
    (ha : a.all p = true) : NoNL a := by
  unfold NoNL
  rw [List.all_eq_true] at ha ⊢
  intro x hx
  simp [hp x (ha x hx)]

theorem all_append {p : UInt8 → Bool} (a b : Bytes) (ha : a.all p = true) (hb : b.all p = true) :
    (a ++ b).all p = true := by simp [ha, hb]

theorem specTok_flt (ip : Bytes) (fp : Option Bytes) (ex : Option Exp)
    (hwf : (RTok.num (.flt ip fp ex)).wf = true) (r : Bytes) (hf : follow (.num (.flt ip fp ex)) r = true) :
    SpecTok (.num (.flt ip fp ex)) r := by
  obtain ⟨hralnum, hdc⟩ := GLua.Lexer.follow_num _ r hf
  obtain ⟨hrE, hrdig⟩ := alnum_facts r hralnum
  simp only [RTok.wf, Numeral.wf, Bool.and_eq_true, Bool.or_eq_true, bne_iff_ne, ne_eq] at hwf
  obtain ⟨⟨⟨hip, hfp⟩, hne⟩, hex⟩ := hwf
  have hshape := expShape_of ex hex
  have hrenderN : (Numeral.flt ip fp ex).render = ip ++ (renderFrac fp ++ renderExp ex) := by
    show (ip ++ renderFrac fp) ++ renderExp ex = _
    rw [List.append_assoc]
  -- the digits-and-dots part
  have ha : (ip ++ renderFrac fp).all dd = true := by
    apply all_append
    · rw [List.all_eq_true] at hip ⊢
      intro x hx; exact (digit_class x (hip x hx)).2.2.2.1
    · cases fp with
      | none => rfl
      | some f =>
        simp only [renderFrac, List.all_cons, Bool.and_eq_true]
        refine ⟨by decide, ?_⟩
        rw [List.all_eq_true] at hfp ⊢
        intro x hx; exact (digit_class x (hfp x hx)).2.2.2.1
  -- extent and validity of the numeral
  have hext : numeralExtent ((ip ++ renderFrac fp) ++ (renderExp ex ++ r)) =
      ((ip ++ renderFrac fp) ++ renderExp ex, r) := by
    generalize hX : renderExp ex = X at hshape
    cases hshape with
    | none =>
      have hexn : ex = none := by
        cases ex with
        | none => rfl
        | some x => simp [renderExp, Exp.render] at hX
      have hrdd : HeadNot dd r := dd_of r hralnum (hdc (by rw [hexn]; rfl))
      simp only [List.nil_append, List.append_nil]
      rw [numeralExtent_plain _ ha r hrdd hrE]
      obtain ⟨t1, t2⟩ := takeWhile_append_stop isAlnum [] r rfl hralnum
      simp only [List.nil_append] at t1 t2
      rw [t1, t2]; simp
    | unsigned E d ds hE hd hds =>
      have hsg : HeadNot (fun c => c == 43 || c == 45) (d :: ds ++ r) := by
        obtain ⟨_, d43, d45, _⟩ := GLua.Lexer.digit_facts d hd
        exact GLua.Lexer.HeadNot.cons _ _ _ (by simp [d43, d45])
      have := numeralExtent_unsigned _ ha E (d :: ds ++ r) hE hsg
      simp only [List.cons_append] at this ⊢
      rw [this]
      have hall : (d :: ds).all isAlnum = true := by
        simp only [List.all_cons, Bool.and_eq_true]
        refine ⟨(digit_class d hd).2.2.2.2, ?_⟩
        rw [List.all_eq_true] at hds ⊢
        intro x hx; exact (digit_class x (hds x hx)).2.2.2.2
      obtain ⟨t1, t2⟩ := takeWhile_append_stop isAlnum (d :: ds) r hall hralnum
      simp only [List.cons_append] at t1 t2
      rw [t1, t2]; simp
    | signed E s d ds hE hs hd hds =>
      have := numeralExtent_signed _ ha E s (d :: ds ++ r) hE hs
      simp only [List.cons_append] at this ⊢
      rw [this]
      have hall : (d :: ds).all isAlnum = true := by
        simp only [List.all_cons, Bool.and_eq_true]
        refine ⟨(digit_class d hd).2.2.2.2, ?_⟩
        rw [List.all_eq_true] at hds ⊢
        intro x hx; exact (digit_class x (hds x hx)).2.2.2.2
      obtain ⟨t1, t2⟩ := takeWhile_append_stop isAlnum (d :: ds) r hall hralnum
      simp only [List.cons_append] at t1 t2
      rw [t1, t2]; simp
  have hval : (numeralValue ((ip ++ renderFrac fp) ++ renderExp ex)).isSome = true := by
    rw [List.append_assoc, numeralValue_decimal]
    · refine decimal_isSome ip fp _ hip hfp ?_ hshape
      rcases hne with h | h
      · exact Or.inl h
      · right
        cases fp with
        | none => simp at h
        | some f => exact ⟨f, rfl, by simpa using h⟩
    · -- the second byte of a decimal numeral is no `x`
      intro x hs e
      have hx : HeadNot (fun c => c == 120 || c == 88 || c == 48) (renderFrac fp ++ renderExp ex) :=
        GLua.Lexer.headNot_append _ _ _ (GLua.Lexer.frac_head fp _ (by decide))
          (by
            intro c r' e'
            exact GLua.Lexer.exp_head ex hex (fun c => c == 120 || c == 88 || c == 48) (by decide) (by decide) c r' e')
      cases ip with
      | nil =>
        have := hx 48 (x :: hs) (by simpa using e)
        simp at this
      | cons c ip' =>
        simp only [List.cons_append, List.cons.injEq] at e
        cases ip' with
        | nil =>
          have := hx x hs (by simpa using e.2)
          simp only [Bool.or_eq_false_iff, beq_eq_false_iff_ne, ne_eq] at this
          exact ⟨this.1.1, this.1.2⟩
        | cons c2 ip'' =>
          simp only [List.cons_append, List.cons.injEq] at e
          simp only [List.all_cons, Bool.and_eq_true] at hip
          have hd := hip.2.1
          rw [e.2.1] at hd
          obtain ⟨_, _, _, _, _, _, h120, h88, _⟩ := GLua.Lexer.digit_facts x hd
          exact ⟨h120, h88⟩
  -- the whole text has no line terminator
  have hnonl : NoNL ((ip ++ renderFrac fp) ++ renderExp ex) := by
    have hpn : ∀ b, numCh b = true → isNewline b = false := by
      intro b; revert b; apply forall_byte; decide +kernel
    have hddp : ∀ b, dd b = true → numCh b = true := by
      intro b; revert b; apply forall_byte; decide +kernel
    have hdp : ∀ b, isDigit b = true → numCh b = true := by
      intro b; revert b; apply forall_byte; decide +kernel
    apply noNL_of_all numCh hpn
    apply all_append
    · rw [List.all_eq_true] at ha ⊢
      intro x hx; exact hddp x (ha x hx)
    · generalize renderExp ex = X at hshape
      cases hshape with
      | none => rfl
      | unsigned E d ds hE hd hds =>
        have hds' : ds.all numCh = true := by
          rw [List.all_eq_true] at hds ⊢
          intro x hx; exact hdp x (hds x hx)
        rcases hE with rfl | rfl <;>
          (simp only [List.all_cons, Bool.and_eq_true]; exact ⟨by decide, hdp d hd, hds'⟩)
      | signed E s d ds hE hs hd hds =>
        have hds' : ds.all numCh = true := by
          rw [List.all_eq_true] at hds ⊢
          intro x hx; exact hdp x (hds x hx)
        rcases hE with rfl | rfl <;> rcases hs with rfl | rfl <;>
          (simp only [List.all_cons, Bool.and_eq_true]; exact ⟨by decide, by decide, hdp d hd, hds'⟩)
  intro fuel line acc
  simp only [RTok.render, RTok.kind, RTok.specText, hrenderN]
  rw [← List.append_assoc ip, lineEnds_noNL _ hnonl, Nat.add_zero]
  -- the first byte
  cases hfirst : ip ++ renderFrac fp with
  | nil =>
    exfalso
    have : ip = [] ∧ renderFrac fp = [] := by simpa using hfirst
    cases fp with
    | none => rcases hne with h | h; exact h this.1; simp at h
    | some f => simp [renderFrac] at this
  | cons b rest =>
    rw [hfirst] at hext hval ha
    simp only [List.cons_append, List.append_assoc] at hext ⊢
    have hb : dd b = true := by simp only [List.all_cons, Bool.and_eq_true] at ha; exact ha.1
    have hbfacts := dd_class b hb
    have h4 : (isDigit b || (b == 46 && headP isDigit (rest ++ (renderExp ex ++ r)))) = true := by
      cases ip with
      | cons c ip' =>
        simp only [List.cons_append, List.cons.injEq] at hfirst
        simp only [List.all_cons, Bool.and_eq_true] at hip
        rw [← hfirst.1, hip.1]; rfl
      | nil =>
        cases fp with
        | none => simp [renderFrac] at hfirst
        | some f =>
          simp only [renderFrac, List.nil_append, List.cons.injEq] at hfirst
          cases f with
          | nil => rcases hne with h | h; exact absurd rfl h; simp at h
          | cons d f' =>
            have hd : isDigit d = true := by
              have : (d :: f').all isDigit = true := hfp
              simp only [List.all_cons, Bool.and_eq_true] at this; exact this.1
            rw [← hfirst.1, ← hfirst.2]
            simp [headP_cons, hd]
    exact go_numeral b _ _ r fuel line acc hbfacts.1 hbfacts.2.1 hbfacts.2.2 h4 hext (by simpa using hval)

theorem specTok_dec (ds : Bytes) (hwf : (RTok.num (.dec ds)).wf = true) (r : Bytes)
    (hf : follow (.num (.dec ds)) r = true) : SpecTok (.num (.dec ds)) r := by
  have hwf' : (RTok.num (.flt ds none none)).wf = true := by
    simp only [RTok.wf, Numeral.wf, Bool.and_eq_true, bne_iff_ne, ne_eq] at hwf ⊢
    simp [hwf.1, hwf.2]
  have h := specTok_flt ds none none hwf' r (by simpa [follow, Numeral.dotContinues] using hf)
  have hrd : (RTok.num (.flt ds none none)).render = (RTok.num (.dec ds)).render := by
    simp [RTok.render, Numeral.render]
  intro fuel line acc
  have := h fuel line acc
  rw [hrd] at this
  rw [this]
  simp only [RTok.kind, RTok.specText]
  rw [show (Numeral.flt ds none none).render = (Numeral.dec ds).render from by simp [Numeral.render]]

theorem specTok_hex (x : UInt8) (hs : Bytes) (hwf : (RTok.num (.hex x hs)).wf = true) (r : Bytes)
    (hf : follow (.num (.hex x hs)) r = true) : SpecTok (.num (.hex x hs)) r := by
  have hralnum := (GLua.Lexer.follow_num _ r hf).1
  simp only [RTok.wf, Numeral.wf, Bool.and_eq_true, Bool.or_eq_true, beq_iff_eq, bne_iff_ne, ne_eq] at hwf
  obtain ⟨⟨hx, hne⟩, hhs⟩ := hwf
  have hxs : (x :: hs).all isAlnum = true := by
    simp only [List.all_cons, Bool.and_eq_true]
    refine ⟨by rcases hx with rfl | rfl <;> decide, ?_⟩
    rw [List.all_eq_true] at hhs ⊢
    intro y hy; exact (hex_class y (hhs y hy)).1
  obtain ⟨t1, t2⟩ := takeWhile_append_stop isAlnum (x :: hs) r hxs hralnum
  have hext : numeralExtent (48 :: (x :: hs ++ r)) = (48 :: x :: hs, r) := by
    have := numeralExtent_plain [48] (by decide) (x :: hs ++ r)
      (GLua.Lexer.HeadNot.cons _ _ _ (by rcases hx with rfl | rfl <;> decide))
      (GLua.Lexer.HeadNot.cons _ _ _ (by rcases hx with rfl | rfl <;> decide))
    simp only [List.cons_append, List.nil_append] at this t1 t2 ⊢
    rw [this, t1, t2]
  have hnonl : NoNL (48 :: x :: hs) := by
    have : NoNL hs := noNL_of_all isHex (fun b h => (hex_class b h).2) hs hhs
    unfold NoNL at this ⊢
    rcases hx with rfl | rfl <;> (simp [this]; decide)
  intro fuel line acc
  simp only [RTok.render, Numeral.render, RTok.kind, RTok.specText, List.cons_append]
  rw [lineEnds_noNL _ hnonl, Nat.add_zero]
  exact go_numeral 48 _ _ r fuel line acc (by decide) (by decide) (by decide) (by simp [isDigit]) hext
    (numeralValue_hex x hs hx hne hhs)

theorem specTok_num (n : Numeral) (hwf : (RTok.num n).wf = true) (r : Bytes) (hf : follow (.num n) r = true) :
    SpecTok (.num n) r := by
  cases n with
  | dec ds => exact specTok_dec ds hwf r hf
  | flt ip fp ex => exact specTok_flt ip fp ex hwf r hf
  | hex x hs => exact specTok_hex x hs hwf r hf

/-- a rendered numeral contains no line terminator. -/
theorem numeral_noNL (n : Numeral) (hwf : (RTok.num n).wf = true) : NoNL n.render := by
  have hpn : ∀ b, numCh b = true → isNewline b = false := by
    intro b; revert b; apply forall_byte; decide +kernel
  have hdp : ∀ b, isDigit b = true → numCh b = true := by
    intro b; revert b; apply forall_byte; decide +kernel
  have hhp : ∀ b, isHex b = true → numCh b = true := by
    intro b; revert b; apply forall_byte; decide +kernel
  have hall : ∀ (p : UInt8 → Bool) (a : Bytes), (∀ b, p b = true → numCh b = true) → a.all p = true →
      a.all numCh = true := by
    intro p a hp ha
    rw [List.all_eq_true] at ha ⊢
    intro x hx; exact hp x (ha x hx)
  apply noNL_of_all numCh hpn
  cases n with
  | dec ds =>
    simp only [RTok.wf, Numeral.wf, Bool.and_eq_true] at hwf
    exact hall isDigit ds hdp hwf.2
  | hex x hs =>
    simp only [RTok.wf, Numeral.wf, Bool.and_eq_true, Bool.or_eq_true, beq_iff_eq] at hwf
    simp only [Numeral.render, List.all_cons, Bool.and_eq_true]
    exact ⟨by decide, by rcases hwf.1.1 with rfl | rfl <;> decide, hall isHex hs hhp hwf.2⟩
  | flt ip fp ex =>
    simp only [RTok.wf, Numeral.wf, Bool.and_eq_true] at hwf
    obtain ⟨⟨⟨hip, hfp⟩, _⟩, hex⟩ := hwf
    have hshape := expShape_of ex hex
    have hrn : (Numeral.flt ip fp ex).render = (ip ++ renderFrac fp) ++ renderExp ex := rfl
    rw [hrn]
    apply all_append
    · apply all_append
      · exact hall isDigit ip hdp hip
      · cases fp with
        | none => rfl
        | some f =>
          simp only [renderFrac, List.all_cons, Bool.and_eq_true]
          exact ⟨by decide, hall isDigit f hdp hfp⟩
    · generalize renderExp ex = X at hshape
      cases hshape with
      | none => rfl
      | unsigned E d ds hE hd hds =>
        rcases hE with rfl | rfl <;>
          (simp only [List.all_cons, Bool.and_eq_true]; exact ⟨by decide, hdp d hd, hall isDigit ds hdp hds⟩)
      | signed E s d ds hE hs hd hds =>
        rcases hE with rfl | rfl <;> rcases hs with rfl | rfl <;>
          (simp only [List.all_cons, Bool.and_eq_true]; exact ⟨by decide, by decide, hdp d hd, hall isDigit ds hdp hds⟩)

end GLua.LexSpec
