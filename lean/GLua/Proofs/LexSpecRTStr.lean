/-
  Round trip of the Spec's reference lexer, part 3: quoted strings (`shortString`).
-/
import GLua.Proofs.LexSpecRTTok

namespace GLua.LexSpec
open GLua.LexRender
open GLua.Lexer (HeadNot forall_byte nlRest lineEnds_nil)

/-! ### one step of `shortString` -/

theorem ss_close (q : UInt8) (f : Nat) (r acc : Bytes) (nl : Nat) :
    shortString q (f + 1) (q :: r) acc nl = .ok acc r nl := by
  rw [shortString.eq_def]; simp

theorem ss_raw (q b : UInt8) (f : Nat) (r acc : Bytes) (nl : Nat) (h1 : b ≠ q) (h2 : isNewline b = false) (h3 : b ≠ 92) :
    shortString q (f + 1) (b :: r) acc nl = shortString q f r (acc ++ [b]) nl := by
  rw [shortString.eq_def]; simp [h1, h2, h3]

theorem ss_esc (q e v : UInt8) (hq : q = 34 ∨ q = 39) (hm : (e, v) ∈ escapes) (f : Nat) (r acc : Bytes) (nl : Nat) :
    shortString q (f + 1) (92 :: e :: r) acc nl = shortString q f r (acc ++ [v]) nl := by
  simp only [escapes, List.mem_cons, Prod.mk.injEq, List.mem_nil_iff, or_false] at hm
  rw [shortString.eq_def]
  rcases hq with rfl | rfl <;>
    rcases hm with ⟨rfl, rfl⟩ | ⟨rfl, rfl⟩ | ⟨rfl, rfl⟩ | ⟨rfl, rfl⟩ | ⟨rfl, rfl⟩ | ⟨rfl, rfl⟩ | ⟨rfl, rfl⟩ | ⟨rfl, rfl⟩ |
      ⟨rfl, rfl⟩ | ⟨rfl, rfl⟩ <;> simp [isNewline]

theorem ss_nl (q e : UInt8) (hq : q = 34 ∨ q = 39) (he : isNewline e = true) (f : Nat) (r acc : Bytes) (nl : Nat) :
    shortString q (f + 1) (92 :: e :: r) acc nl = shortString q f (nlRest e r) (acc ++ [10]) (nl + 1) := by
  rw [shortString.eq_def]
  have hd := dropNewline_eq e r he
  rcases (isNewline_iff' e).mp he with rfl | rfl <;> rcases hq with rfl | rfl <;> simp [isNewline, hd]

theorem digit_not_special (e : UInt8) : isDigit e = true →
    e ≠ 97 ∧ e ≠ 98 ∧ e ≠ 102 ∧ e ≠ 110 ∧ e ≠ 114 ∧ e ≠ 116 ∧ e ≠ 118 ∧ e ≠ 92 ∧ e ≠ 34 ∧ e ≠ 39 ∧
      isNewline e = false := by
  revert e; apply forall_byte; decide +kernel

theorem ss_dec (q e : UInt8) (hq : q = 34 ∨ q = 39) (he : isDigit e = true) (f : Nat) (r acc : Bytes) (nl : Nat) :
    shortString q (f + 1) (92 :: e :: r) acc nl =
      if ((((e :: r).take 3).takeWhile isDigit).foldl (fun a d => a * 10 + (d.toNat - 48)) 0) > 255 then
        .reject "escape sequence too large"
      else shortString q f ((e :: r).drop (((e :: r).take 3).takeWhile isDigit).length)
        (acc ++ [UInt8.ofNat ((((e :: r).take 3).takeWhile isDigit).foldl (fun a d => a * 10 + (d.toNat - 48)) 0)]) nl := by
  obtain ⟨n1, n2, n3, n4, n5, n6, n7, n8, n9, n10, n11⟩ := digit_not_special e he
  have h92 : isNewline 92 = false := by decide
  rw [shortString.eq_def]
  rcases hq with rfl | rfl <;> simp [n1, n2, n3, n4, n5, n6, n7, n8, n9, n10, n11, he, h92]

/-! ### the whole string -/

theorem lineEnds_cons_plain (b : UInt8) (X : Bytes) (hb : isNewline b = false) : lineEnds (b :: X) = lineEnds X :=
  GLua.Lexer.lineEnds_plain b X (not_newline b hb)

theorem takeWhile_digits3 (ds X : Bytes) (hds : ds.all isDigit = true) (hl : ds.length ≤ 3)
    (hstop : ds.length = 3 ∨ HeadNot isDigit X) :
    ((ds ++ X).take 3).takeWhile isDigit = ds := by
  rcases hstop with h3 | hX
  · have : (ds ++ X).take 3 = ds := by rw [← h3]; exact List.take_left
    rw [this]
    exact (takeWhile_append_stop isDigit ds [] hds (GLua.Lexer.HeadNot.nil _)).1 |> fun h => by simpa using h
  · have : (ds ++ X).take 3 = ds ++ X.take (3 - ds.length) := by
      rw [List.take_append]; rw [List.take_of_length_le hl]
    rw [this]
    apply (takeWhile_append_stop isDigit ds _ hds _).1
    intro c r' e
    cases X with
    | nil => simp at e
    | cons y X' =>
      cases hn : 3 - ds.length with
      | zero => rw [hn] at e; simp at e
      | succ k =>
        rw [hn] at e
        simp only [List.take_succ_cons, List.cons.injEq] at e
        rw [← e.1]; exact hX y X' rfl

theorem shortString_run (q : UInt8) (hq : q = 34 ∨ q = 39) (rest : Bytes) :
    ∀ (cs : List SChar) (fuel : Nat) (acc : Bytes) (nl : Nat), scharsWf q cs = true →
      (cs.flatMap SChar.render ++ q :: rest).length < fuel →
      shortString q fuel (cs.flatMap SChar.render ++ q :: rest) acc nl =
        .ok (acc ++ cs.map SChar.denote) rest (nl + lineEnds (cs.flatMap SChar.render ++ [q])) := by
  have hqn : isNewline q = false := by rcases hq with rfl | rfl <;> decide
  intro cs
  induction cs with
  | nil =>
    intro fuel acc nl _ hl
    obtain ⟨f, rfl⟩ : ∃ f, fuel = f + 1 := ⟨fuel - 1, by simp at hl; omega⟩
    simp only [List.flatMap_nil, List.nil_append, List.map_nil, List.append_nil]
    rw [ss_close, lineEnds_cons_plain q [] hqn, lineEnds_nil]
    rfl
  | cons c cs' ih =>
    intro fuel acc nl hwf hl
    obtain ⟨f, rfl⟩ : ∃ f, fuel = f + 1 := ⟨fuel - 1, by simp at hl; omega⟩
    simp only [scharsWf, Bool.and_eq_true, Bool.not_eq_true', Bool.and_eq_false_iff] at hwf
    obtain ⟨⟨hc, hnd⟩, hwf'⟩ := hwf
    have hcs' := GLua.Lexer.scharsWf_all q cs' hwf'
    have hhead := GLua.Lexer.schar_head q hq cs' hcs' rest
    have hhead' : HeadNot isNewline (cs'.flatMap SChar.render ++ [q]) := GLua.Lexer.schar_head q hq cs' hcs' []
    simp only [List.flatMap_cons, List.append_assoc, List.map_cons] at hl ⊢
    cases c with
    | raw b =>
      obtain ⟨⟨b10, b13⟩, hbq, hb92⟩ := GLua.Lexer.raw_facts q b hc
      have hbn : isNewline b = false := by simp [isNewline, b10, b13]
      simp only [SChar.render, List.cons_append, List.nil_append, List.length_cons] at hl ⊢
      rw [ss_raw q b f _ acc nl hbq hbn hb92, ih f (acc ++ [b]) nl hwf' (by omega), lineEnds_cons_plain b _ hbn]
      simp [SChar.denote]
    | esc e =>
      have hm : (e, escapeValue e) ∈ escapes := by
        have : ∀ e : UInt8, escapes.any (fun p => p.1 == e) = true → (e, escapeValue e) ∈ escapes := by
          intro e; revert e; apply forall_byte; decide +kernel
        exact this e (by simpa [SChar.wf] using hc)
      have hen : isNewline e = false := by
        have : ∀ e : UInt8, escapes.any (fun p => p.1 == e) = true → isNewline e = false := by
          intro e; revert e; apply forall_byte; decide +kernel
        exact this e (by simpa [SChar.wf] using hc)
      simp only [SChar.render, List.cons_append, List.nil_append, List.length_cons] at hl ⊢
      rw [ss_esc q e _ hq hm, ih f _ nl hwf' (by omega), lineEnds_cons_plain 92 _ (by decide),
        lineEnds_cons_plain e _ hen]
      simp [SChar.denote]
    | dec b =>
      obtain ⟨d1, d2, d3, dv⟩ := GLua.Lexer.dec_digits b
      have g1 : isDigit (48 + b / 100) = true := by
        have : ∀ b : UInt8, isDigit (48 + b / 100) = true ∧ isDigit (48 + b / 10 % 10) = true ∧ isDigit (48 + b % 10) = true := by
          intro b; revert b; apply forall_byte; decide +kernel
        exact (this b).1
      have g23 : isDigit (48 + b / 10 % 10) = true ∧ isDigit (48 + b % 10) = true := by
        have : ∀ b : UInt8, isDigit (48 + b / 100) = true ∧ isDigit (48 + b / 10 % 10) = true ∧ isDigit (48 + b % 10) = true := by
          intro b; revert b; apply forall_byte; decide +kernel
        exact (this b).2
      simp only [SChar.render, List.cons_append, List.nil_append, List.length_cons] at hl ⊢
      have htw := takeWhile_digits3 [48 + b / 100, 48 + b / 10 % 10, 48 + b % 10] (cs'.flatMap SChar.render ++ q :: rest)
        (by simp [g1, g23.1, g23.2]) (by simp) (Or.inl rfl)
      simp only [List.cons_append, List.nil_append] at htw
      rw [ss_dec q _ hq g1, htw]
      have hv : List.foldl (fun a d => a * 10 + (d.toNat - 48)) 0 [48 + b / 100, 48 + b / 10 % 10, 48 + b % 10] = b.toNat := by
        simp only [List.foldl_cons, List.foldl_nil]; omega
      rw [hv]
      have hb255 : ¬ b.toNat > 255 := by have := b.toNat_lt; omega
      simp only [hb255, if_false, List.length_cons, List.length_nil, List.drop_succ_cons, List.drop_zero]
      rw [ih f _ nl hwf' (by omega)]
      have hn : ∀ x, isDigit x = true → isNewline x = false := fun x h => (digit_not_special x h).2.2.2.2.2.2.2.2.2.2
      rw [lineEnds_cons_plain 92 _ (by decide), lineEnds_cons_plain _ _ (hn _ g1), lineEnds_cons_plain _ _ (hn _ g23.1),
        lineEnds_cons_plain _ _ (hn _ g23.2)]
      simp [SChar.denote]
    | dec1 b =>
      have hb : b < 10 := by simpa [SChar.wf] using hc
      obtain ⟨g1, dv⟩ := GLua.Lexer.dec1_digits b hb
      have hnd' := GLua.Lexer.schar_head_digit q hq cs' rest (by simpa [SChar.shortDec] using hnd)
      simp only [SChar.render, List.cons_append, List.nil_append, List.length_cons] at hl ⊢
      have htw := takeWhile_digits3 [48 + b] (cs'.flatMap SChar.render ++ q :: rest) (by simp [g1]) (by simp) (Or.inr hnd')
      simp only [List.cons_append, List.nil_append] at htw
      rw [ss_dec q _ hq g1, htw]
      have hv : List.foldl (fun a d => a * 10 + (d.toNat - 48)) 0 [48 + b] = b.toNat := by
        simp only [List.foldl_cons, List.foldl_nil]; omega
      rw [hv]
      have hb255 : ¬ b.toNat > 255 := by have := b.toNat_lt; omega
      simp only [hb255, if_false, List.length_cons, List.length_nil, List.drop_succ_cons, List.drop_zero]
      rw [ih f _ nl hwf' (by omega)]
      have hn : ∀ x, isDigit x = true → isNewline x = false := fun x h => (digit_not_special x h).2.2.2.2.2.2.2.2.2.2
      rw [lineEnds_cons_plain 92 _ (by decide), lineEnds_cons_plain _ _ (hn _ g1)]
      simp [SChar.denote]
    | dec2 b =>
      have hb : b < 100 := by simpa [SChar.wf] using hc
      obtain ⟨g1, g2, dv⟩ := GLua.Lexer.dec2_digits b hb
      have hnd' := GLua.Lexer.schar_head_digit q hq cs' rest (by simpa [SChar.shortDec] using hnd)
      simp only [SChar.render, List.cons_append, List.nil_append, List.length_cons] at hl ⊢
      have htw := takeWhile_digits3 [48 + b / 10, 48 + b % 10] (cs'.flatMap SChar.render ++ q :: rest)
        (by simp [g1, g2]) (by simp) (Or.inr hnd')
      simp only [List.cons_append, List.nil_append] at htw
      rw [ss_dec q _ hq g1, htw]
      have hv : List.foldl (fun a d => a * 10 + (d.toNat - 48)) 0 [48 + b / 10, 48 + b % 10] = b.toNat := by
        simp only [List.foldl_cons, List.foldl_nil]; omega
      rw [hv]
      have hb255 : ¬ b.toNat > 255 := by have := b.toNat_lt; omega
      simp only [hb255, if_false, List.length_cons, List.length_nil, List.drop_succ_cons, List.drop_zero]
      rw [ih f _ nl hwf' (by omega)]
      have hn : ∀ x, isDigit x = true → isNewline x = false := fun x h => (digit_not_special x h).2.2.2.2.2.2.2.2.2.2
      rw [lineEnds_cons_plain 92 _ (by decide), lineEnds_cons_plain _ _ (hn _ g1), lineEnds_cons_plain _ _ (hn _ g2)]
      simp [SChar.denote]
    | nl eol =>
      have heol : eol = [10] ∨ eol = [13] ∨ eol = [13, 10] ∨ eol = [10, 13] := by
        simpa [SChar.wf, lineEndSpellings] using hc
      simp only [SChar.render, List.cons_append, List.length_cons] at hl ⊢
      have key : ∃ e t, eol = e :: t ∧ isNewline e = true ∧
          nlRest e (t ++ (cs'.flatMap SChar.render ++ q :: rest)) = cs'.flatMap SChar.render ++ q :: rest ∧
          nlRest e (t ++ (cs'.flatMap SChar.render ++ [q])) = cs'.flatMap SChar.render ++ [q] := by
        rcases heol with rfl | rfl | rfl | rfl
        · exact ⟨10, [], rfl, by decide, GLua.Lexer.nlRest_of_headNot _ _ hhead, GLua.Lexer.nlRest_of_headNot _ _ hhead'⟩
        · exact ⟨13, [], rfl, by decide, GLua.Lexer.nlRest_of_headNot _ _ hhead, GLua.Lexer.nlRest_of_headNot _ _ hhead'⟩
        · exact ⟨13, [10], rfl, by decide, by simp [nlRest], by simp [nlRest]⟩
        · exact ⟨10, [13], rfl, by decide, by simp [nlRest], by simp [nlRest]⟩
      obtain ⟨e, t, rfl, he, k1, k2⟩ := key
      simp only [List.cons_append, List.length_cons] at hl ⊢
      rw [ss_nl q e hq he, k1, ih f _ (nl + 1) hwf' (by simp only [List.length_append] at hl ⊢; omega),
        lineEnds_cons_plain 92 _ (by decide), lineEnds_nl e _ ((isNewline_iff' e).mp he), k2]
      simp only [SChar.denote, List.append_assoc, List.cons_append, List.nil_append]
      congr 1
      omega

theorem specTok_str (q : UInt8) (cs : List SChar) (hwf : (RTok.str q cs).wf = true) (r : Bytes) :
    SpecTok (.str q cs) r := by
  simp only [RTok.wf, Bool.and_eq_true, Bool.or_eq_true, beq_iff_eq] at hwf
  obtain ⟨hq, hcs⟩ := hwf
  have hqf : isNewline q = false ∧ isBlank q = false ∧ isLetter q = false ∧ isDigit q = false ∧ (q == 46) = false ∧
      (q == 45) = false ∧ (q == 34 || q == 39) = true := by
    rcases hq with rfl | rfl <;> decide
  obtain ⟨h1, h2, h3, h4, h5, h6, h7⟩ := hqf
  intro fuel line acc
  simp only [RTok.render, RTok.kind, RTok.specText, List.cons_append, List.append_assoc]
  rw [go_chain q _ fuel line acc h1 h2]
  simp only [h3, h4, h5, h6, h7, Bool.false_and, Bool.or_false, Bool.false_eq_true, if_false, if_true]
  have := shortString_run q hq r cs ((cs.flatMap SChar.render ++ ([q] ++ r)).length + 1) [] 0 hcs (by simp)
  simp only [List.singleton_append, List.cons_append, List.nil_append] at this ⊢
  rw [this, lineEnds_cons_plain q _ h1]
  simp

end GLua.LexSpec
