/-
  Round trip of the Spec's reference lexer, part 1: one step of `LexSpec.go` over a rendered name, keyword, operator
  or numeral.
-/
import GLua.Proofs.LexSpecRTBase

namespace GLua.LexSpec
open GLua.LexRender
open GLua.Lexer (HeadNot forall_byte follow_headNot)

/-- one step of the reference lexer over the rendered token `t` followed by `r`: the token is appended with the
    current line, and the line advances by the line ends inside the token. -/
def SpecTok (t : RTok) (r : Bytes) : Prop :=
  ∀ (fuel line : Nat) (acc : List STok),
    go (fuel + 1) (t.render ++ r) line acc =
      go fuel r (line + lineEnds t.render) ({ kind := t.kind, text := t.specText, line := line } :: acc)

theorem letter_facts (c : UInt8) : isLetter c = true → isNewline c = false ∧ isBlank c = false ∧ isAlnum c = true := by
  revert c; apply forall_byte; decide +kernel

theorem alnum_noNL (w : Bytes) (hw : w.all isAlnum = true) : NoNL w := by
  unfold NoNL
  rw [List.all_eq_true] at hw ⊢
  intro x hx
  have := hw x hx
  have h2 : ∀ b : UInt8, isAlnum b = true → (!isNewline b) = true := by
    intro b; revert b; apply forall_byte; decide +kernel
  exact h2 x this

/-! ### words -/

theorem go_word (c : UInt8) (w' r : Bytes) (hc : isLetter c = true) (hw : w'.all isAlnum = true)
    (hr : HeadNot isAlnum r) (fuel line : Nat) (acc : List STok) :
    go (fuel + 1) (c :: w' ++ r) line acc =
      go fuel r line ({ kind := if isKeyword (c :: w') then .keyword else .name, text := c :: w', line := line } :: acc) := by
  obtain ⟨h1, h2, h3⟩ := letter_facts c hc
  obtain ⟨t1, t2⟩ := takeWhile_append_stop isAlnum (c :: w') r (by simp [h3, hw]) hr
  rw [List.cons_append, go.eq_def]
  simp only [h1, h2, hc, if_true, Bool.false_eq_true, if_false]
  rw [← List.cons_append, t1, t2]

theorem specTok_name (w : Bytes) (hwf : (RTok.name w).wf = true) (r : Bytes) (hf : follow (.name w) r = true) :
    SpecTok (.name w) r := by
  cases w with
  | nil => simp [RTok.wf] at hwf
  | cons c w' =>
    simp only [RTok.wf, List.all_cons, Bool.and_eq_true, Bool.not_eq_true'] at hwf
    obtain ⟨⟨hc, _, hw⟩, hk⟩ := hwf
    have hr : HeadNot isAlnum r := by
      apply follow_headNot _ r hf
      intro d r'; simp [follow]
    intro fuel line acc
    have hnl : lineEnds (c :: w') = 0 := lineEnds_noNL _ (alnum_noNL _ (by simp [(letter_facts c hc).2.2, hw]))
    simp only [RTok.render, RTok.kind, RTok.specText]
    rw [go_word c w' r hc hw hr, hk, hnl]
    simp

theorem keyword_spec_facts : ∀ k ∈ keywords,
    (match k.toUTF8.toList with | c :: _ => isLetter c | [] => false) = true ∧
    k.toUTF8.toList.all isAlnum = true ∧ isKeyword k.toUTF8.toList = true := by
  decide +kernel

theorem specTok_kw (k : String) (hwf : (RTok.kw k).wf = true) (r : Bytes) (hf : follow (.kw k) r = true) :
    SpecTok (.kw k) r := by
  have hk : k ∈ keywords := by simpa [RTok.wf] using hwf
  obtain ⟨h1, h2, h3⟩ := keyword_spec_facts k hk
  have hr : HeadNot isAlnum r := by
    apply follow_headNot _ r hf
    intro d r'; simp [follow]
  cases hb : k.toUTF8.toList with
  | nil => rw [hb] at h1; simp at h1
  | cons c w' =>
    rw [hb] at h1 h2 h3
    simp only [List.all_cons, Bool.and_eq_true] at h2
    simp only at h1
    intro fuel line acc
    have hnl : lineEnds (c :: w') = 0 := lineEnds_noNL _ (alnum_noNL _ (by simp [h2.1, h2.2]))
    simp only [RTok.render, RTok.kind, RTok.specText, hb]
    rw [go_word c w' r h1 h2.2 hr, h3, hnl]
    simp

/-! ### the token switch of `go` -/

def headP (p : UInt8 → Bool) (r : Bytes) : Bool := match r with | d :: _ => p d | [] => false

/-- `go` on a byte that is neither a line terminator nor a blank, with the look-ahead tests spelled by `headP`. -/
theorem go_chain (b : UInt8) (r : Bytes) (fuel line : Nat) (acc : List STok)
    (h1 : isNewline b = false) (h2 : isBlank b = false) :
    go (fuel + 1) (b :: r) line acc =
      if isLetter b then
        go fuel ((b :: r).dropWhile isAlnum) line
          ({ kind := if isKeyword ((b :: r).takeWhile isAlnum) then .keyword else .name,
             text := (b :: r).takeWhile isAlnum, line := line } :: acc)
      else if isDigit b || (b == 46 && headP isDigit r) then
        match numeralValue (numeralExtent (b :: r)).1 with
        | none => .reject "malformed number"
        | some _ => go fuel (numeralExtent (b :: r)).2 line
            ({ kind := .number, text := (numeralExtent (b :: r)).1, line := line } :: acc)
      else if b == 45 && headP (fun d => d == 45) r then
        match longOpen (r.drop 1) with
        | some (level, r2) =>
          match longString level r2 with
          | none => .reject "unfinished long comment"
          | some (_, r3, nl) => go fuel r3 (line + nl) acc
        | none => go fuel ((r.drop 1).dropWhile (fun c => !isNewline c)) line acc
      else if b == 34 || b == 39 then
        match shortString b (r.length + 1) r [] 0 with
        | .ok c r' nl => go fuel r' (line + nl) ({ kind := .string, text := c, line := line } :: acc)
        | .reject w => .reject w
        | .unspecified w => .unspecified w
      else if b == 91 && headP (fun d => d == 91 || d == 61) r then
        match longOpen (b :: r) with
        | none => .reject "invalid long string delimiter"
        | some (level, r2) =>
          match longString level r2 with
          | none => .reject "unfinished long string"
          | some (c, r3, nl) => go fuel r3 (line + nl) ({ kind := .string, text := c, line := line } :: acc)
      else if symbols3.any (fun s => s == (b :: r).take 3) then
        go fuel (r.drop 2) line ({ kind := .symbol, text := (b :: r).take 3, line := line } :: acc)
      else if symbols2.any (fun s => s == (b :: r).take 2) then
        go fuel (r.drop 1) line ({ kind := .symbol, text := (b :: r).take 2, line := line } :: acc)
      else if symbols1.contains b then
        go fuel r line ({ kind := .symbol, text := [b], line := line } :: acc)
      else .reject "character outside the lexical grammar" := by
  rw [go.eq_def]
  simp only [h1, h2, Bool.false_eq_true, if_false]
  cases r with
  | nil => rfl
  | cons d r' =>
    simp only [headP]
    by_cases h45 : d = 45
    · subst h45
      simp <;> rfl
    · by_cases h91 : d = 91
      · subst h91; simp <;> rfl
      · by_cases h61 : d = 61
        · subst h61; simp <;> rfl
        · simp [h45, h91, h61] <;> rfl

theorem headP_cons (p : UInt8 → Bool) (d : UInt8) (r : Bytes) : headP p (d :: r) = p d := rfl
theorem headP_nil (p : UInt8 → Bool) : headP p [] = false := rfl

theorem headP_false (p : UInt8 → Bool) (r : Bytes) (h : HeadNot p r) : headP p r = false := by
  cases r with
  | nil => rfl
  | cons d r' => exact h d r' rfl

/-! ### operators -/

/-- the tests of `go` on a one-byte operator `c` followed by the byte `d` which may follow it. -/
theorem sym1_conds : ∀ c ∈ symbols1, ∀ d : Fin 256, follow (.sym [c]) [UInt8.ofNat d.val] = true →
    isNewline c = false ∧ isBlank c = false ∧ isLetter c = false ∧
    (isDigit c || (c == 46 && isDigit (UInt8.ofNat d.val))) = false ∧ (c == 45 && UInt8.ofNat d.val == 45) = false ∧
    (c == 34 || c == 39) = false ∧ (c == 91 && (UInt8.ofNat d.val == 91 || UInt8.ofNat d.val == 61)) = false ∧
    (c == 46 && UInt8.ofNat d.val == 46) = false ∧ symbols2.any (fun s => s == [c, UInt8.ofNat d.val]) = false := by
  decide +kernel

theorem sym1_conds_end : ∀ c ∈ symbols1,
    isNewline c = false ∧ isBlank c = false ∧ isLetter c = false ∧ isDigit c = false ∧ (c == 34 || c == 39) = false ∧
    symbols2.any (fun s => s == [c]) = false ∧ symbols3.any (fun s => s == [c]) = false := by
  decide +kernel

theorem follow_head' (t : RTok) (d : UInt8) (r : Bytes) : follow t (d :: r) = follow t [d] :=
  GLua.Lexer.follow_head t d r []

theorem specTok_sym1 (c : UInt8) (hc : c ∈ symbols1) (r : Bytes) (hf : follow (.sym [c]) r = true) :
    SpecTok (.sym [c]) r := by
  intro fuel line acc
  have hnl : lineEnds [c] = 0 := by
    apply lineEnds_noNL
    have := (sym1_conds_end c hc).1
    simp [NoNL, this]
  simp only [RTok.render, RTok.kind, RTok.specText, hnl, Nat.add_zero, List.cons_append, List.nil_append]
  cases r with
  | nil =>
    obtain ⟨h1, h2, h3, h4, h5, h6, h7⟩ := sym1_conds_end c hc
    rw [go_chain c [] fuel line acc h1 h2]
    have hc1 : symbols1.contains c = true := by simpa using hc
    simp only [h3, h4, h5, headP_nil, Bool.and_false, Bool.or_false, Bool.false_eq_true, if_false, List.take, h6, h7,
      hc1, if_true]
  | cons d r' =>
    rw [follow_head'] at hf
    have hd : UInt8.ofNat d.toNat = d := by simp
    have := sym1_conds c hc ⟨d.toNat, d.toNat_lt⟩ (by simpa [hd] using hf)
    simp only [hd] at this
    obtain ⟨h1, h2, h3, h4, h5, h6, h7, h8, h9⟩ := this
    rw [go_chain c (d :: r') fuel line acc h1 h2]
    have hc1 : symbols1.contains c = true := by simpa using hc
    have h3' : symbols3.any (fun s => s == (c :: d :: r').take 3) = false := by
      simp only [symbols3, List.any_cons, List.any_nil, Bool.or_false, List.take]
      cases hx : ([46, 46, 46] == c :: d :: List.take 1 r') with
      | false => rfl
      | true =>
        exfalso
        simp only [beq_iff_eq, List.cons.injEq] at hx
        rw [← hx.1, ← hx.2.1] at h8
        exact absurd h8 (by decide)
    have h2' : symbols2.any (fun s => s == (c :: d :: r').take 2) = false := by
      simpa [List.take] using h9
    simp only [h3, headP_cons, h4, h5, h6, h7, Bool.false_eq_true, if_false, h3', h2', hc1, if_true]

def Sym2Conds (sp : Bytes) (c x : UInt8) : Prop :=
    isNewline c = false ∧ isBlank c = false ∧ isLetter c = false ∧ (isDigit c || (c == 46 && isDigit x)) = false ∧
    (c == 45 && x == 45) = false ∧ (c == 34 || c == 39) = false ∧ (c == 91 && (x == 91 || x == 61)) = false ∧
    isNewline x = false ∧ symbols2.any (fun s => s == [c, x]) = true ∧
    (c = 46 ∧ x = 46 → sp = [46, 46])

theorem sym2_conds (sp : Bytes) (h : sp ∈ symbols2) : ∃ c x, sp = [c, x] ∧ Sym2Conds sp c x := by
  simp only [symbols2, List.mem_cons, List.mem_nil_iff, or_false] at h
  rcases h with rfl | rfl | rfl | rfl | rfl | rfl
  all_goals exact ⟨_, _, rfl, by unfold Sym2Conds; decide⟩

theorem specTok_sym2 (sp : Bytes) (hsp : sp ∈ symbols2) (r : Bytes) (hf : follow (.sym sp) r = true) :
    SpecTok (.sym sp) r := by
  obtain ⟨c, x, rfl, h1, h2, h3, h4, h5, h6, h7, hx, h9, h10⟩ := sym2_conds sp hsp
  intro fuel line acc
  have hnl : lineEnds [c, x] = 0 := by
    apply lineEnds_noNL
    simp [NoNL, h1, hx]
  simp only [RTok.render, RTok.kind, RTok.specText, hnl, Nat.add_zero, List.cons_append, List.nil_append]
  rw [go_chain c (x :: r) fuel line acc h1 h2]
  have h3' : symbols3.any (fun s => s == c :: x :: List.take 1 r) = false := by
    simp only [symbols3, List.any_cons, List.any_nil, Bool.or_false]
    cases hh : ([46, 46, 46] == c :: x :: List.take 1 r) with
    | false => rfl
    | true =>
      exfalso
      simp only [beq_iff_eq, List.cons.injEq] at hh
      have hsp' := h10 ⟨hh.1.symm, hh.2.1.symm⟩
      simp only [List.cons.injEq, and_true] at hsp'
      -- `..` followed by a dot
      cases r with
      | nil => simp at hh
      | cons d r' =>
        simp only [List.take, List.cons.injEq, and_true] at hh
        rw [hsp'.1, hsp'.2, ← hh.2.2] at hf
        simp [follow] at hf
  simp only [h3, headP_cons, h4, h5, h6, h7, Bool.false_eq_true, if_false, List.take, h3', h9, if_true, List.drop]

theorem specTok_sym3 (r : Bytes) : SpecTok (.sym [46, 46, 46]) r := by
  intro fuel line acc
  have hnl : lineEnds [46, 46, 46] = 0 := by decide +kernel
  simp only [RTok.render, RTok.kind, RTok.specText, hnl, Nat.add_zero, List.cons_append, List.nil_append]
  rw [go_chain 46 (46 :: 46 :: r) fuel line acc (by decide) (by decide)]
  simp [headP_cons, symbols3, isLetter, isDigit]

theorem specTok_sym (sp : Bytes) (hwf : (RTok.sym sp).wf = true) (r : Bytes) (hf : follow (.sym sp) r = true) :
    SpecTok (.sym sp) r := by
  have hm : sp ∈ symbols := by simpa [RTok.wf] using hwf
  simp only [symbols, List.mem_append, List.mem_map] at hm
  rcases hm with (⟨c, hc, rfl⟩ | hm) | hm
  · exact specTok_sym1 c hc r hf
  · exact specTok_sym2 sp hm r hf
  · simp only [symbols3, List.mem_cons, List.mem_nil_iff, or_false] at hm
    subst hm
    exact specTok_sym3 r

end GLua.LexSpec
