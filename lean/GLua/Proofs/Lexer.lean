/-
  Lemmas about the scanner model (GLua/Model/Lexer.lean) used by Props/C08.lean.

  `Reach s s'` : `s'` is obtained from `s` by zero or more `Next` calls — every function of the scanner consumes
  input only through `Next`, so every invariant of `Next` is an invariant of the whole scanner.
-/
import GLua.Model.Lexer
import GLua.Spec.LexSpec

namespace GLua.Lexer

/-- reachability by `Next` calls. -/
inductive Reach : Sc → Sc → Prop where
  | refl (s : Sc) : Reach s s
  | step {s s' : Sc} (h : Reach (next s).2 s') : Reach s s'

theorem Reach.trans {a b c : Sc} (h1 : Reach a b) (h2 : Reach b c) : Reach a c := by
  induction h1 with
  | refl => exact h2
  | step _ ih => exact .step (ih h2)

theorem Reach.next (s : Sc) : Reach s (next s).2 := .step (.refl _)

theorem Reach.next_of {a b : Sc} (h : Reach a b) : Reach a (GLua.Lexer.next b).2 := h.trans (Reach.next b)

theorem skipWsLoop_reach (ws : Nat) (ch : Int) (s : Sc) : Reach s (skipWsLoop ws ch s).2 := by
  fun_induction skipWsLoop ws ch s
  · rename_i ih; exact .step ih
  · exact .refl _

theorem skipWhiteSpace_reach (ws : Nat) (s : Sc) : Reach s (skipWhiteSpace ws s).2 :=
  .step (skipWsLoop_reach ws _ _)

/-- the result of the blank-skipping loop is the result of one `Next` call on a reachable state, and the
    character it returns is not in the mask. -/
theorem skipWsLoop_last (ws : Nat) (s0 : Sc) :
    ∃ s1, Reach s0 s1 ∧ skipWsLoop ws (next s0).1 (next s0).2 = next s1 ∧
      wsBit ws (next s1).1 = false := by
  generalize hc : (next s0).1 = ch
  generalize hs : (next s0).2 = s
  have key : ∀ (ch : Int) (s : Sc) (s0 : Sc), (next s0).1 = ch → (next s0).2 = s →
      ∃ s1, Reach s0 s1 ∧ skipWsLoop ws ch s = next s1 ∧ wsBit ws (next s1).1 = false := by
    intro ch s
    fun_induction skipWsLoop ws ch s
    · rename_i ch s hw ih
      intro s0 h1 h2
      obtain ⟨s1, r, e, w⟩ := ih s rfl rfl
      refine ⟨s1, ?_, e, w⟩
      exact (Reach.next s0).trans (by rw [h2]; exact r)
    · rename_i ch s hw
      intro s0 h1 h2
      refine ⟨s0, .refl _, ?_, ?_⟩
      · rw [← h1, ← h2]
      · rw [h1]; simpa using hw
  exact key ch s s0 hc hs

theorem countSep_reach (ch : Int) (s : Sc) : Reach s (countSep ch s).2.2 := by
  fun_induction countSep ch s
  · rename_i ih; exact .step ih
  · exact .refl _

theorem mlLoop_reach (count1 : Nat) (ch : Int) (buf : Buf) (s : Sc) (b : Buf) (s' : Sc)
    (h : mlLoop count1 ch buf s = .ok (b, s')) : Reach s s' := by
  fun_induction mlLoop count1 ch buf s
  · simp at h
  · rename_i buf s _ _
    simp only [Except.ok.injEq, Prod.mk.injEq] at h
    rw [← h.2]; exact .step (countSep_reach _ _)
  · rename_i buf s _ _ ih
    exact (Reach.step (countSep_reach _ _)).trans (ih h)
  · rename_i ch buf s _ _ ih
    exact .step (ih h)

theorem scanMultilineBody_reach (count1 : Nat) (buf : Buf) (s : Sc) (b : Buf) (s' : Sc)
    (h : scanMultilineBody count1 buf s = .ok (b, s')) : Reach s s' := by
  unfold scanMultilineBody at h
  simp only [] at h
  have h0 := mlLoop_reach _ _ _ _ _ _ h
  refine Reach.trans ?_ h0
  split
  · exact .step (.step (.refl _))
  · exact .step (.refl _)

theorem scanMultilineString_reach (ch : Int) (buf : Buf) (s : Sc) (b : Buf) (s' : Sc)
    (h : scanMultilineString ch buf s = .ok (b, s')) : Reach s s' := by
  unfold scanMultilineString at h
  simp only [] at h
  split at h
  · simp at h
  · exact (countSep_reach ch s).trans (scanMultilineBody_reach _ _ _ _ _ h)

theorem lineCommentLoop_reach (ch : Int) (s : Sc) : Reach s (lineCommentLoop ch s) := by
  fun_induction lineCommentLoop ch s
  · exact .refl _
  · rename_i ih; exact .step ih

theorem skipComments_reach (ch : Int) (s s' : Sc) (h : skipComments ch s = .ok s') : Reach s s' := by
  unfold skipComments at h
  split at h
  · simp only [] at h
    split at h
    · have hc : Reach s (countSep (next (next s).2).1 (next (next s).2).2).2.2 :=
        .step (.step (countSep_reach _ _))
      split at h
      · split at h
        · simp at h
        · rename_i b s'' hs
          simp only [Except.ok.injEq] at h
          rw [← h]
          exact hc.trans (scanMultilineBody_reach _ _ _ _ _ hs)
      · simp only [Except.ok.injEq] at h
        rw [← h]
        exact hc.trans (lineCommentLoop_reach _ _)
    · simp only [Except.ok.injEq] at h
      rw [← h]; exact .step (lineCommentLoop_reach _ _)
  · simp only [Except.ok.injEq] at h
    rw [← h]; exact lineCommentLoop_reach _ _

theorem identLoop_reach (buf : Buf) (s : Sc) : Reach s (identLoop buf s).2 := by
  fun_induction identLoop buf s
  · rename_i ih; exact .step ih
  · exact .refl _

theorem decimalLoop_reach (buf : Buf) (s : Sc) : Reach s (decimalLoop buf s).2 := by
  fun_induction decimalLoop buf s
  · rename_i ih; exact .step ih
  · exact .refl _

theorem hexLoop_reach (buf : Buf) (s : Sc) (hv : Bool) : Reach s (hexLoop buf s hv).2.1 := by
  fun_induction hexLoop buf s hv
  · rename_i ih; exact .step ih
  · exact .refl _

theorem ite_reach {α : Type} (f : α → Sc) (s : Sc) (c : Prop) [Decidable c] (a b : α)
    (ha : Reach s (f a)) (hb : Reach s (f b)) : Reach s (f (if c then a else b)) := by
  split <;> assumption

theorem scanNumberFrac_reach (ch : Int) (buf : Buf) (s : Sc) : Reach s (scanNumberFrac ch buf s).2 := by
  unfold scanNumberFrac scanDecimal
  have h1 := decimalLoop_reach (writeChar buf ch) s
  split
  · exact h1.trans (.step (decimalLoop_reach _ _))
  · exact h1

theorem scanNumberExpPre_reach (f : Buf × Sc) : Reach f.2 (scanNumberExpPre f).2 := by
  unfold scanNumberExpPre
  split
  · exact .step (.step (.refl _))
  · exact .step (.refl _)

theorem scanNumberTail_reach (ch : Int) (buf : Buf) (s : Sc) (b : Buf) (s' : Sc)
    (h : scanNumberTail ch buf s = .ok (b, s')) : Reach s s' := by
  unfold scanNumberTail at h
  have h1 := scanNumberFrac_reach ch buf s
  have h2 := scanNumberExpPre_reach (scanNumberFrac ch buf s)
  split at h
  · split at h
    · have he := numeralEnd_ok _ _ _ _ h
      simp only [Prod.mk.injEq] at he
      have h3 := decimalLoop_reach (writeChar (scanNumberExpPre (scanNumberFrac ch buf s)).1
        (next (scanNumberExpPre (scanNumberFrac ch buf s)).2).1) (next (scanNumberExpPre (scanNumberFrac ch buf s)).2).2
      unfold scanDecimal at he
      rw [he.2]
      exact (h1.trans h2).trans (.step h3)
    · simp at h
  · have he := numeralEnd_ok _ _ _ _ h
    simp only [Prod.mk.injEq] at he
    rw [he.2]; exact h1

theorem scanNumber_reach (ch : Int) (buf : Buf) (s : Sc) (b : Buf) (s' : Sc)
    (h : scanNumber ch buf s = .ok (b, s')) : Reach s s' := by
  unfold scanNumber at h
  split at h
  · simp only [] at h
    split at h
    · simp at h
    · have he := numeralEnd_ok _ _ _ _ h
      simp only [Prod.mk.injEq] at he
      rw [he.2]; exact .step (hexLoop_reach _ _ _)
  · exact scanNumberTail_reach _ _ _ _ _ h

theorem escDigits_reach (i : Nat) (val : Nat) (s : Sc) : Reach s (escDigits i val s).2 := by
  induction i generalizing val s with
  | zero => exact .refl _
  | succ i ih =>
    unfold escDigits
    split
    · exact .step (ih _ _)
    · exact .refl _

theorem scanEscapeCore_reach (buf : Buf) (s : Sc) : Reach s (scanEscapeCore buf s).2 := by
  have h : Reach s (next s).2 := Reach.next s
  have hd := h.trans (escDigits_reach 2 ((next s).1 - 48).toNat (next s).2)
  unfold scanEscapeCore
  simp only []
  repeat' (apply ite_prop (P := fun r : Buf × Sc => Reach s r.2) <;> intro _)
  all_goals (first | exact h | exact hd)

theorem scanEscape_reach (buf : Buf) (s : Sc) (r : Buf × Sc) (h : scanEscape buf s = .ok r) : Reach s r.2 := by
  rw [scanEscape_ok buf s r h]; exact scanEscapeCore_reach buf s

theorem stringLoop_reach (quote ch : Int) (buf : Buf) (s : Sc) (b : Buf) (s' : Sc)
    (h : stringLoop quote ch buf s = .ok (b, s')) : Reach s s' := by
  fun_induction stringLoop quote ch buf s
  · simp only [Except.ok.injEq, Prod.mk.injEq] at h; rw [← h.2]; exact .refl _
  · simp at h
  · simp at h
  · rename_i buf s r hE _ _ ih
    exact ((scanEscape_reach buf s r hE).trans (Reach.next _)).trans (ih h)
  · rename_i ch buf s _ _ _ ih
    exact .step (ih h)

theorem scanString_reach (quote : Int) (buf : Buf) (s : Sc) (b : Buf) (s' : Sc)
    (h : scanString quote buf s = .ok (b, s')) : Reach s s' := by
  unfold scanString at h
  exact .step (stringLoop_reach _ _ _ _ _ _ h)

/-- every token records the position of the state in which its first character had just been read. -/
def TokAt (s : Sc) (t : Token) : Prop :=
  t.line = s.line ∧ t.col = s.col ∧ (0 ≤ t.type → t.off = s.off - 1)

theorem scanPunct_reach (ch : Int) (s : Sc) (t : Token) (s' : Sc)
    (h : scanPunct ch s = .ok (t, s')) : Reach s s' ∧ TokAt s t := by
  unfold scanPunct at h
  repeat' split at h
  all_goals (try simp only [mkTok, Except.ok.injEq, Prod.mk.injEq, reduceCtorEq] at h)
  all_goals (try (obtain ⟨h1, h2⟩ := h; subst h1; subst h2))
  all_goals first
    | exact ⟨.refl _, rfl, rfl, fun _ => rfl⟩
    | exact ⟨Reach.next _, rfl, rfl, fun _ => rfl⟩

theorem scanDot_reach (ch : Int) (s : Sc) (t : Token) (s' : Sc)
    (h : scanDot ch s = .ok (t, s')) : Reach s s' ∧ TokAt s t := by
  unfold scanDot at h
  repeat' split at h
  all_goals (try simp only [mkTok, Except.ok.injEq, Prod.mk.injEq, reduceCtorEq] at h)
  all_goals (try (obtain ⟨h1, h2⟩ := h; subst h1; subst h2))
  all_goals first
    | exact ⟨.refl _, rfl, rfl, fun _ => rfl⟩
    | exact ⟨Reach.next _, rfl, rfl, fun _ => rfl⟩
    | exact ⟨.step (Reach.next _), rfl, rfl, fun _ => rfl⟩
    | exact ⟨scanNumber_reach _ _ _ _ _ ‹_›, rfl, rfl, fun _ => rfl⟩

theorem scanToken_reach (ch : Int) (s : Sc) (t : Token) (s' : Sc)
    (h : scanToken ch s = .ok (t, s')) : Reach s s' ∧ TokAt s t := by
  unfold scanToken at h
  repeat' split at h
  all_goals (try simp only [mkTok, Except.ok.injEq, Prod.mk.injEq, reduceCtorEq] at h)
  all_goals first
    | exact scanDot_reach _ _ _ _ h
    | exact scanPunct_reach _ _ _ _ h
    | skip
  all_goals (try (obtain ⟨h1, h2⟩ := h; subst h1; subst h2))
  all_goals first
    | exact ⟨.refl _, rfl, rfl, fun _ => rfl⟩
    | exact ⟨.refl _, rfl, rfl, fun h => by simp at h⟩
    | exact ⟨identLoop_reach _ _, rfl, rfl, fun _ => rfl⟩
    | exact ⟨scanNumber_reach _ _ _ _ _ ‹_›, rfl, rfl, fun _ => rfl⟩
    | exact ⟨scanString_reach _ _ _ _ _ ‹_›, rfl, rfl, fun _ => rfl⟩
    | exact ⟨.step (scanMultilineString_reach _ _ _ _ _ ‹_›), rfl, rfl, fun _ => rfl⟩

/-! ### line counting -/

open GLua.LexSpec (lineMap)

theorem byte_eq_iff (b : UInt8) (n : Nat) (hn : n < 256) : ((b.toNat : Int) = (n : Int)) ↔ b = UInt8.ofNat n := by
  constructor
  · intro h
    have h' : b.toNat = n := by omega
    rw [← h']; simp
  · intro h; subst h
    simp [Nat.mod_eq_of_lt hn]

/-- the scanner's line counter agrees with the Spec's line map on the unread input. -/
def LineInv (input : List UInt8) (s : Sc) : Prop :=
  (lineMap 1 input).drop s.off = lineMap s.line s.rest

theorem lineMap_head (l : Int) (b : UInt8) (r : List UInt8) : (lineMap l (b :: r))[0]? = some l := by
  unfold lineMap
  split
  · split
    · split <;> simp
    · simp
  · simp

theorem next_lineInv (input : List UInt8) (s : Sc) (h : LineInv input s) : LineInv input (next s).2 := by
  obtain ⟨rest, line, col, off⟩ := s
  unfold LineInv at *
  simp only at h
  cases rest with
  | nil =>
    simp only [next, readNext]
    simp only [show ¬ ((-1 : Int) = 10 ∨ (-1 : Int) = 13) by decide, if_false, if_true]
    rw [h]; simp [lineMap]
  | cons b r =>
    have e10 := byte_eq_iff b 10 (by decide)
    have e13 := byte_eq_iff b 13 (by decide)
    have em1 : ¬ ((b.toNat : Int) = -1) := by omega
    simp only [next, readNext]
    by_cases hnl : ((b.toNat : Int) = 10 ∨ (b.toNat : Int) = 13)
    · simp only [hnl, if_true]
      have hb : b = 10 ∨ b = 13 := by
        rcases hnl with h1 | h1
        · left; exact e10.mp h1
        · right; exact e13.mp h1
      have hnn : ¬ ((b.toNat : Int) < 0) := by omega
      simp only [newline, hnn, if_false, peek]
      cases r with
      | nil =>
        have hlm : lineMap line [b] = [line] := by
          rw [GLua.LexSpec.lineMap.eq_def]; simp only [hb, if_true]
        simp only [show ¬ (((b.toNat : Int) = 10 ∧ (-1 : Int) = 13) ∨ ((b.toNat : Int) = 13 ∧ (-1 : Int) = 10)) by omega,
          if_false]
        rw [hlm] at h
        have : (lineMap 1 input).drop (off + 1) = ((lineMap 1 input).drop off).drop 1 := by
          rw [List.drop_drop]
        rw [this, h]; simp [GLua.LexSpec.lineMap.eq_def]
      | cons c r' =>
        have hlm : lineMap line (b :: c :: r') =
            if (b = 10 ∧ c = 13) ∨ (b = 13 ∧ c = 10) then line :: line :: lineMap (line + 1) r'
            else line :: lineMap (line + 1) (c :: r') := by
          rw [GLua.LexSpec.lineMap.eq_def]; simp only [hb, if_true]
        have c10 := byte_eq_iff c 10 (by decide)
        have c13 := byte_eq_iff c 13 (by decide)
        rw [hlm] at h
        by_cases hp : (((b.toNat : Int) = 10 ∧ (c.toNat : Int) = 13) ∨ ((b.toNat : Int) = 13 ∧ (c.toNat : Int) = 10))
        · simp only [hp, if_true, readNext]
          have hp' : (b = 10 ∧ c = 13) ∨ (b = 13 ∧ c = 10) := by
            rcases hp with ⟨x, y⟩ | ⟨x, y⟩
            · left; exact ⟨e10.mp x, c13.mp y⟩
            · right; exact ⟨e13.mp x, c10.mp y⟩
          simp only [hp', if_true] at h
          have : (lineMap 1 input).drop (off + 1 + 1) = ((lineMap 1 input).drop off).drop 2 := by
            rw [List.drop_drop]
          rw [this, h]; simp
        · simp only [hp, if_false]
          have hp' : ¬ ((b = 10 ∧ c = 13) ∨ (b = 13 ∧ c = 10)) := by
            intro hh
            apply hp
            rcases hh with ⟨x, y⟩ | ⟨x, y⟩
            · left; exact ⟨e10.mpr x, c13.mpr y⟩
            · right; exact ⟨e13.mpr x, c10.mpr y⟩
          simp only [hp', if_false] at h
          have : (lineMap 1 input).drop (off + 1) = ((lineMap 1 input).drop off).drop 1 := by
            rw [List.drop_drop]
          rw [this, h]; simp
    · simp only [hnl, em1, if_false]
      have hb : ¬ (b = 10 ∨ b = 13) := by
        intro hh
        apply hnl
        rcases hh with x | x
        · left; exact e10.mpr x
        · right; exact e13.mpr x
      have hlm : lineMap line (b :: r) = line :: lineMap line r := by
        rw [GLua.LexSpec.lineMap.eq_def]; simp only [hb, if_false]
      rw [hlm] at h
      have : (lineMap 1 input).drop (off + 1) = ((lineMap 1 input).drop off).drop 1 := by
        rw [List.drop_drop]
      rw [this, h]; simp

theorem reach_lineInv (input : List UInt8) {s s' : Sc} (r : Reach s s') (h : LineInv input s) :
    LineInv input s' := by
  induction r with
  | refl => exact h
  | step _ ih => exact ih (next_lineInv input _ h)

/-- a `Next` call that returns an ordinary character (not a line terminator, not EOF): the character lay on the
    current line, which does not change, and exactly one byte was consumed. -/
theorem next_plain (input : List UInt8) (s : Sc) (h : LineInv input s)
    (h0 : 0 ≤ (next s).1) (h10 : (next s).1 ≠ 10) :
    (next s).2.line = s.line ∧ (next s).2.off = s.off + 1 ∧ (lineMap 1 input)[s.off]? = some s.line := by
  obtain ⟨rest, line, col, off⟩ := s
  unfold LineInv at h
  simp only at h
  cases rest with
  | nil => simp [next, readNext] at h0
  | cons b r =>
    simp only [next, readNext] at h0 h10 ⊢
    by_cases hnl : ((b.toNat : Int) = 10 ∨ (b.toNat : Int) = 13)
    · simp only [hnl, if_true] at h10; exact absurd rfl h10
    · have em1 : ¬ ((b.toNat : Int) = -1) := by omega
      simp only [hnl, em1, if_false, true_and]
      have := lineMap_head line b r
      rw [← h] at this
      simpa using this

theorem ws2_has_lf : wsBit Generated.Lexer.whitespace2 10 = true := by decide

/-- the blank-skipping prologue ends with one `Next` call on a reachable state; that call does not return a line
    terminator. -/
theorem skipWhiteSpace_last (ws : Nat) (s : Sc) :
    ∃ s1, Reach s s1 ∧ skipWhiteSpace ws s = next s1 ∧ wsBit ws (next s1).1 = false :=
  skipWsLoop_last ws s

theorem skipBlanks_last (s : Sc) :
    ∃ s0, Reach s s0 ∧ next s0 = ((skipBlanks s).1, (skipBlanks s).2.1) ∧ (skipBlanks s).1 ≠ 10 := by
  obtain ⟨s1, r1, e1, _⟩ := skipWhiteSpace_last Generated.Lexer.whitespace1 s
  unfold skipBlanks
  simp only []
  by_cases hnl : (skipWhiteSpace Generated.Lexer.whitespace1 s).1 = 10 ∨ (skipWhiteSpace Generated.Lexer.whitespace1 s).1 = 13
  · simp only [hnl, if_true]
    obtain ⟨s2, r2, e2, w2⟩ := skipWhiteSpace_last Generated.Lexer.whitespace2 (skipWhiteSpace Generated.Lexer.whitespace1 s).2
    refine ⟨s2, ?_, ?_, ?_⟩
    · refine r1.trans (Reach.trans ?_ r2)
      rw [e1]; exact Reach.next s1
    · rw [e2]
    · intro h10
      rw [e2] at h10
      rw [h10, ws2_has_lf] at w2
      exact absurd w2 (by decide)
  · simp only [hnl, if_false]
    refine ⟨s1, r1, ?_, ?_⟩
    · rw [e1]
    · intro h10; exact hnl (Or.inl h10)

theorem skipBlanks_reach (s : Sc) : Reach s (skipBlanks s).2.1 := by
  obtain ⟨s0, r, e, _⟩ := skipBlanks_last s
  have : (skipBlanks s).2.1 = (next s0).2 := by rw [e]
  rw [this]; exact r.trans (Reach.next s0)

/-- one `Scan` call preserves the line invariant, and the token it returns (other than EOF) carries the Spec's
    line of its first byte. -/
theorem scan_line (input : List UInt8) (prev : Prev) (s : Sc) (t : Token) (pnl : Bool) (s' : Sc)
    (hI : LineInv input s) (h : scan prev s = .tok t pnl s') :
    LineInv input s' ∧ (0 ≤ t.type → (lineMap 1 input)[t.off]? = some t.line) := by
  fun_induction scan prev s
  · simp at h
  · rename_i s hc s'' hsc ih
    apply ih _ h
    have r := ((skipBlanks_reach s).trans (Reach.next _)).trans (skipComments_reach _ _ _ hsc)
    exact reach_lineInv input r hI
  · simp at h
  · rename_i s hc t' s'' hst
    simp only [ScanRes.tok.injEq] at h
    obtain ⟨h1, _, h3⟩ := h
    subst h1; subst h3
    obtain ⟨rt, tl, _, toff⟩ := scanToken_reach _ _ _ _ hst
    obtain ⟨s0, r0, e0, n10⟩ := skipBlanks_last s
    have hI0 := reach_lineInv input r0 hI
    refine ⟨reach_lineInv input ((skipBlanks_reach s).trans rt) hI, ?_⟩
    intro ht
    have hch : 0 ≤ (skipBlanks s).1 := by
      apply Decidable.byContradiction
      intro hlt
      have := scanToken_eof _ _ _ _ hst (by omega)
      omega
    have e1 : (next s0).1 = (skipBlanks s).1 := by rw [e0]
    have e2 : (next s0).2 = (skipBlanks s).2.1 := by rw [e0]
    obtain ⟨pl, po, pm⟩ := next_plain input s0 hI0 (by rw [e1]; exact hch) (by rw [e1]; exact n10)
    rw [e2] at pl po
    rw [tl, pl, toff ht, po]
    simpa using pm

theorem lexAll_line (input : List UInt8) (prev : Prev) (s : Sc) (hI : LineInv input s) :
    ∀ p ∈ (lexAll prev s).toks, 0 ≤ p.1.type → (lineMap 1 input)[p.1.off]? = some p.1.line := by
  fun_induction lexAll prev s
  · intro p hp; simp at hp
  · rename_i prev s t pnl s' hs ht
    intro p hp hty
    simp only [List.mem_singleton] at hp
    subst hp
    exact absurd hty (by simp only []; omega)
  · rename_i prev s t pnl s' hs ht r ih
    intro p hp hty
    obtain ⟨hI', hl⟩ := scan_line input prev s t pnl s' hI hs
    simp only [List.mem_cons] at hp
    rcases hp with hp | hp
    · subst hp; exact hl hty
    · exact ih hI' p hp hty

theorem lexAll_length (prev : Prev) (s : Sc) : (lexAll prev s).toks.length ≤ s.rest.length + 1 := by
  fun_induction lexAll prev s
  · simp
  · simp
  · rename_i prev s t pnl s' hs ht r ih
    have := scan_progress prev s t pnl s' hs (by omega)
    show ((t, pnl) :: (lexAll { type := t.type, line := t.line } s').toks).length ≤ s.rest.length + 1
    simp only [List.length_cons]
    omega

end GLua.Lexer
