/-
  Blank skipping: any run of blanks (space, tab, form feed, vertical tab, LF, CR — in any order, with any pairing of
  CR/LF) in front of a token is skipped exactly by the prologue of `Scan`.
-/
import GLua.Proofs.LexerLit

namespace GLua.Lexer
open GLua.Generated.Lexer

def IsBlank (b : UInt8) : Prop := b = 32 ∨ b = 9 ∨ b = 12 ∨ b = 11 ∨ b = 10 ∨ b = 13

/-- `Next` on a line terminator returns '\n' and consumes it, together with the other terminator byte if that
    follows immediately. -/
theorem next_nl (s : Sc) (b : UInt8) (t : List UInt8) (hs : s.rest = b :: t) (hb : b = 10 ∨ b = 13) :
    (next s).1 = 10 ∧
      ((next s).2.rest = t ∨ ∃ b2 t', t = b2 :: t' ∧ (b2 = 10 ∨ b2 = 13) ∧ (next s).2.rest = t') := by
  obtain ⟨rest, line, col, off⟩ := s
  simp only at hs; subst hs
  have hnl : ((b.toNat : Int) = 10 ∨ (b.toNat : Int) = 13) := by
    rcases hb with rfl | rfl
    · left; rfl
    · right; rfl
  have hnn : ¬ ((b.toNat : Int) < 0) := by omega
  simp only [next, readNext, hnl, if_true, newline, hnn, if_false, peek, true_and]
  cases t with
  | nil =>
    left
    simp only [show ¬ (((b.toNat : Int) = 10 ∧ (-1 : Int) = 13) ∨ ((b.toNat : Int) = 13 ∧ (-1 : Int) = 10)) by omega,
      if_false]
  | cons c t' =>
    by_cases hp : (((b.toNat : Int) = 10 ∧ (c.toNat : Int) = 13) ∨ ((b.toNat : Int) = 13 ∧ (c.toNat : Int) = 10))
    · right
      refine ⟨c, t', rfl, ?_, ?_⟩
      · rcases hp with ⟨_, y⟩ | ⟨_, y⟩
        · right; exact (byte_eq_iff c 13 (by decide)).mp y
        · left; exact (byte_eq_iff c 10 (by decide)).mp y
      · simp only [hp, if_true, readNext]
    · left
      simp only [hp, if_false]

theorem wsBit_plain_blank (ws : Nat) (b : UInt8) (hb : b = 32 ∨ b = 9 ∨ b = 12 ∨ b = 11)
    (h32 : wsBit ws 32 = true) (h9 : wsBit ws 9 = true) (h12 : wsBit ws 12 = true) (h11 : wsBit ws 11 = true) :
    wsBit ws (b.toNat : Int) = true ∧ Plain b := by
  rcases hb with rfl | rfl | rfl | rfl
  · exact ⟨h32, by unfold Plain; decide⟩
  · exact ⟨h9, by unfold Plain; decide⟩
  · exact ⟨h12, by unfold Plain; decide⟩
  · exact ⟨h11, by unfold Plain; decide⟩

theorem skipWsLoop_true (ws : Nat) (ch : Int) (s : Sc) (h : wsBit ws ch = true) :
    skipWsLoop ws ch s = skipWsLoop ws (next s).1 (next s).2 := by
  rw [skipWsLoop]; simp only [h, if_true]

theorem skipWsLoop_false (ws : Nat) (ch : Int) (s : Sc) (h : wsBit ws ch = false) :
    skipWsLoop ws ch s = (ch, s) := by
  rw [skipWsLoop]; simp [h]

/-- the second loop (mask whitespace2) skips a whole run of blanks. -/
theorem ws2_run (c : UInt8) (r : List UInt8) (hc : Plain c) (hcw : wsBit whitespace2 (c.toNat : Int) = false) :
    ∀ (n : Nat) (bs : List UInt8), bs.length ≤ n → (∀ b ∈ bs, IsBlank b) →
      ∀ s : Sc, s.rest = bs ++ c :: r →
        ∃ s', skipWsLoop whitespace2 (next s).1 (next s).2 = ((c.toNat : Int), s') ∧ s'.rest = r := by
  intro n
  induction n with
  | zero =>
    intro bs hl _ s hs
    have : bs = [] := List.eq_nil_of_length_eq_zero (by omega)
    subst this
    obtain ⟨e1, e2, _⟩ := next_of_rest s c r (by simpa using hs) hc
    exact ⟨(next s).2, by rw [e1, skipWsLoop_false _ _ _ hcw], e2⟩
  | succ n ih =>
    intro bs hl hall s hs
    cases bs with
    | nil =>
      obtain ⟨e1, e2, _⟩ := next_of_rest s c r (by simpa using hs) hc
      exact ⟨(next s).2, by rw [e1, skipWsLoop_false _ _ _ hcw], e2⟩
    | cons b bs' =>
      have hb := hall b (List.mem_cons_self ..)
      have hall' : ∀ x ∈ bs', IsBlank x := fun x hx => hall x (List.mem_cons_of_mem _ hx)
      have hs' : s.rest = b :: (bs' ++ c :: r) := by rw [hs]; rfl
      simp only [List.length_cons] at hl
      unfold IsBlank at hb
      by_cases hnl : b = 10 ∨ b = 13
      · obtain ⟨e1, e2⟩ := next_nl s b _ hs' hnl
        rw [e1, skipWsLoop_true _ _ _ (by decide)]
        rcases e2 with e2 | ⟨b2, t', ht, hb2, e2⟩
        · exact ih bs' (by omega) hall' (next s).2 e2
        · cases bs' with
          | nil =>
            simp only [List.nil_append, List.cons.injEq] at ht
            obtain ⟨rfl, _⟩ := ht
            rcases hb2 with rfl | rfl
            · exact absurd rfl hc.1
            · exact absurd rfl hc.2
          | cons b3 bs'' =>
            simp only [List.cons_append, List.cons.injEq] at ht
            obtain ⟨_, rfl⟩ := ht
            simp only [List.length_cons] at hl
            exact ih bs'' (by omega) (fun x hx => hall' x (List.mem_cons_of_mem _ hx)) (next s).2 e2
      · have hpb : b = 32 ∨ b = 9 ∨ b = 12 ∨ b = 11 := by
          rcases hb with h | h | h | h | h | h
          · exact Or.inl h
          · exact Or.inr (Or.inl h)
          · exact Or.inr (Or.inr (Or.inl h))
          · exact Or.inr (Or.inr (Or.inr h))
          · exact absurd (Or.inl h) hnl
          · exact absurd (Or.inr h) hnl
        obtain ⟨hw, hp⟩ := wsBit_plain_blank whitespace2 b hpb (by decide) (by decide) (by decide) (by decide)
        obtain ⟨e1, e2, _⟩ := next_of_rest s b _ hs' hp
        rw [e1, skipWsLoop_true _ _ _ hw]
        exact ih bs' (by omega) hall' (next s).2 e2

/-- the first loop (mask whitespace1) stops at the token or right after the first line terminator. -/
theorem ws1_run (c : UInt8) (r : List UInt8) (hc : Plain c) (hcw : wsBit whitespace1 (c.toNat : Int) = false) :
    ∀ (bs : List UInt8), (∀ b ∈ bs, IsBlank b) → ∀ s : Sc, s.rest = bs ++ c :: r →
      (∃ s', skipWsLoop whitespace1 (next s).1 (next s).2 = ((c.toNat : Int), s') ∧ s'.rest = r) ∨
      (∃ s' bs2, skipWsLoop whitespace1 (next s).1 (next s).2 = (10, s') ∧ (∀ b ∈ bs2, IsBlank b) ∧
        s'.rest = bs2 ++ c :: r) := by
  intro bs
  induction bs with
  | nil =>
    intro _ s hs
    obtain ⟨e1, e2, _⟩ := next_of_rest s c r (by simpa using hs) hc
    exact Or.inl ⟨(next s).2, by rw [e1, skipWsLoop_false _ _ _ hcw], e2⟩
  | cons b bs' ih =>
    intro hall s hs
    have hb := hall b (List.mem_cons_self ..)
    have hall' : ∀ x ∈ bs', IsBlank x := fun x hx => hall x (List.mem_cons_of_mem _ hx)
    have hs' : s.rest = b :: (bs' ++ c :: r) := by rw [hs]; rfl
    unfold IsBlank at hb
    by_cases hnl : b = 10 ∨ b = 13
    · right
      obtain ⟨e1, e2⟩ := next_nl s b _ hs' hnl
      rw [e1, skipWsLoop_false _ _ _ (by decide)]
      rcases e2 with e2 | ⟨b2, t', ht, hb2, e2⟩
      · exact ⟨(next s).2, bs', rfl, hall', e2⟩
      · cases bs' with
        | nil =>
          simp only [List.nil_append, List.cons.injEq] at ht
          obtain ⟨rfl, _⟩ := ht
          rcases hb2 with rfl | rfl
          · exact absurd rfl hc.1
          · exact absurd rfl hc.2
        | cons b3 bs'' =>
          simp only [List.cons_append, List.cons.injEq] at ht
          obtain ⟨_, rfl⟩ := ht
          exact ⟨(next s).2, bs'', rfl, fun x hx => hall' x (List.mem_cons_of_mem _ hx), e2⟩
    · have hpb : b = 32 ∨ b = 9 ∨ b = 12 ∨ b = 11 := by
        rcases hb with h | h | h | h | h | h
        · exact Or.inl h
        · exact Or.inr (Or.inl h)
        · exact Or.inr (Or.inr (Or.inl h))
        · exact Or.inr (Or.inr (Or.inr h))
        · exact absurd (Or.inl h) hnl
        · exact absurd (Or.inr h) hnl
      obtain ⟨hw, hp⟩ := wsBit_plain_blank whitespace1 b hpb (by decide) (by decide) (by decide) (by decide)
      obtain ⟨e1, e2, _⟩ := next_of_rest s b _ hs' hp
      rw [e1, skipWsLoop_true _ _ _ hw]
      exact ih hall' (next s).2 e2

/-- **blank runs are skipped exactly**: whatever blanks precede a token's first byte `c`, the prologue of `Scan`
    delivers `c` with the unread input right behind it. -/
theorem skipBlanks_run (bs : List UInt8) (hall : ∀ b ∈ bs, IsBlank b) (c : UInt8) (r : List UInt8)
    (hc : Plain c) (hc1 : wsBit whitespace1 (c.toNat : Int) = false) (hc2 : wsBit whitespace2 (c.toNat : Int) = false)
    (s : Sc) (hs : s.rest = bs ++ c :: r) :
    (skipBlanks s).1 = (c.toNat : Int) ∧ (skipBlanks s).2.1.rest = r := by
  unfold skipBlanks skipWhiteSpace
  simp only []
  rcases ws1_run c r hc hc1 bs hall s hs with ⟨s', h1, h2⟩ | ⟨s', bs2, h1, hb2, h2⟩
  · have hno := plain_toNat c hc
    rw [h1]
    simp only [hno, if_false]
    exact ⟨trivial, h2⟩
  · rw [h1]
    simp only [true_or, if_true]
    obtain ⟨s'', g1, g2⟩ := ws2_run c r hc hc2 bs2.length bs2 (Nat.le_refl _) hb2 s' h2
    rw [g1]
    exact ⟨by trivial, g2⟩

end GLua.Lexer
