/-
  Column numbers, for every input: the column of a token (`Pos.Column`, taken after its first byte has been read) is
  1 + the number of bytes between the last line terminator byte before the token and the token.
-/
import GLua.Proofs.LexerLineEnds

namespace GLua.Lexer
open GLua.LexSpec (Bytes)
open GLua.LexRender (colFrom lineCol)

theorem colFrom_snoc (b : UInt8) : ∀ (pre : Bytes) (c : Nat),
    colFrom c (pre ++ [b]) = if LexSpec.isNewline b then 0 else colFrom c pre + 1 := by
  intro pre
  induction pre with
  | nil => intro c; simp only [List.nil_append, colFrom]
  | cons x pre' ih =>
    intro c
    simp only [List.cons_append, colFrom]
    split
    · exact ih 0
    · exact ih (c + 1)

theorem take_succ_of_drop (l : Bytes) (n : Nat) (b : UInt8) (r : Bytes) (h : l.drop n = b :: r) :
    l.take (n + 1) = l.take n ++ [b] := by
  have hb : l[n]? = some b := by
    have : l[n]? = (l.drop n)[0]? := by simp
    rw [this, h]; rfl
  rw [List.take_add_one, hb]; rfl

/-- the column counter agrees with the text consumed so far (or the scanner is past the end, where `Next` sets
    `Line = EOF`, column 0). -/
def ColInv (input : Bytes) (s : Sc) : Prop :=
  (s.line = -1 ∧ s.rest = []) ∨ s.col = (lineCol (input.take s.off) : Int)

theorem colInv_init (input : Bytes) : ColInv input (initSc input) := by
  right; simp [initSc, lineCol, colFrom]

theorem isNewline_iff (b : UInt8) : LexSpec.isNewline b = true ↔ (b = 10 ∨ b = 13) := by
  simp [LexSpec.isNewline]

theorem next_colInv (input : Bytes) (s : Sc) (hI : RestInv input s) (h : ColInv input s) :
    ColInv input (next s).2 := by
  obtain ⟨rest, line, col, off⟩ := s
  obtain ⟨hd, _⟩ := hI
  simp only at hd
  cases rest with
  | nil =>
    left
    simp [next, readNext]
  | cons b r =>
    right
    have htk := take_succ_of_drop input off b r hd
    have e10 := byte_eq_iff b 10 (by decide)
    have e13 := byte_eq_iff b 13 (by decide)
    simp only [next, readNext]
    by_cases hnl : ((b.toNat : Int) = 10 ∨ (b.toNat : Int) = 13)
    · have hb : b = 10 ∨ b = 13 := by
        rcases hnl with h1 | h1
        · left; exact e10.mp h1
        · right; exact e13.mp h1
      have hbn : LexSpec.isNewline b = true := (isNewline_iff b).mpr hb
      have hnn : ¬ ((b.toNat : Int) < 0) := by omega
      simp only [hnl, if_true, newline, hnn, if_false, peek]
      cases r with
      | nil =>
        simp only [show ¬ (((b.toNat : Int) = 10 ∧ (-1 : Int) = 13) ∨ ((b.toNat : Int) = 13 ∧ (-1 : Int) = 10)) by omega,
          if_false]
        rw [htk]
        simp [lineCol, colFrom_snoc, hbn]
      | cons c r' =>
        by_cases hp : (((b.toNat : Int) = 10 ∧ (c.toNat : Int) = 13) ∨ ((b.toNat : Int) = 13 ∧ (c.toNat : Int) = 10))
        · simp only [hp, if_true, readNext]
          have hc : c = 10 ∨ c = 13 := by
            rcases hp with ⟨_, y⟩ | ⟨_, y⟩
            · right; exact (byte_eq_iff c 13 (by decide)).mp y
            · left; exact (byte_eq_iff c 10 (by decide)).mp y
          have hd2 := (drop_succ_of_drop input off b (c :: r') hd).1
          rw [take_succ_of_drop input (off + 1) c r' hd2]
          simp [lineCol, colFrom_snoc, (isNewline_iff c).mpr hc]
        · simp only [hp, if_false]
          rw [htk]
          simp [lineCol, colFrom_snoc, hbn]
    · have em1 : ¬ ((b.toNat : Int) = -1) := by omega
      have hbn : LexSpec.isNewline b = false := by
        cases hx : LexSpec.isNewline b with
        | false => rfl
        | true =>
          exfalso
          rcases (isNewline_iff b).mp hx with rfl | rfl
          · exact hnl (Or.inl rfl)
          · exact hnl (Or.inr rfl)
      simp only [hnl, em1, if_false]
      rw [htk]
      rcases h with ⟨_, h2⟩ | h
      · simp at h2
      · simp only at h
        simp only [lineCol, colFrom_snoc, hbn, Bool.false_eq_true, if_false]
        rw [h]
        simp [lineCol]

theorem reach_colInv (input : Bytes) {s s' : Sc} (r : Reach s s') (hI : RestInv input s) (h : ColInv input s) :
    ColInv input s' := by
  induction r with
  | refl => exact h
  | step _ ih => exact ih (next_restInv input _ hI) (next_colInv input _ hI h)

/-- a `Next` call that returns an ordinary character: the column after it. -/
theorem next_plain_col (input : Bytes) (s : Sc) (hI : RestInv input s) (hC : ColInv input s)
    (h0 : 0 ≤ (next s).1) (h10 : (next s).1 ≠ 10) :
    (next s).2.col = 1 + (lineCol (input.take s.off) : Int) ∧ (next s).2.off = s.off + 1 := by
  obtain ⟨rest, line, col, off⟩ := s
  cases rest with
  | nil => simp [next, readNext] at h0
  | cons b r =>
    simp only [next, readNext] at h0 h10 ⊢
    by_cases hnl : ((b.toNat : Int) = 10 ∨ (b.toNat : Int) = 13)
    · simp only [hnl, if_true] at h10; exact absurd rfl h10
    · have em1 : ¬ ((b.toNat : Int) = -1) := by omega
      simp only [hnl, em1, if_false, and_true]
      rcases hC with ⟨_, h2⟩ | h
      · simp at h2
      · simp only at h; omega

theorem scan_col (input : Bytes) (prev : Prev) (s : Sc) (t : Token) (pnl : Bool) (s' : Sc)
    (hI : RestInv input s) (hC : ColInv input s) (h : scan prev s = .tok t pnl s') :
    (RestInv input s' ∧ ColInv input s') ∧
      (0 ≤ t.type → t.col = 1 + (lineCol (input.take t.off) : Int)) := by
  fun_induction scan prev s
  · simp at h
  · rename_i s hc s'' hsc ih
    have r := ((skipBlanks_reach s).trans (Reach.next _)).trans (skipComments_reach _ _ _ hsc)
    exact ih (reach_restInv input r hI) (reach_colInv input r hI hC) h
  · simp at h
  · rename_i s hc t' s'' hst
    simp only [ScanRes.tok.injEq] at h
    obtain ⟨h1, _, h3⟩ := h
    subst h1; subst h3
    obtain ⟨rt, _, tcol, toff⟩ := scanToken_reach _ _ _ _ hst
    obtain ⟨s0, r0, e0, n10⟩ := skipBlanks_last s
    have hI0 := reach_restInv input r0 hI
    have hC0 := reach_colInv input r0 hI hC
    have rr := (skipBlanks_reach s).trans rt
    refine ⟨⟨reach_restInv input rr hI, reach_colInv input rr hI hC⟩, ?_⟩
    intro ht
    have hch : 0 ≤ (skipBlanks s).1 := by
      apply Decidable.byContradiction
      intro hlt
      have := scanToken_eof _ _ _ _ hst (by omega)
      omega
    have e1 : (next s0).1 = (skipBlanks s).1 := by rw [e0]
    have e2 : (next s0).2 = (skipBlanks s).2.1 := by rw [e0]
    obtain ⟨pc, po⟩ := next_plain_col input s0 hI0 hC0 (by rw [e1]; exact hch) (by rw [e1]; exact n10)
    rw [e2] at pc po
    rw [tcol, pc, toff ht, po]
    simp

theorem lexAll_col (input : Bytes) (prev : Prev) (s : Sc) (hI : RestInv input s) (hC : ColInv input s) :
    ∀ p ∈ (lexAll prev s).toks, 0 ≤ p.1.type → p.1.col = 1 + (lineCol (input.take p.1.off) : Int) := by
  fun_induction lexAll prev s
  · intro p hp; simp at hp
  · rename_i prev s t pnl s' hs ht
    intro p hp hty
    simp only [List.mem_singleton] at hp
    subst hp
    exact absurd hty (by simp only []; omega)
  · rename_i prev s t pnl s' hs ht r ih
    intro p hp hty
    obtain ⟨⟨hI', hC'⟩, hl⟩ := scan_col input prev s t pnl s' hI hC hs
    simp only [List.mem_cons] at hp
    rcases hp with hp | hp
    · subst hp; exact hl hty
    · exact ih hI' hC' p hp hty

/-- **token columns**, for every input. -/
theorem lex_col (input : Bytes) :
    ∀ p ∈ (lex input).toks, 0 ≤ p.1.type → p.1.col = 1 + (lineCol (input.take p.1.off) : Int) :=
  lexAll_col input {} (initSc input) (restInv_init input) (colInv_init input)

end GLua.Lexer
