/-
  Line numbers as a count of line terminators, for every input:
  the line of a token is 1 + the number of line terminators (\n, \r, \r\n, \n\r — each once) in the text before its
  first byte.  Derived from `lexAll_line` (the Spec's `lineMap` at the token's offset) and two facts:
  the first byte of a token is no line terminator, and `lineMap` at such a position counts the line ends before it.
-/
import GLua.Proofs.LexerRTBase

namespace GLua.Lexer
open GLua.LexSpec (Bytes lineMap)
open GLua.LexRender (lineEnds)

theorem lineEnds_nil : lineEnds [] = 0 := by rw [GLua.LexRender.lineEnds.eq_def]

theorem lineEnds_plain (b : UInt8) (r : Bytes) (hb : ¬ (b = 10 ∨ b = 13)) : lineEnds (b :: r) = lineEnds r := by
  rw [GLua.LexRender.lineEnds.eq_def]; simp only [hb, if_false]

theorem lineEnds_nl_single (b : UInt8) (hb : b = 10 ∨ b = 13) : lineEnds [b] = 1 := by
  rw [GLua.LexRender.lineEnds.eq_def]; simp only [hb, if_true]

theorem lineEnds_nl_pair (b c : UInt8) (r : Bytes) (hb : b = 10 ∨ b = 13)
    (hp : (b = 10 ∧ c = 13) ∨ (b = 13 ∧ c = 10)) : lineEnds (b :: c :: r) = 1 + lineEnds r := by
  rw [GLua.LexRender.lineEnds.eq_def]; simp only [hb, if_true, hp]

theorem lineEnds_nl_nopair (b c : UInt8) (r : Bytes) (hb : b = 10 ∨ b = 13)
    (hp : ¬ ((b = 10 ∧ c = 13) ∨ (b = 13 ∧ c = 10))) : lineEnds (b :: c :: r) = 1 + lineEnds (c :: r) := by
  rw [GLua.LexRender.lineEnds.eq_def]; simp only [hb, if_true, hp, if_false]

/-- the Spec's line map at a position that holds no line terminator = start line + line ends before it. -/
theorem lineMap_lineEnds (l : Int) (bs : Bytes) :
    ∀ (k : Nat) (c : UInt8), bs[k]? = some c → c ≠ 10 → c ≠ 13 →
      (lineMap l bs)[k]? = some (l + (lineEnds (bs.take k) : Int)) := by
  fun_induction lineMap l bs with
  | case1 l => intro k c h; simp at h
  | case2 l b hb c r' hp ih =>
    -- a pair
    intro k x hx h10 h13
    match k with
    | 0 =>
      simp only [List.getElem?_cons_zero, Option.some.injEq] at hx
      subst hx
      rcases hb with h | h
      · exact absurd h h10
      · exact absurd h h13
    | 1 =>
      simp only [List.getElem?_cons_succ, List.getElem?_cons_zero, Option.some.injEq] at hx
      subst hx
      rcases hp with ⟨_, h⟩ | ⟨_, h⟩
      · exact absurd h h13
      · exact absurd h h10
    | k + 2 =>
      simp only [List.getElem?_cons_succ] at hx ⊢
      rw [ih k x hx h10 h13]
      simp only [List.take_succ_cons]
      rw [lineEnds_nl_pair b c _ hb hp]
      congr 1
      omega
  | case3 l b hb c r' hp ih =>
    intro k x hx h10 h13
    match k with
    | 0 =>
      simp only [List.getElem?_cons_zero, Option.some.injEq] at hx
      subst hx
      rcases hb with h | h
      · exact absurd h h10
      · exact absurd h h13
    | k + 1 =>
      simp only [List.getElem?_cons_succ] at hx ⊢
      rw [ih k x hx h10 h13]
      match k with
      | 0 =>
        simp only [List.take_zero, List.take_succ_cons, lineEnds_nil, lineEnds_nl_single b hb]
        congr 1
        omega
      | k + 1 =>
        simp only [List.take_succ_cons]
        rw [lineEnds_nl_nopair b c _ hb hp]
        congr 1
        omega
  | case4 l b hb =>
    intro k x hx h10 h13
    match k with
    | 0 =>
      simp only [List.getElem?_cons_zero, Option.some.injEq] at hx
      subst hx
      rcases hb with h | h
      · exact absurd h h10
      · exact absurd h h13
    | k + 1 => simp at hx
  | case5 l b r hb ih =>
    intro k x hx h10 h13
    match k with
    | 0 => simp [lineEnds_nil]
    | k + 1 =>
      simp only [List.getElem?_cons_succ] at hx ⊢
      rw [ih k x hx h10 h13]
      simp only [List.take_succ_cons]
      rw [lineEnds_plain b _ hb]

/-- a `Next` call returning an ordinary character consumed exactly that byte, which is no line terminator. -/
theorem next_plain_byte (input : Bytes) (s : Sc) (hI : RestInv input s)
    (h0 : 0 ≤ (next s).1) (h10 : (next s).1 ≠ 10) :
    ∃ c, input[s.off]? = some c ∧ c ≠ 10 ∧ c ≠ 13 ∧ (next s).2.off = s.off + 1 := by
  obtain ⟨rest, line, col, off⟩ := s
  obtain ⟨hd, _⟩ := hI
  simp only at hd
  cases rest with
  | nil => simp [next, readNext] at h0
  | cons b r =>
    simp only [next, readNext] at h0 h10 ⊢
    by_cases hnl : ((b.toNat : Int) = 10 ∨ (b.toNat : Int) = 13)
    · simp only [hnl, if_true] at h10; exact absurd rfl h10
    · have em1 : ¬ ((b.toNat : Int) = -1) := by omega
      simp only [hnl, em1, if_false]
      refine ⟨b, ?_, ?_, ?_, trivial⟩
      · have : input[off]? = (input.drop off)[0]? := by simp
        rw [this, hd]; rfl
      · intro h; subst h; exact hnl (Or.inl rfl)
      · intro h; subst h; exact hnl (Or.inr rfl)

/-- one `Scan` call: the state stays consistent with the input, and the first byte of the token it returns (other
    than EOF) is no line terminator. -/
theorem scan_first_byte (input : Bytes) (prev : Prev) (s : Sc) (t : Token) (pnl : Bool) (s' : Sc)
    (hI : RestInv input s) (h : scan prev s = .tok t pnl s') :
    RestInv input s' ∧ (0 ≤ t.type → ∃ c, input[t.off]? = some c ∧ c ≠ 10 ∧ c ≠ 13) := by
  fun_induction scan prev s
  · simp at h
  · rename_i s hc s'' hsc ih
    apply ih _ h
    exact reach_restInv input (((skipBlanks_reach s).trans (Reach.next _)).trans (skipComments_reach _ _ _ hsc)) hI
  · simp at h
  · rename_i s hc t' s'' hst
    simp only [ScanRes.tok.injEq] at h
    obtain ⟨h1, _, h3⟩ := h
    subst h1; subst h3
    obtain ⟨rt, _, _, toff⟩ := scanToken_reach _ _ _ _ hst
    obtain ⟨s0, r0, e0, n10⟩ := skipBlanks_last s
    have hI0 := reach_restInv input r0 hI
    refine ⟨reach_restInv input ((skipBlanks_reach s).trans rt) hI, ?_⟩
    intro ht
    have hch : 0 ≤ (skipBlanks s).1 := by
      apply Decidable.byContradiction
      intro hlt
      have := scanToken_eof _ _ _ _ hst (by omega)
      omega
    have e1 : (next s0).1 = (skipBlanks s).1 := by rw [e0]
    have e2 : (next s0).2 = (skipBlanks s).2.1 := by rw [e0]
    obtain ⟨c, hc1, hc2, hc3, po⟩ := next_plain_byte input s0 hI0 (by rw [e1]; exact hch) (by rw [e1]; exact n10)
    rw [e2] at po
    refine ⟨c, ?_, hc2, hc3⟩
    rw [toff ht, po]
    simpa using hc1

theorem lexAll_first_byte (input : Bytes) (prev : Prev) (s : Sc) (hI : RestInv input s) :
    ∀ p ∈ (lexAll prev s).toks, 0 ≤ p.1.type → ∃ c, input[p.1.off]? = some c ∧ c ≠ 10 ∧ c ≠ 13 := by
  fun_induction lexAll prev s
  · intro p hp; simp at hp
  · rename_i prev s t pnl s' hs ht
    intro p hp hty
    simp only [List.mem_singleton] at hp
    subst hp
    exact absurd hty (by simp only []; omega)
  · rename_i prev s t pnl s' hs ht r ih
    intro p hp hty
    obtain ⟨hI', hl⟩ := scan_first_byte input prev s t pnl s' hI hs
    simp only [List.mem_cons] at hp
    rcases hp with hp | hp
    · subst hp; exact hl hty
    · exact ih hI' p hp hty

/-- **token lines count line ends**, for every input. -/
theorem lex_line_ends (input : Bytes) :
    ∀ p ∈ (lex input).toks, 0 ≤ p.1.type → p.1.line = 1 + (lineEnds (input.take p.1.off) : Int) := by
  intro p hp hty
  obtain ⟨c, h1, h2, h3⟩ := lexAll_first_byte input {} (initSc input) (restInv_init input) p hp hty
  have hl := lexAll_line input {} (initSc input) rfl p hp hty
  rw [lineMap_lineEnds 1 input p.1.off c h1 h2 h3] at hl
  simp only [Option.some.injEq] at hl
  exact hl.symm

end GLua.Lexer
