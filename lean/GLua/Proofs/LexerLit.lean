/-
  Literal denotation lemmas for the scanner model: escapes, decimal escapes, long brackets.
-/
import GLua.Proofs.Lexer

namespace GLua.Lexer

theorem next_cons_plain (b : UInt8) (r : List UInt8) (line col : Int) (off : Nat)
    (h10 : b ≠ 10) (h13 : b ≠ 13) :
    next { rest := b :: r, line := line, col := col, off := off } =
      ((b.toNat : Int), { rest := r, line := line, col := col + 1, off := off + 1 }) := by
  have e10 := byte_eq_iff b 10 (by decide)
  have e13 := byte_eq_iff b 13 (by decide)
  have hnl : ¬ ((b.toNat : Int) = 10 ∨ (b.toNat : Int) = 13) := by
    intro h; rcases h with h | h
    · exact h10 (e10.mp h)
    · exact h13 (e13.mp h)
  have em1 : ¬ ((b.toNat : Int) = -1) := by omega
  simp only [next, readNext, hnl, em1, if_false]

def escapeTable : List (UInt8 × UInt8) :=
  [(97, 7), (98, 8), (102, 12), (110, 10), (114, 13), (116, 9), (118, 11), (92, 92), (34, 34), (39, 39)]

theorem escapeCore_denotes (c v : UInt8) (hm : (c, v) ∈ escapeTable) (buf : Buf) (r : List UInt8)
    (line col : Int) (off : Nat) :
    scanEscapeCore buf { rest := c :: r, line := line, col := col, off := off } =
      (buf ++ [v], { rest := r, line := line, col := col + 1, off := off + 1 }) := by
  simp only [escapeTable, List.mem_cons, Prod.mk.injEq, List.mem_nil_iff, or_false] at hm
  rcases hm with ⟨rfl, rfl⟩ | ⟨rfl, rfl⟩ | ⟨rfl, rfl⟩ | ⟨rfl, rfl⟩ | ⟨rfl, rfl⟩ | ⟨rfl, rfl⟩ | ⟨rfl, rfl⟩ | ⟨rfl, rfl⟩ | ⟨rfl, rfl⟩ | ⟨rfl, rfl⟩
  all_goals
    unfold scanEscapeCore
    rw [next_cons_plain _ _ _ _ _ (by decide) (by decide)]
    simp

def IsDig (b : UInt8) : Prop := 48 ≤ b.toNat ∧ b.toNat ≤ 57

theorem isDig_ne (b : UInt8) (h : IsDig b) : b ≠ 10 ∧ b ≠ 13 := by
  constructor <;> (intro e; subst e; exact absurd h (by unfold IsDig; decide))

theorem isDecimal_of (b : UInt8) (h : IsDig b) : isDecimal (b.toNat : Int) = true := by
  unfold IsDig at h
  simp only [isDecimal, Bool.and_eq_true, decide_eq_true_eq]; omega

theorem decimal_escape3 (d1 d2 d3 : UInt8) (h1 : IsDig d1) (h2 : IsDig d2) (h3 : IsDig d3)
    (buf : Buf) (r : List UInt8) (line col : Int) (off : Nat) :
    scanEscapeCore buf { rest := d1 :: d2 :: d3 :: r, line := line, col := col, off := off } =
      (buf ++ [byteOf (((d1.toNat - 48) * 100 + (d2.toNat - 48) * 10 + (d3.toNat - 48) : Nat) : Int)],
       { rest := r, line := line, col := col + 1 + 1 + 1, off := off + 1 + 1 + 1 }) := by
  have n1 := isDig_ne d1 h1
  have n2 := isDig_ne d2 h2
  have n3 := isDig_ne d3 h3
  have hne : ∀ k : Int, (k < 48 ∨ 57 < k) → ¬ ((d1.toNat : Int) = k) := by
    intro k hk; unfold IsDig at h1; omega
  have hd : (48 : Int) ≤ (d1.toNat : Int) ∧ (d1.toNat : Int) ≤ 57 := by unfold IsDig at h1; omega
  unfold scanEscapeCore
  rw [next_cons_plain _ _ _ _ _ n1.1 n1.2]
  simp only []
  rw [if_neg (hne 97 (by decide)), if_neg (hne 98 (by decide)), if_neg (hne 102 (by decide)),
    if_neg (hne 110 (by decide)), if_neg (hne 114 (by decide)), if_neg (hne 116 (by decide)),
    if_neg (hne 118 (by decide)), if_neg (hne 92 (by decide)), if_neg (hne 34 (by decide)),
    if_neg (hne 39 (by decide)), if_neg (hne 10 (by decide)), if_pos hd]
  simp only [escDigits, peek, isDecimal_of d2 h2, isDecimal_of d3 h3, if_true,
    next_cons_plain _ _ _ _ _ n2.1 n2.2, next_cons_plain _ _ _ _ _ n3.1 n3.2, writeChar]
  unfold IsDig at h1 h2 h3
  have e : (((d1.toNat : Int) - 48).toNat * 10 + ((d2.toNat : Int) - 48).toNat) * 10 + ((d3.toNat : Int) - 48).toNat
      = (d1.toNat - 48) * 100 + (d2.toNat - 48) * 10 + (d3.toNat - 48) := by omega
  rw [e]

/-- the decimal value of three digits, as computed by the `\ddd` loop. -/
theorem escDigits3 (d1 d2 d3 : UInt8) (h1 : IsDig d1) (h2 : IsDig d2) (h3 : IsDig d3)
    (r : List UInt8) (line col : Int) (off : Nat) :
    (next { rest := d1 :: d2 :: d3 :: r, line := line, col := col, off := off }).1 = (d1.toNat : Int) ∧
    escDigits 2 ((d1.toNat : Int) - 48).toNat
        (next { rest := d1 :: d2 :: d3 :: r, line := line, col := col, off := off }).2 =
      ((d1.toNat - 48) * 100 + (d2.toNat - 48) * 10 + (d3.toNat - 48),
       { rest := r, line := line, col := col + 1 + 1 + 1, off := off + 1 + 1 + 1 }) := by
  have n1 := isDig_ne d1 h1
  have n2 := isDig_ne d2 h2
  have n3 := isDig_ne d3 h3
  rw [next_cons_plain _ _ _ _ _ n1.1 n1.2]
  refine ⟨rfl, ?_⟩
  simp only [escDigits, peek, isDecimal_of d2 h2, isDecimal_of d3 h3, if_true,
    next_cons_plain _ _ _ _ _ n2.1 n2.2, next_cons_plain _ _ _ _ _ n3.1 n3.2]
  unfold IsDig at h1 h2 h3
  have e : (((d1.toNat : Int) - 48).toNat * 10 + ((d2.toNat : Int) - 48).toNat) * 10 + ((d3.toNat : Int) - 48).toNat
      = (d1.toNat - 48) * 100 + (d2.toNat - 48) * 10 + (d3.toNat - 48) := by omega
  rw [e]

theorem escTooLarge3 (d1 d2 d3 : UInt8) (h1 : IsDig d1) (h2 : IsDig d2) (h3 : IsDig d3)
    (r : List UInt8) (line col : Int) (off : Nat) :
    escTooLarge { rest := d1 :: d2 :: d3 :: r, line := line, col := col, off := off } =
      decide ((d1.toNat - 48) * 100 + (d2.toNat - 48) * 10 + (d3.toNat - 48) > 255) := by
  obtain ⟨e1, e2⟩ := escDigits3 d1 d2 d3 h1 h2 h3 r line col off
  unfold escTooLarge
  rw [e1, e2]
  have : (48 : Int) ≤ (d1.toNat : Int) ∧ (d1.toNat : Int) ≤ 57 := by unfold IsDig at h1; omega
  simp [this.1, this.2]

/-- an escape of the manual's table is never "too large". -/
theorem escape_denotes (c v : UInt8) (hm : (c, v) ∈ escapeTable) (buf : Buf) (r : List UInt8)
    (line col : Int) (off : Nat) :
    scanEscape buf { rest := c :: r, line := line, col := col, off := off } =
      .ok (buf ++ [v], { rest := r, line := line, col := col + 1, off := off + 1 }) := by
  have hc := escapeCore_denotes c v hm buf r line col off
  have hnot : escTooLarge { rest := c :: r, line := line, col := col, off := off } = false := by
    simp only [escapeTable, List.mem_cons, Prod.mk.injEq, List.mem_nil_iff, or_false] at hm
    rcases hm with ⟨rfl, rfl⟩ | ⟨rfl, rfl⟩ | ⟨rfl, rfl⟩ | ⟨rfl, rfl⟩ | ⟨rfl, rfl⟩ | ⟨rfl, rfl⟩ | ⟨rfl, rfl⟩ | ⟨rfl, rfl⟩ | ⟨rfl, rfl⟩ | ⟨rfl, rfl⟩
    all_goals
      unfold escTooLarge
      rw [next_cons_plain _ _ _ _ _ (by decide) (by decide)]
      simp
  unfold scanEscape
  simp only [hnot, Bool.false_eq_true, if_false, hc]

def Plain (b : UInt8) : Prop := b ≠ 10 ∧ b ≠ 13

theorem next_of_rest (s : Sc) (b : UInt8) (r : List UInt8) (hs : s.rest = b :: r) (hp : Plain b) :
    (next s).1 = (b.toNat : Int) ∧ (next s).2.rest = r ∧ (next s).2.line = s.line := by
  obtain ⟨rest, line, col, off⟩ := s
  simp only at hs; subst hs
  rw [next_cons_plain _ _ _ _ _ hp.1 hp.2]
  exact ⟨rfl, rfl, rfl⟩

theorem byteOf_toNat (b : UInt8) : byteOf (b.toNat : Int) = b := by
  unfold byteOf
  have : ((b.toNat : Int) % 256).toNat = b.toNat := by
    have := b.toNat_lt; omega
  rw [this]; simp

theorem toNat_ne (b : UInt8) (n : Nat) (hn : n < 256) (h : b ≠ UInt8.ofNat n) : ¬ ((b.toNat : Int) = (n : Int)) :=
  fun e => h ((byte_eq_iff b n hn).mp e)

theorem countSep_ne (ch : Int) (s : Sc) (h : ¬ ch = 61) : countSep ch s = (0, ch, s) := by
  rw [countSep]; simp only [h, if_false]

theorem countSep_eq (s : Sc) :
    countSep 61 s = ((countSep (next s).1 (next s).2).1 + 1, (countSep (next s).1 (next s).2).2) := by
  rw [countSep]; simp only [if_true]

/-- `countSep` over `=`ᵏ followed by a plain byte other than `=`. -/
theorem countSep_eqs (k : Nat) (c : UInt8) (r' : List UInt8) (hc : Plain c) (h61 : c ≠ 61) :
    ∀ s : Sc, s.rest = List.replicate k 61 ++ c :: r' →
      ∃ s', countSep 61 s = (k + 1, (c.toNat : Int), s') ∧ s'.rest = r' := by
  induction k with
  | zero =>
    intro s hs
    simp only [List.replicate_zero, List.nil_append] at hs
    obtain ⟨e1, e2, _⟩ := next_of_rest s c r' hs hc
    refine ⟨(next s).2, ?_, e2⟩
    rw [countSep_eq, e1, countSep_ne _ _ (toNat_ne c 61 (by decide) h61)]
  | succ k ih =>
    intro s hs
    have hs' : s.rest = 61 :: (List.replicate k 61 ++ c :: r') := by
      rw [hs, List.replicate_succ]; rfl
    obtain ⟨e1, e2, _⟩ := next_of_rest s 61 _ hs' (by unfold Plain; decide)
    obtain ⟨s', h1, h2⟩ := ih (next s).2 e2
    refine ⟨s', ?_, h2⟩
    have : (next s).1 = 61 := by rw [e1]; rfl
    rw [countSep_eq, this, h1]

theorem mlLoop_neg (n : Nat) (ch : Int) (buf : Buf) (s : Sc) (h0 : ¬ ch < 0) (h93 : ¬ ch = 93) :
    mlLoop n ch buf s = mlLoop n (next s).1 (writeChar buf ch) (next s).2 := by
  rw [mlLoop]; simp only [h0, h93, if_false]

theorem mlLoop_close (n : Nat) (buf : Buf) (s : Sc)
    (h : n = (countSep (next s).1 (next s).2).1 ∧ (countSep (next s).1 (next s).2).2.1 = 93) :
    mlLoop n 93 buf s = .ok (buf, (countSep (next s).1 (next s).2).2.2) := by
  rw [mlLoop]; simp only [show ¬ ((93 : Int) < 0) by decide, if_false, if_true]
  rw [if_pos h]

/-- the body loop over a content without `]` and without line terminators, followed by the closing bracket. -/
theorem mlLoop_content (n : Nat) (r : List UInt8) :
    ∀ (content : List UInt8) (buf : Buf) (s : Sc),
      s.rest = content ++ 93 :: (List.replicate n 61 ++ 93 :: r) →
      (∀ b ∈ content, Plain b ∧ b ≠ 93) →
      ∃ s', mlLoop n (next s).1 buf (next s).2 = .ok (buf ++ content, s') ∧ s'.rest = r := by
  intro content
  induction content with
  | nil =>
    intro buf s hs _
    simp only [List.nil_append] at hs
    obtain ⟨e1, e2, _⟩ := next_of_rest s 93 _ hs (by unfold Plain; decide)
    have e1' : (next s).1 = 93 := by rw [e1]; rfl
    rw [e1']
    cases n with
    | zero =>
      simp only [List.replicate_zero, List.nil_append] at e2
      obtain ⟨f1, f2, _⟩ := next_of_rest (next s).2 93 r e2 (by unfold Plain; decide)
      have f1' : (next (next s).2).1 = 93 := by rw [f1]; rfl
      have hc : countSep (next (next s).2).1 (next (next s).2).2 = (0, 93, (next (next s).2).2) := by
        rw [f1']; exact countSep_ne _ _ (by decide)
      refine ⟨(next (next s).2).2, ?_, f2⟩
      rw [mlLoop_close _ _ _ (by rw [hc]; exact ⟨rfl, rfl⟩), hc]
      simp
    | succ k =>
      have e2' : (next s).2.rest = 61 :: (List.replicate k 61 ++ 93 :: r) := by
        rw [e2, List.replicate_succ]; rfl
      obtain ⟨f1, f2, _⟩ := next_of_rest (next s).2 61 _ e2' (by unfold Plain; decide)
      have f1' : (next (next s).2).1 = 61 := by rw [f1]; rfl
      obtain ⟨s', h1, h2⟩ := countSep_eqs k 93 r (by unfold Plain; decide) (by decide) (next (next s).2).2 f2
      have hc : countSep (next (next s).2).1 (next (next s).2).2 = (k + 1, 93, s') := by
        rw [f1', h1]; rfl
      refine ⟨s', ?_, h2⟩
      rw [mlLoop_close _ _ _ (by rw [hc]; exact ⟨rfl, rfl⟩), hc]
      simp
  | cons b cs ih =>
    intro buf s hs hall
    have hb := hall b (List.mem_cons_self ..)
    have hs' : s.rest = b :: (cs ++ 93 :: (List.replicate n 61 ++ 93 :: r)) := by rw [hs]; rfl
    obtain ⟨e1, e2, _⟩ := next_of_rest s b _ hs' hb.1
    obtain ⟨s', h1, h2⟩ := ih (writeChar buf (b.toNat : Int)) (next s).2 e2
      (fun x hx => hall x (List.mem_cons_of_mem _ hx))
    refine ⟨s', ?_, h2⟩
    rw [e1, mlLoop_neg _ _ _ _ (by omega) (toNat_ne b 93 (by decide) hb.2), h1]
    simp [writeChar, byteOf_toNat]

theorem plain_toNat (b : UInt8) (h : Plain b) : ¬ ((b.toNat : Int) = 10 ∨ (b.toNat : Int) = 13) := by
  intro e
  rcases e with e | e
  · exact toNat_ne b 10 (by decide) h.1 e
  · exact toNat_ne b 13 (by decide) h.2 e

/-- after the opening bracket has been recognised: the first-newline skip does not fire on a plain byte, and the
    body loop delivers the content. -/
theorem ml_after_open (n : Nat) (content r : List UInt8) (hall : ∀ b ∈ content, Plain b ∧ b ≠ 93)
    (s2 : Sc) (hs2 : s2.rest = content ++ 93 :: (List.replicate n 61 ++ 93 :: r)) :
    ∃ s', mlLoop n (if (next s2).1 = 10 ∨ (next s2).1 = 13 then next (next s2).2 else next s2).1 []
              (if (next s2).1 = 10 ∨ (next s2).1 = 13 then next (next s2).2 else next s2).2 = .ok (content, s')
          ∧ s'.rest = r := by
  have hno : ¬ ((next s2).1 = 10 ∨ (next s2).1 = 13) := by
    cases content with
    | nil =>
      simp only [List.nil_append] at hs2
      obtain ⟨e1, _, _⟩ := next_of_rest s2 93 _ hs2 (by unfold Plain; decide)
      rw [e1]; decide
    | cons b cs =>
      have hb := hall b (List.mem_cons_self ..)
      have hs' : s2.rest = b :: (cs ++ 93 :: (List.replicate n 61 ++ 93 :: r)) := by rw [hs2]; rfl
      obtain ⟨e1, _, _⟩ := next_of_rest s2 b _ hs' hb.1
      rw [e1]; exact plain_toNat b hb.1
  simp only [hno, if_false]
  obtain ⟨s', h1, h2⟩ := mlLoop_content n r content [] s2 hs2 hall
  exact ⟨s', by simpa using h1, h2⟩

/-- **long brackets of any level**: with the scanner just past the first `[`, the text `=ⁿ[content]=ⁿ]` (content
    free of `]` and of line terminators) is read as the string `content`, and scanning stops right after it. -/
theorem long_bracket_scan (n : Nat) (content r : List UInt8) (hall : ∀ b ∈ content, Plain b ∧ b ≠ 93)
    (s : Sc) (hs : s.rest = List.replicate n 61 ++ 91 :: (content ++ 93 :: (List.replicate n 61 ++ 93 :: r))) :
    ∃ s', scanMultilineString (next s).1 [] (next s).2 = .ok (content, s') ∧ s'.rest = r := by
  cases n with
  | zero =>
    simp only [List.replicate_zero, List.nil_append] at hs
    obtain ⟨e1, e2, _⟩ := next_of_rest s 91 _ hs (by unfold Plain; decide)
    have e1' : (next s).1 = 91 := by rw [e1]; rfl
    have hc : countSep (next s).1 (next s).2 = (0, 91, (next s).2) := by
      rw [e1']; exact countSep_ne _ _ (by decide)
    obtain ⟨s', h1, h2⟩ := ml_after_open 0 content r hall (next s).2 (by simpa using e2)
    refine ⟨s', ?_, h2⟩
    unfold scanMultilineString
    simp only [hc, ne_eq, not_true_eq_false, if_false]
    exact h1
  | succ k =>
    have hs' : s.rest = 61 :: (List.replicate k 61 ++ 91 :: (content ++ 93 :: (List.replicate (k + 1) 61 ++ 93 :: r))) := by
      rw [hs, List.replicate_succ]; rfl
    obtain ⟨e1, e2, _⟩ := next_of_rest s 61 _ hs' (by unfold Plain; decide)
    have e1' : (next s).1 = 61 := by rw [e1]; rfl
    obtain ⟨s2, h1, h2⟩ := countSep_eqs k 91 _ (by unfold Plain; decide) (by decide) (next s).2 e2
    have hc : countSep (next s).1 (next s).2 = (k + 1, 91, s2) := by rw [e1', h1]; rfl
    obtain ⟨s', g1, g2⟩ := ml_after_open (k + 1) content r hall s2 h2
    refine ⟨s', ?_, g2⟩
    unfold scanMultilineString
    simp only [hc, ne_eq, not_true_eq_false, if_false]
    exact g1

end GLua.Lexer
