/-
  `scanNumber` writes every byte it consumes: the length of the buffer it returns, and what must follow a numeral it
  accepts (nothing alphanumeric; no dot when it took neither the hexadecimal nor the exponent exit).
-/
import GLua.Proofs.LexerRTNum

namespace GLua.Lexer
open GLua.LexSpec (Bytes)

/-- `Next` on a peeked ordinary character consumes exactly that byte. -/
theorem next_len_of_peek (s : Sc) (h0 : 0 ≤ peek s) (h10 : peek s ≠ 10) (h13 : peek s ≠ 13) :
    (next s).2.rest.length + 1 = s.rest.length := by
  cases hr : s.rest with
  | nil => rw [peek_nil s hr] at h0; omega
  | cons b r =>
    rw [peek_cons s b r hr] at h10 h13
    have hp : Plain b := by
      constructor
      · intro e; subst e; exact h10 rfl
      · intro e; subst e; exact h13 rfl
    obtain ⟨_, e2, _⟩ := next_of_rest s b r hr hp
    rw [e2]; rfl

theorem decimalLoop_len (buf : Buf) (s : Sc) :
    (decimalLoop buf s).1.length + (decimalLoop buf s).2.rest.length = buf.length + s.rest.length := by
  fun_induction decimalLoop buf s
  · rename_i buf s h ih
    simp only [isDecimal, Bool.and_eq_true, decide_eq_true_eq] at h
    have := next_len_of_peek s (by omega) (by omega) (by omega)
    rw [ih]
    simp only [writeChar, List.length_append, List.length_cons, List.length_nil]
    omega
  · rfl

theorem hexLoop_len (buf : Buf) (s : Sc) (hv : Bool) :
    (hexLoop buf s hv).1.length + (hexLoop buf s hv).2.1.rest.length = buf.length + s.rest.length := by
  fun_induction hexLoop buf s hv
  · rename_i buf s hv h ih
    simp only [isDigit, Bool.or_eq_true, Bool.and_eq_true, decide_eq_true_eq] at h
    have := next_len_of_peek s (by omega) (by omega) (by omega)
    rw [ih]
    simp only [writeChar, List.length_append, List.length_cons, List.length_nil]
    omega
  · rfl

theorem scanNumberFrac_len (ch : Int) (buf : Buf) (s : Sc) :
    (scanNumberFrac ch buf s).1.length + (scanNumberFrac ch buf s).2.rest.length = buf.length + 1 + s.rest.length := by
  unfold scanNumberFrac scanDecimal
  have h1 := decimalLoop_len (writeChar buf ch) s
  simp only [writeChar, List.length_append, List.length_cons, List.length_nil] at h1
  split
  · rename_i h
    have hn := next_len_of_peek (decimalLoop (writeChar buf ch) s).2 (by rw [h.2]; decide) (by rw [h.2]; decide)
      (by rw [h.2]; decide)
    have h2 := decimalLoop_len (writeChar (decimalLoop (writeChar buf ch) s).1 (next (decimalLoop (writeChar buf ch) s).2).1)
      (next (decimalLoop (writeChar buf ch) s).2).2
    simp only [writeChar, List.length_append, List.length_cons, List.length_nil] at h2 hn ⊢
    omega
  · simp only [writeChar] at h1 ⊢; omega

theorem scanNumberExpPre_len (f : Buf × Sc) (hp : peek f.2 = 101 ∨ peek f.2 = 69) :
    (scanNumberExpPre f).1.length + (scanNumberExpPre f).2.rest.length = f.1.length + f.2.rest.length := by
  have hn := next_len_of_peek f.2 (by rcases hp with h | h <;> rw [h] <;> decide)
    (by rcases hp with h | h <;> rw [h] <;> decide) (by rcases hp with h | h <;> rw [h] <;> decide)
  unfold scanNumberExpPre
  split
  · rename_i h
    have hn2 := next_len_of_peek (next f.2).2 (by rcases h with h | h <;> rw [h] <;> decide)
      (by rcases h with h | h <;> rw [h] <;> decide) (by rcases h with h | h <;> rw [h] <;> decide)
    simp only [writeChar, List.length_append, List.length_cons, List.length_nil]
    omega
  · simp only [writeChar, List.length_append, List.length_cons, List.length_nil]
    omega

/-- an accepted numeral: buffer length, and what follows. -/
theorem scanNumber_ok (ch : Int) (s : Sc) (b : Buf) (s' : Sc) (h : scanNumber ch [] s = .ok (b, s')) :
    b.length + s'.rest.length = 1 + s.rest.length ∧ isIdent (peek s') 1 = false ∧
    ((∀ x ∈ b, x ≠ 101 ∧ x ≠ 69 ∧ x ≠ 120 ∧ x ≠ 88) → peek s' ≠ 46) := by
  have hend : ∀ (buf : Buf) (s0 : Sc) (dots : Bool), numeralEnd buf s0 dots = .ok (b, s') →
      buf = b ∧ s0 = s' ∧ isIdent (peek s') 1 = false ∧ (dots = true → peek s' ≠ 46) := by
    intro buf s0 dots he
    unfold numeralEnd at he
    split at he
    · rename_i hc
      simp only [Except.ok.injEq, Prod.mk.injEq] at he
      obtain ⟨rfl, rfl⟩ := he
      refine ⟨rfl, rfl, by simpa using hc.1, fun hd hp => hc.2 ⟨hd, hp⟩⟩
    · simp at he
  unfold scanNumber at h
  split at h
  · -- hexadecimal
    rename_i hc
    simp only [] at h
    split at h
    · simp at h
    · obtain ⟨e1, e2, e3, _⟩ := hend _ _ _ h
      have hl := hexLoop_len (writeChar (writeChar [] ch) (next s).1) (next s).2 false
      have hn := next_len_of_peek s (by rcases hc.2 with h | h <;> rw [h] <;> decide)
        (by rcases hc.2 with h | h <;> rw [h] <;> decide) (by rcases hc.2 with h | h <;> rw [h] <;> decide)
      rw [e1, e2] at hl
      simp only [writeChar, List.length_append, List.length_cons, List.length_nil] at hl
      refine ⟨by omega, e3, ?_⟩
      -- the buffer contains the `x`
      intro hall
      exfalso
      obtain ⟨w2, hw⟩ : ∃ w2, (hexLoop (writeChar (writeChar [] ch) (next s).1) (next s).2 false).1 =
          writeChar (writeChar [] ch) (next s).1 ++ w2 := by
        have : ∀ (buf : Buf) (s0 : Sc) (hv : Bool), ∃ w2, (hexLoop buf s0 hv).1 = buf ++ w2 := by
          intro buf s0 hv
          fun_induction hexLoop buf s0 hv
          · rename_i buf s0 hv h ih
            obtain ⟨w2, hw⟩ := ih
            exact ⟨byteOf (next s0).1 :: w2, by rw [hw]; simp [writeChar]⟩
          · exact ⟨[], by simp⟩
        exact this _ _ _
      rw [e1] at hw
      have hx : (next s).1 = 120 ∨ (next s).1 = 88 := by
        cases hr : s.rest with
        | nil => rw [peek_nil s hr] at hc; rcases hc.2 with h | h <;> exact absurd h (by decide)
        | cons y r =>
          rw [peek_cons s y r hr] at hc
          have hp : Plain y := by
            constructor
            · intro e; subst e; rcases hc.2 with h | h <;> exact absurd h (by decide)
            · intro e; subst e; rcases hc.2 with h | h <;> exact absurd h (by decide)
          rw [(next_of_rest s y r hr hp).1]; exact hc.2
      have hmem : byteOf (next s).1 ∈ b := by
        rw [hw]; simp [writeChar]
      have := hall _ hmem
      rcases hx with h | h <;> (rw [h] at this; revert this; decide)
  · -- decimal
    unfold scanNumberTail at h
    have hf := scanNumberFrac_len ch [] s
    simp only [List.length_nil, Nat.zero_add] at hf
    split at h
    · rename_i hpe
      split at h
      · rename_i hdec
        obtain ⟨e1, e2, e3, _⟩ := hend _ _ _ h
        have hpre := scanNumberExpPre_len (scanNumberFrac ch [] s) hpe
        simp only [isDecimal, Bool.and_eq_true, decide_eq_true_eq] at hdec
        have hn := next_len_of_peek (scanNumberExpPre (scanNumberFrac ch [] s)).2 (by omega) (by omega) (by omega)
        have hd := decimalLoop_len (writeChar (scanNumberExpPre (scanNumberFrac ch [] s)).1
          (next (scanNumberExpPre (scanNumberFrac ch [] s)).2).1) (next (scanNumberExpPre (scanNumberFrac ch [] s)).2).2
        unfold scanDecimal at e1 e2
        rw [e1, e2] at hd
        simp only [writeChar, List.length_append, List.length_cons, List.length_nil] at hd
        refine ⟨by omega, e3, ?_⟩
        -- the buffer contains the exponent marker
        intro hall
        exfalso
        have happ : ∀ (buf : Buf) (s0 : Sc), ∃ w2, (decimalLoop buf s0).1 = buf ++ w2 := by
          intro buf s0
          fun_induction decimalLoop buf s0
          · rename_i buf s0 h ih
            obtain ⟨w2, hw⟩ := ih
            exact ⟨byteOf (next s0).1 :: w2, by rw [hw]; simp [writeChar]⟩
          · exact ⟨[], by simp⟩
        obtain ⟨w2, hw⟩ := happ (writeChar (scanNumberExpPre (scanNumberFrac ch [] s)).1
          (next (scanNumberExpPre (scanNumberFrac ch [] s)).2).1) (next (scanNumberExpPre (scanNumberFrac ch [] s)).2).2
        rw [e1] at hw
        have hE : (next (scanNumberFrac ch [] s).2).1 = 101 ∨ (next (scanNumberFrac ch [] s).2).1 = 69 := by
          cases hr : (scanNumberFrac ch [] s).2.rest with
          | nil => rw [peek_nil _ hr] at hpe; rcases hpe with h | h <;> exact absurd h (by decide)
          | cons y r =>
            rw [peek_cons _ y r hr] at hpe
            have hp : Plain y := by
              constructor
              · intro e; subst e; rcases hpe with h | h <;> exact absurd h (by decide)
              · intro e; subst e; rcases hpe with h | h <;> exact absurd h (by decide)
            rw [(next_of_rest _ y r hr hp).1]; exact hpe
        have hmem : byteOf (next (scanNumberFrac ch [] s).2).1 ∈ b := by
          rw [hw]
          unfold scanNumberExpPre
          split <;> simp [writeChar]
        have := hall _ hmem
        rcases hE with h | h <;> (rw [h] at this; revert this; decide)
      · simp at h
    · obtain ⟨e1, e2, e3, e4⟩ := hend _ _ _ h
      rw [e1, e2] at hf
      exact ⟨by omega, e3, fun _ => e4 rfl⟩

end GLua.Lexer
