/-
  What reaches the parser: the sequence of `Lexer.Lex` results (`lexCalls`, Model/Lexer.lean) is the token stream of
  `lexAll`, and its position-free part is a function of the (type, value) stream alone.
-/
import GLua.Proofs.LexerRTSep

namespace GLua.Lexer
open GLua.LexSpec (Bytes)

/-- the `Lex` result for one token of the stream. -/
def toPRead (p : Token × Bool) : PRead :=
  if p.1.type < 0 then { code := 0, lval := none, pnl := p.2 }
  else { code := p.1.type, lval := some p.1.toPTok, pnl := p.2 }

/-- the loop of `Lex` calls delivers exactly the token stream of `lexAll` (and panics with its error). -/
theorem lexCalls_eq (lx : LexerSt) :
    lexCalls lx = ((lexAll { type := lx.token.type, line := lx.token.line } lx.sc).toks.map toPRead, (lexAll { type := lx.token.type, line := lx.token.line } lx.sc).err) := by
  fun_induction lexCalls lx
  · rename_i lx e he
    obtain ⟨h1, h2⟩ := lexAll_err _ _ e he
    rw [h1, h2]; rfl
  · rename_i lx t pnl s' hs ht
    obtain ⟨h1, h2⟩ := lexAll_eof _ _ s' t pnl hs ht
    rw [h1, h2]
    simp [toPRead, ht]
  · rename_i lx t pnl s' hs ht r ih
    obtain ⟨h1, h2⟩ := lexAll_tok _ _ s' t pnl hs ht
    rw [h1, h2]
    simp only [List.map_cons]
    have : toPRead (t, pnl) = { code := t.type, lval := some t.toPTok, pnl := pnl } := by simp [toPRead, ht]
    rw [this]
    simp only [r] at ih ⊢
    rw [ih]
    rfl

/-- `lexCalls` is the iteration of single `Lex` calls: stop at the panic or when nothing was stored in `lval`. -/
theorem lexCalls_step (lx : LexerSt) :
    lexCalls lx = match lexCall lx with
      | .error e => ([], some e)
      | .ok (r, lx') =>
        match r.lval with
        | none => ([r], none)
        | some _ => (r :: (lexCalls lx').1, (lexCalls lx').2) := by
  rw [lexCalls]
  unfold lexCall
  split
  · rename_i e he; simp [he]
  · rename_i t pnl s' he
    simp only [he]
    by_cases ht : t.type < 0
    · simp [ht]
    · simp [ht]

theorem parserInput_eq (input : Bytes) :
    parserInput input = ((lex input).toks.map toPRead, (lex input).err) := lexCalls_eq _

/-- a `Lex` result without positions and without the `PNewLine` flag: the int, and type and value of `lval.token`. -/
def PRead.noPos (r : PRead) : Int × Option (Int × Buf) := (r.code, r.lval.map (fun t => (t.type, t.str)))

def readOfTV (e : Int × Bytes) : Int × Option (Int × Buf) := if e.1 < 0 then (0, none) else (e.1, some (e.1, e.2))

/-- the position-free part of what the parser reads is a function of the (type, value) stream. -/
theorem parserInput_noPos (input : Bytes) :
    (parserInput input).1.map PRead.noPos = (lexTV input).map readOfTV := by
  rw [parserInput_eq]
  simp only [lexTV, List.map_map]
  apply List.map_congr_left
  intro p _
  simp only [Function.comp, toPRead, readOfTV, PRead.noPos]
  split <;> simp [Token.toPTok]

theorem parserInput_pnl (input : Bytes) :
    (parserInput input).1.map (fun r => r.pnl) = (lex input).toks.map (fun p => p.2) := by
  rw [parserInput_eq]
  simp only [List.map_map]
  apply List.map_congr_left
  intro p _
  simp only [Function.comp, toPRead]
  split <;> rfl

end GLua.Lexer
