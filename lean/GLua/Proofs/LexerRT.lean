/-
  Round trip, main induction: `Scan` over one gap (blanks and comments) and one rendered token, `Lexer.Lex` over a
  whole rendered token list.

  The per-token facts (`TokScan`, Proofs/LexerRTTok.lean …) and per-comment facts (`CommentScan`) are hypotheses of the
  lemmas here; Props/C08.lean discharges them from the well-formedness predicate of the Spec.
-/
import GLua.Proofs.LexerRTTok

namespace GLua.Lexer
open GLua.Generated.Lexer
open GLua.LexSpec (Bytes)
open GLua.LexRender

/-! ### blanks up to the end of the text -/

theorem isBlank_cases (b : UInt8) (hb : IsBlank b) (hnl : ¬ (b = 10 ∨ b = 13)) : b = 32 ∨ b = 9 ∨ b = 12 ∨ b = 11 := by
  unfold IsBlank at hb
  rcases hb with h | h | h | h | h | h
  · exact Or.inl h
  · exact Or.inr (Or.inl h)
  · exact Or.inr (Or.inr (Or.inl h))
  · exact Or.inr (Or.inr (Or.inr h))
  · exact absurd (Or.inl h) hnl
  · exact absurd (Or.inr h) hnl

theorem ws2_eof : ∀ (n : Nat) (bs : List UInt8), bs.length ≤ n → (∀ b ∈ bs, IsBlank b) →
      ∀ s : Sc, s.rest = bs →
        ∃ s', skipWsLoop whitespace2 (next s).1 (next s).2 = (-1, s') ∧ s'.rest = [] := by
  intro n
  induction n with
  | zero =>
    intro bs hl _ s hs
    have : bs = [] := List.eq_nil_of_length_eq_zero (by omega)
    subst this
    obtain ⟨e1, e2, _⟩ := next_nil s hs
    exact ⟨(next s).2, by rw [e1, skipWsLoop_false _ _ _ (by decide)], e2⟩
  | succ n ih =>
    intro bs hl hall s hs
    cases bs with
    | nil =>
      obtain ⟨e1, e2, _⟩ := next_nil s hs
      exact ⟨(next s).2, by rw [e1, skipWsLoop_false _ _ _ (by decide)], e2⟩
    | cons b bs' =>
      have hb := hall b (List.mem_cons_self ..)
      have hall' : ∀ x ∈ bs', IsBlank x := fun x hx => hall x (List.mem_cons_of_mem _ hx)
      simp only [List.length_cons] at hl
      by_cases hnl : b = 10 ∨ b = 13
      · obtain ⟨e1, e2⟩ := next_nl s b _ hs hnl
        rw [e1, skipWsLoop_true _ _ _ (by decide)]
        rcases e2 with e2 | ⟨b2, t', ht, hb2, e2⟩
        · exact ih bs' (by omega) hall' (next s).2 e2
        · subst ht
          simp only [List.length_cons] at hl
          exact ih t' (by omega) (fun x hx => hall' x (List.mem_cons_of_mem _ hx)) (next s).2 e2
      · have hpb := isBlank_cases b hb hnl
        obtain ⟨hw, hp⟩ := wsBit_plain_blank whitespace2 b hpb (by decide) (by decide) (by decide) (by decide)
        obtain ⟨e1, e2, _⟩ := next_of_rest s b _ hs hp
        rw [e1, skipWsLoop_true _ _ _ hw]
        exact ih bs' (by omega) hall' (next s).2 e2

theorem ws1_eof : ∀ (bs : List UInt8), (∀ b ∈ bs, IsBlank b) → ∀ s : Sc, s.rest = bs →
      (∃ s', skipWsLoop whitespace1 (next s).1 (next s).2 = (-1, s') ∧ s'.rest = []) ∨
      (∃ s' bs2, skipWsLoop whitespace1 (next s).1 (next s).2 = (10, s') ∧ (∀ b ∈ bs2, IsBlank b) ∧
        s'.rest = bs2) := by
  intro bs
  induction bs with
  | nil =>
    intro _ s hs
    obtain ⟨e1, e2, _⟩ := next_nil s hs
    exact Or.inl ⟨(next s).2, by rw [e1, skipWsLoop_false _ _ _ (by decide)], e2⟩
  | cons b bs' ih =>
    intro hall s hs
    have hb := hall b (List.mem_cons_self ..)
    have hall' : ∀ x ∈ bs', IsBlank x := fun x hx => hall x (List.mem_cons_of_mem _ hx)
    by_cases hnl : b = 10 ∨ b = 13
    · right
      obtain ⟨e1, e2⟩ := next_nl s b _ hs hnl
      rw [e1, skipWsLoop_false _ _ _ (by decide)]
      rcases e2 with e2 | ⟨b2, t', ht, hb2, e2⟩
      · exact ⟨(next s).2, bs', rfl, hall', e2⟩
      · subst ht
        exact ⟨(next s).2, t', rfl, fun x hx => hall' x (List.mem_cons_of_mem _ hx), e2⟩
    · have hpb := isBlank_cases b hb hnl
      obtain ⟨hw, hp⟩ := wsBit_plain_blank whitespace1 b hpb (by decide) (by decide) (by decide) (by decide)
      obtain ⟨e1, e2, _⟩ := next_of_rest s b _ hs hp
      rw [e1, skipWsLoop_true _ _ _ hw]
      exact ih hall' (next s).2 e2

/-- a run of blanks up to the end of the text: the prologue of `Scan` delivers EOF. -/
theorem skipBlanks_eof (bs : List UInt8) (hall : ∀ b ∈ bs, IsBlank b) (s : Sc) (hs : s.rest = bs) :
    (skipBlanks s).1 = -1 ∧ (skipBlanks s).2.1.rest = [] := by
  unfold skipBlanks skipWhiteSpace
  simp only []
  rcases ws1_eof bs hall s hs with ⟨s', h1, h2⟩ | ⟨s', bs2, h1, hb2, h2⟩
  · rw [h1]
    simp only [show ¬ ((-1 : Int) = 10 ∨ (-1 : Int) = 13) by decide, if_false]
    exact ⟨trivial, h2⟩
  · rw [h1]
    simp only [true_or, if_true]
    obtain ⟨s'', g1, g2⟩ := ws2_eof bs2.length bs2 (Nat.le_refl _) hb2 s' h2
    rw [g1]
    exact ⟨by trivial, g2⟩

/-! ### one `Scan` call -/

theorem isBlank_of_spec (b : UInt8) : LexSpec.isBlank b = true → IsBlank b := by
  revert b; apply forall_byte; unfold IsBlank; decide +kernel

/-- the end of the text behind a run of blanks: the EOF token. -/
theorem scan_eof (input : Bytes) (prev : Prev) (bs : Bytes) (hall : ∀ b ∈ bs, IsBlank b) (s : Sc)
    (hI : RestInv input s) (hs : s.rest = bs) :
    ∃ tok pnl s', scan prev s = .tok tok pnl s' ∧ tok.type = -1 ∧ tok.str = [] ∧ tok.line = -1 ∧
      tok.off = input.length ∧ tok.col = 0 := by
  obtain ⟨h1, h2⟩ := skipBlanks_eof bs hall s hs
  have hc : ¬ ((skipBlanks s).1 = 45 ∧ peek (skipBlanks s).2.1 = 45) := by rw [h1]; omega
  have hI1 : RestInv input (skipBlanks s).2.1 := reach_restInv input (skipBlanks_reach s) hI
  have hlen := restInv_len input _ hI1
  rw [h2] at hlen
  obtain ⟨s0, _, e0, _⟩ := skipBlanks_last s
  have hline : (skipBlanks s).2.1.line = -1 ∧ (skipBlanks s).2.1.col = 0 := by
    have e1 : (next s0).1 = (skipBlanks s).1 := by rw [e0]
    have e2 : (next s0).2 = (skipBlanks s).2.1 := by rw [e0]
    rw [← e2]
    rw [h1] at e1
    -- `Next` returns EOF only at the end of the input, and then sets the line to EOF
    obtain ⟨rest, line, col, off⟩ := s0
    cases rest with
    | nil => simp [next, readNext]
    | cons b r =>
      simp only [next, readNext] at e1
      by_cases hnl : ((b.toNat : Int) = 10 ∨ (b.toNat : Int) = 13)
      · simp only [hnl, if_true] at e1; omega
      · simp only [hnl, if_false] at e1
        by_cases hm1 : (b.toNat : Int) = -1
        · omega
        · simp only [hm1, if_false] at e1
  have hst : scanToken (skipBlanks s).1 (skipBlanks s).2.1 =
      .ok ({ type := -1, str := [], line := (skipBlanks s).2.1.line, col := (skipBlanks s).2.1.col,
             off := (skipBlanks s).2.1.off }, (skipBlanks s).2.1) := by
    rw [h1]
    simp [scanToken, isIdent, isDecimal]
  refine ⟨_, _, _, scan_token prev s _ _ hc hst, rfl, rfl, hline.1, ?_, hline.2⟩
  simp only [List.length_nil] at hlen
  simpa using hlen

/-- what one `Scan` call has to deliver for the rendered token `t` followed by `r`. -/
def ScanOK (input : Bytes) (t : RTok) (r : Bytes) (res : ScanRes) : Prop :=
  ∃ tok pnl s', res = .tok tok pnl s' ∧ tok.type = tokType t ∧ tok.str = tokStr t ∧
    tok.off + (t.render ++ r).length = input.length ∧ s'.rest = r ∧ RestInv input s'

theorem toNat_eq_45 (c : UInt8) (h : (c.toNat : Int) = 45) : c = 45 := by
  have : c.toNat = (45 : UInt8).toNat := by
    have : (45 : UInt8).toNat = 45 := rfl
    omega
  exact UInt8.toNat_inj.mp this

/-- a run of blanks, then the rendered token. -/
theorem scan_tok (input : Bytes) (prev : Prev) (t : RTok) (r : Bytes) (hT : TokScan t r)
    (bs : Bytes) (hall : ∀ b ∈ bs, IsBlank b) (s : Sc) (hI : RestInv input s)
    (hs : s.rest = bs ++ (t.render ++ r)) : ScanOK input t r (scan prev s) := by
  obtain ⟨c, tail, hr, hcb, hnc, hscan⟩ := hT
  obtain ⟨hpl, hw1, hw2⟩ := tokStart_of_not_blank c hcb
  have hs' : s.rest = bs ++ c :: (tail ++ r) := by rw [hs, hr]; rfl
  obtain ⟨h1, h2⟩ := skipBlanks_run bs hall c (tail ++ r) hpl hw1 hw2 s hs'
  have hc : ¬ ((skipBlanks s).1 = 45 ∧ peek (skipBlanks s).2.1 = 45) := by
    rintro ⟨a1, a2⟩
    rw [h1] at a1
    rcases hnc with hne | hh
    · exact hne (toNat_eq_45 c a1)
    · exact peek_ne_of _ _ h2 45 hh a2
  obtain ⟨s', hst, hrest⟩ := hscan (skipBlanks s).2.1 h2
  rw [← h1] at hst
  have hI1 : RestInv input (skipBlanks s).2.1 := reach_restInv input (skipBlanks_reach s) hI
  have hlen1 := restInv_len input _ hI1
  have hlen := restInv_len input _ hI
  rw [h2] at hlen1
  rw [hs'] at hlen
  simp only [List.length_append, List.length_cons] at hlen hlen1
  unfold mkTok at hst
  refine ⟨_, _, s', scan_token prev s _ _ hc hst, rfl, rfl, ?_, hrest, ?_⟩
  · simp only [hr, List.length_append, List.length_cons]
    omega
  · exact reach_restInv input (scanToken_reach _ _ _ _ hst).1 hI1

/-! ### comments -/

theorem renderSeps_cons (x : Sep) (g : List Sep) : renderSeps (x :: g) = x.render ++ renderSeps g := by
  simp [renderSeps]

theorem renderSeps_nil : renderSeps [] = [] := rfl

/-- a whole gap: blanks are skipped, every comment sends `Scan` back to its start (`goto redo`), and the scan of
    what follows the gap decides the result.  `R` is the text behind the gap: empty or starting with a byte that
    is no line terminator. -/
theorem scan_gap (input : Bytes) (prev : Prev) (R : Bytes) (Q : ScanRes → Prop) (hasNext : Bool)
    (hR : ∀ c R', R = c :: R' → c ≠ 10 ∧ c ≠ 13) (hRn : hasNext = false → R = [])
    (hQ : ∀ (bs : Bytes) (s : Sc), (∀ b ∈ bs, IsBlank b) → RestInv input s → s.rest = bs ++ R → Q (scan prev s)) :
    ∀ (n : Nat) (g : List Sep), g.length ≤ n →
      (∀ x ∈ g, x.wf = true ∧ (x.isComment = true → ∀ r, (x.openEnded = true → r = []) → CommentScan x r)) →
      endsOK hasNext g = true →
      ∀ (bs : Bytes) (s : Sc), (∀ b ∈ bs, IsBlank b) → RestInv input s → s.rest = bs ++ (renderSeps g ++ R) →
        Q (scan prev s) := by
  intro n
  induction n with
  | zero =>
    intro g hl _ _ bs s hall hI hs
    have : g = [] := List.eq_nil_of_length_eq_zero (by omega)
    subst this
    exact hQ bs s hall hI (by simpa [renderSeps] using hs)
  | succ n ih =>
    intro g hl hg he bs s hall hI hs
    cases g with
    | nil => exact hQ bs s hall hI (by simpa [renderSeps] using hs)
    | cons x g' =>
      simp only [List.length_cons] at hl
      have hx := hg x (List.mem_cons_self ..)
      have hg' : ∀ y ∈ g', y.wf = true ∧
          (y.isComment = true → ∀ r, (y.openEnded = true → r = []) → CommentScan y r) :=
        fun y hy => hg y (List.mem_cons_of_mem _ hy)
      simp only [endsOK, Bool.and_eq_true, Bool.or_eq_true, Bool.not_eq_true'] at he
      obtain ⟨he1, he'⟩ := he
      cases x with
      | blank b =>
        -- one more blank in front
        have hb : IsBlank b := isBlank_of_spec b (by simpa [Sep.wf] using hx.1)
        apply ih g' (by omega) hg' he' (bs ++ [b]) s _ hI
        · rw [hs, renderSeps_cons]; simp [Sep.render]
        · intro y hy
          simp only [List.mem_append, List.mem_singleton] at hy
          rcases hy with hy | rfl
          · exact hall y hy
          · exact hb
      | short text eol =>
        have hopen : (Sep.short text eol).openEnded = true → renderSeps g' ++ R = [] := by
          intro ho
          rcases he1 with he1 | he1
          · rw [ho] at he1; simp at he1
          · have h1 : g' = [] := by simpa using he1.1
            have h2 : R = [] := hRn (by simpa using he1.2)
            rw [h1, h2]; rfl
        obtain ⟨body, hbody, hsc⟩ := hx.2 rfl (renderSeps g' ++ R) hopen
        have hs' : s.rest = bs ++ 45 :: (45 :: (body ++ (renderSeps g' ++ R))) := by
          rw [hs, renderSeps_cons, hbody]; simp
        obtain ⟨h1, h2⟩ := skipBlanks_run bs hall 45 _ (by unfold Plain; decide) (by decide) (by decide) s hs'
        have hp := peek_cons _ 45 _ h2
        obtain ⟨e1, e2, _⟩ := next_of_rest _ 45 _ h2 (by unfold Plain; decide)
        obtain ⟨s', hk, hrest⟩ := hsc _ e2
        have e1' : (next (skipBlanks s).2.1).1 = 45 := by rw [e1]; rfl
        rw [← e1'] at hk
        rw [scan_comment prev s s' ⟨by rw [h1]; rfl, by rw [hp]; rfl⟩ hk]
        have hI' : RestInv input s' :=
          reach_restInv input (((skipBlanks_reach s).trans (Reach.next _)).trans (skipComments_reach _ _ _ hk)) hI
        rcases hrest with hrest | ⟨b2, r', hr', hb2, hrest⟩
        · exact ih g' (by omega) hg' he' [] s' (by simp) hI' (by simpa using hrest)
        · -- the line end of the comment took the first blank of the rest of the gap with it
          cases g' with
          | nil =>
            simp only [renderSeps_nil, List.nil_append] at hr'
            obtain ⟨k1, k2⟩ := hR b2 r' hr'
            rcases hb2 with rfl | rfl
            · exact absurd rfl k1
            · exact absurd rfl k2
          | cons y g'' =>
            rw [renderSeps_cons] at hr'
            cases y with
            | blank b3 =>
              simp only [Sep.render, List.cons_append, List.nil_append, List.cons.injEq] at hr'
              simp only [List.length_cons] at hl
              simp only [endsOK, Bool.and_eq_true] at he'
              apply ih g'' (by omega) (fun y hy => hg' y (List.mem_cons_of_mem _ hy)) he'.2 [] s' (by simp) hI'
              rw [hrest, ← hr'.2]; rfl
            | short t2 e2 =>
              simp only [Sep.render, List.cons_append, List.cons.injEq] at hr'
              rcases hb2 with rfl | rfl <;> exact absurd hr'.1 (by decide)
            | long l2 c2 =>
              simp only [Sep.render, List.cons_append, List.cons.injEq] at hr'
              rcases hb2 with rfl | rfl <;> exact absurd hr'.1 (by decide)
      | long level content =>
        obtain ⟨body, hbody, hsc⟩ := hx.2 rfl (renderSeps g' ++ R) (by intro ho; simp [Sep.openEnded] at ho)
        have hs' : s.rest = bs ++ 45 :: (45 :: (body ++ (renderSeps g' ++ R))) := by
          rw [hs, renderSeps_cons, hbody]; simp
        obtain ⟨h1, h2⟩ := skipBlanks_run bs hall 45 _ (by unfold Plain; decide) (by decide) (by decide) s hs'
        have hp := peek_cons _ 45 _ h2
        obtain ⟨e1, e2, _⟩ := next_of_rest _ 45 _ h2 (by unfold Plain; decide)
        obtain ⟨s', hk, hrest⟩ := hsc _ e2
        have e1' : (next (skipBlanks s).2.1).1 = 45 := by rw [e1]; rfl
        rw [← e1'] at hk
        rw [scan_comment prev s s' ⟨by rw [h1]; rfl, by rw [hp]; rfl⟩ hk]
        have hI' : RestInv input s' :=
          reach_restInv input (((skipBlanks_reach s).trans (Reach.next _)).trans (skipComments_reach _ _ _ hk)) hI
        rcases hrest with hrest | ⟨b2, r', hr', hb2, hrest⟩
        · exact ih g' (by omega) hg' he' [] s' (by simp) hI' (by simpa using hrest)
        · cases g' with
          | nil =>
            simp only [renderSeps_nil, List.nil_append] at hr'
            obtain ⟨k1, k2⟩ := hR b2 r' hr'
            rcases hb2 with rfl | rfl
            · exact absurd rfl k1
            · exact absurd rfl k2
          | cons y g'' =>
            rw [renderSeps_cons] at hr'
            cases y with
            | blank b3 =>
              simp only [Sep.render, List.cons_append, List.nil_append, List.cons.injEq] at hr'
              simp only [List.length_cons] at hl
              simp only [endsOK, Bool.and_eq_true] at he'
              apply ih g'' (by omega) (fun y hy => hg' y (List.mem_cons_of_mem _ hy)) he'.2 [] s' (by simp) hI'
              rw [hrest, ← hr'.2]; rfl
            | short t2 e2 =>
              simp only [Sep.render, List.cons_append, List.cons.injEq] at hr'
              rcases hb2 with rfl | rfl <;> exact absurd hr'.1 (by decide)
            | long l2 c2 =>
              simp only [Sep.render, List.cons_append, List.cons.injEq] at hr'
              rcases hb2 with rfl | rfl <;> exact absurd hr'.1 (by decide)

/-! ### what may follow a token -/

theorem follow_nil (t : RTok) : follow t [] = true := by
  unfold follow; rfl

theorem follow_head (t : RTok) (c : UInt8) (a b : Bytes) : follow t (c :: a) = follow t (c :: b) := by
  unfold follow; rfl

theorem follow_append (t : RTok) (a b : Bytes) (ha : a ≠ []) (h : follow t a = true) : follow t (a ++ b) = true := by
  cases a with
  | nil => exact absurd rfl ha
  | cons c a' => rw [List.cons_append, follow_head t c (a' ++ b) a']; exact h

theorem blank_facts (c : UInt8) : LexSpec.isBlank c = true →
    LexSpec.isAlnum c = false ∧ LexSpec.isDigit c = false ∧ c ≠ 46 ∧ c ≠ 61 ∧ c ≠ 58 ∧ c ≠ 45 ∧ c ≠ 91 := by
  revert c; apply forall_byte; decide +kernel

theorem follow_blank (t : RTok) (c : UInt8) (hc : LexSpec.isBlank c = true) (r : Bytes) :
    follow t (c :: r) = true := by
  obtain ⟨h1, h2, h3, h4, h5, h6, h7⟩ := blank_facts c hc
  cases t with
  | sym sp => simp only [follow]; repeat' split
              all_goals simp [*]
  | _ => simp [follow, *]

theorem follow_dash (t : RTok) (ht : t ≠ .sym [45]) (r : Bytes) : follow t (45 :: r) = true := by
  cases t with
  | sym sp =>
    have : sp ≠ [45] := fun h => ht (by rw [h])
    simp only [follow]; repeat' split
    all_goals first | rfl | (exact absurd ‹sp = [45]› this)
  | name w => simp only [follow]; decide
  | kw k => simp only [follow]; decide
  | num n => simp [follow]; decide
  | str q cs => rfl
  | lstr l f c => rfl

theorem render_first_dash (x : Sep) (hx : x.isComment = true) : ∃ body, x.render = 45 :: 45 :: body := by
  cases x with
  | blank b => simp [Sep.isComment] at hx
  | short t e => exact ⟨_, rfl⟩
  | long l c => exact ⟨_, rfl⟩

/-- the structural separator condition of `gapOK` gives the byte-level condition `follow`. -/
theorem gapOK_follow (p : RTok) (gap : List Sep) (nx : Option RTok) (X : Bytes)
    (hg : gapOK (some p) gap nx = true)
    (hX : match nx with
      | some t => ∃ Y, t.render ≠ [] ∧ X = t.render ++ Y
      | none => X = []) :
    follow p (renderSeps gap ++ X) = true := by
  unfold gapOK at hg
  simp only [Bool.and_eq_true] at hg
  obtain ⟨⟨hwf, _⟩, h3⟩ := hg
  cases gap with
  | nil =>
    simp only [renderSeps_nil, List.nil_append]
    cases nx with
    | none => simp only at hX; rw [hX]; exact follow_nil p
    | some t =>
      obtain ⟨Y, hne, rfl⟩ := hX
      simp only [needSep, Bool.not_not] at h3
      exact follow_append p _ _ hne h3
  | cons g gap' =>
    rw [renderSeps_cons]
    simp only [List.all_cons, Bool.and_eq_true] at hwf
    cases g with
    | blank b =>
      simp only [Sep.render, List.cons_append, List.nil_append]
      exact follow_blank p b (by simpa [Sep.wf] using hwf.1) _
    | short t e =>
      simp only [Sep.render, List.cons_append]
      apply follow_dash
      intro hp
      simp [hp, Sep.isComment] at h3
    | long l c =>
      simp only [Sep.render, List.cons_append]
      apply follow_dash
      intro hp
      simp [hp, Sep.isComment] at h3

/-! ### the whole token list -/

theorem symType_nonneg (sp : Bytes) : 0 ≤ symType sp := by
  unfold symType
  repeat' split
  all_goals first | (simp only [TEqeq, TNeq, TLte, TGte, T2Comma, T3Comma, T2Colon]; omega) | omega

theorem tokType_nonneg (t : RTok) : 0 ≤ tokType t := by
  cases t with
  | sym sp => exact symType_nonneg sp
  | kw k => simp only [tokType]; omega
  | _ => simp only [tokType, TIdent, TNumber, TString]; omega

/-- the hypothesis about the comments of one gap. -/
def GapScan (g : List Sep) : Prop :=
  ∀ x ∈ g, x.wf = true → x.isComment = true → ∀ r, (x.openEnded = true → r = []) → CommentScan x r

theorem gapOK_parts (prev : Option RTok) (gap : List Sep) (nx : Option RTok) (h : gapOK prev gap nx = true) :
    (∀ x ∈ gap, x.wf = true) ∧ endsOK nx.isSome gap = true := by
  unfold gapOK at h
  simp only [Bool.and_eq_true, List.all_eq_true] at h
  exact ⟨h.1.1, h.1.2⟩

theorem lexAll_render (input : Bytes) (lay : Layout) :
    ∀ (toks : List RTok) (i : Nat) (pt : Option RTok) (prev : Prev) (s : Sc),
      (∀ t ∈ toks, ∀ r, follow t r = true → TokScan t r) →
      (∀ j, i ≤ j → j ≤ i + toks.length → GapScan (lay j)) →
      wfFrom lay i pt toks = true → RestInv input s → s.rest = renderFrom lay i toks →
      (lexAll prev s).err = none ∧ (lexAll prev s).toks.map view = expectFrom lay i s.off toks ∧
        ∀ p ∈ (lexAll prev s).toks, p.1.type < 0 → p.1.line = -1 ∧ p.1.col = 0 := by
  intro toks
  induction toks with
  | nil =>
    intro i pt prev s _ hG hwf hI hs
    simp only [wfFrom] at hwf
    obtain ⟨hsw, hends⟩ := gapOK_parts _ _ _ hwf
    have hGi := hG i (Nat.le_refl _) (by omega)
    simp only [renderFrom] at hs
    have key := scan_gap input prev [] (fun res => ∃ tok pnl s', res = .tok tok pnl s' ∧ tok.type = -1 ∧
        tok.str = [] ∧ tok.line = -1 ∧ tok.off = input.length ∧ tok.col = 0) false
      (by intro c R' h; simp at h) (fun _ => rfl)
      (by intro bs s hall hI hs; exact scan_eof input prev bs hall s hI (by simpa using hs))
      (lay i).length (lay i) (Nat.le_refl _) (fun x hx => ⟨hsw x hx, hGi x hx (hsw x hx)⟩) hends [] s (by simp) hI (by simpa using hs)
    obtain ⟨tok, pnl, s', hsc, h1, h2, h3, h4, h5⟩ := key
    obtain ⟨e1, e2⟩ := lexAll_eof prev s s' tok pnl hsc (by omega)
    refine ⟨e2, ?_, ?_⟩
    · have hlen := restInv_len input s hI
      rw [hs] at hlen
      rw [e1]
      simp only [List.map_cons, List.map_nil, view, expectFrom, h1, h2, h4]
      rw [← hlen]
    · intro p hp _
      rw [e1] at hp
      simp only [List.mem_singleton] at hp
      rw [hp]; exact ⟨h3, h5⟩
  | cons t ts ih =>
    intro i pt prev s hT hG hwf hI hs
    simp only [wfFrom, Bool.and_eq_true] at hwf
    obtain ⟨⟨_, hgap⟩, hrest⟩ := hwf
    obtain ⟨hsw, hends⟩ := gapOK_parts _ _ _ hgap
    have hGi := hG i (Nat.le_refl _) (by omega)
    simp only [renderFrom] at hs
    -- the text behind `t` may follow `t`
    have hfol : follow t (renderFrom lay (i + 1) ts) = true := by
      cases ts with
      | nil =>
        simp only [wfFrom] at hrest
        simp only [renderFrom]
        have := gapOK_follow t (lay (i + 1)) none [] hrest rfl
        simpa using this
      | cons t2 ts2 =>
        simp only [wfFrom, Bool.and_eq_true] at hrest
        simp only [renderFrom]
        obtain ⟨c2, tail2, hr2, _⟩ := hT t2 (by simp) [] (follow_nil t2)
        exact gapOK_follow t (lay (i + 1)) (some t2) _ hrest.1.2 ⟨_, by rw [hr2]; simp, rfl⟩
    have hTS := hT t (by simp) _ hfol
    have hTS' := hTS
    obtain ⟨c, tail, hr, hcb, _⟩ := hTS'
    have key := scan_gap input prev (t.render ++ renderFrom lay (i + 1) ts)
      (ScanOK input t (renderFrom lay (i + 1) ts)) true
      (by
        intro c' R' h
        rw [hr] at h
        simp only [List.cons_append, List.cons.injEq] at h
        rw [← h.1]
        exact (tokStart_of_not_blank c hcb).1)
      (by intro h; simp at h)
      (by intro bs s hall hI hs; exact scan_tok input prev t _ hTS bs hall s hI hs)
      (lay i).length (lay i) (Nat.le_refl _) (fun x hx => ⟨hsw x hx, hGi x hx (hsw x hx)⟩) hends [] s (by simp) hI (by simpa using hs)
    obtain ⟨tok, pnl, s', hsc, h1, h2, h3, h4, h5⟩ := key
    have hnn := tokType_nonneg t
    obtain ⟨e1, e2⟩ := lexAll_tok prev s s' tok pnl hsc (by omega)
    obtain ⟨i1, i2, i3⟩ := ih (i + 1) (some t) { type := tok.type, line := tok.line } s' (fun t' ht' => hT t' (List.mem_cons_of_mem _ ht'))
      (fun j h1 h2 => hG j (by omega) (by simp only [List.length_cons]; omega)) hrest h5 h4
    refine ⟨by rw [e2, i1], ?_, ?_⟩
    rotate_left
    · intro p hp hty
      rw [e1] at hp
      simp only [List.mem_cons] at hp
      rcases hp with rfl | hp
      · simp only at hty; omega
      · exact i3 p hp hty
    have hlen := restInv_len input s hI
    have hlen' := restInv_len input s' h5
    rw [hs] at hlen
    rw [h4] at hlen'
    simp only [List.length_append] at hlen h3
    rw [e1]
    simp only [List.map_cons, expectFrom]
    rw [i2]
    have ho : tok.off = s.off + (renderSeps (lay i)).length := by omega
    have ho' : s'.off = s.off + (renderSeps (lay i)).length + t.render.length := by omega
    simp only [view, h1, h2, ho, ho']

theorem wfFrom_wf (lay : Layout) : ∀ (toks : List RTok) (i : Nat) (pt : Option RTok),
    wfFrom lay i pt toks = true → ∀ t ∈ toks, t.wf = true := by
  intro toks
  induction toks with
  | nil => intro _ _ _ t ht; simp at ht
  | cons t ts ih =>
    intro i pt h t' ht'
    simp only [wfFrom, Bool.and_eq_true] at h
    simp only [List.mem_cons] at ht'
    rcases ht' with rfl | ht'
    · exact h.1.1
    · exact ih (i + 1) (some t) h.2 t' ht'

/-! ### lines -/

theorem lines_of_view (lay : Layout) (input : Bytes) :
    ∀ (toks : List RTok) (i : Nat) (pre : Bytes) (L : List (Token × Bool)),
      input = pre ++ renderFrom lay i toks →
      L.map view = expectFrom lay i pre.length toks →
      (∀ p ∈ L, 0 ≤ p.1.type → p.1.line = 1 + (lineEnds (input.take p.1.off) : Int)) →
      (∀ p ∈ L, p.1.type < 0 → p.1.line = -1) →
      L.map (fun p => p.1.line) = linesFrom lay i pre toks := by
  intro toks
  induction toks with
  | nil =>
    intro i pre L _ hv _ hE
    simp only [expectFrom] at hv
    obtain ⟨p, L', rfl, hp, hL'⟩ := List.map_eq_cons_iff.mp hv
    simp only [List.map_eq_nil_iff] at hL'
    subst hL'
    have : p.1.type = -1 := by
      have := congrArg (fun e => e.1) hp
      simpa [view] using this
    simp only [List.map_cons, List.map_nil, linesFrom]
    rw [hE p (by simp) (by omega)]
  | cons t ts ih =>
    intro i pre L hin hv hN hE
    simp only [expectFrom] at hv
    obtain ⟨p, L', rfl, hp, hL'⟩ := List.map_eq_cons_iff.mp hv
    have hty : p.1.type = tokType t := by
      have := congrArg (fun e => e.1) hp
      simpa [view] using this
    have hoff : p.1.off = pre.length + (renderSeps (lay i)).length := by
      have := congrArg (fun e => e.2.2) hp
      simpa [view] using this
    simp only [List.map_cons, linesFrom]
    have hl := hN p (by simp) (by rw [hty]; exact tokType_nonneg t)
    rw [hl, hoff]
    have htake : input.take (pre.length + (renderSeps (lay i)).length) = pre ++ renderSeps (lay i) := by
      rw [hin]
      simp only [renderFrom]
      rw [← List.append_assoc, ← List.length_append]
      exact List.take_left
    rw [htake]
    congr 1
    apply ih (i + 1) (pre ++ renderSeps (lay i) ++ t.render) L'
    · rw [hin]; simp [renderFrom]
    · rw [hL']; simp [Nat.add_assoc]
    · exact fun q hq => hN q (List.mem_cons_of_mem _ hq)
    · exact fun q hq => hE q (List.mem_cons_of_mem _ hq)

theorem cols_of_view (lay : Layout) (input : Bytes) :
    ∀ (toks : List RTok) (i : Nat) (pre : Bytes) (L : List (Token × Bool)),
      input = pre ++ renderFrom lay i toks →
      L.map view = expectFrom lay i pre.length toks →
      (∀ p ∈ L, 0 ≤ p.1.type → p.1.col = 1 + (lineCol (input.take p.1.off) : Int)) →
      (∀ p ∈ L, p.1.type < 0 → p.1.col = 0) →
      L.map (fun p => p.1.col) = colsFrom lay i pre toks := by
  intro toks
  induction toks with
  | nil =>
    intro i pre L _ hv _ hE
    simp only [expectFrom] at hv
    obtain ⟨p, L', rfl, hp, hL'⟩ := List.map_eq_cons_iff.mp hv
    simp only [List.map_eq_nil_iff] at hL'
    subst hL'
    have : p.1.type = -1 := by
      have := congrArg (fun e => e.1) hp
      simpa [view] using this
    simp only [List.map_cons, List.map_nil, colsFrom]
    rw [hE p (by simp) (by omega)]
  | cons t ts ih =>
    intro i pre L hin hv hN hE
    simp only [expectFrom] at hv
    obtain ⟨p, L', rfl, hp, hL'⟩ := List.map_eq_cons_iff.mp hv
    have hty : p.1.type = tokType t := by
      have := congrArg (fun e => e.1) hp
      simpa [view] using this
    have hoff : p.1.off = pre.length + (renderSeps (lay i)).length := by
      have := congrArg (fun e => e.2.2) hp
      simpa [view] using this
    simp only [List.map_cons, colsFrom]
    have hl := hN p (by simp) (by rw [hty]; exact tokType_nonneg t)
    rw [hl, hoff]
    have htake : input.take (pre.length + (renderSeps (lay i)).length) = pre ++ renderSeps (lay i) := by
      rw [hin]
      simp only [renderFrom]
      rw [← List.append_assoc, ← List.length_append]
      exact List.take_left
    rw [htake]
    congr 1
    apply ih (i + 1) (pre ++ renderSeps (lay i) ++ t.render) L'
    · rw [hin]; simp [renderFrom]
    · rw [hL']; simp [Nat.add_assoc]
    · exact fun q hq => hN q (List.mem_cons_of_mem _ hq)
    · exact fun q hq => hE q (List.mem_cons_of_mem _ hq)

/-- the (type, value) part of the expected stream does not depend on the layout. -/
theorem expectFrom_types (lay : Layout) : ∀ (toks : List RTok) (i pre : Nat),
    (expectFrom lay i pre toks).map (fun e => (e.1, e.2.1)) =
      toks.map (fun t => (tokType t, tokStr t)) ++ [(-1, [])] := by
  intro toks
  induction toks with
  | nil => intro i pre; rfl
  | cons t ts ih => intro i pre; simp only [expectFrom, List.map_cons, List.cons_append, ih]

end GLua.Lexer
