/-
  Round trip `lex (render toks layout) = toks`, part 0: bookkeeping.

  * `RestInv input s` : the ghost offset of a scanner state is the number of bytes consumed (`input.drop s.off = s.rest`)
  * `peek` / `next` in terms of the unread input
  * unfolding lemmas for the well-founded definitions `scan` and `lexAll`
  * character classes: the model's `Int` tests against the Spec's `UInt8` tests
-/
import GLua.Proofs.LexerBlank
import GLua.Spec.LexRender
import GLua.Model.LexExpect

namespace GLua.Lexer
open GLua.Generated.Lexer
open GLua.LexSpec (Bytes)

/-! ### the ghost offset -/

def RestInv (input : Bytes) (s : Sc) : Prop := input.drop s.off = s.rest ∧ s.off ≤ input.length

theorem restInv_init (input : Bytes) : RestInv input (initSc input) := by
  simp [RestInv, initSc]

theorem drop_succ_of_drop {α : Type} (l : List α) (n : Nat) (b : α) (r : List α) (h : l.drop n = b :: r) :
    l.drop (n + 1) = r ∧ n + 1 ≤ l.length := by
  constructor
  · have : l.drop (n + 1) = (l.drop n).drop 1 := by rw [List.drop_drop]
    rw [this, h]; rfl
  · have hl : (l.drop n).length = l.length - n := List.length_drop
    rw [h] at hl; simp only [List.length_cons] at hl; omega

theorem readNext_restInv (input : Bytes) (s : Sc) (h : RestInv input s) : RestInv input (readNext s).2 := by
  obtain ⟨rest, line, col, off⟩ := s
  unfold RestInv at *
  simp only at h
  cases rest with
  | nil => simpa [readNext] using h
  | cons b r =>
    simp only [readNext]
    exact drop_succ_of_drop input off b r h.1

theorem next_restInv (input : Bytes) (s : Sc) (h : RestInv input s) : RestInv input (next s).2 := by
  have h1 := readNext_restInv input s h
  unfold next
  simp only []
  split
  · -- newline
    unfold newline
    split
    · exact h1
    · simp only []
      split
      · exact readNext_restInv input _ (by simpa [RestInv] using h1)
      · simpa [RestInv] using h1
  · split
    · simpa [RestInv] using h1
    · simpa [RestInv] using h1

theorem reach_restInv (input : Bytes) {s s' : Sc} (r : Reach s s') (h : RestInv input s) : RestInv input s' := by
  induction r with
  | refl => exact h
  | step _ ih => exact ih (next_restInv input _ h)

theorem restInv_len (input : Bytes) (s : Sc) (h : RestInv input s) : s.off + s.rest.length = input.length := by
  obtain ⟨h1, h2⟩ := h
  have : (input.drop s.off).length = input.length - s.off := List.length_drop
  rw [h1] at this; omega

/-! ### `peek` and `next` by the unread input -/

theorem peek_cons (s : Sc) (b : UInt8) (r : List UInt8) (hs : s.rest = b :: r) : peek s = (b.toNat : Int) := by
  unfold peek; rw [hs]

theorem peek_nil (s : Sc) (hs : s.rest = []) : peek s = -1 := by
  unfold peek; rw [hs]

theorem next_nil (s : Sc) (hs : s.rest = []) : (next s).1 = -1 ∧ (next s).2.rest = [] ∧ (next s).2.line = -1 := by
  obtain ⟨rest, line, col, off⟩ := s
  simp only at hs; subst hs
  simp [next, readNext]

/-! ### unfolding `scan` and `lexAll` -/

theorem scan_comment (prev : Prev) (s s' : Sc)
    (hc : (skipBlanks s).1 = 45 ∧ peek (skipBlanks s).2.1 = 45)
    (h : skipComments (next (skipBlanks s).2.1).1 (next (skipBlanks s).2.1).2 = .ok s') :
    scan prev s = scan prev s' := by
  rw [scan]
  simp only [hc, and_self, if_true]
  split
  · rename_i e he; rw [h] at he; simp at he
  · rename_i s'' he; rw [h] at he; simp only [Except.ok.injEq] at he; rw [he]

theorem scan_comment_err (prev : Prev) (s : Sc) (e : LexErr)
    (hc : (skipBlanks s).1 = 45 ∧ peek (skipBlanks s).2.1 = 45)
    (h : skipComments (next (skipBlanks s).2.1).1 (next (skipBlanks s).2.1).2 = .error e) :
    scan prev s = .err e := by
  rw [scan]
  simp only [hc, and_self, if_true]
  split
  · rename_i e' he; rw [h] at he; simp only [Except.error.injEq] at he; rw [he]
  · rename_i s'' he; rw [h] at he; simp at he

theorem scan_token (prev : Prev) (s s' : Sc) (t : Token)
    (hc : ¬ ((skipBlanks s).1 = 45 ∧ peek (skipBlanks s).2.1 = 45))
    (h : scanToken (skipBlanks s).1 (skipBlanks s).2.1 = .ok (t, s')) :
    scan prev s = .tok t (if (skipBlanks s).1 = 40 ∧ prev.type = 41 then decide ((skipBlanks s).2.1.line ≠ prev.line) else false) s' := by
  rw [scan]
  simp only [hc, if_false]
  rw [h]

theorem scan_token_err (prev : Prev) (s : Sc) (e : LexErr)
    (hc : ¬ ((skipBlanks s).1 = 45 ∧ peek (skipBlanks s).2.1 = 45))
    (h : scanToken (skipBlanks s).1 (skipBlanks s).2.1 = .error e) : scan prev s = .err e := by
  rw [scan]
  simp only [hc, if_false]
  rw [h]

theorem lexAll_tok (prev : Prev) (s s' : Sc) (t : Token) (pnl : Bool)
    (h : scan prev s = .tok t pnl s') (ht : ¬ t.type < 0) :
    (lexAll prev s).toks = (t, pnl) :: (lexAll { type := t.type, line := t.line } s').toks ∧ (lexAll prev s).err = (lexAll { type := t.type, line := t.line } s').err := by
  rw [lexAll]
  split
  · rename_i e he; rw [h] at he; simp at he
  · rename_i t' pnl' s'' he
    rw [h] at he
    simp only [ScanRes.tok.injEq] at he
    obtain ⟨rfl, rfl, rfl⟩ := he
    simp [ht]

theorem lexAll_eof (prev : Prev) (s s' : Sc) (t : Token) (pnl : Bool)
    (h : scan prev s = .tok t pnl s') (ht : t.type < 0) :
    (lexAll prev s).toks = [(t, pnl)] ∧ (lexAll prev s).err = none := by
  rw [lexAll]
  split
  · rename_i e he; rw [h] at he; simp at he
  · rename_i t' pnl' s'' he
    rw [h] at he
    simp only [ScanRes.tok.injEq] at he
    obtain ⟨rfl, rfl, rfl⟩ := he
    simp [ht]

theorem lexAll_err (prev : Prev) (s : Sc) (e : LexErr) (h : scan prev s = .err e) :
    (lexAll prev s).toks = [] ∧ (lexAll prev s).err = some e := by
  rw [lexAll]
  split
  · rename_i e' he; rw [h] at he; simp only [ScanRes.err.injEq] at he; rw [he]; exact ⟨rfl, rfl⟩
  · rename_i t' pnl' s'' he; rw [h] at he; simp at he

/-! ### character classes: the model's `Int` tests vs the Spec's byte tests -/

/-- a fact about every byte, checked by the kernel on the 256 values. -/
theorem forall_byte (P : UInt8 → Prop) (h : ∀ n : Fin 256, P (UInt8.ofNat n.val)) (b : UInt8) : P b := by
  have := h ⟨b.toNat, b.toNat_lt⟩
  simpa using this

theorem isIdent1_eq (b : UInt8) : isIdent (b.toNat : Int) 1 = LexSpec.isAlnum b := by
  revert b; apply forall_byte; decide +kernel

theorem isIdent0_eq (b : UInt8) : isIdent (b.toNat : Int) 0 = LexSpec.isLetter b := by
  revert b; apply forall_byte; decide +kernel

theorem isDecimal_eq (b : UInt8) : isDecimal (b.toNat : Int) = LexSpec.isDigit b := by
  revert b; apply forall_byte; decide +kernel

theorem isHexDigit_eq (b : UInt8) : isDigit (b.toNat : Int) = LexSpec.isHex b := by
  revert b; apply forall_byte; decide +kernel

theorem alnum_plain (b : UInt8) : LexSpec.isAlnum b = true → Plain b := by
  revert b; apply forall_byte; unfold Plain; decide +kernel

theorem hex_alnum (b : UInt8) : LexSpec.isHex b = true → LexSpec.isAlnum b = true := by
  revert b; apply forall_byte; decide +kernel

theorem digit_alnum (b : UInt8) : LexSpec.isDigit b = true → LexSpec.isAlnum b = true := by
  revert b; apply forall_byte; decide +kernel

theorem letter_alnum (b : UInt8) : LexSpec.isLetter b = true → LexSpec.isAlnum b = true := by
  revert b; apply forall_byte; decide +kernel

theorem letter_not_blank (b : UInt8) : LexSpec.isLetter b = true → LexSpec.isBlank b = false := by
  revert b; apply forall_byte; decide +kernel

theorem letter_ne_minus (b : UInt8) : LexSpec.isLetter b = true → b ≠ 45 := by
  revert b; apply forall_byte; decide +kernel

theorem digit_not_blank (b : UInt8) : LexSpec.isDigit b = true → LexSpec.isBlank b = false := by
  revert b; apply forall_byte; decide +kernel

theorem digit_ne_minus (b : UInt8) : LexSpec.isDigit b = true → b ≠ 45 := by
  revert b; apply forall_byte; decide +kernel

theorem int_ne_of_ne (d k : UInt8) (h : d ≠ k) : ¬ ((d.toNat : Int) = (k.toNat : Int)) := by
  intro e
  have : d.toNat = k.toNat := by omega
  exact h (UInt8.toNat_inj.mp this)

/-- the character handed to the token switch is a byte that is neither a blank nor a line terminator. -/
def TokStart (c : UInt8) : Prop :=
  Plain c ∧ wsBit whitespace1 (c.toNat : Int) = false ∧ wsBit whitespace2 (c.toNat : Int) = false

instance (c : UInt8) : Decidable (TokStart c) := by unfold TokStart Plain; infer_instance

theorem tokStart_of_not_blank (c : UInt8) : LexSpec.isBlank c = false → TokStart c := by
  revert c; apply forall_byte; decide +kernel

/-- what follows a lexeme: nothing, or a byte failing the test `p`. -/
def HeadNot (p : UInt8 → Bool) (r : Bytes) : Prop := ∀ c r', r = c :: r' → p c = false

theorem HeadNot.nil (p : UInt8 → Bool) : HeadNot p [] := by intro c r' h; simp at h

theorem HeadNot.cons (p : UInt8 → Bool) (c : UInt8) (r : Bytes) (h : p c = false) : HeadNot p (c :: r) := by
  intro c' r' e; simp only [List.cons.injEq] at e; rw [← e.1]; exact h

end GLua.Lexer
