/-
  Round trip, part 4: long brackets of any level with arbitrary content (long strings, long comments) and short
  comments.

  `scanMultilineString` on `=ⁿ[ body ]=ⁿ] r` — where no closing bracket of level n starts inside `body` — returns the
  body with its first line terminator dropped and all others normalised to LF, and leaves exactly `r`.
-/
import GLua.Proofs.LexerRTStr
import GLua.Proofs.LexerRTNum

namespace GLua.Lexer
open GLua.Generated.Lexer
open GLua.LexSpec (Bytes)
open GLua.LexRender

/-! ### what a long bracket denotes -/

theorem nlRest_length (b : UInt8) (t : Bytes) : (nlRest b t).length ≤ t.length := by
  cases t with
  | nil => simp [nlRest]
  | cons c t' =>
    simp only [nlRest]
    split <;> simp

/-- line terminators (\n, \r, \r\n, \n\r) normalised to \n. -/
def normNL (bs : Bytes) : Bytes :=
  match bs with
  | [] => []
  | b :: r => if b = 10 ∨ b = 13 then 10 :: normNL (nlRest b r) else b :: normNL r
termination_by bs.length
decreasing_by
  · have := nlRest_length b r; simp only [List.length_cons]; omega
  · simp

/-- the first line terminator of a long bracket's body is skipped. -/
def dropFirstNL (bs : Bytes) : Bytes :=
  match bs with
  | b :: r => if b = 10 ∨ b = 13 then nlRest b r else b :: r
  | [] => []

theorem normNL_nil : normNL [] = [] := by rw [normNL]

theorem normNL_nl (b : UInt8) (r : Bytes) (hb : b = 10 ∨ b = 13) : normNL (b :: r) = 10 :: normNL (nlRest b r) := by
  rw [normNL]; simp only [hb, if_true]

theorem normNL_plain (b : UInt8) (r : Bytes) (hb : ¬ (b = 10 ∨ b = 13)) : normNL (b :: r) = b :: normNL r := by
  rw [normNL]; simp only [hb, if_false]

theorem normNL_eqs (k : Nat) (r : Bytes) : normNL (List.replicate k 61 ++ r) = List.replicate k 61 ++ normNL r := by
  induction k with
  | zero => simp
  | succ k ih =>
    rw [List.replicate_succ, List.cons_append, normNL_plain _ _ (by decide), ih]; rfl

/-! ### `noClose` -/

theorem noClose_tail (level : Nat) (b : UInt8) (r : Bytes) (h : noClose level (b :: r) = true) :
    noClose level r = true := by
  simp only [noClose, Bool.and_eq_true] at h; exact h.2

theorem noClose_drop (level : Nat) (a b : Bytes) (h : noClose level (a ++ b) = true) : noClose level b = true := by
  induction a with
  | nil => simpa using h
  | cons c a' ih => exact ih (noClose_tail level c _ h)

theorem noClose_nlRest (level : Nat) (b : UInt8) (r : Bytes) (h : noClose level r = true) :
    noClose level (nlRest b r) = true := by
  cases r with
  | nil => simpa [nlRest] using h
  | cons c r' =>
    simp only [nlRest]
    split
    · exact noClose_tail level c r' h
    · exact h

theorem closer_head (level : Nat) (r : Bytes) : ∃ X, closer level ++ r = 93 :: X := ⟨_, rfl⟩

theorem nlRest_append (b : UInt8) (a X : Bytes) (hX : HeadNot LexSpec.isNewline X) :
    nlRest b (a ++ X) = nlRest b a ++ X := by
  cases a with
  | nil =>
    simp only [List.nil_append]
    rw [nlRest_of_headNot b X hX]; rfl
  | cons c a' =>
    simp only [List.cons_append, nlRest]
    split <;> rfl

/-! ### `countSep` over a run of `=` -/

theorem next_ne_61 (s : Sc) (R : Bytes) (hs : s.rest = R) (hR : HeadNot (fun c => c == 61) R) : ¬ (next s).1 = 61 := by
  cases R with
  | nil => rw [(next_nil s hs).1]; decide
  | cons c R' =>
    have hc := hR c R' rfl
    simp only [beq_eq_false_iff_ne, ne_eq] at hc
    by_cases hnl : c = 10 ∨ c = 13
    · rw [(next_nl_exact s c R' hs hnl).1]; decide
    · have hp : Plain c := ⟨fun h => hnl (Or.inl h), fun h => hnl (Or.inr h)⟩
      rw [(next_of_rest s c R' hs hp).1]
      exact int_ne_of_ne c 61 hc

/-- `countSep`, entered with the `Next` of a state in front of `=ᵏ R` (R not starting with `=`): counts k and ends
    with the `Next` of the state in front of `R`. -/
theorem countSep_run (R : Bytes) (hR : HeadNot (fun c => c == 61) R) :
    ∀ (k : Nat) (s : Sc), s.rest = List.replicate k 61 ++ R →
      ∃ s2, s2.rest = R ∧ countSep (next s).1 (next s).2 = (k, (next s2).1, (next s2).2) := by
  intro k
  induction k with
  | zero =>
    intro s hs
    simp only [List.replicate_zero, List.nil_append] at hs
    exact ⟨s, hs, countSep_ne _ _ (next_ne_61 s R hs hR)⟩
  | succ k ih =>
    intro s hs
    have hs' : s.rest = 61 :: (List.replicate k 61 ++ R) := by rw [hs, List.replicate_succ]; rfl
    obtain ⟨e1, e2, _⟩ := next_of_rest s 61 _ hs' (by unfold Plain; decide)
    obtain ⟨s2, h1, h2⟩ := ih (next s).2 e2
    refine ⟨s2, h1, ?_⟩
    have : (next s).1 = 61 := by rw [e1]; rfl
    rw [this, countSep_eq, h2]

/-- the run of `=` at the head of a body that is followed by a text starting with `]`. -/
theorem split_eqs (body R0 : Bytes) (hR0 : ∃ X, R0 = 93 :: X) :
    ∃ k body'', body = List.replicate k 61 ++ body'' ∧ HeadNot (fun c => c == 61) (body'' ++ R0) := by
  induction body with
  | nil =>
    obtain ⟨X, rfl⟩ := hR0
    exact ⟨0, [], rfl, HeadNot.cons _ _ _ (by decide)⟩
  | cons c body1 ih =>
    by_cases hc : c = 61
    · obtain ⟨k, body'', h1, h2⟩ := ih
      exact ⟨k + 1, body'', by rw [h1, hc, List.replicate_succ]; rfl, h2⟩
    · exact ⟨0, c :: body1, rfl, HeadNot.cons _ _ _ (by simpa using hc)⟩

/-! ### the body loop -/

theorem mlLoop_bracket (n : Nat) (buf : Buf) (s : Sc)
    (h : ¬ (n = (countSep (next s).1 (next s).2).1 ∧ (countSep (next s).1 (next s).2).2.1 = 93)) :
    mlLoop n 93 buf s = mlLoop n (countSep (next s).1 (next s).2).2.1
      (buf ++ [93] ++ List.replicate (countSep (next s).1 (next s).2).1 61) (countSep (next s).1 (next s).2).2.2 := by
  rw [mlLoop]; simp only [show ¬ ((93 : Int) < 0) by decide, if_false, if_true]
  rw [if_neg h]

theorem next_eq_93 (s : Sc) (R : Bytes) (hs : s.rest = R) (h : (next s).1 = 93) : ∃ X, R = 93 :: X := by
  cases R with
  | nil => rw [(next_nil s hs).1] at h; exact absurd h (by decide)
  | cons c R' =>
    by_cases hnl : c = 10 ∨ c = 13
    · rw [(next_nl_exact s c R' hs hnl).1] at h; exact absurd h (by decide)
    · have hp : Plain c := ⟨fun h => hnl (Or.inl h), fun h => hnl (Or.inr h)⟩
      rw [(next_of_rest s c R' hs hp).1] at h
      have : c.toNat = (93 : UInt8).toNat := by
        have : (93 : UInt8).toNat = 93 := rfl
        omega
      exact ⟨R', by rw [UInt8.toNat_inj.mp this]⟩

/-- the body loop of `scanMultilineString`, for any body in which no closing bracket of the level starts. -/
theorem mlLoop_body (n : Nat) (r : Bytes) :
    ∀ (len : Nat) (body : Bytes) (buf : Buf) (s : Sc), body.length ≤ len → noClose n body = true →
      s.rest = body ++ (closer n ++ r) →
      ∃ s', mlLoop n (next s).1 buf (next s).2 = .ok (buf ++ normNL body, s') ∧ s'.rest = r := by
  intro len
  induction len with
  | zero =>
    intro body buf s hl _ hs
    have : body = [] := List.eq_nil_of_length_eq_zero (by omega)
    subst this
    obtain ⟨s', h1, h2⟩ := mlLoop_content n r [] buf s (by simpa [closer] using hs) (by simp)
    exact ⟨s', by simpa [normNL_nil] using h1, h2⟩
  | succ len ih =>
    intro body buf s hl hnc hs
    cases body with
    | nil =>
      obtain ⟨s', h1, h2⟩ := mlLoop_content n r [] buf s (by simpa [closer] using hs) (by simp)
      exact ⟨s', by simpa [normNL_nil] using h1, h2⟩
    | cons b body' =>
      simp only [List.length_cons] at hl
      have hs' : s.rest = b :: (body' ++ (closer n ++ r)) := by rw [hs]; rfl
      have hnc' := noClose_tail n b body' hnc
      have hcl : HeadNot LexSpec.isNewline (closer n ++ r) := HeadNot.cons _ _ _ (by decide)
      by_cases hnl : b = 10 ∨ b = 13
      · -- a line terminator: appended as LF
        obtain ⟨e1, e2⟩ := next_nl_exact s b _ hs' hnl
        rw [nlRest_append b body' _ hcl] at e2
        obtain ⟨s', h1, h2⟩ := ih (nlRest b body') (writeChar buf 10) (next s).2
          (by have := nlRest_length b body'; omega) (noClose_nlRest n b body' hnc') e2
        refine ⟨s', ?_, h2⟩
        rw [e1, mlLoop_neg _ _ _ _ (by decide) (by decide), h1, normNL_nl b body' hnl]
        simp [writeChar, byteOf]
      · have hp : Plain b := ⟨fun h => hnl (Or.inl h), fun h => hnl (Or.inr h)⟩
        obtain ⟨e1, e2, _⟩ := next_of_rest s b _ hs' hp
        by_cases h93 : b = 93
        · -- a `]`: count the `=` behind it
          subst h93
          obtain ⟨k, body'', hsplit, hhead⟩ := split_eqs body' (closer n ++ r) (closer_head n r)
          have e2' : (next s).2.rest = List.replicate k 61 ++ (body'' ++ (closer n ++ r)) := by
            rw [e2, hsplit]; simp
          obtain ⟨s2, g1, g2⟩ := countSep_run _ hhead k (next s).2 e2'
          have hno : ¬ (n = (countSep (next (next s).2).1 (next (next s).2).2).1 ∧
              (countSep (next (next s).2).1 (next (next s).2).2).2.1 = 93) := by
            rw [g2]
            rintro ⟨hk, h93⟩
            simp only at hk h93
            obtain ⟨X, hX⟩ := next_eq_93 s2 _ g1 h93
            -- then a closing bracket would start at this `]`
            have hcA : closesAt n (93 :: body' ++ closer n) = true := by
              simp only [List.cons_append, closesAt]
              rw [List.isPrefixOf_iff_prefix]
              have : ∃ Y, body'' ++ closer n = 93 :: Y := by
                cases body'' with
                | nil => exact ⟨_, rfl⟩
                | cons c b2 =>
                  simp only [List.cons_append, List.cons.injEq] at hX
                  exact ⟨b2 ++ closer n, by rw [hX.1]; rfl⟩
              obtain ⟨Y, hY⟩ := this
              refine ⟨Y, ?_⟩
              rw [hsplit, ← hk]
              simp only [List.append_assoc]
              rw [hY]
              simp
            simp only [noClose, Bool.and_eq_true, Bool.not_eq_true'] at hnc
            rw [hcA] at hnc
            exact absurd hnc.1 (by decide)
          have hlen : body''.length ≤ len := by
            have : body'.length = k + body''.length := by rw [hsplit]; simp
            omega
          have hnc'' : noClose n body'' = true := by
            rw [hsplit] at hnc'; exact noClose_drop n _ _ hnc'
          obtain ⟨s', h1, h2⟩ := ih body'' (buf ++ [93] ++ List.replicate k 61) s2 hlen hnc'' g1
          refine ⟨s', ?_, h2⟩
          have e1' : (next s).1 = 93 := by rw [e1]; rfl
          rw [e1', mlLoop_bracket n buf (next s).2 hno, g2]
          simp only []
          rw [h1, hsplit, normNL_plain 93 _ (by decide), normNL_eqs]
          simp
        · obtain ⟨s', h1, h2⟩ := ih body' (writeChar buf (b.toNat : Int)) (next s).2 (by omega) hnc' e2
          refine ⟨s', ?_, h2⟩
          rw [e1, mlLoop_neg _ _ _ _ (by omega) (int_ne_of_ne b 93 h93), h1, normNL_plain b body' hnl]
          simp [writeChar, byteOf_toNat]

/-! ### the whole long bracket -/

theorem noClose_dropFirstNL (n : Nat) (body : Bytes) (h : noClose n body = true) :
    noClose n (dropFirstNL body) = true := by
  cases body with
  | nil => simpa [dropFirstNL] using h
  | cons b r =>
    simp only [dropFirstNL]
    split
    · exact noClose_nlRest n b r (noClose_tail n b r h)
    · exact h

/-- the body of a long bracket behind its opening bracket: first line terminator dropped, the others normalised. -/
theorem ml_body_full (n : Nat) (body r : Bytes) (hnc : noClose n body = true) (buf : Buf) (s3 : Sc)
    (e2 : s3.rest = body ++ (closer n ++ r)) :
    ∃ s', scanMultilineBody n buf s3 = .ok (buf ++ normNL (dropFirstNL body), s') ∧ s'.rest = r := by
  have hcl : HeadNot LexSpec.isNewline (closer n ++ r) := HeadNot.cons _ _ _ (by decide)
  unfold scanMultilineBody
  simp only []
  cases body with
  | nil =>
    simp only [List.nil_append] at e2
    obtain ⟨f1, _, _⟩ := next_of_rest s3 93 _ (by rw [e2]; rfl) (by unfold Plain; decide)
    rw [if_neg (by rw [f1]; decide)]
    obtain ⟨s', h1, h2⟩ := mlLoop_body n r 0 [] buf s3 (Nat.le_refl _) hnc (by simpa using e2)
    exact ⟨s', by simpa [dropFirstNL] using h1, h2⟩
  | cons b body' =>
    have e2' : s3.rest = b :: (body' ++ (closer n ++ r)) := by rw [e2]; rfl
    by_cases hnl : b = 10 ∨ b = 13
    · obtain ⟨f1, f2⟩ := next_nl_exact s3 b _ e2' hnl
      rw [nlRest_append b body' _ hcl] at f2
      rw [if_pos (Or.inl f1)]
      obtain ⟨s', h1, h2⟩ := mlLoop_body n r _ (nlRest b body') buf (next s3).2 (Nat.le_refl _)
        (noClose_nlRest n b body' (noClose_tail n b body' hnc)) f2
      exact ⟨s', by simpa [dropFirstNL, hnl] using h1, h2⟩
    · have hp : Plain b := ⟨fun h => hnl (Or.inl h), fun h => hnl (Or.inr h)⟩
      obtain ⟨f1, _, _⟩ := next_of_rest s3 b _ e2' hp
      rw [if_neg (by rw [f1]; exact plain_toNat b hp)]
      obtain ⟨s', h1, h2⟩ := mlLoop_body n r _ (b :: body') buf s3 (Nat.le_refl _) hnc e2
      exact ⟨s', by simpa [dropFirstNL, hnl] using h1, h2⟩

/-- **long brackets of any level, any content**: with the scanner just past the first `[`, the text
    `=ⁿ[ body ]=ⁿ] r` is read as `body` without its first line terminator and with the others normalised to LF;
    scanning stops right behind the closing bracket. -/
theorem long_bracket_full (n : Nat) (body r : Bytes) (hnc : noClose n body = true) (buf : Buf) (s : Sc)
    (hs : s.rest = List.replicate n 61 ++ 91 :: (body ++ (closer n ++ r))) :
    ∃ s', scanMultilineString (next s).1 buf (next s).2 = .ok (buf ++ normNL (dropFirstNL body), s') ∧
      s'.rest = r := by
  obtain ⟨s2, g1, g2⟩ := countSep_run (91 :: (body ++ (closer n ++ r))) (HeadNot.cons _ _ _ (by decide)) n s hs
  obtain ⟨e1, e2, _⟩ := next_of_rest s2 91 _ g1 (by unfold Plain; decide)
  unfold scanMultilineString
  simp only [g2]
  rw [if_neg (by rw [e1]; decide)]
  exact ml_body_full n body r hnc buf (next s2).2 e2

/-! ### long strings as tokens -/

theorem normNL_noCR (content : Bytes) (h : content.all (fun b => b != 13) = true) : normNL content = content := by
  induction content with
  | nil => exact normNL_nil
  | cons b r ih =>
    simp only [List.all_cons, Bool.and_eq_true, bne_iff_ne, ne_eq] at h
    have ihr := ih h.2
    by_cases hb : b = 10
    · subst hb
      rw [normNL_nl 10 r (Or.inl rfl)]
      have : nlRest 10 r = r := by
        cases r with
        | nil => rfl
        | cons c r' =>
          simp only [List.all_cons, Bool.and_eq_true, bne_iff_ne, ne_eq] at h
          simp [nlRest, h.2.1]
      rw [this, ihr]
    · rw [normNL_plain b r (by intro hh; rcases hh with hh | hh; exact hb hh; exact h.1 hh), ihr]

theorem scanToken_bracket (s : Sc) (b : Buf) (s' : Sc) (hp : peek s = 91 ∨ peek s = 61)
    (h : scanMultilineString (next s).1 [] (next s).2 = .ok (b, s')) : scanToken 91 s = mkTok s TString b s' := by
  unfold scanToken
  simp [isIdent, isDecimal, hp, h]

theorem peek_eqs_bracket (n : Nat) (X : Bytes) (s : Sc) (hs : s.rest = List.replicate n 61 ++ 91 :: X) :
    peek s = 91 ∨ peek s = 61 := by
  cases n with
  | zero => left; rw [peek_cons s 91 X (by simpa using hs)]; rfl
  | succ k => right; rw [peek_cons s 61 (List.replicate k 61 ++ 91 :: X) (by rw [hs, List.replicate_succ]; rfl)]; rfl

/-- a well-formed long string token: no closing bracket starts inside `first ++ content`, and that body denotes
    `content` (the first line end is skipped, the content has no CR). -/
theorem lstr_body_facts (level : Nat) (first content : Bytes) (hwf : (RTok.lstr level first content).wf = true) :
    noClose level (first ++ content) = true ∧ normNL (dropFirstNL (first ++ content)) = content := by
  simp only [RTok.wf, Bool.and_eq_true, Bool.or_eq_true, Bool.not_eq_true', bne_iff_ne, ne_eq] at hwf
  obtain ⟨⟨⟨hfirst, hcr⟩, hhead⟩, hnc⟩ := hwf
  have hf : first = [] ∨ first = [10] ∨ first = [13] ∨ first = [13, 10] ∨ first = [10, 13] := by
    simpa [lineEndSpellings] using hfirst
  -- the body is `first ++ content`; it denotes `content`
  have hnc' : noClose level (first ++ content) = true := by
    rcases hf with rfl | rfl | rfl | rfl | rfl <;> simp [noClose, closesAt, hnc]
  have hcontent10 : ∀ c r', content = c :: r' → c ≠ 13 := by
    intro c r' e; subst e
    simp only [List.all_cons, Bool.and_eq_true, bne_iff_ne, ne_eq] at hcr; exact hcr.1
  have hden : normNL (dropFirstNL (first ++ content)) = content := by
    have hn := normNL_noCR content hcr
    rcases hf with rfl | rfl | rfl | rfl | rfl
    · -- no first line end: the content does not start with one
      cases content with
      | nil => simp [dropFirstNL, normNL_nil]
      | cons c r' =>
        have h10 : c ≠ 10 := by
          rcases hhead with h | h
          · simp at h
          · simpa using h
        have h13 := hcontent10 c r' rfl
        simp only [List.nil_append, dropFirstNL, h10, h13, or_self, if_false]
        exact hn
    · cases content with
      | nil => simp [dropFirstNL, nlRest, normNL_nil]
      | cons c r' =>
        have h13 := hcontent10 c r' rfl
        simp only [List.cons_append, List.nil_append, dropFirstNL, true_or, if_true, nlRest, h13, and_false]
        simpa using hn
    · cases content with
      | nil => simp [dropFirstNL, nlRest, normNL_nil]
      | cons c r' =>
        have h10 : c ≠ 10 := by
          rcases hhead with h | h
          · simp at h
          · simpa using h
        simp only [List.cons_append, List.nil_append, dropFirstNL, or_true, if_true, nlRest, h10, and_false]
        simpa using hn
    · simp only [List.cons_append, List.nil_append, dropFirstNL, or_true, if_true, nlRest]
      simpa using hn
    · simp only [List.cons_append, List.nil_append, dropFirstNL, true_or, if_true, nlRest]
      simpa using hn
  exact ⟨hnc', hden⟩

theorem tokScan_lstr (level : Nat) (first content : Bytes) (hwf : (RTok.lstr level first content).wf = true)
    (r : Bytes) : TokScan (.lstr level first content) r := by
  obtain ⟨hnc', hden⟩ := lstr_body_facts level first content hwf
  refine ⟨91, List.replicate level 61 ++ 91 :: (first ++ (content ++ closer level)), rfl, by decide,
    Or.inl (by decide), ?_⟩
  intro s hs
  have hs' : s.rest = List.replicate level 61 ++ 91 :: ((first ++ content) ++ (closer level ++ r)) := by
    rw [hs]; simp
  obtain ⟨s', h1, h2⟩ := long_bracket_full level (first ++ content) r hnc' [] s hs'
  refine ⟨s', ?_, h2⟩
  have e91 : ((91 : UInt8).toNat : Int) = 91 := rfl
  rw [e91, scanToken_bracket s _ s' (peek_eqs_bracket level _ s hs') h1, hden]
  simp [tokType, tokStr]

/-! ### comments -/

theorem commentScan_long (level : Nat) (content : Bytes) (hwf : (Sep.long level content).wf = true) (r : Bytes) :
    CommentScan (.long level content) r := by
  have hnc : noClose level content = true := hwf
  refine ⟨91 :: (List.replicate level 61 ++ 91 :: (content ++ closer level)), rfl, ?_⟩
  intro s hs
  have hs' : s.rest = 91 :: (List.replicate level 61 ++ 91 :: (content ++ (closer level ++ r))) := by
    rw [hs]; simp
  have hp := peek_cons s 91 _ hs'
  obtain ⟨e1, e2, _⟩ := next_of_rest s 91 _ hs' (by unfold Plain; decide)
  obtain ⟨s2, g1, g2⟩ := countSep_run (91 :: (content ++ (closer level ++ r))) (HeadNot.cons _ _ _ (by decide)) level
    (next s).2 e2
  obtain ⟨k1, k2, _⟩ := next_of_rest s2 91 _ g1 (by unfold Plain; decide)
  obtain ⟨s', h1, h2⟩ := ml_body_full level content r hnc [] (next s2).2 k2
  refine ⟨s', ?_, Or.inl h2⟩
  unfold skipComments
  rw [if_pos (by rw [hp]; rfl)]
  simp only []
  rw [if_pos (peek_eqs_bracket level _ (next s).2 e2), g2]
  simp only []
  rw [if_pos (by rw [k1]; rfl), h1]

theorem lineCommentLoop_stop (ch : Int) (s : Sc) (h : ch = 10 ∨ ch = 13 ∨ ch < 0) : lineCommentLoop ch s = s := by
  rw [lineCommentLoop]; simp only [h, if_true]

theorem lineCommentLoop_step (ch : Int) (s : Sc) (h : ¬ (ch = 10 ∨ ch = 13 ∨ ch < 0)) :
    lineCommentLoop ch s = lineCommentLoop (next s).1 (next s).2 := by
  rw [lineCommentLoop]; simp only [h, if_false]

/-- the line-comment loop: over a text without line terminators, then through the line terminator (with its partner
    byte) or to the end of the input. -/
theorem lineCommentLoop_run (R : Bytes) :
    ∀ (text : Bytes) (ch : Int) (s : Sc), text.all (fun b => !LexSpec.isNewline b) = true →
      ¬ (ch = 10 ∨ ch = 13 ∨ ch < 0) → s.rest = text ++ R →
      (R = [] → (lineCommentLoop ch s).rest = []) ∧
      (∀ e R', R = e :: R' → (e = 10 ∨ e = 13) → (lineCommentLoop ch s).rest = nlRest e R') := by
  intro text
  induction text with
  | nil =>
    intro ch s _ hch hs
    simp only [List.nil_append] at hs
    rw [lineCommentLoop_step ch s hch]
    constructor
    · intro hR
      obtain ⟨e1, e2, _⟩ := next_nil s (by rw [hs, hR])
      rw [lineCommentLoop_stop _ _ (by rw [e1]; decide)]; exact e2
    · intro e R' hR he
      obtain ⟨e1, e2⟩ := next_nl_exact s e R' (by rw [hs, hR]) he
      rw [lineCommentLoop_stop _ _ (by rw [e1]; decide)]; exact e2
  | cons c text' ih =>
    intro ch s ht hch hs
    simp only [List.all_cons, Bool.and_eq_true, Bool.not_eq_true'] at ht
    have hc : Plain c := by
      have := ht.1
      simp only [LexSpec.isNewline, Bool.or_eq_false_iff, beq_eq_false_iff_ne, ne_eq] at this
      exact this
    obtain ⟨e1, e2, _⟩ := next_of_rest s c _ (by rw [hs]; rfl) hc
    rw [lineCommentLoop_step ch s hch, e1]
    exact ih (c.toNat : Int) (next s).2 (by simpa using ht.2)
      (by have := plain_toNat c hc; omega) e2

def eolBytes (eol : Option UInt8) : Bytes := match eol with | some e => [e] | none => []

theorem longOpen_bracket_none (t' : Bytes) :
    LexSpec.longOpen (91 :: t') = none ↔ ∀ r', t'.dropWhile (fun c => c == 61) ≠ 91 :: r' := by
  unfold LexSpec.longOpen
  simp only []
  split
  · rename_i r' heq
    constructor
    · intro h; simp at h
    · intro h; exact absurd heq (h r')
  · rename_i hne
    constructor
    · intro _ r' e; exact hne r' e
    · intro _; rfl

/-- a text that starts with `[` and is not the opening of a long bracket: `[`, some `=`, then a byte that is neither
    `=` nor `[` (or nothing). -/
theorem longOpen_none_shape : ∀ text' : Bytes, LexSpec.longOpen (91 :: text') = none →
    ∃ k t'', text' = List.replicate k 61 ++ t'' ∧ HeadNot (fun c => c == 61 || c == 91) t'' := by
  intro text'
  induction text' with
  | nil => intro _; exact ⟨0, [], rfl, HeadNot.nil _⟩
  | cons c t ih =>
    intro h
    by_cases hc : c = 61
    · subst hc
      have : LexSpec.longOpen (91 :: t) = none := by
        rw [longOpen_bracket_none] at h ⊢
        intro r' e
        exact h r' (by rw [List.dropWhile_cons_of_pos (by simp)]; exact e)
      obtain ⟨k, t'', h1, h2⟩ := ih this
      exact ⟨k + 1, t'', by rw [h1, List.replicate_succ]; rfl, h2⟩
    · refine ⟨0, c :: t, rfl, HeadNot.cons _ _ _ ?_⟩
      have hc91 : c ≠ 91 := by
        intro e; subst e
        rw [longOpen_bracket_none] at h
        exact h t (by rw [List.dropWhile_cons_of_neg (by decide)])
      simp [hc, hc91]

theorem next_ne_91 (s : Sc) (R : Bytes) (hs : s.rest = R) (hR : HeadNot (fun c => c == 91) R) : ¬ (next s).1 = 91 := by
  cases R with
  | nil => rw [(next_nil s hs).1]; decide
  | cons c R' =>
    have hc := hR c R' rfl
    simp only [beq_eq_false_iff_ne, ne_eq] at hc
    by_cases hnl : c = 10 ∨ c = 13
    · rw [(next_nl_exact s c R' hs hnl).1]; decide
    · have hp : Plain c := ⟨fun h => hnl (Or.inl h), fun h => hnl (Or.inr h)⟩
      rw [(next_of_rest s c R' hs hp).1]
      exact int_ne_of_ne c 91 hc

theorem commentScan_short (text : Bytes) (eol : Option UInt8) (hwf : (Sep.short text eol).wf = true)
    (r : Bytes) (hr : (Sep.short text eol).openEnded = true → r = []) :
    CommentScan (.short text eol) r := by
  simp only [Sep.wf, Bool.and_eq_true, Option.isNone_iff_eq_none] at hwf
  obtain ⟨⟨htext, heol⟩, hopen⟩ := hwf
  refine ⟨text ++ eolBytes eol, by cases eol <;> rfl, ?_⟩
  intro s hs
  -- what follows the text: the end of the input, or the line end byte
  have hR : (eol = none ∧ r = []) ∨ ∃ e, eol = some e ∧ (e = 10 ∨ e = 13) := by
    cases eol with
    | none => exact Or.inl ⟨rfl, hr rfl⟩
    | some e =>
      right
      refine ⟨e, rfl, ?_⟩
      simpa [LexSpec.isNewline] using heol
  have hXhead : HeadNot (fun c => c == 61 || c == 91) (eolBytes eol ++ r) := by
    rcases hR with ⟨h1, h2⟩ | ⟨e, h1, h2⟩
    · rw [h1, h2]; exact HeadNot.nil _
    · rw [h1]
      simp only [eolBytes, List.cons_append, List.nil_append]
      exact HeadNot.cons _ _ _ (by rcases h2 with rfl | rfl <;> decide)
  have hs' : s.rest = text ++ (eolBytes eol ++ r) := by rw [hs]; simp
  -- the result of the loop, whatever character it is entered with
  have hloop : ∀ (text' : Bytes) (ch : Int) (s0 : Sc), text'.all (fun b => !LexSpec.isNewline b) = true →
      ¬ (ch = 10 ∨ ch = 13 ∨ ch < 0) → s0.rest = text' ++ (eolBytes eol ++ r) →
      ((lineCommentLoop ch s0).rest = r ∨
        ∃ b r', r = b :: r' ∧ (b = 10 ∨ b = 13) ∧ (lineCommentLoop ch s0).rest = r') := by
    intro text' ch s0 ht hch hs0
    obtain ⟨k1, k2⟩ := lineCommentLoop_run _ text' ch s0 ht hch hs0
    rcases hR with ⟨h1, h2⟩ | ⟨e, h1, h2⟩
    · left; rw [k1 (by rw [h1, h2]; rfl), h2]
    · have := k2 e r (by rw [h1]; rfl) h2
      rw [this]
      cases r with
      | nil => left; rfl
      | cons c r' =>
        simp only [nlRest]
        split
        · rename_i hp
          right
          refine ⟨c, r', rfl, ?_, rfl⟩
          rcases hp with ⟨_, h⟩ | ⟨_, h⟩
          · exact Or.inr h
          · exact Or.inl h
        · left; rfl
  unfold skipComments
  by_cases hp : peek s = 91
  · -- the text starts with `[`: count the `=`s behind it
    cases text with
    | nil =>
      exfalso
      exact peek_not s _ hs' _ hXhead 91 (by decide) hp
    | cons c text' =>
      have hsc : s.rest = c :: (text' ++ (eolBytes eol ++ r)) := by rw [hs']; rfl
      have hc91 : c = 91 := by
        rw [peek_cons s c _ hsc] at hp
        have : c.toNat = (91 : UInt8).toNat := by
          have : (91 : UInt8).toNat = 91 := rfl
          omega
        exact UInt8.toNat_inj.mp this
      subst hc91
      simp only [List.all_cons, Bool.and_eq_true] at htext
      obtain ⟨e1, e2, _⟩ := next_of_rest s 91 _ hsc (by unfold Plain; decide)
      have e1' : (next s).1 = 91 := by rw [e1]; rfl
      rw [if_pos hp]
      simp only []
      by_cases hpk : peek (next s).2 = 91 ∨ peek (next s).2 = 61
      · -- `[=…`: the `=`s are counted, and what follows them is not `[`
        rw [if_pos hpk]
        obtain ⟨k, t'', hsplit, ht''⟩ := longOpen_none_shape text' hopen
        have hstop : HeadNot (fun c => c == 61 || c == 91) (t'' ++ (eolBytes eol ++ r)) := by
          cases t'' with
          | nil => simpa using hXhead
          | cons y ys => exact HeadNot.cons _ _ _ (ht'' y ys rfl)
        have h61 : HeadNot (fun c => c == 61) (t'' ++ (eolBytes eol ++ r)) :=
          headNot_mono _ _ (fun c h => by simp only [beq_iff_eq] at h; simp [h]) _ hstop
        have h91 : HeadNot (fun c => c == 91) (t'' ++ (eolBytes eol ++ r)) :=
          headNot_mono _ _ (fun c h => by simp only [beq_iff_eq] at h; simp [h]) _ hstop
        obtain ⟨s2, g1, g2⟩ := countSep_run _ h61 k (next s).2 (by rw [e2, hsplit]; simp)
        rw [g2]
        simp only []
        rw [if_neg (next_ne_91 s2 _ g1 h91)]
        have ht''all : t''.all (fun b => !LexSpec.isNewline b) = true := by
          have := htext.2
          rw [hsplit] at this
          simp only [List.all_append, Bool.and_eq_true] at this
          exact this.2
        have := hloop t'' 45 s2 ht''all (by decide) g1
        rw [lineCommentLoop_step 45 s2 (by decide)] at this
        exact ⟨_, rfl, this⟩
      · rw [if_neg hpk, e1']
        exact ⟨_, rfl, hloop text' 91 (next s).2 htext.2 (by decide) e2⟩
  · rw [if_neg hp]
    exact ⟨_, rfl, hloop text 45 s htext (by decide) hs'⟩

/-- every well-formed comment is skipped exactly. -/
theorem commentScan_all (x : Sep) (hwf : x.wf = true) (hc : x.isComment = true)
    (r : Bytes) (hr : x.openEnded = true → r = []) : CommentScan x r := by
  cases x with
  | blank b => simp [Sep.isComment] at hc
  | short text eol => exact commentScan_short text eol hwf r hr
  | long level content => exact commentScan_long level content hwf r

/-- every well-formed token is scanned back (all token kinds). -/
theorem tokScan_all (t : RTok) (hwf : t.wf = true) (r : Bytes) (hf : follow t r = true) : TokScan t r := by
  cases t with
  | name w => exact tokScan_name w hwf r hf
  | kw k => exact tokScan_kw k hwf r hf
  | sym sp => exact tokScan_sym sp hwf r hf
  | num n => exact tokScan_num n hwf r hf
  | str q cs => exact tokScan_str q cs hwf r
  | lstr l f c => exact tokScan_lstr l f c hwf r

/-! ### long string contents -/

theorem closesAt_ne (level : Nat) (b : UInt8) (X : Bytes) (hb : b ≠ 93) : closesAt level (b :: X) = false := by
  unfold closesAt
  split
  · rename_i h; simp only [List.cons.injEq] at h; exact absurd h.1 hb
  · rfl

/-- a bracket level above the length of the content cannot be closed inside it. -/
theorem noClose_of_short (level : Nat) : ∀ content : Bytes, content.length < level → noClose level content = true := by
  intro content
  induction content with
  | nil => intro _; rfl
  | cons b r ih =>
    intro hl
    simp only [List.length_cons] at hl
    simp only [noClose, Bool.and_eq_true, Bool.not_eq_true']
    refine ⟨?_, ih (by omega)⟩
    by_cases hb : b = 93
    · subst hb
      simp only [List.cons_append, closesAt]
      cases hpre : (List.replicate level (61 : UInt8) ++ [93]).isPrefixOf (r ++ closer level) with
      | false => rfl
      | true =>
        exfalso
        rw [List.isPrefixOf_iff_prefix] at hpre
        obtain ⟨t, ht⟩ := hpre
        have h1 : (List.replicate level (61 : UInt8) ++ [93] ++ t)[r.length]? = some 61 := by
          rw [List.append_assoc, List.getElem?_append_left (by rw [List.length_replicate]; omega)]
          rw [List.getElem?_replicate]; simp; omega
        have h2 : (r ++ closer level)[r.length]? = some 93 := by
          rw [List.getElem?_append_right (Nat.le_refl _)]
          simp [closer]
        rw [ht, h2] at h1
        simp at h1
    · exact closesAt_ne level b _ hb

/-- long strings: every content without CR (a long string cannot denote CR: line terminators are normalised) has a
    well-formed long-bracket spelling that denotes it. -/
theorem canonLstr_wf (content : Bytes) (hcr : content.all (fun b => b != 13) = true) :
    (RTok.lstr (content.length + 1) (if content.head? = some 10 then [10] else []) content).wf = true ∧
    tokStr (RTok.lstr (content.length + 1) (if content.head? = some 10 then [10] else []) content) = content := by
  refine ⟨?_, rfl⟩
  simp only [RTok.wf, Bool.and_eq_true, Bool.or_eq_true, Bool.not_eq_true']
  refine ⟨⟨⟨?_, hcr⟩, ?_⟩, noClose_of_short _ content (by omega)⟩
  · split <;> decide
  · by_cases h : content.head? = some 10
    · left; simp [h]
    · right; simp [h]

end GLua.Lexer
