/-
  Round trip, part 2: numerals.  Decimal digits, optional fraction, optional exponent; `0x` hexadecimal.
-/
import GLua.Proofs.LexerRTTok

namespace GLua.Lexer
open GLua.Generated.Lexer
open GLua.LexSpec (Bytes)
open GLua.LexRender

theorem peek_not (s : Sc) (R : Bytes) (hs : s.rest = R) (p : UInt8 → Bool) (hR : HeadNot p R) (k : UInt8)
    (hk : p k = true) : ¬ peek s = (k.toNat : Int) := by
  cases R with
  | nil => rw [peek_nil s hs]; omega
  | cons d r' =>
    rw [peek_cons s d r' hs]
    intro h
    have : d.toNat = k.toNat := by omega
    have hd := UInt8.toNat_inj.mp this
    have := hR d r' rfl
    rw [hd, hk] at this
    exact absurd this (by decide)

/-- what may follow a numeral: nothing, or a byte that is not alphanumeric — and no dot where the reference lexer
    would take it into the numeral. -/
theorem follow_num (n : Numeral) (r : Bytes) (hf : follow (.num n) r = true) :
    HeadNot LexSpec.isAlnum r ∧ (n.dotContinues = true → HeadNot (fun c => c == 46) r) := by
  constructor
  · apply follow_headNot _ r hf
    intro d r'
    simp only [follow, Bool.and_eq_true, Bool.not_eq_true']
    exact fun h => h.1
  · intro hd
    apply follow_headNot _ r hf
    intro d r'
    simp only [follow, hd, Bool.and_true, Bool.and_eq_true, Bool.not_eq_true']
    exact fun h => h.2

/-- what stops every numeral: a byte that is neither alphanumeric nor a dot. -/
def numStop (c : UInt8) : Bool := LexSpec.isAlnum c || c == 46

theorem headNot_mono (p q : UInt8 → Bool) (h : ∀ c, q c = true → p c = true) (r : Bytes) (hr : HeadNot p r) :
    HeadNot q r := by
  intro c r' e
  have := hr c r' e
  cases hq : q c with
  | false => rfl
  | true => rw [h c hq] at this; exact absurd this (by decide)

theorem alnum_digit (r : Bytes) (hr : HeadNot LexSpec.isAlnum r) : HeadNot LexSpec.isDigit r :=
  headNot_mono _ _ (fun c h => digit_alnum c h) r hr

theorem alnum_hex (r : Bytes) (hr : HeadNot LexSpec.isAlnum r) : HeadNot LexSpec.isHex r :=
  headNot_mono _ _ (fun c h => hex_alnum c h) r hr

/-- `numeralEnd` behind a complete numeral: nothing to complain about. -/
theorem numeralEnd_ok_of (buf : Buf) (s : Sc) (dots : Bool) (r : Bytes) (hs : s.rest = r)
    (hra : HeadNot LexSpec.isAlnum r) (hd : dots = true → HeadNot (fun c => c == 46) r) :
    numeralEnd buf s dots = .ok (buf, s) := by
  have h1 : isIdent (peek s) 1 = false :=
    peek_headNot LexSpec.isAlnum (fun c => isIdent c 1) isIdent1_eq (by decide) r hra s hs
  unfold numeralEnd
  rw [if_pos]
  refine ⟨by rw [h1]; decide, ?_⟩
  rintro ⟨hdt, hp⟩
  exact peek_not s r hs _ (hd hdt) 46 (by decide) hp

/-- the exponent part of `scanNumberTail` (with the `numeralEnd` exits). -/
def numExp (f : Buf × Sc) : Except LexErr (Buf × Sc) :=
  if peek f.2 = 101 ∨ peek f.2 = 69 then
    if isDecimal (peek (scanNumberExpPre f).2) then
      numeralEnd
        (scanDecimal (next (scanNumberExpPre f).2).1 (scanNumberExpPre f).1 (next (scanNumberExpPre f).2).2).1
        (scanDecimal (next (scanNumberExpPre f).2).1 (scanNumberExpPre f).1 (next (scanNumberExpPre f).2).2).2 false
    else .error (mkErr (scanNumberExpPre f).2 (scanNumberExpPre f).1 "malformed number")
  else numeralEnd f.1 f.2 true

theorem scanNumberTail_eq (ch : Int) (buf : Buf) (s : Sc) :
    scanNumberTail ch buf s = numExp (scanNumberFrac ch buf s) := rfl

def renderExp (ex : Option Exp) : Bytes := match ex with | some x => x.render | none => []

theorem digit_facts (d : UInt8) : LexSpec.isDigit d = true →
    Plain d ∧ d ≠ 43 ∧ d ≠ 45 ∧ d ≠ 46 ∧ d ≠ 101 ∧ d ≠ 69 ∧ d ≠ 120 ∧ d ≠ 88 ∧ LexSpec.isLetter d = false := by
  revert d; apply forall_byte; unfold Plain; decide +kernel

theorem numExp_run (ex : Option Exp) (hex : (match ex with | some x => x.wf | none => true) = true) (r : Bytes)
    (hra : HeadNot LexSpec.isAlnum r) (hdot : ex = none → HeadNot (fun c => c == 46) r)
    (buf : Buf) (s : Sc) (hs : s.rest = renderExp ex ++ r) :
    ∃ s', numExp (buf, s) = .ok (buf ++ renderExp ex, s') ∧ s'.rest = r := by
  cases ex with
  | none =>
    simp only [renderExp, List.nil_append] at hs
    have h1 : ¬ peek s = 101 := peek_not s r hs LexSpec.isAlnum hra 101 (by decide)
    have h2 : ¬ peek s = 69 := peek_not s r hs LexSpec.isAlnum hra 69 (by decide)
    refine ⟨s, ?_, hs⟩
    unfold numExp
    rw [if_neg (by intro h; rcases h with h | h; exact h1 h; exact h2 h)]
    simp only []
    rw [numeralEnd_ok_of buf s true r hs hra (fun _ => hdot rfl)]
    simp [renderExp]
  | some x =>
    obtain ⟨e, sign, ds⟩ := x
    simp only [Exp.wf, Bool.and_eq_true, Bool.or_eq_true, beq_iff_eq, bne_iff_ne, ne_eq] at hex
    obtain ⟨⟨⟨he, hsign⟩, hne⟩, hds⟩ := hex
    cases ds with
    | nil => exact absurd rfl hne
    | cons d ds' =>
      simp only [List.all_cons, Bool.and_eq_true] at hds
      obtain ⟨hd, hds'⟩ := hds
      obtain ⟨dpl, d43, d45, _⟩ := digit_facts d hd
      have hepl : Plain e := by rcases he with rfl | rfl <;> (unfold Plain; decide)
      have hrd := alnum_digit r hra
      cases sign with
      | none =>
        have hs1 : s.rest = e :: (d :: (ds' ++ r)) := by rw [hs]; simp [renderExp, Exp.render]
        have hpe : peek s = 101 ∨ peek s = 69 := by
          rw [peek_cons s e _ hs1]
          rcases he with rfl | rfl
          · left; rfl
          · right; rfl
        obtain ⟨e1, e2, _⟩ := next_of_rest s e _ hs1 hepl
        have hp1 := peek_cons (next s).2 d _ e2
        have hpre : scanNumberExpPre (buf, s) = (writeChar buf (next s).1, (next s).2) := by
          unfold scanNumberExpPre
          simp only []
          rw [hp1]
          have a1 := int_ne_of_ne d 45 d45
          have a2 := int_ne_of_ne d 43 d43
          rw [if_neg (by intro h; rcases h with h | h; exact a1 h; exact a2 h)]
        obtain ⟨f1, f2, _⟩ := next_of_rest (next s).2 d _ e2 dpl
        obtain ⟨g1, g2⟩ := decimalLoop_run ds' r hrd (writeChar (writeChar buf (next s).1) (next (next s).2).1)
          (next (next s).2).2 hds' f2
        refine ⟨_, ?_, g2⟩
        unfold numExp
        simp only []
        rw [if_pos hpe, hpre]
        simp only []
        rw [hp1, isDecimal_eq, hd]
        simp only [if_true, scanDecimal]
        rw [numeralEnd_ok_of _ _ false r g2 hra (by intro h; cases h)]
        refine congrArg _ (Prod.ext ?_ rfl)
        rw [g1, e1, f1]
        simp [writeChar, byteOf_toNat, renderExp, Exp.render]
      | some c =>
        have hcs : c = 43 ∨ c = 45 := by simpa using hsign
        have hcpl : Plain c := by rcases hcs with rfl | rfl <;> (unfold Plain; decide)
        have hs1 : s.rest = e :: (c :: (d :: (ds' ++ r))) := by rw [hs]; simp [renderExp, Exp.render]
        have hpe : peek s = 101 ∨ peek s = 69 := by
          rw [peek_cons s e _ hs1]
          rcases he with rfl | rfl
          · left; rfl
          · right; rfl
        obtain ⟨e1, e2, _⟩ := next_of_rest s e _ hs1 hepl
        have hp1 := peek_cons (next s).2 c _ e2
        obtain ⟨c1, c2, _⟩ := next_of_rest (next s).2 c _ e2 hcpl
        have hpre : scanNumberExpPre (buf, s) =
            (writeChar (writeChar buf (next s).1) (next (next s).2).1, (next (next s).2).2) := by
          unfold scanNumberExpPre
          simp only []
          rw [hp1]
          rw [if_pos (by rcases hcs with rfl | rfl; right; rfl; left; rfl)]
        have hp2 := peek_cons (next (next s).2).2 d _ c2
        obtain ⟨f1, f2, _⟩ := next_of_rest (next (next s).2).2 d _ c2 dpl
        obtain ⟨g1, g2⟩ := decimalLoop_run ds' r hrd
          (writeChar (writeChar (writeChar buf (next s).1) (next (next s).2).1) (next (next (next s).2).2).1)
          (next (next (next s).2).2).2 hds' f2
        refine ⟨_, ?_, g2⟩
        unfold numExp
        simp only []
        rw [if_pos hpe, hpre]
        simp only []
        rw [hp2, isDecimal_eq, hd]
        simp only [if_true, scanDecimal]
        rw [numeralEnd_ok_of _ _ false r g2 hra (by intro h; cases h)]
        refine congrArg _ (Prod.ext ?_ rfl)
        rw [g1, e1, c1, f1]
        simp [writeChar, byteOf_toNat, renderExp, Exp.render]

theorem byteOf_48 : byteOf 48 = 48 := by decide
theorem byteOf_46 : byteOf 46 = 46 := by decide

def renderFrac (fp : Option Bytes) : Bytes := match fp with | some f => 46 :: f | none => []

theorem headNot_append (p : UInt8 → Bool) (a b : Bytes) (ha : ∀ c a', a = c :: a' → p c = false)
    (hb : HeadNot p b) : HeadNot p (a ++ b) := by
  cases a with
  | nil => simpa using hb
  | cons c a' => exact HeadNot.cons p c _ (ha c a' rfl)

theorem headNot_all (p q : UInt8 → Bool) (h : ∀ c, q c = true → p c = false) (a : Bytes) (ha : a.all q = true) :
    ∀ c a', a = c :: a' → p c = false := by
  intro c a' e
  subst e
  simp only [List.all_cons, Bool.and_eq_true] at ha
  exact h c ha.1

theorem exp_head (ex : Option Exp) (hex : (match ex with | some x => x.wf | none => true) = true) (p : UInt8 → Bool)
    (h101 : p 101 = false) (h69 : p 69 = false) : ∀ c a', renderExp ex = c :: a' → p c = false := by
  intro c a' e
  cases ex with
  | none => simp [renderExp] at e
  | some x =>
    simp only [renderExp, Exp.render, List.cons.injEq] at e
    simp only [Exp.wf, Bool.and_eq_true, Bool.or_eq_true, beq_iff_eq] at hex
    rw [← e.1]
    rcases hex.1.1.1 with h | h <;> rw [h] <;> assumption

theorem frac_head (fp : Option Bytes) (p : UInt8 → Bool) (h46 : p 46 = false) :
    ∀ c a', renderFrac fp = c :: a' → p c = false := by
  intro c a' e
  cases fp with
  | none => simp [renderFrac] at e
  | some f =>
    simp only [renderFrac, List.cons.injEq] at e
    rw [← e.1]; exact h46

theorem headNot_append_nonempty (p : UInt8 → Bool) (a b : Bytes) (ha : ∀ c a', a = c :: a' → p c = false)
    (hne : a ≠ []) : HeadNot p (a ++ b) := by
  cases a with
  | nil => exact absurd rfl hne
  | cons c a' => exact HeadNot.cons p c _ (ha c a' rfl)

/-- integer part and fraction, entered with the first digit. -/
theorem scanNumberFrac_digit (c : UInt8) (hc : LexSpec.isDigit c = true) (ip' : Bytes)
    (hip : ip'.all LexSpec.isDigit = true) (fp : Option Bytes)
    (hfp : (match fp with | some f => f.all LexSpec.isDigit | none => true) = true)
    (ex : Option Exp) (hex : (match ex with | some x => x.wf | none => true) = true)
    (r : Bytes) (hra : HeadNot LexSpec.isAlnum r) (hdot : ex = none → HeadNot (fun c => c == 46) r)
    (s : Sc) (hs : s.rest = ip' ++ (renderFrac fp ++ (renderExp ex ++ r))) :
    ∃ s', scanNumberFrac (c.toNat : Int) [] s = (c :: ip' ++ renderFrac fp, s') ∧ s'.rest = renderExp ex ++ r := by
  have hrd := alnum_digit r hra
  have hexd : HeadNot LexSpec.isDigit (renderExp ex ++ r) :=
    headNot_append _ _ _ (exp_head ex hex _ (by decide) (by decide)) hrd
  have hfd : HeadNot LexSpec.isDigit (renderFrac fp ++ (renderExp ex ++ r)) :=
    headNot_append _ _ _ (frac_head fp _ (by decide)) hexd
  obtain ⟨g1, g2⟩ := decimalLoop_run ip' _ hfd (writeChar [] (c.toNat : Int)) s hip hs
  have hc46 : ¬ ((c.toNat : Int) = 46) := int_ne_of_ne c 46 (digit_facts c hc).2.2.2.1
  have hb1 : (scanDecimal (c.toNat : Int) [] s).1 = c :: ip' := by
    unfold scanDecimal; rw [g1]; simp [writeChar, byteOf_toNat]
  cases fp with
  | none =>
    have hp : ¬ peek (scanDecimal (c.toNat : Int) [] s).2 = 46 := by
      unfold scanDecimal
      apply peek_not _ _ g2 (fun d => d == 46) _ 46 (by decide)
      simp only [renderFrac, List.nil_append]
      cases ex with
      | none => simpa [renderExp] using hdot rfl
      | some x =>
        exact headNot_append_nonempty _ _ _ (exp_head (some x) hex (fun d => d == 46) (by decide) (by decide))
          (by simp [renderExp, Exp.render])
    refine ⟨(scanDecimal (c.toNat : Int) [] s).2, ?_, by simpa [scanDecimal, renderFrac] using g2⟩
    unfold scanNumberFrac
    rw [if_neg (by intro h; exact hp h.2)]
    exact Prod.ext (by rw [hb1]; simp [renderFrac]) rfl
  | some f =>
    simp only [renderFrac, List.cons_append] at g2
    have hp : peek (decimalLoop (writeChar [] (c.toNat : Int)) s).2 = 46 := by
      rw [peek_cons _ 46 _ g2]; rfl
    obtain ⟨e1, e2, _⟩ := next_of_rest _ 46 _ g2 (by unfold Plain; decide)
    obtain ⟨k1, k2⟩ := decimalLoop_run f _ hexd
      (writeChar (decimalLoop (writeChar [] (c.toNat : Int)) s).1
        (next (decimalLoop (writeChar [] (c.toNat : Int)) s).2).1)
      (next (decimalLoop (writeChar [] (c.toNat : Int)) s).2).2 hfp e2
    refine ⟨_, ?_, k2⟩
    unfold scanNumberFrac scanDecimal
    rw [if_pos ⟨hc46, hp⟩]
    refine Prod.ext ?_ rfl
    simp only []
    rw [k1, g1, e1]
    simp [writeChar, renderFrac, byteOf_toNat, byteOf_46]

/-- a numeral that starts with the dot: the fraction. -/
theorem scanNumberFrac_dot (f : Bytes) (hf : f.all LexSpec.isDigit = true)
    (ex : Option Exp) (hex : (match ex with | some x => x.wf | none => true) = true)
    (r : Bytes) (hra : HeadNot LexSpec.isAlnum r) (s : Sc) (hs : s.rest = f ++ (renderExp ex ++ r)) :
    ∃ s', scanNumberFrac 46 [] s = (46 :: f, s') ∧ s'.rest = renderExp ex ++ r := by
  have hrd := alnum_digit r hra
  have hexd : HeadNot LexSpec.isDigit (renderExp ex ++ r) :=
    headNot_append _ _ _ (exp_head ex hex _ (by decide) (by decide)) hrd
  obtain ⟨g1, g2⟩ := decimalLoop_run f _ hexd (writeChar [] 46) s hf hs
  refine ⟨(scanDecimal 46 [] s).2, ?_, g2⟩
  unfold scanNumberFrac
  rw [if_neg (by intro h; exact h.1 rfl)]
  refine Prod.ext ?_ rfl
  unfold scanDecimal
  rw [g1]
  simp [writeChar, byteOf]

theorem tokScan_flt (ip : Bytes) (fp : Option Bytes) (ex : Option Exp)
    (hwf : (RTok.num (.flt ip fp ex)).wf = true) (r : Bytes) (hf : follow (.num (.flt ip fp ex)) r = true) :
    TokScan (.num (.flt ip fp ex)) r := by
  obtain ⟨hra, hdc⟩ := follow_num _ r hf
  have hdot : ex = none → HeadNot (fun c => c == 46) r := by
    intro he; apply hdc; rw [he]; rfl
  simp only [RTok.wf, Numeral.wf, Bool.and_eq_true, Bool.or_eq_true, bne_iff_ne, ne_eq] at hwf
  obtain ⟨⟨⟨hip, hfp⟩, hne⟩, hex⟩ := hwf
  have hrenderN : (Numeral.flt ip fp ex).render = ip ++ (renderFrac fp ++ renderExp ex) := by
    show (ip ++ renderFrac fp) ++ renderExp ex = _
    rw [List.append_assoc]
  have hrender : (RTok.num (.flt ip fp ex)).render = ip ++ (renderFrac fp ++ renderExp ex) := hrenderN
  cases ip with
  | cons c ip' =>
    simp only [List.all_cons, Bool.and_eq_true] at hip
    obtain ⟨hc, hip'⟩ := hip
    obtain ⟨cpl, _, c45, _, _, _, _, _, clet⟩ := digit_facts c hc
    refine ⟨c, ip' ++ (renderFrac fp ++ renderExp ex), by rw [hrender]; rfl, digit_not_blank c hc,
      Or.inl (digit_ne_minus c hc), ?_⟩
    intro s hs
    have hs' : s.rest = ip' ++ (renderFrac fp ++ (renderExp ex ++ r)) := by rw [hs]; simp
    obtain ⟨s1, h1, h1r⟩ := scanNumberFrac_digit c hc ip' hip' fp hfp ex hex r hra hdot s hs'
    obtain ⟨s2, h2, h2r⟩ := numExp_run ex hex r hra hdot (c :: ip' ++ renderFrac fp) s1 h1r
    refine ⟨s2, ?_, h2r⟩
    -- not the hexadecimal prefix
    have hnx : ¬ ((c.toNat : Int) = 48 ∧ (peek s = 120 ∨ peek s = 88)) := by
      rintro ⟨_, hx⟩
      have hh : HeadNot (fun d => d == 120 || d == 88) (ip' ++ (renderFrac fp ++ (renderExp ex ++ r))) := by
        apply headNot_append _ _ _ (headNot_all _ LexSpec.isDigit _ ip' hip')
        · apply headNot_append _ _ _ (frac_head fp _ (by decide))
          apply headNot_append _ _ _ (exp_head ex hex _ (by decide) (by decide))
          exact headNot_mono _ _ (fun d h => by
            simp only [Bool.or_eq_true, beq_iff_eq] at h
            rcases h with rfl | rfl <;> decide) r hra
        · intro d hd
          obtain ⟨_, _, _, _, _, _, d120, d88, _⟩ := digit_facts d hd
          simp [d120, d88]
      rcases hx with hx | hx
      · exact peek_not s _ hs' _ hh 120 (by decide) hx
      · exact peek_not s _ hs' _ hh 88 (by decide) hx
    unfold scanToken
    rw [isIdent0_eq, clet, isDecimal_eq, hc]
    simp only [Bool.false_eq_true, if_false, if_true]
    unfold scanNumber
    rw [if_neg hnx, scanNumberTail_eq, h1, h2]
    simp only [tokType, tokStr, hrenderN]
    simp
  | nil =>
    -- `.ddd`
    cases fp with
    | none => simp at hne
    | some f =>
      cases f with
      | nil => simp at hne
      | cons d f' =>
        have hfd : (d :: f').all LexSpec.isDigit = true := hfp
        have hd : LexSpec.isDigit d = true := by
          simp only [List.all_cons, Bool.and_eq_true] at hfd; exact hfd.1
        refine ⟨46, (d :: f') ++ renderExp ex, by rw [hrender]; rfl, by decide, Or.inl (by decide), ?_⟩
        intro s hs
        have hs' : s.rest = (d :: f') ++ (renderExp ex ++ r) := by rw [hs]; simp
        obtain ⟨s1, h1, h1r⟩ := scanNumberFrac_dot (d :: f') hfd ex hex r hra s hs'
        obtain ⟨s2, h2, h2r⟩ := numExp_run ex hex r hra hdot (46 :: (d :: f')) s1 h1r
        refine ⟨s2, ?_, h2r⟩
        have hp : isDecimal (peek s) = true := by
          rw [peek_cons s d _ (by rw [hs']; rfl), isDecimal_eq]; exact hd
        have e46 : ((46 : UInt8).toNat : Int) = 46 := rfl
        rw [e46]
        have hst : scanToken 46 s = scanDot 46 s := by
          simp [scanToken, isIdent, isDecimal]
        rw [hst]
        unfold scanDot
        rw [hp]
        simp only [if_true]
        unfold scanNumber
        rw [if_neg (by intro h; exact absurd h.1 (by decide)), scanNumberTail_eq, h1, h2]
        simp only [tokType, tokStr, hrenderN]
        simp [renderFrac]

theorem tokScan_dec (ds : Bytes) (hwf : (RTok.num (.dec ds)).wf = true) (r : Bytes)
    (hf : follow (.num (.dec ds)) r = true) : TokScan (.num (.dec ds)) r := by
  have hwf' : (RTok.num (.flt ds none none)).wf = true := by
    simp only [RTok.wf, Numeral.wf, Bool.and_eq_true, bne_iff_ne, ne_eq] at hwf ⊢
    simp [hwf.1, hwf.2]
  obtain ⟨c, tail, h1, h2, h3, h4⟩ := tokScan_flt ds none none hwf' r (by simpa [follow, Numeral.dotContinues] using hf)
  have hrd : (RTok.num (.flt ds none none)).render = (RTok.num (.dec ds)).render := by
    simp [RTok.render, Numeral.render]
  refine ⟨c, tail, by rw [← hrd]; exact h1, h2, h3, ?_⟩
  intro s hs
  obtain ⟨s', g1, g2⟩ := h4 s hs
  refine ⟨s', ?_, g2⟩
  rw [g1]
  simp only [tokType, tokStr]
  rw [show (Numeral.flt ds none none).render = (Numeral.dec ds).render from by simp [Numeral.render]]

theorem hex_facts (d : UInt8) : LexSpec.isHex d = true → Plain d := by
  revert d; apply forall_byte; unfold Plain; decide +kernel

theorem tokScan_hex (x : UInt8) (hs : Bytes) (hwf : (RTok.num (.hex x hs)).wf = true) (r : Bytes)
    (hf : follow (.num (.hex x hs)) r = true) : TokScan (.num (.hex x hs)) r := by
  have hra := (follow_num _ r hf).1
  have hr := alnum_hex r hra
  simp only [RTok.wf, Numeral.wf, Bool.and_eq_true, Bool.or_eq_true, beq_iff_eq, bne_iff_ne, ne_eq] at hwf
  obtain ⟨⟨hx, hne⟩, hhs⟩ := hwf
  refine ⟨48, x :: hs, rfl, by decide, Or.inl (by decide), ?_⟩
  intro s hrest
  have hrest' : s.rest = x :: (hs ++ r) := by rw [hrest]; rfl
  have hxpl : Plain x := by rcases hx with rfl | rfl <;> (unfold Plain; decide)
  have hp := peek_cons s x _ hrest'
  obtain ⟨e1, e2, _⟩ := next_of_rest s x _ hrest' hxpl
  obtain ⟨g1, g2, g3⟩ := hexLoop_run hs r hr (writeChar (writeChar [] 48) (next s).1) (next s).2 false hhs e2
  refine ⟨_, ?_, g2⟩
  have hcond : ((48 : Int) = 48 ∧ (peek s = 120 ∨ peek s = 88)) := by
    refine ⟨rfl, ?_⟩
    rw [hp]
    rcases hx with rfl | rfl
    · left; rfl
    · right; rfl
  have hv : (hexLoop (writeChar (writeChar [] 48) (next s).1) (next s).2 false).2.2 = true := by
    rw [g3]
    cases hs with
    | nil => exact absurd rfl hne
    | cons _ _ => rfl
  have e48 : ((48 : UInt8).toNat : Int) = 48 := rfl
  rw [e48]
  unfold scanToken
  rw [show isIdent 48 0 = false from by decide, show isDecimal 48 = true from by decide]
  simp only [Bool.false_eq_true, if_false, if_true]
  unfold scanNumber
  rw [if_pos hcond]
  simp only [hv, Bool.not_true, Bool.false_eq_true, if_false]
  rw [numeralEnd_ok_of _ _ false r g2 hra (by intro h; cases h)]
  simp only []
  rw [g1, e1]
  simp [tokType, tokStr, Numeral.render, writeChar, byteOf_48, byteOf_toNat]

theorem tokScan_num (n : Numeral) (hwf : (RTok.num n).wf = true) (r : Bytes) (hf : follow (.num n) r = true) :
    TokScan (.num n) r := by
  cases n with
  | dec ds => exact tokScan_dec ds hwf r hf
  | flt ip fp ex => exact tokScan_flt ip fp ex hwf r hf
  | hex x hs => exact tokScan_hex x hs hwf r hf

end GLua.Lexer
