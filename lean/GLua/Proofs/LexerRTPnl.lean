/-
  The `PNewLine` flag ("a line break stands between `)` and the `(` that follows": the parser's
  "ambiguous syntax (function call x new statement)" check) on rendered token lists.

  `Scan` computes the flag from the *last* run of blanks it skipped: a comment between the line break and the `(`
  sends it back to `redo` and the flag is lost (known finding `C08-comment-hides-newline-before-paren`).
-/
import GLua.Proofs.LexerRT
import GLua.Proofs.LexerRTLong

namespace GLua.Lexer
open GLua.Generated.Lexer
open GLua.LexSpec (Bytes)
open GLua.LexRender

/-! ### the newline flag of the blank-skipping prologue -/

theorem ws1_first (c : UInt8) (r : List UInt8) (hc : Plain c) (hcw : wsBit whitespace1 (c.toNat : Int) = false) :
    ∀ (bs : List UInt8), (∀ b ∈ bs, IsBlank b) → ∀ s : Sc, s.rest = bs ++ c :: r →
      (skipWsLoop whitespace1 (next s).1 (next s).2).1 = if bs.any LexSpec.isNewline then 10 else (c.toNat : Int) := by
  intro bs
  induction bs with
  | nil =>
    intro _ s hs
    obtain ⟨e1, _, _⟩ := next_of_rest s c r (by simpa using hs) hc
    rw [e1, skipWsLoop_false _ _ _ hcw]; rfl
  | cons b bs' ih =>
    intro hall s hs
    have hb := hall b (List.mem_cons_self ..)
    have hall' : ∀ x ∈ bs', IsBlank x := fun x hx => hall x (List.mem_cons_of_mem _ hx)
    have hs' : s.rest = b :: (bs' ++ c :: r) := by rw [hs]; rfl
    by_cases hnl : b = 10 ∨ b = 13
    · obtain ⟨e1, _⟩ := next_nl s b _ hs' hnl
      rw [e1, skipWsLoop_false _ _ _ (by decide)]
      have : LexSpec.isNewline b = true := by rcases hnl with rfl | rfl <;> decide
      simp [this]
    · have hpb := isBlank_cases b hb hnl
      obtain ⟨hw, hp⟩ := wsBit_plain_blank whitespace1 b hpb (by decide) (by decide) (by decide) (by decide)
      obtain ⟨e1, e2, _⟩ := next_of_rest s b _ hs' hp
      rw [e1, skipWsLoop_true _ _ _ hw, ih hall' (next s).2 e2]
      have : LexSpec.isNewline b = false := by
        simp only [LexSpec.isNewline, Bool.or_eq_false_iff, beq_eq_false_iff_ne, ne_eq]
        exact ⟨fun h => hnl (Or.inl h), fun h => hnl (Or.inr h)⟩
      simp [this]

/-- the newline flag of the prologue = "the run of blanks contains a line terminator". -/
theorem skipBlanks_flag (bs : List UInt8) (hall : ∀ b ∈ bs, IsBlank b) (c : UInt8) (r : List UInt8)
    (hc : Plain c) (hc1 : wsBit whitespace1 (c.toNat : Int) = false) (s : Sc) (hs : s.rest = bs ++ c :: r) :
    (skipBlanks s).2.2 = bs.any LexSpec.isNewline := by
  have h := ws1_first c r hc hc1 bs hall s hs
  unfold skipBlanks skipWhiteSpace
  simp only []
  rw [h]
  cases hany : bs.any LexSpec.isNewline with
  | true => simp
  | false =>
    have := plain_toNat c hc
    simp only [Bool.false_eq_true, if_false, this]

/-- the flag `Scan` returns for a run of blanks followed by a rendered token. -/
theorem scan_tok_pnl (prev : Int) (t : RTok) (r : Bytes) (hT : TokScan t r)
    (bs : Bytes) (hall : ∀ b ∈ bs, IsBlank b) (s : Sc) (hs : s.rest = bs ++ (t.render ++ r))
    (tok : Token) (pnl : Bool) (s' : Sc) (h : scan prev s = .tok tok pnl s') :
    pnl = (decide (t.render.head? = some 40 ∧ prev = 41) && bs.any LexSpec.isNewline) := by
  obtain ⟨c, tail, hr, hcb, hnc, hscan⟩ := hT
  obtain ⟨hpl, hw1, hw2⟩ := tokStart_of_not_blank c hcb
  have hs' : s.rest = bs ++ c :: (tail ++ r) := by rw [hs, hr]; rfl
  obtain ⟨h1, h2⟩ := skipBlanks_run bs hall c (tail ++ r) hpl hw1 hw2 s hs'
  have hflag := skipBlanks_flag bs hall c (tail ++ r) hpl hw1 s hs'
  have hc : ¬ ((skipBlanks s).1 = 45 ∧ peek (skipBlanks s).2.1 = 45) := by
    rintro ⟨a1, a2⟩
    rw [h1] at a1
    rcases hnc with hne | hh
    · exact hne (toNat_eq_45 c a1)
    · exact peek_ne_of _ _ h2 45 hh a2
  obtain ⟨s'', hst, _⟩ := hscan (skipBlanks s).2.1 h2
  rw [← h1] at hst
  unfold mkTok at hst
  rw [scan_token prev s _ _ hc hst] at h
  simp only [ScanRes.tok.injEq] at h
  rw [← h.2.1, hflag, h1, hr]
  have hc40 : ((c.toNat : Int) = 40) ↔ c = 40 := by
    constructor
    · intro e
      have : c.toNat = (40 : UInt8).toNat := by
        have : (40 : UInt8).toNat = 40 := rfl
        omega
      exact UInt8.toNat_inj.mp this
    · intro e; rw [e]; rfl
  by_cases hcp : (c.toNat : Int) = 40 ∧ prev = 41
  · simp [hcp, hc40.mp hcp.1]
  · have : ¬ (c = 40 ∧ prev = 41) := fun hh => hcp ⟨hc40.mpr hh.1, hh.2⟩
    simp [hcp, this]

/-- the EOF token never carries the flag. -/
theorem scan_eof_pnl (prev : Int) (bs : Bytes) (hall : ∀ b ∈ bs, IsBlank b) (s : Sc) (hs : s.rest = bs)
    (tok : Token) (pnl : Bool) (s' : Sc) (h : scan prev s = .tok tok pnl s') : pnl = false := by
  obtain ⟨h1, _⟩ := skipBlanks_eof bs hall s hs
  have hc : ¬ ((skipBlanks s).1 = 45 ∧ peek (skipBlanks s).2.1 = 45) := by rw [h1]; omega
  have hst : scanToken (skipBlanks s).1 (skipBlanks s).2.1 =
      .ok ({ type := -1, str := [], line := (skipBlanks s).2.1.line, col := (skipBlanks s).2.1.col,
             off := (skipBlanks s).2.1.off }, (skipBlanks s).2.1) := by
    rw [h1]
    simp [scanToken, isIdent, isDecimal]
  rw [scan_token prev s _ _ hc hst] at h
  simp only [ScanRes.tok.injEq] at h
  rw [← h.2.1, h1]
  simp

/-! ### the whole token list -/

/-- the expected flags: true exactly for a token that starts with `(` directly after a token of type `)` when the
    gap between them contains a line terminator. -/
def pnlFrom (lay : Layout) : Nat → Int → List RTok → List Bool
  | _, _, [] => [false]
  | i, prevTy, t :: ts =>
    (decide (t.render.head? = some 40 ∧ prevTy = 41) && (renderSeps (lay i)).any LexSpec.isNewline) ::
      pnlFrom lay (i + 1) (tokType t) ts

/-- the guard: no comment stands between a `)` and a `(`. -/
def pnlGuard (lay : Layout) : Nat → Int → List RTok → Bool
  | _, _, [] => true
  | i, prevTy, t :: ts =>
    (!decide (t.render.head? = some 40 ∧ prevTy = 41) || (lay i).all (fun x => !x.isComment)) &&
      pnlGuard lay (i + 1) (tokType t) ts

theorem renderSeps_blank (g : List Sep) (hw : ∀ x ∈ g, x.wf = true) (hc : g.all (fun x => !x.isComment) = true) :
    ∀ b ∈ renderSeps g, IsBlank b := by
  induction g with
  | nil => intro b hb; simp [renderSeps] at hb
  | cons x g' ih =>
    intro b hb
    rw [renderSeps_cons] at hb
    simp only [List.all_cons, Bool.and_eq_true, Bool.not_eq_true'] at hc
    cases x with
    | blank b0 =>
      simp only [Sep.render, List.cons_append, List.nil_append, List.mem_cons] at hb
      rcases hb with rfl | hb
      · exact isBlank_of_spec _ (by simpa [Sep.wf] using hw _ (List.mem_cons_self ..))
      · exact ih (fun y hy => hw y (List.mem_cons_of_mem _ hy)) hc.2 b hb
    | short t e => simp [Sep.isComment] at hc
    | long l c => simp [Sep.isComment] at hc

theorem lexAll_render_pnl (input : Bytes) (lay : Layout) :
    ∀ (toks : List RTok) (i : Nat) (pt : Option RTok) (prev : Int) (s : Sc),
      (∀ t ∈ toks, ∀ r, follow t r = true → TokScan t r) →
      (∀ j, i ≤ j → j ≤ i + toks.length → GapScan (lay j)) →
      wfFrom lay i pt toks = true → pnlGuard lay i prev toks = true → RestInv input s →
      s.rest = renderFrom lay i toks →
      (lexAll prev s).toks.map (fun p => p.2) = pnlFrom lay i prev toks := by
  intro toks
  induction toks with
  | nil =>
    intro i pt prev s _ hG hwf _ hI hs
    simp only [wfFrom] at hwf
    obtain ⟨hsw, hends⟩ := gapOK_parts _ _ _ hwf
    have hGi := hG i (Nat.le_refl _) (by omega)
    simp only [renderFrom] at hs
    have key := scan_gap input prev [] (fun res => ∃ tok pnl s', res = .tok tok pnl s' ∧ tok.type = -1 ∧
        pnl = false) false
      (by intro c R' h; simp at h) (fun _ => rfl)
      (by
        intro bs s hall hI hs
        obtain ⟨tok, pnl, s', h1, h2, _⟩ := scan_eof input prev bs hall s hI (by simpa using hs)
        exact ⟨tok, pnl, s', h1, h2, scan_eof_pnl prev bs hall s (by simpa using hs) tok pnl s' h1⟩)
      (lay i).length (lay i) (Nat.le_refl _) (fun x hx => ⟨hsw x hx, hGi x hx (hsw x hx)⟩) hends [] s (by simp) hI
      (by simpa using hs)
    obtain ⟨tok, pnl, s', hsc, h1, h2⟩ := key
    obtain ⟨e1, _⟩ := lexAll_eof prev s s' tok pnl hsc (by omega)
    rw [e1, h2]; rfl
  | cons t ts ih =>
    intro i pt prev s hT hG hwf hgd hI hs
    simp only [wfFrom, Bool.and_eq_true] at hwf
    obtain ⟨⟨_, hgap⟩, hrest⟩ := hwf
    obtain ⟨hsw, hends⟩ := gapOK_parts _ _ _ hgap
    have hGi := hG i (Nat.le_refl _) (by omega)
    simp only [pnlGuard, Bool.and_eq_true, Bool.or_eq_true, Bool.not_eq_true'] at hgd
    obtain ⟨hgd1, hgd2⟩ := hgd
    simp only [renderFrom] at hs
    have hfol : follow t (renderFrom lay (i + 1) ts) = true := by
      cases ts with
      | nil =>
        simp only [wfFrom] at hrest
        simp only [renderFrom]
        have := gapOK_follow t (lay (i + 1)) none [] hrest rfl
        simpa using this
      | cons t2 ts2 =>
        simp only [wfFrom, Bool.and_eq_true] at hrest
        simp only [renderFrom]
        obtain ⟨c2, tail2, hr2, _⟩ := hT t2 (by simp) [] (follow_nil t2)
        exact gapOK_follow t (lay (i + 1)) (some t2) _ hrest.1.2 ⟨_, by rw [hr2]; simp, rfl⟩
    have hTS := hT t (by simp) _ hfol
    have hTS' := hTS
    obtain ⟨c, tail, hr, hcb, _⟩ := hTS'
    -- the result of this `Scan` call, with its flag
    have key : ∃ tok pnl s', scan prev s = .tok tok pnl s' ∧ tok.type = tokType t ∧
        s'.rest = renderFrom lay (i + 1) ts ∧ RestInv input s' ∧
        pnl = (decide (t.render.head? = some 40 ∧ prev = 41) && (renderSeps (lay i)).any LexSpec.isNewline) := by
      by_cases hcf : (lay i).all (fun x => !x.isComment) = true
      · -- only blanks in the gap: one run
        have hbl := renderSeps_blank (lay i) hsw hcf
        obtain ⟨tok, pnl, s', h1, h2, _, _, h5, h6⟩ := scan_tok input prev t _ hTS (renderSeps (lay i)) hbl s hI hs
        exact ⟨tok, pnl, s', h1, h2, h5, h6, scan_tok_pnl prev t _ hTS _ hbl s hs tok pnl s' h1⟩
      · -- comments in the gap: by the guard this is not `)` `(`, and the flag is false whatever the blanks
        have hnp : decide (t.render.head? = some 40 ∧ prev = 41) = false := by
          rcases hgd1 with h | h
          · exact h
          · exact absurd h hcf
        have := scan_gap input prev (t.render ++ renderFrom lay (i + 1) ts)
          (fun res => ∃ tok pnl s', res = .tok tok pnl s' ∧ tok.type = tokType t ∧
            s'.rest = renderFrom lay (i + 1) ts ∧ RestInv input s' ∧ pnl = false) true
          (by
            intro c' R' h
            rw [hr] at h
            simp only [List.cons_append, List.cons.injEq] at h
            rw [← h.1]
            exact (tokStart_of_not_blank c hcb).1)
          (by intro h; simp at h)
          (by
            intro bs s0 hall hI0 hs0
            obtain ⟨tok, pnl, s', h1, h2, _, _, h5, h6⟩ := scan_tok input prev t _ hTS bs hall s0 hI0 hs0
            have := scan_tok_pnl prev t _ hTS bs hall s0 hs0 tok pnl s' h1
            rw [hnp] at this
            exact ⟨tok, pnl, s', h1, h2, h5, h6, by simpa using this⟩)
          (lay i).length (lay i) (Nat.le_refl _) (fun x hx => ⟨hsw x hx, hGi x hx (hsw x hx)⟩) hends [] s (by simp) hI
          (by simpa using hs)
        obtain ⟨tok, pnl, s', h1, h2, h3, h4, h5⟩ := this
        exact ⟨tok, pnl, s', h1, h2, h3, h4, by rw [h5, hnp]; rfl⟩
    obtain ⟨tok, pnl, s', hsc, h1, h2, h3, h4⟩ := key
    have hnn := tokType_nonneg t
    obtain ⟨e1, _⟩ := lexAll_tok prev s s' tok pnl hsc (by omega)
    have ih' := ih (i + 1) (some t) tok.type s' (fun t' ht' => hT t' (List.mem_cons_of_mem _ ht'))
      (fun j h1 h2 => hG j (by omega) (by simp only [List.length_cons]; omega)) hrest (by rw [h1]; exact hgd2) h3 h2
    rw [e1]
    simp only [List.map_cons, pnlFrom]
    rw [ih', h4, h1]

/-! ### the witness of `C08-comment-hides-newline-before-paren`:  `)` LF `--c` LF `(` -/

def pnlWitnessToks : List RTok := [.sym [41], .sym [40]]

def pnlWitnessLayout : Layout := fun j => if j = 1 then [.blank 10, .short [99] (some 10)] else []

theorem pnlWitness_render : render pnlWitnessToks pnlWitnessLayout = [41, 10, 45, 45, 99, 10, 40] := by
  decide +kernel

/-- the scanner's flags on the witness: the `(` on line 3 behind the `)` on line 1 does not carry the flag. -/
theorem pnlWitness_flags :
    (lex (render pnlWitnessToks pnlWitnessLayout)).toks.map (fun p => p.2) = [false, false, false] := by
  rw [pnlWitness_render]
  -- first token `)`
  have hT1 : TokScan (.sym [41]) [10, 45, 45, 99, 10, 40] := tokScan_all _ (by decide +kernel) _ (by decide +kernel)
  obtain ⟨tok1, pnl1, s1, a1, a2, _, _, a5, a6⟩ := scan_tok [41, 10, 45, 45, 99, 10, 40] 0 (.sym [41]) _ hT1 []
    (by simp) (initSc [41, 10, 45, 45, 99, 10, 40]) (restInv_init _) rfl
  have p1 := scan_tok_pnl 0 (.sym [41]) _ hT1 [] (by simp) (initSc [41, 10, 45, 45, 99, 10, 40]) rfl tok1 pnl1 s1 a1
  have p1' : pnl1 = false := by rw [p1]; decide +kernel
  have ty1 : tok1.type = 41 := by rw [a2]; decide +kernel
  obtain ⟨e1, _⟩ := lexAll_tok 0 _ s1 tok1 pnl1 a1 (by omega)
  -- the gap: a line feed, then the comment `--c` with its line feed
  obtain ⟨h1, h2⟩ := skipBlanks_run [10] (by intro b hb; simp at hb; subst hb; unfold IsBlank; decide) 45
    [45, 99, 10, 40] (by unfold Plain; decide) (by decide) (by decide) s1 (by rw [a5]; rfl)
  have hp := peek_cons _ 45 _ h2
  obtain ⟨f1, f2, _⟩ := next_of_rest _ 45 _ h2 (by unfold Plain; decide)
  obtain ⟨body, hbody, hsc⟩ := commentScan_short [99] (some 10) (by decide +kernel) (by decide +kernel) [40]
    (by intro h; simp [Sep.openEnded] at h)
  have hb : body = [99, 10] := by
    simp only [Sep.render, List.cons.injEq, true_and] at hbody
    exact hbody.symm
  subst hb
  obtain ⟨s2, hk, hrest⟩ := hsc (next (skipBlanks s1).2.1).2 (by rw [f2]; rfl)
  have f1' : (next (skipBlanks s1).2.1).1 = 45 := by rw [f1]; rfl
  rw [← f1'] at hk
  have hrest' : s2.rest = [40] := by
    rcases hrest with h | ⟨b, r', hr, hb, _⟩
    · exact h
    · simp only [List.cons.injEq] at hr
      rcases hb with rfl | rfl <;> exact absurd hr.1 (by decide)
  have hI2 : RestInv [41, 10, 45, 45, 99, 10, 40] s2 :=
    reach_restInv _ (((skipBlanks_reach s1).trans (Reach.next _)).trans (skipComments_reach _ _ _ hk)) a6
  have hredo := scan_comment tok1.type s1 s2 ⟨by rw [h1]; rfl, by rw [hp]; rfl⟩ hk
  -- second token `(`: scanned from behind the comment, with no blank before it
  have hT2 : TokScan (.sym [40]) [] := tokScan_all _ (by decide +kernel) _ (by decide +kernel)
  obtain ⟨tok2, pnl2, s3, b1, b2, _, _, b5, b6⟩ := scan_tok [41, 10, 45, 45, 99, 10, 40] tok1.type (.sym [40]) _ hT2 []
    (by simp) s2 hI2 (by rw [hrest']; rfl)
  have p2 := scan_tok_pnl tok1.type (.sym [40]) _ hT2 [] (by simp) s2 (by rw [hrest']; rfl) tok2 pnl2 s3 b1
  have p2' : pnl2 = false := by rw [p2]; simp
  have ty2 : tok2.type = 40 := by rw [b2]; decide +kernel
  rw [← hredo] at b1
  obtain ⟨e2, _⟩ := lexAll_tok tok1.type s1 s3 tok2 pnl2 b1 (by omega)
  -- end of the text
  obtain ⟨tok3, pnl3, s4, c1, c2, _⟩ := scan_eof [41, 10, 45, 45, 99, 10, 40] tok2.type [] (by simp) s3 b6 b5
  have p3 := scan_eof_pnl tok2.type [] (by simp) s3 b5 tok3 pnl3 s4 c1
  obtain ⟨e3, _⟩ := lexAll_eof tok2.type s3 s4 tok3 pnl3 c1 (by omega)
  unfold lex
  rw [e1, e2, e3, p1', p2', p3]
  rfl

end GLua.Lexer
