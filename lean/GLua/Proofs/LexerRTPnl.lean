/-
  The `PNewLine` flag ("the `(` stands on a later line than the `)` before it": what the parser's "ambiguous syntax
  (function call x new statement)" test reads).

  Since the repair `fixes/C08-pnewline-through-comments.diff` `Scan` compares the scanner's line with the line of the
  previous token, so the flag is a function of the token stream itself (types and lines) — for every input — and on
  renderings it says whether a line terminator stands in the gap between `)` and `(`, blanks and comments alike.
-/
import GLua.Proofs.LexerRT
import GLua.Proofs.LexerRTLong
import GLua.Proofs.LexSpecRTStr

namespace GLua.Lexer
open GLua.Generated.Lexer
open GLua.LexSpec (Bytes)
open GLua.LexRender

/-! ### the flag of one `Scan` call, for every input -/

theorem reserved_ne_40 : ∀ p ∈ reservedWords, p.2 ≠ 40 := by decide

theorem lookupReserved_ne_40 (w : Bytes) (ty : Nat) (h : lookupReserved w = some ty) : (ty : Int) ≠ 40 := by
  unfold lookupReserved at h
  rw [Option.map_eq_some_iff] at h
  obtain ⟨p, hp, rfl⟩ := h
  have := reserved_ne_40 p (List.mem_of_find?_eq_some hp)
  omega

theorem scanDot_type (ch : Int) (s : Sc) (t : Token) (s' : Sc) (h : scanDot ch s = .ok (t, s')) : t.type ≠ 40 := by
  unfold scanDot at h
  repeat' split at h
  all_goals (try simp only [mkTok, Except.ok.injEq, Prod.mk.injEq, reduceCtorEq] at h)
  all_goals (try (obtain ⟨h1, _⟩ := h; rw [← h1]; simp only [TNumber, T3Comma, T2Comma]; omega))

theorem scanPunct_type (ch : Int) (s : Sc) (t : Token) (s' : Sc) (h : scanPunct ch s = .ok (t, s'))
    (e : t.type = 40) : ch = 40 := by
  unfold scanPunct at h
  repeat' split at h
  all_goals (try simp only [mkTok, Except.ok.injEq, Prod.mk.injEq, reduceCtorEq] at h)
  all_goals (try (obtain ⟨h1, _⟩ := h; rw [← h1] at e; simp only [TEqeq, TNeq, TLte, TGte, T2Colon] at e; omega))

/-- the token switch returns the token `(` exactly when it is entered with the character `(`. -/
theorem scanToken_type40 (ch : Int) (s : Sc) (t : Token) (s' : Sc) (h : scanToken ch s = .ok (t, s')) :
    t.type = 40 ↔ ch = 40 := by
  constructor
  · intro e
    unfold scanToken at h
    repeat' split at h
    all_goals (try simp only [mkTok, Except.ok.injEq, Prod.mk.injEq, reduceCtorEq] at h)
    all_goals first
      | exact absurd e (scanDot_type _ _ _ _ h)
      | exact scanPunct_type _ _ _ _ h e
      | (obtain ⟨h1, _⟩ := h; rw [← h1] at e; simp only at e
         first
           | exact absurd e (lookupReserved_ne_40 _ _ ‹_›)
           | (simp only [TIdent, TNumber, TString] at e; omega)
           | omega)
  · intro e
    subst e
    unfold scanToken at h
    simp [isIdent, isDecimal, scanPunct, mkTok] at h
    rw [← h.1]

/-- **the flag of one `Scan` call**: a function of the token, the previous token's type and the two lines. -/
theorem scan_pnl (prev : Prev) (s : Sc) (t : Token) (pnl : Bool) (s' : Sc) (h : scan prev s = .tok t pnl s') :
    pnl = decide (t.type = 40 ∧ prev.type = 41 ∧ t.line ≠ prev.line) := by
  fun_induction scan prev s
  · simp at h
  · rename_i ih; exact ih h
  · simp at h
  · rename_i s hc t' s'' hst
    simp only [ScanRes.tok.injEq] at h
    obtain ⟨h1, h2, _⟩ := h
    subst h1
    have h40 := scanToken_type40 _ _ _ _ hst
    obtain ⟨_, tl, _, _⟩ := scanToken_reach _ _ _ _ hst
    rw [← h2, tl]
    by_cases hc40 : (skipBlanks s).1 = 40 ∧ prev.type = 41
    · simp [hc40, h40.mpr hc40.1]
    · have : ¬ (t'.type = 40 ∧ prev.type = 41) := fun hh => hc40 ⟨h40.mp hh.1, hh.2⟩
      simp only [hc40, if_false]
      symm
      rw [decide_eq_false_iff_not]
      intro hh; exact this ⟨hh.1, hh.2.1⟩

/-- the flags of a whole stream follow from its types and lines. -/
def PnlOK : Prev → List (Token × Bool) → Prop
  | _, [] => True
  | prev, (t, pnl) :: rest =>
    pnl = decide (t.type = 40 ∧ prev.type = 41 ∧ t.line ≠ prev.line) ∧ PnlOK { type := t.type, line := t.line } rest

theorem lexAll_pnl (prev : Prev) (s : Sc) : PnlOK prev (lexAll prev s).toks := by
  fun_induction lexAll prev s
  · trivial
  · rename_i prev s t pnl s' hs ht
    exact ⟨scan_pnl prev s t pnl s' hs, trivial⟩
  · rename_i prev s t pnl s' hs ht r ih
    exact ⟨scan_pnl prev s t pnl s' hs, ih⟩

/-! ### on renderings -/

theorem tokType_41 (t : RTok) (hwf : t.wf = true) (h : tokType t = 41) : t.render = [41] := by
  cases t with
  | name w => simp [tokType, TIdent] at h
  | kw k =>
    have hk : k ∈ LexSpec.keywords := by simpa [RTok.wf] using hwf
    have : ∀ k ∈ LexSpec.keywords, (((reservedWords.lookup k).getD 0 : Nat) : Int) ≠ 41 := by decide +kernel
    exact absurd h (this k hk)
  | sym sp =>
    have hm : sp ∈ symbols := by simpa [RTok.wf] using hwf
    have : ∀ sp ∈ symbols, symType sp = 41 → sp = [41] := by decide +kernel
    simp only [RTok.render]
    exact this sp hm h
  | num n => simp [tokType, TNumber] at h
  | str q cs => simp [tokType, TString] at h
  | lstr l f c => simp [tokType, TString] at h

theorem lineEnds_pos_iff (g : Bytes) : lineEnds g ≠ 0 ↔ g.any LexSpec.isNewline = true := by
  induction g with
  | nil => simp [lineEnds_nil]
  | cons b r ih =>
    by_cases hb : LexSpec.isNewline b = true
    · rw [LexSpec.lineEnds_nl b r ((LexSpec.isNewline_iff' b).mp hb)]
      simp [hb]
    · have hb' : LexSpec.isNewline b = false := by simpa using hb
      rw [LexSpec.lineEnds_cons_plain b r hb']
      simp [hb', ih]

/-- from the expected types and lines of the stream to its flags. -/
theorem pnl_of_view (lay : Layout) : ∀ (toks : List RTok) (i k : Nat) (pre : Bytes) (prev : Prev)
    (L : List (Token × Bool)), (∀ t ∈ toks, t.wf = true) →
    L.map view = expectFrom lay i k toks → L.map (fun p => p.1.line) = linesFrom lay i pre toks →
    PnlOK prev L →
    (prev.type = 41 → ∃ P, pre = P ++ [41] ∧ prev.line = 1 + (lineEnds P : Int)) →
    L.map (fun p => p.2) = pnlFrom lay i prev.type toks := by
  intro toks
  induction toks with
  | nil =>
    intro i k pre prev L _ hv _ hok _
    simp only [expectFrom] at hv
    obtain ⟨p, L', rfl, hp, hL'⟩ := List.map_eq_cons_iff.mp hv
    simp only [List.map_eq_nil_iff] at hL'
    subst hL'
    have hty : p.1.type = -1 := by
      have := congrArg (fun e => e.1) hp; simpa [view] using this
    obtain ⟨pt, pnl⟩ := p
    simp only [PnlOK] at hok
    simp only [List.map_cons, List.map_nil, pnlFrom, hok.1]
    simp only at hty
    simp [hty]
  | cons t ts ih =>
    intro i k pre prev L hwf hv hl hok hprev
    simp only [expectFrom] at hv
    simp only [linesFrom] at hl
    obtain ⟨p, L', rfl, hp, hL'⟩ := List.map_eq_cons_iff.mp hv
    simp only [List.map_cons, List.cons.injEq] at hl
    obtain ⟨pt, pnl⟩ := p
    simp only [PnlOK] at hok
    have hty : pt.type = tokType t := by
      have := congrArg (fun e => e.1) hp; simpa [view] using this
    have hline : pt.line = 1 + (lineEnds (pre ++ renderSeps (lay i)) : Int) := hl.1
    simp only [List.map_cons, pnlFrom]
    have hrest := ih (i + 1) _ (pre ++ renderSeps (lay i) ++ t.render) { type := pt.type, line := pt.line } L'
      (fun t' ht' => hwf t' (List.mem_cons_of_mem _ ht')) hL' hl.2 hok.2
      (by
        intro h41
        simp only at h41
        rw [hty] at h41
        refine ⟨pre ++ renderSeps (lay i), by rw [tokType_41 t (hwf t (List.mem_cons_self ..)) h41], ?_⟩
        exact hline)
    simp only at hrest
    rw [hrest, hty]
    congr 1
    rw [hok.1, hty]
    by_cases hc : tokType t = 40 ∧ prev.type = 41
    · obtain ⟨P, hP, hPl⟩ := hprev hc.2
      have hle : lineEnds (pre ++ renderSeps (lay i)) = lineEnds P + lineEnds (renderSeps (lay i)) := by
        rw [hP, List.append_assoc,
          LexSpec.lineEnds_append ([41] ++ renderSeps (lay i)) (HeadNot.cons _ _ _ (by decide)) P.length P (Nat.le_refl _),
          List.singleton_append, LexSpec.lineEnds_cons_plain 41 _ (by decide)]
      have hne : (pt.line ≠ prev.line) ↔ (renderSeps (lay i)).any LexSpec.isNewline = true := by
        rw [hline, hPl, hle, ← lineEnds_pos_iff]
        constructor
        · intro h e; apply h; rw [e]; simp
        · intro h e; apply h; push_cast at e; omega
      simp only [hc.1, hc.2, true_and, and_self, decide_true, Bool.true_and]
      by_cases hany : (renderSeps (lay i)).any LexSpec.isNewline = true
      · rw [hany]; simp [hne.mpr hany]
      · have hany' : (renderSeps (lay i)).any LexSpec.isNewline = false := by simpa using hany
        rw [hany']
        simp only [decide_eq_false_iff_not]
        intro h; exact hany (hne.mp h)
    · have h1 : decide (tokType t = 40 ∧ prev.type = 41) = false := by simpa using hc
      rw [h1]
      simp only [Bool.false_and, decide_eq_false_iff_not]
      intro hh; exact hc ⟨hh.1, hh.2.1⟩

end GLua.Lexer
