/-
  The separators demanded by `WF` are necessary.

  `needSep a b` (Spec: the reference lexer's maximal munch) says that `a` and `b` written without a separator do not
  read as `a`, `b`.  The scanner agrees for every pair: the text `a.render ++ b.render` does not lex to the two
  tokens (since the repair of `C08-numeral-followed-by-letter` also behind numerals: `3b` is a lexical error).
-/
import GLua.Proofs.LexerRT
import GLua.Proofs.LexerRTLong
import GLua.Proofs.LexerNumLen

namespace GLua.Lexer
open GLua.Generated.Lexer
open GLua.LexSpec (Bytes)
open GLua.LexRender

theorem peek_eq_45 (s : Sc) (h : peek s = 45) : ∃ tl, s.rest = 45 :: tl := by
  cases hr : s.rest with
  | nil => rw [peek_nil s hr] at h; exact absurd h (by decide)
  | cons d tl =>
    rw [peek_cons s d tl hr] at h
    exact ⟨tl, by rw [toNat_eq_45 d h]⟩

/-- the first `Scan` on a text that starts with a token byte. -/
theorem lex_first (input : Bytes) (c : UInt8) (tail : Bytes) (hin : input = c :: tail)
    (hcb : LexSpec.isBlank c = false) (hnc : ¬ (c = 45 ∧ ∃ tl, tail = 45 :: tl)) :
    ∃ s1 : Sc, s1.rest = tail ∧
      (∀ e, scanToken (c.toNat : Int) s1 = .error e → (lex input).err = some e) ∧
      (∀ t s', scanToken (c.toNat : Int) s1 = .ok (t, s') → 0 ≤ t.type →
        ∃ pnl rest, (lex input).toks = (t, pnl) :: rest) := by
  obtain ⟨hpl, hw1, hw2⟩ := tokStart_of_not_blank c hcb
  obtain ⟨h1, h2⟩ := skipBlanks_run [] (by simp) c tail hpl hw1 hw2 (initSc input) (by rw [hin]; rfl)
  have hc : ¬ ((skipBlanks (initSc input)).1 = 45 ∧ peek (skipBlanks (initSc input)).2.1 = 45) := by
    rintro ⟨a1, a2⟩
    rw [h1] at a1
    obtain ⟨tl, htl⟩ := peek_eq_45 _ a2
    exact hnc ⟨toNat_eq_45 c a1, tl, by rw [← h2, htl]⟩
  refine ⟨(skipBlanks (initSc input)).2.1, h2, ?_, ?_⟩
  · intro e he
    rw [← h1] at he
    exact (lexAll_err {} _ e (scan_token_err {} _ e hc he)).2
  · intro t s' ht hty
    rw [← h1] at ht
    have := lexAll_tok {} _ s' t _ (scan_token {} _ s' t hc ht) (by omega)
    exact ⟨_, _, this.1⟩

/-! ### words swallow what follows -/

theorem identLoop_appends (buf : Buf) (s : Sc) : ∃ w2, (identLoop buf s).1 = buf ++ w2 := by
  fun_induction identLoop buf s
  · rename_i buf s h ih
    obtain ⟨w2, hw⟩ := ih
    exact ⟨byteOf (next s).1 :: w2, by rw [hw]; simp [writeChar]⟩
  · exact ⟨[], by simp⟩

theorem identLoop_prefix (w : Bytes) (r : Bytes) :
    ∀ (buf : Buf) (s : Sc), w.all LexSpec.isAlnum = true → s.rest = w ++ r →
      ∃ w2, (identLoop buf s).1 = buf ++ w ++ w2 := by
  induction w with
  | nil =>
    intro buf s _ _
    obtain ⟨w2, h⟩ := identLoop_appends buf s
    exact ⟨w2, by simpa using h⟩
  | cons b w' ih =>
    intro buf s hw hs
    simp only [List.all_cons, Bool.and_eq_true] at hw
    have hs' : s.rest = b :: (w' ++ r) := by rw [hs]; rfl
    have hp : isIdent (peek s) 1 = true := by rw [peek_cons s b _ hs', isIdent1_eq]; exact hw.1
    obtain ⟨e1, e2, _⟩ := next_of_rest s b _ hs' (alnum_plain b hw.1)
    obtain ⟨w2, h⟩ := ih (writeChar buf (next s).1) (next s).2 hw.2 e2
    refine ⟨w2, ?_⟩
    rw [identLoop]; simp only [hp, if_true]
    rw [h, e1]
    simp [writeChar, byteOf_toNat]

/-- a word directly followed by an alphanumeric byte: the identifier scanner returns a longer word. -/
theorem scanToken_word_longer (c : UInt8) (w' : Bytes) (d : UInt8) (rb : Bytes) (hc : LexSpec.isLetter c = true)
    (hw : w'.all LexSpec.isAlnum = true) (hd : LexSpec.isAlnum d = true) (s : Sc) (hs : s.rest = w' ++ d :: rb) :
    ∃ t s', scanToken (c.toNat : Int) s = .ok (t, s') ∧ 0 ≤ t.type ∧ (c :: w').length < t.str.length := by
  obtain ⟨w2, h⟩ := identLoop_prefix (w' ++ [d]) rb (writeChar [] (c.toNat : Int)) s
    (by simp [hw, hd]) (by rw [hs]; simp)
  have hb : (scanIdent (c.toNat : Int) [] s).1 = c :: (w' ++ [d] ++ w2) := by
    unfold scanIdent; rw [h]; simp [writeChar, byteOf_toNat]
  unfold scanToken
  rw [isIdent0_eq, hc]
  simp only [if_true]
  cases lookupReserved (scanIdent (c.toNat : Int) [] s).1 with
  | none =>
    refine ⟨_, _, rfl, by simp only [TIdent]; omega, ?_⟩
    simp only [hb]; simp
    try omega
  | some ty =>
    refine ⟨_, _, rfl, by simp only []; omega, ?_⟩
    simp only [hb]; simp
    try omega

/-! ### operators combine -/

theorem follow_sym_false (sp : Bytes) (d : UInt8) (rb : Bytes) (h : follow (.sym sp) (d :: rb) = false) :
    ((sp = [61] ∨ sp = [60] ∨ sp = [62]) ∧ d = 61) ∨ (sp = [58] ∧ d = 58) ∨
    (sp = [46] ∧ (d = 46 ∨ LexSpec.isDigit d = true)) ∨ (sp = [46, 46] ∧ d = 46) ∨ (sp = [45] ∧ d = 45) ∨
    (sp = [91] ∧ (d = 91 ∨ d = 61)) := by
  simp only [follow] at h
  split at h
  · rename_i h1; left; exact ⟨h1, by simpa using h⟩
  · split at h
    · rename_i h1; right; left; exact ⟨h1, by simpa using h⟩
    · split at h
      · rename_i h1; right; right; left
        refine ⟨h1, ?_⟩
        simp only [Bool.and_eq_false_iff, bne_eq_false_iff_eq, Bool.not_eq_false'] at h
        exact h
      · split at h
        · rename_i h1; right; right; right; left; exact ⟨h1, by simpa using h⟩
        · split at h
          · rename_i h1; right; right; right; right; left; exact ⟨h1, by simpa using h⟩
          · split at h
            · rename_i h1; right; right; right; right; right
              refine ⟨h1, ?_⟩
              simp only [Bool.and_eq_false_iff, bne_eq_false_iff_eq] at h
              exact h
            · exact absurd h (by decide)

/-- a token whose rendering starts with `-` is the minus sign. -/
theorem render_dash (b : RTok) (hb : b.wf = true) (rb : Bytes) (h : b.render = 45 :: rb) : b = .sym [45] := by
  cases b with
  | name w =>
    cases w with
    | nil => simp [RTok.wf] at hb
    | cons c w' =>
      simp only [RTok.render, List.cons.injEq] at h
      simp only [RTok.wf, Bool.and_eq_true] at hb
      rw [h.1] at hb
      exact absurd hb.1.1 (by decide)
  | kw k =>
    have hk : k ∈ LexSpec.keywords := by simpa [RTok.wf] using hb
    have : ∀ k ∈ LexSpec.keywords, k.toUTF8.toList.head? ≠ some 45 := by decide +kernel
    exact absurd (by rw [show k.toUTF8.toList = 45 :: rb from h]; rfl) (this k hk)
  | sym sp =>
    have hm : sp ∈ symbols := by simpa [RTok.wf] using hb
    simp only [RTok.render] at h
    subst h
    have : ∀ sp ∈ symbols, sp.head? = some 45 → sp = [45] := by decide +kernel
    rw [this _ hm rfl]
  | num n =>
    cases n with
    | dec ds =>
      simp only [RTok.render, Numeral.render] at h
      simp only [RTok.wf, Numeral.wf, Bool.and_eq_true] at hb
      rw [h] at hb
      simp only [List.all_cons, Bool.and_eq_true] at hb
      exact absurd hb.2.1 (by decide)
    | flt ip fp ex =>
      simp only [RTok.wf, Numeral.wf, Bool.and_eq_true] at hb
      simp only [RTok.render, Numeral.render] at h
      cases ip with
      | cons c ip' =>
        simp only [List.cons_append, List.cons.injEq] at h
        have := hb.1.1.1
        simp only [List.all_cons, Bool.and_eq_true] at this
        rw [h.1] at this
        exact absurd this.1 (by decide)
      | nil =>
        cases fp with
        | none => simp at hb
        | some f => simp at h
    | hex x hs => simp [RTok.render, Numeral.render] at h
  | str q cs =>
    simp only [RTok.render, List.cons.injEq] at h
    simp only [RTok.wf, Bool.and_eq_true, Bool.or_eq_true, beq_iff_eq] at hb
    rw [h.1] at hb
    exact absurd hb.1 (by decide)
  | lstr l f c => simp [RTok.render] at h

/-- the stream of two tokens and EOF. -/
def twoTokens (a b : RTok) : List (Int × Bytes) := [(tokType a, tokStr a), (tokType b, tokStr b), (-1, [])]

def lexTV (input : Bytes) : List (Int × Bytes) := (lex input).toks.map (fun p => (p.1.type, p.1.str))

theorem first_differs (input : Bytes) (a b : RTok) (t : Token) (pnl : Bool) (rest : List (Token × Bool))
    (h : (lex input).toks = (t, pnl) :: rest) (hd : t.type ≠ tokType a ∨ t.str ≠ tokStr a) :
    ¬ ((lex input).err = none ∧ lexTV input = twoTokens a b) := by
  rintro ⟨_, h2⟩
  simp only [lexTV, h, List.map_cons, twoTokens, List.cons.injEq, Prod.mk.injEq] at h2
  rcases hd with hd | hd
  · exact hd h2.1.1
  · exact hd h2.1.2

theorem err_differs (input : Bytes) (a b : RTok) (e : LexErr) (h : (lex input).err = some e) :
    ¬ ((lex input).err = none ∧ lexTV input = twoTokens a b) := by
  rintro ⟨h1, _⟩
  rw [h] at h1; simp at h1

theorem next_drop (s : Sc) : ∃ k, (next s).2.rest = s.rest.drop k := by
  cases hr : s.rest with
  | nil => exact ⟨0, by rw [(next_nil s hr).2.1]; rfl⟩
  | cons b r =>
    by_cases hnl : b = 10 ∨ b = 13
    · obtain ⟨_, e2⟩ := next_nl_exact s b r hr hnl
      rw [e2]
      cases r with
      | nil => exact ⟨1, rfl⟩
      | cons c r' =>
        simp only [nlRest]
        split
        · exact ⟨2, rfl⟩
        · exact ⟨1, rfl⟩
    · have hp : Plain b := ⟨fun h => hnl (Or.inl h), fun h => hnl (Or.inr h)⟩
      exact ⟨1, by rw [(next_of_rest s b r hr hp).2.1]; rfl⟩

theorem reach_drop {s s' : Sc} (h : Reach s s') : ∃ k, s'.rest = s.rest.drop k := by
  induction h with
  | refl => exact ⟨0, rfl⟩
  | step _ ih =>
    rename_i s0 s1 _
    obtain ⟨k, hk⟩ := ih
    obtain ⟨j, hj⟩ := next_drop s0
    exact ⟨j + k, by rw [hk, hj, List.drop_drop]⟩

/-- the first byte of a rendered numeral: a digit, or the dot of `.ddd`. -/
theorem num_first (n : Numeral) (hwf : (RTok.num n).wf = true) (c : UInt8) (tail : Bytes) (h : n.render = c :: tail) :
    LexSpec.isDigit c = true ∨ (c = 46 ∧ ∃ d0 t, tail = d0 :: t ∧ LexSpec.isDigit d0 = true) := by
  cases n with
  | dec ds =>
    simp only [RTok.wf, Numeral.wf, Bool.and_eq_true] at hwf
    simp only [Numeral.render] at h
    rw [h] at hwf
    simp only [List.all_cons, Bool.and_eq_true] at hwf
    exact Or.inl hwf.2.1
  | hex x hs =>
    simp only [Numeral.render, List.cons.injEq] at h
    rw [← h.1]; left; decide
  | flt ip fp ex =>
    simp only [RTok.wf, Numeral.wf, Bool.and_eq_true, Bool.or_eq_true, bne_iff_ne, ne_eq] at hwf
    obtain ⟨⟨⟨hip, hfp⟩, hne⟩, _⟩ := hwf
    cases ip with
    | cons c0 ip' =>
      simp only [Numeral.render, List.cons_append, List.cons.injEq] at h
      simp only [List.all_cons, Bool.and_eq_true] at hip
      rw [← h.1]; exact Or.inl hip.1
    | nil =>
      cases fp with
      | none => simp at hne
      | some f =>
        cases f with
        | nil => simp at hne
        | cons d0 f' =>
          simp only [Numeral.render, List.nil_append, List.cons_append, List.cons.injEq] at h
          have : (d0 :: f').all LexSpec.isDigit = true := hfp
          simp only [List.all_cons, Bool.and_eq_true] at this
          exact Or.inr ⟨h.1.symm, d0, _, h.2.symm, this.1⟩

/-- a numeral the reference lexer would extend over a following dot consists of digits and dots only. -/
theorem dotContinues_bytes (n : Numeral) (hwf : (RTok.num n).wf = true) (hd : n.dotContinues = true) :
    ∀ x ∈ n.render, x ≠ 101 ∧ x ≠ 69 ∧ x ≠ 120 ∧ x ≠ 88 := by
  have hdig : ∀ x : UInt8, (LexSpec.isDigit x = true ∨ x = 46) → x ≠ 101 ∧ x ≠ 69 ∧ x ≠ 120 ∧ x ≠ 88 := by
    intro x; revert x; apply forall_byte; decide +kernel
  cases n with
  | dec ds =>
    simp only [RTok.wf, Numeral.wf, Bool.and_eq_true] at hwf
    intro x hx
    rw [List.all_eq_true] at hwf
    exact hdig x (Or.inl (hwf.2 x hx))
  | hex x hs => simp [Numeral.dotContinues] at hd
  | flt ip fp ex =>
    cases ex with
    | some e => simp [Numeral.dotContinues] at hd
    | none =>
      simp only [RTok.wf, Numeral.wf, Bool.and_eq_true] at hwf
      obtain ⟨⟨⟨hip, hfp⟩, _⟩, _⟩ := hwf
      intro x hx
      simp only [Numeral.render, List.append_nil, List.mem_append] at hx
      rcases hx with hx | hx
      · rw [List.all_eq_true] at hip; exact hdig x (Or.inl (hip x hx))
      · cases fp with
        | none => simp at hx
        | some f =>
          simp only [List.mem_cons] at hx
          rcases hx with rfl | hx
          · exact hdig 46 (Or.inr rfl)
          · have : f.all LexSpec.isDigit = true := hfp
            rw [List.all_eq_true] at this; exact hdig x (Or.inl (this x hx))

/-- **the separators are necessary**. -/
theorem needSep_necessary (a b : RTok) (ha : a.wf = true) (hb : b.wf = true) (hn : needSep a b = true) :
    ¬ ((lex (a.render ++ b.render)).err = none ∧ lexTV (a.render ++ b.render) = twoTokens a b) := by
  obtain ⟨d, rb, hrb, _⟩ := tokScan_all b hb [] (follow_nil b)
  have hfol : follow a (d :: rb) = false := by
    simp only [needSep, Bool.not_eq_true'] at hn
    rw [← hrb]; exact hn
  rw [hrb]
  cases a with
  | num n =>
    obtain ⟨c, tail, hr, hcb, _⟩ := tokScan_all (.num n) ha [] (follow_nil _)
    have hrn : n.render = c :: tail := hr
    have hfd : LexSpec.isAlnum d = true ∨ (d = 46 ∧ n.dotContinues = true) := by
      simp only [follow, Bool.and_eq_false_iff, Bool.not_eq_false', Bool.and_eq_true, beq_iff_eq] at hfol
      exact hfol
    rw [hr]
    have hc45 : c ≠ 45 := by
      rcases num_first n ha c tail hrn with h | ⟨h, _⟩
      · exact digit_ne_minus c h
      · rw [h]; decide
    obtain ⟨s1, hs1, herr, hok⟩ := lex_first (c :: tail ++ d :: rb) c (tail ++ d :: rb) rfl hcb (fun h => hc45 h.1)
    -- the token switch goes to `scanNumber`
    have hst : ∀ res, scanNumber (c.toNat : Int) [] s1 = res →
        scanToken (c.toNat : Int) s1 = (match res with
          | .error e => .error e
          | .ok (bb, s') => mkTok s1 TNumber bb s') := by
      intro res hres
      rcases num_first n ha c tail hrn with h | ⟨h, d0, t, ht, hd0⟩
      · unfold scanToken
        rw [isIdent0_eq, (digit_facts c h).2.2.2.2.2.2.2.2, isDecimal_eq, h]
        simp only [Bool.false_eq_true, if_false, if_true, hres]
        cases res with
        | error e => rfl
        | ok p => rfl
      · subst h
        have hp : isDecimal (peek s1) = true := by
          rw [peek_cons s1 d0 _ (by rw [hs1, ht]; rfl), isDecimal_eq]; exact hd0
        have e46 : ((46 : UInt8).toNat : Int) = 46 := rfl
        rw [e46] at hres ⊢
        have : scanToken 46 s1 = scanDot 46 s1 := by simp [scanToken, isIdent, isDecimal]
        rw [this]
        unfold scanDot
        rw [hp]
        simp only [if_true, hres]
        cases res with
        | error e => rfl
        | ok p => rfl
    cases hres : scanNumber (c.toNat : Int) [] s1 with
    | error e => exact err_differs _ _ _ e (herr e (by rw [hst _ hres]))
    | ok p =>
      obtain ⟨bb, s'⟩ := p
      have hsc := hst _ hres
      simp only [] at hsc
      obtain ⟨pnl, rest, hh⟩ := hok _ s' hsc (by simp [TNumber])
      rintro ⟨_, h2⟩
      simp only [lexTV, hh, List.map_cons, twoTokens, List.cons.injEq, Prod.mk.injEq] at h2
      have hbb : bb = c :: tail := by
        have := h2.1.2
        simp only [tokStr] at this
        rw [← hrn]; exact this
      obtain ⟨hlen, hid, hdot⟩ := scanNumber_ok _ s1 bb s' hres
      obtain ⟨k, hk⟩ := reach_drop (scanNumber_reach _ _ _ _ _ hres)
      -- the scanner stopped right behind the numeral: in front of `d`
      have hrest : s'.rest = d :: rb := by
        rw [hbb, hs1] at hlen
        simp only [List.length_cons, List.length_append] at hlen
        rw [hs1] at hk
        have hkl : k = tail.length := by
          have := congrArg List.length hk
          simp only [List.length_drop, List.length_append, List.length_cons] at this
          omega
        rw [hk, hkl]
        simp
      have hpk := peek_cons s' d rb hrest
      rcases hfd with hal | ⟨hd46, hdc⟩
      · rw [hpk, isIdent1_eq, hal] at hid
        exact absurd hid (by decide)
      · have := hdot (by rw [hbb, ← hrn]; exact dotContinues_bytes n ha hdc)
        rw [hpk, hd46] at this
        exact this rfl
  | str q cs => simp [follow] at hfol
  | lstr l f c => simp [follow] at hfol
  | name w =>
    cases w with
    | nil => simp [RTok.wf] at ha
    | cons c w' =>
      simp only [RTok.wf, List.all_cons, Bool.and_eq_true] at ha
      obtain ⟨⟨hc, _, hw⟩, _⟩ := ha
      have hd : LexSpec.isAlnum d = true := by simpa [follow] using hfol
      obtain ⟨s1, hs1, _, hok⟩ := lex_first (c :: w' ++ d :: rb) c (w' ++ d :: rb) rfl (letter_not_blank c hc)
        (fun h => letter_ne_minus c hc h.1)
      obtain ⟨t, s', h1, h2, h3⟩ := scanToken_word_longer c w' d rb hc hw hd s1 hs1
      obtain ⟨pnl, rest, hh⟩ := hok t s' h1 h2
      exact first_differs _ _ _ t pnl rest hh (Or.inr (by
        intro e; rw [e] at h3; simp [tokStr] at h3))
  | kw k =>
    have hk : k ∈ LexSpec.keywords := by simpa [RTok.wf] using ha
    obtain ⟨h1, h2, _, _⟩ := keyword_facts k hk
    have hd : LexSpec.isAlnum d = true := by simpa [follow] using hfol
    cases hbs : k.toUTF8.toList with
    | nil => rw [hbs] at h1; simp at h1
    | cons c w' =>
      rw [hbs] at h1 h2
      simp only [List.all_cons, Bool.and_eq_true] at h2
      simp only at h1
      have hr : (RTok.kw k).render = c :: w' := by rw [RTok.render, hbs]
      rw [hr]
      obtain ⟨s1, hs1, _, hok⟩ := lex_first (c :: w' ++ d :: rb) c (w' ++ d :: rb) rfl (letter_not_blank c h1)
        (fun h => letter_ne_minus c h1 h.1)
      obtain ⟨t, s', g1, g2, g3⟩ := scanToken_word_longer c w' d rb h1 h2.2 hd s1 hs1
      obtain ⟨pnl, rest, hh⟩ := hok t s' g1 g2
      exact first_differs _ _ _ t pnl rest hh (Or.inr (by
        intro e; rw [e] at g3; simp only [tokStr] at g3; rw [hbs] at g3; simp at g3))
  | sym sp =>
    rcases follow_sym_false sp d rb hfol with ⟨hsp, rfl⟩ | ⟨rfl, rfl⟩ | ⟨rfl, hd⟩ | ⟨rfl, rfl⟩ | ⟨rfl, rfl⟩ | ⟨rfl, hd⟩
    · -- `=` `<` `>` followed by `=`
      obtain ⟨x, rfl, hx⟩ : ∃ x, sp = [x] ∧ (x = 61 ∨ x = 60 ∨ x = 62) := by
        rcases hsp with rfl | rfl | rfl
        · exact ⟨61, rfl, Or.inl rfl⟩
        · exact ⟨60, rfl, Or.inr (Or.inl rfl)⟩
        · exact ⟨62, rfl, Or.inr (Or.inr rfl)⟩
      obtain ⟨s1, hs1, _, hok⟩ := lex_first ([x] ++ 61 :: rb) x (61 :: rb) rfl
        (by rcases hx with rfl | rfl | rfl <;> decide) (fun h => by rcases hx with rfl | rfl | rfl <;> exact absurd h.1 (by decide))
      have hp := peek_cons s1 61 rb hs1
      have : ∃ t s', scanToken (x.toNat : Int) s1 = .ok (t, s') ∧ 0 ≤ t.type ∧ t.type ≠ symType [x] := by
        rcases hx with rfl | rfl | rfl
        all_goals simp at hp
        all_goals
          refine ⟨_, _, by simp [scanToken, scanPunct, isIdent, isDecimal, hp, mkTok]; exact ⟨rfl, rfl⟩, ?_, ?_⟩
        all_goals simp [symType, TEqeq, TLte, TGte]
      obtain ⟨t, s', g1, g2, g3⟩ := this
      obtain ⟨pnl, rest, hh⟩ := hok t s' g1 g2
      exact first_differs _ _ _ t pnl rest hh (Or.inl g3)
    · -- `:` `:`
      obtain ⟨s1, hs1, _, hok⟩ := lex_first ([58] ++ 58 :: rb) 58 (58 :: rb) rfl (by decide)
        (fun h => absurd h.1 (by decide))
      have hp := peek_cons s1 58 rb hs1
      simp at hp
      have : ∃ t s', scanToken ((58 : UInt8).toNat : Int) s1 = .ok (t, s') ∧ 0 ≤ t.type ∧ t.type ≠ symType [58] := by
        refine ⟨_, _, by simp [scanToken, scanPunct, isIdent, isDecimal, hp, mkTok]; exact ⟨rfl, rfl⟩, ?_, ?_⟩
        all_goals simp [symType, T2Colon]
      obtain ⟨t, s', g1, g2, g3⟩ := this
      obtain ⟨pnl, rest, hh⟩ := hok t s' g1 g2
      exact first_differs _ _ _ t pnl rest hh (Or.inl g3)
    · -- `.` followed by a dot or a digit
      obtain ⟨s1, hs1, herr, hok⟩ := lex_first ([46] ++ d :: rb) 46 (d :: rb) rfl (by decide)
        (fun h => absurd h.1 (by decide))
      have hp := peek_cons s1 d rb hs1
      have hst : scanToken ((46 : UInt8).toNat : Int) s1 = scanDot 46 s1 := by
        simp [scanToken, isIdent, isDecimal]
      rcases hd with rfl | hd
      · simp at hp
        have : ∃ t s', scanDot 46 s1 = .ok (t, s') ∧ 0 ≤ t.type ∧ t.type ≠ symType [46] := by
          unfold scanDot
          rw [hp]
          simp only [show isDecimal 46 = false from by decide, Bool.false_eq_true, if_false, if_true]
          split
          · exact ⟨_, _, rfl, by simp [T3Comma], by simp [symType, T3Comma]⟩
          · exact ⟨_, _, rfl, by simp [T2Comma], by simp [symType, T2Comma]⟩
        obtain ⟨t, s', g1, g2, g3⟩ := this
        obtain ⟨pnl, rest, hh⟩ := hok t s' (by rw [hst]; exact g1) g2
        exact first_differs _ _ _ t pnl rest hh (Or.inl g3)
      · have hdec : isDecimal (peek s1) = true := by rw [hp, isDecimal_eq]; exact hd
        cases hnumr : scanNumber 46 [] s1 with
        | error e =>
          have : scanDot 46 s1 = .error e := by
            unfold scanDot; rw [hdec]; simp only [if_true]; rw [hnumr]
          exact err_differs _ _ _ e (herr e (by rw [hst]; exact this))
        | ok r =>
          obtain ⟨bb, s'⟩ := r
          have : scanDot 46 s1 = mkTok s1 TNumber bb s' := by
            unfold scanDot; rw [hdec]; simp only [if_true]; rw [hnumr]
          obtain ⟨pnl, rest, hh⟩ := hok _ s' (by rw [hst]; exact this) (by simp [TNumber])
          exact first_differs _ _ _ _ pnl rest hh (Or.inl (by simp [tokType, symType, TNumber]))
    · -- `..` followed by a dot
      obtain ⟨s1, hs1, _, hok⟩ := lex_first ([46, 46] ++ 46 :: rb) 46 (46 :: 46 :: rb) rfl (by decide)
        (fun h => absurd h.1 (by decide))
      obtain ⟨g1, _⟩ := scanToken_sym3 rb s1 hs1
      obtain ⟨pnl, rest, hh⟩ := hok _ _ g1 (by simp [symType, T3Comma])
      exact first_differs _ _ _ _ pnl rest hh (Or.inl (by simp [tokType, symType, T3Comma, T2Comma]))
    · -- `-` `-`: a comment; the text is `--`
      have hb' := render_dash b hb rb hrb
      subst hb'
      simp only [RTok.render, List.cons.injEq, true_and] at hrb
      subst hrb
      show ¬ ((lex ([45] ++ [45])).err = none ∧ lexTV ([45] ++ [45]) = twoTokens (.sym [45]) (.sym [45]))
      rintro ⟨_, h2⟩
      -- `--` is the rendering of the empty token list with one unterminated comment
      have hw : wfFrom (fun _ => [Sep.short [] none]) 0 none [] = true := by decide +kernel
      have := lexAll_render ([45] ++ [45]) (fun _ => [Sep.short [] none]) [] 0 none {} (initSc ([45] ++ [45]))
        (by intro t ht; simp at ht)
        (by
          intro j _ _ x hx hxw hc r hr
          simp only [List.mem_singleton] at hx
          subst hx
          exact commentScan_all _ hxw hc r hr)
        hw (restInv_init _) rfl
      have hlen := congrArg List.length this.2.1
      have hlen2 := congrArg List.length h2
      simp only [lexTV, lex, List.length_map, twoTokens, List.length_cons, List.length_nil] at hlen2
      simp only [List.length_map, expectFrom, List.length_cons, List.length_nil] at hlen
      omega
    · -- `[` followed by `[` or `=`: a long bracket
      obtain ⟨s1, hs1, herr, hok⟩ := lex_first ([91] ++ d :: rb) 91 (d :: rb) rfl (by decide)
        (fun h => absurd h.1 (by decide))
      have hp : peek s1 = 91 ∨ peek s1 = 61 := by
        rw [peek_cons s1 d rb hs1]
        rcases hd with rfl | rfl
        · left; rfl
        · right; rfl
      cases hml : scanMultilineString (next s1).1 [] (next s1).2 with
      | error e =>
        have : scanToken ((91 : UInt8).toNat : Int) s1 = .error e := by
          have e91 : ((91 : UInt8).toNat : Int) = 91 := rfl
          rw [e91]; unfold scanToken; simp [isIdent, isDecimal, hp, hml]
        exact err_differs _ _ _ e (herr e this)
      | ok r =>
        obtain ⟨bb, s'⟩ := r
        have e91 : ((91 : UInt8).toNat : Int) = 91 := rfl
        obtain ⟨pnl, rest, hh⟩ := hok _ s' (by rw [e91]; exact scanToken_bracket s1 bb s' hp hml) (by simp [TString])
        exact first_differs _ _ _ _ pnl rest hh (Or.inl (by simp [tokType, symType, TString]))

/-! ### `3b` (the former witness of `C08-numeral-followed-by-letter`) -/

/-- `3b` is one malformed number: a lexical error, as in Lua 5.1. -/
theorem lex_3b_rejected : (lex ([51] ++ [98])).err ≠ none := by
  intro h
  have hn := needSep_necessary (.num (.dec [51])) (.name [98]) (by decide +kernel) (by decide +kernel) (by decide +kernel)
  -- if there is no error, the stream is not `3`, `b` — but it is not anything else either: we only need the error
  obtain ⟨s1, hs1, herr, hok⟩ := lex_first ([51] ++ [98]) 51 [98] rfl (by decide) (fun h => absurd h.1 (by decide))
  have hst : scanToken ((51 : UInt8).toNat : Int) s1 = (match scanNumber 51 [] s1 with
      | .error e => .error e
      | .ok (bb, s') => mkTok s1 TNumber bb s') := by
    have e51 : ((51 : UInt8).toNat : Int) = 51 := rfl
    rw [e51]
    unfold scanToken
    rw [show isIdent 51 0 = false from by decide, show isDecimal 51 = true from by decide]
    simp only [Bool.false_eq_true, if_false, if_true]
    cases scanNumber 51 [] s1 with
    | error e => rfl
    | ok p => rfl
  cases hres : scanNumber 51 [] s1 with
  | error e =>
    rw [hres] at hst
    rw [herr e hst] at h
    simp at h
  | ok p =>
    obtain ⟨bb, s'⟩ := p
    obtain ⟨hlen, hid, _⟩ := scanNumber_ok _ s1 bb s' hres
    obtain ⟨k, hk⟩ := reach_drop (scanNumber_reach _ _ _ _ _ hres)
    rw [hs1] at hk hlen
    -- whatever was consumed, what is left starts with an alphanumeric byte or is empty; `b` was not consumed …
    have : s'.rest = [98] ∨ s'.rest = [] := by
      match k, hk with
      | 0, hk => left; simpa using hk
      | k + 1, hk => right; simpa using hk
    rcases this with hr | hr
    · rw [peek_cons s' 98 [] hr] at hid
      exact absurd hid (by decide)
    · -- … and if it was, the buffer has two bytes, which `scanNumber` never returns for `3b`: the digit loop
      -- stops at `b`
      rw [hr] at hlen
      simp only [List.length_nil, List.length_cons, Nat.add_zero] at hlen
      -- follow the code: decimal loop stops at once, no fraction, no exponent, `numeralEnd` sees `b`
      have hp0 := peek_cons s1 98 [] hs1
      have hdl : decimalLoop (writeChar [] 51) s1 = (writeChar [] 51, s1) := by
        rw [decimalLoop]
        rw [if_neg (by rw [hp0]; decide)]
      have hfrac : scanNumberFrac 51 [] s1 = (writeChar [] 51, s1) := by
        unfold scanNumberFrac scanDecimal
        rw [hdl]
        simp only []
        rw [if_neg (by rw [hp0]; intro h; exact absurd h.2 (by decide))]
      unfold scanNumber at hres
      rw [if_neg (by intro h; exact absurd h.1 (by decide))] at hres
      unfold scanNumberTail at hres
      rw [hfrac] at hres
      simp only [] at hres
      rw [if_neg (by rw [hp0]; decide)] at hres
      unfold numeralEnd at hres
      rw [if_neg (by rw [hp0]; decide)] at hres
      simp at hres

end GLua.Lexer
