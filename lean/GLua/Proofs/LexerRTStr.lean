/-
  Round trip, part 3: quoted strings, character by character (raw bytes, the escape table, `\ddd`, backslash-line end).
-/
import GLua.Proofs.LexerRTTok

namespace GLua.Lexer
open GLua.Generated.Lexer
open GLua.LexSpec (Bytes)
open GLua.LexRender

/-! ### `Next` on a line terminator, exactly -/

/-- the unread input after `Next` has read the line terminator `b` in front of `t`: the other terminator byte goes
    with it. -/
def nlRest (b : UInt8) (t : Bytes) : Bytes :=
  match t with
  | c :: t' => if (b = 10 ∧ c = 13) ∨ (b = 13 ∧ c = 10) then t' else c :: t'
  | [] => []

theorem next_nl_exact (s : Sc) (b : UInt8) (t : Bytes) (hs : s.rest = b :: t) (hb : b = 10 ∨ b = 13) :
    (next s).1 = 10 ∧ (next s).2.rest = nlRest b t := by
  obtain ⟨rest, line, col, off⟩ := s
  simp only at hs; subst hs
  have hnl : ((b.toNat : Int) = 10 ∨ (b.toNat : Int) = 13) := by
    rcases hb with rfl | rfl
    · left; rfl
    · right; rfl
  have hnn : ¬ ((b.toNat : Int) < 0) := by omega
  simp only [next, readNext, hnl, if_true, newline, hnn, if_false, peek, true_and]
  cases t with
  | nil =>
    simp only [show ¬ (((b.toNat : Int) = 10 ∧ (-1 : Int) = 13) ∨ ((b.toNat : Int) = 13 ∧ (-1 : Int) = 10)) by omega,
      if_false, nlRest]
  | cons c t' =>
    have e10 := byte_eq_iff b 10 (by decide)
    have e13 := byte_eq_iff b 13 (by decide)
    have c10 := byte_eq_iff c 10 (by decide)
    have c13 := byte_eq_iff c 13 (by decide)
    by_cases hp : (((b.toNat : Int) = 10 ∧ (c.toNat : Int) = 13) ∨ ((b.toNat : Int) = 13 ∧ (c.toNat : Int) = 10))
    · have hp' : (b = 10 ∧ c = 13) ∨ (b = 13 ∧ c = 10) := by
        rcases hp with ⟨x, y⟩ | ⟨x, y⟩
        · left; exact ⟨e10.mp x, c13.mp y⟩
        · right; exact ⟨e13.mp x, c10.mp y⟩
      simp only [hp, if_true, nlRest, hp']
    · have hp' : ¬ ((b = 10 ∧ c = 13) ∨ (b = 13 ∧ c = 10)) := by
        intro hh
        apply hp
        rcases hh with ⟨x, y⟩ | ⟨x, y⟩
        · left; exact ⟨e10.mpr x, c13.mpr y⟩
        · right; exact ⟨e13.mpr x, c10.mpr y⟩
      simp only [hp, if_false, nlRest, hp']

theorem nlRest_of_headNot (b : UInt8) (t : Bytes) (ht : HeadNot LexSpec.isNewline t) : nlRest b t = t := by
  cases t with
  | nil => rfl
  | cons c t' =>
    have hc := ht c t' rfl
    have : ¬ ((b = 10 ∧ c = 13) ∨ (b = 13 ∧ c = 10)) := by
      intro h
      rcases h with ⟨_, rfl⟩ | ⟨_, rfl⟩ <;> simp [LexSpec.isNewline] at hc
    simp only [nlRest, this, if_false]

/-! ### unfolding `stringLoop` -/

theorem stringLoop_quote (q : Int) (buf : Buf) (s : Sc) : stringLoop q q buf s = .ok (buf, s) := by
  rw [stringLoop]; simp

theorem stringLoop_plain (q ch : Int) (buf : Buf) (s : Sc) (hq : ¬ ch = q) (hnl : ¬ (ch = 10 ∨ ch = 13 ∨ ch < 0))
    (h92 : ¬ ch = 92) : stringLoop q ch buf s = stringLoop q (next s).1 (writeChar buf ch) (next s).2 := by
  rw [stringLoop]; simp only [hq, hnl, h92, if_false]

theorem stringLoop_esc (q : Int) (buf : Buf) (s : Sc) (r : Buf × Sc) (hq : ¬ (92 : Int) = q)
    (h : scanEscape buf s = .ok r) :
    stringLoop q 92 buf s = stringLoop q (next r.2).1 r.1 (next r.2).2 := by
  rw [stringLoop]
  simp only [hq, if_false, show ¬ ((92 : Int) = 10 ∨ (92 : Int) = 13 ∨ (92 : Int) < 0) by decide, if_true]
  split
  · rename_i e he; rw [h] at he; simp at he
  · rename_i r' he; rw [h] at he; simp only [Except.ok.injEq] at he; rw [he]

/-! ### one spelled character -/

theorem escapes_table (c : UInt8) : escapes.any (fun p => p.1 == c) = true → (c, escapeValue c) ∈ escapeTable := by
  revert c; apply forall_byte; decide +kernel

theorem dec_digits (b : UInt8) :
    IsDig (48 + b / 100) ∧ IsDig (48 + b / 10 % 10) ∧ IsDig (48 + b % 10) ∧
    ((48 + b / 100).toNat - 48) * 100 + ((48 + b / 10 % 10).toNat - 48) * 10 + ((48 + b % 10).toNat - 48) = b.toNat := by
  revert b; apply forall_byte; unfold IsDig; decide +kernel

/-- a raw byte of a quoted string is neither a line terminator, nor the quote, nor the backslash. -/
theorem raw_facts (q b : UInt8) (h : (SChar.raw b).wf q = true) : Plain b ∧ b ≠ q ∧ b ≠ 92 := by
  simp only [SChar.wf, Bool.and_eq_true, bne_iff_ne, ne_eq] at h
  exact ⟨⟨h.1.2, h.2⟩, h.1.1.1, h.1.1.2⟩

/-- the first byte of a rendered string character is no line terminator (so a preceding backslash-CR or
    backslash-LF does not pair with it). -/
theorem schar_head (q : UInt8) (hq : q = 34 ∨ q = 39) (cs : List SChar) (hcs : ∀ c ∈ cs, c.wf q = true) (r : Bytes) :
    HeadNot LexSpec.isNewline (cs.flatMap SChar.render ++ q :: r) := by
  cases cs with
  | nil =>
    simp only [List.flatMap_nil, List.nil_append]
    apply HeadNot.cons
    rcases hq with rfl | rfl <;> decide
  | cons c cs' =>
    have hc := hcs c (List.mem_cons_self ..)
    cases c with
    | raw b =>
      obtain ⟨⟨h1, h2⟩, _⟩ := raw_facts q b hc
      simp only [List.flatMap_cons, SChar.render, List.cons_append, List.nil_append]
      apply HeadNot.cons
      simp [LexSpec.isNewline, h1, h2]
    | esc c => simp only [List.flatMap_cons, SChar.render, List.cons_append]; exact HeadNot.cons _ _ _ (by decide)
    | dec b => simp only [List.flatMap_cons, SChar.render, List.cons_append]; exact HeadNot.cons _ _ _ (by decide)
    | dec1 b => simp only [List.flatMap_cons, SChar.render, List.cons_append]; exact HeadNot.cons _ _ _ (by decide)
    | dec2 b => simp only [List.flatMap_cons, SChar.render, List.cons_append]; exact HeadNot.cons _ _ _ (by decide)
    | nl e => simp only [List.flatMap_cons, SChar.render, List.cons_append]; exact HeadNot.cons _ _ _ (by decide)

/-- a three-digit decimal escape with value ≤ 255 (Props: `decimal_escape_denotes`). -/
theorem decimal_escape_ok (d1 d2 d3 : UInt8) (h1 : IsDig d1) (h2 : IsDig d2) (h3 : IsDig d3)
    (hv : (d1.toNat - 48) * 100 + (d2.toNat - 48) * 10 + (d3.toNat - 48) ≤ 255)
    (buf : Buf) (r : List UInt8) (line col : Int) (off : Nat) :
    scanEscape buf { rest := d1 :: d2 :: d3 :: r, line := line, col := col, off := off } =
      .ok (buf ++ [UInt8.ofNat ((d1.toNat - 48) * 100 + (d2.toNat - 48) * 10 + (d3.toNat - 48))],
           { rest := r, line := line, col := col + 1 + 1 + 1, off := off + 1 + 1 + 1 }) := by
  have ht := escTooLarge3 d1 d2 d3 h1 h2 h3 r line col off
  have hn : ¬ ((d1.toNat - 48) * 100 + (d2.toNat - 48) * 10 + (d3.toNat - 48) > 255) := by omega
  unfold scanEscape
  rw [ht]
  simp only [hn, decide_false, Bool.false_eq_true, if_false]
  rw [decimal_escape3 d1 d2 d3 h1 h2 h3]
  simp only [byteOf]
  congr 5
  omega

theorem scanToken_quote (q : Int) (hq : q = 34 ∨ q = 39) (s : Sc) (b : Buf) (s' : Sc)
    (h : scanString q [] s = .ok (b, s')) : scanToken q s = mkTok s TString b s' := by
  rcases hq with rfl | rfl <;> (unfold scanToken; simp [isIdent, isDecimal, h])

/-- the escape scanner on a backslash-line end. -/
theorem scanEscape_nl (buf : Buf) (s : Sc) (b : UInt8) (t : Bytes) (hs : s.rest = b :: t) (hb : b = 10 ∨ b = 13) :
    ∃ s', scanEscape buf s = .ok (buf ++ [10], s') ∧ s'.rest = nlRest b t := by
  obtain ⟨e1, e2⟩ := next_nl_exact s b t hs hb
  refine ⟨(next s).2, ?_, e2⟩
  have hnot : escTooLarge s = false := by
    unfold escTooLarge; rw [e1]; rfl
  unfold scanEscape
  rw [hnot]
  simp only [Bool.false_eq_true, if_false]
  unfold scanEscapeCore
  simp only [e1]
  simp

theorem scanEscape_of_rest (buf : Buf) (s : Sc) (bs : Bytes) (hs : s.rest = bs) :
    scanEscape buf s = scanEscape buf { rest := bs, line := s.line, col := s.col, off := s.off } := by
  obtain ⟨rest, line, col, off⟩ := s
  simp only at hs; subst hs; rfl

theorem scharsWf_all (q : UInt8) : ∀ cs : List SChar, scharsWf q cs = true → ∀ c ∈ cs, c.wf q = true := by
  intro cs
  induction cs with
  | nil => intro _ c hc; simp at hc
  | cons c cs' ih =>
    intro h x hx
    simp only [scharsWf, Bool.and_eq_true] at h
    simp only [List.mem_cons] at hx
    rcases hx with rfl | hx
    · exact h.1.1
    · exact ih h.2 x hx

theorem scharsWf_of_all (q : UInt8) : ∀ cs : List SChar, (∀ c ∈ cs, c.wf q = true ∧ c.shortDec = false) →
    scharsWf q cs = true := by
  intro cs
  induction cs with
  | nil => intro _; rfl
  | cons c cs' ih =>
    intro h
    obtain ⟨h1, h2⟩ := h c (List.mem_cons_self ..)
    simp only [scharsWf, Bool.and_eq_true, h1, h2, Bool.false_and, Bool.not_false, true_and]
    exact ih (fun x hx => h x (List.mem_cons_of_mem _ hx))

/-- behind a short decimal escape: the next rendered byte is no digit. -/
theorem schar_head_digit (q : UInt8) (hq : q = 34 ∨ q = 39) (cs : List SChar) (r : Bytes)
    (h : headStartsWithDigit cs = false) :
    HeadNot LexSpec.isDigit (cs.flatMap SChar.render ++ q :: r) := by
  cases cs with
  | nil =>
    simp only [List.flatMap_nil, List.nil_append]
    apply HeadNot.cons
    rcases hq with rfl | rfl <;> decide
  | cons c cs' =>
    simp only [headStartsWithDigit] at h
    cases c with
    | raw b =>
      simp only [List.flatMap_cons, SChar.render, List.cons_append, List.nil_append]
      exact HeadNot.cons _ _ _ (by simpa [SChar.startsWithDigit] using h)
    | esc c => simp only [List.flatMap_cons, SChar.render, List.cons_append]; exact HeadNot.cons _ _ _ (by decide)
    | dec b => simp only [List.flatMap_cons, SChar.render, List.cons_append]; exact HeadNot.cons _ _ _ (by decide)
    | dec1 b => simp only [List.flatMap_cons, SChar.render, List.cons_append]; exact HeadNot.cons _ _ _ (by decide)
    | dec2 b => simp only [List.flatMap_cons, SChar.render, List.cons_append]; exact HeadNot.cons _ _ _ (by decide)
    | nl e => simp only [List.flatMap_cons, SChar.render, List.cons_append]; exact HeadNot.cons _ _ _ (by decide)

/-- the digit loop of a decimal escape: over at most `i` digits, stopped by the count or by a non-digit. -/
theorem escDigits_run (r : Bytes) : ∀ (i : Nat) (ds : Bytes) (val : Nat) (s : Sc),
    ds.all LexSpec.isDigit = true → ds.length ≤ i → (ds.length = i ∨ HeadNot LexSpec.isDigit r) →
    s.rest = ds ++ r →
    (escDigits i val s).1 = ds.foldl (fun a d => a * 10 + (d.toNat - 48)) val ∧ (escDigits i val s).2.rest = r := by
  intro i
  induction i with
  | zero =>
    intro ds val s _ hl _ hs
    have : ds = [] := List.eq_nil_of_length_eq_zero (by omega)
    subst this
    exact ⟨rfl, by simpa [escDigits] using hs⟩
  | succ i ih =>
    intro ds val s hd hl hstop hs
    cases ds with
    | nil =>
      have hr : HeadNot LexSpec.isDigit r := by
        rcases hstop with h | h
        · simp at h
        · exact h
      have hp : isDecimal (peek s) = false :=
        peek_headNot LexSpec.isDigit isDecimal isDecimal_eq (by decide) r hr s (by simpa using hs)
      unfold escDigits
      simp only [hp, Bool.false_eq_true, if_false, List.foldl_nil]
      exact ⟨trivial, by simpa using hs⟩
    | cons d ds' =>
      simp only [List.all_cons, Bool.and_eq_true] at hd
      simp only [List.length_cons] at hl hstop
      have hs' : s.rest = d :: (ds' ++ r) := by rw [hs]; rfl
      have hp : isDecimal (peek s) = true := by rw [peek_cons s d _ hs', isDecimal_eq]; exact hd.1
      obtain ⟨e1, e2, _⟩ := next_of_rest s d _ hs' (alnum_plain d (digit_alnum d hd.1))
      obtain ⟨i1, i2⟩ := ih ds' (val * 10 + ((next s).1 - 48).toNat) (next s).2 hd.2 (by omega)
        (by rcases hstop with h | h; left; omega; right; exact h) e2
      unfold escDigits
      simp only [hp, if_true]
      rw [i1, i2, e1]
      refine ⟨?_, rfl⟩
      simp only [List.foldl_cons]
      congr 1
      omega

theorem digit_not_escape (d : UInt8) : LexSpec.isDigit d = true →
    d ≠ 97 ∧ d ≠ 98 ∧ d ≠ 102 ∧ d ≠ 110 ∧ d ≠ 114 ∧ d ≠ 116 ∧ d ≠ 118 ∧ d ≠ 92 ∧ d ≠ 34 ∧ d ≠ 39 ∧ d ≠ 10 ∧
      48 ≤ d.toNat ∧ d.toNat ≤ 57 := by
  revert d; apply forall_byte; decide +kernel

/-- a decimal escape of one to three digits with value ≤ 255 (fewer than three digits: no digit follows). -/
theorem scanEscape_decimal (d : UInt8) (ds : Bytes) (r : Bytes) (hd : LexSpec.isDigit d = true)
    (hds : ds.all LexSpec.isDigit = true) (hl : ds.length ≤ 2) (hstop : ds.length = 2 ∨ HeadNot LexSpec.isDigit r)
    (hv : ds.foldl (fun a x => a * 10 + (x.toNat - 48)) (d.toNat - 48) ≤ 255) (buf : Buf) (s : Sc)
    (hs : s.rest = d :: (ds ++ r)) :
    ∃ s', scanEscape buf s =
        .ok (buf ++ [UInt8.ofNat (ds.foldl (fun a x => a * 10 + (x.toNat - 48)) (d.toNat - 48))], s') ∧
      s'.rest = r := by
  obtain ⟨n1, n2, n3, n4, n5, n6, n7, n8, n9, n10, n11, lo, hi⟩ := digit_not_escape d hd
  obtain ⟨e1, e2, _⟩ := next_of_rest s d _ hs (alnum_plain d (digit_alnum d hd))
  have hval : ((next s).1 - 48).toNat = d.toNat - 48 := by rw [e1]; omega
  obtain ⟨g1, g2⟩ := escDigits_run r 2 ds ((next s).1 - 48).toNat (next s).2 hds hl hstop e2
  rw [hval] at g1
  have hnot : escTooLarge s = false := by
    unfold escTooLarge
    rw [hval, g1]
    have : ¬ (ds.foldl (fun a x => a * 10 + (x.toNat - 48)) (d.toNat - 48) > 255) := by omega
    simp [this]
  refine ⟨(escDigits 2 ((next s).1 - 48).toNat (next s).2).2, ?_, g2⟩
  unfold scanEscape
  rw [hnot]
  simp only [Bool.false_eq_true, if_false]
  unfold scanEscapeCore
  simp only []
  have hne : ∀ (k : UInt8) (kk : Int), (k.toNat : Int) = kk → d ≠ k → ¬ ((next s).1 = kk) := by
    intro k kk hk hdk; rw [e1, ← hk]; exact int_ne_of_ne d k hdk
  rw [if_neg (hne 97 97 rfl n1), if_neg (hne 98 98 rfl n2), if_neg (hne 102 102 rfl n3),
    if_neg (hne 110 110 rfl n4), if_neg (hne 114 114 rfl n5), if_neg (hne 116 116 rfl n6),
    if_neg (hne 118 118 rfl n7), if_neg (hne 92 92 rfl n8), if_neg (hne 34 34 rfl n9), if_neg (hne 39 39 rfl n10),
    if_neg (hne 10 10 rfl n11), if_pos (by rw [e1]; omega)]
  rw [hval, g1]
  simp only [writeChar, byteOf]
  generalize ds.foldl (fun a x => a * 10 + (x.toNat - 48)) (d.toNat - 48) = n at hv ⊢
  have : ((n : Int) % 256).toNat = n := by omega
  rw [this]

theorem dec1_digits (b : UInt8) : b < 10 → LexSpec.isDigit (48 + b) = true ∧ (48 + b).toNat - 48 = b.toNat := by
  revert b; apply forall_byte; decide +kernel

theorem dec2_digits (b : UInt8) : b < 100 →
    LexSpec.isDigit (48 + b / 10) = true ∧ LexSpec.isDigit (48 + b % 10) = true ∧
    ((48 + b / 10).toNat - 48) * 10 + ((48 + b % 10).toNat - 48) = b.toNat := by
  revert b; apply forall_byte; decide +kernel

/-- the loop of `scanString` over the spelled characters up to the closing quote. -/
theorem stringLoop_run (q : UInt8) (hq : q = 34 ∨ q = 39) (r : Bytes) :
    ∀ (cs : List SChar) (buf : Buf) (s : Sc), scharsWf q cs = true →
      s.rest = cs.flatMap SChar.render ++ q :: r →
      ∃ s', stringLoop (q.toNat : Int) (next s).1 buf (next s).2 = .ok (buf ++ cs.map SChar.denote, s') ∧
        s'.rest = r := by
  have hqpl : Plain q := by rcases hq with rfl | rfl <;> (unfold Plain; decide)
  have hq92 : ¬ (92 : Int) = (q.toNat : Int) := by rcases hq with rfl | rfl <;> decide
  intro cs
  induction cs with
  | nil =>
    intro buf s _ hs
    simp only [List.flatMap_nil, List.nil_append] at hs
    obtain ⟨e1, e2, _⟩ := next_of_rest s q r hs hqpl
    exact ⟨(next s).2, by rw [e1, stringLoop_quote]; simp, e2⟩
  | cons c cs' ih =>
    intro buf s hwf hs
    simp only [scharsWf, Bool.and_eq_true, Bool.not_eq_true', Bool.and_eq_false_iff] at hwf
    obtain ⟨⟨hc, hnd⟩, hwf'⟩ := hwf
    have hcs' : ∀ x ∈ cs', x.wf q = true := scharsWf_all q cs' hwf'
    have hhead := schar_head q hq cs' hcs' r
    simp only [List.flatMap_cons, List.append_assoc] at hs
    cases c with
    | raw b =>
      obtain ⟨hpl, hbq, hb92⟩ := raw_facts q b hc
      simp only [SChar.render, List.cons_append, List.nil_append] at hs
      obtain ⟨e1, e2, _⟩ := next_of_rest s b _ hs hpl
      obtain ⟨s', h1, h2⟩ := ih (writeChar buf (b.toNat : Int)) (next s).2 hwf' e2
      refine ⟨s', ?_, h2⟩
      rw [e1, stringLoop_plain _ _ _ _ (int_ne_of_ne b q hbq) (by have := plain_toNat b hpl; omega)
        (int_ne_of_ne b 92 hb92), h1]
      simp [writeChar, byteOf_toNat, SChar.denote]
    | esc e =>
      simp only [SChar.render, List.cons_append, List.nil_append] at hs
      obtain ⟨e1, e2, _⟩ := next_of_rest s 92 _ hs (by unfold Plain; decide)
      have hm := escapes_table e (by simpa [SChar.wf] using hc)
      have hesc := escape_denotes e (escapeValue e) hm buf (cs'.flatMap SChar.render ++ q :: r)
        (next s).2.line (next s).2.col (next s).2.off
      rw [← scanEscape_of_rest buf (next s).2 _ e2] at hesc
      obtain ⟨s', h1, h2⟩ := ih (buf ++ [escapeValue e])
        { rest := cs'.flatMap SChar.render ++ q :: r, line := (next s).2.line, col := (next s).2.col + 1,
          off := (next s).2.off + 1 } hwf' rfl
      refine ⟨s', ?_, h2⟩
      have e1' : (next s).1 = 92 := by rw [e1]; rfl
      rw [e1', stringLoop_esc _ _ _ _ hq92 hesc, h1]
      simp [SChar.denote]
    | dec b =>
      simp only [SChar.render, List.cons_append, List.nil_append] at hs
      obtain ⟨e1, e2, _⟩ := next_of_rest s 92 _ hs (by unfold Plain; decide)
      obtain ⟨d1, d2, d3, dv⟩ := dec_digits b
      have hesc := decimal_escape_ok (48 + b / 100) (48 + b / 10 % 10) (48 + b % 10) d1 d2 d3
        (by rw [dv]; have := b.toNat_lt; omega) buf (cs'.flatMap SChar.render ++ q :: r)
        (next s).2.line (next s).2.col (next s).2.off
      rw [← scanEscape_of_rest buf (next s).2 _ e2] at hesc
      obtain ⟨s', h1, h2⟩ := ih
        (buf ++ [UInt8.ofNat (((48 + b / 100).toNat - 48) * 100 + ((48 + b / 10 % 10).toNat - 48) * 10 +
          ((48 + b % 10).toNat - 48))])
        { rest := cs'.flatMap SChar.render ++ q :: r, line := (next s).2.line, col := (next s).2.col + 1 + 1 + 1,
          off := (next s).2.off + 1 + 1 + 1 } hwf' rfl
      refine ⟨s', ?_, h2⟩
      have e1' : (next s).1 = 92 := by rw [e1]; rfl
      rw [e1', stringLoop_esc _ _ _ _ hq92 hesc, h1]
      rw [dv]
      simp [SChar.denote]
    | dec1 b =>
      simp only [SChar.render, List.cons_append, List.nil_append] at hs
      obtain ⟨e1, e2, _⟩ := next_of_rest s 92 _ hs (by unfold Plain; decide)
      have hb : b < 10 := by simpa [SChar.wf] using hc
      obtain ⟨d1, dv⟩ := dec1_digits b hb
      have hnd' := schar_head_digit q hq cs' r (by simpa [SChar.shortDec] using hnd)
      obtain ⟨s1, k1, k2⟩ := scanEscape_decimal (48 + b) [] _ d1 rfl (by simp) (Or.inr hnd')
        (by simp only [List.foldl_nil]; rw [dv]; have := b.toNat_lt; omega) buf (next s).2 (by rw [e2]; rfl)
      obtain ⟨s', h1, h2⟩ := ih _ s1 hwf' k2
      refine ⟨s', ?_, h2⟩
      have e1' : (next s).1 = 92 := by rw [e1]; rfl
      rw [e1', stringLoop_esc _ _ _ _ hq92 k1, h1]
      simp only [List.foldl_nil, dv]
      simp [SChar.denote]
    | dec2 b =>
      simp only [SChar.render, List.cons_append, List.nil_append] at hs
      obtain ⟨e1, e2, _⟩ := next_of_rest s 92 _ hs (by unfold Plain; decide)
      have hb : b < 100 := by simpa [SChar.wf] using hc
      obtain ⟨d1, d2, dv⟩ := dec2_digits b hb
      have hnd' := schar_head_digit q hq cs' r (by simpa [SChar.shortDec] using hnd)
      obtain ⟨s1, k1, k2⟩ := scanEscape_decimal (48 + b / 10) [48 + b % 10] _ d1 (by simp [d2]) (by simp)
        (Or.inr hnd')
        (by simp only [List.foldl_cons, List.foldl_nil]; rw [dv]; have := b.toNat_lt; omega) buf (next s).2
        (by rw [e2]; rfl)
      obtain ⟨s', h1, h2⟩ := ih _ s1 hwf' k2
      refine ⟨s', ?_, h2⟩
      have e1' : (next s).1 = 92 := by rw [e1]; rfl
      rw [e1', stringLoop_esc _ _ _ _ hq92 k1, h1]
      simp only [List.foldl_cons, List.foldl_nil, dv]
      simp [SChar.denote]
    | nl eol =>
      simp only [SChar.render, List.cons_append] at hs
      obtain ⟨e1, e2, _⟩ := next_of_rest s 92 _ hs (by unfold Plain; decide)
      have heol : eol = [10] ∨ eol = [13] ∨ eol = [13, 10] ∨ eol = [10, 13] := by
        simpa [SChar.wf, lineEndSpellings] using hc
      have e1' : (next s).1 = 92 := by rw [e1]; rfl
      have key : ∃ s1, scanEscape buf (next s).2 = .ok (buf ++ [10], s1) ∧
          s1.rest = cs'.flatMap SChar.render ++ q :: r := by
        rcases heol with rfl | rfl | rfl | rfl <;> simp only [List.cons_append, List.nil_append] at e2
        · obtain ⟨s1, k1, k2⟩ := scanEscape_nl buf (next s).2 10 _ e2 (Or.inl rfl)
          exact ⟨s1, k1, by rw [k2, nlRest_of_headNot _ _ hhead]⟩
        · obtain ⟨s1, k1, k2⟩ := scanEscape_nl buf (next s).2 13 _ e2 (Or.inr rfl)
          exact ⟨s1, k1, by rw [k2, nlRest_of_headNot _ _ hhead]⟩
        · obtain ⟨s1, k1, k2⟩ := scanEscape_nl buf (next s).2 13 _ e2 (Or.inr rfl)
          exact ⟨s1, k1, by rw [k2]; simp [nlRest]⟩
        · obtain ⟨s1, k1, k2⟩ := scanEscape_nl buf (next s).2 10 _ e2 (Or.inl rfl)
          exact ⟨s1, k1, by rw [k2]; simp [nlRest]⟩
      obtain ⟨s1, k1, k2⟩ := key
      obtain ⟨s', h1, h2⟩ := ih (buf ++ [10]) s1 hwf' k2
      refine ⟨s', ?_, h2⟩
      rw [e1', stringLoop_esc _ _ _ _ hq92 k1, h1]
      simp [SChar.denote]

theorem tokScan_str (q : UInt8) (cs : List SChar) (hwf : (RTok.str q cs).wf = true) (r : Bytes) :
    TokScan (.str q cs) r := by
  simp only [RTok.wf, Bool.and_eq_true, Bool.or_eq_true, beq_iff_eq] at hwf
  obtain ⟨hq, hcs⟩ := hwf
  refine ⟨q, cs.flatMap SChar.render ++ [q], rfl, by rcases hq with rfl | rfl <;> decide,
    Or.inl (by rcases hq with rfl | rfl <;> decide), ?_⟩
  intro s hs
  obtain ⟨s', h1, h2⟩ := stringLoop_run q hq r cs [] s hcs (by rw [hs]; simp)
  refine ⟨s', ?_, h2⟩
  have hq' : (q.toNat : Int) = 34 ∨ (q.toNat : Int) = 39 := by
    rcases hq with rfl | rfl
    · left; rfl
    · right; rfl
  rw [scanToken_quote _ hq' s _ s' (by unfold scanString; rw [h1])]
  simp [tokType, tokStr]

/-! ### string contents are arbitrary bytes -/

/-- a canonical spelling of an arbitrary byte inside quotes `q`: the byte itself where the grammar allows it raw,
    otherwise its three-digit decimal escape. -/
def canonChar (q b : UInt8) : SChar := if b = q ∨ b = 92 ∨ b = 10 ∨ b = 13 then .dec b else .raw b

theorem canonChar_wf (q b : UInt8) : (canonChar q b).wf q = true := by
  unfold canonChar
  split
  · rfl
  · rename_i h
    simp only [SChar.wf, Bool.and_eq_true, bne_iff_ne, ne_eq]
    exact ⟨⟨⟨fun e => h (Or.inl e), fun e => h (Or.inr (Or.inl e))⟩, fun e => h (Or.inr (Or.inr (Or.inl e)))⟩,
      fun e => h (Or.inr (Or.inr (Or.inr e)))⟩

theorem canonChar_denote (q b : UInt8) : (canonChar q b).denote = b := by
  unfold canonChar; split <;> rfl

/-- string contents are arbitrary bytes: every byte string has a well-formed spelling that denotes it. -/
theorem canonStr_wf (q : UInt8) (hq : q = 34 ∨ q = 39) (content : Bytes) :
    (RTok.str q (content.map (canonChar q))).wf = true ∧
    tokStr (RTok.str q (content.map (canonChar q))) = content := by
  constructor
  · simp only [RTok.wf, Bool.and_eq_true, Bool.or_eq_true, beq_iff_eq]
    refine ⟨hq, scharsWf_of_all q _ ?_⟩
    intro x hx
    simp only [List.mem_map] at hx
    obtain ⟨b, _, rfl⟩ := hx
    refine ⟨canonChar_wf q b, ?_⟩
    unfold canonChar; split <;> rfl
  · simp only [tokStr, List.map_map]
    have : (SChar.denote ∘ canonChar q) = id := by
      funext b; exact canonChar_denote q b
    rw [this]; simp

end GLua.Lexer
