/-
  Round trip, part 1: the token scanners on rendered names, keywords, operators / punctuation and numerals.
  Every lemma has the shape "if the unread input is  <rest of the lexeme> ++ r  and `r` may follow the lexeme, the
  scanner function returns the lexeme and leaves exactly `r` unread".
-/
import GLua.Proofs.LexerRTBase

namespace GLua.Lexer
open GLua.Generated.Lexer
open GLua.LexSpec (Bytes)
open GLua.LexRender

/-! ### words -/

theorem peek_headNot (p : UInt8 → Bool) (q : Int → Bool) (hq : ∀ b : UInt8, q (b.toNat : Int) = p b) (hq1 : q (-1) = false)
    (r : Bytes) (hr : HeadNot p r) (s : Sc) (hs : s.rest = r) : q (peek s) = false := by
  cases r with
  | nil => rw [peek_nil s hs]; exact hq1
  | cons c r' => rw [peek_cons s c r' hs, hq]; exact hr c r' rfl

theorem identLoop_run (w : Bytes) (r : Bytes) (hr : HeadNot LexSpec.isAlnum r) :
    ∀ (buf : Buf) (s : Sc), w.all LexSpec.isAlnum = true → s.rest = w ++ r →
      (identLoop buf s).1 = buf ++ w ∧ (identLoop buf s).2.rest = r := by
  induction w with
  | nil =>
    intro buf s _ hs
    have hp : isIdent (peek s) 1 = false :=
      peek_headNot LexSpec.isAlnum (fun c => isIdent c 1) isIdent1_eq (by decide) r hr s (by simpa using hs)
    rw [identLoop]; simp [hp]; simpa using hs
  | cons b w' ih =>
    intro buf s hw hs
    simp only [List.all_cons, Bool.and_eq_true] at hw
    have hs' : s.rest = b :: (w' ++ r) := by rw [hs]; rfl
    have hp : isIdent (peek s) 1 = true := by rw [peek_cons s b _ hs', isIdent1_eq]; exact hw.1
    obtain ⟨e1, e2, _⟩ := next_of_rest s b _ hs' (alnum_plain b hw.1)
    rw [identLoop]; simp only [hp, if_true]
    obtain ⟨i1, i2⟩ := ih (writeChar buf (next s).1) (next s).2 hw.2 e2
    rw [i1, i2, e1]
    simp [writeChar, byteOf_toNat]

theorem decimalLoop_run (w : Bytes) (r : Bytes) (hr : HeadNot LexSpec.isDigit r) :
    ∀ (buf : Buf) (s : Sc), w.all LexSpec.isDigit = true → s.rest = w ++ r →
      (decimalLoop buf s).1 = buf ++ w ∧ (decimalLoop buf s).2.rest = r := by
  induction w with
  | nil =>
    intro buf s _ hs
    have hp : isDecimal (peek s) = false :=
      peek_headNot LexSpec.isDigit isDecimal isDecimal_eq (by decide) r hr s (by simpa using hs)
    rw [decimalLoop]; simp [hp]; simpa using hs
  | cons b w' ih =>
    intro buf s hw hs
    simp only [List.all_cons, Bool.and_eq_true] at hw
    have hs' : s.rest = b :: (w' ++ r) := by rw [hs]; rfl
    have hp : isDecimal (peek s) = true := by rw [peek_cons s b _ hs', isDecimal_eq]; exact hw.1
    obtain ⟨e1, e2, _⟩ := next_of_rest s b _ hs' (alnum_plain b (digit_alnum b hw.1))
    rw [decimalLoop]; simp only [hp, if_true]
    obtain ⟨i1, i2⟩ := ih (writeChar buf (next s).1) (next s).2 hw.2 e2
    rw [i1, i2, e1]
    simp [writeChar, byteOf_toNat]

theorem hexLoop_run (w : Bytes) (r : Bytes) (hr : HeadNot LexSpec.isHex r) :
    ∀ (buf : Buf) (s : Sc) (hv : Bool), w.all LexSpec.isHex = true → s.rest = w ++ r →
      (hexLoop buf s hv).1 = buf ++ w ∧ (hexLoop buf s hv).2.1.rest = r ∧
        (hexLoop buf s hv).2.2 = (hv || !w.isEmpty) := by
  induction w with
  | nil =>
    intro buf s hv _ hs
    have hp : isDigit (peek s) = false :=
      peek_headNot LexSpec.isHex isDigit isHexDigit_eq (by decide) r hr s (by simpa using hs)
    rw [hexLoop]; simp [hp]; simpa using hs
  | cons b w' ih =>
    intro buf s hv hw hs
    simp only [List.all_cons, Bool.and_eq_true] at hw
    have hs' : s.rest = b :: (w' ++ r) := by rw [hs]; rfl
    have hp : isDigit (peek s) = true := by rw [peek_cons s b _ hs', isHexDigit_eq]; exact hw.1
    obtain ⟨e1, e2, _⟩ := next_of_rest s b _ hs' (alnum_plain b (hex_alnum b hw.1))
    rw [hexLoop]; simp only [hp, if_true]
    obtain ⟨i1, i2, i3⟩ := ih (writeChar buf (next s).1) (next s).2 true hw.2 e2
    rw [i1, i2, i3, e1]
    simp [writeChar, byteOf_toNat]

/-! ### reserved words -/

theorem reserved_names : reservedWords.map (·.1) = LexSpec.keywords := by decide +kernel

theorem lookupReserved_none (w : Bytes) (h : LexSpec.isKeyword w = false) : lookupReserved w = none := by
  unfold lookupReserved
  rw [Option.map_eq_none_iff, List.find?_eq_none]
  intro p hp
  unfold LexSpec.isKeyword at h
  rw [List.any_eq_false] at h
  have : p.1 ∈ LexSpec.keywords := by rw [← reserved_names]; exact List.mem_map_of_mem hp
  exact h p.1 this

/-- every keyword is a word of the name grammar, and the scanner's table gives it a token number. -/
theorem keyword_facts : ∀ k ∈ LexSpec.keywords,
    (match k.toUTF8.toList with | c :: _ => LexSpec.isLetter c | [] => false) = true ∧
    k.toUTF8.toList.all LexSpec.isAlnum = true ∧
    lookupReserved k.toUTF8.toList = reservedWords.lookup k ∧ (reservedWords.lookup k).isSome = true := by
  decide +kernel

/-- a word of the name grammar: the identifier scanner reads exactly the word. -/
theorem scanToken_word (c : UInt8) (w' : Bytes) (r : Bytes) (hc : LexSpec.isLetter c = true)
    (hw : w'.all LexSpec.isAlnum = true) (hr : HeadNot LexSpec.isAlnum r) (s : Sc) (hs : s.rest = w' ++ r) :
    ∃ s', scanToken (c.toNat : Int) s =
        mkTok s (match lookupReserved (c :: w') with | some ty => (ty : Int) | none => TIdent) (c :: w') s' ∧
      s'.rest = r := by
  obtain ⟨i1, i2⟩ := identLoop_run w' r hr (writeChar [] (c.toNat : Int)) s hw hs
  have hb : (scanIdent (c.toNat : Int) [] s).1 = c :: w' := by
    unfold scanIdent; rw [i1]; simp [writeChar, byteOf_toNat]
  refine ⟨(scanIdent (c.toNat : Int) [] s).2, ?_, i2⟩
  unfold scanToken
  rw [isIdent0_eq, hc]
  simp only [if_true, hb]
  generalize lookupReserved (c :: w') = o
  cases o <;> rfl

/-! ### operators and punctuation -/

theorem peek_ne_of (s : Sc) (r : Bytes) (hs : s.rest = r) (k : UInt8) (hr : HeadNot (fun c => c == k) r) :
    ¬ peek s = (k.toNat : Int) := by
  cases r with
  | nil => rw [peek_nil s hs]; omega
  | cons d r' =>
    rw [peek_cons s d r' hs]
    have := hr d r' rfl
    simp only [beq_eq_false_iff_ne] at this
    intro h
    apply this
    have : d.toNat = k.toNat := by omega
    exact UInt8.toNat_inj.mp this

theorem follow_headNot (t : RTok) (r : Bytes) (hf : follow t r = true) (p : UInt8 → Bool)
    (h : ∀ c r', follow t (c :: r') = true → p c = false) : HeadNot p r := by
  intro c r' e; subst e; exact h c r' hf

/-- one-character operators. -/
theorem scanToken_sym1 (c : UInt8) (hc : LexSpec.symbols1.contains c = true) (r : Bytes)
    (hf : follow (.sym [c]) r = true) (s : Sc) (hs : s.rest = r) :
    scanToken (c.toNat : Int) s = mkTok s (symType [c]) (symStr [c]) s := by
  have hm : c ∈ LexSpec.symbols1 := by simpa using hc
  simp only [LexSpec.symbols1, List.mem_cons, List.mem_nil_iff, or_false] at hm
  have h61 : (c = 61 ∨ c = 60 ∨ c = 62 ∨ c = 91) → ¬ peek s = 61 := by
    intro h
    apply peek_ne_of s r hs 61
    apply follow_headNot _ r hf
    intro d r'
    rcases h with rfl | rfl | rfl | rfl <;> simp [follow]
  have h58 : c = 58 → ¬ peek s = 58 := by
    intro h
    apply peek_ne_of s r hs 58
    apply follow_headNot _ r hf
    intro d r'
    subst h; simp [follow]
  have h91 : c = 91 → ¬ peek s = 91 := by
    intro h
    apply peek_ne_of s r hs 91
    apply follow_headNot _ r hf
    intro d r'
    subst h; simp [follow]; intro h _; exact h
  have h46 : c = 46 → ¬ peek s = 46 ∧ isDecimal (peek s) = false := by
    intro h
    subst h
    constructor
    · apply peek_ne_of s r hs 46
      apply follow_headNot _ r hf
      intro d r'
      simp [follow]; intro h _; exact h
    · apply peek_headNot LexSpec.isDigit isDecimal isDecimal_eq (by decide) r _ s hs
      apply follow_headNot _ r hf
      intro d r'
      simp [follow]
  rcases hm with rfl | rfl | rfl | rfl | rfl | rfl | rfl | rfl | rfl | rfl | rfl | rfl | rfl | rfl | rfl | rfl | rfl | rfl | rfl | rfl
  all_goals simp at h61 h58 h91 h46
  all_goals simp [scanToken, scanPunct, scanDot, isIdent, isDecimal, runeStr, byteOf, symType, symStr, h61, h58, h91, h46]
  intro a b
  have := h46.2
  simp only [isDecimal, Bool.and_eq_false_iff, decide_eq_false_iff_not] at this
  omega
/-- two-character operators. -/
theorem scanToken_sym2 (c x : UInt8) (hc : LexSpec.symbols2.contains [c, x] = true) (r : Bytes)
    (hf : follow (.sym [c, x]) r = true) (s : Sc) (hs : s.rest = x :: r) :
    scanToken (c.toNat : Int) s = mkTok s (symType [c, x]) (symStr [c, x]) (next s).2 ∧ (next s).2.rest = r := by
  have hm : [c, x] ∈ LexSpec.symbols2 := by simpa using hc
  simp only [LexSpec.symbols2, List.mem_cons, List.mem_nil_iff, or_false, List.cons.injEq, and_true] at hm
  have hx : Plain x := by
    rcases hm with ⟨_, rfl⟩ | ⟨_, rfl⟩ | ⟨_, rfl⟩ | ⟨_, rfl⟩ | ⟨_, rfl⟩ | ⟨_, rfl⟩ <;> (unfold Plain; decide)
  have hp := peek_cons s x r hs
  obtain ⟨e1, e2, _⟩ := next_of_rest s x r hs hx
  refine ⟨?_, e2⟩
  have h46 : (c = 46 ∧ x = 46) → ¬ peek (next s).2 = 46 := by
    rintro ⟨rfl, rfl⟩
    apply peek_ne_of (next s).2 r e2 46
    apply follow_headNot _ r hf
    intro d r'
    simp [follow]
  rcases hm with ⟨rfl, rfl⟩ | ⟨rfl, rfl⟩ | ⟨rfl, rfl⟩ | ⟨rfl, rfl⟩ | ⟨rfl, rfl⟩ | ⟨rfl, rfl⟩
  all_goals simp at h46 hp e1
  all_goals simp [scanToken, scanPunct, scanDot, isIdent, isDecimal, byteOf, symType, symStr, hp, h46, e1, writeChar,
    TEqeq, TNeq, TLte, TGte, T2Comma, T2Colon]

/-- `...` -/
theorem scanToken_sym3 (r : Bytes) (s : Sc) (hs : s.rest = 46 :: 46 :: r) :
    scanToken 46 s = mkTok s (symType [46, 46, 46]) (symStr [46, 46, 46]) (next (next s).2).2 ∧
      (next (next s).2).2.rest = r := by
  have hp := peek_cons s 46 _ hs
  obtain ⟨e1, e2, _⟩ := next_of_rest s 46 _ hs (by unfold Plain; decide)
  have hp2 := peek_cons (next s).2 46 _ e2
  obtain ⟨f1, f2, _⟩ := next_of_rest (next s).2 46 _ e2 (by unfold Plain; decide)
  refine ⟨?_, f2⟩
  simp at hp e1 hp2 f1
  simp [scanToken, scanDot, isIdent, isDecimal, symType, symStr, hp, hp2, e1, f1, writeChar, byteOf]

/-- what the round trip needs to know about one rendered token `t` followed by the text `r`: its first byte `c` is
    not a blank, `c` and the byte after it do not open a comment, and the token switch of `Scan`, entered with `c`
    and the rest of the rendering unread, returns the token `(tokType t, tokStr t)` and leaves exactly `r`. -/
def TokScan (t : RTok) (r : Bytes) : Prop :=
  ∃ c tail, t.render = c :: tail ∧ LexSpec.isBlank c = false ∧
    (c ≠ 45 ∨ HeadNot (fun d => d == 45) (tail ++ r)) ∧
    ∀ s : Sc, s.rest = tail ++ r →
      ∃ s', scanToken (c.toNat : Int) s = mkTok s (tokType t) (tokStr t) s' ∧ s'.rest = r

/-- what the round trip needs to know about one rendered comment followed by the text `r`: `skipComments`, entered
    behind the two dashes, succeeds and leaves `r` — or, for a short comment whose line end is the first half of a
    CR LF / LF CR pair, `r` without its first byte (the second half). -/
def CommentScan (x : Sep) (r : Bytes) : Prop :=
  ∃ body, x.render = 45 :: 45 :: body ∧ ∀ s : Sc, s.rest = body ++ r →
    ∃ s', skipComments 45 s = .ok s' ∧
      (s'.rest = r ∨ ∃ b r', r = b :: r' ∧ (b = 10 ∨ b = 13) ∧ s'.rest = r')

theorem tokScan_sym (sp : Bytes) (hwf : (RTok.sym sp).wf = true) (r : Bytes) (hf : follow (.sym sp) r = true) :
    TokScan (.sym sp) r := by
  have hm : sp ∈ symbols := by simpa [RTok.wf] using hwf
  simp only [symbols, List.mem_append, List.mem_map] at hm
  rcases hm with (⟨c, hc, rfl⟩ | hm) | hm
  · refine ⟨c, [], rfl, ?_, ?_, ?_⟩
    · have : ∀ c ∈ LexSpec.symbols1, LexSpec.isBlank c = false := by decide +kernel
      exact this c hc
    · by_cases h45 : c = 45
      · right
        subst h45
        apply follow_headNot _ r hf
        intro d r'
        simp [follow]
      · exact Or.inl h45
    · intro s hs
      exact ⟨s, scanToken_sym1 c (by simpa using hc) r hf s (by simpa using hs), by simpa using hs⟩
  · have hm' := hm
    simp only [LexSpec.symbols2, List.mem_cons, List.mem_nil_iff, or_false] at hm'
    obtain ⟨c, x, rfl⟩ : ∃ c x, sp = [c, x] := by
      rcases hm' with rfl | rfl | rfl | rfl | rfl | rfl <;> exact ⟨_, _, rfl⟩
    refine ⟨c, [x], rfl, ?_, ?_, ?_⟩
    · simp only [List.cons.injEq, and_true] at hm'
      rcases hm' with ⟨rfl, _⟩ | ⟨rfl, _⟩ | ⟨rfl, _⟩ | ⟨rfl, _⟩ | ⟨rfl, _⟩ | ⟨rfl, _⟩ <;> decide
    · left
      simp only [List.cons.injEq, and_true] at hm'
      rcases hm' with ⟨rfl, _⟩ | ⟨rfl, _⟩ | ⟨rfl, _⟩ | ⟨rfl, _⟩ | ⟨rfl, _⟩ | ⟨rfl, _⟩ <;> decide
    · intro s hs
      obtain ⟨h1, h2⟩ := scanToken_sym2 c x (by simpa using hm) r hf s (by simpa using hs)
      exact ⟨_, h1, h2⟩
  · simp only [LexSpec.symbols3, List.mem_cons, List.mem_nil_iff, or_false] at hm
    subst hm
    refine ⟨46, [46, 46], rfl, by decide, Or.inl (by decide), ?_⟩
    intro s hs
    obtain ⟨h1, h2⟩ := scanToken_sym3 r s (by simpa using hs)
    exact ⟨_, h1, h2⟩

theorem tokScan_name (w : Bytes) (hwf : (RTok.name w).wf = true) (r : Bytes) (hf : follow (.name w) r = true) :
    TokScan (.name w) r := by
  cases w with
  | nil => simp [RTok.wf] at hwf
  | cons c w' =>
    simp only [RTok.wf, List.all_cons, Bool.and_eq_true, Bool.not_eq_true'] at hwf
    obtain ⟨⟨hc, _, hw⟩, hk⟩ := hwf
    refine ⟨c, w', rfl, letter_not_blank c hc, Or.inl (letter_ne_minus c hc), ?_⟩
    · intro s hs
      have hr : HeadNot LexSpec.isAlnum r := by
        apply follow_headNot _ r hf
        intro d r'; simp [follow]
      obtain ⟨s', h1, h2⟩ := scanToken_word c w' r hc hw hr s hs
      refine ⟨s', ?_, h2⟩
      rw [h1, lookupReserved_none _ hk]
      rfl

theorem tokScan_kw (k : String) (hwf : (RTok.kw k).wf = true) (r : Bytes) (hf : follow (.kw k) r = true) :
    TokScan (.kw k) r := by
  have hk : k ∈ LexSpec.keywords := by simpa [RTok.wf] using hwf
  obtain ⟨h1, h2, h3, h4⟩ := keyword_facts k hk
  cases hb : k.toUTF8.toList with
  | nil => rw [hb] at h1; simp at h1
  | cons c w' =>
    rw [hb] at h1 h2 h3
    simp only [List.all_cons, Bool.and_eq_true] at h2
    simp only at h1
    refine ⟨c, w', by rw [RTok.render, hb], letter_not_blank c h1, Or.inl (letter_ne_minus c h1), ?_⟩
    · intro s hs
      have hr : HeadNot LexSpec.isAlnum r := by
        apply follow_headNot _ r hf
        intro d r'; simp [follow]
      obtain ⟨s', g1, g2⟩ := scanToken_word c w' r h1 h2.2 hr s hs
      refine ⟨s', ?_, g2⟩
      rw [g1, h3]
      obtain ⟨n, hn⟩ := Option.isSome_iff_exists.mp h4
      simp only [tokType, tokStr, hn, hb, Option.getD_some]

end GLua.Lexer
