/-
  Run-level lemmas for C12: the step simulations of Proofs/CallStack and Proofs/Registry lifted to whole
  histories, and the independence of in-limit histories from the configuration.
-/
import GLua.Proofs.CallStack
import GLua.Proofs.Registry

namespace GLua.Limits
open GLua GLua.LimitsSpec GLua.CallStack GLua.Registry

/-! ## call stacks -/

theorem runFixed_refines (cap : Nat) : ∀ (ops : List Op) (s : Fixed) (l l' : List Frame) (os : List Obs),
    Fixed.Rel cap s l → LimitsSpec.run cap l ops = some (l', os) →
    ∃ s', runFixed s ops = .ok (s', os) ∧ Fixed.Rel cap s' l' := by
  intro ops
  induction ops with
  | nil =>
    intro s l l' os h hr
    simp only [LimitsSpec.run, Option.some.injEq, Prod.mk.injEq] at hr
    obtain ⟨rfl, rfl⟩ := hr
    exact ⟨s, rfl, h⟩
  | cons op r ih =>
    intro s l l' os h hr
    simp only [LimitsSpec.run] at hr
    split at hr
    · cases hr
    · rename_i l1 o hstep
      split at hr
      · cases hr
      · rename_i l2 os2 hrun
        simp only [Option.some.injEq, Prod.mk.injEq] at hr
        obtain ⟨rfl, rfl⟩ := hr
        obtain ⟨s1, e1, h1⟩ := Fixed.step_refines h hstep
        obtain ⟨s2, e2, h2⟩ := ih s1 l1 l2 os2 h1 hrun
        exact ⟨s2, by simp [runFixed, e1, e2], h2⟩

theorem runAuto_refines (cap : Nat) : ∀ (ops : List Op) (s : Auto) (l l' : List Frame) (os : List Obs),
    Auto.Rel cap s l → LimitsSpec.run cap l ops = some (l', os) →
    ∃ s', runAuto Auto.step s ops = .ok (s', os) ∧ Auto.Rel cap s' l' := by
  intro ops
  induction ops with
  | nil =>
    intro s l l' os h hr
    simp only [LimitsSpec.run, Option.some.injEq, Prod.mk.injEq] at hr
    obtain ⟨rfl, rfl⟩ := hr
    exact ⟨s, rfl, h⟩
  | cons op r ih =>
    intro s l l' os h hr
    simp only [LimitsSpec.run] at hr
    split at hr
    · cases hr
    · rename_i l1 o hstep
      split at hr
      · cases hr
      · rename_i l2 os2 hrun
        simp only [Option.some.injEq, Prod.mk.injEq] at hr
        obtain ⟨rfl, rfl⟩ := hr
        obtain ⟨s1, e1, h1⟩ := Auto.step_refines h hstep
        obtain ⟨s2, e2, h2⟩ := ih s1 l1 l2 os2 h1 hrun
        exact ⟨s2, by simp [runAuto, e1, e2], h2⟩

/-- below the capacity a step does not depend on the capacity. -/
theorem step_cap_irrelevant {c1 c2 : Nat} {l : List Frame} (op : Op) (h1 : l.length < c1) (h2 : l.length < c2) :
    LimitsSpec.step c1 l op = LimitsSpec.step c2 l op := by
  cases op <;> simp only [LimitsSpec.step, h1, h2, if_true]
  -- isFull: both answers are false
  have e1 : (l.length == c1) = false := by simp; omega
  have e2 : (l.length == c2) = false := by simp; omega
  rw [e1, e2]

theorem run_cap_irrelevant {c1 c2 : Nat} : ∀ (ops : List Op) (l : List Frame),
    below c1 l ops → below c2 l ops → LimitsSpec.run c1 l ops = LimitsSpec.run c2 l ops ∧ (LimitsSpec.run c1 l ops).isSome := by
  intro ops
  induction ops with
  | nil => intro l _ _; exact ⟨rfl, rfl⟩
  | cons op r ih =>
    intro l b1 b2
    simp only [below] at b1 b2
    obtain ⟨hl1, b1⟩ := b1
    obtain ⟨hl2, b2⟩ := b2
    have hst := step_cap_irrelevant op hl1 hl2
    simp only [LimitsSpec.run]
    rw [← hst] at b2 ⊢
    split at b1
    · exact b1.elim
    · rename_i l1 o hstep
      rw [hstep] at b2
      simp only [hstep] at b2 ⊢
      obtain ⟨e, hs⟩ := ih l1 b1 b2
      rw [← e]
      refine ⟨rfl, ?_⟩
      cases hrun : LimitsSpec.run c1 l1 r with
      | none => rw [hrun] at hs; cases hs
      | some p => rfl

/-! ## registry -/

theorem run_refines (limit : Nat) : ∀ (ops : List ROp) (r : Reg) (l l' : List OVal) (os : List (Option RObs)),
    Rel r l → max r.cap r.maxSize = limit → rrunL limit l ops = some (l', os) →
    ∃ r', Registry.run r ops = .ok (r', os) ∧ Rel r' l' ∧ max r'.cap r'.maxSize = limit := by
  intro ops
  induction ops with
  | nil =>
    intro r l l' os h hm hr
    simp only [rrunL, Option.some.injEq, Prod.mk.injEq] at hr
    obtain ⟨rfl, rfl⟩ := hr
    exact ⟨r, rfl, h, hm⟩
  | cons op rest ih =>
    intro r l l' os h hm hr
    simp only [rrunL, rstepL] at hr
    cases hstep : rstep l op with
    | none => simp [hstep] at hr
    | some p =>
      obtain ⟨l1, o⟩ := p
      simp only [hstep] at hr
      obtain ⟨hok, hov⟩ := step_refines h hstep
      by_cases hlen : l1.length ≤ limit
      · simp only [hlen, if_true] at hr
        split at hr
        · cases hr
        · rename_i l2 os2 hrun
          simp only [Option.some.injEq, Prod.mk.injEq] at hr
          obtain ⟨rfl, rfl⟩ := hr
          obtain ⟨r1, e1, h1, hx⟩ := hok (by omega)
          obtain ⟨x1, x2, x3, x4⟩ := hx
          obtain ⟨r2, e2, h2, hm2⟩ := ih r1 l1 l2 os2 h1 (by rw [x2]; omega) hrun
          exact ⟨r2, by simp [Registry.run, e1, e2], h2, hm2⟩
      · simp only [hlen, if_false] at hr
        split at hr
        · cases hr
        · rename_i l2 os2 hrun
          simp only [Option.some.injEq, Prod.mk.injEq] at hr
          obtain ⟨rfl, rfl⟩ := hr
          have e1 := hov (by omega)
          obtain ⟨r2, e2, h2, hm2⟩ := ih r l l2 os2 h hm hrun
          exact ⟨r2, by simp [Registry.run, e1, overflow, e2], h2, hm2⟩

/-- a history that stays within the limit is the unlimited history. -/
theorem rrunL_of_below (limit : Nat) : ∀ (ops : List ROp) (l : List OVal), rbelow limit l ops →
    ∃ l' os, rrun l ops = some (l', os) ∧ rrunL limit l ops = some (l', os.map some) := by
  intro ops
  induction ops with
  | nil => intro l _; exact ⟨l, [], rfl, rfl⟩
  | cons op r ih =>
    intro l hb
    simp only [rbelow] at hb
    cases hstep : rstep l op with
    | none => simp [hstep] at hb
    | some p =>
      obtain ⟨l1, o⟩ := p
      simp only [hstep] at hb
      obtain ⟨hlen, hb⟩ := hb
      obtain ⟨l2, os, e1, e2⟩ := ih l1 hb
      refine ⟨l2, o :: os, by simp [rrun, hstep, e1], ?_⟩
      simp [rrunL, rstepL, hstep, hlen, e2]

end GLua.Limits
