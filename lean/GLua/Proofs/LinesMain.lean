/-
  C17, line layer — the statements about whole programs, assembled from erasure (LinesSim, LinesWf), naturality
  (LinesNat) and the syntax facts (LinesSyntax, LinesSpan).
-/
import GLua.Proofs.LinesWf
import GLua.Proofs.LinesSpan
import GLua.Model.CompileProto

namespace GLua.Compile
open GLua.MiniVM GLua.Lines

variable [NumStruct] {α β : Type}
set_option linter.unusedSectionVars false

theorem compLines_eq (p : TProg) : compLines p = stmtLines p ++ [finalLine p] := rfl

/-! ### erasure -/

theorem compLines_length (p : TProg) : (compLines p).length = (compileMain p.nlocals p.body.erase).code.length := by
  unfold compLines
  rw [compMainL_lines_length, toABlock_erase]

theorem compLines_length_patched (p : TProg) (code : List Instr) (nregs : Nat)
    (h : patchCode (compileMain p.nlocals p.body.erase) = .ok (code, nregs)) : (compLines p).length = code.length := by
  rw [compLines_length, patchCode_length _ _ _ h]

theorem compLines_length_proto (p : TProg) (pr : Verifier.Proto) (h : fragProto p.nlocals p.body.erase = .ok pr) :
    pr.code.size = (compLines p).length ∧ pr.nLines = (compLines p).length := by
  simp only [fragProto] at h
  split at h
  · cases h
  · rename_i code nregs hp
    cases h
    have := compLines_length_patched p code nregs hp
    simp only [toProto, List.size_toArray, List.length_map, this, and_self]

/-! ### provenance -/

theorem stmtLines_eq_tagged (p : TProg) : stmtLines p = (bodyTagged p).map Prod.fst := by
  unfold stmtLines bodyTagged
  rw [← compBodyL_natural_lines Prod.fst, annotBlock_fst]

theorem stmtSpans_length (p : TProg) : (stmtSpans p).length = (stmtLines p).length := by
  rw [stmtLines_eq_tagged]; simp only [stmtSpans, List.length_map]

/-- two functions that agree on every position of the program give the same mapped table. -/
theorem body_map_congr {f g : α → β} (n : Nat) (dots : α) (body : ABlock α) (hd : n ≠ 0 → f dots = g dots)
    (hb : ∀ x ∈ body.tags, f x = g x) :
    (compBodyL n dots body).lines.map f = (compBodyL n dots body).lines.map g := by
  rw [← compBodyL_natural_lines f, ← compBodyL_natural_lines g, ABlock.map_congr body hb]
  by_cases h : n = 0
  · subst h; simp only [compBodyL, if_true]
  · rw [hd h]

theorem bodyTagged_good (p : TProg) (hm : Mono p.toks) : ∀ x ∈ bodyTagged p, Good x := by
  have hbody : Mono p.body.toks := mono_sublist (List.sublist_append_right _ _) hm
  have key := body_map_congr (f := fun x : LTag => decide (Good x)) (g := fun _ => true) p.nlocals
    (p.dotsLn, (p.localLn, p.dotsLn)) (annotBlock p.body)
    (by
      intro hn
      simp only [TProg.toks, hn, if_false] at hm
      have := (List.pairwise_cons.mp (List.Pairwise.sublist (List.sublist_append_left _ _) hm)).1 p.dotsLn (by simp)
      have hg : Good (p.dotsLn, (p.localLn, p.dotsLn)) := ⟨this, Nat.le_refl _⟩
      simp only [hg, decide_true])
    (by
      intro x hx
      simp only [decide_eq_true_eq]
      exact annotBlock_good p.body hbody x hx)
  intro x hx
  have := (List.map_inj_left.mp key) x hx
  simpa using this

/-! ### relabelling the lines -/

theorem stmtLines_mapLines (σ : Nat → Nat) (p : TProg) : stmtLines (p.mapLines σ) = (stmtLines p).map σ := by
  unfold stmtLines
  simp only [TProg.mapLines, toABlock_mapLines]
  exact compBodyL_natural_lines σ _ _ _

theorem lastEline_mapLines (σ : Nat → Nat) (p : TProg) : lastEline (p.mapLines σ) = (lastEline p).map σ := by
  unfold lastEline
  simp only [TProg.mapLines, toABlock_mapLines, ABlock.last?_map]
  cases (toABlock p.body).last? with
  | some s => simp only [Option.map, AStmt.eline_map]
  | none =>
    by_cases hn : p.nlocals = 0 <;> simp only [hn, if_true, if_false, Option.map]

theorem finalLine_mapLines (σ : Nat → Nat) (p : TProg) :
    finalLine (p.mapLines σ) = match lastEline p with | some l => σ l + 1 | none => 0 := by
  unfold finalLine
  rw [lastEline_mapLines]
  cases lastEline p <;> rfl

/-! ### a number structure and a program for the kernel-evaluated examples of Props/C17.lean -/

/-- integers (`/` truncates, no NaN): any total operations do — the theorems are for EVERY number structure. -/
@[reducible] def lineNS : NumStruct where
  N := Int
  deq := inferInstance
  add := (· + ·)
  sub := (· - ·)
  mul := (· * ·)
  div := (· / ·)
  mod := (· % ·)
  pow := fun a b => a ^ b.toNat
  neg := (- ·)
  lit := id
  isNaN := fun _ => false

/--     1  local l0, l1 = ...
        2  if (
        3      l0) and l1 <
        4      2 + 1
        5  then
        6    return 1
        7  else
        8    l1, g0 =
        9      l0 .. (
       10        -
       11        l1
       12      )
       13  end
       14  while not l0 do
       15    l0 = g1 end
       16  return l0,
       17    l1                                                                                            -/
def exampleProg : TProg :=
  { nlocals := 2, localLn := 1, dotsLn := 1,
    body := .cons (.ifS 2 (.and (.paren 2 3 (.loc 3 0)) (.rel .lt (.loc 3 1) (.arith .add (.num 4 2) (.num 4 1)))) 5
              (.cons (.ret 6 [.num 6 1]) .nil) 7
              (.cons (.assign (8, .loc 1) [(8, .glob 0)] [.concat (.loc 9 0) (.paren 9 12 (.unm 10 (.loc 11 1)))]) .nil) 13)
           (.cons (.whileS 14 (.not 14 (.loc 14 0)) 14 (.cons (.assign (15, .loc 0) [] [.ev 15 1]) .nil) 15)
           (.cons (.ret 16 [.loc 16 0, .loc 17 1]) .nil)) }

end GLua.Compile
