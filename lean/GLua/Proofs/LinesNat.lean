/-
  C17, line layer — NATURALITY: the compile functions never compute with a position, they only copy it.  For every
  function `f` on positions, compiling the program whose positions were mapped through `f` gives the table mapped
  through `f` (`compL_natural`, `compStmtL_natural`, `compMainL_natural`) — and the same store.
  Consequences (Props/C17.lean): shift invariance (f = an order-preserving relabelling of lines) and provenance
  (f = a projection of (line, span of the statement the node belongs to)).
-/
import GLua.Proofs.LinesSim

namespace GLua.Compile
open GLua.MiniVM

variable [NumStruct] {α β : Type}
set_option linter.unusedSectionVars false

def LState.map (f : α → β) (S : LState α) : LState β := { st := S.st, lines := S.lines.map f }
def LRes.map (f : α → β) (r : LRes α) : LRes β := { S := r.S.map f, inc := r.inc, b := r.b }

variable (f : α → β)

@[simp] theorem LState.map_st (S : LState α) : (S.map f).st = S.st := rfl
@[simp] theorem LState.map_lines (S : LState α) : (S.map f).lines = S.lines.map f := rfl
@[simp] theorem LRes.map_S (r : LRes α) : (r.map f).S = r.S.map f := rfl
@[simp] theorem LRes.map_inc (r : LRes α) : (r.map f).inc = r.inc := rfl
@[simp] theorem LRes.map_b (r : LRes α) : (r.map f).b = r.b := rfl
@[simp] theorem LRes.map_res (r : LRes α) : (r.map f).res = r.res := rfl

@[simp] theorem emitL_map (S : LState α) (i : Instr) (t : α) : emitL (S.map f) i (f t) = (emitL S i t).map f := by
  simp only [emitL, LState.map, List.map_append, List.map_cons, List.map_nil]
@[simp] theorem cut_map (S : LState α) (st' : CState) : cut (S.map f) st' = (cut S st').map f := by
  simp only [cut, LState.map, List.map_take]
@[simp] theorem lift_map (S : LState α) (st' : CState) : lift (S.map f) st' = (lift S st').map f := rfl
@[simp] theorem newLabelL_map_fst (S : LState α) : (newLabelL (S.map f)).1 = (newLabelL S).1.map f := rfl
@[simp] theorem newLabelL_map_snd (S : LState α) : (newLabelL (S.map f)).2 = (newLabelL S).2 := rfl
@[simp] theorem setLabelHereL_map (S : LState α) (l : Nat) : setLabelHereL (S.map f) l = (setLabelHereL S l).map f := rfl

theorem ite_map {c : Prop} [Decidable c] (A B : LState α) : (if c then A.map f else B.map f) = (if c then A else B).map f := by
  split <;> rfl
theorem ite_mapR {c : Prop} [Decidable c] (A B : LRes α) : (if c then A.map f else B.map f) = (if c then A else B).map f := by
  split <;> rfl

@[simp] theorem ACond.erase_map (e : ACond α) : (e.map f).erase = e.erase := by
  induction e <;> simp only [ACond.map, ACond.erase, *]

@[simp] theorem ACond.ln_map (e : ACond α) : (e.map f).ln = f e.ln := by
  cases e <;> rfl

/-! ### helpers -/

@[simp] theorem withPropagationL_map_fst (kmv isLog : Bool) (r : LRes α) (reg : Nat) :
    (withPropagationL kmv isLog (r.map f) reg).1 = (withPropagationL kmv isLog r reg).1.map f := by
  simp only [withPropagationL, LRes.map_res, LRes.map_S, cut_map]
@[simp] theorem withPropagationL_map_snd (kmv isLog : Bool) (r : LRes α) (reg : Nat) :
    (withPropagationL kmv isLog (r.map f) reg).2 = (withPropagationL kmv isLog r reg).2 := rfl

theorem binOperandsL_map (cl cr : LState α → Nat → LRes α) (cl' cr' : LState β → Nat → LRes β) (ll rl : Bool) (S : LState α) (reg : Nat)
    (hl : ∀ S g, cl' (S.map f) g = (cl S g).map f) (hr : ∀ S g, cr' (S.map f) g = (cr S g).map f) :
    (binOperandsL cl' cr' ll rl (S.map f) reg).1 = (binOperandsL cl cr ll rl S reg).1.map f ∧
    (binOperandsL cl' cr' ll rl (S.map f) reg).2 = (binOperandsL cl cr ll rl S reg).2 := by
  refine ⟨?_, ?_⟩ <;>
    simp only [binOperandsL, hl, withPropagationL_map_fst, withPropagationL_map_snd, hr]

theorem relAuxL_map (t : α) (cl cr : LState α → Nat → LRes α) (cl' cr' : LState β → Nat → LRes β) (ll rl : Bool) (S : LState α)
    (reg : Nat) (op : RelOp) (flip label : Nat)
    (hl : ∀ S g, cl' (S.map f) g = (cl S g).map f) (hr : ∀ S g, cr' (S.map f) g = (cr S g).map f) :
    relAuxL (f t) cl' cr' ll rl (S.map f) reg op flip label = (relAuxL t cl cr ll rl S reg op flip label).map f := by
  obtain ⟨h1, h2⟩ := binOperandsL_map f cl cr cl' cr' ll rl S reg hl hr
  simp only [relAuxL, h1, h2, emitL_map]

@[simp] theorem tailBoolsL_map (t : α) (S : LState α) (a : Nat) (lb : LbLabels) (b : Bool) :
    tailBoolsL (f t) (S.map f) a lb b = (tailBoolsL t S a lb b).map f := by
  cases b
  · rfl
  · simp only [tailBoolsL, if_true, setLabelHereL_map, emitL_map]

@[simp] theorem tailPopL_map (S : LState α) (e : Nat) : tailPopL (S.map f) e = (tailPopL S e).map f := by
  simp only [tailPopL, LState.map_st, cut_map]

@[simp] theorem logicalTailL_map (t : α) (S : LState α) (a : Nat) (lb : LbLabels) (b : Bool) :
    logicalTailL (f t) (S.map f) a lb b = (logicalTailL t S a lb b).map f := by
  simp only [logicalTailL, tailBoolsL_map, tailPopL_map, setLabelHereL_map]

@[simp] theorem loadKL_map (t : α) (k : Konst) (reg : Nat) (ec : ExpCtx) (S : LState α) :
    loadKL (f t) k reg ec (S.map f) = (loadKL t k reg ec S).map f := by
  simp only [loadKL, LState.map_st, lift_map, emitL_map]; rfl

@[simp] theorem leafExprL_map (t : α) (e : Cond) (reg : Nat) (ec : ExpCtx) (S : LState α) :
    leafExprL (f t) e reg ec (S.map f) = (leafExprL t e reg ec S).map f := by
  cases e <;> simp only [leafExprL, loadKL_map, LState.map_st, lift_map, emitL_map] <;> rfl

theorem notExprL_map (t : α) (c : Cond) (sub : LState α → LRes α) (sub' : LState β → LRes β) (reg : Nat) (ec : ExpCtx) (S : LState α)
    (h : ∀ S, sub' (S.map f) = (sub S).map f) :
    notExprL (f t) c sub' reg ec (S.map f) = (notExprL t c sub reg ec S).map f := by
  cases c <;> simp only [notExprL, h, withPropagationL_map_fst, withPropagationL_map_snd, emitL_map] <;> rfl

theorem arithExprL_map (t : α) (folded : Option NumStruct.N) (op : ArithOp) (cl cr : LState α → Nat → LRes α)
    (cl' cr' : LState β → Nat → LRes β) (ll rl : Bool) (reg : Nat) (ec : ExpCtx) (S : LState α)
    (hl : ∀ S g, cl' (S.map f) g = (cl S g).map f) (hr : ∀ S g, cr' (S.map f) g = (cr S g).map f) :
    arithExprL (f t) folded op cl' cr' ll rl reg ec (S.map f) = (arithExprL t folded op cl cr ll rl reg ec S).map f := by
  cases folded with
  | some x => simp only [arithExprL, loadKL_map]
  | none =>
    obtain ⟨h1, h2⟩ := binOperandsL_map f cl cr cl' cr' ll rl S reg hl hr
    simp only [arithExprL, h1, h2, emitL_map]; rfl

theorem unopExprL_map (t : α) (mk : Nat → Nat → Instr) (isLog : Bool) (sub : LState α → LRes α) (sub' : LState β → LRes β)
    (reg : Nat) (ec : ExpCtx) (S : LState α) (h : ∀ S, sub' (S.map f) = (sub S).map f) :
    unopExprL (f t) mk isLog sub' reg ec (S.map f) = (unopExprL t mk isLog sub reg ec S).map f := by
  simp only [unopExprL, h, withPropagationL_map_fst, withPropagationL_map_snd, emitL_map]; rfl

theorem unmExprL_map (t : α) (folded : Option NumStruct.N) (isLog : Bool) (sub : LState α → LRes α) (sub' : LState β → LRes β)
    (reg : Nat) (ec : ExpCtx) (S : LState α) (h : ∀ S, sub' (S.map f) = (sub S).map f) :
    unmExprL (f t) folded isLog sub' reg ec (S.map f) = (unmExprL t folded isLog sub reg ec S).map f := by
  cases folded with
  | some x => simp only [unmExprL, loadKL_map]
  | none => exact unopExprL_map f t .unm isLog sub sub' reg ec S h

@[simp] theorem popConcatsL_map (S : LState α) : popConcatsL (S.map f) = (popConcatsL S).map f := by
  simp only [popConcatsL, LState.map_st, cut_map]

theorem concatExprL_map (t : α) (crange : Nat) (cl cr : LState α → Nat → LRes α) (cl' cr' : LState β → Nat → LRes β)
    (reg : Nat) (ec : ExpCtx) (S : LState α)
    (hl : ∀ S g, cl' (S.map f) g = (cl S g).map f) (hr : ∀ S g, cr' (S.map f) g = (cr S g).map f) :
    concatExprL (f t) crange cl' cr' reg ec (S.map f) = (concatExprL t crange cl cr reg ec S).map f := by
  simp only [concatExprL, hl, LRes.map_S, LRes.map_inc, hr, popConcatsL_map, emitL_map]; rfl

@[simp] theorem moveToL_map (t : α) (S : LState α) (sreg a : Nat) :
    moveToL (f t) (S.map f) sreg a = (moveToL t S sreg a).map f := by
  unfold moveToL
  simp only [LState.map_st]
  split
  · split
    · rfl
    · exact emitL_map f S _ t
  · exact emitL_map f S _ t

theorem auxDefaultL_map (t : α) (sub : ExpCtx → LState α → LRes α) (sub' : ExpCtx → LState β → LRes β) (reg : Nat) (ec : ExpCtx)
    (thenl elsel : Nat) (hasnext : Bool) (lb : LbLabels) (b : Bool) (S : LState α)
    (h : ∀ ec' S, sub' ec' (S.map f) = (sub ec' S).map f) :
    auxDefaultL (f t) sub' reg ec thenl elsel hasnext lb b (S.map f) = (auxDefaultL t sub reg ec thenl elsel hasnext lb b S).map f := by
  simp only [auxDefaultL, h, LRes.map_S, moveToL_map, emitL_map, ite_map]
  by_cases hc : hasnext = false ∧ thenl = elsel
  · rw [if_pos hc, if_pos hc]; rfl
  · rw [if_neg hc, if_neg hc]; rfl

@[simp] theorem bcDefaultL_map (t : α) (r : LRes α) (reg flip jumplabel : Nat) :
    bcDefaultL (f t) (r.map f) reg flip jumplabel = (bcDefaultL t r reg flip jumplabel).map f := by
  simp only [bcDefaultL, withPropagationL_map_fst, withPropagationL_map_snd, emitL_map]; rfl

/-! ### expressions -/

/-- **naturality, expressions**. -/
theorem compL_natural (e : ACond α) : ∀ (m : Mode) (S : LState α), compL (e.map f) m (S.map f) = (compL e m S).map f := by
  induction e with
  | tru t | fls t | nil t | num t n | str t s =>
    intro m S
    cases m <;> simp only [compL, ACond.map, leafExprL_map, bcDefaultL_map, emitL_map, LRes.map_S] <;> (try split) <;> rfl
  | loc t r =>
    intro m S
    cases m with
    | expr reg ec => simp only [compL, ACond.map, leafExprL_map]
    | aux reg ec thenl elsel hasnext lb b =>
      simp only [compL, ACond.map]
      split
      · simp only [emitL_map, ite_map]; rfl
      · exact auxDefaultL_map f t _ _ reg ec thenl elsel hasnext lb b S (fun ec' S' => leafExprL_map f t _ reg ec' S')
    | bc reg thenl elsel hasnext => simp only [compL, ACond.map, leafExprL_map, bcDefaultL_map]
  | ev t id =>
    intro m S
    cases m with
    | expr reg ec => simp only [compL, ACond.map, leafExprL_map]
    | aux reg ec thenl elsel hasnext lb b =>
      simp only [compL, ACond.map]
      exact auxDefaultL_map f t _ _ reg ec thenl elsel hasnext lb b S (fun ec' S' => leafExprL_map f t _ reg ec' S')
    | bc reg thenl elsel hasnext => simp only [compL, ACond.map, leafExprL_map, bcDefaultL_map]
  | not t c ih =>
    intro m S
    cases m with
    | expr reg ec =>
      simp only [compL, ACond.map, ACond.erase_map]
      exact notExprL_map f t _ _ _ reg ec S (fun S' => ih _ S')
    | aux reg ec thenl elsel hasnext lb b =>
      simp only [compL, ACond.map, ACond.erase_map]
      exact auxDefaultL_map f t _ _ reg ec thenl elsel hasnext lb b S
        (fun ec' S' => notExprL_map f t _ _ _ reg ec' S' (fun S'' => ih _ S''))
    | bc reg thenl elsel hasnext => simp only [compL, ACond.map]; exact ih _ S
  | and t l r ihl ihr | or t l r ihl ihr =>
    intro m S
    cases m with
    | expr reg ec =>
      simp only [compL, ACond.map, newLabelL_map_fst, newLabelL_map_snd, ihl, LRes.map_S, LRes.map_b, setLabelHereL_map, ihr,
        logicalTailL_map]
      rfl
    | aux reg ec thenl elsel hasnext lb b =>
      simp only [compL, ACond.map, newLabelL_map_fst, newLabelL_map_snd, ihl, LRes.map_S, LRes.map_b, setLabelHereL_map, ihr]
    | bc reg thenl elsel hasnext =>
      simp only [compL, ACond.map, newLabelL_map_fst, newLabelL_map_snd, ihl, LRes.map_S, setLabelHereL_map, ihr]
  | rel t op l r ihl ihr =>
    intro m S
    have hl : ∀ (S : LState α) (g : Nat), compL (l.map f) (.expr g ecnone0) (S.map f) = (compL l (.expr g ecnone0) S).map f := fun S g => ihl _ S
    have hr : ∀ (S : LState α) (g : Nat), compL (r.map f) (.expr g ecnone0) (S.map f) = (compL r (.expr g ecnone0) S).map f := fun S g => ihr _ S
    have key := fun (S' : LState α) (reg flip label : Nat) =>
      relAuxL_map f t (fun s g => compL l (.expr g ecnone0) s) (fun s g => compL r (.expr g ecnone0) s)
        (fun s g => compL (l.map f) (.expr g ecnone0) s) (fun s g => compL (r.map f) (.expr g ecnone0) s)
        l.erase.isLogical r.erase.isLogical S' reg op flip label hl hr
    cases m with
    | expr reg ec =>
      simp only [compL, ACond.map, ACond.erase_map, newLabelL_map_fst, newLabelL_map_snd, key, emitL_map, setLabelHereL_map]
      rfl
    | aux reg ec thenl elsel hasnext lb b =>
      simp only [compL, ACond.map, ACond.erase_map, key]
      rfl
    | bc reg thenl elsel hasnext =>
      simp only [compL, ACond.map, ACond.erase_map, key]
      rfl
  | arith t op l r ihl ihr =>
    intro m S
    have hl : ∀ (S : LState α) (g : Nat), compL (l.map f) (.expr g ecnone0) (S.map f) = (compL l (.expr g ecnone0) S).map f := fun S g => ihl _ S
    have hr : ∀ (S : LState α) (g : Nat), compL (r.map f) (.expr g ecnone0) (S.map f) = (compL r (.expr g ecnone0) S).map f := fun S g => ihr _ S
    have key := fun (ec : ExpCtx) (S' : LState α) (reg : Nat) =>
      arithExprL_map f t (lnum (.arith op l.erase r.erase)) op (fun s g => compL l (.expr g ecnone0) s) (fun s g => compL r (.expr g ecnone0) s)
        (fun s g => compL (l.map f) (.expr g ecnone0) s) (fun s g => compL (r.map f) (.expr g ecnone0) s)
        l.erase.isLogical r.erase.isLogical reg ec S' hl hr
    cases m with
    | expr reg ec => simp only [compL, ACond.map, ACond.erase_map, key]
    | aux reg ec thenl elsel hasnext lb b =>
      simp only [compL, ACond.map, ACond.erase_map]
      exact auxDefaultL_map f t _ _ reg ec thenl elsel hasnext lb b S (fun ec' S' => key ec' S' reg)
    | bc reg thenl elsel hasnext => simp only [compL, ACond.map, ACond.erase_map, key, bcDefaultL_map]
  | unm t c ih =>
    intro m S
    have key := fun (ec : ExpCtx) (S' : LState α) (reg : Nat) =>
      unmExprL_map f t (lnum (.unm c.erase)) c.erase.isLogical (fun s => compL c (.expr reg ecnone0) s)
        (fun s => compL (c.map f) (.expr reg ecnone0) s) reg ec S' (fun S'' => ih _ S'')
    cases m with
    | expr reg ec => simp only [compL, ACond.map, ACond.erase_map, key]
    | aux reg ec thenl elsel hasnext lb b =>
      simp only [compL, ACond.map, ACond.erase_map]
      exact auxDefaultL_map f t _ _ reg ec thenl elsel hasnext lb b S (fun ec' S' => key ec' S' reg)
    | bc reg thenl elsel hasnext => simp only [compL, ACond.map, ACond.erase_map, key, bcDefaultL_map]
  | len t c ih =>
    intro m S
    have key := fun (ec : ExpCtx) (S' : LState α) (reg : Nat) =>
      unopExprL_map f t .len c.erase.isLogical (fun s => compL c (.expr reg ecnone0) s)
        (fun s => compL (c.map f) (.expr reg ecnone0) s) reg ec S' (fun S'' => ih _ S'')
    cases m with
    | expr reg ec => simp only [compL, ACond.map, ACond.erase_map, key]
    | aux reg ec thenl elsel hasnext lb b =>
      simp only [compL, ACond.map, ACond.erase_map]
      exact auxDefaultL_map f t _ _ reg ec thenl elsel hasnext lb b S (fun ec' S' => key ec' S' reg)
    | bc reg thenl elsel hasnext => simp only [compL, ACond.map, ACond.erase_map, key, bcDefaultL_map]
  | concat t l r ihl ihr =>
    intro m S
    have hl : ∀ (S : LState α) (g : Nat), compL (l.map f) (.expr g ecnone0) (S.map f) = (compL l (.expr g ecnone0) S).map f := fun S g => ihl _ S
    have hr : ∀ (S : LState α) (g : Nat), compL (r.map f) (.expr g ecnone0) (S.map f) = (compL r (.expr g ecnone0) S).map f := fun S g => ihr _ S
    have key := fun (ec : ExpCtx) (S' : LState α) (reg : Nat) =>
      concatExprL_map f t (1 + spine r.erase) (fun s g => compL l (.expr g ecnone0) s) (fun s g => compL r (.expr g ecnone0) s)
        (fun s g => compL (l.map f) (.expr g ecnone0) s) (fun s g => compL (r.map f) (.expr g ecnone0) s) reg ec S' hl hr
    cases m with
    | expr reg ec => simp only [compL, ACond.map, ACond.erase_map, key]
    | aux reg ec thenl elsel hasnext lb b =>
      simp only [compL, ACond.map, ACond.erase_map]
      exact auxDefaultL_map f t _ _ reg ec thenl elsel hasnext lb b S (fun ec' S' => key ec' S' reg)
    | bc reg thenl elsel hasnext => simp only [compL, ACond.map, ACond.erase_map, key, bcDefaultL_map]

theorem compileBranchConditionL_map (S : LState α) (reg : Nat) (e : ACond α) (thenl elsel : Nat) (hasnext : Bool) :
    compileBranchConditionL (S.map f) reg (e.map f) thenl elsel hasnext = (compileBranchConditionL S reg e thenl elsel hasnext).map f := by
  simp only [compileBranchConditionL, compL_natural, LRes.map_S]

/-! ### assignment -/

/-- a target / context list with its positions mapped. -/
def mapFst {γ : Type} (l : List (α × γ)) : List (β × γ) := l.map fun p => (f p.1, p.2)

theorem mapFst_snd {γ : Type} (l : List (α × γ)) : (mapFst f l).map Prod.snd = l.map Prod.snd := by
  simp only [mapFst, List.map_map]; rfl
theorem mapFst_fst {γ : Type} (l : List (α × γ)) : (mapFst f l).map Prod.fst = (l.map Prod.fst).map f := by
  simp only [mapFst, List.map_map]; rfl

theorem compileAssignStmtLeftL_map (S : LState α) (lhs : List (α × Target)) (nrhs : Nat) :
    compileAssignStmtLeftL (S.map f) (mapFst f lhs) nrhs =
      ((compileAssignStmtLeftL S lhs nrhs).1.map f, mapFst f (compileAssignStmtLeftL S lhs nrhs).2) := by
  unfold compileAssignStmtLeftL
  rw [mapFst_snd, mapFst_fst]
  simp only [LState.map_st, lift_map, List.zip_map_left]
  rfl

theorem headD_map (rhs : List (ACond α)) (t : α) : (rhs.map (ACond.map f)).headD (.nil (f t)) = (rhs.headD (.nil t)).map f := by
  cases rhs <;> rfl

theorem assignNamedL_map : ∀ (l : List (α × AssignCtx)) (S : LState α) (reg : Nat) (rhs : List (ACond α)),
    assignNamedL (S.map f) reg (mapFst f l) (rhs.map (ACond.map f)) =
      ((assignNamedL S reg l rhs).1.map f, (assignNamedL S reg l rhs).2.1, mapFst f (assignNamedL S reg l rhs).2.2.1,
        (assignNamedL S reg l rhs).2.2.2.map (ACond.map f))
  | [], _, _, _ => rfl
  | (t, ac) :: l, S, reg, rhs => by
    have ih := assignNamedL_map l (compL (rhs.headD (.nil t)) (.expr reg ac.ec) S).S
      (reg + (compL (rhs.headD (.nil t)) (.expr reg ac.ec) S).inc) rhs.tail
    simp only [mapFst, List.map_cons, assignNamedL, headD_map, compL_natural, LRes.map_S, LRes.map_inc, ← List.map_tail]
    simp only [mapFst] at ih
    rw [ih]

theorem assignSurplusL_map : ∀ (extra : List (ACond α)) (S : LState α) (reg : Nat),
    assignSurplusL (S.map f) reg (extra.map (ACond.map f)) = (assignSurplusL S reg extra).map f
  | [], _, _ => rfl
  | e :: rest, S, reg => by
    simp only [List.map_cons, assignSurplusL, compL_natural, LRes.map_S, LRes.map_inc, assignSurplusL_map rest]

theorem compileAssignStmtRightL_map (S : LState α) (reg : Nat) (l : List (α × AssignCtx)) (rhs : List (ACond α)) :
    compileAssignStmtRightL (S.map f) reg (mapFst f l) (rhs.map (ACond.map f)) =
      ((compileAssignStmtRightL S reg l rhs).1.map f, (compileAssignStmtRightL S reg l rhs).2.1,
        mapFst f (compileAssignStmtRightL S reg l rhs).2.2) := by
  simp only [compileAssignStmtRightL, assignNamedL_map, assignSurplusL_map]

theorem assignStoresL_map : ∀ (l : List (Target × α × AssignCtx)) (S : LState α) (reg : Nat),
    assignStoresL (S.map f) reg (l.map fun p => (p.1, f p.2.1, p.2.2)) = (assignStoresL S reg l).map f
  | [], _, _ => rfl
  | (.loc r, t, ac) :: rest, S, reg => by
    simp only [List.map_cons, assignStoresL]
    split
    · rw [emitL_map, assignStoresL_map rest]
    · rw [assignStoresL_map rest]
  | (.glob id, t, ac) :: rest, S, reg => by
    simp only [List.map_cons, assignStoresL, LState.map_st, lift_map, emitL_map]
    rw [assignStoresL_map rest]

theorem compileAssignStmtL_map (S : LState α) (lhs : List (α × Target)) (rhs : List (ACond α)) :
    compileAssignStmtL (S.map f) (mapFst f lhs) (rhs.map (ACond.map f)) = (compileAssignStmtL S lhs rhs).map f := by
  simp only [compileAssignStmtL, List.length_map, compileAssignStmtLeftL_map, LState.map_st, compileAssignStmtRightL_map,
    mapFst_snd]
  rw [← assignStoresL_map]
  simp only [mapFst, List.zip_map_right, List.map_reverse]
  rfl

theorem retGoL_map : ∀ (cs : List (ACond α)) (S : LState α) (reg : Nat),
    retGoL (S.map f) reg (cs.map (ACond.map f)) = ((retGoL S reg cs).1.map f, (retGoL S reg cs).2)
  | [], _, _ => rfl
  | e :: rest, S, reg => by
    simp only [List.map_cons, retGoL, compL_natural, LRes.map_S, LRes.map_inc, retGoL_map rest]

/-! ### statements -/

@[simp] theorem ABlock.map_isEmpty (b : ABlock α) : (b.map f).isEmpty = b.isEmpty := by cases b <;> rfl

theorem map_erase_list (cs : List (ACond α)) : (cs.map (ACond.map f)).map ACond.erase = cs.map ACond.erase := by
  simp only [List.map_map]
  congr 1; funext c; exact ACond.erase_map f c

theorem getD_map (last : Option α) (t : α) : (last.map f).getD (f t) = f (last.getD t) := by cases last <;> rfl

mutual
/-- **naturality, statements**. -/
theorem compStmtL_natural : ∀ (s : AStmt α) (S : LState α), compStmtL (s.map f) (S.map f) = (compStmtL s S).map f
  | .ifS t last c thn els, S => by
    simp only [AStmt.map, compStmtL, ABlock.map_isEmpty, newLabelL_map_fst, newLabelL_map_snd, LState.map_st,
      compileBranchConditionL_map, setLabelHereL_map, compBlockL_natural thn]
    cases hemp : els.isEmpty with
    | true => simp only [if_true, setLabelHereL_map]
    | false => simp only [Bool.false_eq_true, if_false, emitL_map, setLabelHereL_map, compBlockL_natural els]
  | .whileS t last c body, S => by
    simp only [AStmt.map, compStmtL, newLabelL_map_fst, newLabelL_map_snd, LState.map_st,
      compileBranchConditionL_map, setLabelHereL_map, compChunkL_natural body, getD_map, emitL_map, lift_map]
  | .repeatS t last body c, S => by
    simp only [AStmt.map, compStmtL, newLabelL_map_fst, newLabelL_map_snd, LState.map_st,
      compileBranchConditionL_map, setLabelHereL_map, compChunkL_natural body, lift_map]
  | .ret t cs, S => by
    simp only [AStmt.map, compStmtL, map_erase_list, LState.map_st, retGoL_map]
    split <;> simp only [emitL_map]
  | .localDef t c, S => by
    simp only [AStmt.map, compStmtL, LState.map_st, compL_natural, LRes.map_S, lift_map]
  | .assign t lhs rhs, S => by
    simp only [AStmt.map, compStmtL]
    exact compileAssignStmtL_map f S lhs rhs
theorem compChunkL_natural : ∀ (b : ABlock α) (S : LState α), compChunkL (b.map f) (S.map f) = (compChunkL b S).map f
  | .nil, _ => rfl
  | .cons s rest, S => by
    simp only [ABlock.map, compChunkL, compStmtL_natural s, compChunkL_natural rest]
theorem compBlockL_natural : ∀ (b : ABlock α) (S : LState α), compBlockL (b.map f) (S.map f) = (compBlockL b S).map f
  | .nil, _ => rfl
  | .cons s rest, S => by
    simp only [ABlock.map, compBlockL, compStmtL_natural s, compChunkL_natural rest, LState.map_st, lift_map]
end

/-- **naturality, main chunk**. -/
theorem compBodyL_natural (nlocals : Nat) (dots : α) (body : ABlock α) :
    compBodyL nlocals (f dots) (body.map f) = (compBodyL nlocals dots body).map f := by
  have h0 : ({ st := {}, lines := [] } : LState β) = LState.map f ({ st := {}, lines := [] } : LState α) := rfl
  simp only [compBodyL]
  rw [h0]
  split
  · rw [compChunkL_natural]
  · rw [emitL_map, LState.map_st, lift_map, compChunkL_natural]

theorem compMainL_natural (nlocals : Nat) (dots fin : α) (body : ABlock α) :
    compMainL nlocals (f dots) (f fin) (body.map f) = (compMainL nlocals dots fin body).map f := by
  simp only [compMainL, compBodyL_natural, emitL_map]

theorem compBodyL_natural_lines (nlocals : Nat) (dots : α) (body : ABlock α) :
    (compBodyL nlocals (f dots) (body.map f)).lines = (compBodyL nlocals dots body).lines.map f := by
  rw [compBodyL_natural]; rfl

theorem compMainL_natural_lines (nlocals : Nat) (dots fin : α) (body : ABlock α) :
    (compMainL nlocals (f dots) (f fin) (body.map f)).lines = (compMainL nlocals dots fin body).lines.map f := by
  rw [compMainL_natural]; rfl

end GLua.Compile
