/-
  C17, line layer — CODE RANGES: compiling an expression / a statement from ANY store only APPENDS to the line table
  (the `Pop`s of Propagate(K)MV, of compileLogicalOpExpr and of the CONCAT-popping loop never reach below the point
  where the expression started), and every appended entry is a position stored in the expression / statement.
  Hence: the instructions at the positions [len before, len after) — the CODE OF THE STATEMENT — all carry lines of the
  statement's own tokens (`stmt_code_lines`), whatever was compiled before and whatever is compiled after.
-/
import GLua.Proofs.LinesWf
import GLua.Proofs.LinesSpan
import GLua.Proofs.LoweringValue

namespace GLua.Compile
open GLua.MiniVM GLua.Lines GLua.Lowering

variable [NumStruct] {α : Type}
set_option linter.unusedSectionVars false

/-- the table of `S` is `base` followed by entries that all occur in `T`; one entry per instruction. -/
structure Ext (base T : List α) (S : LState α) : Prop where
  wf : WF S
  ext : ∃ δ, S.lines = base ++ δ ∧ ∀ t ∈ δ, t ∈ T

theorem Ext.base_le {base T : List α} {S : LState α} (h : Ext base T S) : base.length ≤ S.st.code.length := by
  obtain ⟨δ, hδ, _⟩ := h.ext
  rw [← h.wf, hδ, List.length_append]; omega

theorem Ext.mono {base T T' : List α} {S : LState α} (h : Ext base T S) (hT : ∀ t ∈ T, t ∈ T') : Ext base T' S :=
  ⟨h.wf, by obtain ⟨δ, h1, h2⟩ := h.ext; exact ⟨δ, h1, fun t ht => hT t (h2 t ht)⟩⟩

/-- from `S` to `S'`: still an extension of `base`, at least `k` instructions more, same register top. -/
structure Step (base T : List α) (S S' : LState α) (k : Nat) : Prop where
  ext : Ext base T S'
  len : S.st.code.length + k ≤ S'.st.code.length
  top : S'.st.regTop = S.st.regTop

variable {base T : List α}

theorem step_refl {S : LState α} (h : Ext base T S) : Step base T S S 0 := ⟨h, Nat.le_refl _, rfl⟩

theorem Step.weaken {S S' : LState α} {k j : Nat} (h : Step base T S S' k) (hj : j ≤ k) : Step base T S S' j :=
  ⟨h.ext, by have := h.len; omega, h.top⟩

theorem Step.trans {S S' S'' : LState α} {k j : Nat} (h1 : Step base T S S' k) (h2 : Step base T S' S'' j) :
    Step base T S S'' (k + j) :=
  ⟨h2.ext, by have := h1.len; have := h2.len; omega, by rw [h2.top, h1.top]⟩

theorem Step.emit {S S' : LState α} {k : Nat} (h : Step base T S S' k) (i : Instr) {t : α} (ht : t ∈ T) :
    Step base T S (emitL S' i t) (k + 1) := by
  refine ⟨⟨wf_emitL h.ext.wf i t, ?_⟩, ?_, h.top⟩
  · obtain ⟨δ, h1, h2⟩ := h.ext.ext
    refine ⟨δ ++ [t], by simp only [emitL_lines, h1, List.append_assoc], ?_⟩
    intro x hx
    rcases List.mem_append.mp hx with hx | hx
    · exact h2 x hx
    · rw [List.mem_singleton.mp hx]; exact ht
  · have := h.len
    simp only [emitL_st, GLua.Compile.emit, List.length_append, List.length_singleton]; omega

theorem Step.lift {S S' : LState α} {k : Nat} (h : Step base T S S' k) {st' : CState} (hc : st'.code.length = S'.st.code.length)
    (ht : st'.regTop = S'.st.regTop) : Step base T S (lift S' st') k :=
  ⟨⟨wf_lift' h.ext.wf hc, h.ext.ext⟩, by simp only [lift_st, hc]; exact h.len, by simp only [lift_st, ht]; exact h.top⟩

/-- a function that only pops and leaves at least `j` instructions above the start. -/
theorem Step.cut' {S S' : LState α} {k : Nat} (h : Step base T S S' k) (hS : base.length ≤ S.st.code.length) {st' : CState} (j : Nat)
    (hle : st'.code.length ≤ S'.st.code.length) (hge : S.st.code.length + j ≤ st'.code.length)
    (ht : st'.regTop = S'.st.regTop) : Step base T S (cut S' st') j := by
  refine ⟨⟨wf_cut h.ext.wf hle, ?_⟩, by simp only [cut_st]; exact hge, by simp only [cut_st, ht]; exact h.top⟩
  obtain ⟨δ, h1, h2⟩ := h.ext.ext
  refine ⟨δ.take (st'.code.length - base.length), ?_, fun t ht => h2 t (List.mem_of_mem_take ht)⟩
  simp only [cut_lines, h1, List.take_append]
  rw [List.take_of_length_le (by omega)]

/-- a function that only pops, at most `j ≤ k` instructions. -/
theorem Step.cut {S S' : LState α} {k : Nat} (h : Step base T S S' k) (hS : base.length ≤ S.st.code.length) {st' : CState} (j : Nat)
    (hj : j ≤ k) (hle : st'.code.length ≤ S'.st.code.length) (hge : S'.st.code.length ≤ st'.code.length + j)
    (ht : st'.regTop = S'.st.regTop) : Step base T S (cut S' st') (k - j) :=
  h.cut' hS (k - j) hle (by have := h.len; omega) ht

/-! ### what the popping functions of the existing model do to the length and the register top -/

theorem propagate_spec (kmv : Bool) (st : CState) (top reg inc : Nat) :
    (propagate kmv st top reg inc).1.code.length ≤ st.code.length ∧
    st.code.length ≤ (propagate kmv st top reg inc).1.code.length + 1 ∧
    (propagate kmv st top reg inc).1.regTop = st.regTop ∧
    reg ≤ (propagate kmv st top reg inc).2.2 := by
  unfold propagate
  split
  · split
    · exact ⟨pop_length_le st, by simp only [pop, List.length_dropLast]; omega, rfl, Nat.le_refl _⟩
    · exact ⟨Nat.le_refl _, Nat.le_succ _, rfl, Nat.le_add_right _ _⟩
  · split
    · exact ⟨pop_length_le st, by simp only [pop, List.length_dropLast]; omega, rfl, Nat.le_refl _⟩
    · exact ⟨Nat.le_refl _, Nat.le_succ _, rfl, Nat.le_add_right _ _⟩
  · exact ⟨Nat.le_refl _, Nat.le_succ _, rfl, Nat.le_add_right _ _⟩

theorem withPropagation_spec (kmv isLog : Bool) (r : Res) (reg : Nat) :
    (withPropagation kmv isLog r reg).1.code.length ≤ r.st.code.length ∧
    r.st.code.length ≤ (withPropagation kmv isLog r reg).1.code.length + 1 ∧
    (withPropagation kmv isLog r reg).1.regTop = r.st.regTop ∧
    reg ≤ (withPropagation kmv isLog r reg).2.2 := by
  unfold withPropagation
  split
  · exact ⟨Nat.le_refl _, Nat.le_succ _, rfl, Nat.le_add_right _ _⟩
  · exact propagate_spec _ _ _ _ _

theorem tailPop_spec (st : CState) (e : Nat) :
    (tailPop st e).code.length ≤ st.code.length ∧ st.code.length ≤ (tailPop st e).code.length + 1 ∧
    (tailPop st e).regTop = st.regTop := by
  unfold tailPop
  split
  · split
    · exact ⟨pop_length_le st, by simp only [pop, List.length_dropLast]; omega, rfl⟩
    · exact ⟨Nat.le_refl _, Nat.le_succ _, rfl⟩
  · exact ⟨Nat.le_refl _, Nat.le_succ _, rfl⟩

/-! ### helpers -/

/-- closures: compile functions of sub-expressions in value context. -/
def SubStep (base T : List α) (reg : Nat) (sub : LState α → LRes α) : Prop :=
  ∀ S, Ext base T S → S.st.regTop ≤ reg → Step base T S (sub S).S 1

def SubStep2 (base T : List α) (sub : LState α → Nat → LRes α) : Prop :=
  ∀ S g, Ext base T S → S.st.regTop ≤ g → Step base T S (sub S g).S 1

theorem step_withPropagationL {S : LState α} (kmv isLog : Bool) (r : LRes α) (reg : Nat) (hS : base.length ≤ S.st.code.length)
    (h : Step base T S r.S 1) : Step base T S (withPropagationL kmv isLog r reg).1 0 := by
  obtain ⟨h1, h2, h3, _⟩ := withPropagation_spec kmv isLog r.res reg
  exact h.cut hS 1 (Nat.le_refl _) h1 h2 h3

theorem step_binOperandsL (cl cr : LState α → Nat → LRes α) (ll rl : Bool) (S : LState α) (reg : Nat)
    (hl : SubStep2 base T cl) (hr : SubStep2 base T cr) (hS : Ext base T S) (htop : S.st.regTop ≤ reg) :
    Step base T S (binOperandsL cl cr ll rl S reg).1 0 := by
  simp only [binOperandsL]
  have s1 := step_withPropagationL true ll (cl S reg) reg hS.base_le (hl S reg hS htop)
  have hreg := (withPropagation_spec true ll (cl S reg).res reg).2.2.2
  have htop2 : (withPropagationL true ll (cl S reg) reg).1.st.regTop ≤ (withPropagationL true ll (cl S reg) reg).2.2 := by
    rw [s1.top]; exact Nat.le_trans htop hreg
  have s2 := step_withPropagationL true rl (cr (withPropagationL true ll (cl S reg) reg).1 (withPropagationL true ll (cl S reg) reg).2.2)
    (withPropagationL true ll (cl S reg) reg).2.2 s1.ext.base_le (hr _ _ s1.ext htop2)
  exact s1.trans s2

theorem step_relAuxL (t : α) (cl cr : LState α → Nat → LRes α) (ll rl : Bool) (S : LState α) (reg : Nat) (op : RelOp)
    (flip label : Nat) (hl : SubStep2 base T cl) (hr : SubStep2 base T cr) (ht : t ∈ T) (hS : Ext base T S)
    (htop : S.st.regTop ≤ reg) : Step base T S (relAuxL t cl cr ll rl S reg op flip label) 2 := by
  simp only [relAuxL]
  exact ((step_binOperandsL cl cr ll rl S reg hl hr hS htop).emit _ ht).emit _ ht

theorem step_setLabelHereL {S S' : LState α} {k : Nat} (h : Step base T S S' k) (l : Nat) : Step base T S (setLabelHereL S' l) k :=
  h.lift rfl rfl

theorem step_newLabelL {S S' : LState α} {k : Nat} (h : Step base T S S' k) : Step base T S (newLabelL S').1 k :=
  h.lift rfl rfl

theorem step_tailBoolsL (t : α) {S S' : LState α} {k : Nat} (a : Nat) (lb : LbLabels) (b : Bool) (ht : t ∈ T)
    (h : Step base T S S' k) : Step base T S (tailBoolsL t S' a lb b) k := by
  cases b
  · exact h
  · exact (step_setLabelHereL ((step_setLabelHereL h _).emit _ ht) _ |>.emit _ ht).weaken (by omega)

theorem step_logicalTailL (t : α) {S S' : LState α} {k : Nat} (a : Nat) (lb : LbLabels) (b : Bool) (ht : t ∈ T)
    (hS : base.length ≤ S.st.code.length) (h : Step base T S S' (k + 1)) : Step base T S (logicalTailL t S' a lb b) k := by
  simp only [logicalTailL, tailPopL]
  obtain ⟨h1, h2, h3⟩ := tailPop_spec (tailBoolsL t S' a lb b).st lb.e
  exact step_setLabelHereL ((step_tailBoolsL t a lb b ht h).cut hS 1 (by omega) h1 h2 h3) _

theorem constIndex_regTop (st : CState) (k : Konst) : (constIndex st k).1.regTop = st.regTop := by
  unfold constIndex; split <;> rfl

theorem step_loadKL (t : α) (k : Konst) (reg : Nat) (ec : ExpCtx) (S : LState α) (ht : t ∈ T) (hS : Ext base T S) :
    Step base T S (loadKL t k reg ec S).S 1 :=
  ((step_refl hS).lift (by rw [constIndex_code]) (constIndex_regTop _ _)).emit _ ht

theorem step_leafExprL (t : α) (e : Cond) (he : isLeaf e = true) (reg : Nat) (ec : ExpCtx) (S : LState α) (ht : t ∈ T)
    (hS : Ext base T S) : Step base T S (leafExprL t e reg ec S).S 1 := by
  cases e <;> simp only [isLeaf] at he <;> simp only [leafExprL]
  case tru => exact (step_refl hS).emit _ ht
  case fls => exact (step_refl hS).emit _ ht
  case nil => exact (step_refl hS).emit _ ht
  case num n => exact step_loadKL t _ reg ec S ht hS
  case str s => exact step_loadKL t _ reg ec S ht hS
  case loc r => exact (step_refl hS).emit _ ht
  case ev id => exact ((step_refl hS).lift (by rw [constIndex_code]) (constIndex_regTop _ _)).emit _ ht
  all_goals cases he

theorem step_notExprL (t : α) (c : Cond) (sub : LState α → LRes α) (reg : Nat) (ec : ExpCtx) (S : LState α)
    (hs : SubStep base T reg sub) (ht : t ∈ T) (hS : Ext base T S) (htop : S.st.regTop ≤ reg) :
    Step base T S (notExprL t c sub reg ec S).S 1 := by
  cases c <;> simp only [notExprL] <;>
    first
    | exact (step_refl hS).emit _ ht
    | exact (step_withPropagationL _ _ _ _ hS.base_le (hs S hS htop)).emit _ ht

theorem step_arithExprL (t : α) (folded : Option NumStruct.N) (op : ArithOp) (cl cr : LState α → Nat → LRes α) (ll rl : Bool)
    (reg : Nat) (ec : ExpCtx) (S : LState α) (hl : SubStep2 base T cl) (hr : SubStep2 base T cr) (ht : t ∈ T)
    (hS : Ext base T S) (htop : S.st.regTop ≤ reg) : Step base T S (arithExprL t folded op cl cr ll rl reg ec S).S 1 := by
  cases folded with
  | some x => exact step_loadKL t _ reg ec S ht hS
  | none => exact (step_binOperandsL cl cr ll rl S reg hl hr hS htop).emit _ ht

theorem step_unopExprL (t : α) (mk : Nat → Nat → Instr) (isLog : Bool) (sub : LState α → LRes α) (reg : Nat) (ec : ExpCtx)
    (S : LState α) (hs : SubStep base T reg sub) (ht : t ∈ T) (hS : Ext base T S) (htop : S.st.regTop ≤ reg) :
    Step base T S (unopExprL t mk isLog sub reg ec S).S 1 :=
  (step_withPropagationL _ _ _ _ hS.base_le (hs S hS htop)).emit _ ht

theorem step_unmExprL (t : α) (folded : Option NumStruct.N) (isLog : Bool) (sub : LState α → LRes α) (reg : Nat) (ec : ExpCtx)
    (S : LState α) (hs : SubStep base T reg sub) (ht : t ∈ T) (hS : Ext base T S) (htop : S.st.regTop ≤ reg) :
    Step base T S (unmExprL t folded isLog sub reg ec S).S 1 := by
  cases folded with
  | some x => exact step_loadKL t _ reg ec S ht hS
  | none => exact step_unopExprL t .unm isLog sub reg ec S hs ht hS htop

theorem moveTo_spec (st : CState) (sreg a : Nat) (a' b' : Nat) (hl : last st = some (.move a' b')) (ha : a' = a) :
    (moveTo st sreg a).code.length = st.code.length ∧ (moveTo st sreg a).regTop = st.regTop := by
  have := last_some_length hl
  simp only [moveTo, hl, ha, if_true, emit, pop, List.length_append, List.length_singleton]
  exact ⟨this, trivial⟩

theorem step_moveToL (t : α) {S S' : LState α} {k : Nat} (sreg a : Nat) (ht : t ∈ T) (h : Step base T S S' k) :
    Step base T S (moveToL t S' sreg a) k := by
  unfold moveToL
  split
  · rename_i a' b' hl
    split
    · rename_i ha
      obtain ⟨h1, h2⟩ := moveTo_spec S'.st sreg a a' b' hl ha
      exact h.lift h1 h2
    · exact (h.emit _ ht).weaken (Nat.le_succ _)
  · exact (h.emit _ ht).weaken (Nat.le_succ _)

theorem step_ite {c : Prop} [Decidable c] {S A B : LState α} {k : Nat} (hA : Step base T S A k) (hB : Step base T S B k) :
    Step base T S (if c then A else B) k := by
  split <;> assumption

theorem step_auxDefaultL (t : α) (sub : ExpCtx → LState α → LRes α) (reg : Nat) (ec : ExpCtx) (thenl elsel : Nat) (hasnext : Bool)
    (lb : LbLabels) (b : Bool) (S : LState α) (hs : ∀ ec', SubStep base T reg (sub ec')) (ht : t ∈ T) (hS : Ext base T S)
    (htop : S.st.regTop ≤ reg) : Step base T S (auxDefaultL t sub reg ec thenl elsel hasnext lb b S).S 1 := by
  simp only [auxDefaultL]
  by_cases hc : hasnext = false ∧ thenl = elsel
  · rw [if_pos hc]
    exact ((step_moveToL t _ _ ht (hs _ S hS htop)).emit _ ht).weaken (by omega)
  · rw [if_neg hc]
    exact ((step_ite ((hs _ S hS htop).emit _ ht) ((hs _ S hS htop).emit _ ht)).emit _ ht).weaken (by omega)

theorem step_bcDefaultL (t : α) (r : LRes α) (reg flip jumplabel : Nat) {S : LState α} (ht : t ∈ T) (hS : base.length ≤ S.st.code.length)
    (h : Step base T S r.S 1) : Step base T S (bcDefaultL t r reg flip jumplabel).S 2 :=
  ((step_withPropagationL false false r reg hS h).emit _ ht).emit _ ht

/-! ### concatenation: the CONCAT-popping loop stops above the left operand -/

theorem popConcats_ge (l r : Cond) (st : CState) (reg : Nat) (htop : st.regTop ≤ reg) :
    (comp l (.expr reg ecnone0) st).st.code.length <
      (popConcats (comp r (.expr (reg + (comp l (.expr reg ecnone0) st).inc) ecnone0) (comp l (.expr reg ecnone0) st).st).st).code.length := by
  obtain ⟨pre, hst, hlt, _⟩ := concat_code l r (comp_frame l).1 (comp_frame r).1 st reg ecnone0 htop
  have h1 : (comp (.concat l r) (.expr reg ecnone0) st).st.code.length = pre.length + 1 := by
    rw [hst]; simp only [GLua.Compile.emit, List.length_append, List.length_singleton]
  have h2 : (comp (.concat l r) (.expr reg ecnone0) st).st.code.length =
      (popConcats (comp r (.expr (reg + (comp l (.expr reg ecnone0) st).inc) ecnone0) (comp l (.expr reg ecnone0) st).st).st).code.length + 1 := by
    simp only [comp, concatExpr, GLua.Compile.emit, List.length_append, List.length_singleton]
  omega

theorem popConcats_regTop (st : CState) : (popConcats st).regTop = st.regTop := rfl

theorem step_concat (t : α) (l r : ACond α) (reg : Nat) (ec : ExpCtx) (S : LState α)
    (hl : SubStep2 base T (fun s g => compL l (.expr g ecnone0) s)) (hr : SubStep2 base T (fun s g => compL r (.expr g ecnone0) s))
    (ht : t ∈ T) (hS : Ext base T S) (htop : S.st.regTop ≤ reg) :
    Step base T S (concatExprL t (1 + spine r.erase) (fun s g => compL l (.expr g ecnone0) s)
      (fun s g => compL r (.expr g ecnone0) s) reg ec S).S 1 := by
  simp only [concatExprL, popConcatsL]
  have s1 := hl S reg hS htop
  have htop2 : (compL l (.expr reg ecnone0) S).S.st.regTop ≤ reg + (compL l (.expr reg ecnone0) S).inc := by
    rw [s1.top]; omega
  have s2 := hr (compL l (.expr reg ecnone0) S).S (reg + (compL l (.expr reg ecnone0) S).inc) s1.ext htop2
  have hge := popConcats_ge l.erase r.erase S.st reg htop
  rw [← compL_st l, ← compL_inc l, ← compL_st r] at hge
  have hlen1 := s1.len
  refine ((s1.trans s2).cut' hS.base_le 1 (popConcats_length_le _) (by simp only [] at hlen1 ⊢; omega) (popConcats_regTop _) |>.emit _ ht).weaken (by omega)

/-! ### expressions -/

def _root_.GLua.Compile.Mode.reg : Mode → Nat
  | .expr reg _ => reg
  | .aux reg _ _ _ _ _ _ => reg
  | .bc reg _ _ _ => reg

def _root_.GLua.Compile.Mode.gap : Mode → Nat
  | .bc _ _ _ _ => 0
  | _ => 1

/-- **compiling an expression only appends**, in every mode, from any store whose register top is not above the
    working register; the appended entries are positions of the expression. -/
theorem compL_step (e : ACond α) : ∀ (m : Mode) (S : LState α), (∀ t ∈ e.tags, t ∈ T) → Ext base T S → S.st.regTop ≤ m.reg →
    Step base T S (compL e m S).S m.gap := by
  induction e with
  | tru t | fls t | nil t | num t n | str t s =>
    intro m S hT hS htop
    have ht : t ∈ T := hT t (by simp [ACond.tags])
    cases m <;> simp only [compL, Mode.gap] <;> (try split) <;>
      first
      | exact step_leafExprL t _ rfl _ _ S ht hS
      | exact (step_refl hS).emit _ ht
      | exact ((step_leafExprL t _ rfl _ _ S ht hS).emit _ ht).weaken (by omega)
      | exact (step_bcDefaultL t _ _ _ _ ht hS.base_le (step_leafExprL t _ rfl _ _ S ht hS)).weaken (by omega)
      | exact step_refl hS
      | exact ((step_refl hS).emit _ ht).weaken (by omega)
  | loc t r =>
    intro m S hT hS htop
    have ht : t ∈ T := hT t (by simp [ACond.tags])
    cases m with
    | expr reg ec => exact step_leafExprL t _ rfl _ _ S ht hS
    | aux reg ec thenl elsel hasnext lb b =>
      simp only [compL, Mode.gap]
      split
      · exact ((step_ite ((step_refl hS).emit _ ht) ((step_refl hS).emit _ ht)).emit _ ht).weaken (by omega)
      · exact step_auxDefaultL t _ _ _ _ _ _ _ _ S (fun ec' S' h' _ => step_leafExprL t _ rfl _ _ S' ht h') ht hS htop
    | bc reg thenl elsel hasnext =>
      exact (step_bcDefaultL t _ _ _ _ ht hS.base_le (step_leafExprL t _ rfl _ _ S ht hS)).weaken (by simp [Mode.gap])
  | ev t id =>
    intro m S hT hS htop
    have ht : t ∈ T := hT t (by simp [ACond.tags])
    cases m with
    | expr reg ec => exact step_leafExprL t _ rfl _ _ S ht hS
    | aux reg ec thenl elsel hasnext lb b =>
      exact step_auxDefaultL t _ _ _ _ _ _ _ _ S (fun ec' S' h' _ => step_leafExprL t _ rfl _ _ S' ht h') ht hS htop
    | bc reg thenl elsel hasnext =>
      exact (step_bcDefaultL t _ _ _ _ ht hS.base_le (step_leafExprL t _ rfl _ _ S ht hS)).weaken (by simp [Mode.gap])
  | not t c ih =>
    intro m S hT hS htop
    have ht : t ∈ T := hT t (by simp [ACond.tags])
    have hTc : ∀ x ∈ c.tags, x ∈ T := fun x hx => hT x (by simp [ACond.tags, hx])
    have hs : ∀ reg, SubStep base T reg (fun s => compL c (.expr reg ecnone0) s) := fun reg S' h' ht' => ih (.expr reg ecnone0) S' hTc h' ht'
    cases m with
    | expr reg ec => exact step_notExprL t _ _ reg ec S (hs reg) ht hS htop
    | aux reg ec thenl elsel hasnext lb b =>
      exact step_auxDefaultL t _ _ _ _ _ _ _ _ S (fun ec' S' h' ht' => step_notExprL t _ _ reg ec' S' (hs reg) ht h' ht') ht hS htop
    | bc reg thenl elsel hasnext => simp only [compL]; exact ih _ S hTc hS htop
  | and t l r ihl ihr | or t l r ihl ihr =>
    intro m S hT hS htop
    have ht : t ∈ T := hT t (by simp [ACond.tags])
    have hTl : ∀ x ∈ l.tags, x ∈ T := fun x hx => hT x (by simp [ACond.tags, hx])
    have hTr : ∀ x ∈ r.tags, x ∈ T := fun x hx => hT x (by simp [ACond.tags, hx])
    have key : ∀ (reg : Nat) (S1 : LState α) (m1 m2 : Mode) (lbl : Nat), S.st.regTop ≤ reg → m1.reg = reg → m2.reg = reg →
        Step base T S S1 0 → Step base T S (compL r m2 (setLabelHereL (compL l m1 S1).S lbl)).S (m1.gap + m2.gap) := by
      intro reg S1 m1 m2 lbl hreg h1 h2 s0
      have s1 := ihl m1 S1 hTl s0.ext (by rw [s0.top, h1]; exact hreg)
      have s1' := step_setLabelHereL (s0.trans s1) lbl
      have s2 := ihr m2 _ hTr s1'.ext (by rw [s1'.top, h2]; exact hreg)
      exact (s1'.trans s2).weaken (by omega)
    cases m with
    | expr reg ec =>
      simp only [compL, Mode.gap]
      have s0 := step_newLabelL (step_newLabelL (step_newLabelL (step_newLabelL (step_refl hS))))
      refine step_logicalTailL t _ _ _ ht hS.base_le ?_
      exact key reg _ _ _ _ htop rfl rfl s0
    | aux reg ec thenl elsel hasnext lb b =>
      simp only [compL, Mode.gap]
      exact (key reg _ _ _ _ htop rfl rfl (step_newLabelL (step_refl hS))).weaken (by simp [Mode.gap])
    | bc reg thenl elsel hasnext =>
      simp only [compL, Mode.gap]
      exact (key reg _ _ _ _ htop rfl rfl (step_newLabelL (step_refl hS))).weaken (by simp [Mode.gap])
  | rel t op l r ihl ihr =>
    intro m S hT hS htop
    have ht : t ∈ T := hT t (by simp [ACond.tags])
    have hl : SubStep2 base T (fun s g => compL l (.expr g ecnone0) s) :=
      fun S' g h' ht' => ihl (.expr g ecnone0) S' (fun x hx => hT x (by simp [ACond.tags, hx])) h' ht'
    have hr : SubStep2 base T (fun s g => compL r (.expr g ecnone0) s) :=
      fun S' g h' ht' => ihr (.expr g ecnone0) S' (fun x hx => hT x (by simp [ACond.tags, hx])) h' ht'
    cases m with
    | expr reg ec =>
      simp only [compL, Mode.gap]
      have s0 := step_newLabelL (step_refl hS)
      have s1 := step_relAuxL t _ _ l.erase.isLogical r.erase.isLogical (newLabelL S).1 reg op 1 (newLabelL S).2 hl hr ht s0.ext
        (by rw [s0.top]; exact htop)
      exact ((step_setLabelHereL ((s0.trans s1).emit _ ht) _).emit _ ht).weaken (by omega)
    | aux reg ec thenl elsel hasnext lb b =>
      simp only [compL, Mode.gap]
      exact (step_relAuxL t _ _ _ _ S reg op _ _ hl hr ht hS htop).weaken (by omega)
    | bc reg thenl elsel hasnext =>
      simp only [compL, Mode.gap]
      exact (step_relAuxL t _ _ _ _ S reg op _ _ hl hr ht hS htop).weaken (by omega)
  | arith t op l r ihl ihr =>
    intro m S hT hS htop
    have ht : t ∈ T := hT t (by simp [ACond.tags])
    have hl : SubStep2 base T (fun s g => compL l (.expr g ecnone0) s) :=
      fun S' g h' ht' => ihl (.expr g ecnone0) S' (fun x hx => hT x (by simp [ACond.tags, hx])) h' ht'
    have hr : SubStep2 base T (fun s g => compL r (.expr g ecnone0) s) :=
      fun S' g h' ht' => ihr (.expr g ecnone0) S' (fun x hx => hT x (by simp [ACond.tags, hx])) h' ht'
    cases m with
    | expr reg ec => exact step_arithExprL t _ op _ _ _ _ reg ec S hl hr ht hS htop
    | aux reg ec thenl elsel hasnext lb b =>
      exact step_auxDefaultL t _ _ _ _ _ _ _ _ S (fun ec' S' h' ht' => step_arithExprL t _ op _ _ _ _ reg ec' S' hl hr ht h' ht') ht hS htop
    | bc reg thenl elsel hasnext =>
      exact (step_bcDefaultL t _ _ _ _ ht hS.base_le (step_arithExprL t _ op _ _ _ _ reg _ S hl hr ht hS htop)).weaken (by simp [Mode.gap])
  | unm t c ih =>
    intro m S hT hS htop
    have ht : t ∈ T := hT t (by simp [ACond.tags])
    have hs : ∀ reg, SubStep base T reg (fun s => compL c (.expr reg ecnone0) s) :=
      fun reg S' h' ht' => ih (.expr reg ecnone0) S' (fun x hx => hT x (by simp [ACond.tags, hx])) h' ht'
    cases m with
    | expr reg ec => exact step_unmExprL t _ _ _ reg ec S (hs reg) ht hS htop
    | aux reg ec thenl elsel hasnext lb b =>
      exact step_auxDefaultL t _ _ _ _ _ _ _ _ S (fun ec' S' h' ht' => step_unmExprL t _ _ _ reg ec' S' (hs reg) ht h' ht') ht hS htop
    | bc reg thenl elsel hasnext =>
      exact (step_bcDefaultL t _ _ _ _ ht hS.base_le (step_unmExprL t _ _ _ reg _ S (hs reg) ht hS htop)).weaken (by simp [Mode.gap])
  | len t c ih =>
    intro m S hT hS htop
    have ht : t ∈ T := hT t (by simp [ACond.tags])
    have hs : ∀ reg, SubStep base T reg (fun s => compL c (.expr reg ecnone0) s) :=
      fun reg S' h' ht' => ih (.expr reg ecnone0) S' (fun x hx => hT x (by simp [ACond.tags, hx])) h' ht'
    cases m with
    | expr reg ec => exact step_unopExprL t _ _ _ reg ec S (hs reg) ht hS htop
    | aux reg ec thenl elsel hasnext lb b =>
      exact step_auxDefaultL t _ _ _ _ _ _ _ _ S (fun ec' S' h' ht' => step_unopExprL t _ _ _ reg ec' S' (hs reg) ht h' ht') ht hS htop
    | bc reg thenl elsel hasnext =>
      exact (step_bcDefaultL t _ _ _ _ ht hS.base_le (step_unopExprL t _ _ _ reg _ S (hs reg) ht hS htop)).weaken (by simp [Mode.gap])
  | concat t l r ihl ihr =>
    intro m S hT hS htop
    have ht : t ∈ T := hT t (by simp [ACond.tags])
    have hl : SubStep2 base T (fun s g => compL l (.expr g ecnone0) s) :=
      fun S' g h' ht' => ihl (.expr g ecnone0) S' (fun x hx => hT x (by simp [ACond.tags, hx])) h' ht'
    have hr : SubStep2 base T (fun s g => compL r (.expr g ecnone0) s) :=
      fun S' g h' ht' => ihr (.expr g ecnone0) S' (fun x hx => hT x (by simp [ACond.tags, hx])) h' ht'
    cases m with
    | expr reg ec => exact step_concat t l r reg ec S hl hr ht hS htop
    | aux reg ec thenl elsel hasnext lb b =>
      exact step_auxDefaultL t _ _ _ _ _ _ _ _ S (fun ec' S' h' ht' => step_concat t l r reg ec' S' hl hr ht h' ht') ht hS htop
    | bc reg thenl elsel hasnext =>
      exact (step_bcDefaultL t _ _ _ _ ht hS.base_le (step_concat t l r reg _ S hl hr ht hS htop)).weaken (by simp [Mode.gap])

/-! ### statements -/

/-- from `S` to `S'`: still an extension of `base`, no instruction fewer (the register top may change). -/
structure Grow (base T : List α) (S S' : LState α) : Prop where
  ext : Ext base T S'
  le : S.st.code.length ≤ S'.st.code.length

theorem Step.grow {S S' : LState α} {k : Nat} (h : Step base T S S' k) : Grow base T S S' := ⟨h.ext, by have := h.len; omega⟩
theorem grow_refl {S : LState α} (h : Ext base T S) : Grow base T S S := ⟨h, Nat.le_refl _⟩
theorem Grow.trans {S S' S'' : LState α} (h1 : Grow base T S S') (h2 : Grow base T S' S'') : Grow base T S S'' :=
  ⟨h2.ext, Nat.le_trans h1.le h2.le⟩
theorem Grow.emit {S S' : LState α} (h : Grow base T S S') (i : Instr) {t : α} (ht : t ∈ T) : Grow base T S (emitL S' i t) :=
  h.trans ((step_refl h.ext).emit i ht).grow
theorem Grow.lift {S S' : LState α} (h : Grow base T S S') {st' : CState} (hc : st'.code.length = S'.st.code.length) :
    Grow base T S (lift S' st') :=
  ⟨⟨wf_lift' h.ext.wf hc, h.ext.ext⟩, by simp only [lift_st, hc]; exact h.le⟩
theorem Grow.setLabelHereL {S S' : LState α} (h : Grow base T S S') (l : Nat) : Grow base T S (setLabelHereL S' l) := h.lift rfl
theorem Grow.newLabelL {S S' : LState α} (h : Grow base T S S') : Grow base T S (newLabelL S').1 := h.lift rfl

theorem grow_bcL (S : LState α) (e : ACond α) (thenl elsel : Nat) (hasnext : Bool) (hT : ∀ t ∈ e.tags, t ∈ T) (hS : Ext base T S) :
    Grow base T S (compileBranchConditionL S S.st.regTop e thenl elsel hasnext) :=
  (compL_step e (.bc S.st.regTop thenl elsel hasnext) S hT hS (Nat.le_refl _)).grow

theorem assignNamedL_rest : ∀ (l : List (α × AssignCtx)) (S : LState α) (reg : Nat) (rhs : List (ACond α)),
    ∀ e ∈ (assignNamedL S reg l rhs).2.2.2, e ∈ rhs
  | [], _, _, _, e, he => he
  | (t, ac) :: l, S, reg, rhs, e, he => by
    simp only [assignNamedL] at he
    exact List.mem_of_mem_tail (assignNamedL_rest l _ _ rhs.tail e he)

theorem assignNamedL_grow : ∀ (l : List (α × AssignCtx)) (S : LState α) (reg : Nat) (rhs : List (ACond α)),
    (∀ p ∈ l, p.1 ∈ T) → (∀ e ∈ rhs, ∀ t ∈ e.tags, t ∈ T) → Ext base T S → S.st.regTop ≤ reg →
    Grow base T S (assignNamedL S reg l rhs).1 ∧ (assignNamedL S reg l rhs).1.st.regTop = S.st.regTop ∧
    reg ≤ (assignNamedL S reg l rhs).2.1
  | [], S, reg, rhs, _, _, hS, _ => ⟨grow_refl hS, rfl, Nat.le_refl _⟩
  | (t, ac) :: l, S, reg, rhs, hl, hr, hS, htop => by
    have hexpr : ∀ x ∈ (rhs.headD (.nil t)).tags, x ∈ T := by
      cases rhs with
      | nil =>
        intro x hx
        simp only [List.headD_nil, ACond.tags, List.mem_singleton] at hx
        rw [hx]; exact hl (t, ac) (List.mem_cons_self ..)
      | cons e r => exact hr e (List.mem_cons_self ..)
    have s1 := compL_step (rhs.headD (.nil t)) (.expr reg ac.ec) S hexpr hS htop
    have ih := assignNamedL_grow l (compL (rhs.headD (.nil t)) (.expr reg ac.ec) S).S
      (reg + (compL (rhs.headD (.nil t)) (.expr reg ac.ec) S).inc) rhs.tail
      (fun p hp => hl p (List.mem_cons_of_mem _ hp)) (fun e he => hr e (List.mem_of_mem_tail he)) s1.ext
      (by rw [s1.top]; omega)
    simp only [assignNamedL]
    exact ⟨s1.grow.trans ih.1, by rw [ih.2.1, s1.top], Nat.le_trans (Nat.le_add_right _ _) ih.2.2⟩

theorem assignSurplusL_grow : ∀ (extra : List (ACond α)) (S : LState α) (reg : Nat),
    (∀ e ∈ extra, ∀ t ∈ e.tags, t ∈ T) → Ext base T S → S.st.regTop ≤ reg → Grow base T S (assignSurplusL S reg extra)
  | [], S, _, _, hS, _ => grow_refl hS
  | e :: rest, S, reg, hr, hS, htop => by
    have s1 := compL_step e (.expr reg ecnone0) S (hr e (List.mem_cons_self ..)) hS htop
    simp only [assignSurplusL]
    exact s1.grow.trans (assignSurplusL_grow rest _ _ (fun e' he' => hr e' (List.mem_cons_of_mem _ he')) s1.ext
      (by rw [s1.top]; omega))

theorem assignStoresL_grow : ∀ (l : List (Target × α × AssignCtx)) (S : LState α) (reg : Nat),
    (∀ p ∈ l, p.2.1 ∈ T) → Ext base T S → Grow base T S (assignStoresL S reg l)
  | [], S, _, _, hS => grow_refl hS
  | (.loc r, t, ac) :: rest, S, reg, hl, hS => by
    simp only [assignStoresL]
    have ht : t ∈ T := hl _ (List.mem_cons_self ..)
    split
    · exact ((grow_refl hS).emit _ ht).trans (assignStoresL_grow rest _ _ (fun p hp => hl p (List.mem_cons_of_mem _ hp))
        ((grow_refl hS).emit _ ht).ext)
    · exact assignStoresL_grow rest _ _ (fun p hp => hl p (List.mem_cons_of_mem _ hp)) hS
  | (.glob id, t, ac) :: rest, S, reg, hl, hS => by
    simp only [assignStoresL]
    have ht : t ∈ T := hl _ (List.mem_cons_self ..)
    have g := ((grow_refl hS).lift (st' := (constIndex S.st (gname id)).1) (by rw [constIndex_code])).emit (.setg (reg - 1) id) ht
    exact g.trans (assignStoresL_grow rest _ _ (fun p hp => hl p (List.mem_cons_of_mem _ hp)) g.ext)

theorem compileAssignStmtRightL_grow (S : LState α) (reg : Nat) (l : List (α × AssignCtx)) (rhs : List (ACond α))
    (hl : ∀ p ∈ l, p.1 ∈ T) (hr : ∀ e ∈ rhs, ∀ t ∈ e.tags, t ∈ T) (hS : Ext base T S) (htop : S.st.regTop ≤ reg) :
    Grow base T S (compileAssignStmtRightL S reg l rhs).1 ∧
    (compileAssignStmtRightL S reg l rhs).2.2.map Prod.fst = l.map Prod.fst := by
  obtain ⟨g1, htop1, hreg⟩ := assignNamedL_grow l S reg rhs hl hr hS htop
  obtain ⟨_, _, _, _, hfst2⟩ := assignNamedL_spec l S reg rhs
  have g2 := assignSurplusL_grow (T := T) (base := base) (assignNamedL S reg l rhs).2.2.2 (assignNamedL S reg l rhs).1
    (assignNamedL S reg l rhs).2.1 (fun e he => hr e (assignNamedL_rest l S reg rhs e he)) g1.ext (by rw [htop1]; exact Nat.le_trans htop hreg)
  simp only [compileAssignStmtRightL]
  exact ⟨g1.trans g2, hfst2⟩

theorem compileAssignStmtL_grow (S : LState α) (lhs : List (α × Target)) (rhs : List (ACond α))
    (hl : ∀ p ∈ lhs, p.1 ∈ T) (hr : ∀ e ∈ rhs, ∀ t ∈ e.tags, t ∈ T) (hS : Ext base T S) :
    Grow base T S (compileAssignStmtL S lhs rhs) := by
  obtain ⟨_, _, _, hfst⟩ := compileAssignStmtLeftL_spec S lhs rhs.length
  have g0 : Grow base T S (compileAssignStmtLeftL S lhs rhs.length).1 :=
    (grow_refl hS).lift (st' := (compileAssignStmtLeft S.st (lhs.map Prod.snd) rhs.length).1)
      (congrArg List.length (left_go_code _ _ _ _ _))
  have hacs : ∀ p ∈ (compileAssignStmtLeftL S lhs rhs.length).2, p.1 ∈ T := by
    intro p hp
    have : p.1 ∈ (compileAssignStmtLeftL S lhs rhs.length).2.map Prod.fst := List.mem_map.mpr ⟨p, hp, rfl⟩
    rw [hfst] at this
    obtain ⟨q, hq, hqe⟩ := List.mem_map.mp this
    rw [← hqe]; exact hl q hq
  obtain ⟨g1, hfst2⟩ := compileAssignStmtRightL_grow (compileAssignStmtLeftL S lhs rhs.length).1
    (compileAssignStmtLeftL S lhs rhs.length).1.st.regTop (compileAssignStmtLeftL S lhs rhs.length).2 rhs hacs hr g0.ext (Nat.le_refl _)
  simp only [compileAssignStmtL]
  refine (g0.trans g1).trans (assignStoresL_grow _ _ _ ?_ g1.ext)
  intro p hp
  have hp2 := (List.of_mem_zip (List.mem_reverse.mp hp)).2
  have : p.2.1 ∈ (compileAssignStmtRightL (compileAssignStmtLeftL S lhs rhs.length).1
      (compileAssignStmtLeftL S lhs rhs.length).1.st.regTop (compileAssignStmtLeftL S lhs rhs.length).2 rhs).2.2.map Prod.fst :=
    List.mem_map.mpr ⟨p.2, hp2, rfl⟩
  rw [hfst2, hfst] at this
  obtain ⟨q, hq, hqe⟩ := List.mem_map.mp this
  rw [← hqe]; exact hl q hq

theorem retGoL_grow : ∀ (cs : List (ACond α)) (S : LState α) (reg : Nat),
    (∀ e ∈ cs, ∀ t ∈ e.tags, t ∈ T) → Ext base T S → S.st.regTop ≤ reg → Grow base T S (retGoL S reg cs).1
  | [], S, _, _, hS, _ => grow_refl hS
  | e :: rest, S, reg, hr, hS, htop => by
    have s1 := compL_step e (.expr reg ecnone0) S (hr e (List.mem_cons_self ..)) hS htop
    simp only [retGoL]
    exact s1.grow.trans (retGoL_grow rest _ _ (fun e' he' => hr e' (List.mem_cons_of_mem _ he')) s1.ext (by rw [s1.top]; omega))

mutual
/-- **compiling a statement only appends**, from any store; the appended entries are positions of the statement. -/
theorem compStmtL_grow : ∀ (s : AStmt α) (S : LState α), (∀ t ∈ s.tags, t ∈ T) → Ext base T S → Grow base T S (compStmtL s S)
  | .ifS t last c thn els, S, hT, hS => by
    have ht : t ∈ T := hT t (by simp [AStmt.tags])
    have hc : ∀ x ∈ c.tags, x ∈ T := fun x hx => hT x (by simp [AStmt.tags, hx])
    have hthn : ∀ x ∈ thn.tags, x ∈ T := fun x hx => hT x (by simp [AStmt.tags, hx])
    have hels : ∀ x ∈ els.tags, x ∈ T := fun x hx => hT x (by simp [AStmt.tags, hx])
    simp only [compStmtL]
    have g0 := (grow_refl hS).newLabelL.newLabelL.newLabelL
    have g1 := (g0.trans (grow_bcL _ c (newLabelL S).2 (newLabelL (newLabelL S).1).2 false hc g0.ext)).setLabelHereL (newLabelL S).2
    have g2 := g1.trans (compBlockL_grow thn _ hthn g1.ext)
    cases hemp : els.isEmpty with
    | true => simp only [if_true]; exact g2.setLabelHereL _
    | false =>
      simp only [Bool.false_eq_true, if_false]
      have g3 := (g2.emit (.jmp (newLabelL (newLabelL (newLabelL S).1).1).2) ht).setLabelHereL (newLabelL (newLabelL S).1).2
      exact (g3.trans (compBlockL_grow els _ hels g3.ext)).setLabelHereL _
  | .whileS t last c body, S, hT, hS => by
    have hlast : last.getD t ∈ T := by
      cases last with
      | none => exact hT t (by simp [AStmt.tags])
      | some l => exact hT l (by simp [AStmt.tags])
    have hc : ∀ x ∈ c.tags, x ∈ T := fun x hx => hT x (by simp [AStmt.tags, hx])
    have hbody : ∀ x ∈ body.tags, x ∈ T := fun x hx => hT x (by simp [AStmt.tags, hx])
    simp only [compStmtL]
    have g0 := (grow_refl hS).newLabelL.newLabelL.newLabelL.setLabelHereL (newLabelL (newLabelL (newLabelL S).1).1).2
    have g1 := (g0.trans (grow_bcL _ c (newLabelL S).2 (newLabelL (newLabelL S).1).2 false hc g0.ext)).setLabelHereL (newLabelL S).2
    have g2 := g1.trans (compChunkL_grow body _ hbody g1.ext)
    apply Grow.setLabelHereL
    refine Grow.lift ?_ rfl
    exact g2.emit _ hlast
  | .repeatS t last body c, S, hT, hS => by
    have hc : ∀ x ∈ c.tags, x ∈ T := fun x hx => hT x (by simp [AStmt.tags, hx])
    have hbody : ∀ x ∈ body.tags, x ∈ T := fun x hx => hT x (by simp [AStmt.tags, hx])
    simp only [compStmtL]
    have g0 := ((grow_refl hS).newLabelL.newLabelL.newLabelL.setLabelHereL (newLabelL S).2).setLabelHereL
      (newLabelL (newLabelL (newLabelL S).1).1).2
    have g1 := g0.trans (compChunkL_grow body _ hbody g0.ext)
    have g2 := (g1.trans (grow_bcL _ c (newLabelL (newLabelL S).1).2 (newLabelL (newLabelL (newLabelL S).1).1).2 false hc g1.ext)).setLabelHereL
      (newLabelL (newLabelL S).1).2
    refine Grow.lift ?_ rfl
    exact g2
  | .ret t cs, S, hT, hS => by
    have ht : t ∈ T := hT t (by simp [AStmt.tags])
    simp only [compStmtL]
    split
    · exact (grow_refl hS).emit _ ht
    · exact (retGoL_grow cs S S.st.regTop (fun e he x hx => hT x (by
        simp only [AStmt.tags, List.mem_cons, List.mem_flatMap]; exact Or.inr ⟨e, he, hx⟩)) hS (Nat.le_refl _)).emit _ ht
  | .localDef t c, S, hT, hS => by
    simp only [compStmtL]
    refine Grow.lift ?_ rfl
    exact (compL_step c (.expr S.st.regTop ⟨ecLocal, S.st.regTop⟩) S (fun x hx => hT x (by simp [AStmt.tags, hx])) hS
      (Nat.le_refl _)).grow
  | .assign t lhs rhs, S, hT, hS => by
    simp only [compStmtL]
    exact compileAssignStmtL_grow S lhs rhs
      (fun p hp => hT p.1 (by simp only [AStmt.tags, List.mem_cons, List.mem_append, List.mem_map]; exact Or.inr (Or.inl ⟨p, hp, rfl⟩)))
      (fun e he x hx => hT x (by
        simp only [AStmt.tags, List.mem_cons, List.mem_append, List.mem_flatMap]; exact Or.inr (Or.inr ⟨e, he, hx⟩))) hS
theorem compChunkL_grow : ∀ (b : ABlock α) (S : LState α), (∀ t ∈ b.tags, t ∈ T) → Ext base T S → Grow base T S (compChunkL b S)
  | .nil, _, _, hS => grow_refl hS
  | .cons s rest, S, hT, hS => by
    simp only [compChunkL]
    have g1 := compStmtL_grow s S (fun x hx => hT x (by simp [ABlock.tags, hx])) hS
    exact g1.trans (compChunkL_grow rest _ (fun x hx => hT x (by simp [ABlock.tags, hx])) g1.ext)
theorem compBlockL_grow : ∀ (b : ABlock α) (S : LState α), (∀ t ∈ b.tags, t ∈ T) → Ext base T S → Grow base T S (compBlockL b S)
  | .nil, _, _, hS => grow_refl hS
  | .cons s rest, S, hT, hS => by
    simp only [compBlockL]
    have g1 := compStmtL_grow s S (fun x hx => hT x (by simp [ABlock.tags, hx])) hS
    refine Grow.lift ?_ rfl
    exact g1.trans (compChunkL_grow rest _ (fun x hx => hT x (by simp [ABlock.tags, hx])) g1.ext)
end

/-! ### the positions of a parsed statement are lines of its tokens -/

theorem toA_list_tags (cs : List TCond) : ∀ x ∈ (cs.map toA).flatMap ACond.tags, x ∈ cs.flatMap TCond.toks := by
  intro x hx
  obtain ⟨a, ha, hxa⟩ := List.mem_flatMap.mp hx
  obtain ⟨c, hc, rfl⟩ := List.mem_map.mp ha
  exact List.mem_flatMap.mpr ⟨c, hc, toA_tags c x hxa⟩

mutual
theorem toAStmt_tags : ∀ (s : TStmt), ∀ x ∈ (toAStmt s).tags, x ∈ s.toks
  | .ifS ifLn c thenLn thn elseLn els endLn, x, hx => by
    simp only [toAStmt, AStmt.tags, Option.toList, List.mem_cons, List.mem_append, List.not_mem_nil, or_false] at hx
    simp only [TStmt.toks, List.mem_cons, List.mem_append]
    rcases hx with rfl | rfl | hx | hx | hx
    · exact Or.inl rfl
    · exact Or.inr (Or.inr (Or.inr (Or.inr (Or.inr (by simp)))))
    · exact Or.inr (Or.inl (toA_tags c x hx))
    · exact Or.inr (Or.inr (Or.inr (Or.inl (toABlock_tags thn x hx))))
    · cases els with
      | nil => simp [toABlock, ABlock.tags] at hx
      | cons s r =>
        refine Or.inr (Or.inr (Or.inr (Or.inr (Or.inl ?_))))
        simp only [TBlock.isEmpty, Bool.false_eq_true, if_false, List.mem_cons]
        exact Or.inr (toABlock_tags _ x hx)
  | .whileS whileLn c doLn body endLn, x, hx => by
    simp only [toAStmt, AStmt.tags, Option.toList, List.mem_cons, List.mem_append, List.not_mem_nil, or_false] at hx
    simp only [TStmt.toks, List.mem_cons, List.mem_append, List.not_mem_nil, or_false]
    rcases hx with rfl | rfl | hx | hx
    · exact Or.inl rfl
    · exact Or.inr (Or.inr (Or.inr (Or.inr rfl)))
    · exact Or.inr (Or.inl (toA_tags c x hx))
    · exact Or.inr (Or.inr (Or.inr (Or.inl (toABlock_tags body x hx))))
  | .repeatS repeatLn body untilLn c, x, hx => by
    simp only [toAStmt, AStmt.tags, Option.toList, List.mem_cons, List.mem_append, List.not_mem_nil, or_false] at hx
    simp only [TStmt.toks, List.mem_cons, List.mem_append]
    rcases hx with rfl | rfl | hx | hx
    · exact Or.inl rfl
    · exact Or.inr (Or.inr (Or.inr (toA_tags c _ (ACond.ln_mem_tags _))))
    · exact Or.inr (Or.inl (toABlock_tags body x hx))
    · exact Or.inr (Or.inr (Or.inr (toA_tags c x hx)))
  | .ret retLn cs, x, hx => by
    simp only [toAStmt, AStmt.tags, List.mem_cons] at hx
    simp only [TStmt.toks, List.mem_cons]
    rcases hx with rfl | hx
    · exact Or.inl rfl
    · exact Or.inr (toA_list_tags cs x hx)
  | .localDef localLn c, x, hx => by
    simp only [toAStmt, AStmt.tags, List.mem_cons] at hx
    simp only [TStmt.toks, List.mem_cons]
    rcases hx with rfl | hx
    · exact Or.inl rfl
    · exact Or.inr (toA_tags c x hx)
  | .assign t0 targets rhs, x, hx => by
    simp only [toAStmt, AStmt.tags, List.mem_cons, List.mem_append, List.map_cons] at hx
    simp only [TStmt.toks, List.mem_cons, List.mem_append]
    rcases hx with rfl | (rfl | hx) | hx
    · exact Or.inl rfl
    · exact Or.inl rfl
    · exact Or.inr (Or.inl hx)
    · exact Or.inr (Or.inr (toA_list_tags rhs x hx))
theorem toABlock_tags : ∀ (b : TBlock), ∀ x ∈ (toABlock b).tags, x ∈ b.toks
  | .nil, x, hx => by simp [toABlock, ABlock.tags] at hx
  | .cons s rest, x, hx => by
    simp only [toABlock, ABlock.tags, List.mem_append] at hx
    simp only [TBlock.toks, List.mem_append]
    rcases hx with hx | hx
    · exact Or.inl (toAStmt_tags s x hx)
    · exact Or.inr (toABlock_tags rest x hx)
end

/-! ### the code of an expression / a statement -/

theorem ext_self {S : LState α} (T : List α) (h : WF S) : Ext S.lines T S := ⟨h, [], by simp, by simp⟩

/-- the entries of the instructions an EXPRESSION compiles to (in any mode, from any store, whatever was compiled
    before) are lines of the expression's own tokens; nothing that was in the table before is touched. -/
theorem expr_code_lines (c : TCond) (m : Mode) (S : LState Nat) (hS : WF S) (htop : S.st.regTop ≤ m.reg) :
    ∃ δ, (compL (toA c) m S).S.lines = S.lines ++ δ ∧ (∀ l ∈ δ, l ∈ c.toks) ∧ WF (compL (toA c) m S).S := by
  have h := compL_step (base := S.lines) (T := (toA c).tags) (toA c) m S (fun _ h => h) (ext_self _ hS) htop
  obtain ⟨δ, h1, h2⟩ := h.ext.ext
  exact ⟨δ, h1, fun l hl => toA_tags c l (h2 l hl), h.ext.wf⟩

/-- the entries of the instructions a STATEMENT compiles to — the positions [len before, len after) of the table —
    are lines of the statement's own tokens; nothing that was in the table before is touched. -/
theorem stmt_code_lines (s : TStmt) (S : LState Nat) (hS : WF S) :
    ∃ δ, (compStmtL (toAStmt s) S).lines = S.lines ++ δ ∧ (∀ l ∈ δ, l ∈ s.toks) ∧ WF (compStmtL (toAStmt s) S) := by
  have h := compStmtL_grow (base := S.lines) (T := (toAStmt s).tags) (toAStmt s) S (fun _ h => h) (ext_self _ hS)
  obtain ⟨δ, h1, h2⟩ := h.ext.ext
  exact ⟨δ, h1, fun l hl => toAStmt_tags s l (h2 l hl), h.ext.wf⟩

/-- the tokens of a condition stand between the keyword before it and the keyword after it. -/
theorem cond_toks_between {pre post : List Nat} {a b : Nat} {ctoks : List Nat} (hm : Mono (pre ++ a :: (ctoks ++ b :: post)))
    {l : Nat} (hl : l ∈ ctoks) : inSpan l (a, b) := by
  have h1 : Mono (a :: (ctoks ++ b :: post)) := mono_sublist (List.sublist_append_right _ _) hm
  obtain ⟨ha, h2⟩ := List.pairwise_cons.mp h1
  exact ⟨ha l (by simp [hl]), (List.pairwise_append.mp h2).2.2 l hl b (by simp)⟩

/-- the tokens of the condition of a compound statement lie in the statement's header. -/
theorem cond_toks_in_header (s : TStmt) (hm : Mono s.toks) (c : TCond) (hc : s.cond? = some c) :
    ∀ l ∈ c.toks, inSpan l s.header := by
  intro l hl
  cases s with
  | ifS ifLn c' thenLn thn elseLn els endLn =>
    simp only [TStmt.cond?, Option.some.injEq] at hc; subst hc
    simp only [TStmt.toks] at hm
    exact cond_toks_between (pre := []) hm hl
  | whileS whileLn c' doLn body endLn =>
    simp only [TStmt.cond?, Option.some.injEq] at hc; subst hc
    simp only [TStmt.toks] at hm
    exact cond_toks_between (pre := []) hm hl
  | repeatS repeatLn body untilLn c' =>
    simp only [TStmt.cond?, Option.some.injEq] at hc; subst hc
    simp only [TStmt.toks] at hm
    have h1 : Mono (untilLn :: c'.toks) :=
      mono_sublist ((List.sublist_append_right _ _).trans (List.sublist_cons_self _ _)) hm
    obtain ⟨ha, h2⟩ := List.pairwise_cons.mp h1
    exact ⟨ha l hl, (mono_inSpan h2 hl).2⟩
  | ret _ _ => cases hc
  | localDef _ _ => cases hc
  | assign _ _ _ => cases hc

end GLua.Compile
