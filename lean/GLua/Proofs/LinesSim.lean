/-
  C17, line layer — ERASURE: the compile functions with positions (Model/CompileLines.lean) compute, in their `st`
  component, exactly what the existing compile model computes on the erased program (`compL_res`, `compStmtL_st`,
  `compMainL_st`): the line layer sits on top of the model that harness/c01_mech.go ties word for word to the real
  compiler and about which Proofs/Lowering*.lean / CompileWf*.lean speak; nothing of that model is re-defined.
-/
import GLua.Model.CompileLines

namespace GLua.Compile
open GLua.MiniVM

variable [NumStruct] {α : Type}
set_option linter.unusedSectionVars false

/-! ### primitive steps -/

@[simp] theorem emitL_st (S : LState α) (i : Instr) (t : α) : (emitL S i t).st = emit S.st i := rfl
@[simp] theorem emitL_lines (S : LState α) (i : Instr) (t : α) : (emitL S i t).lines = S.lines ++ [t] := rfl
@[simp] theorem cut_st (S : LState α) (st' : CState) : (cut S st').st = st' := rfl
@[simp] theorem cut_lines (S : LState α) (st' : CState) : (cut S st').lines = S.lines.take st'.code.length := rfl
@[simp] theorem lift_st (S : LState α) (st' : CState) : (lift S st').st = st' := rfl
@[simp] theorem lift_lines (S : LState α) (st' : CState) : (lift S st').lines = S.lines := rfl
@[simp] theorem newLabelL_st (S : LState α) : (newLabelL S).1.st = (newLabel S.st).1 := rfl
@[simp] theorem newLabelL_lines (S : LState α) : (newLabelL S).1.lines = S.lines := rfl
@[simp] theorem newLabelL_snd (S : LState α) : (newLabelL S).2 = (newLabel S.st).2 := rfl
@[simp] theorem setLabelHereL_st (S : LState α) (l : Nat) : (setLabelHereL S l).st = setLabelHere S.st l := rfl
@[simp] theorem setLabelHereL_lines (S : LState α) (l : Nat) : (setLabelHereL S l).lines = S.lines := rfl

@[simp] theorem res_st (r : LRes α) : r.res.st = r.S.st := rfl
@[simp] theorem res_inc (r : LRes α) : r.res.inc = r.inc := rfl
@[simp] theorem res_b (r : LRes α) : r.res.b = r.b := rfl

theorem res_eq {r : LRes α} {x : Res} (h1 : r.S.st = x.st) (h2 : r.inc = x.inc) (h3 : r.b = x.b) : r.res = x := by
  cases x; simp only [LRes.res] at *; subst h1 h2 h3; rfl

/-! ### the helpers -/

@[simp] theorem withPropagationL_st (kmv isLog : Bool) (r : LRes α) (reg : Nat) :
    (withPropagationL kmv isLog r reg).1.st = (withPropagation kmv isLog r.res reg).1 := rfl
@[simp] theorem withPropagationL_2 (kmv isLog : Bool) (r : LRes α) (reg : Nat) :
    (withPropagationL kmv isLog r reg).2 = (withPropagation kmv isLog r.res reg).2 := rfl

theorem binOperandsL_st (clL crL : LState α → Nat → LRes α) (cl cr : CState → Nat → Res) (ll rl : Bool) (S : LState α) (reg : Nat)
    (hl : ∀ S g, (clL S g).res = cl S.st g) (hr : ∀ S g, (crL S g).res = cr S.st g) :
    (binOperandsL clL crL ll rl S reg).1.st = (binOperands cl cr ll rl S.st reg).1 ∧
    (binOperandsL clL crL ll rl S reg).2 = (binOperands cl cr ll rl S.st reg).2 := by
  refine ⟨?_, ?_⟩ <;> simp only [binOperandsL, binOperands, withPropagationL_st, withPropagationL_2, hl, hr]

theorem relAuxL_st (t : α) (clL crL : LState α → Nat → LRes α) (cl cr : CState → Nat → Res) (ll rl : Bool) (S : LState α) (reg : Nat)
    (op : RelOp) (flip label : Nat)
    (hl : ∀ S g, (clL S g).res = cl S.st g) (hr : ∀ S g, (crL S g).res = cr S.st g) :
    (relAuxL t clL crL ll rl S reg op flip label).st = relAux cl cr ll rl S.st reg op flip label := by
  obtain ⟨h1, h2⟩ := binOperandsL_st clL crL cl cr ll rl S reg hl hr
  simp only [relAuxL, relAux, emitL_st, h1, h2]

@[simp] theorem tailBoolsL_st (t : α) (S : LState α) (a : Nat) (lb : LbLabels) (b : Bool) :
    (tailBoolsL t S a lb b).st = tailBools S.st a lb b := by
  cases b <;> rfl

@[simp] theorem tailPopL_st (S : LState α) (e : Nat) : (tailPopL S e).st = tailPop S.st e := rfl

@[simp] theorem logicalTailL_st (t : α) (S : LState α) (a : Nat) (lb : LbLabels) (b : Bool) :
    (logicalTailL t S a lb b).st = logicalTail S.st a lb b := by
  simp only [logicalTailL, logicalTail, setLabelHereL_st, tailPopL_st, tailBoolsL_st]

@[simp] theorem loadKL_res (t : α) (k : Konst) (reg : Nat) (ec : ExpCtx) (S : LState α) :
    (loadKL t k reg ec S).res = loadK k reg ec S.st := rfl

@[simp] theorem leafExprL_res (t : α) (e : Cond) (reg : Nat) (ec : ExpCtx) (S : LState α) :
    (leafExprL t e reg ec S).res = leafExpr e reg ec S.st := by
  cases e <;> rfl

theorem notExprL_res (t : α) (c : Cond) (subL : LState α → LRes α) (sub : CState → Res) (reg : Nat) (ec : ExpCtx) (S : LState α)
    (h : ∀ S, (subL S).res = sub S.st) : (notExprL t c subL reg ec S).res = notExpr c sub reg ec S.st := by
  cases c <;> simp only [notExprL, notExpr, ← h] <;> rfl

theorem arithExprL_res (t : α) (folded : Option NumStruct.N) (op : ArithOp) (clL crL : LState α → Nat → LRes α)
    (cl cr : CState → Nat → Res) (ll rl : Bool) (reg : Nat) (ec : ExpCtx) (S : LState α)
    (hl : ∀ S g, (clL S g).res = cl S.st g) (hr : ∀ S g, (crL S g).res = cr S.st g) :
    (arithExprL t folded op clL crL ll rl reg ec S).res = arithExpr folded op cl cr ll rl reg ec S.st := by
  cases folded with
  | some x => rfl
  | none =>
    obtain ⟨h1, h2⟩ := binOperandsL_st clL crL cl cr ll rl S reg hl hr
    simp only [arithExprL, arithExpr]
    exact res_eq (by simp only [emitL_st, h1, h2]) rfl rfl

theorem unopExprL_res (t : α) (mk : Nat → Nat → Instr) (isLog : Bool) (subL : LState α → LRes α) (sub : CState → Res)
    (reg : Nat) (ec : ExpCtx) (S : LState α) (h : ∀ S, (subL S).res = sub S.st) :
    (unopExprL t mk isLog subL reg ec S).res = unopExpr mk isLog sub reg ec S.st := by
  simp only [unopExprL, unopExpr, ← h]; rfl

theorem unmExprL_res (t : α) (folded : Option NumStruct.N) (isLog : Bool) (subL : LState α → LRes α) (sub : CState → Res)
    (reg : Nat) (ec : ExpCtx) (S : LState α) (h : ∀ S, (subL S).res = sub S.st) :
    (unmExprL t folded isLog subL reg ec S).res = unmExpr folded isLog sub reg ec S.st := by
  cases folded with
  | some x => rfl
  | none => exact unopExprL_res t .unm isLog subL sub reg ec S h

@[simp] theorem popConcatsL_st (S : LState α) : (popConcatsL S).st = popConcats S.st := rfl

theorem concatExprL_res (t : α) (crange : Nat) (clL crL : LState α → Nat → LRes α) (cl cr : CState → Nat → Res)
    (reg : Nat) (ec : ExpCtx) (S : LState α)
    (hl : ∀ S g, (clL S g).res = cl S.st g) (hr : ∀ S g, (crL S g).res = cr S.st g) :
    (concatExprL t crange clL crL reg ec S).res = concatExpr crange cl cr reg ec S.st := by
  simp only [concatExprL, concatExpr, ← hl, res_st, res_inc, ← hr]; rfl

theorem moveToL_st (t : α) (S : LState α) (sreg a : Nat) : (moveToL t S sreg a).st = moveTo S.st sreg a := by
  unfold moveToL moveTo
  split
  · rename_i a' b' hl
    split <;> simp [*]
  · rename_i hl
    split
    · rename_i a' b' hl'; exact absurd hl' (hl a' b')
    · rfl

theorem auxDefaultL_res (t : α) (subL : ExpCtx → LState α → LRes α) (sub : ExpCtx → CState → Res) (reg : Nat) (ec : ExpCtx)
    (thenl elsel : Nat) (hasnext : Bool) (lb : LbLabels) (b : Bool) (S : LState α)
    (h : ∀ ec' S, (subL ec' S).res = sub ec' S.st) :
    (auxDefaultL t subL reg ec thenl elsel hasnext lb b S).res = auxDefault sub reg ec thenl elsel hasnext lb b S.st := by
  unfold auxDefaultL auxDefault
  simp only [← h]
  split
  · exact res_eq (by simp only [emitL_st, moveToL_st, res_st]) rfl rfl
  · refine res_eq ?_ rfl rfl
    simp only [apply_ite LState.st, emitL_st, res_st]

theorem bcDefaultL_res (t : α) (r : LRes α) (reg flip jumplabel : Nat) :
    (bcDefaultL t r reg flip jumplabel).res = bcDefault r.res reg flip jumplabel := rfl

/-! ### expressions -/

/-- **erasure, expressions**: in every mode, the store / register increment / `lb.b` of the positioned compile
    function are those of the existing model on the erased expression. -/
theorem compL_res (e : ACond α) : ∀ (m : Mode) (S : LState α), (compL e m S).res = comp e.erase m S.st := by
  induction e with
  | tru t => intro m S; cases m <;> simp only [compL, comp, ACond.erase] <;> (try split) <;> first | rfl | simp only [leafExprL_res, bcDefaultL_res]
  | fls t => intro m S; cases m <;> simp only [compL, comp, ACond.erase] <;> (try split) <;> first | rfl | simp only [leafExprL_res, bcDefaultL_res]
  | nil t => intro m S; cases m <;> simp only [compL, comp, ACond.erase] <;> (try split) <;> first | rfl | simp only [leafExprL_res, bcDefaultL_res]
  | num t n => intro m S; cases m <;> simp only [compL, comp, ACond.erase] <;> (try split) <;> first | rfl | simp only [leafExprL_res, bcDefaultL_res]
  | str t s => intro m S; cases m <;> simp only [compL, comp, ACond.erase] <;> (try split) <;> first | rfl | simp only [leafExprL_res, bcDefaultL_res]
  | loc t r =>
    intro m S
    cases m with
    | expr reg ec => simp only [compL, comp, ACond.erase, leafExprL_res]
    | aux reg ec thenl elsel hasnext lb b =>
      simp only [compL, comp, ACond.erase]
      split
      · exact res_eq (by simp only [apply_ite LState.st, emitL_st]) rfl rfl
      · exact auxDefaultL_res t _ _ reg ec thenl elsel hasnext lb b S (fun ec' S' => leafExprL_res t _ reg ec' S')
    | bc reg thenl elsel hasnext => simp only [compL, comp, ACond.erase, bcDefaultL_res, leafExprL_res]
  | ev t id =>
    intro m S
    cases m with
    | expr reg ec => simp only [compL, comp, ACond.erase, leafExprL_res]
    | aux reg ec thenl elsel hasnext lb b =>
      simp only [compL, comp, ACond.erase]
      exact auxDefaultL_res t _ _ reg ec thenl elsel hasnext lb b S (fun ec' S' => leafExprL_res t _ reg ec' S')
    | bc reg thenl elsel hasnext => simp only [compL, comp, ACond.erase, bcDefaultL_res, leafExprL_res]
  | not t c ih =>
    intro m S
    cases m with
    | expr reg ec =>
      simp only [compL, comp, ACond.erase]
      exact notExprL_res t _ _ _ reg ec S (fun S' => ih _ S')
    | aux reg ec thenl elsel hasnext lb b =>
      simp only [compL, comp, ACond.erase]
      exact auxDefaultL_res t _ _ reg ec thenl elsel hasnext lb b S
        (fun ec' S' => notExprL_res t _ _ _ reg ec' S' (fun S'' => ih _ S''))
    | bc reg thenl elsel hasnext => simp only [compL, comp, ACond.erase]; exact ih _ S
  | and t l r ihl ihr =>
    intro m S
    have hls : ∀ m (S : LState α), (compL l m S).S.st = (comp l.erase m S.st).st := fun m S => congrArg Res.st (ihl m S)
    have hlb : ∀ m (S : LState α), (compL l m S).b = (comp l.erase m S.st).b := fun m S => congrArg Res.b (ihl m S)
    have hrs : ∀ m (S : LState α), (compL r m S).S.st = (comp r.erase m S.st).st := fun m S => congrArg Res.st (ihr m S)
    have hrb : ∀ m (S : LState α), (compL r m S).b = (comp r.erase m S.st).b := fun m S => congrArg Res.b (ihr m S)
    cases m with
    | expr reg ec =>
      simp only [compL, comp, ACond.erase]
      refine res_eq ?_ rfl rfl
      simp only [logicalTailL_st, setLabelHereL_st, newLabelL_st, newLabelL_snd, hls, hlb, hrs, hrb]
    | aux reg ec thenl elsel hasnext lb b =>
      simp only [compL, comp, ACond.erase]
      rw [ihr]
      simp only [setLabelHereL_st, newLabelL_st, newLabelL_snd, hls, hlb]
    | bc reg thenl elsel hasnext =>
      simp only [compL, comp, ACond.erase]
      rw [ihr]
      simp only [setLabelHereL_st, newLabelL_st, newLabelL_snd, hls]
  | or t l r ihl ihr =>
    intro m S
    have hls : ∀ m (S : LState α), (compL l m S).S.st = (comp l.erase m S.st).st := fun m S => congrArg Res.st (ihl m S)
    have hlb : ∀ m (S : LState α), (compL l m S).b = (comp l.erase m S.st).b := fun m S => congrArg Res.b (ihl m S)
    have hrs : ∀ m (S : LState α), (compL r m S).S.st = (comp r.erase m S.st).st := fun m S => congrArg Res.st (ihr m S)
    have hrb : ∀ m (S : LState α), (compL r m S).b = (comp r.erase m S.st).b := fun m S => congrArg Res.b (ihr m S)
    cases m with
    | expr reg ec =>
      simp only [compL, comp, ACond.erase]
      refine res_eq ?_ rfl rfl
      simp only [logicalTailL_st, setLabelHereL_st, newLabelL_st, newLabelL_snd, hls, hlb, hrs, hrb]
    | aux reg ec thenl elsel hasnext lb b =>
      simp only [compL, comp, ACond.erase]
      rw [ihr]
      simp only [setLabelHereL_st, newLabelL_st, newLabelL_snd, hls, hlb]
    | bc reg thenl elsel hasnext =>
      simp only [compL, comp, ACond.erase]
      rw [ihr]
      simp only [setLabelHereL_st, newLabelL_st, newLabelL_snd, hls]
  | rel t op l r ihl ihr =>
    intro m S
    have hl : ∀ (S : LState α) (g : Nat), (compL l (.expr g ecnone0) S).res = comp l.erase (.expr g ecnone0) S.st := fun S g => ihl _ S
    have hr : ∀ (S : LState α) (g : Nat), (compL r (.expr g ecnone0) S).res = comp r.erase (.expr g ecnone0) S.st := fun S g => ihr _ S
    have key := fun (S' : LState α) (reg flip label : Nat) =>
      relAuxL_st t (fun s g => compL l (.expr g ecnone0) s) (fun s g => compL r (.expr g ecnone0) s)
        (fun s g => comp l.erase (.expr g ecnone0) s) (fun s g => comp r.erase (.expr g ecnone0) s)
        l.erase.isLogical r.erase.isLogical S' reg op flip label hl hr
    cases m with
    | expr reg ec =>
      simp only [compL, comp, ACond.erase]
      refine res_eq ?_ rfl rfl
      simp only [emitL_st, setLabelHereL_st, key, newLabelL_st, newLabelL_snd]
    | aux reg ec thenl elsel hasnext lb b =>
      simp only [compL, comp, ACond.erase]
      refine res_eq ?_ rfl rfl
      simp only [key]
    | bc reg thenl elsel hasnext =>
      simp only [compL, comp, ACond.erase]
      refine res_eq ?_ rfl rfl
      simp only [key]
  | arith t op l r ihl ihr =>
    intro m S
    have hl : ∀ (S : LState α) (g : Nat), (compL l (.expr g ecnone0) S).res = comp l.erase (.expr g ecnone0) S.st := fun S g => ihl _ S
    have hr : ∀ (S : LState α) (g : Nat), (compL r (.expr g ecnone0) S).res = comp r.erase (.expr g ecnone0) S.st := fun S g => ihr _ S
    cases m with
    | expr reg ec =>
      simp only [compL, comp, ACond.erase]
      exact arithExprL_res t _ op _ _ _ _ _ _ reg ec S hl hr
    | aux reg ec thenl elsel hasnext lb b =>
      simp only [compL, comp, ACond.erase]
      exact auxDefaultL_res t _ _ reg ec thenl elsel hasnext lb b S
        (fun ec' S' => arithExprL_res t _ op _ _ _ _ _ _ reg ec' S' hl hr)
    | bc reg thenl elsel hasnext =>
      simp only [compL, comp, ACond.erase, bcDefaultL_res]
      rw [arithExprL_res t _ op _ _ (fun s g => comp l.erase (.expr g ecnone0) s) (fun s g => comp r.erase (.expr g ecnone0) s) _ _ reg ecnone0 S hl hr]
  | unm t c ih =>
    intro m S
    have h : ∀ (g : Nat) (S : LState α), (compL c (.expr g ecnone0) S).res = comp c.erase (.expr g ecnone0) S.st := fun g S => ih _ S
    cases m with
    | expr reg ec =>
      simp only [compL, comp, ACond.erase]
      exact unmExprL_res t _ _ _ _ reg ec S (h reg)
    | aux reg ec thenl elsel hasnext lb b =>
      simp only [compL, comp, ACond.erase]
      exact auxDefaultL_res t _ _ reg ec thenl elsel hasnext lb b S
        (fun ec' S' => unmExprL_res t _ _ _ _ reg ec' S' (h reg))
    | bc reg thenl elsel hasnext =>
      simp only [compL, comp, ACond.erase, bcDefaultL_res]
      rw [unmExprL_res t _ _ _ _ reg ecnone0 S (h reg)]
  | len t c ih =>
    intro m S
    have h : ∀ (g : Nat) (S : LState α), (compL c (.expr g ecnone0) S).res = comp c.erase (.expr g ecnone0) S.st := fun g S => ih _ S
    cases m with
    | expr reg ec =>
      simp only [compL, comp, ACond.erase]
      exact unopExprL_res t _ _ _ _ reg ec S (h reg)
    | aux reg ec thenl elsel hasnext lb b =>
      simp only [compL, comp, ACond.erase]
      exact auxDefaultL_res t _ _ reg ec thenl elsel hasnext lb b S
        (fun ec' S' => unopExprL_res t _ _ _ _ reg ec' S' (h reg))
    | bc reg thenl elsel hasnext =>
      simp only [compL, comp, ACond.erase, bcDefaultL_res]
      rw [unopExprL_res t _ _ _ _ reg ecnone0 S (h reg)]
  | concat t l r ihl ihr =>
    intro m S
    have hl : ∀ (S : LState α) (g : Nat), (compL l (.expr g ecnone0) S).res = comp l.erase (.expr g ecnone0) S.st := fun S g => ihl _ S
    have hr : ∀ (S : LState α) (g : Nat), (compL r (.expr g ecnone0) S).res = comp r.erase (.expr g ecnone0) S.st := fun S g => ihr _ S
    cases m with
    | expr reg ec =>
      simp only [compL, comp, ACond.erase]
      exact concatExprL_res t _ _ _ _ _ reg ec S hl hr
    | aux reg ec thenl elsel hasnext lb b =>
      simp only [compL, comp, ACond.erase]
      exact auxDefaultL_res t _ _ reg ec thenl elsel hasnext lb b S
        (fun ec' S' => concatExprL_res t _ _ _ _ _ reg ec' S' hl hr)
    | bc reg thenl elsel hasnext =>
      simp only [compL, comp, ACond.erase, bcDefaultL_res]
      rw [concatExprL_res t _ _ _ (fun s g => comp l.erase (.expr g ecnone0) s) (fun s g => comp r.erase (.expr g ecnone0) s) reg ecnone0 S hl hr]

theorem compL_st (e : ACond α) (m : Mode) (S : LState α) : (compL e m S).S.st = (comp e.erase m S.st).st :=
  congrArg Res.st (compL_res e m S)
theorem compL_inc (e : ACond α) (m : Mode) (S : LState α) : (compL e m S).inc = (comp e.erase m S.st).inc :=
  congrArg Res.inc (compL_res e m S)
theorem compL_b (e : ACond α) (m : Mode) (S : LState α) : (compL e m S).b = (comp e.erase m S.st).b :=
  congrArg Res.b (compL_res e m S)

theorem compileBranchConditionL_st (S : LState α) (reg : Nat) (e : ACond α) (thenl elsel : Nat) (hasnext : Bool) :
    (compileBranchConditionL S reg e thenl elsel hasnext).st = compileBranchCondition S.st reg e.erase thenl elsel hasnext :=
  compL_st e _ S

/-! ### assignment -/

theorem left_go_length (n nrhs : Nat) : ∀ (lhs : List Target) (st : CState) (i : Nat),
    (compileAssignStmtLeft.go nrhs n st i lhs).2.length = lhs.length
  | [], _, _ => rfl
  | .loc r :: rest, st, i => by
    simp only [compileAssignStmtLeft.go, List.length_cons, left_go_length n nrhs rest st (i + 1)]
  | .glob id :: rest, st, i => by
    simp only [compileAssignStmtLeft.go, List.length_cons, left_go_length n nrhs rest _ (i + 1)]

theorem left_length (st : CState) (lhs : List Target) (nrhs : Nat) :
    (compileAssignStmtLeft st lhs nrhs).2.length = lhs.length := left_go_length _ _ lhs st 0

theorem compileAssignStmtLeftL_spec (S : LState α) (lhs : List (α × Target)) (nrhs : Nat) :
    (compileAssignStmtLeftL S lhs nrhs).1.st = (compileAssignStmtLeft S.st (lhs.map Prod.snd) nrhs).1 ∧
    (compileAssignStmtLeftL S lhs nrhs).1.lines = S.lines ∧
    (compileAssignStmtLeftL S lhs nrhs).2.map Prod.snd = (compileAssignStmtLeft S.st (lhs.map Prod.snd) nrhs).2 ∧
    (compileAssignStmtLeftL S lhs nrhs).2.map Prod.fst = lhs.map Prod.fst := by
  have hlen := left_length S.st (lhs.map Prod.snd) nrhs
  simp only [List.length_map] at hlen
  refine ⟨rfl, rfl, ?_, ?_⟩
  · simp only [compileAssignStmtLeftL]
    exact List.map_snd_zip (by simp [hlen])
  · simp only [compileAssignStmtLeftL]
    exact List.map_fst_zip (by simp [hlen])

theorem headD_erase (rhs : List (ACond α)) (t : α) : (rhs.headD (.nil t)).erase = (rhs.map ACond.erase).headD .nil := by
  cases rhs <;> rfl

theorem assignNamedL_spec : ∀ (l : List (α × AssignCtx)) (S : LState α) (reg : Nat) (rhs : List (ACond α)),
    (assignNamedL S reg l rhs).1.st = (compileAssignStmtRight.named S.st reg (l.map Prod.snd) (rhs.map ACond.erase)).1 ∧
    (assignNamedL S reg l rhs).2.1 = (compileAssignStmtRight.named S.st reg (l.map Prod.snd) (rhs.map ACond.erase)).2.1 ∧
    (assignNamedL S reg l rhs).2.2.1.map Prod.snd = (compileAssignStmtRight.named S.st reg (l.map Prod.snd) (rhs.map ACond.erase)).2.2.1 ∧
    (assignNamedL S reg l rhs).2.2.2.map ACond.erase = (compileAssignStmtRight.named S.st reg (l.map Prod.snd) (rhs.map ACond.erase)).2.2.2 ∧
    (assignNamedL S reg l rhs).2.2.1.map Prod.fst = l.map Prod.fst
  | [], S, reg, rhs => ⟨rfl, rfl, rfl, rfl, rfl⟩
  | (t, ac) :: l, S, reg, rhs => by
    have ih := assignNamedL_spec l (compL (rhs.headD (.nil t)) (.expr reg ac.ec) S).S
      (reg + (compL (rhs.headD (.nil t)) (.expr reg ac.ec) S).inc) rhs.tail
    simp only [compL_st, compL_inc, headD_erase, List.map_tail] at ih
    simp only [assignNamedL, compileAssignStmtRight.named, List.map_cons, compL_inc, headD_erase]
    obtain ⟨h1, h2, h3, h4, h5⟩ := ih
    exact ⟨h1, h2, by simp only [h3], h4, by simp only [h5]⟩

theorem assignSurplusL_st : ∀ (extra : List (ACond α)) (S : LState α) (reg : Nat),
    (assignSurplusL S reg extra).st = compileAssignStmtRight.surplus S.st reg (extra.map ACond.erase)
  | [], _, _ => rfl
  | e :: rest, S, reg => by
    simp only [assignSurplusL, compileAssignStmtRight.surplus, List.map_cons]
    rw [assignSurplusL_st rest, compL_st, compL_inc]

theorem compileAssignStmtRightL_spec (S : LState α) (reg : Nat) (l : List (α × AssignCtx)) (rhs : List (ACond α)) :
    (compileAssignStmtRightL S reg l rhs).1.st = (compileAssignStmtRight S.st reg (l.map Prod.snd) (rhs.map ACond.erase)).1 ∧
    (compileAssignStmtRightL S reg l rhs).2.1 = (compileAssignStmtRight S.st reg (l.map Prod.snd) (rhs.map ACond.erase)).2.1 ∧
    (compileAssignStmtRightL S reg l rhs).2.2.map Prod.snd = (compileAssignStmtRight S.st reg (l.map Prod.snd) (rhs.map ACond.erase)).2.2 := by
  obtain ⟨h1, h2, h3, h4, _⟩ := assignNamedL_spec l S reg rhs
  simp only [compileAssignStmtRightL, compileAssignStmtRight]
  refine ⟨?_, h2, h3⟩
  rw [assignSurplusL_st, h1, h2, h4]

theorem assignStoresL_st : ∀ (l : List (Target × α × AssignCtx)) (S : LState α) (reg : Nat),
    (assignStoresL S reg l).st = assignStores S.st reg (l.map fun p => (p.1, p.2.2))
  | [], _, _ => rfl
  | (.loc r, t, ac) :: rest, S, reg => by
    simp only [assignStoresL, assignStores, List.map_cons]
    split
    · rw [assignStoresL_st rest]; rfl
    · rw [assignStoresL_st rest]
  | (.glob id, t, ac) :: rest, S, reg => by
    simp only [assignStoresL, assignStores, List.map_cons]
    rw [assignStoresL_st rest]; rfl

theorem compileAssignStmtL_st (S : LState α) (lhs : List (α × Target)) (rhs : List (ACond α)) :
    (compileAssignStmtL S lhs rhs).st = compileAssignStmt S.st (lhs.map Prod.snd) (rhs.map ACond.erase) := by
  obtain ⟨h1, _, h3, _⟩ := compileAssignStmtLeftL_spec S lhs rhs.length
  obtain ⟨g1, g2, g3⟩ := compileAssignStmtRightL_spec (compileAssignStmtLeftL S lhs rhs.length).1
    (compileAssignStmtLeftL S lhs rhs.length).1.st.regTop (compileAssignStmtLeftL S lhs rhs.length).2 rhs
  simp only [compileAssignStmtL, compileAssignStmt, assignStoresL_st, List.length_map]
  rw [← h1, ← h3, g1, g2, ← g3, List.zip_map_right, List.map_reverse]
  rfl

theorem retGoL_spec : ∀ (cs : List (ACond α)) (S : LState α) (reg : Nat),
    (retGoL S reg cs).1.st = (compileStmt.go S.st reg (cs.map ACond.erase)).1 ∧
    (retGoL S reg cs).2 = (compileStmt.go S.st reg (cs.map ACond.erase)).2
  | [], _, _ => ⟨rfl, rfl⟩
  | e :: rest, S, reg => by
    simp only [retGoL, compileStmt.go, List.map_cons]
    have ih := retGoL_spec rest (compL e (.expr reg ecnone0) S).S (reg + (compL e (.expr reg ecnone0) S).inc)
    rw [compL_st, compL_inc] at ih
    rw [compL_inc]
    exact ih

/-! ### statements -/

@[simp] theorem ABlock.erase_isEmpty (b : ABlock α) : b.erase.isEmpty = b.isEmpty := by cases b <;> rfl

mutual
/-- **erasure, statements**. -/
theorem compStmtL_st : ∀ (s : AStmt α) (S : LState α), (compStmtL s S).st = compileStmt s.erase S.st
  | .ifS t last c thn els, S => by
    simp only [compStmtL, compileStmt, AStmt.erase, ABlock.erase_isEmpty]
    cases hemp : els.isEmpty with
    | true =>
      simp only [if_true, setLabelHereL_st, compBlockL_st thn, compileBranchConditionL_st, newLabelL_st, newLabelL_snd]
    | false =>
      simp only [Bool.false_eq_true, if_false, setLabelHereL_st, compBlockL_st thn, compBlockL_st els, emitL_st,
        compileBranchConditionL_st, newLabelL_st, newLabelL_snd]
  | .whileS t last c body, S => by
    simp only [compStmtL, compileStmt, AStmt.erase, setLabelHereL_st, lift_st, emitL_st, compChunkL_st body,
      compileBranchConditionL_st, newLabelL_st, newLabelL_snd]
  | .repeatS t last body c, S => by
    simp only [compStmtL, compileStmt, AStmt.erase, setLabelHereL_st, lift_st, compChunkL_st body,
      compileBranchConditionL_st, newLabelL_st, newLabelL_snd]
  | .ret t cs, S => by
    simp only [compStmtL, compileStmt, AStmt.erase]
    obtain ⟨h1, h2⟩ := retGoL_spec cs S S.st.regTop
    generalize cs.map ACond.erase = ecs at h1 h2 ⊢
    split <;> simp only [emitL_st, h1, h2]
  | .localDef t c, S => by
    simp only [compStmtL, compileStmt, AStmt.erase, lift_st, compL_st]
  | .assign t lhs rhs, S => by
    simp only [compStmtL, compileStmt, AStmt.erase, compileAssignStmtL_st]
theorem compChunkL_st : ∀ (b : ABlock α) (S : LState α), (compChunkL b S).st = compileChunk b.erase S.st
  | .nil, _ => rfl
  | .cons s rest, S => by
    simp only [compChunkL, compileChunk, ABlock.erase]
    rw [compChunkL_st rest, compStmtL_st s]
theorem compBlockL_st : ∀ (b : ABlock α) (S : LState α), (compBlockL b S).st = compileBlock b.erase S.st
  | .nil, _ => rfl
  | .cons s rest, S => by
    simp only [compBlockL, compileBlock, ABlock.erase, lift_st]
    rw [compChunkL_st rest, compStmtL_st s]
end

theorem compMainL_st (nlocals : Nat) (dots fin : α) (body : ABlock α) :
    (compMainL nlocals dots fin body).st = compileMain nlocals body.erase := by
  simp only [compMainL, compBodyL, compileMain, emitL_st, compChunkL_st]
  split <;> rfl

end GLua.Compile
