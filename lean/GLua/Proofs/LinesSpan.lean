/-
  C17, line layer — every position the parser stores in a node of a statement is the line of one of that statement's
  tokens; in a text read top to bottom (`Mono`) it therefore lies in the statement's span.  Lifted to the line table
  through naturality: `compTagged_good`.
-/
import GLua.Proofs.LinesSyntax

namespace GLua.Compile
open GLua.MiniVM GLua.Lines

variable [NumStruct] {α β : Type}
set_option linter.unusedSectionVars false

/-! ### lists of token lines -/

theorem mono_sublist {l1 l2 : List Nat} (h : l1.Sublist l2) (hm : Mono l2) : Mono l1 := List.Pairwise.sublist h hm

theorem mono_inSpan {l : List Nat} (hm : Mono l) {x : Nat} (hx : x ∈ l) : inSpan x (spanOf l) := by
  constructor
  · cases l with
    | nil => cases hx
    | cons a r =>
      simp only [spanOf, List.head?_cons, Option.getD_some]
      rcases List.mem_cons.mp hx with rfl | hr
      · exact Nat.le_refl _
      · exact (List.pairwise_cons.mp hm).1 x hr
  · rcases List.eq_nil_or_concat l with rfl | ⟨init, z, rfl⟩
    · cases hx
    · simp only [spanOf, List.concat_eq_append, List.getLast?_append, List.getLast?_singleton, Option.some_or, Option.getD_some]
      rw [List.concat_eq_append] at hx hm
      rcases List.mem_append.mp hx with hi | hz
      · exact (List.pairwise_append.mp hm).2.2 x hi z (List.mem_singleton.mpr rfl)
      · rw [List.mem_singleton.mp hz]; exact Nat.le_refl _

/-! ### the positions of a node are token lines of the node -/

theorem ACond.tags_map (f : α → β) (e : ACond α) : (e.map f).tags = e.tags.map f := by
  induction e <;> simp only [ACond.map, ACond.tags, List.map_cons, List.map_nil, List.map_append, *]

theorem ACond.setLn_tags (t : α) (e : ACond α) {x : α} (h : x ∈ (e.setLn t).tags) : x = t ∨ x ∈ e.tags := by
  cases e <;> simp only [ACond.setLn, ACond.tags, List.mem_cons, List.mem_append, List.not_mem_nil, or_false] at h ⊢
  all_goals first
    | exact Or.inl h
    | (rcases h with h | h
       · exact Or.inl h
       · exact Or.inr (Or.inr h))

theorem toA_tags (c : TCond) : ∀ x ∈ (toA c).tags, x ∈ c.toks := by
  induction c with
  | tru ln | fls ln | nil ln | num ln n | str ln s | loc ln r | ev ln id =>
    intro x hx; simpa [toA, ACond.tags, TCond.toks] using hx
  | not tk c ih | unm tk c ih | len tk c ih =>
    intro x hx
    simp only [toA, ACond.tags, List.mem_cons] at hx
    simp only [TCond.toks, List.mem_cons]
    rcases hx with rfl | hx
    · exact Or.inr (ih _ (ACond.ln_mem_tags _))
    · exact Or.inr (ih _ hx)
  | and l r ihl ihr | or l r ihl ihr | concat l r ihl ihr =>
    intro x hx
    simp only [toA, ACond.tags, List.mem_cons, List.mem_append] at hx
    simp only [TCond.toks, List.mem_append]
    rcases hx with rfl | hx | hx
    · exact Or.inl (ihl _ (ACond.ln_mem_tags _))
    · exact Or.inl (ihl _ hx)
    · exact Or.inr (ihr _ hx)
  | rel op l r ihl ihr =>
    intro x hx
    simp only [toA, ACond.tags, List.mem_cons, List.mem_append] at hx
    simp only [TCond.toks, List.mem_append]
    rcases hx with rfl | hx | hx
    · exact Or.inl (ihl _ (ACond.ln_mem_tags _))
    · exact Or.inl (ihl _ hx)
    · exact Or.inr (ihr _ hx)
  | arith op l r ihl ihr =>
    intro x hx
    simp only [toA, ACond.tags, List.mem_cons, List.mem_append] at hx
    simp only [TCond.toks, List.mem_append]
    rcases hx with rfl | hx | hx
    · exact Or.inl (ihl _ (ACond.ln_mem_tags _))
    · exact Or.inl (ihl _ hx)
    · exact Or.inr (ihr _ hx)
  | paren op cl c ih =>
    intro x hx
    simp only [toA] at hx
    simp only [TCond.toks, List.mem_cons, List.mem_append, List.not_mem_nil, or_false]
    rcases ACond.setLn_tags _ _ hx with rfl | hx
    · exact Or.inl rfl
    · exact Or.inr (Or.inl (ih _ hx))

/-- the positions of `(toA c)` paired with a span: all of them are (token line of c, that span). -/
theorem pair_tags (sp : Span) (c : TCond) (x : LTag) (hx : x ∈ ((toA c).map fun l => ((l, sp) : LTag)).tags) :
    x.2 = sp ∧ x.1 ∈ c.toks := by
  rw [ACond.tags_map] at hx
  obtain ⟨l, hl, rfl⟩ := List.mem_map.mp hx
  exact ⟨rfl, toA_tags c l hl⟩

theorem pair_tags_list (sp : Span) (cs : List TCond) (x : LTag)
    (hx : x ∈ (cs.map fun c => (toA c).map fun l => ((l, sp) : LTag)).flatMap ACond.tags) :
    x.2 = sp ∧ x.1 ∈ cs.flatMap TCond.toks := by
  obtain ⟨a, ha, hxa⟩ := List.mem_flatMap.mp hx
  obtain ⟨c, hc, rfl⟩ := List.mem_map.mp ha
  obtain ⟨h1, h2⟩ := pair_tags sp c x hxa
  exact ⟨h1, List.mem_flatMap.mpr ⟨c, hc, h2⟩⟩

/-! ### every position of an annotated statement lies in the span it is paired with -/

/-- the line of the entry lies in the span of the statement that wrote it. -/
def Good (x : LTag) : Prop := inSpan x.1 x.2

instance (x : LTag) : Decidable (Good x) := by unfold Good; infer_instance

/-- own position of a statement: paired with the statement's span, and a token line of the statement. -/
theorem good_own {toks : List Nat} (hm : Mono toks) {x : LTag} (h2 : x.2 = spanOf toks) (h1 : x.1 ∈ toks) : Good x := by
  unfold Good; rw [h2]; exact mono_inSpan hm h1

mutual
theorem annotStmt_good : ∀ (s : TStmt), Mono s.toks → ∀ x ∈ (annotStmt s).tags, Good x
  | .ifS ifLn c thenLn thn elseLn els endLn, hm, x, hx => by
    simp only [annotStmt, AStmt.tags, Option.toList, List.mem_cons, List.mem_append, List.not_mem_nil, or_false] at hx
    have hthn : thn.toks.Sublist (TStmt.ifS ifLn c thenLn thn elseLn els endLn).toks := by
      simp only [TStmt.toks]
      exact (List.sublist_append_left _ _).trans ((List.sublist_cons_self _ _).trans
        ((List.sublist_append_right _ _).trans (List.sublist_cons_self _ _)))
    rcases hx with rfl | rfl | hx | hx | hx
    · exact good_own hm rfl (by simp [TStmt.toks])
    · exact good_own hm rfl (by simp [TStmt.toks])
    · obtain ⟨h2, h1⟩ := pair_tags _ c x hx
      exact good_own hm h2 (by simp [TStmt.toks, h1])
    · exact annotBlock_good thn (mono_sublist hthn hm) x hx
    · cases hemp : els.isEmpty with
      | true =>
        cases els with
        | nil => simp [annotBlock, ABlock.tags] at hx
        | cons s r => simp [TBlock.isEmpty] at hemp
      | false =>
        have hels : els.toks.Sublist (TStmt.ifS ifLn c thenLn thn elseLn els endLn).toks := by
          simp only [TStmt.toks, hemp, Bool.false_eq_true, if_false]
          exact (List.sublist_cons_self elseLn els.toks).trans ((List.sublist_append_left _ [endLn]).trans
            ((List.sublist_append_right thn.toks _).trans ((List.sublist_cons_self thenLn _).trans
              ((List.sublist_append_right c.toks _).trans (List.sublist_cons_self ifLn _)))))
        exact annotBlock_good els (mono_sublist hels hm) x hx
  | .whileS whileLn c doLn body endLn, hm, x, hx => by
    simp only [annotStmt, AStmt.tags, Option.toList, List.mem_cons, List.mem_append, List.not_mem_nil, or_false] at hx
    have hbody : body.toks.Sublist (TStmt.whileS whileLn c doLn body endLn).toks := by
      simp only [TStmt.toks]
      exact (List.sublist_append_left _ _).trans ((List.sublist_cons_self _ _).trans
        ((List.sublist_append_right _ _).trans (List.sublist_cons_self _ _)))
    rcases hx with rfl | rfl | hx | hx
    · exact good_own hm rfl (by simp [TStmt.toks])
    · exact good_own hm rfl (by simp [TStmt.toks])
    · obtain ⟨h2, h1⟩ := pair_tags _ c x hx
      exact good_own hm h2 (by simp [TStmt.toks, h1])
    · exact annotBlock_good body (mono_sublist hbody hm) x hx
  | .repeatS repeatLn body untilLn c, hm, x, hx => by
    simp only [annotStmt, AStmt.tags, Option.toList, List.mem_cons, List.mem_append, List.not_mem_nil, or_false] at hx
    have hbody : body.toks.Sublist (TStmt.repeatS repeatLn body untilLn c).toks := by
      simp only [TStmt.toks]
      exact (List.sublist_append_left _ _).trans (List.sublist_cons_self _ _)
    rcases hx with rfl | rfl | hx | hx
    · exact good_own hm rfl (by simp [TStmt.toks])
    · exact good_own hm rfl (by simp [TStmt.toks, toA_tags c _ (ACond.ln_mem_tags _)])
    · exact annotBlock_good body (mono_sublist hbody hm) x hx
    · obtain ⟨h2, h1⟩ := pair_tags _ c x hx
      exact good_own hm h2 (by simp [TStmt.toks, h1])
  | .ret retLn cs, hm, x, hx => by
    simp only [annotStmt, AStmt.tags, List.mem_cons] at hx
    rcases hx with rfl | hx
    · exact good_own hm rfl (by simp [TStmt.toks])
    · obtain ⟨h2, h1⟩ := pair_tags_list _ cs x hx
      exact good_own hm h2 (by simp only [TStmt.toks, List.mem_cons]; exact Or.inr h1)
  | .localDef localLn c, hm, x, hx => by
    simp only [annotStmt, AStmt.tags, List.mem_cons] at hx
    rcases hx with rfl | hx
    · exact good_own hm rfl (by simp [TStmt.toks])
    · obtain ⟨h2, h1⟩ := pair_tags _ c x hx
      exact good_own hm h2 (by simp [TStmt.toks, h1])
  | .assign t0 targets rhs, hm, x, hx => by
    simp only [annotStmt, AStmt.tags, List.mem_cons, List.mem_append, List.map_map] at hx
    rcases hx with rfl | hx | hx
    · exact good_own hm rfl (by simp [TStmt.toks])
    · obtain ⟨p, hp, rfl⟩ := List.mem_map.mp hx
      refine good_own hm rfl ?_
      simp only [TStmt.toks, List.mem_cons, List.mem_append, List.mem_map]
      rcases List.mem_cons.mp hp with rfl | hp
      · exact Or.inl rfl
      · exact Or.inr (Or.inl ⟨p, hp, rfl⟩)
    · obtain ⟨h2, h1⟩ := pair_tags_list _ rhs x hx
      exact good_own hm h2 (by simp only [TStmt.toks, List.mem_cons, List.mem_append]; exact Or.inr (Or.inr h1))
theorem annotBlock_good : ∀ (b : TBlock), Mono b.toks → ∀ x ∈ (annotBlock b).tags, Good x
  | .nil, _, x, hx => by simp [annotBlock, ABlock.tags] at hx
  | .cons s rest, hm, x, hx => by
    simp only [annotBlock, ABlock.tags, List.mem_append] at hx
    simp only [TBlock.toks] at hm
    rcases hx with hx | hx
    · exact annotStmt_good s (mono_sublist (List.sublist_append_left _ _) hm) x hx
    · exact annotBlock_good rest (mono_sublist (List.sublist_append_right _ _) hm) x hx
end

end GLua.Compile
