/-
  C17, line layer — facts about the SYNTAX only (no compile function is unfolded here):

    * the parser actions `toA` / `toAStmt` commute with relabelling the token lines and with erasure;
    * the provenance annotation `annotStmt` projects to `toAStmt`;
    * in a text whose token lines never decrease (`Mono`), every line the parser stores in a node of a statement is
      the line of one of the statement's tokens, hence lies in the statement's span;
    * `map` on positioned trees: functor laws, congruence on the positions that occur;
    * `patchCode` keeps the length of the code.
-/
import GLua.Proofs.LinesNat
import GLua.Proofs.CompileWfPatch

namespace GLua.Compile
open GLua.MiniVM GLua.Lines

variable [NumStruct] {α β γ : Type}
set_option linter.unusedSectionVars false

/-! ### `map` on positioned trees -/

theorem ACond.map_map (g : β → γ) (f : α → β) (e : ACond α) : (e.map f).map g = e.map (g ∘ f) := by
  induction e <;> simp only [ACond.map, Function.comp, *]

theorem ACond.map_id' (e : ACond α) : e.map (fun x => x) = e := by
  induction e <;> simp only [ACond.map, *]

theorem ACond.map_congr {f g : α → β} (e : ACond α) (h : ∀ x ∈ e.tags, f x = g x) : e.map f = e.map g := by
  induction e with
  | tru t | fls t | nil t | num t n | str t s | loc t r | ev t id =>
    simp only [ACond.map, h t (by simp [ACond.tags])]
  | not t c ih | unm t c ih | len t c ih =>
    simp only [ACond.map, h t (by simp [ACond.tags]), ih (fun x hx => h x (by simp [ACond.tags, hx]))]
  | and t l r ihl ihr | or t l r ihl ihr | concat t l r ihl ihr =>
    simp only [ACond.map, h t (by simp [ACond.tags]), ihl (fun x hx => h x (by simp [ACond.tags, hx])),
      ihr (fun x hx => h x (by simp [ACond.tags, hx]))]
  | rel t op l r ihl ihr =>
    simp only [ACond.map, h t (by simp [ACond.tags]), ihl (fun x hx => h x (by simp [ACond.tags, hx])),
      ihr (fun x hx => h x (by simp [ACond.tags, hx]))]
  | arith t op l r ihl ihr =>
    simp only [ACond.map, h t (by simp [ACond.tags]), ihl (fun x hx => h x (by simp [ACond.tags, hx])),
      ihr (fun x hx => h x (by simp [ACond.tags, hx]))]

theorem ACond.setLn_map (f : α → β) (t : α) (e : ACond α) : (e.setLn t).map f = (e.map f).setLn (f t) := by
  cases e <;> rfl

theorem ACond.setLn_erase (t : α) (e : ACond α) : (e.setLn t).erase = e.erase := by
  cases e <;> rfl

theorem ACond.ln_mem_tags (e : ACond α) : e.ln ∈ e.tags := by
  cases e <;> simp [ACond.ln, ACond.tags]

theorem map_list_congr {f g : α → β} (cs : List (ACond α)) (h : ∀ x ∈ cs.flatMap ACond.tags, f x = g x) :
    cs.map (ACond.map f) = cs.map (ACond.map g) := by
  apply List.map_congr_left
  intro c hc
  exact ACond.map_congr c (fun x hx => h x (List.mem_flatMap.mpr ⟨c, hc, hx⟩))

mutual
theorem AStmt.map_congr {f g : α → β} : ∀ (s : AStmt α), (∀ x ∈ s.tags, f x = g x) → s.map f = s.map g
  | .ifS t last c thn els, h => by
    have hl : last.map f = last.map g := by
      cases last with
      | none => rfl
      | some l => simp only [Option.map, h l (by simp [AStmt.tags])]
    simp only [AStmt.map, h t (by simp [AStmt.tags]), hl,
      ACond.map_congr c (fun x hx => h x (by simp [AStmt.tags, hx])),
      ABlock.map_congr thn (fun x hx => h x (by simp [AStmt.tags, hx])),
      ABlock.map_congr els (fun x hx => h x (by simp [AStmt.tags, hx]))]
  | .whileS t last c body, h => by
    have hl : last.map f = last.map g := by
      cases last with
      | none => rfl
      | some l => simp only [Option.map, h l (by simp [AStmt.tags])]
    simp only [AStmt.map, h t (by simp [AStmt.tags]), hl,
      ACond.map_congr c (fun x hx => h x (by simp [AStmt.tags, hx])),
      ABlock.map_congr body (fun x hx => h x (by simp [AStmt.tags, hx]))]
  | .repeatS t last body c, h => by
    have hl : last.map f = last.map g := by
      cases last with
      | none => rfl
      | some l => simp only [Option.map, h l (by simp [AStmt.tags])]
    simp only [AStmt.map, h t (by simp [AStmt.tags]), hl,
      ACond.map_congr c (fun x hx => h x (by simp [AStmt.tags, hx])),
      ABlock.map_congr body (fun x hx => h x (by simp [AStmt.tags, hx]))]
  | .ret t cs, h => by
    simp only [AStmt.map, h t (by simp [AStmt.tags]),
      map_list_congr cs (fun x hx => h x (by simp only [AStmt.tags, List.mem_cons]; exact Or.inr hx))]
  | .localDef t c, h => by
    simp only [AStmt.map, h t (by simp [AStmt.tags]), ACond.map_congr c (fun x hx => h x (by simp [AStmt.tags, hx]))]
  | .assign t targets rhs, h => by
    have ht : (targets.map fun p => (f p.1, p.2)) = targets.map fun p => (g p.1, p.2) := by
      apply List.map_congr_left
      intro p hp
      rw [h p.1 (by simp only [AStmt.tags, List.mem_cons, List.mem_append, List.mem_map]; exact Or.inr (Or.inl ⟨p, hp, rfl⟩))]
    simp only [AStmt.map, h t (by simp [AStmt.tags]), ht,
      map_list_congr rhs (fun x hx => h x (by simp only [AStmt.tags, List.mem_cons, List.mem_append]; exact Or.inr (Or.inr hx)))]
theorem ABlock.map_congr {f g : α → β} : ∀ (b : ABlock α), (∀ x ∈ b.tags, f x = g x) → b.map f = b.map g
  | .nil, _ => rfl
  | .cons s rest, h => by
    simp only [ABlock.map, AStmt.map_congr s (fun x hx => h x (by simp [ABlock.tags, hx])),
      ABlock.map_congr rest (fun x hx => h x (by simp [ABlock.tags, hx]))]
end

theorem map_map_list (g : β → γ) (f : α → β) (cs : List (ACond α)) :
    (cs.map (ACond.map f)).map (ACond.map g) = cs.map (ACond.map (g ∘ f)) := by
  simp only [List.map_map]
  apply List.map_congr_left
  intro c _
  exact ACond.map_map g f c

theorem map_eta {δ : Type} (l : List (α × δ)) : (l.map fun p => (p.1, p.2)) = l := by
  induction l with
  | nil => rfl
  | cons p r ih => simp only [List.map_cons, ih]

mutual
theorem AStmt.map_map (g : β → γ) (f : α → β) : ∀ (s : AStmt α), (s.map f).map g = s.map (g ∘ f)
  | .ifS t last c thn els => by
    simp only [AStmt.map, ACond.map_map, ABlock.map_map g f thn, ABlock.map_map g f els, Option.map_map, Function.comp]
  | .whileS t last c body => by
    simp only [AStmt.map, ACond.map_map, ABlock.map_map g f body, Option.map_map, Function.comp]
  | .repeatS t last body c => by
    simp only [AStmt.map, ACond.map_map, ABlock.map_map g f body, Option.map_map, Function.comp]
  | .ret t cs => by
    simp only [AStmt.map, map_map_list, Function.comp]
  | .localDef t c => by simp only [AStmt.map, ACond.map_map, Function.comp]
  | .assign t targets rhs => by
    simp only [AStmt.map, map_map_list]
    simp only [List.map_map, Function.comp_def]
theorem ABlock.map_map (g : β → γ) (f : α → β) : ∀ (b : ABlock α), (b.map f).map g = b.map (g ∘ f)
  | .nil => rfl
  | .cons s rest => by simp only [ABlock.map, AStmt.map_map g f s, ABlock.map_map g f rest]
end

theorem AStmt.eline_map (f : α → β) (s : AStmt α) : (s.map f).eline = f s.eline := by
  cases s <;> simp only [AStmt.map, AStmt.eline, getD_map]

theorem ABlock.last?_map (f : α → β) : ∀ (b : ABlock α), (b.map f).last? = b.last?.map (AStmt.map f)
  | .nil => rfl
  | .cons s .nil => rfl
  | .cons s (.cons s' rest) => by
    have ih := ABlock.last?_map f (.cons s' rest)
    simp only [ABlock.map, ABlock.last?] at ih ⊢
    exact ih

/-! ### the parser actions commute with relabelling and with erasure -/

theorem toA_mapLines (σ : Nat → Nat) (c : TCond) : toA (c.mapLines σ) = (toA c).map σ := by
  induction c <;> simp only [TCond.mapLines, toA, ACond.map, ACond.ln_map, ACond.setLn_map, *]

theorem toA_erase (c : TCond) : (toA c).erase = c.erase := by
  induction c <;> simp only [toA, ACond.erase, TCond.erase, ACond.setLn_erase, *]

theorem toA_list_mapLines (σ : Nat → Nat) (cs : List TCond) : (cs.map (TCond.mapLines σ)).map toA = (cs.map toA).map (ACond.map σ) := by
  simp only [List.map_map]
  apply List.map_congr_left
  intro c _
  exact toA_mapLines σ c

theorem toA_list_erase (cs : List TCond) : (cs.map toA).map ACond.erase = cs.map TCond.erase := by
  simp only [List.map_map]
  apply List.map_congr_left
  intro c _
  exact toA_erase c

mutual
theorem toAStmt_mapLines (σ : Nat → Nat) : ∀ (s : TStmt), toAStmt (s.mapLines σ) = (toAStmt s).map σ
  | .ifS ifLn c thenLn thn elseLn els endLn => by
    simp only [TStmt.mapLines, toAStmt, AStmt.map, toA_mapLines, toABlock_mapLines σ thn, toABlock_mapLines σ els, Option.map]
  | .whileS whileLn c doLn body endLn => by
    simp only [TStmt.mapLines, toAStmt, AStmt.map, toA_mapLines, toABlock_mapLines σ body, Option.map]
  | .repeatS repeatLn body untilLn c => by
    simp only [TStmt.mapLines, toAStmt, AStmt.map, toA_mapLines, toABlock_mapLines σ body, Option.map, ACond.ln_map]
  | .ret retLn cs => by simp only [TStmt.mapLines, toAStmt, AStmt.map, toA_list_mapLines]
  | .localDef localLn c => by simp only [TStmt.mapLines, toAStmt, AStmt.map, toA_mapLines]
  | .assign t0 targets rhs => by simp only [TStmt.mapLines, toAStmt, AStmt.map, toA_list_mapLines, List.map_cons]
theorem toABlock_mapLines (σ : Nat → Nat) : ∀ (b : TBlock), toABlock (b.mapLines σ) = (toABlock b).map σ
  | .nil => rfl
  | .cons s rest => by simp only [TBlock.mapLines, toABlock, ABlock.map, toAStmt_mapLines σ s, toABlock_mapLines σ rest]
end

mutual
theorem toAStmt_erase : ∀ (s : TStmt), (toAStmt s).erase = s.erase
  | .ifS ifLn c thenLn thn elseLn els endLn => by
    simp only [toAStmt, AStmt.erase, TStmt.erase, toA_erase, toABlock_erase thn, toABlock_erase els]
  | .whileS whileLn c doLn body endLn => by simp only [toAStmt, AStmt.erase, TStmt.erase, toA_erase, toABlock_erase body]
  | .repeatS repeatLn body untilLn c => by simp only [toAStmt, AStmt.erase, TStmt.erase, toA_erase, toABlock_erase body]
  | .ret retLn cs => by simp only [toAStmt, AStmt.erase, TStmt.erase, toA_list_erase]
  | .localDef localLn c => by simp only [toAStmt, AStmt.erase, TStmt.erase, toA_erase]
  | .assign t0 targets rhs => by simp only [toAStmt, AStmt.erase, TStmt.erase, toA_list_erase, List.map_cons]
theorem toABlock_erase : ∀ (b : TBlock), (toABlock b).erase = b.erase
  | .nil => rfl
  | .cons s rest => by simp only [toABlock, ABlock.erase, TBlock.erase, toAStmt_erase s, toABlock_erase rest]
end

/-! ### the provenance annotation projects to the parser's tree -/

theorem map_pair_fst (sp : Span) (a : ACond Nat) : (a.map fun l => ((l, sp) : LTag)).map Prod.fst = a := by
  rw [ACond.map_map]; exact ACond.map_id' a

theorem map_pair_fst_list (sp : Span) (cs : List TCond) :
    (cs.map fun c => (toA c).map fun l => ((l, sp) : LTag)).map (ACond.map Prod.fst) = cs.map toA := by
  simp only [List.map_map]
  apply List.map_congr_left
  intro c _
  exact map_pair_fst sp (toA c)

mutual
theorem annotStmt_fst : ∀ (s : TStmt), (annotStmt s).map Prod.fst = toAStmt s
  | .ifS ifLn c thenLn thn elseLn els endLn => by
    simp only [annotStmt, toAStmt, AStmt.map, map_pair_fst, annotBlock_fst thn, annotBlock_fst els, Option.map]
  | .whileS whileLn c doLn body endLn => by
    simp only [annotStmt, toAStmt, AStmt.map, map_pair_fst, annotBlock_fst body, Option.map]
  | .repeatS repeatLn body untilLn c => by
    simp only [annotStmt, toAStmt, AStmt.map, map_pair_fst, annotBlock_fst body, Option.map]
  | .ret retLn cs => by simp only [annotStmt, toAStmt, AStmt.map, map_pair_fst_list]
  | .localDef localLn c => by simp only [annotStmt, toAStmt, AStmt.map, map_pair_fst]
  | .assign t0 targets rhs => by
    simp only [annotStmt, toAStmt, AStmt.map, map_pair_fst_list]
    simp only [List.map_map, Function.comp_def, map_eta]
theorem annotBlock_fst : ∀ (b : TBlock), (annotBlock b).map Prod.fst = toABlock b
  | .nil => rfl
  | .cons s rest => by simp only [annotBlock, toABlock, ABlock.map, annotStmt_fst s, annotBlock_fst rest]
end

/-! ### patchCode keeps positions -/

open GLua.CompileWf in
theorem patchJmp_length (orig : List Instr) (lp : List (Nat × Int)) (pc : Nat) (code code' : List Instr) (inst : Instr)
    (h : patchJmp orig lp pc code inst = .ok code') : code'.length = code.length := by
  unfold patchJmp at h
  split at h
  · split at h
    · cases h
    · cases h; split <;> exact setAt_length _ _ _
  · cases h; rfl

open GLua.CompileWf in
theorem mergeMoven_length (code : List Instr) (pc moven : Nat) : (mergeMoven code pc moven).length = code.length := by
  unfold mergeMoven
  split
  · split
    · exact setAt_length _ _ _
    · rfl
  · rfl

open GLua.CompileWf in
theorem patchLoop_length (orig : List Instr) (lp : List (Nat × Int)) :
    ∀ (fuel pc : Nat) (ps ps' : PatchState), patchLoop orig lp fuel pc ps = .ok ps' → ps'.code.length = ps.code.length
  | 0, _, ps, ps', h => by simp only [patchLoop] at h; cases h; rfl
  | fuel + 1, pc, ps, ps', h => by
    cases hi : orig[pc]? with
    | none => rw [patchLoop_none _ _ _ _ _ hi] at h; cases h; rfl
    | some inst =>
      rw [patchLoop_succ _ _ _ _ _ _ hi] at h
      cases hj : patchJmp orig lp pc ps.code inst with
      | error e => rw [hj] at h; cases h
      | ok code =>
        rw [hj] at h
        have hl := patchJmp_length _ _ _ _ _ _ hj
        simp only [] at h
        split at h
        · rw [patchLoop_length orig lp fuel _ _ _ h]; exact hl
        · rw [patchLoop_length orig lp fuel _ _ _ h]
          simp only [mergeMoven_length, hl]

/-- `patchCode` rewrites words in place: the patched code has the length of the emitted code. -/
theorem patchCode_length (st : CState) (code : List Instr) (nregs : Nat) (h : patchCode st = .ok (code, nregs)) :
    code.length = st.code.length := by
  simp only [patchCode, bind, Except.bind] at h
  split at h
  · cases h
  · rename_i ps hps
    split at h
    · cases h
    · simp only [pure, Except.pure] at h
      cases h
      exact patchLoop_length _ _ _ _ _ _ hps

end GLua.Compile
