/-
  C17, line layer — the line table has ONE ENTRY PER INSTRUCTION (`WF`): every compile function with positions keeps
  `lines.length = code.length`.  With the erasure theorems of Proofs/LinesSim.lean this is
  `(compLines p).length = (compileMain p.nlocals p.body.erase).code.length`.
-/
import GLua.Proofs.LinesSim

namespace GLua.Compile
open GLua.MiniVM

variable [NumStruct] {α : Type}
set_option linter.unusedSectionVars false

/-- one position per instruction. -/
def WF (S : LState α) : Prop := S.lines.length = S.st.code.length

theorem wf_emitL {S : LState α} (h : WF S) (i : Instr) (t : α) : WF (emitL S i t) := by
  simp only [WF, emitL, emit, List.length_append, List.length_singleton] at *; omega

theorem wf_lift' {S : LState α} (h : WF S) {st' : CState} (hc : st'.code.length = S.st.code.length) : WF (lift S st') := by
  simp only [WF, lift, hc]; exact h

theorem wf_lift {S : LState α} (h : WF S) {st' : CState} (hc : st'.code = S.st.code) : WF (lift S st') :=
  wf_lift' h (by rw [hc])

theorem wf_cut {S : LState α} (h : WF S) {st' : CState} (hc : st'.code.length ≤ S.st.code.length) : WF (cut S st') := by
  simp only [WF, cut, List.length_take] at *; omega

theorem wf_ite {c : Prop} [Decidable c] {A B : LState α} (hA : WF A) (hB : WF B) : WF (if c then A else B) := by
  split <;> assumption

@[simp] theorem newLabel_code (st : CState) : (newLabel st).1.code = st.code := rfl
@[simp] theorem setLabelHere_code' (st : CState) (l : Nat) : (setLabelHere st l).code = st.code := rfl
@[simp] theorem constIndex_code (st : CState) (k : Konst) : (constIndex st k).1.code = st.code := by
  unfold constIndex; split <;> rfl

theorem wf_newLabelL {S : LState α} (h : WF S) : WF (newLabelL S).1 := wf_lift h rfl
theorem wf_setLabelHereL {S : LState α} (h : WF S) (l : Nat) : WF (setLabelHereL S l) := wf_lift h rfl

theorem pop_length_le (st : CState) : (pop st).code.length ≤ st.code.length := by
  simp only [pop, List.length_dropLast]; omega

theorem propagate_length_le (kmv : Bool) (st : CState) (top reg inc : Nat) :
    (propagate kmv st top reg inc).1.code.length ≤ st.code.length := by
  unfold propagate
  split
  · split
    · exact pop_length_le st
    · exact Nat.le_refl _
  · split
    · exact pop_length_le st
    · exact Nat.le_refl _
  · exact Nat.le_refl _

theorem withPropagation_length_le (kmv isLog : Bool) (r : Res) (reg : Nat) :
    (withPropagation kmv isLog r reg).1.code.length ≤ r.st.code.length := by
  unfold withPropagation
  split
  · exact Nat.le_refl _
  · exact propagate_length_le _ _ _ _ _

theorem tailPop_length_le (st : CState) (e : Nat) : (tailPop st e).code.length ≤ st.code.length := by
  unfold tailPop
  split
  · split
    · exact pop_length_le st
    · exact Nat.le_refl _
  · exact Nat.le_refl _

omit [NumStruct] in
theorem dropConcats_length_le : ∀ (n : Nat) (c : List Instr), (dropConcats n c).length ≤ c.length
  | 0, _ => Nat.le_refl _
  | n + 1, c => by
    unfold dropConcats
    split
    · split
      · exact Nat.le_refl _
      · exact Nat.le_trans (dropConcats_length_le n _) (by simp)
    · exact Nat.le_refl _

theorem popConcats_length_le (st : CState) : (popConcats st).code.length ≤ st.code.length :=
  dropConcats_length_le _ _

/-! ### helpers -/

theorem wf_withPropagationL (kmv isLog : Bool) (r : LRes α) (reg : Nat) (h : WF r.S) :
    WF (withPropagationL kmv isLog r reg).1 :=
  wf_cut h (withPropagation_length_le kmv isLog r.res reg)

theorem wf_binOperandsL (cl cr : LState α → Nat → LRes α) (ll rl : Bool) (S : LState α) (reg : Nat)
    (hl : ∀ S g, WF S → WF (cl S g).S) (hr : ∀ S g, WF S → WF (cr S g).S) (h : WF S) :
    WF (binOperandsL cl cr ll rl S reg).1 := by
  simp only [binOperandsL]
  exact wf_withPropagationL _ _ _ _ (hr _ _ (wf_withPropagationL _ _ _ _ (hl _ _ h)))

theorem wf_relAuxL (t : α) (cl cr : LState α → Nat → LRes α) (ll rl : Bool) (S : LState α) (reg : Nat) (op : RelOp)
    (flip label : Nat) (hl : ∀ S g, WF S → WF (cl S g).S) (hr : ∀ S g, WF S → WF (cr S g).S) (h : WF S) :
    WF (relAuxL t cl cr ll rl S reg op flip label) := by
  simp only [relAuxL]
  exact wf_emitL (wf_emitL (wf_binOperandsL cl cr ll rl S reg hl hr h) _ _) _ _

theorem wf_tailBoolsL (t : α) (S : LState α) (a : Nat) (lb : LbLabels) (b : Bool) (h : WF S) : WF (tailBoolsL t S a lb b) := by
  cases b
  · exact h
  · exact wf_emitL (wf_setLabelHereL (wf_emitL (wf_setLabelHereL h _) _ _) _) _ _

theorem wf_tailPopL (S : LState α) (e : Nat) (h : WF S) : WF (tailPopL S e) := wf_cut h (tailPop_length_le _ _)

theorem wf_logicalTailL (t : α) (S : LState α) (a : Nat) (lb : LbLabels) (b : Bool) (h : WF S) : WF (logicalTailL t S a lb b) :=
  wf_setLabelHereL (wf_tailPopL _ _ (wf_tailBoolsL t S a lb b h)) _

theorem wf_loadKL (t : α) (k : Konst) (reg : Nat) (ec : ExpCtx) (S : LState α) (h : WF S) : WF (loadKL t k reg ec S).S :=
  wf_emitL (wf_lift h (constIndex_code _ _)) _ _

theorem wf_leafExprL (t : α) (e : Cond) (reg : Nat) (ec : ExpCtx) (S : LState α) (h : WF S) : WF (leafExprL t e reg ec S).S := by
  cases e <;> simp only [leafExprL] <;> first | exact wf_emitL h _ _ | exact wf_loadKL _ _ _ _ _ h | exact h | skip
  exact wf_emitL (wf_lift h (constIndex_code _ _)) _ _

theorem wf_notExprL (t : α) (c : Cond) (sub : LState α → LRes α) (reg : Nat) (ec : ExpCtx) (S : LState α)
    (hs : ∀ S, WF S → WF (sub S).S) (h : WF S) : WF (notExprL t c sub reg ec S).S := by
  cases c <;> simp only [notExprL] <;> first | exact wf_emitL h _ _ | exact wf_emitL (wf_withPropagationL _ _ _ _ (hs _ h)) _ _

theorem wf_arithExprL (t : α) (folded : Option NumStruct.N) (op : ArithOp) (cl cr : LState α → Nat → LRes α) (ll rl : Bool)
    (reg : Nat) (ec : ExpCtx) (S : LState α)
    (hl : ∀ S g, WF S → WF (cl S g).S) (hr : ∀ S g, WF S → WF (cr S g).S) (h : WF S) :
    WF (arithExprL t folded op cl cr ll rl reg ec S).S := by
  cases folded with
  | some x => exact wf_loadKL _ _ _ _ _ h
  | none => exact wf_emitL (wf_binOperandsL cl cr ll rl S reg hl hr h) _ _

theorem wf_unopExprL (t : α) (mk : Nat → Nat → Instr) (isLog : Bool) (sub : LState α → LRes α) (reg : Nat) (ec : ExpCtx)
    (S : LState α) (hs : ∀ S, WF S → WF (sub S).S) (h : WF S) : WF (unopExprL t mk isLog sub reg ec S).S :=
  wf_emitL (wf_withPropagationL _ _ _ _ (hs _ h)) _ _

theorem wf_unmExprL (t : α) (folded : Option NumStruct.N) (isLog : Bool) (sub : LState α → LRes α) (reg : Nat) (ec : ExpCtx)
    (S : LState α) (hs : ∀ S, WF S → WF (sub S).S) (h : WF S) : WF (unmExprL t folded isLog sub reg ec S).S := by
  cases folded with
  | some x => exact wf_loadKL _ _ _ _ _ h
  | none => exact wf_unopExprL _ _ _ _ _ _ _ hs h

theorem wf_popConcatsL (S : LState α) (h : WF S) : WF (popConcatsL S) := wf_cut h (popConcats_length_le _)

theorem wf_concatExprL (t : α) (crange : Nat) (cl cr : LState α → Nat → LRes α) (reg : Nat) (ec : ExpCtx) (S : LState α)
    (hl : ∀ S g, WF S → WF (cl S g).S) (hr : ∀ S g, WF S → WF (cr S g).S) (h : WF S) :
    WF (concatExprL t crange cl cr reg ec S).S :=
  wf_emitL (wf_popConcatsL _ (hr _ _ (hl _ _ h))) _ _

theorem last_some_length {st : CState} {i : Instr} (h : last st = some i) : st.code.dropLast.length + 1 = st.code.length := by
  simp only [last] at h
  obtain ⟨ys, hys⟩ := List.getLast?_eq_some_iff.mp h
  rw [hys]; simp

theorem wf_moveToL (t : α) (S : LState α) (sreg a : Nat) (h : WF S) : WF (moveToL t S sreg a) := by
  unfold moveToL
  split
  · rename_i a' b' hl
    split
    · rename_i ha
      refine wf_lift' h ?_
      have := last_some_length hl
      simp only [moveTo, hl, ha, if_true, emit, pop, List.length_append, List.length_singleton]
      exact this
    · exact wf_emitL h _ _
  · exact wf_emitL h _ _

theorem wf_auxDefaultL (t : α) (sub : ExpCtx → LState α → LRes α) (reg : Nat) (ec : ExpCtx) (thenl elsel : Nat) (hasnext : Bool)
    (lb : LbLabels) (b : Bool) (S : LState α) (hs : ∀ ec' S, WF S → WF (sub ec' S).S) (h : WF S) :
    WF (auxDefaultL t sub reg ec thenl elsel hasnext lb b S).S := by
  simp only [auxDefaultL]
  by_cases hc : hasnext = false ∧ thenl = elsel
  · rw [if_pos hc]; exact wf_emitL (wf_moveToL _ _ _ _ (hs _ _ h)) _ _
  · rw [if_neg hc]
    exact wf_emitL (wf_ite (wf_emitL (hs _ _ h) _ _) (wf_emitL (hs _ _ h) _ _)) _ _

theorem wf_bcDefaultL (t : α) (r : LRes α) (reg flip jumplabel : Nat) (h : WF r.S) : WF (bcDefaultL t r reg flip jumplabel).S :=
  wf_emitL (wf_emitL (wf_withPropagationL _ _ _ _ h) _ _) _ _

/-! ### expressions -/

theorem compL_wf (e : ACond α) : ∀ (m : Mode) (S : LState α), WF S → WF (compL e m S).S := by
  induction e with
  | tru t | fls t | nil t | num t n | str t s =>
    intro m S h
    cases m <;> simp only [compL] <;> (try split) <;>
      first
      | exact wf_leafExprL _ _ _ _ _ h
      | exact wf_emitL h _ _
      | exact wf_emitL (wf_leafExprL _ _ _ _ _ h) _ _
      | exact wf_bcDefaultL _ _ _ _ _ (wf_leafExprL _ _ _ _ _ h)
      | exact h
  | loc t r =>
    intro m S h
    cases m with
    | expr reg ec => exact wf_leafExprL _ _ _ _ _ h
    | aux reg ec thenl elsel hasnext lb b =>
      simp only [compL]
      split
      · exact wf_emitL (wf_ite (wf_emitL h _ _) (wf_emitL h _ _)) _ _
      · exact wf_auxDefaultL _ _ _ _ _ _ _ _ _ _ (fun ec' S' h' => wf_leafExprL _ _ _ _ _ h') h
    | bc reg thenl elsel hasnext => exact wf_bcDefaultL _ _ _ _ _ (wf_leafExprL _ _ _ _ _ h)
  | ev t id =>
    intro m S h
    cases m with
    | expr reg ec => exact wf_leafExprL _ _ _ _ _ h
    | aux reg ec thenl elsel hasnext lb b =>
      exact wf_auxDefaultL _ _ _ _ _ _ _ _ _ _ (fun ec' S' h' => wf_leafExprL _ _ _ _ _ h') h
    | bc reg thenl elsel hasnext => exact wf_bcDefaultL _ _ _ _ _ (wf_leafExprL _ _ _ _ _ h)
  | not t c ih =>
    intro m S h
    cases m with
    | expr reg ec => exact wf_notExprL _ _ _ _ _ _ (fun S' h' => ih _ S' h') h
    | aux reg ec thenl elsel hasnext lb b =>
      exact wf_auxDefaultL _ _ _ _ _ _ _ _ _ _ (fun ec' S' h' => wf_notExprL _ _ _ _ _ _ (fun S'' h'' => ih _ S'' h'') h') h
    | bc reg thenl elsel hasnext => simp only [compL]; exact ih _ S h
  | and t l r ihl ihr | or t l r ihl ihr =>
    intro m S h
    cases m with
    | expr reg ec =>
      simp only [compL]
      refine wf_logicalTailL _ _ _ _ _ (ihr _ _ (wf_setLabelHereL (ihl _ _ ?_) _))
      exact wf_newLabelL (wf_newLabelL (wf_newLabelL (wf_newLabelL h)))
    | aux reg ec thenl elsel hasnext lb b =>
      simp only [compL]
      exact ihr _ _ (wf_setLabelHereL (ihl _ _ (wf_newLabelL h)) _)
    | bc reg thenl elsel hasnext =>
      simp only [compL]
      exact ihr _ _ (wf_setLabelHereL (ihl _ _ (wf_newLabelL h)) _)
  | rel t op l r ihl ihr =>
    intro m S h
    have hl : ∀ (S : LState α) (g : Nat), WF S → WF (compL l (.expr g ecnone0) S).S := fun S g h => ihl _ S h
    have hr : ∀ (S : LState α) (g : Nat), WF S → WF (compL r (.expr g ecnone0) S).S := fun S g h => ihr _ S h
    cases m with
    | expr reg ec =>
      simp only [compL]
      exact wf_emitL (wf_setLabelHereL (wf_emitL (wf_relAuxL t _ _ _ _ _ _ _ _ _ hl hr (wf_newLabelL h)) _ _) _) _ _
    | aux reg ec thenl elsel hasnext lb b =>
      simp only [compL]
      exact wf_relAuxL t _ _ _ _ _ _ _ _ _ hl hr h
    | bc reg thenl elsel hasnext =>
      simp only [compL]
      exact wf_relAuxL t _ _ _ _ _ _ _ _ _ hl hr h
  | arith t op l r ihl ihr =>
    intro m S h
    have hl : ∀ (S : LState α) (g : Nat), WF S → WF (compL l (.expr g ecnone0) S).S := fun S g h => ihl _ S h
    have hr : ∀ (S : LState α) (g : Nat), WF S → WF (compL r (.expr g ecnone0) S).S := fun S g h => ihr _ S h
    cases m with
    | expr reg ec => exact wf_arithExprL t _ op _ _ _ _ reg ec S hl hr h
    | aux reg ec thenl elsel hasnext lb b =>
      exact wf_auxDefaultL _ _ _ _ _ _ _ _ _ _ (fun ec' S' h' => wf_arithExprL t _ op _ _ _ _ reg ec' S' hl hr h') h
    | bc reg thenl elsel hasnext => exact wf_bcDefaultL _ _ _ _ _ (wf_arithExprL t _ op _ _ _ _ reg _ S hl hr h)
  | unm t c ih =>
    intro m S h
    have hs : ∀ (g : Nat) (S : LState α), WF S → WF (compL c (.expr g ecnone0) S).S := fun g S h => ih _ S h
    cases m with
    | expr reg ec => exact wf_unmExprL t _ _ _ reg ec S (hs reg) h
    | aux reg ec thenl elsel hasnext lb b =>
      exact wf_auxDefaultL _ _ _ _ _ _ _ _ _ _ (fun ec' S' h' => wf_unmExprL t _ _ _ reg ec' S' (hs reg) h') h
    | bc reg thenl elsel hasnext => exact wf_bcDefaultL _ _ _ _ _ (wf_unmExprL t _ _ _ reg _ S (hs reg) h)
  | len t c ih =>
    intro m S h
    have hs : ∀ (g : Nat) (S : LState α), WF S → WF (compL c (.expr g ecnone0) S).S := fun g S h => ih _ S h
    cases m with
    | expr reg ec => exact wf_unopExprL t _ _ _ reg ec S (hs reg) h
    | aux reg ec thenl elsel hasnext lb b =>
      exact wf_auxDefaultL _ _ _ _ _ _ _ _ _ _ (fun ec' S' h' => wf_unopExprL t _ _ _ reg ec' S' (hs reg) h') h
    | bc reg thenl elsel hasnext => exact wf_bcDefaultL _ _ _ _ _ (wf_unopExprL t _ _ _ reg _ S (hs reg) h)
  | concat t l r ihl ihr =>
    intro m S h
    have hl : ∀ (S : LState α) (g : Nat), WF S → WF (compL l (.expr g ecnone0) S).S := fun S g h => ihl _ S h
    have hr : ∀ (S : LState α) (g : Nat), WF S → WF (compL r (.expr g ecnone0) S).S := fun S g h => ihr _ S h
    cases m with
    | expr reg ec => exact wf_concatExprL t _ _ _ reg ec S hl hr h
    | aux reg ec thenl elsel hasnext lb b =>
      exact wf_auxDefaultL _ _ _ _ _ _ _ _ _ _ (fun ec' S' h' => wf_concatExprL t _ _ _ reg ec' S' hl hr h') h
    | bc reg thenl elsel hasnext => exact wf_bcDefaultL _ _ _ _ _ (wf_concatExprL t _ _ _ reg _ S hl hr h)

/-! ### statements -/

theorem left_go_code (n nrhs : Nat) : ∀ (lhs : List Target) (st : CState) (i : Nat),
    (compileAssignStmtLeft.go nrhs n st i lhs).1.code = st.code
  | [], _, _ => rfl
  | .loc r :: rest, st, i => by
    simp only [compileAssignStmtLeft.go, left_go_code n nrhs rest st (i + 1)]
  | .glob id :: rest, st, i => by
    simp only [compileAssignStmtLeft.go, left_go_code n nrhs rest _ (i + 1), constIndex_code]

theorem wf_compileAssignStmtLeftL (S : LState α) (lhs : List (α × Target)) (nrhs : Nat) (h : WF S) :
    WF (compileAssignStmtLeftL S lhs nrhs).1 :=
  wf_lift h (left_go_code _ _ _ _ _)

theorem wf_assignNamedL : ∀ (l : List (α × AssignCtx)) (S : LState α) (reg : Nat) (rhs : List (ACond α)), WF S →
    WF (assignNamedL S reg l rhs).1
  | [], _, _, _, h => h
  | (t, ac) :: l, S, reg, rhs, h => by
    simp only [assignNamedL]
    exact wf_assignNamedL l _ _ _ (compL_wf _ _ _ h)

theorem wf_assignSurplusL : ∀ (extra : List (ACond α)) (S : LState α) (reg : Nat), WF S → WF (assignSurplusL S reg extra)
  | [], _, _, h => h
  | e :: rest, S, reg, h => by
    simp only [assignSurplusL]
    exact wf_assignSurplusL rest _ _ (compL_wf _ _ _ h)

theorem wf_compileAssignStmtRightL (S : LState α) (reg : Nat) (l : List (α × AssignCtx)) (rhs : List (ACond α)) (h : WF S) :
    WF (compileAssignStmtRightL S reg l rhs).1 := by
  simp only [compileAssignStmtRightL]
  exact wf_assignSurplusL _ _ _ (wf_assignNamedL l S reg rhs h)

theorem wf_assignStoresL : ∀ (l : List (Target × α × AssignCtx)) (S : LState α) (reg : Nat), WF S → WF (assignStoresL S reg l)
  | [], _, _, h => h
  | (.loc r, t, ac) :: rest, S, reg, h => by
    simp only [assignStoresL]
    split
    · exact wf_assignStoresL rest _ _ (wf_emitL h _ _)
    · exact wf_assignStoresL rest _ _ h
  | (.glob id, t, ac) :: rest, S, reg, h => by
    simp only [assignStoresL]
    exact wf_assignStoresL rest _ _ (wf_emitL (wf_lift h (constIndex_code _ _)) _ _)

theorem wf_compileAssignStmtL (S : LState α) (lhs : List (α × Target)) (rhs : List (ACond α)) (h : WF S) :
    WF (compileAssignStmtL S lhs rhs) := by
  simp only [compileAssignStmtL]
  exact wf_assignStoresL _ _ _ (wf_compileAssignStmtRightL _ _ _ _ (wf_compileAssignStmtLeftL S lhs rhs.length h))

theorem wf_retGoL : ∀ (cs : List (ACond α)) (S : LState α) (reg : Nat), WF S → WF (retGoL S reg cs).1
  | [], _, _, h => h
  | e :: rest, S, reg, h => by
    simp only [retGoL]
    exact wf_retGoL rest _ _ (compL_wf _ _ _ h)

theorem wf_bcL (S : LState α) (reg : Nat) (e : ACond α) (thenl elsel : Nat) (hasnext : Bool) (h : WF S) :
    WF (compileBranchConditionL S reg e thenl elsel hasnext) := compL_wf e _ S h

mutual
theorem compStmtL_wf : ∀ (s : AStmt α) (S : LState α), WF S → WF (compStmtL s S)
  | .ifS t last c thn els, S, h => by
    simp only [compStmtL]
    have h1 := wf_setLabelHereL (wf_bcL _ (newLabelL (newLabelL (newLabelL S).1).1).1.st.regTop c
      (newLabelL S).2 (newLabelL (newLabelL S).1).2 false (wf_newLabelL (wf_newLabelL (wf_newLabelL h)))) (newLabelL S).2
    have h2 := compBlockL_wf thn _ h1
    cases hemp : els.isEmpty with
    | true => simp only [if_true]; exact wf_setLabelHereL h2 _
    | false =>
      simp only [Bool.false_eq_true, if_false]
      exact wf_setLabelHereL (compBlockL_wf els _ (wf_setLabelHereL (wf_emitL h2 _ _) _)) _
  | .whileS t last c body, S, h => by
    simp only [compStmtL]
    apply wf_setLabelHereL
    refine wf_lift ?_ rfl
    apply wf_emitL
    apply compChunkL_wf
    apply wf_setLabelHereL
    apply wf_bcL
    apply wf_setLabelHereL
    exact wf_newLabelL (wf_newLabelL (wf_newLabelL h))
  | .repeatS t last body c, S, h => by
    simp only [compStmtL]
    refine wf_lift ?_ rfl
    apply wf_setLabelHereL
    apply wf_bcL
    apply compChunkL_wf
    apply wf_setLabelHereL
    apply wf_setLabelHereL
    exact wf_newLabelL (wf_newLabelL (wf_newLabelL h))
  | .ret t cs, S, h => by
    simp only [compStmtL]
    split
    · exact wf_emitL h _ _
    · exact wf_emitL (wf_retGoL cs S _ h) _ _
  | .localDef t c, S, h => by
    simp only [compStmtL]
    exact wf_lift (compL_wf c _ S h) rfl
  | .assign t lhs rhs, S, h => wf_compileAssignStmtL S lhs rhs h
theorem compChunkL_wf : ∀ (b : ABlock α) (S : LState α), WF S → WF (compChunkL b S)
  | .nil, _, h => h
  | .cons s rest, S, h => by
    simp only [compChunkL]
    exact compChunkL_wf rest _ (compStmtL_wf s S h)
theorem compBlockL_wf : ∀ (b : ABlock α) (S : LState α), WF S → WF (compBlockL b S)
  | .nil, _, h => h
  | .cons s rest, S, h => by
    simp only [compBlockL]
    exact wf_lift (compChunkL_wf rest _ (compStmtL_wf s S h)) rfl
end

theorem compBodyL_wf (nlocals : Nat) (dots : α) (body : ABlock α) : WF (compBodyL nlocals dots body) := by
  simp only [compBodyL]
  refine compChunkL_wf body _ ?_
  have h0 : WF ({ st := {}, lines := [] } : LState α) := rfl
  split
  · exact h0
  · exact wf_lift (wf_emitL h0 _ _) rfl

theorem compMainL_wf (nlocals : Nat) (dots fin : α) (body : ABlock α) : WF (compMainL nlocals dots fin body) :=
  wf_emitL (compBodyL_wf nlocals dots body) _ _

/-- **the line table is parallel to the code of the existing model**: one entry per instruction. -/
theorem compMainL_lines_length (nlocals : Nat) (dots fin : α) (body : ABlock α) :
    (compMainL nlocals dots fin body).lines.length = (compileMain nlocals body.erase).code.length := by
  rw [← compMainL_st nlocals dots fin body]
  exact compMainL_wf nlocals dots fin body

end GLua.Compile
