/-
  Correctness of the lowering of conditions in BRANCH context (`compileBranchCondition`) for condition trees
  built from and / or / not, relational operators on leaves, constants and atoms.
-/
import GLua.Proofs.LoweringBasic

namespace GLua.Lowering
open GLua.Compile GLua.MiniVM GLua.CondSpec

/-! ### fragments -/

def isLeaf : Cond → Bool
  | .tru | .fls | .nil | .num _ | .str _ | .loc _ | .ev _ => true
  | _ => false

/-- every local mentioned lives in a register below `n`. -/
def LocalsBelow (n : Nat) : Cond → Prop
  | .loc r => r < n
  | .not c => LocalsBelow n c
  | .and l r => LocalsBelow n l ∧ LocalsBelow n r
  | .or l r => LocalsBelow n l ∧ LocalsBelow n r
  | .rel _ l r => LocalsBelow n l ∧ LocalsBelow n r
  | _ => True

/-- the branch-context fragment: operands of relational operators are leaves. -/
def BCFrag : Cond → Prop
  | .not c => BCFrag c
  | .and l r => BCFrag l ∧ BCFrag r
  | .or l r => BCFrag l ∧ BCFrag r
  | .rel _ l r => isLeaf l = true ∧ isLeaf r = true
  | _ => True

/-! ### compile-state primitives -/

@[simp] theorem last_emit (st : CState) (i : Instr) : last (emit st i) = some i := by
  simp [last, emit]
@[simp] theorem pop_emit (st : CState) (i : Instr) : pop (emit st i) = st := by
  simp [pop, emit]
@[simp] theorem emit_code (st : CState) (i : Instr) : (emit st i).code = st.code ++ [i] := rfl
@[simp] theorem emit_labelId (st : CState) (i : Instr) : (emit st i).labelId = st.labelId := rfl
@[simp] theorem emit_labelPc (st : CState) (i : Instr) : (emit st i).labelPc = st.labelPc := rfl
@[simp] theorem emit_regTop (st : CState) (i : Instr) : (emit st i).regTop = st.regTop := rfl
@[simp] theorem emit_consts (st : CState) (i : Instr) : (emit st i).consts = st.consts := rfl
@[simp] theorem getLabelPc_emit (st : CState) (i : Instr) (L : Nat) : getLabelPc (emit st i) L = getLabelPc st L := rfl

theorem savereg_ecnone0 (reg : Nat) : savereg ecnone0 reg = reg := by
  simp [savereg, ecnone0, ecNone, ecLocal, Generated.ecNone, Generated.ecLocal]

/-- frame of a compile step: code and constant pool only grow at the end, the label counter only grows,
    labels below `lo` keep their binding, the register top is unchanged. -/
structure Frame (lo : Nat) (st st' : CState) : Prop where
  code : st.code <+: st'.code
  labelId : st.labelId ≤ st'.labelId
  labels : ∀ L, L < lo → getLabelPc st' L = getLabelPc st L
  regTop : st'.regTop = st.regTop
  consts : st.consts <+: st'.consts

theorem Frame.refl {lo : Nat} (st : CState) : Frame lo st st :=
  ⟨List.prefix_refl _, Nat.le_refl _, fun _ _ => rfl, rfl, List.prefix_refl _⟩

theorem Frame.trans {lo : Nat} {a b c : CState} (h1 : Frame lo a b) (h2 : Frame lo b c) : Frame lo a c :=
  ⟨h1.code.trans h2.code, Nat.le_trans h1.labelId h2.labelId,
   fun L hL => by rw [h2.labels L hL, h1.labels L hL],
   by rw [h2.regTop, h1.regTop], h1.consts.trans h2.consts⟩

theorem Frame.mono {lo lo' : Nat} {a b : CState} (h : Frame lo a b) (hle : lo' ≤ lo) : Frame lo' a b :=
  ⟨h.code, h.labelId, fun L hL => h.labels L (Nat.lt_of_lt_of_le hL hle), h.regTop, h.consts⟩

theorem frame_emit {lo : Nat} (st : CState) (i : Instr) : Frame lo st (emit st i) :=
  ⟨by simp, Nat.le_refl _, fun _ _ => rfl, rfl, List.prefix_refl _⟩

theorem frame_constIndex {lo : Nat} (st : CState) (k : Konst) : Frame lo st (constIndex st k).1 := by
  obtain ⟨_, h2, h3, h4, h5, h6⟩ := constIndex_spec st k
  exact ⟨by rw [h3]; exact List.prefix_refl _, by rw [h4]; exact Nat.le_refl _, fun L _ => by simp [getLabelPc, h5], h6, h2⟩

theorem frame_newLabel {lo : Nat} (st : CState) : Frame lo st (newLabel st).1 :=
  ⟨List.prefix_refl _, Nat.le_succ _, fun _ _ => rfl, rfl, List.prefix_refl _⟩

theorem frame_setLabelHere {lo : Nat} (st : CState) (L : Nat) (hL : lo ≤ L) : Frame lo st (setLabelHere st L) :=
  ⟨List.prefix_refl _, Nat.le_refl _, fun L' hL' => by
      have : L ≠ L' := by omega
      simp [getLabelPc, setLabelHere, setLabelPc, lookupLabel, this], rfl, List.prefix_refl _⟩

/-! ### one leaf operand with MOVE / constant propagation -/

/-- `compileExprWithKMVPropagation` / `…MV…` on a leaf: (store, operand, next free register). -/
def opnd (kmv : Bool) (e : Cond) (reg : Nat) (st : CState) : CState × Nat × Nat :=
  withPropagation kmv false (leafExpr e reg ecnone0 st) reg

variable {V : Type}

theorem opnd_frame {lo : Nat} (kmv : Bool) (e : Cond) (reg : Nat) (st : CState) (hleaf : isLeaf e = true) (htop : st.regTop ≤ reg) :
    Frame lo st (opnd kmv e reg st).1 := by
  cases e <;> simp [isLeaf] at hleaf
  case tru => simp [opnd, leafExpr, withPropagation, propagate, savereg_ecnone0]; exact frame_emit _ _
  case fls => simp [opnd, leafExpr, withPropagation, propagate, savereg_ecnone0]; exact frame_emit _ _
  case nil => simp [opnd, leafExpr, withPropagation, propagate, savereg_ecnone0]; exact frame_emit _ _
  case num n =>
    have hc := frame_constIndex (lo := lo) st (.num n)
    rcases hci : constIndex st (.num n) with ⟨st1, k⟩
    rw [hci] at hc
    simp only [opnd, leafExpr, withPropagation, propagate, savereg_ecnone0, hci, last_emit, pop_emit, emit_regTop]
    by_cases hcond : reg ≥ st1.regTop ∧ kmv = true ∧ k ≤ Generated.opMaxIndexRk
    · simp only [hcond, and_self, if_true]; exact hc
    · simp only [hcond, if_false]; exact hc.trans (frame_emit _ _)
  case str s =>
    have hc := frame_constIndex (lo := lo) st (.str s)
    rcases hci : constIndex st (.str s) with ⟨st1, k⟩
    rw [hci] at hc
    simp only [opnd, leafExpr, withPropagation, propagate, savereg_ecnone0, hci, last_emit, pop_emit, emit_regTop]
    by_cases hcond : reg ≥ st1.regTop ∧ kmv = true ∧ k ≤ Generated.opMaxIndexRk
    · simp only [hcond, and_self, if_true]; exact hc
    · simp only [hcond, if_false]; exact hc.trans (frame_emit _ _)
  case loc r =>
    simp only [opnd, leafExpr, withPropagation, propagate, savereg_ecnone0, last_emit, pop_emit, emit_regTop]
    have : reg ≥ st.regTop := htop
    simp [this]; exact Frame.refl _
  case ev id =>
    have hc := frame_constIndex (lo := lo) st (gname id)
    rcases hci : constIndex st (gname id) with ⟨st1, k⟩
    rw [hci] at hc
    simp only [opnd, leafExpr, withPropagation, propagate, savereg_ecnone0, hci, last_emit]
    exact hc.trans (frame_emit _ _)


theorem code_at_end {st st' F : CState} {i : Instr} (hst : st'.code = st.code ++ [i]) (hF : st'.code <+: F.code) :
    F.code[st.code.length]? = some i := by
  apply prefix_get_some hF
  simp [hst]

theorem rk_reg {d : Dom V} {consts : List Konst} {ρ : Nat → V} {x : Nat} (h : x < 256) :
    rkValue d consts ρ x = some (ρ x) := by
  have : ¬ (x ≥ Generated.opBitRk) := by simp [Generated.opBitRk]; omega
  simp [rkValue, this]

theorem rk_const {d : Dom V} {consts : List Konst} {ρ : Nat → V} {k : Nat} {c : Konst} (h : consts[k]? = some c) :
    rkValue d consts ρ (k + Generated.opBitRk) = some (Env.konst d c) := by
  simp [rkValue, h]

/-! computation lemmas for `opnd` -/

theorem opnd_tru (kmv : Bool) (reg : Nat) (st : CState) :
    opnd kmv .tru reg st = (emit st (.loadbool reg 1 0), reg, reg + 1) := by
  simp [opnd, leafExpr, withPropagation, propagate, savereg_ecnone0]
theorem opnd_fls (kmv : Bool) (reg : Nat) (st : CState) :
    opnd kmv .fls reg st = (emit st (.loadbool reg 0 0), reg, reg + 1) := by
  simp [opnd, leafExpr, withPropagation, propagate, savereg_ecnone0]
theorem opnd_nil (kmv : Bool) (reg : Nat) (st : CState) :
    opnd kmv .nil reg st = (emit st (.loadnil reg reg), reg, reg + 1) := by
  simp [opnd, leafExpr, withPropagation, propagate, savereg_ecnone0]
theorem opnd_loc (kmv : Bool) (reg r : Nat) (st : CState) (h : st.regTop ≤ reg) :
    opnd kmv (.loc r) reg st = (st, r, reg) := by
  have : reg ≥ st.regTop := h
  simp [opnd, leafExpr, withPropagation, propagate, savereg_ecnone0, this]
theorem opnd_ev (kmv : Bool) (reg id : Nat) (st : CState) :
    opnd kmv (.ev id) reg st = (emit (constIndex st (gname id)).1 (.eval reg id), reg, reg + 1) := by
  simp [opnd, leafExpr, withPropagation, propagate, savereg_ecnone0]
theorem opnd_num (kmv : Bool) (reg : Nat) (st : CState) (n : Int) :
    opnd kmv (.num n) reg st =
      if reg ≥ (constIndex st (.num n)).1.regTop ∧ kmv = true ∧ (constIndex st (.num n)).2 ≤ Generated.opMaxIndexRk
      then ((constIndex st (.num n)).1, (constIndex st (.num n)).2 + Generated.opBitRk, reg)
      else (emit (constIndex st (.num n)).1 (.loadk reg (constIndex st (.num n)).2), reg, reg + 1) := by
  simp [opnd, leafExpr, withPropagation, propagate, savereg_ecnone0]
theorem opnd_str (kmv : Bool) (reg : Nat) (st : CState) (s : String) :
    opnd kmv (.str s) reg st =
      if reg ≥ (constIndex st (.str s)).1.regTop ∧ kmv = true ∧ (constIndex st (.str s)).2 ≤ Generated.opMaxIndexRk
      then ((constIndex st (.str s)).1, (constIndex st (.str s)).2 + Generated.opBitRk, reg)
      else (emit (constIndex st (.str s)).1 (.loadk reg (constIndex st (.str s)).2), reg, reg + 1) := by
  simp [opnd, leafExpr, withPropagation, propagate, savereg_ecnone0]

/-- a pool constant as operand: either propagated into the RK field or loaded into `reg`. -/
theorem opnd_sem_konst (d : Dom V) (kmv : Bool) (reg : Nat) (st F : CState) (ρ γ : Nat → V) (c : Konst)
    (res : CState × Nat × Nat) (hreg : reg < 256)
    (hres : res = if reg ≥ (constIndex st c).1.regTop ∧ kmv = true ∧ (constIndex st c).2 ≤ Generated.opMaxIndexRk
      then ((constIndex st c).1, (constIndex st c).2 + Generated.opBitRk, reg)
      else (emit (constIndex st c).1 (.loadk reg (constIndex st c).2), reg, reg + 1))
    (hF : res.1.code <+: F.code) (hK : res.1.consts <+: F.consts) :
    ∃ ρ1, Reaches d (P0 F) F.consts ⟨st.code.length, ρ, γ⟩ ⟨res.1.code.length, ρ1, γ⟩ ∧
      (∀ x, x ≠ reg → ρ1 x = ρ x) ∧
      rkValue d F.consts ρ1 res.2.1 = some (Env.konst d c) ∧
      (res.2.1 < res.2.2 ∨ 256 ≤ res.2.1) ∧ reg ≤ res.2.2 ∧ res.2.2 ≤ reg + 1 ∧ (kmv = false → res.2.1 < 256) := by
  obtain ⟨hk1, _, hk3, _, _, _⟩ := constIndex_spec st c
  by_cases hcond : reg ≥ (constIndex st c).1.regTop ∧ kmv = true ∧ (constIndex st c).2 ≤ Generated.opMaxIndexRk
  · rw [if_pos hcond] at hres; subst hres
    refine ⟨ρ, ?_, fun _ _ => rfl, ?_, Or.inr (by simp [Generated.opBitRk]), Nat.le_refl _, by simp, fun h => ?_⟩
    · simp only [hk3]; exact .refl _
    · exact rk_const (prefix_get_some hK hk1)
    · simp [hcond.2.1] at h
  · rw [if_neg hcond] at hres; subst hres
    have hc := code_at_end (i := .loadk reg (constIndex st c).2) rfl hF
    rw [hk3] at hc
    refine ⟨setReg ρ reg (Env.konst d c), ?_, fun x hx => setReg_other _ _ hx, ?_, Or.inl (by simp), by simp, by simp, fun _ => hreg⟩
    · refine Reaches.single ?_
      have hkF := prefix_get_some hK hk1
      simp [step, P0_get_nonjmp hc rfl, hkF, hk3]
    · simp only []; rw [rk_reg hreg]; simp

/-- semantics of one leaf operand: the emitted code (at most one instruction) leaves the operand's value
    where the returned operand says, and writes at most register `reg`. -/
theorem opnd_sem (d : Dom V) (kmv : Bool) (e : Cond) (reg : Nat) (st F : CState) (ρ γ : Nat → V) (v : V)
    (hleaf : isLeaf e = true) (htop : st.regTop ≤ reg) (hloc : LocalsBelow reg e) (hreg : reg < 256)
    (hev : eval d ρ γ e = some v)
    (hF : (opnd kmv e reg st).1.code <+: F.code) (hK : (opnd kmv e reg st).1.consts <+: F.consts) :
    ∃ ρ1, Reaches d (P0 F) F.consts ⟨st.code.length, ρ, γ⟩ ⟨(opnd kmv e reg st).1.code.length, ρ1, γ⟩ ∧
      (∀ x, x ≠ reg → ρ1 x = ρ x) ∧
      rkValue d F.consts ρ1 (opnd kmv e reg st).2.1 = some v ∧
      ((opnd kmv e reg st).2.1 < (opnd kmv e reg st).2.2 ∨ 256 ≤ (opnd kmv e reg st).2.1) ∧
      reg ≤ (opnd kmv e reg st).2.2 ∧ (opnd kmv e reg st).2.2 ≤ reg + 1 ∧
      (kmv = false → (opnd kmv e reg st).2.1 < 256) := by
  cases e <;> simp [isLeaf] at hleaf
  case tru =>
    rw [opnd_tru] at hF hK ⊢
    simp only [eval, Option.some.injEq] at hev; subst hev
    have hc := code_at_end (i := .loadbool reg 1 0) rfl hF
    refine ⟨setReg ρ reg d.trueV, ?_, fun x hx => setReg_other _ _ hx, ?_, Or.inl (by simp), by simp, by simp, fun _ => hreg⟩
    · refine Reaches.single ?_
      simp [step, P0_get_nonjmp hc rfl]
    · simp only []; rw [rk_reg hreg]; simp
  case fls =>
    rw [opnd_fls] at hF hK ⊢
    simp only [eval, Option.some.injEq] at hev; subst hev
    have hc := code_at_end (i := .loadbool reg 0 0) rfl hF
    refine ⟨setReg ρ reg d.falseV, ?_, fun x hx => setReg_other _ _ hx, ?_, Or.inl (by simp), by simp, by simp, fun _ => hreg⟩
    · refine Reaches.single ?_
      simp [step, P0_get_nonjmp hc rfl]
    · simp only []; rw [rk_reg hreg]; simp
  case nil =>
    rw [opnd_nil] at hF hK ⊢
    simp only [eval, Option.some.injEq] at hev; subst hev
    have hc := code_at_end (i := .loadnil reg reg) rfl hF
    refine ⟨setReg ρ reg d.nilV, ?_, fun x hx => setReg_other _ _ hx, ?_, Or.inl (by simp), by simp, by simp, fun _ => hreg⟩
    · refine Reaches.single ?_
      simp [step, P0_get_nonjmp hc rfl, fillNil_one]
    · simp only []; rw [rk_reg hreg]; simp
  case num n =>
    simp only [eval, Option.some.injEq] at hev; subst hev
    exact opnd_sem_konst d kmv reg st F ρ γ (.num n) _ hreg (opnd_num kmv reg st n) hF hK
  case str s =>
    simp only [eval, Option.some.injEq] at hev; subst hev
    exact opnd_sem_konst d kmv reg st F ρ γ (.str s) _ hreg (opnd_str kmv reg st s) hF hK
  case loc r =>
    simp only [eval, Option.some.injEq] at hev; subst hev
    simp only [LocalsBelow] at hloc
    rw [opnd_loc kmv reg r st htop] at hF hK ⊢
    exact ⟨ρ, .refl _, fun _ _ => rfl, rk_reg (show r < 256 by omega), Or.inl hloc, Nat.le_refl _, by simp, fun _ => by show r < 256; omega⟩
  case ev id =>
    obtain ⟨_, _, hk3, _, _, _⟩ := constIndex_spec st (gname id)
    simp only [eval, Option.some.injEq] at hev; subst hev
    rw [opnd_ev] at hF hK ⊢
    have hc := code_at_end (i := .eval reg id) rfl hF
    rw [hk3] at hc
    refine ⟨setReg ρ reg (γ id), ?_, fun x hx => setReg_other _ _ hx, ?_, Or.inl (by simp), by simp, by simp, fun _ => hreg⟩
    · refine Reaches.single ?_
      simp [step, P0_get_nonjmp hc rfl, hk3]
    · simp only []; rw [rk_reg hreg]; simp


/-! ### TEST/JMP and comparison/JMP pairs -/

theorem truthy_ofBool {d : Dom V} (hd : d.Lawful) (b : Bool) : d.truthy (ofBool d b) = b := by
  cases b <;> simp [ofBool, hd.true_truthy, hd.false_falsy]

/-- `TEST a _ flip; JMP L`: the jump is taken iff truthiness = (flip = 1). -/
theorem test_jmp_sem (d : Dom V) {F : CState} {p a b flip L : Nat} {ρ γ : Nat → V}
    (h1 : F.code[p]? = some (.test a b flip)) (h2 : F.code[p + 1]? = some (.jmp (L : Int))) (hL : LabelOK F L)
    (hflip : flip = 0 ∨ flip = 1) :
    Reaches d (P0 F) F.consts ⟨p, ρ, γ⟩ ⟨if d.truthy (ρ a) = decide (flip = 1) then tgt F L else p + 2, ρ, γ⟩ := by
  have hs1 : step d (P0 F) F.consts ⟨p, ρ, γ⟩ =
      .ok ⟨if d.truthy (ρ a) == (flip == 0) then p + 1 + 1 else p + 1, ρ, γ⟩ := by
    simp [step, P0_get_nonjmp h1 rfl]
  have hs2 : step d (P0 F) F.consts ⟨p + 1, ρ, γ⟩ = .ok ⟨tgt F L, ρ, γ⟩ := step_jmp h2 hL
  rcases hflip with rfl | rfl <;> cases ht : d.truthy (ρ a) <;> simp [ht] at hs1 ⊢
  · exact .step hs1 (.single hs2)
  · exact .single hs1
  · exact .single hs1
  · exact .step hs1 (.single hs2)

/-- a comparison instruction followed by `JMP L`: the jump is taken iff the oracle's answer = (A = 1). -/
theorem cmp_jmp_sem (d : Dom V) {F : CState} {p A b c L : Nat} {i : Instr} {ρ γ : Nat → V} {x y : V} {ret : Bool}
    (hi : (i = .eq A b c ∧ d.eq x y = some ret) ∨ (i = .lt A b c ∧ d.lt x y = some ret) ∨ (i = .le A b c ∧ d.le x y = some ret))
    (h1 : F.code[p]? = some i) (h2 : F.code[p + 1]? = some (.jmp (L : Int))) (hL : LabelOK F L)
    (hA : A = 0 ∨ A = 1)
    (hx : rkValue d F.consts ρ b = some x) (hy : rkValue d F.consts ρ c = some y) :
    Reaches d (P0 F) F.consts ⟨p, ρ, γ⟩ ⟨if ret = decide (A = 1) then tgt F L else p + 2, ρ, γ⟩ := by
  have hs2 : step d (P0 F) F.consts ⟨p + 1, ρ, γ⟩ = .ok ⟨tgt F L, ρ, γ⟩ := step_jmp h2 hL
  have hs1 : step d (P0 F) F.consts ⟨p, ρ, γ⟩ = .ok ⟨if (if ret then 0 else 1) = A then p + 1 + 1 else p + 1, ρ, γ⟩ := by
    rcases hi with ⟨rfl, hr⟩ | ⟨rfl, hr⟩ | ⟨rfl, hr⟩ <;>
      simp [step, P0_get_nonjmp h1 rfl, hx, hy, hr, cmpStep]
  rcases hA with rfl | rfl <;> cases ret <;> simp at hs1 ⊢
  · exact .step hs1 (.single hs2)
  · exact .single hs1
  · exact .single hs1
  · exact .step hs1 (.single hs2)

/-- `EQ/LT/LE A B C; JMP L` as emitted by `compileRelationalOpExprAux`: the jump is taken iff the
    truth value of the comparison = (flip = 1). -/
theorem rel_jmp_sem (d : Dom V) (hd : d.Lawful) {F : CState} {p b c flip L : Nat} {op : RelOp} {ρ γ : Nat → V} {x y v : V}
    (h1 : F.code[p]? = some (relInstr op flip b c)) (h2 : F.code[p + 1]? = some (.jmp (L : Int))) (hL : LabelOK F L)
    (hflip : flip = 0 ∨ flip = 1)
    (hx : rkValue d F.consts ρ b = some x) (hy : rkValue d F.consts ρ c = some y) (hv : relVal d op x y = some v) :
    Reaches d (P0 F) F.consts ⟨p, ρ, γ⟩ ⟨if d.truthy v = decide (flip = 1) then tgt F L else p + 2, ρ, γ⟩ := by
  cases op <;> simp only [relVal, Option.map_eq_some_iff] at hv <;> obtain ⟨bv, hb, rfl⟩ := hv <;>
    rw [truthy_ofBool hd] <;> simp only [relInstr] at h1
  · exact cmp_jmp_sem d (Or.inr (Or.inl ⟨rfl, hb⟩)) h1 h2 hL hflip hx hy
  · exact cmp_jmp_sem d (Or.inr (Or.inl ⟨rfl, hb⟩)) h1 h2 hL hflip hy hx
  · exact cmp_jmp_sem d (Or.inr (Or.inr ⟨rfl, hb⟩)) h1 h2 hL hflip hx hy
  · exact cmp_jmp_sem d (Or.inr (Or.inr ⟨rfl, hb⟩)) h1 h2 hL hflip hy hx
  · exact cmp_jmp_sem d (Or.inl ⟨rfl, hb⟩) h1 h2 hL hflip hx hy
  · have := cmp_jmp_sem d (γ := γ) (ret := bv) (Or.inl ⟨rfl, hb⟩) h1 h2 hL (by omega) hx hy
    rcases hflip with rfl | rfl <;> cases bv <;> simpa using this


/-! ### evaluation only looks at the locals it mentions -/

theorem eval_congr (d : Dom V) {ρ1 ρ γ : Nat → V} {n : Nat} (h : ∀ x, x < n → ρ1 x = ρ x) :
    ∀ e, LocalsBelow n e → eval d ρ1 γ e = eval d ρ γ e := by
  intro e
  induction e with
  | loc r => intro hl; simp only [LocalsBelow] at hl; simp [eval, h r hl]
  | not c ih => intro hl; simp only [LocalsBelow] at hl; simp [eval, ih hl]
  | and l r ihl ihr => intro hl; simp only [LocalsBelow] at hl; simp [eval, ihl hl.1, ihr hl.2]
  | or l r ihl ihr => intro hl; simp only [LocalsBelow] at hl; simp [eval, ihl hl.1, ihr hl.2]
  | rel op l r ihl ihr => intro hl; simp only [LocalsBelow] at hl; simp [eval, ihl hl.1, ihr hl.2]
  | _ => intro _; simp [eval]

theorem LocalsBelow.mono {n m : Nat} (hnm : n ≤ m) : ∀ e, LocalsBelow n e → LocalsBelow m e := by
  intro e
  induction e with
  | loc r => intro h; simp only [LocalsBelow] at h ⊢; omega
  | not c ih => intro h; exact ih h
  | and l r ihl ihr => intro h; exact ⟨ihl h.1, ihr h.2⟩
  | or l r ihl ihr => intro h; exact ⟨ihl h.1, ihr h.2⟩
  | rel op l r ihl ihr => intro h; exact ⟨ihl h.1, ihr h.2⟩
  | _ => intro _; trivial

theorem rk_congr (d : Dom V) {consts : List Konst} {ρ1 ρ2 : Nat → V} {x : Nat} (h : x < 256 → ρ2 x = ρ1 x) :
    rkValue d consts ρ2 x = rkValue d consts ρ1 x := by
  unfold rkValue
  by_cases hx : x ≥ Generated.opBitRk
  · simp [hx]
  · simp only [hx, if_false]
    rw [h (by simp [Generated.opBitRk] at hx; omega)]

/-! ### relational operator on two leaves -/

theorem comp_leaf_expr (e : Cond) (h : isLeaf e = true) (g : Nat) (ec : ExpCtx) (s : CState) :
    comp e (.expr g ec) s = leafExpr e g ec s := by
  cases e <;> simp [isLeaf] at h <;> simp [comp]

theorem isLogical_leaf (e : Cond) (h : isLeaf e = true) : e.isLogical = false := by
  cases e <;> simp [isLeaf] at h <;> rfl

/-- the code `compileRelationalOpExprAux` emits for two leaf operands. -/
def relLeaf (l r : Cond) (st : CState) (reg : Nat) (op : RelOp) (flip L : Nat) : CState :=
  let o1 := opnd true l reg st
  let o2 := opnd true r o1.2.2 o1.1
  emit (emit o2.1 (relInstr op flip o1.2.1 o2.2.1)) (.jmp L)

theorem relAux_leaf (l r : Cond) (hl : isLeaf l = true) (hr : isLeaf r = true) (st : CState) (reg : Nat) (op : RelOp) (flip L : Nat) :
    relAux (fun s g => comp l (.expr g ecnone0) s) (fun s g => comp r (.expr g ecnone0) s)
      l.isLogical r.isLogical st reg op flip L = relLeaf l r st reg op flip L := by
  simp only [relAux, relLeaf, opnd, comp_leaf_expr l hl, comp_leaf_expr r hr, isLogical_leaf l hl, isLogical_leaf r hr]

theorem opnd_reg_le (kmv : Bool) (l : Cond) (hl : isLeaf l = true) (reg : Nat) (st : CState) (htop : st.regTop ≤ reg) :
    reg ≤ (opnd kmv l reg st).2.2 := by
  cases l <;> simp [isLeaf] at hl <;>
    simp [opnd_tru, opnd_fls, opnd_nil, opnd_loc _ _ _ _ htop, opnd_ev, opnd_num, opnd_str] <;> split <;> simp

theorem relLeaf_frame {lo : Nat} (l r : Cond) (hl : isLeaf l = true) (hr : isLeaf r = true) (st : CState) (reg : Nat) (op : RelOp)
    (flip L : Nat) (htop : st.regTop ≤ reg) : Frame lo st (relLeaf l r st reg op flip L) := by
  have f1 := opnd_frame (lo := lo) true l reg st hl htop
  have hle := opnd_reg_le true l hl reg st htop
  have f2 := opnd_frame (lo := lo) true r (opnd true l reg st).2.2 (opnd true l reg st).1 hr (by rw [f1.regTop]; omega)
  exact (f1.trans f2).trans ((frame_emit _ _).trans (frame_emit _ _))

theorem relLeaf_sem (d : Dom V) (hd : d.Lawful) (l r : Cond) (hl : isLeaf l = true) (hr : isLeaf r = true)
    (st F : CState) (reg : Nat) (op : RelOp) (flip L : Nat) (ρ γ : Nat → V) (v : V)
    (htop : st.regTop ≤ reg) (hll : LocalsBelow reg l) (hlr : LocalsBelow reg r) (hreg : reg + 1 < 256)
    (hev : eval d ρ γ (.rel op l r) = some v) (hflip : flip = 0 ∨ flip = 1)
    (hF : (relLeaf l r st reg op flip L).code <+: F.code) (hK : (relLeaf l r st reg op flip L).consts <+: F.consts)
    (hL : LabelOK F L) :
    ∃ ρ', Reaches d (P0 F) F.consts ⟨st.code.length, ρ, γ⟩
        ⟨if d.truthy v = decide (flip = 1) then tgt F L else (relLeaf l r st reg op flip L).code.length, ρ', γ⟩ ∧
      ∀ x, x < reg → ρ' x = ρ x := by
  -- the three values
  simp only [eval] at hev
  cases hx : eval d ρ γ l with
  | none => simp [hx] at hev
  | some x =>
    cases hy : eval d ρ γ r with
    | none => simp [hx, hy] at hev
    | some y =>
      simp only [hx, hy] at hev
      have f1 := opnd_frame (lo := 0) true l reg st hl htop
      have hle0 := opnd_reg_le true l hl reg st htop
      obtain ⟨ρ1, hr1, hag1, hrk1, hst1, hle1, hle1', -⟩ := opnd_sem d true l reg st F ρ γ x hl htop hll (by omega) hx
        (by
          have f2 := opnd_frame (lo := 0) true r (opnd true l reg st).2.2 (opnd true l reg st).1 hr (by rw [f1.regTop]; omega)
          exact f2.code.trans (List.IsPrefix.trans (by simp [relLeaf]) hF))
        (by
          have f2 := opnd_frame (lo := 0) true r (opnd true l reg st).2.2 (opnd true l reg st).1 hr (by rw [f1.regTop]; omega)
          exact f2.consts.trans (List.IsPrefix.trans (by simp [relLeaf]) hK))
      have hy1 : eval d ρ1 γ r = some y := by
        rw [eval_congr d (n := reg) (fun x hx => hag1 x (by omega)) r hlr, hy]
      obtain ⟨ρ2, hr2, hag2, hrk2, -, -, -, -⟩ := opnd_sem d true r (opnd true l reg st).2.2 (opnd true l reg st).1 F ρ1 γ y hr
        (by rw [f1.regTop]; omega) (LocalsBelow.mono hle1 r hlr) (by omega) hy1
        (List.IsPrefix.trans (by simp [relLeaf]) hF) (List.IsPrefix.trans (by simp [relLeaf]) hK)
      have hrk1' : rkValue d F.consts ρ2 (opnd true l reg st).2.1 = some x := by
        rw [rk_congr d (ρ1 := ρ1)]
        · exact hrk1
        · intro h256
          apply hag2
          rcases hst1 with h | h <;> omega
      -- the comparison and the jump
      have hc1 : F.code[(opnd true r (opnd true l reg st).2.2 (opnd true l reg st).1).1.code.length]? =
          some (relInstr op flip (opnd true l reg st).2.1 (opnd true r (opnd true l reg st).2.2 (opnd true l reg st).1).2.1) := by
        apply prefix_get_some hF; simp [relLeaf]
      have hc2 : F.code[(opnd true r (opnd true l reg st).2.2 (opnd true l reg st).1).1.code.length + 1]? = some (.jmp (L : Int)) := by
        apply prefix_get_some hF; simp [relLeaf]
      have hfin := rel_jmp_sem d hd (γ := γ) hc1 hc2 hL hflip hrk1' hrk2 hev
      refine ⟨ρ2, ?_, ?_⟩
      · have hlen : (relLeaf l r st reg op flip L).code.length =
            (opnd true r (opnd true l reg st).2.2 (opnd true l reg st).1).1.code.length + 2 := by simp [relLeaf]
        rw [hlen]
        exact (hr1.trans hr2).trans hfin
      · intro x hx
        rw [hag2 x (by omega), hag1 x (by omega)]


/-! ### default case of compileBranchCondition on a leaf: operand, TEST, JMP -/

def bcLeaf (e : Cond) (st : CState) (reg flip L : Nat) : CState :=
  emit (emit (opnd false e reg st).1 (.test (opnd false e reg st).2.1 0 flip)) (.jmp L)

theorem bcDefault_leaf (e : Cond) (st : CState) (reg flip L : Nat) :
    (bcDefault (leafExpr e reg ecnone0 st) reg flip L).st = bcLeaf e st reg flip L := by
  simp only [bcDefault, bcLeaf, opnd]

theorem bcLeaf_frame {lo : Nat} (e : Cond) (he : isLeaf e = true) (st : CState) (reg flip L : Nat) (htop : st.regTop ≤ reg) :
    Frame lo st (bcLeaf e st reg flip L) :=
  (opnd_frame false e reg st he htop).trans ((frame_emit _ _).trans (frame_emit _ _))

theorem bcLeaf_sem (d : Dom V) (e : Cond) (he : isLeaf e = true) (st F : CState) (reg flip L : Nat) (ρ γ : Nat → V) (v : V)
    (htop : st.regTop ≤ reg) (hloc : LocalsBelow reg e) (hreg : reg < 256) (hev : eval d ρ γ e = some v)
    (hflip : flip = 0 ∨ flip = 1)
    (hF : (bcLeaf e st reg flip L).code <+: F.code) (hK : (bcLeaf e st reg flip L).consts <+: F.consts) (hL : LabelOK F L) :
    ∃ ρ', Reaches d (P0 F) F.consts ⟨st.code.length, ρ, γ⟩
        ⟨if d.truthy v = decide (flip = 1) then tgt F L else (bcLeaf e st reg flip L).code.length, ρ', γ⟩ ∧
      ∀ x, x < reg → ρ' x = ρ x := by
  obtain ⟨ρ1, hr1, hag1, hrk1, -, -, -, h256⟩ := opnd_sem d false e reg st F ρ γ v he htop hloc hreg hev
    (List.IsPrefix.trans (by simp [bcLeaf]) hF) (List.IsPrefix.trans (by simp [bcLeaf]) hK)
  have hv : ρ1 (opnd false e reg st).2.1 = v := by
    rw [rk_reg (h256 rfl)] at hrk1; exact Option.some.inj hrk1
  have hc1 : F.code[(opnd false e reg st).1.code.length]? = some (.test (opnd false e reg st).2.1 0 flip) := by
    apply prefix_get_some hF; simp [bcLeaf]
  have hc2 : F.code[(opnd false e reg st).1.code.length + 1]? = some (.jmp (L : Int)) := by
    apply prefix_get_some hF; simp [bcLeaf]
  have hfin := test_jmp_sem d (ρ := ρ1) (γ := γ) hc1 hc2 hL hflip
  rw [hv] at hfin
  refine ⟨ρ1, ?_, fun x hx => hag1 x (by omega)⟩
  have hlen : (bcLeaf e st reg flip L).code.length = (opnd false e reg st).1.code.length + 2 := by simp [bcLeaf]
  rw [hlen]
  exact hr1.trans hfin

/-! ### compileBranchCondition -/

/-- where control is after the code of a branch condition whose value has truthiness `tv`:
    at the then-label resp. else-label, or — for the side that does not jump — at the end of the code. -/
def BranchOut (F : CState) (thenl elsel : Nat) (hasnext : Bool) (endpc : Nat) (tv : Bool) (pc' : Nat) : Prop :=
  (tv = true → pc' = tgt F thenl ∨ (hasnext = false ∧ pc' = endpc)) ∧
  (tv = false → pc' = tgt F elsel ∨ (hasnext = true ∧ pc' = endpc))

theorem flipOf_cases (h : Bool) : flipOf h = 0 ∨ flipOf h = 1 := by cases h <;> simp [flipOf]

theorem bc_frame : ∀ (e : Cond), BCFrag e → ∀ (st : CState) (reg thenl elsel : Nat) (hasnext : Bool),
    st.regTop ≤ reg → Frame st.labelId st (comp e (.bc reg thenl elsel hasnext) st).st := by
  intro e
  induction e with
  | tru => intro _ st reg thenl elsel hasnext htop
           cases hasnext <;> simp only [comp, bcDefault_leaf] <;> first | exact Frame.refl _ | exact bcLeaf_frame _ rfl _ _ _ _ htop
  | num n => intro _ st reg thenl elsel hasnext htop
             cases hasnext <;> simp only [comp, bcDefault_leaf] <;> first | exact Frame.refl _ | exact bcLeaf_frame _ rfl _ _ _ _ htop
  | str s => intro _ st reg thenl elsel hasnext htop
             cases hasnext <;> simp only [comp, bcDefault_leaf] <;> first | exact Frame.refl _ | exact bcLeaf_frame _ rfl _ _ _ _ htop
  | fls => intro _ st reg thenl elsel hasnext htop
           cases hasnext <;> simp only [comp, bcDefault_leaf] <;> first | exact frame_emit _ _ | exact bcLeaf_frame _ rfl _ _ _ _ htop
  | nil => intro _ st reg thenl elsel hasnext htop
           cases hasnext <;> simp only [comp, bcDefault_leaf] <;> first | exact frame_emit _ _ | exact bcLeaf_frame _ rfl _ _ _ _ htop
  | loc r => intro _ st reg thenl elsel hasnext htop
             simp only [comp, bcDefault_leaf]; exact bcLeaf_frame _ rfl _ _ _ _ htop
  | ev id => intro _ st reg thenl elsel hasnext htop
             simp only [comp, bcDefault_leaf]; exact bcLeaf_frame _ rfl _ _ _ _ htop
  | not c ih => intro hf st reg thenl elsel hasnext htop
                simp only [comp]; exact ih hf st reg elsel thenl (!hasnext) htop
  | and l r ihl ihr =>
    intro hf st reg thenl elsel hasnext htop
    simp only [comp, newLabel]
    have f1 := ihl hf.1 { st with labelId := st.labelId + 1 } reg st.labelId elsel false htop
    have fc := frame_setLabelHere (lo := st.labelId) (comp l (.bc reg st.labelId elsel false) { st with labelId := st.labelId + 1 }).st st.labelId (Nat.le_refl _)
    have f2 := ihr hf.2 (setLabelHere (comp l (.bc reg st.labelId elsel false) { st with labelId := st.labelId + 1 }).st st.labelId)
      reg thenl elsel hasnext (by rw [fc.regTop, f1.regTop]; exact htop)
    have fa : Frame st.labelId st { st with labelId := st.labelId + 1 } := frame_newLabel st
    exact (fa.trans (f1.mono (Nat.le_succ _))).trans (fc.trans (f2.mono (by
      have := f1.labelId; have := fc.labelId; simp at *; omega)))
  | or l r ihl ihr =>
    intro hf st reg thenl elsel hasnext htop
    simp only [comp, newLabel]
    have f1 := ihl hf.1 { st with labelId := st.labelId + 1 } reg thenl st.labelId true htop
    have fc := frame_setLabelHere (lo := st.labelId) (comp l (.bc reg thenl st.labelId true) { st with labelId := st.labelId + 1 }).st st.labelId (Nat.le_refl _)
    have f2 := ihr hf.2 (setLabelHere (comp l (.bc reg thenl st.labelId true) { st with labelId := st.labelId + 1 }).st st.labelId)
      reg thenl elsel hasnext (by rw [fc.regTop, f1.regTop]; exact htop)
    have fa : Frame st.labelId st { st with labelId := st.labelId + 1 } := frame_newLabel st
    exact (fa.trans (f1.mono (Nat.le_succ _))).trans (fc.trans (f2.mono (by
      have := f1.labelId; have := fc.labelId; simp at *; omega)))
  | rel op l r _ _ =>
    intro hf st reg thenl elsel hasnext htop
    simp only [comp, relAux_leaf l r hf.1 hf.2]
    exact relLeaf_frame l r hf.1 hf.2 st reg op _ _ htop


theorem branchOut_of_flip (F : CState) (thenl elsel : Nat) (hasnext : Bool) (endpc : Nat) (tv : Bool) :
    BranchOut F thenl elsel hasnext endpc tv
      (if tv = decide (flipOf hasnext = 1) then tgt F (if hasnext then thenl else elsel) else endpc) := by
  cases hasnext <;> cases tv <;> simp [BranchOut, flipOf]

theorem BranchOut.swap {F : CState} {thenl elsel : Nat} {hasnext : Bool} {endpc : Nat} {tv : Bool} {pc' : Nat}
    (h : BranchOut F elsel thenl (!hasnext) endpc tv pc') : BranchOut F thenl elsel hasnext endpc (!tv) pc' := by
  cases hasnext <;> cases tv <;> simp_all [BranchOut]

theorem getLabelPc_setLabelHere_same (st : CState) (L : Nat) : getLabelPc (setLabelHere st L) L = (st.code.length : Int) - 1 := by
  simp [getLabelPc, setLabelHere, setLabelPc, lookupLabel, lastPC]

theorem getLabelPc_setLabelHere_other (st : CState) {L L' : Nat} (h : L ≠ L') : getLabelPc (setLabelHere st L) L' = getLabelPc st L' := by
  simp [getLabelPc, setLabelHere, setLabelPc, lookupLabel, h]

/-- **compileBranchCondition is correct** on the branch-context fragment: for every completion `F` of the compile
    state (the emitted code is still there, the labels allocated inside keep their binding), running the
    label-resolved code from the start of the condition's code reaches the then-label when the condition's value
    is truthy and the else-label otherwise (or, for the side that does not jump, the end of the condition's code),
    with every register below `reg` unchanged. -/
theorem bc_correct (d : Dom V) (hd : d.Lawful) : ∀ (e : Cond), BCFrag e →
    ∀ (st F : CState) (reg thenl elsel : Nat) (hasnext : Bool) (ρ γ : Nat → V) (v : V),
    st.regTop ≤ reg → LocalsBelow reg e → reg + 1 < 256 →
    LabelOK F thenl → LabelOK F elsel →
    eval d ρ γ e = some v →
    (comp e (.bc reg thenl elsel hasnext) st).st.code <+: F.code →
    (comp e (.bc reg thenl elsel hasnext) st).st.consts <+: F.consts →
    (∀ L, st.labelId ≤ L → L < (comp e (.bc reg thenl elsel hasnext) st).st.labelId →
        getLabelPc F L = getLabelPc (comp e (.bc reg thenl elsel hasnext) st).st L) →
    ∃ ρ' pc', Reaches d (P0 F) F.consts ⟨st.code.length, ρ, γ⟩ ⟨pc', ρ', γ⟩ ∧ (∀ x, x < reg → ρ' x = ρ x) ∧
      BranchOut F thenl elsel hasnext (comp e (.bc reg thenl elsel hasnext) st).st.code.length (d.truthy v) pc' := by
  -- leaves compiled by the default case
  have leafCase : ∀ (e : Cond), isLeaf e = true → ∀ (st F : CState) (reg thenl elsel : Nat) (hasnext : Bool) (ρ γ : Nat → V) (v : V),
      st.regTop ≤ reg → LocalsBelow reg e → reg + 1 < 256 → LabelOK F thenl → LabelOK F elsel → eval d ρ γ e = some v →
      (bcLeaf e st reg (flipOf hasnext) (if hasnext then thenl else elsel)).code <+: F.code →
      (bcLeaf e st reg (flipOf hasnext) (if hasnext then thenl else elsel)).consts <+: F.consts →
      ∃ ρ' pc', Reaches d (P0 F) F.consts ⟨st.code.length, ρ, γ⟩ ⟨pc', ρ', γ⟩ ∧ (∀ x, x < reg → ρ' x = ρ x) ∧
        BranchOut F thenl elsel hasnext (bcLeaf e st reg (flipOf hasnext) (if hasnext then thenl else elsel)).code.length (d.truthy v) pc' := by
    intro e he st F reg thenl elsel hasnext ρ γ v htop hloc hreg hLt hLe hev hF hK
    obtain ⟨ρ', hr, hag⟩ := bcLeaf_sem d e he st F reg (flipOf hasnext) (if hasnext then thenl else elsel) ρ γ v htop hloc
      (by omega) hev (flipOf_cases _) hF hK (by cases hasnext <;> simp [hLt, hLe])
    exact ⟨ρ', _, hr, hag, branchOut_of_flip F thenl elsel hasnext _ _⟩
  intro e
  induction e with
  | loc r =>
    intro _ st F reg thenl elsel hasnext ρ γ v htop hloc hreg hLt hLe hev hF hK _
    simp only [comp, bcDefault_leaf] at hF hK ⊢
    exact leafCase (.loc r) rfl st F reg thenl elsel hasnext ρ γ v htop hloc hreg hLt hLe hev hF hK
  | ev id =>
    intro _ st F reg thenl elsel hasnext ρ γ v htop hloc hreg hLt hLe hev hF hK _
    simp only [comp, bcDefault_leaf] at hF hK ⊢
    exact leafCase (.ev id) rfl st F reg thenl elsel hasnext ρ γ v htop hloc hreg hLt hLe hev hF hK
  | tru =>
    intro _ st F reg thenl elsel hasnext ρ γ v htop hloc hreg hLt hLe hev hF hK _
    cases hasnext
    · simp only [comp, if_true] at hF hK ⊢
      simp only [eval, Option.some.injEq] at hev; subst hev
      exact ⟨ρ, _, .refl _, fun _ _ => rfl, by simp [BranchOut, hd.true_truthy]⟩
    · simp only [comp, bcDefault_leaf] at hF hK ⊢
      exact leafCase .tru rfl st F reg thenl elsel true ρ γ v htop hloc hreg hLt hLe hev hF hK
  | num n =>
    intro _ st F reg thenl elsel hasnext ρ γ v htop hloc hreg hLt hLe hev hF hK _
    cases hasnext
    · simp only [comp, if_true] at hF hK ⊢
      simp only [eval, Option.some.injEq] at hev; subst hev
      exact ⟨ρ, _, .refl _, fun _ _ => rfl, by simp [BranchOut, hd.num_truthy]⟩
    · simp only [comp, bcDefault_leaf] at hF hK ⊢
      exact leafCase (.num n) rfl st F reg thenl elsel true ρ γ v htop hloc hreg hLt hLe hev hF hK
  | str s =>
    intro _ st F reg thenl elsel hasnext ρ γ v htop hloc hreg hLt hLe hev hF hK _
    cases hasnext
    · simp only [comp, if_true] at hF hK ⊢
      simp only [eval, Option.some.injEq] at hev; subst hev
      exact ⟨ρ, _, .refl _, fun _ _ => rfl, by simp [BranchOut, hd.str_truthy]⟩
    · simp only [comp, bcDefault_leaf] at hF hK ⊢
      exact leafCase (.str s) rfl st F reg thenl elsel true ρ γ v htop hloc hreg hLt hLe hev hF hK
  | fls =>
    intro _ st F reg thenl elsel hasnext ρ γ v htop hloc hreg hLt hLe hev hF hK _
    cases hasnext
    · simp only [comp, if_true] at hF hK ⊢
      simp only [eval, Option.some.injEq] at hev; subst hev
      have hc : F.code[st.code.length]? = some (.jmp (elsel : Int)) := code_at_end rfl hF
      exact ⟨ρ, _, .single (step_jmp hc hLe), fun _ _ => rfl, by simp [BranchOut, hd.false_falsy]⟩
    · simp only [comp, bcDefault_leaf] at hF hK ⊢
      exact leafCase .fls rfl st F reg thenl elsel true ρ γ v htop hloc hreg hLt hLe hev hF hK
  | nil =>
    intro _ st F reg thenl elsel hasnext ρ γ v htop hloc hreg hLt hLe hev hF hK _
    cases hasnext
    · simp only [comp, if_true] at hF hK ⊢
      simp only [eval, Option.some.injEq] at hev; subst hev
      have hc : F.code[st.code.length]? = some (.jmp (elsel : Int)) := code_at_end rfl hF
      exact ⟨ρ, _, .single (step_jmp hc hLe), fun _ _ => rfl, by simp [BranchOut, hd.nil_falsy]⟩
    · simp only [comp, bcDefault_leaf] at hF hK ⊢
      exact leafCase .nil rfl st F reg thenl elsel true ρ γ v htop hloc hreg hLt hLe hev hF hK
  | not c ih =>
    intro hf st F reg thenl elsel hasnext ρ γ v htop hloc hreg hLt hLe hev hF hK hlab
    simp only [comp] at hF hK hlab ⊢
    simp only [eval, Option.map_eq_some_iff] at hev
    obtain ⟨vc, hvc, rfl⟩ := hev
    obtain ⟨ρ', pc', hr, hag, hbo⟩ := ih hf st F reg elsel thenl (!hasnext) ρ γ vc htop hloc hreg hLe hLt hvc hF hK hlab
    refine ⟨ρ', pc', hr, hag, ?_⟩
    have : d.truthy (if d.truthy vc = true then d.falseV else d.trueV) = !d.truthy vc := by
      cases h : d.truthy vc <;> simp [hd.true_truthy, hd.false_falsy]
    rw [this]
    exact hbo.swap
  | rel op l r _ _ =>
    intro hf st F reg thenl elsel hasnext ρ γ v htop hloc hreg hLt hLe hev hF hK _
    simp only [comp, relAux_leaf l r hf.1 hf.2] at hF hK ⊢
    obtain ⟨ρ', hr, hag⟩ := relLeaf_sem d hd l r hf.1 hf.2 st F reg op (flipOf hasnext) (if hasnext then thenl else elsel) ρ γ v
      htop hloc.1 hloc.2 hreg hev (flipOf_cases _) hF hK (by cases hasnext <;> simp [hLt, hLe])
    exact ⟨ρ', _, hr, hag, branchOut_of_flip F thenl elsel hasnext _ _⟩
  | and l r ihl ihr =>
    intro hf st F reg thenl elsel hasnext ρ γ v htop hloc hreg hLt hLe hev hF hK hlab
    simp only [comp, newLabel] at hF hK hlab ⊢
    -- names
    generalize hsta : ({ st with labelId := st.labelId + 1 } : CState) = sta at hF hK hlab ⊢
    have hsta_id : sta.labelId = st.labelId + 1 := by subst hsta; rfl
    have hsta_code : sta.code = st.code := by subst hsta; rfl
    have hsta_top : sta.regTop = st.regTop := by subst hsta; rfl
    generalize hr1 : (comp l (.bc reg st.labelId elsel false) sta).st = s1 at hF hK hlab ⊢
    have f1 : Frame sta.labelId sta s1 := by rw [← hr1]; exact bc_frame l hf.1 sta reg _ _ _ (by rw [hsta_top]; exact htop)
    generalize hsc : setLabelHere s1 st.labelId = sc at hF hK hlab ⊢
    have fc : Frame st.labelId s1 sc := by rw [← hsc]; exact frame_setLabelHere _ _ (Nat.le_refl _)
    have hsc_code : sc.code = s1.code := by subst hsc; rfl
    have hsc_id : sc.labelId = s1.labelId := by subst hsc; rfl
    have hsc_top : sc.regTop = st.regTop := by rw [fc.regTop, f1.regTop, hsta_top]
    generalize hs2 : (comp r (.bc reg thenl elsel hasnext) sc).st = s2 at hF hK hlab ⊢
    have f2 : Frame sc.labelId sc s2 := by rw [← hs2]; exact bc_frame r hf.2 sc reg _ _ _ (by rw [hsc_top]; exact htop)
    have hid1 : st.labelId + 1 ≤ s1.labelId := by rw [← hsta_id]; exact f1.labelId
    have hid2 : s1.labelId ≤ s2.labelId := by rw [← hsc_id]; exact f2.labelId
    -- the binding of nextcondlabel in F
    have hnl : getLabelPc F st.labelId = (s1.code.length : Int) - 1 := by
      rw [hlab st.labelId (Nat.le_refl _) (by omega), f2.labels st.labelId (by omega), ← hsc]
      exact getLabelPc_setLabelHere_same _ _
    have hnlOK : LabelOK F st.labelId := by unfold LabelOK; omega
    have htgt : tgt F st.labelId = s1.code.length := by unfold tgt; rw [hnl]; omega
    -- value of the left operand
    simp only [eval] at hev
    cases hvl : eval d ρ γ l with
    | none => simp [hvl] at hev
    | some vl =>
      simp only [hvl] at hev
      -- run the left operand
      have hlabL : ∀ L, sta.labelId ≤ L → L < s1.labelId → getLabelPc F L = getLabelPc s1 L := by
        intro L h1 h2
        rw [hlab L (by omega) (by omega), f2.labels L (by omega), ← hsc, getLabelPc_setLabelHere_other _ (by omega)]
      obtain ⟨ρ1, pc1, hreach1, hag1, hbo1⟩ := ihl hf.1 sta F reg st.labelId elsel false ρ γ vl (by rw [hsta_top]; exact htop)
        hloc.1 hreg hnlOK hLe hvl (by rw [hr1]; exact (fc.code.trans f2.code).trans hF)
        (by rw [hr1]; exact (fc.consts.trans f2.consts).trans hK) (by rw [hr1]; exact hlabL)
      rw [hsta_code] at hreach1
      rw [hr1] at hbo1
      cases htl : d.truthy vl with
      | false =>
        -- the whole conjunction is the (falsy) left value: control is at the else label
        simp only [htl] at hev
        cases hev
        refine ⟨ρ1, pc1, hreach1, hag1, ?_⟩
        rw [htl] at hbo1 ⊢
        have := hbo1.2 rfl
        unfold BranchOut
        refine ⟨fun h => Bool.noConfusion h, fun _ => ?_⟩
        rcases this with h | ⟨h, _⟩
        · exact Or.inl h
        · exact Bool.noConfusion h
      | true =>
        simp only [htl, if_true] at hev
        rw [htl] at hbo1
        have hpc1 : pc1 = s1.code.length := by
          rcases hbo1.1 rfl with h | ⟨_, h⟩
          · rw [h, htgt]
          · exact h
        subst hpc1
        -- run the right operand from there
        have hevr : eval d ρ1 γ r = some v := by rw [eval_congr d hag1 r hloc.2]; exact hev
        obtain ⟨ρ2, pc2, hreach2, hag2, hbo2⟩ := ihr hf.2 sc F reg thenl elsel hasnext ρ1 γ v (by rw [hsc_top]; exact htop)
          hloc.2 hreg hLt hLe hevr (by rw [hs2]; exact hF) (by rw [hs2]; exact hK)
          (by rw [hs2]; intro L h1 h2; exact hlab L (by omega) h2)
        rw [hsc_code] at hreach2
        rw [hs2] at hbo2
        exact ⟨ρ2, pc2, hreach1.trans hreach2, fun x hx => by rw [hag2 x hx, hag1 x hx], hbo2⟩
  | or l r ihl ihr =>
    intro hf st F reg thenl elsel hasnext ρ γ v htop hloc hreg hLt hLe hev hF hK hlab
    simp only [comp, newLabel] at hF hK hlab ⊢
    generalize hsta : ({ st with labelId := st.labelId + 1 } : CState) = sta at hF hK hlab ⊢
    have hsta_id : sta.labelId = st.labelId + 1 := by subst hsta; rfl
    have hsta_code : sta.code = st.code := by subst hsta; rfl
    have hsta_top : sta.regTop = st.regTop := by subst hsta; rfl
    generalize hr1 : (comp l (.bc reg thenl st.labelId true) sta).st = s1 at hF hK hlab ⊢
    have f1 : Frame sta.labelId sta s1 := by rw [← hr1]; exact bc_frame l hf.1 sta reg _ _ _ (by rw [hsta_top]; exact htop)
    generalize hsc : setLabelHere s1 st.labelId = sc at hF hK hlab ⊢
    have fc : Frame st.labelId s1 sc := by rw [← hsc]; exact frame_setLabelHere _ _ (Nat.le_refl _)
    have hsc_code : sc.code = s1.code := by subst hsc; rfl
    have hsc_id : sc.labelId = s1.labelId := by subst hsc; rfl
    have hsc_top : sc.regTop = st.regTop := by rw [fc.regTop, f1.regTop, hsta_top]
    generalize hs2 : (comp r (.bc reg thenl elsel hasnext) sc).st = s2 at hF hK hlab ⊢
    have f2 : Frame sc.labelId sc s2 := by rw [← hs2]; exact bc_frame r hf.2 sc reg _ _ _ (by rw [hsc_top]; exact htop)
    have hid1 : st.labelId + 1 ≤ s1.labelId := by rw [← hsta_id]; exact f1.labelId
    have hid2 : s1.labelId ≤ s2.labelId := by rw [← hsc_id]; exact f2.labelId
    have hnl : getLabelPc F st.labelId = (s1.code.length : Int) - 1 := by
      rw [hlab st.labelId (Nat.le_refl _) (by omega), f2.labels st.labelId (by omega), ← hsc]
      exact getLabelPc_setLabelHere_same _ _
    have hnlOK : LabelOK F st.labelId := by unfold LabelOK; omega
    have htgt : tgt F st.labelId = s1.code.length := by unfold tgt; rw [hnl]; omega
    simp only [eval] at hev
    cases hvl : eval d ρ γ l with
    | none => simp [hvl] at hev
    | some vl =>
      simp only [hvl] at hev
      have hlabL : ∀ L, sta.labelId ≤ L → L < s1.labelId → getLabelPc F L = getLabelPc s1 L := by
        intro L h1 h2
        rw [hlab L (by omega) (by omega), f2.labels L (by omega), ← hsc, getLabelPc_setLabelHere_other _ (by omega)]
      obtain ⟨ρ1, pc1, hreach1, hag1, hbo1⟩ := ihl hf.1 sta F reg thenl st.labelId true ρ γ vl (by rw [hsta_top]; exact htop)
        hloc.1 hreg hLt hnlOK hvl (by rw [hr1]; exact (fc.code.trans f2.code).trans hF)
        (by rw [hr1]; exact (fc.consts.trans f2.consts).trans hK) (by rw [hr1]; exact hlabL)
      rw [hsta_code] at hreach1
      rw [hr1] at hbo1
      cases htl : d.truthy vl with
      | true =>
        simp only [htl, if_true] at hev
        cases hev
        refine ⟨ρ1, pc1, hreach1, hag1, ?_⟩
        rw [htl] at hbo1 ⊢
        have := hbo1.1 rfl
        unfold BranchOut
        refine ⟨fun _ => ?_, fun h => Bool.noConfusion h⟩
        rcases this with h | ⟨h, _⟩
        · exact Or.inl h
        · exact Bool.noConfusion h
      | false =>
        simp only [htl] at hev
        rw [htl] at hbo1
        have hpc1 : pc1 = s1.code.length := by
          rcases hbo1.2 rfl with h | ⟨_, h⟩
          · rw [h, htgt]
          · exact h
        subst hpc1
        have hevr : eval d ρ1 γ r = some v := by rw [eval_congr d hag1 r hloc.2]; simpa using hev
        obtain ⟨ρ2, pc2, hreach2, hag2, hbo2⟩ := ihr hf.2 sc F reg thenl elsel hasnext ρ1 γ v (by rw [hsc_top]; exact htop)
          hloc.2 hreg hLt hLe hevr (by rw [hs2]; exact hF) (by rw [hs2]; exact hK)
          (by rw [hs2]; intro L h1 h2; exact hlab L (by omega) h2)
        rw [hsc_code] at hreach2
        rw [hs2] at hbo2
        exact ⟨ρ2, pc2, hreach1.trans hreach2, fun x hx => by rw [hag2 x hx, hag1 x hx], hbo2⟩

end GLua.Lowering
