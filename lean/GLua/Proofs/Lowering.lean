/-
  Lowering proofs, part 0: fragments, compile-state primitives and frames, leaf operands with MOVE / constant
  propagation, the TEST/JMP and comparison/JMP pairs, congruence of evaluation.
  (The correctness of `compileBranchCondition` itself is in LoweringBC.lean, after the value-context theorems
  it needs for operands that are arbitrary expressions.)
-/
import GLua.Proofs.LoweringBasic

namespace GLua.Lowering
open GLua.Compile GLua.MiniVM GLua.CondSpec

variable [NumStruct]
set_option linter.unusedSectionVars false

/-! ### fragments -/

def isLeaf : Cond → Bool
  | .tru | .fls | .nil | .num _ | .str _ | .loc _ | .ev _ => true
  | _ => false

/-- every local mentioned lives in a register below `n`. -/
def LocalsBelow (n : Nat) : Cond → Prop
  | .loc r => r < n
  | .not c => LocalsBelow n c
  | .and l r => LocalsBelow n l ∧ LocalsBelow n r
  | .or l r => LocalsBelow n l ∧ LocalsBelow n r
  | .rel _ l r => LocalsBelow n l ∧ LocalsBelow n r
  | .arith _ l r => LocalsBelow n l ∧ LocalsBelow n r
  | .unm c => LocalsBelow n c
  | .len c => LocalsBelow n c
  | .concat l r => LocalsBelow n l ∧ LocalsBelow n r
  | _ => True

/-- the ORIGINAL fragment of the lowering theorems (kept for the statements `branch_lowering_correct` /
    `value_lowering_correct`): and / or / not, relational operators whose operands are leaves, leaves. -/
def BCFrag : Cond → Prop
  | .not c => BCFrag c
  | .and l r => BCFrag l ∧ BCFrag r
  | .or l r => BCFrag l ∧ BCFrag r
  | .rel _ l r => isLeaf l = true ∧ isLeaf r = true
  | .arith _ _ _ | .unm _ | .len _ | .concat _ _ => False
  | _ => True

/-- register height: the code of `e` compiled at `reg` writes no register above `reg + rh e`
    (the right operand of a binary operator is evaluated into the next register). -/
def rh : Cond → Nat
  | .not c => rh c
  | .unm c => rh c
  | .len c => rh c
  | .and l r => max (rh l) (rh r)
  | .or l r => max (rh l) (rh r)
  | .rel _ l r => max (rh l) (rh r + 1)
  | .arith _ l r => max (rh l) (rh r + 1)
  | .concat l r => max (rh l) (rh r + 1)
  | _ => 0

theorem rh_leaf (e : Cond) (h : isLeaf e = true) : rh e = 0 := by
  cases e <;> simp [isLeaf] at h <;> rfl

theorem rh_BCFrag : ∀ (e : Cond), BCFrag e → rh e ≤ 1 := by
  intro e
  induction e with
  | not c ih => intro h; exact ih h
  | and l r ihl ihr => intro h; simp only [rh]; have := ihl h.1; have := ihr h.2; omega
  | or l r ihl ihr => intro h; simp only [rh]; have := ihl h.1; have := ihr h.2; omega
  | rel op l r _ _ => intro h; simp only [rh, rh_leaf l h.1, rh_leaf r h.2]; omega
  | arith op l r _ _ => intro h; exact h.elim
  | unm c _ => intro h; exact h.elim
  | len c _ => intro h; exact h.elim
  | concat l r _ _ => intro h; exact h.elim
  | _ => intro _; simp [rh]

/-! ### compile-state primitives -/

@[simp] theorem last_emit (st : CState) (i : Instr) : last (emit st i) = some i := by
  simp [last, emit]
@[simp] theorem pop_emit (st : CState) (i : Instr) : pop (emit st i) = st := by
  simp [pop, emit]
@[simp] theorem emit_code (st : CState) (i : Instr) : (emit st i).code = st.code ++ [i] := rfl
@[simp] theorem emit_labelId (st : CState) (i : Instr) : (emit st i).labelId = st.labelId := rfl
@[simp] theorem emit_labelPc (st : CState) (i : Instr) : (emit st i).labelPc = st.labelPc := rfl
@[simp] theorem emit_regTop (st : CState) (i : Instr) : (emit st i).regTop = st.regTop := rfl
@[simp] theorem emit_consts (st : CState) (i : Instr) : (emit st i).consts = st.consts := rfl
@[simp] theorem getLabelPc_emit (st : CState) (i : Instr) (L : Nat) : getLabelPc (emit st i) L = getLabelPc st L := rfl

theorem savereg_ecnone0 (reg : Nat) : savereg ecnone0 reg = reg := by
  simp [savereg, ecnone0, ecNone, ecLocal, Generated.ecNone, Generated.ecLocal]

/-- frame of a compile step: code and constant pool only grow at the end, the label counter only grows,
    labels below `lo` keep their binding, the register top is unchanged. -/
structure Frame (lo : Nat) (st st' : CState) : Prop where
  code : st.code <+: st'.code
  labelId : st.labelId ≤ st'.labelId
  labels : ∀ L, L < lo → getLabelPc st' L = getLabelPc st L
  regTop : st'.regTop = st.regTop
  consts : st.consts <+: st'.consts

theorem Frame.refl {lo : Nat} (st : CState) : Frame lo st st :=
  ⟨List.prefix_refl _, Nat.le_refl _, fun _ _ => rfl, rfl, List.prefix_refl _⟩

theorem Frame.trans {lo : Nat} {a b c : CState} (h1 : Frame lo a b) (h2 : Frame lo b c) : Frame lo a c :=
  ⟨h1.code.trans h2.code, Nat.le_trans h1.labelId h2.labelId,
   fun L hL => by rw [h2.labels L hL, h1.labels L hL],
   by rw [h2.regTop, h1.regTop], h1.consts.trans h2.consts⟩

theorem Frame.mono {lo lo' : Nat} {a b : CState} (h : Frame lo a b) (hle : lo' ≤ lo) : Frame lo' a b :=
  ⟨h.code, h.labelId, fun L hL => h.labels L (Nat.lt_of_lt_of_le hL hle), h.regTop, h.consts⟩

theorem frame_emit {lo : Nat} (st : CState) (i : Instr) : Frame lo st (emit st i) :=
  ⟨by simp, Nat.le_refl _, fun _ _ => rfl, rfl, List.prefix_refl _⟩

theorem frame_constIndex {lo : Nat} (st : CState) (k : Konst) : Frame lo st (constIndex st k).1 := by
  obtain ⟨_, h2, h3, h4, h5, h6⟩ := constIndex_spec st k
  exact ⟨by rw [h3]; exact List.prefix_refl _, by rw [h4]; exact Nat.le_refl _, fun L _ => by simp [getLabelPc, h5], h6, h2⟩

theorem frame_newLabel {lo : Nat} (st : CState) : Frame lo st (newLabel st).1 :=
  ⟨List.prefix_refl _, Nat.le_succ _, fun _ _ => rfl, rfl, List.prefix_refl _⟩

theorem frame_setLabelHere {lo : Nat} (st : CState) (L : Nat) (hL : lo ≤ L) : Frame lo st (setLabelHere st L) :=
  ⟨List.prefix_refl _, Nat.le_refl _, fun L' hL' => by
      have : L ≠ L' := by omega
      simp [getLabelPc, setLabelHere, setLabelPc, lookupLabel, this], rfl, List.prefix_refl _⟩

/-! ### one leaf operand with MOVE / constant propagation -/

/-- a pool constant as operand (`compileExprWith(K)MVPropagation` on a StringExpr / NumberExpr / folded
    constLValueExpr): the LOADK is popped and becomes an RK operand iff KMV and the index fits. -/
theorem opndK_eq (kmv : Bool) (k : Konst) (reg : Nat) (st : CState) :
    withPropagation kmv false (loadK k reg ecnone0 st) reg =
      if reg ≥ (constIndex st k).1.regTop ∧ kmv = true ∧ (constIndex st k).2 ≤ Generated.opMaxIndexRk
      then ((constIndex st k).1, (constIndex st k).2 + Generated.opBitRk, reg)
      else (emit (constIndex st k).1 (.loadk reg (constIndex st k).2), reg, reg + 1) := by
  simp [loadK, withPropagation, propagate, savereg_ecnone0]

theorem opndK_frame {lo : Nat} (kmv : Bool) (k : Konst) (reg : Nat) (st : CState) :
    Frame lo st (withPropagation kmv false (loadK k reg ecnone0 st) reg).1 := by
  rw [opndK_eq]
  have hc := frame_constIndex (lo := lo) st k
  split
  · exact hc
  · exact hc.trans (frame_emit _ _)

/-- `compileExprWithKMVPropagation` / `…MV…` on a leaf: (store, operand, next free register). -/
def opnd (kmv : Bool) (e : Cond) (reg : Nat) (st : CState) : CState × Nat × Nat :=
  withPropagation kmv false (leafExpr e reg ecnone0 st) reg

variable {V : Type}

theorem opnd_frame {lo : Nat} (kmv : Bool) (e : Cond) (reg : Nat) (st : CState) (hleaf : isLeaf e = true) (htop : st.regTop ≤ reg) :
    Frame lo st (opnd kmv e reg st).1 := by
  cases e <;> simp [isLeaf] at hleaf
  case tru => simp [opnd, leafExpr, withPropagation, propagate, savereg_ecnone0]; exact frame_emit _ _
  case fls => simp [opnd, leafExpr, withPropagation, propagate, savereg_ecnone0]; exact frame_emit _ _
  case nil => simp [opnd, leafExpr, withPropagation, propagate, savereg_ecnone0]; exact frame_emit _ _
  case num n => exact opndK_frame kmv _ reg st
  case str s => exact opndK_frame kmv _ reg st
  case loc r =>
    simp only [opnd, leafExpr, withPropagation, propagate, savereg_ecnone0, last_emit, pop_emit, emit_regTop]
    have : reg ≥ st.regTop := htop
    simp [this]; exact Frame.refl _
  case ev id =>
    have hc := frame_constIndex (lo := lo) st (gname id)
    rcases hci : constIndex st (gname id) with ⟨st1, k⟩
    rw [hci] at hc
    simp only [opnd, leafExpr, withPropagation, propagate, savereg_ecnone0, hci, last_emit]
    exact hc.trans (frame_emit _ _)


theorem code_at_end {st st' F : CState} {i : Instr} (hst : st'.code = st.code ++ [i]) (hF : st'.code <+: F.code) :
    F.code[st.code.length]? = some i := by
  apply prefix_get_some hF
  simp [hst]

theorem rk_reg {d : Dom V} {consts : List Konst} {ρ : Nat → V} {x : Nat} (h : x < 256) :
    rkValue d consts ρ x = some (ρ x) := by
  have : ¬ (x ≥ Generated.opBitRk) := by simp [Generated.opBitRk]; omega
  simp [rkValue, this]

theorem rk_const {d : Dom V} {consts : List Konst} {ρ : Nat → V} {k : Nat} {c : Konst} (h : consts[k]? = some c) :
    rkValue d consts ρ (k + Generated.opBitRk) = some (Env.konst d c) := by
  simp [rkValue, h]

/-! computation lemmas for `opnd` -/

theorem opnd_tru (kmv : Bool) (reg : Nat) (st : CState) :
    opnd kmv .tru reg st = (emit st (.loadbool reg 1 0), reg, reg + 1) := by
  simp [opnd, leafExpr, withPropagation, propagate, savereg_ecnone0]
theorem opnd_fls (kmv : Bool) (reg : Nat) (st : CState) :
    opnd kmv .fls reg st = (emit st (.loadbool reg 0 0), reg, reg + 1) := by
  simp [opnd, leafExpr, withPropagation, propagate, savereg_ecnone0]
theorem opnd_nil (kmv : Bool) (reg : Nat) (st : CState) :
    opnd kmv .nil reg st = (emit st (.loadnil reg reg), reg, reg + 1) := by
  simp [opnd, leafExpr, withPropagation, propagate, savereg_ecnone0]
theorem opnd_loc (kmv : Bool) (reg r : Nat) (st : CState) (h : st.regTop ≤ reg) :
    opnd kmv (.loc r) reg st = (st, r, reg) := by
  have : reg ≥ st.regTop := h
  simp [opnd, leafExpr, withPropagation, propagate, savereg_ecnone0, this]
theorem opnd_ev (kmv : Bool) (reg id : Nat) (st : CState) :
    opnd kmv (.ev id) reg st = (emit (constIndex st (gname id)).1 (.eval reg id), reg, reg + 1) := by
  simp [opnd, leafExpr, withPropagation, propagate, savereg_ecnone0]
theorem opnd_num (kmv : Bool) (reg : Nat) (st : CState) (n : Int) :
    opnd kmv (.num n) reg st =
      if reg ≥ (constIndex st (.num (NumStruct.lit n))).1.regTop ∧ kmv = true ∧ (constIndex st (.num (NumStruct.lit n))).2 ≤ Generated.opMaxIndexRk
      then ((constIndex st (.num (NumStruct.lit n))).1, (constIndex st (.num (NumStruct.lit n))).2 + Generated.opBitRk, reg)
      else (emit (constIndex st (.num (NumStruct.lit n))).1 (.loadk reg (constIndex st (.num (NumStruct.lit n))).2), reg, reg + 1) :=
  opndK_eq kmv _ reg st
theorem opnd_str (kmv : Bool) (reg : Nat) (st : CState) (s : String) :
    opnd kmv (.str s) reg st =
      if reg ≥ (constIndex st (.str s)).1.regTop ∧ kmv = true ∧ (constIndex st (.str s)).2 ≤ Generated.opMaxIndexRk
      then ((constIndex st (.str s)).1, (constIndex st (.str s)).2 + Generated.opBitRk, reg)
      else (emit (constIndex st (.str s)).1 (.loadk reg (constIndex st (.str s)).2), reg, reg + 1) :=
  opndK_eq kmv _ reg st

/-- a pool constant as operand: either propagated into the RK field or loaded into `reg`. -/
theorem opnd_sem_konst (d : Dom V) (kmv : Bool) (reg : Nat) (st F : CState) (ρ γ : Nat → V) (c : Konst)
    (res : CState × Nat × Nat) (hreg : reg < 256)
    (hres : res = if reg ≥ (constIndex st c).1.regTop ∧ kmv = true ∧ (constIndex st c).2 ≤ Generated.opMaxIndexRk
      then ((constIndex st c).1, (constIndex st c).2 + Generated.opBitRk, reg)
      else (emit (constIndex st c).1 (.loadk reg (constIndex st c).2), reg, reg + 1))
    (hF : res.1.code <+: F.code) (hK : res.1.consts <+: F.consts) :
    ∃ ρ1, Reaches d (P0 F) F.consts ⟨st.code.length, ρ, γ⟩ ⟨res.1.code.length, ρ1, γ⟩ ∧
      (∀ x, x ≠ reg → ρ1 x = ρ x) ∧
      rkValue d F.consts ρ1 res.2.1 = some (Env.konst d c) ∧
      (res.2.1 < res.2.2 ∨ 256 ≤ res.2.1) ∧ reg ≤ res.2.2 ∧ res.2.2 ≤ reg + 1 ∧ (kmv = false → res.2.1 < 256) := by
  obtain ⟨hk1, _, hk3, _, _, _⟩ := constIndex_spec st c
  by_cases hcond : reg ≥ (constIndex st c).1.regTop ∧ kmv = true ∧ (constIndex st c).2 ≤ Generated.opMaxIndexRk
  · rw [if_pos hcond] at hres; subst hres
    refine ⟨ρ, ?_, fun _ _ => rfl, ?_, Or.inr (by simp [Generated.opBitRk]), Nat.le_refl _, by simp, fun h => ?_⟩
    · simp only [hk3]; exact .refl _
    · exact rk_const (prefix_get_some hK hk1)
    · simp [hcond.2.1] at h
  · rw [if_neg hcond] at hres; subst hres
    have hc := code_at_end (i := .loadk reg (constIndex st c).2) rfl hF
    rw [hk3] at hc
    refine ⟨setReg ρ reg (Env.konst d c), ?_, fun x hx => setReg_other _ _ hx, ?_, Or.inl (by simp), by simp, by simp, fun _ => hreg⟩
    · refine Reaches.single ?_
      have hkF := prefix_get_some hK hk1
      simp [step, P0_get_nonjmp hc rfl, hkF, hk3]
    · simp only []; rw [rk_reg hreg]; simp

/-- semantics of one leaf operand: the emitted code (at most one instruction) leaves the operand's value
    where the returned operand says, and writes at most register `reg`. -/
theorem opnd_sem (d : Dom V) (kmv : Bool) (e : Cond) (reg : Nat) (st F : CState) (ρ γ : Nat → V) (v : V)
    (hleaf : isLeaf e = true) (htop : st.regTop ≤ reg) (hloc : LocalsBelow reg e) (hreg : reg < 256)
    (hev : eval d ρ γ e = some v)
    (hF : (opnd kmv e reg st).1.code <+: F.code) (hK : (opnd kmv e reg st).1.consts <+: F.consts) :
    ∃ ρ1, Reaches d (P0 F) F.consts ⟨st.code.length, ρ, γ⟩ ⟨(opnd kmv e reg st).1.code.length, ρ1, γ⟩ ∧
      (∀ x, x ≠ reg → ρ1 x = ρ x) ∧
      rkValue d F.consts ρ1 (opnd kmv e reg st).2.1 = some v ∧
      ((opnd kmv e reg st).2.1 < (opnd kmv e reg st).2.2 ∨ 256 ≤ (opnd kmv e reg st).2.1) ∧
      reg ≤ (opnd kmv e reg st).2.2 ∧ (opnd kmv e reg st).2.2 ≤ reg + 1 ∧
      (kmv = false → (opnd kmv e reg st).2.1 < 256) := by
  cases e <;> simp [isLeaf] at hleaf
  case tru =>
    rw [opnd_tru] at hF hK ⊢
    simp only [eval, Option.some.injEq] at hev; subst hev
    have hc := code_at_end (i := .loadbool reg 1 0) rfl hF
    refine ⟨setReg ρ reg d.trueV, ?_, fun x hx => setReg_other _ _ hx, ?_, Or.inl (by simp), by simp, by simp, fun _ => hreg⟩
    · refine Reaches.single ?_
      simp [step, P0_get_nonjmp hc rfl]
    · simp only []; rw [rk_reg hreg]; simp
  case fls =>
    rw [opnd_fls] at hF hK ⊢
    simp only [eval, Option.some.injEq] at hev; subst hev
    have hc := code_at_end (i := .loadbool reg 0 0) rfl hF
    refine ⟨setReg ρ reg d.falseV, ?_, fun x hx => setReg_other _ _ hx, ?_, Or.inl (by simp), by simp, by simp, fun _ => hreg⟩
    · refine Reaches.single ?_
      simp [step, P0_get_nonjmp hc rfl]
    · simp only []; rw [rk_reg hreg]; simp
  case nil =>
    rw [opnd_nil] at hF hK ⊢
    simp only [eval, Option.some.injEq] at hev; subst hev
    have hc := code_at_end (i := .loadnil reg reg) rfl hF
    refine ⟨setReg ρ reg d.nilV, ?_, fun x hx => setReg_other _ _ hx, ?_, Or.inl (by simp), by simp, by simp, fun _ => hreg⟩
    · refine Reaches.single ?_
      simp [step, P0_get_nonjmp hc rfl, fillNil_one]
    · simp only []; rw [rk_reg hreg]; simp
  case num n =>
    simp only [eval, Option.some.injEq] at hev; subst hev
    exact opnd_sem_konst d kmv reg st F ρ γ (.num (NumStruct.lit n)) _ hreg (opnd_num kmv reg st n) hF hK
  case str s =>
    simp only [eval, Option.some.injEq] at hev; subst hev
    exact opnd_sem_konst d kmv reg st F ρ γ (.str s) _ hreg (opnd_str kmv reg st s) hF hK
  case loc r =>
    simp only [eval, Option.some.injEq] at hev; subst hev
    simp only [LocalsBelow] at hloc
    rw [opnd_loc kmv reg r st htop] at hF hK ⊢
    exact ⟨ρ, .refl _, fun _ _ => rfl, rk_reg (show r < 256 by omega), Or.inl hloc, Nat.le_refl _, by simp, fun _ => by show r < 256; omega⟩
  case ev id =>
    obtain ⟨_, _, hk3, _, _, _⟩ := constIndex_spec st (gname id)
    simp only [eval, Option.some.injEq] at hev; subst hev
    rw [opnd_ev] at hF hK ⊢
    have hc := code_at_end (i := .eval reg id) rfl hF
    rw [hk3] at hc
    refine ⟨setReg ρ reg (γ id), ?_, fun x hx => setReg_other _ _ hx, ?_, Or.inl (by simp), by simp, by simp, fun _ => hreg⟩
    · refine Reaches.single ?_
      simp [step, P0_get_nonjmp hc rfl, hk3]
    · simp only []; rw [rk_reg hreg]; simp


/-! ### TEST/JMP and comparison/JMP pairs -/

theorem truthy_ofBool {d : Dom V} (hd : d.Lawful) (b : Bool) : d.truthy (ofBool d b) = b := by
  cases b <;> simp [ofBool, hd.true_truthy, hd.false_falsy]

/-- `TEST a _ flip; JMP L`: the jump is taken iff truthiness = (flip = 1). -/
theorem test_jmp_sem (d : Dom V) {F : CState} {p a b flip L : Nat} {ρ γ : Nat → V}
    (h1 : F.code[p]? = some (.test a b flip)) (h2 : F.code[p + 1]? = some (.jmp (L : Int))) (hL : LabelOK F L)
    (hflip : flip = 0 ∨ flip = 1) :
    Reaches d (P0 F) F.consts ⟨p, ρ, γ⟩ ⟨if d.truthy (ρ a) = decide (flip = 1) then tgt F L else p + 2, ρ, γ⟩ := by
  have hs1 : step d (P0 F) F.consts ⟨p, ρ, γ⟩ =
      .ok ⟨if d.truthy (ρ a) == (flip == 0) then p + 1 + 1 else p + 1, ρ, γ⟩ := by
    simp [step, P0_get_nonjmp h1 rfl]
  have hs2 : step d (P0 F) F.consts ⟨p + 1, ρ, γ⟩ = .ok ⟨tgt F L, ρ, γ⟩ := step_jmp h2 hL
  rcases hflip with rfl | rfl <;> cases ht : d.truthy (ρ a) <;> simp [ht] at hs1 ⊢
  · exact .step hs1 (.single hs2)
  · exact .single hs1
  · exact .single hs1
  · exact .step hs1 (.single hs2)

/-- a comparison instruction followed by `JMP L`: the jump is taken iff the oracle's answer = (A = 1). -/
theorem cmp_jmp_sem (d : Dom V) {F : CState} {p A b c L : Nat} {i : Instr} {ρ γ : Nat → V} {x y : V} {ret : Bool}
    (hi : (i = .eq A b c ∧ d.eq x y = some ret) ∨ (i = .lt A b c ∧ d.lt x y = some ret) ∨ (i = .le A b c ∧ d.le x y = some ret))
    (h1 : F.code[p]? = some i) (h2 : F.code[p + 1]? = some (.jmp (L : Int))) (hL : LabelOK F L)
    (hA : A = 0 ∨ A = 1)
    (hx : rkValue d F.consts ρ b = some x) (hy : rkValue d F.consts ρ c = some y) :
    Reaches d (P0 F) F.consts ⟨p, ρ, γ⟩ ⟨if ret = decide (A = 1) then tgt F L else p + 2, ρ, γ⟩ := by
  have hs2 : step d (P0 F) F.consts ⟨p + 1, ρ, γ⟩ = .ok ⟨tgt F L, ρ, γ⟩ := step_jmp h2 hL
  have hs1 : step d (P0 F) F.consts ⟨p, ρ, γ⟩ = .ok ⟨if (if ret then 0 else 1) = A then p + 1 + 1 else p + 1, ρ, γ⟩ := by
    rcases hi with ⟨rfl, hr⟩ | ⟨rfl, hr⟩ | ⟨rfl, hr⟩ <;>
      simp [step, P0_get_nonjmp h1 rfl, hx, hy, hr, cmpStep]
  rcases hA with rfl | rfl <;> cases ret <;> simp at hs1 ⊢
  · exact .step hs1 (.single hs2)
  · exact .single hs1
  · exact .single hs1
  · exact .step hs1 (.single hs2)

/-- `EQ/LT/LE A B C; JMP L` as emitted by `compileRelationalOpExprAux`: the jump is taken iff the
    truth value of the comparison = (flip = 1). -/
theorem rel_jmp_sem (d : Dom V) (hd : d.Lawful) {F : CState} {p b c flip L : Nat} {op : RelOp} {ρ γ : Nat → V} {x y v : V}
    (h1 : F.code[p]? = some (relInstr op flip b c)) (h2 : F.code[p + 1]? = some (.jmp (L : Int))) (hL : LabelOK F L)
    (hflip : flip = 0 ∨ flip = 1)
    (hx : rkValue d F.consts ρ b = some x) (hy : rkValue d F.consts ρ c = some y) (hv : relVal d op x y = some v) :
    Reaches d (P0 F) F.consts ⟨p, ρ, γ⟩ ⟨if d.truthy v = decide (flip = 1) then tgt F L else p + 2, ρ, γ⟩ := by
  cases op <;> simp only [relVal, Option.map_eq_some_iff] at hv <;> obtain ⟨bv, hb, rfl⟩ := hv <;>
    rw [truthy_ofBool hd] <;> simp only [relInstr] at h1
  · exact cmp_jmp_sem d (Or.inr (Or.inl ⟨rfl, hb⟩)) h1 h2 hL hflip hx hy
  · exact cmp_jmp_sem d (Or.inr (Or.inl ⟨rfl, hb⟩)) h1 h2 hL hflip hy hx
  · exact cmp_jmp_sem d (Or.inr (Or.inr ⟨rfl, hb⟩)) h1 h2 hL hflip hx hy
  · exact cmp_jmp_sem d (Or.inr (Or.inr ⟨rfl, hb⟩)) h1 h2 hL hflip hy hx
  · exact cmp_jmp_sem d (Or.inl ⟨rfl, hb⟩) h1 h2 hL hflip hx hy
  · have := cmp_jmp_sem d (γ := γ) (ret := bv) (Or.inl ⟨rfl, hb⟩) h1 h2 hL (by omega) hx hy
    rcases hflip with rfl | rfl <;> cases bv <;> simpa using this


/-! ### evaluation only looks at the locals it mentions -/

theorem eval_congr (d : Dom V) {ρ1 ρ γ : Nat → V} {n : Nat} (h : ∀ x, x < n → ρ1 x = ρ x) :
    ∀ e, LocalsBelow n e → eval d ρ1 γ e = eval d ρ γ e := by
  intro e
  induction e with
  | loc r => intro hl; simp only [LocalsBelow] at hl; simp [eval, h r hl]
  | not c ih => intro hl; simp only [LocalsBelow] at hl; simp [eval, ih hl]
  | and l r ihl ihr => intro hl; simp only [LocalsBelow] at hl; simp [eval, ihl hl.1, ihr hl.2]
  | or l r ihl ihr => intro hl; simp only [LocalsBelow] at hl; simp [eval, ihl hl.1, ihr hl.2]
  | rel op l r ihl ihr => intro hl; simp only [LocalsBelow] at hl; simp [eval, ihl hl.1, ihr hl.2]
  | arith op l r ihl ihr => intro hl; simp only [LocalsBelow] at hl; simp [eval, ihl hl.1, ihr hl.2]
  | concat l r ihl ihr => intro hl; simp only [LocalsBelow] at hl; simp [eval, ihl hl.1, ihr hl.2]
  | unm c ih => intro hl; simp only [LocalsBelow] at hl; simp [eval, ih hl]
  | len c ih => intro hl; simp only [LocalsBelow] at hl; simp [eval, ih hl]
  | _ => intro _; simp [eval]

theorem LocalsBelow.mono {n m : Nat} (hnm : n ≤ m) : ∀ e, LocalsBelow n e → LocalsBelow m e := by
  intro e
  induction e with
  | loc r => intro h; simp only [LocalsBelow] at h ⊢; omega
  | not c ih => intro h; exact ih h
  | and l r ihl ihr => intro h; exact ⟨ihl h.1, ihr h.2⟩
  | or l r ihl ihr => intro h; exact ⟨ihl h.1, ihr h.2⟩
  | rel op l r ihl ihr => intro h; exact ⟨ihl h.1, ihr h.2⟩
  | arith op l r ihl ihr => intro h; exact ⟨ihl h.1, ihr h.2⟩
  | concat l r ihl ihr => intro h; exact ⟨ihl h.1, ihr h.2⟩
  | unm c ih => intro h; exact ih h
  | len c ih => intro h; exact ih h
  | _ => intro _; trivial

theorem rk_congr (d : Dom V) {consts : List Konst} {ρ1 ρ2 : Nat → V} {x : Nat} (h : x < 256 → ρ2 x = ρ1 x) :
    rkValue d consts ρ2 x = rkValue d consts ρ1 x := by
  unfold rkValue
  by_cases hx : x ≥ Generated.opBitRk
  · simp [hx]
  · simp only [hx, if_false]
    rw [h (by simp [Generated.opBitRk] at hx; omega)]

/-! ### relational operator on two leaves -/

theorem comp_leaf_expr (e : Cond) (h : isLeaf e = true) (g : Nat) (ec : ExpCtx) (s : CState) :
    comp e (.expr g ec) s = leafExpr e g ec s := by
  cases e <;> simp [isLeaf] at h <;> simp [comp]

theorem isLogical_leaf (e : Cond) (h : isLeaf e = true) : e.isLogical = false := by
  cases e <;> simp [isLeaf] at h <;> rfl

/-! ### compileBranchCondition -/

/-- where control is after the code of a branch condition whose value has truthiness `tv`:
    at the then-label resp. else-label, or — for the side that does not jump — at the end of the code. -/
def BranchOut (F : CState) (thenl elsel : Nat) (hasnext : Bool) (endpc : Nat) (tv : Bool) (pc' : Nat) : Prop :=
  (tv = true → pc' = tgt F thenl ∨ (hasnext = false ∧ pc' = endpc)) ∧
  (tv = false → pc' = tgt F elsel ∨ (hasnext = true ∧ pc' = endpc))

theorem flipOf_cases (h : Bool) : flipOf h = 0 ∨ flipOf h = 1 := by cases h <;> simp [flipOf]

theorem branchOut_of_flip (F : CState) (thenl elsel : Nat) (hasnext : Bool) (endpc : Nat) (tv : Bool) :
    BranchOut F thenl elsel hasnext endpc tv
      (if tv = decide (flipOf hasnext = 1) then tgt F (if hasnext then thenl else elsel) else endpc) := by
  cases hasnext <;> cases tv <;> simp [BranchOut, flipOf]

theorem BranchOut.swap {F : CState} {thenl elsel : Nat} {hasnext : Bool} {endpc : Nat} {tv : Bool} {pc' : Nat}
    (h : BranchOut F elsel thenl (!hasnext) endpc tv pc') : BranchOut F thenl elsel hasnext endpc (!tv) pc' := by
  cases hasnext <;> cases tv <;> simp_all [BranchOut]

theorem getLabelPc_setLabelHere_same (st : CState) (L : Nat) : getLabelPc (setLabelHere st L) L = (st.code.length : Int) - 1 := by
  simp [getLabelPc, setLabelHere, setLabelPc, lookupLabel, lastPC]

theorem getLabelPc_setLabelHere_other (st : CState) {L L' : Nat} (h : L ≠ L') : getLabelPc (setLabelHere st L) L' = getLabelPc st L' := by
  simp [getLabelPc, setLabelHere, setLabelPc, lookupLabel, h]

end GLua.Lowering
