/-
  Value-context lowering, part 8: compileArithmeticOpExpr (operands through PropagateKMV, constant folding) and
  compileStringConcatOpExpr (chains: the operands are laid out in consecutive registers, the trailing CONCAT of the
  right operand is popped, one CONCAT joins the whole chain from right to left).
-/
import GLua.Proofs.LoweringValue5

namespace GLua.Lowering
open GLua.Compile GLua.MiniVM GLua.CondSpec

variable [NumStruct]
set_option linter.unusedSectionVars false
variable {V : Type}

/-! ### arithmetic -/

theorem exprSem_arith (d : Dom V) (hd : d.Lawful) (op : ArithOp) (l r : Cond) (hfl : ExprFrame l) (hfr : ExprFrame r)
    (hl : ExprSem d l) (hr : ExprSem d r) : ExprSem d (.arith op l r) := by
  cases hfold : lnum (.arith op l r) with
  | some x =>
    exact exprSem_folded d hd (.arith op l r) x hfold (fun st reg ec => by simp only [comp, hfold, arithExpr])
  | none =>
    intro st F reg ec ρ γ v htop hloc hreg hsreg hev hok hF hK hlab
    have hcomp : (comp (.arith op l r) (.expr reg ec) st).st =
        emit (bops l r st reg).1 (.arith op (savereg ec reg) (bops l r st reg).2.1 (bops l r st reg).2.2) := by
      simp only [comp, hfold, arithExpr]; rfl
    rw [hcomp] at hF hK hlab ⊢
    simp only [LocalsBelow] at hloc
    simp only [rh] at hreg
    simp only [eval] at hev
    cases hx : eval d ρ γ l with
    | none => simp [hx] at hev
    | some x =>
      cases hy : eval d ρ γ r with
      | none => simp [hx, hy] at hev
      | some y =>
        simp only [hx, hy] at hev
        obtain ⟨ρ2, hreach, hf2, hrk1, hrk2⟩ := bops_sem d hd l r hfl hfr hl hr st F reg ρ γ x y htop hloc.1 hloc.2 hreg hx hy hok
          (List.IsPrefix.trans (by simp) hF) (by simpa using hK) (by simpa [getLabelPc] using hlab)
        have hcd : F.code[(bops l r st reg).1.code.length]? =
            some (.arith op (savereg ec reg) (bops l r st reg).2.1 (bops l r st reg).2.2) := by
          apply prefix_get_some hF; simp
        refine ⟨setReg ρ2 (savereg ec reg) v, ?_, setReg_same _ _ _, (hf2.dest).setReg _⟩
        refine hreach.trans (Reaches.single ?_)
        simp [step, P0_get_nonjmp hcd rfl, hrk1, hrk2, hev, opStep]

/-! ### concatenation -/

/-- peeling the LOWEST register off the right-to-left join: R(b) .. (R(b+1) .. … .. acc). -/
theorem concatFold_low (d : Dom V) (regs : Nat → V) (b : Nat) : ∀ (n : Nat) (acc : V),
    concatFold d regs b (n + 1) acc = (concatFold d regs (b + 1) n acc).bind (fun t => d.concat (regs b) t) := by
  intro n
  induction n with
  | zero =>
    intro acc
    simp only [concatFold, Nat.add_zero, Option.bind_some]
    cases d.concat (regs b) acc <;> rfl
  | succ n ih =>
    intro acc
    have h1 : concatFold d regs b (n + 1 + 1) acc =
        (match d.concat (regs (b + (n + 1))) acc with
          | none => none
          | some v => concatFold d regs b (n + 1) v) := rfl
    have h2 : concatFold d regs (b + 1) (n + 1) acc =
        (match d.concat (regs (b + 1 + n)) acc with
          | none => none
          | some v => concatFold d regs (b + 1) n v) := rfl
    rw [h1, h2]
    have hidx : b + (n + 1) = b + 1 + n := by omega
    rw [hidx]
    cases d.concat (regs (b + 1 + n)) acc with
    | none => rfl
    | some v => simp only [ih v]

theorem spine_notConcat (r : Cond) (h : isConcat r = false) : spine r = 0 := by
  cases r <;> simp [isConcat] at h <;> rfl

/-- the operand part of a concatenation: after the code of `l .. r` WITHOUT its final CONCAT the operands of the whole
    chain sit in the registers reg … reg + 1 + spine r, every register below `reg` is unchanged, and the right-to-left
    join that `OP_CONCAT` performs on them is the manual's value. -/
def ChainSem (d : Dom V) (l r : Cond) : Prop :=
  ∀ (st F : CState) (reg : Nat) (ec : ExpCtx) (ρ γ : Nat → V) (v : V),
    st.regTop ≤ reg → LocalsBelow reg (.concat l r) → reg + rh (.concat l r) < 256 →
    eval d ρ γ (.concat l r) = some v → (∀ L, LabelOK F L) →
    (comp (.concat l r) (.expr reg ec) st).st.code.dropLast <+: F.code →
    (comp (.concat l r) (.expr reg ec) st).st.consts <+: F.consts →
    (∀ L, st.labelId ≤ L → L < (comp (.concat l r) (.expr reg ec) st).st.labelId →
        getLabelPc F L = getLabelPc (comp (.concat l r) (.expr reg ec) st).st L) →
    ∃ ρ', Reaches d (P0 F) F.consts ⟨st.code.length, ρ, γ⟩ ⟨(comp (.concat l r) (.expr reg ec) st).st.code.length - 1, ρ', γ⟩ ∧
      FullFrame reg ρ ρ' ∧ concatVal d ρ' reg (reg + (1 + spine r)) = some v

def ChainS (d : Dom V) (e : Cond) : Prop := ∀ l r, e = .concat l r → ChainSem d l r

theorem chainSem_concat (d : Dom V) (l r : Cond) (hl : ExprSem d l) (hr : ExprSem d r) (hcr : ChainS d r) : ChainSem d l r := by
  intro st F reg ec ρ γ v htop hloc hreg hev hok hF hK hlab
  have hfl := (comp_frame l).1
  have hfr := (comp_frame r).1
  obtain ⟨pre, hst, hlt, hnc, hpfx, hcase⟩ := concat_code l r hfl hfr st reg ec htop
  have e1 := hfl st reg ecnone0 htop
  have htop2 : (comp l (.expr reg ecnone0) st).st.regTop ≤ reg + 1 := by rw [e1.frame.regTop]; omega
  have e2 := hfr (comp l (.expr reg ecnone0) st).st (reg + 1) ecnone0 htop2
  generalize hs1 : (comp l (.expr reg ecnone0) st).st = s1 at hst hlt hpfx hcase e1 e2 htop2
  generalize hs2 : (comp r (.expr (reg + 1) ecnone0) s1).st = s2 at hst hcase e2
  have f1 : Frame st.labelId st s1 := by rw [← hs1]; exact (hfl st reg ecnone0 htop).frame
  have f2 : Frame s1.labelId s1 s2 := by rw [← hs2]; exact (hfr s1 (reg + 1) ecnone0 htop2).frame
  have hcode : (comp (.concat l r) (.expr reg ec) st).st.code = pre ++ [.concat (savereg ec reg) reg (reg + (1 + spine r))] := by
    rw [hst]; rfl
  have hconsts : (comp (.concat l r) (.expr reg ec) st).st.consts = s2.consts := by rw [hst]; rfl
  have hlabid : (comp (.concat l r) (.expr reg ec) st).st.labelId = s2.labelId := by rw [hst]; rfl
  have hlabpc : ∀ L, getLabelPc (comp (.concat l r) (.expr reg ec) st).st L = getLabelPc s2 L := by
    intro L; rw [hst]; rfl
  rw [hcode] at hF ⊢
  rw [hconsts] at hK
  rw [hlabid] at hlab
  simp only [List.dropLast_concat] at hF
  simp only [List.length_append, List.length_singleton, Nat.add_sub_cancel]
  simp only [LocalsBelow] at hloc
  simp only [rh] at hreg
  simp only [eval] at hev
  cases hx : eval d ρ γ l with
  | none => simp [hx] at hev
  | some x =>
    cases hy : eval d ρ γ r with
    | none => simp [hx, hy] at hev
    | some y =>
      simp only [hx, hy] at hev
      -- the left operand into `reg`
      obtain ⟨ρ1, hreach1, hv1, hd1⟩ := hl st F reg ecnone0 ρ γ x htop hloc.1 (by omega) (by rw [savereg_ecnone0]; exact Nat.le_refl _) hx hok
        (by rw [hs1]; exact hpfx.trans hF) (by rw [hs1]; exact f2.consts.trans hK)
        (by
          rw [hs1]
          intro L h1 h2
          rw [hlab L h1 (by have := f2.labelId; omega), hlabpc, f2.labels L h2])
      rw [savereg_ecnone0] at hv1 hd1
      rw [hs1] at hreach1
      have hf1 : FullFrame reg ρ ρ1 := fun z hz => hd1 z hz (by omega)
      have hy1 : eval d ρ1 γ r = some y := by rw [eval_congr d hf1 r hloc.2, hy]
      have hlab2 : ∀ L, s1.labelId ≤ L → L < s2.labelId → getLabelPc F L = getLabelPc s2 L := by
        intro L h1 h2
        rw [hlab L (by have := f1.labelId; omega) h2, hlabpc]
      rcases hcase with ⟨hncr, hpre⟩ | ⟨l', r', hr', hpre⟩
      · -- the right operand is not a concatenation: its value goes to reg + 1
        subst hpre
        obtain ⟨ρ2, hreach2, hv2, hd2⟩ := hr s1 F (reg + 1) ecnone0 ρ1 γ y htop2 (LocalsBelow.mono (Nat.le_succ _) r hloc.2) (by omega)
          (by rw [savereg_ecnone0]; exact Nat.le_refl _) hy1 hok (by rw [hs2]; exact hF) (by rw [hs2]; exact hK) (by rw [hs2]; exact hlab2)
        rw [savereg_ecnone0] at hv2 hd2
        rw [hs2] at hreach2
        have hf2 : FullFrame (reg + 1) ρ1 ρ2 := fun z hz => hd2 z hz (by omega)
        refine ⟨ρ2, hreach1.trans hreach2, hf1.trans (hf2.mono (Nat.le_succ _)), ?_⟩
        rw [spine_notConcat r hncr]
        have h0 : reg + (1 + 0) - reg = 0 + 1 := by omega
        unfold concatVal
        rw [h0, concatFold_low]
        simp only [concatFold, Option.bind_some]
        have : reg + (1 + 0) = reg + 1 := by omega
        rw [this, hv2, hf2 reg (Nat.lt_succ_self _), hv1]
        exact hev
      · -- the right operand is a concatenation: its chain occupies reg + 1 …, its own CONCAT was popped
        subst hr'
        have hlen2 : (comp (.concat l' r') (.expr (reg + 1) ecnone0) s1).st.code.length - 1 = pre.length := by
          rw [hs2, hpre]; simp
        obtain ⟨ρ2, hreach2, hf2, hcv⟩ := hcr l' r' rfl s1 F (reg + 1) ecnone0 ρ1 γ y htop2
          (LocalsBelow.mono (Nat.le_succ _) _ hloc.2) (by omega) hy1 hok
          (by rw [hs2, hpre]; simpa using hF) (by rw [hs2]; exact hK) (by rw [hs2]; exact hlab2)
        rw [hlen2] at hreach2
        refine ⟨ρ2, hreach1.trans hreach2, hf1.trans (hf2.mono (Nat.le_succ _)), ?_⟩
        have hsp : spine (Cond.concat l' r') = spine r' + 1 := rfl
        rw [hsp]
        have h0 : reg + (1 + (spine r' + 1)) - reg = (1 + spine r') + 1 := by omega
        unfold concatVal
        rw [h0, concatFold_low]
        have hidx : reg + (1 + (spine r' + 1)) = reg + 1 + (1 + spine r') := by omega
        rw [hidx]
        have hcv' : concatFold d ρ2 (reg + 1) (1 + spine r') (ρ2 (reg + 1 + (1 + spine r'))) = some y := by
          unfold concatVal at hcv
          have : reg + 1 + (1 + spine r') - (reg + 1) = 1 + spine r' := by omega
          rw [this] at hcv
          exact hcv
        rw [hcv']
        simp only [Option.bind_some]
        rw [hf2 reg (Nat.lt_succ_self _), hv1]
        exact hev

theorem exprSem_concat' (d : Dom V) (l r : Cond) (hch : ChainSem d l r) : ExprSem d (.concat l r) := by
  intro st F reg ec ρ γ v htop hloc hreg hsreg hev hok hF hK hlab
  have hfl := (comp_frame l).1
  have hfr := (comp_frame r).1
  obtain ⟨pre, hst, _, _, _, _⟩ := concat_code l r hfl hfr st reg ec htop
  have hcode : (comp (.concat l r) (.expr reg ec) st).st.code = pre ++ [.concat (savereg ec reg) reg (reg + (1 + spine r))] := by
    rw [hst]; rfl
  obtain ⟨ρ1, hreach, hf1, hcv⟩ := hch st F reg ec ρ γ v htop hloc hreg hev hok
    (by rw [hcode]; simp only [List.dropLast_concat]; exact (List.prefix_append _ _).trans (hcode ▸ hF)) hK hlab
  rw [hcode] at hF hreach ⊢
  simp only [List.length_append, List.length_singleton, Nat.add_sub_cancel] at hreach ⊢
  have hcd : F.code[pre.length]? = some (.concat (savereg ec reg) reg (reg + (1 + spine r))) := by
    apply prefix_get_some hF; simp
  refine ⟨setReg ρ1 (savereg ec reg) v, ?_, setReg_same _ _ _, (hf1.dest).setReg _⟩
  refine hreach.trans (Reaches.single ?_)
  simp [step, P0_get_nonjmp hcd rfl, hcv, opStep]

end GLua.Lowering
