/-
  Correctness of the lowering of conditions in BRANCH context (`compileBranchCondition`) for EVERY expression of the
  model: and / or / not are lowered to jumps, relational operators to a comparison and a jump with arbitrary
  operand expressions, every other expression (leaves, arithmetic, unary minus, #, concatenation) is evaluated by
  compileExpr (through PropagateMV) and tested.
-/
import GLua.Proofs.LoweringValue7

namespace GLua.Lowering
open GLua.Compile GLua.MiniVM GLua.CondSpec

variable [NumStruct]
set_option linter.unusedSectionVars false
variable {V : Type}

/-! ### default case of compileBranchCondition: operand, TEST, JMP -/

def bcCode (e : Cond) (st : CState) (reg flip L : Nat) : CState :=
  emit (emit (opr false e reg st).1 (.test (opr false e reg st).2.1 0 flip)) (.jmp L)

theorem bcDefault_eq (e : Cond) (hlog : e.isLogical = false) (st : CState) (reg flip L : Nat) :
    (bcDefault (comp e (.expr reg ecnone0) st) reg flip L).st = bcCode e st reg flip L := by
  simp only [bcDefault, bcCode, opr, hlog]

theorem bcCode_frame (e : Cond) (st : CState) (reg flip L : Nat) (htop : st.regTop ≤ reg) :
    Frame st.labelId st (bcCode e st reg flip L) :=
  (opr_frame false e st reg ((comp_frame e).1 st reg ecnone0 htop) htop).1.trans ((frame_emit _ _).trans (frame_emit _ _))

theorem bcCode_sem (d : Dom V) (hd : d.Lawful) (e : Cond) (st F : CState) (reg flip L : Nat) (ρ γ : Nat → V) (v : V)
    (htop : st.regTop ≤ reg) (hloc : LocalsBelow reg e) (hreg : reg + rh e < 256) (hev : eval d ρ γ e = some v)
    (hflip : flip = 0 ∨ flip = 1) (hok : ∀ L, LabelOK F L)
    (hF : (bcCode e st reg flip L).code <+: F.code) (hK : (bcCode e st reg flip L).consts <+: F.consts)
    (hlab : ∀ L', st.labelId ≤ L' → L' < (bcCode e st reg flip L).labelId → getLabelPc F L' = getLabelPc (bcCode e st reg flip L) L') :
    ∃ ρ', Reaches d (P0 F) F.consts ⟨st.code.length, ρ, γ⟩
        ⟨if d.truthy v = decide (flip = 1) then tgt F L else (bcCode e st reg flip L).code.length, ρ', γ⟩ ∧
      ∀ x, x < reg → ρ' x = ρ x := by
  obtain ⟨ρ1, hr1, hf1, hrk1, _, h256⟩ := opr_sem d hd false e (comp_frame e).1 (value_main d hd e).1 st F reg ρ γ v htop hloc hreg hev hok
    (List.IsPrefix.trans (by simp [bcCode]) hF) (by simpa [bcCode] using hK) (by simpa [bcCode, getLabelPc] using hlab)
  have hv : ρ1 (opr false e reg st).2.1 = v := by
    rw [rk_reg (h256 rfl)] at hrk1; exact Option.some.inj hrk1
  have hc1 : F.code[(opr false e reg st).1.code.length]? = some (.test (opr false e reg st).2.1 0 flip) := by
    apply prefix_get_some hF; simp [bcCode]
  have hc2 : F.code[(opr false e reg st).1.code.length + 1]? = some (.jmp (L : Int)) := by
    apply prefix_get_some hF; simp [bcCode]
  have hfin := test_jmp_sem d (ρ := ρ1) (γ := γ) hc1 hc2 (hok L) hflip
  rw [hv] at hfin
  refine ⟨ρ1, ?_, hf1⟩
  have hlen : (bcCode e st reg flip L).code.length = (opr false e reg st).1.code.length + 2 := by simp [bcCode]
  rw [hlen]
  exact hr1.trans hfin

/-! ### compileBranchCondition -/

theorem bc_leaf_eq (e : Cond) (he : isLeaf e = true) (st : CState) (reg flip L : Nat) :
    (bcDefault (leafExpr e reg ecnone0 st) reg flip L).st = bcCode e st reg flip L := by
  rw [← comp_leaf_expr e he, bcDefault_eq e (isLogical_leaf e he)]

/-- the expression kinds that compileBranchCondition hands to its default case whatever `hasnextcond` is. -/
def bcDefaultKind : Cond → Bool
  | .loc _ | .ev _ | .arith _ _ _ | .unm _ | .len _ | .concat _ _ => true
  | _ => false

theorem bc_default_eq (e : Cond) (hk : bcDefaultKind e = true) (st : CState) (reg thenl elsel : Nat) (hasnext : Bool) :
    (comp e (.bc reg thenl elsel hasnext) st).st = bcCode e st reg (flipOf hasnext) (if hasnext then thenl else elsel) := by
  cases e <;> simp [bcDefaultKind] at hk
  case loc r => simp only [comp]; exact bc_leaf_eq (.loc r) rfl st reg _ _
  case ev id => simp only [comp]; exact bc_leaf_eq (.ev id) rfl st reg _ _
  case arith op l r =>
    have := bcDefault_eq (.arith op l r) rfl st reg (flipOf hasnext) (if hasnext then thenl else elsel)
    simp only [comp] at this ⊢; exact this
  case unm c =>
    have := bcDefault_eq (.unm c) rfl st reg (flipOf hasnext) (if hasnext then thenl else elsel)
    simp only [comp] at this ⊢; exact this
  case len c =>
    have := bcDefault_eq (.len c) rfl st reg (flipOf hasnext) (if hasnext then thenl else elsel)
    simp only [comp] at this ⊢; exact this
  case concat l r =>
    have := bcDefault_eq (.concat l r) rfl st reg (flipOf hasnext) (if hasnext then thenl else elsel)
    simp only [comp] at this ⊢; exact this

/-- a constant as a condition: no code / one JMP when nothing follows, else the default case with flip = 1. -/
theorem bc_const_true (e : Cond) (st : CState) (reg thenl elsel : Nat) :
    (e = .tru ∨ (∃ n, e = .num n) ∨ (∃ s, e = .str s)) →
    (comp e (.bc reg thenl elsel false) st).st = st ∧ (comp e (.bc reg thenl elsel true) st).st = bcCode e st reg 1 thenl := by
  rintro (rfl | ⟨n, rfl⟩ | ⟨s, rfl⟩)
  all_goals exact ⟨by simp only [comp, if_true], by simp only [comp]; exact bc_leaf_eq _ rfl st reg 1 thenl⟩

theorem bc_const_false (e : Cond) (st : CState) (reg thenl elsel : Nat) :
    (e = .fls ∨ e = .nil) →
    (comp e (.bc reg thenl elsel false) st).st = emit st (.jmp (elsel : Int)) ∧
    (comp e (.bc reg thenl elsel true) st).st = bcCode e st reg 1 thenl := by
  rintro (rfl | rfl)
  all_goals exact ⟨by simp only [comp, if_true], by simp only [comp]; exact bc_leaf_eq _ rfl st reg 1 thenl⟩

theorem bcx_frame : ∀ (e : Cond) (st : CState) (reg thenl elsel : Nat) (hasnext : Bool),
    st.regTop ≤ reg → Frame st.labelId st (comp e (.bc reg thenl elsel hasnext) st).st := by
  have constT : ∀ e, (e = .tru ∨ (∃ n, e = .num n) ∨ (∃ s, e = .str s)) → ∀ (st : CState) (reg thenl elsel : Nat) (hasnext : Bool),
      st.regTop ≤ reg → Frame st.labelId st (comp e (.bc reg thenl elsel hasnext) st).st := by
    intro e he st reg thenl elsel hasnext htop
    obtain ⟨h1, h2⟩ := bc_const_true e st reg thenl elsel he
    cases hasnext
    · rw [h1]; exact Frame.refl _
    · rw [h2]; exact bcCode_frame e st reg _ _ htop
  have constF : ∀ e, (e = .fls ∨ e = .nil) → ∀ (st : CState) (reg thenl elsel : Nat) (hasnext : Bool),
      st.regTop ≤ reg → Frame st.labelId st (comp e (.bc reg thenl elsel hasnext) st).st := by
    intro e he st reg thenl elsel hasnext htop
    obtain ⟨h1, h2⟩ := bc_const_false e st reg thenl elsel he
    cases hasnext
    · rw [h1]; exact frame_emit _ _
    · rw [h2]; exact bcCode_frame e st reg _ _ htop
  have defK : ∀ e, bcDefaultKind e = true → ∀ (st : CState) (reg thenl elsel : Nat) (hasnext : Bool),
      st.regTop ≤ reg → Frame st.labelId st (comp e (.bc reg thenl elsel hasnext) st).st := by
    intro e he st reg thenl elsel hasnext htop
    rw [bc_default_eq e he]; exact bcCode_frame e st reg _ _ htop
  intro e
  induction e with
  | tru => exact constT _ (Or.inl rfl)
  | num n => exact constT _ (Or.inr (Or.inl ⟨n, rfl⟩))
  | str s => exact constT _ (Or.inr (Or.inr ⟨s, rfl⟩))
  | fls => exact constF _ (Or.inl rfl)
  | nil => exact constF _ (Or.inr rfl)
  | loc r => exact defK _ rfl
  | ev id => exact defK _ rfl
  | arith op l r _ _ => exact defK _ rfl
  | unm c _ => exact defK _ rfl
  | len c _ => exact defK _ rfl
  | concat l r _ _ => exact defK _ rfl
  | not c ih => intro st reg thenl elsel hasnext htop
                simp only [comp]; exact ih st reg elsel thenl (!hasnext) htop
  | rel op l r _ _ =>
    intro st reg thenl elsel hasnext htop
    simp only [comp, relAux_eq]
    exact (relCode_frame op l r (comp_frame l).1 (comp_frame r).1 st reg _ _ htop).1
  | and l r ihl ihr =>
    intro st reg thenl elsel hasnext htop
    simp only [comp, newLabel]
    have f1 := ihl { st with labelId := st.labelId + 1 } reg st.labelId elsel false htop
    have fc := frame_setLabelHere (lo := st.labelId) (comp l (.bc reg st.labelId elsel false) { st with labelId := st.labelId + 1 }).st st.labelId (Nat.le_refl _)
    have f2 := ihr (setLabelHere (comp l (.bc reg st.labelId elsel false) { st with labelId := st.labelId + 1 }).st st.labelId)
      reg thenl elsel hasnext (by rw [fc.regTop, f1.regTop]; exact htop)
    have fa : Frame st.labelId st { st with labelId := st.labelId + 1 } := frame_newLabel st
    exact (fa.trans (f1.mono (Nat.le_succ _))).trans (fc.trans (f2.mono (by
      have := f1.labelId; have := fc.labelId; simp at *; omega)))
  | or l r ihl ihr =>
    intro st reg thenl elsel hasnext htop
    simp only [comp, newLabel]
    have f1 := ihl { st with labelId := st.labelId + 1 } reg thenl st.labelId true htop
    have fc := frame_setLabelHere (lo := st.labelId) (comp l (.bc reg thenl st.labelId true) { st with labelId := st.labelId + 1 }).st st.labelId (Nat.le_refl _)
    have f2 := ihr (setLabelHere (comp l (.bc reg thenl st.labelId true) { st with labelId := st.labelId + 1 }).st st.labelId)
      reg thenl elsel hasnext (by rw [fc.regTop, f1.regTop]; exact htop)
    have fa : Frame st.labelId st { st with labelId := st.labelId + 1 } := frame_newLabel st
    exact (fa.trans (f1.mono (Nat.le_succ _))).trans (fc.trans (f2.mono (by
      have := f1.labelId; have := fc.labelId; simp at *; omega)))

/-- **compileBranchCondition is correct** for every expression: for every completion `F` of the compile state (the
    emitted code is still there, the labels allocated inside keep their binding), running the label-resolved code from
    the start of the condition's code reaches the then-label when the condition's value is truthy and the else-label
    otherwise (or, for the side that does not jump, the end of the condition's code), with every register below `reg`
    unchanged. -/
theorem bcx_correct (d : Dom V) (hd : d.Lawful) : ∀ (e : Cond)
    (st F : CState) (reg thenl elsel : Nat) (hasnext : Bool) (ρ γ : Nat → V) (v : V),
    st.regTop ≤ reg → LocalsBelow reg e → reg + rh e < 256 → (∀ L, LabelOK F L) →
    eval d ρ γ e = some v →
    (comp e (.bc reg thenl elsel hasnext) st).st.code <+: F.code →
    (comp e (.bc reg thenl elsel hasnext) st).st.consts <+: F.consts →
    (∀ L, st.labelId ≤ L → L < (comp e (.bc reg thenl elsel hasnext) st).st.labelId →
        getLabelPc F L = getLabelPc (comp e (.bc reg thenl elsel hasnext) st).st L) →
    ∃ ρ' pc', Reaches d (P0 F) F.consts ⟨st.code.length, ρ, γ⟩ ⟨pc', ρ', γ⟩ ∧ (∀ x, x < reg → ρ' x = ρ x) ∧
      BranchOut F thenl elsel hasnext (comp e (.bc reg thenl elsel hasnext) st).st.code.length (d.truthy v) pc' := by
  -- the default case: evaluate, TEST, JMP
  have defCase : ∀ (e : Cond) (st F : CState) (reg thenl elsel : Nat) (hasnext : Bool) (ρ γ : Nat → V) (v : V),
      st.regTop ≤ reg → LocalsBelow reg e → reg + rh e < 256 → (∀ L, LabelOK F L) → eval d ρ γ e = some v →
      (bcCode e st reg (flipOf hasnext) (if hasnext then thenl else elsel)).code <+: F.code →
      (bcCode e st reg (flipOf hasnext) (if hasnext then thenl else elsel)).consts <+: F.consts →
      (∀ L, st.labelId ≤ L → L < (bcCode e st reg (flipOf hasnext) (if hasnext then thenl else elsel)).labelId →
        getLabelPc F L = getLabelPc (bcCode e st reg (flipOf hasnext) (if hasnext then thenl else elsel)) L) →
      ∃ ρ' pc', Reaches d (P0 F) F.consts ⟨st.code.length, ρ, γ⟩ ⟨pc', ρ', γ⟩ ∧ (∀ x, x < reg → ρ' x = ρ x) ∧
        BranchOut F thenl elsel hasnext (bcCode e st reg (flipOf hasnext) (if hasnext then thenl else elsel)).code.length (d.truthy v) pc' := by
    intro e st F reg thenl elsel hasnext ρ γ v htop hloc hreg hok hev hF hK hlab
    obtain ⟨ρ', hr, hag⟩ := bcCode_sem d hd e st F reg (flipOf hasnext) (if hasnext then thenl else elsel) ρ γ v htop hloc
      hreg hev (flipOf_cases _) hok hF hK hlab
    exact ⟨ρ', _, hr, hag, branchOut_of_flip F thenl elsel hasnext _ _⟩
  have defK : ∀ e, bcDefaultKind e = true → ∀ (st F : CState) (reg thenl elsel : Nat) (hasnext : Bool) (ρ γ : Nat → V) (v : V),
      st.regTop ≤ reg → LocalsBelow reg e → reg + rh e < 256 → (∀ L, LabelOK F L) → eval d ρ γ e = some v →
      (comp e (.bc reg thenl elsel hasnext) st).st.code <+: F.code →
      (comp e (.bc reg thenl elsel hasnext) st).st.consts <+: F.consts →
      (∀ L, st.labelId ≤ L → L < (comp e (.bc reg thenl elsel hasnext) st).st.labelId →
          getLabelPc F L = getLabelPc (comp e (.bc reg thenl elsel hasnext) st).st L) →
      ∃ ρ' pc', Reaches d (P0 F) F.consts ⟨st.code.length, ρ, γ⟩ ⟨pc', ρ', γ⟩ ∧ (∀ x, x < reg → ρ' x = ρ x) ∧
        BranchOut F thenl elsel hasnext (comp e (.bc reg thenl elsel hasnext) st).st.code.length (d.truthy v) pc' := by
    intro e he st F reg thenl elsel hasnext ρ γ v htop hloc hreg hok hev hF hK hlab
    rw [bc_default_eq e he] at hF hK hlab ⊢
    exact defCase e st F reg thenl elsel hasnext ρ γ v htop hloc hreg hok hev hF hK hlab
  have constT : ∀ e, (e = .tru ∨ (∃ n, e = .num n) ∨ (∃ s, e = .str s)) →
      ∀ (st F : CState) (reg thenl elsel : Nat) (hasnext : Bool) (ρ γ : Nat → V) (v : V),
      st.regTop ≤ reg → LocalsBelow reg e → reg + rh e < 256 → (∀ L, LabelOK F L) → eval d ρ γ e = some v →
      (comp e (.bc reg thenl elsel hasnext) st).st.code <+: F.code →
      (comp e (.bc reg thenl elsel hasnext) st).st.consts <+: F.consts →
      (∀ L, st.labelId ≤ L → L < (comp e (.bc reg thenl elsel hasnext) st).st.labelId →
          getLabelPc F L = getLabelPc (comp e (.bc reg thenl elsel hasnext) st).st L) →
      ∃ ρ' pc', Reaches d (P0 F) F.consts ⟨st.code.length, ρ, γ⟩ ⟨pc', ρ', γ⟩ ∧ (∀ x, x < reg → ρ' x = ρ x) ∧
        BranchOut F thenl elsel hasnext (comp e (.bc reg thenl elsel hasnext) st).st.code.length (d.truthy v) pc' := by
    intro e he st F reg thenl elsel hasnext ρ γ v htop hloc hreg hok hev hF hK hlab
    obtain ⟨h1, h2⟩ := bc_const_true e st reg thenl elsel he
    cases hasnext
    · rw [h1]
      have htv : d.truthy v = true := by
        rcases he with rfl | ⟨n, rfl⟩ | ⟨s, rfl⟩ <;> simp only [eval, Option.some.injEq] at hev <;> subst hev
        · exact hd.true_truthy
        · exact hd.num_truthy _
        · exact hd.str_truthy _
      exact ⟨ρ, _, .refl _, fun _ _ => rfl, by simp [BranchOut, htv]⟩
    · rw [h2] at hF hK hlab ⊢
      exact defCase e st F reg thenl elsel true ρ γ v htop hloc hreg hok hev hF hK hlab
  have constF : ∀ e, (e = .fls ∨ e = .nil) →
      ∀ (st F : CState) (reg thenl elsel : Nat) (hasnext : Bool) (ρ γ : Nat → V) (v : V),
      st.regTop ≤ reg → LocalsBelow reg e → reg + rh e < 256 → (∀ L, LabelOK F L) → eval d ρ γ e = some v →
      (comp e (.bc reg thenl elsel hasnext) st).st.code <+: F.code →
      (comp e (.bc reg thenl elsel hasnext) st).st.consts <+: F.consts →
      (∀ L, st.labelId ≤ L → L < (comp e (.bc reg thenl elsel hasnext) st).st.labelId →
          getLabelPc F L = getLabelPc (comp e (.bc reg thenl elsel hasnext) st).st L) →
      ∃ ρ' pc', Reaches d (P0 F) F.consts ⟨st.code.length, ρ, γ⟩ ⟨pc', ρ', γ⟩ ∧ (∀ x, x < reg → ρ' x = ρ x) ∧
        BranchOut F thenl elsel hasnext (comp e (.bc reg thenl elsel hasnext) st).st.code.length (d.truthy v) pc' := by
    intro e he st F reg thenl elsel hasnext ρ γ v htop hloc hreg hok hev hF hK hlab
    obtain ⟨h1, h2⟩ := bc_const_false e st reg thenl elsel he
    cases hasnext
    · rw [h1] at hF ⊢
      have htv : d.truthy v = false := by
        rcases he with rfl | rfl <;> simp only [eval, Option.some.injEq] at hev <;> subst hev
        · exact hd.false_falsy
        · exact hd.nil_falsy
      have hc : F.code[st.code.length]? = some (.jmp (elsel : Int)) := code_at_end rfl hF
      exact ⟨ρ, _, .single (step_jmp hc (hok elsel)), fun _ _ => rfl, by simp [BranchOut, htv]⟩
    · rw [h2] at hF hK hlab ⊢
      exact defCase e st F reg thenl elsel true ρ γ v htop hloc hreg hok hev hF hK hlab
  intro e
  induction e with
  | tru => exact constT _ (Or.inl rfl)
  | num n => exact constT _ (Or.inr (Or.inl ⟨n, rfl⟩))
  | str s => exact constT _ (Or.inr (Or.inr ⟨s, rfl⟩))
  | fls => exact constF _ (Or.inl rfl)
  | nil => exact constF _ (Or.inr rfl)
  | loc r => exact defK _ rfl
  | ev id => exact defK _ rfl
  | arith op l r _ _ => exact defK _ rfl
  | unm c _ => exact defK _ rfl
  | len c _ => exact defK _ rfl
  | concat l r _ _ => exact defK _ rfl
  | not c ih =>
    intro st F reg thenl elsel hasnext ρ γ v htop hloc hreg hok hev hF hK hlab
    simp only [comp] at hF hK hlab ⊢
    simp only [eval, Option.map_eq_some_iff] at hev
    obtain ⟨vc, hvc, rfl⟩ := hev
    obtain ⟨ρ', pc', hr, hag, hbo⟩ := ih st F reg elsel thenl (!hasnext) ρ γ vc htop hloc hreg hok hvc hF hK hlab
    refine ⟨ρ', pc', hr, hag, ?_⟩
    have : d.truthy (if d.truthy vc = true then d.falseV else d.trueV) = !d.truthy vc := by
      cases h : d.truthy vc <;> simp [hd.true_truthy, hd.false_falsy]
    rw [this]
    exact hbo.swap
  | rel op l r _ _ =>
    intro st F reg thenl elsel hasnext ρ γ v htop hloc hreg hok hev hF hK hlab
    have hcomp : (comp (.rel op l r) (.bc reg thenl elsel hasnext) st).st =
        relCode op l r st reg (flipOf hasnext) (if hasnext then thenl else elsel) := by
      simp only [comp, relAux_eq]; rfl
    rw [hcomp] at hF hK hlab ⊢
    simp only [LocalsBelow] at hloc
    simp only [rh] at hreg
    obtain ⟨ρ', hr, hag⟩ := relCode_sem d hd op l r (comp_frame l).1 (comp_frame r).1 (value_main d hd l).1 (value_main d hd r).1
      st F reg (flipOf hasnext) (if hasnext then thenl else elsel) ρ γ v htop hloc.1 hloc.2 hreg hev (flipOf_cases _) hok hF hK hlab
    exact ⟨ρ', _, hr, hag, branchOut_of_flip F thenl elsel hasnext _ _⟩
  | and l r ihl ihr =>
    intro st F reg thenl elsel hasnext ρ γ v htop hloc hreg hok hev hF hK hlab
    have hLt := hok thenl
    have hLe := hok elsel
    simp only [rh] at hreg
    simp only [LocalsBelow] at hloc
    simp only [comp, newLabel] at hF hK hlab ⊢
    -- names
    generalize hsta : ({ st with labelId := st.labelId + 1 } : CState) = sta at hF hK hlab ⊢
    have hsta_id : sta.labelId = st.labelId + 1 := by subst hsta; rfl
    have hsta_code : sta.code = st.code := by subst hsta; rfl
    have hsta_top : sta.regTop = st.regTop := by subst hsta; rfl
    generalize hr1 : (comp l (.bc reg st.labelId elsel false) sta).st = s1 at hF hK hlab ⊢
    have f1 : Frame sta.labelId sta s1 := by rw [← hr1]; exact bcx_frame l sta reg _ _ _ (by rw [hsta_top]; exact htop)
    generalize hsc : setLabelHere s1 st.labelId = sc at hF hK hlab ⊢
    have fc : Frame st.labelId s1 sc := by rw [← hsc]; exact frame_setLabelHere _ _ (Nat.le_refl _)
    have hsc_code : sc.code = s1.code := by subst hsc; rfl
    have hsc_id : sc.labelId = s1.labelId := by subst hsc; rfl
    have hsc_top : sc.regTop = st.regTop := by rw [fc.regTop, f1.regTop, hsta_top]
    generalize hs2 : (comp r (.bc reg thenl elsel hasnext) sc).st = s2 at hF hK hlab ⊢
    have f2 : Frame sc.labelId sc s2 := by rw [← hs2]; exact bcx_frame r sc reg _ _ _ (by rw [hsc_top]; exact htop)
    have hid1 : st.labelId + 1 ≤ s1.labelId := by rw [← hsta_id]; exact f1.labelId
    have hid2 : s1.labelId ≤ s2.labelId := by rw [← hsc_id]; exact f2.labelId
    -- the binding of nextcondlabel in F
    have hnl : getLabelPc F st.labelId = (s1.code.length : Int) - 1 := by
      rw [hlab st.labelId (Nat.le_refl _) (by omega), f2.labels st.labelId (by omega), ← hsc]
      exact getLabelPc_setLabelHere_same _ _
    have hnlOK : LabelOK F st.labelId := by unfold LabelOK; omega
    have htgt : tgt F st.labelId = s1.code.length := by unfold tgt; rw [hnl]; omega
    -- value of the left operand
    simp only [eval] at hev
    cases hvl : eval d ρ γ l with
    | none => simp [hvl] at hev
    | some vl =>
      simp only [hvl] at hev
      -- run the left operand
      have hlabL : ∀ L, sta.labelId ≤ L → L < s1.labelId → getLabelPc F L = getLabelPc s1 L := by
        intro L h1 h2
        rw [hlab L (by omega) (by omega), f2.labels L (by omega), ← hsc, getLabelPc_setLabelHere_other _ (by omega)]
      obtain ⟨ρ1, pc1, hreach1, hag1, hbo1⟩ := ihl sta F reg st.labelId elsel false ρ γ vl (by rw [hsta_top]; exact htop)
        hloc.1 (by omega) hok hvl (by rw [hr1]; exact (fc.code.trans f2.code).trans hF)
        (by rw [hr1]; exact (fc.consts.trans f2.consts).trans hK) (by rw [hr1]; exact hlabL)
      rw [hsta_code] at hreach1
      rw [hr1] at hbo1
      cases htl : d.truthy vl with
      | false =>
        -- the whole conjunction is the (falsy) left value: control is at the else label
        simp only [htl] at hev
        cases hev
        refine ⟨ρ1, pc1, hreach1, hag1, ?_⟩
        rw [htl] at hbo1 ⊢
        have := hbo1.2 rfl
        unfold BranchOut
        refine ⟨fun h => Bool.noConfusion h, fun _ => ?_⟩
        rcases this with h | ⟨h, _⟩
        · exact Or.inl h
        · exact Bool.noConfusion h
      | true =>
        simp only [htl, if_true] at hev
        rw [htl] at hbo1
        have hpc1 : pc1 = s1.code.length := by
          rcases hbo1.1 rfl with h | ⟨_, h⟩
          · rw [h, htgt]
          · exact h
        subst hpc1
        -- run the right operand from there
        have hevr : eval d ρ1 γ r = some v := by rw [eval_congr d hag1 r hloc.2]; exact hev
        obtain ⟨ρ2, pc2, hreach2, hag2, hbo2⟩ := ihr sc F reg thenl elsel hasnext ρ1 γ v (by rw [hsc_top]; exact htop)
          hloc.2 (by omega) hok hevr (by rw [hs2]; exact hF) (by rw [hs2]; exact hK)
          (by rw [hs2]; intro L h1 h2; exact hlab L (by omega) h2)
        rw [hsc_code] at hreach2
        rw [hs2] at hbo2
        exact ⟨ρ2, pc2, hreach1.trans hreach2, fun x hx => by rw [hag2 x hx, hag1 x hx], hbo2⟩
  | or l r ihl ihr =>
    intro st F reg thenl elsel hasnext ρ γ v htop hloc hreg hok hev hF hK hlab
    have hLt := hok thenl
    have hLe := hok elsel
    simp only [rh] at hreg
    simp only [LocalsBelow] at hloc
    simp only [comp, newLabel] at hF hK hlab ⊢
    generalize hsta : ({ st with labelId := st.labelId + 1 } : CState) = sta at hF hK hlab ⊢
    have hsta_id : sta.labelId = st.labelId + 1 := by subst hsta; rfl
    have hsta_code : sta.code = st.code := by subst hsta; rfl
    have hsta_top : sta.regTop = st.regTop := by subst hsta; rfl
    generalize hr1 : (comp l (.bc reg thenl st.labelId true) sta).st = s1 at hF hK hlab ⊢
    have f1 : Frame sta.labelId sta s1 := by rw [← hr1]; exact bcx_frame l sta reg _ _ _ (by rw [hsta_top]; exact htop)
    generalize hsc : setLabelHere s1 st.labelId = sc at hF hK hlab ⊢
    have fc : Frame st.labelId s1 sc := by rw [← hsc]; exact frame_setLabelHere _ _ (Nat.le_refl _)
    have hsc_code : sc.code = s1.code := by subst hsc; rfl
    have hsc_id : sc.labelId = s1.labelId := by subst hsc; rfl
    have hsc_top : sc.regTop = st.regTop := by rw [fc.regTop, f1.regTop, hsta_top]
    generalize hs2 : (comp r (.bc reg thenl elsel hasnext) sc).st = s2 at hF hK hlab ⊢
    have f2 : Frame sc.labelId sc s2 := by rw [← hs2]; exact bcx_frame r sc reg _ _ _ (by rw [hsc_top]; exact htop)
    have hid1 : st.labelId + 1 ≤ s1.labelId := by rw [← hsta_id]; exact f1.labelId
    have hid2 : s1.labelId ≤ s2.labelId := by rw [← hsc_id]; exact f2.labelId
    have hnl : getLabelPc F st.labelId = (s1.code.length : Int) - 1 := by
      rw [hlab st.labelId (Nat.le_refl _) (by omega), f2.labels st.labelId (by omega), ← hsc]
      exact getLabelPc_setLabelHere_same _ _
    have hnlOK : LabelOK F st.labelId := by unfold LabelOK; omega
    have htgt : tgt F st.labelId = s1.code.length := by unfold tgt; rw [hnl]; omega
    simp only [eval] at hev
    cases hvl : eval d ρ γ l with
    | none => simp [hvl] at hev
    | some vl =>
      simp only [hvl] at hev
      have hlabL : ∀ L, sta.labelId ≤ L → L < s1.labelId → getLabelPc F L = getLabelPc s1 L := by
        intro L h1 h2
        rw [hlab L (by omega) (by omega), f2.labels L (by omega), ← hsc, getLabelPc_setLabelHere_other _ (by omega)]
      obtain ⟨ρ1, pc1, hreach1, hag1, hbo1⟩ := ihl sta F reg thenl st.labelId true ρ γ vl (by rw [hsta_top]; exact htop)
        hloc.1 (by omega) hok hvl (by rw [hr1]; exact (fc.code.trans f2.code).trans hF)
        (by rw [hr1]; exact (fc.consts.trans f2.consts).trans hK) (by rw [hr1]; exact hlabL)
      rw [hsta_code] at hreach1
      rw [hr1] at hbo1
      cases htl : d.truthy vl with
      | true =>
        simp only [htl, if_true] at hev
        cases hev
        refine ⟨ρ1, pc1, hreach1, hag1, ?_⟩
        rw [htl] at hbo1 ⊢
        have := hbo1.1 rfl
        unfold BranchOut
        refine ⟨fun _ => ?_, fun h => Bool.noConfusion h⟩
        rcases this with h | ⟨h, _⟩
        · exact Or.inl h
        · exact Bool.noConfusion h
      | false =>
        simp only [htl] at hev
        rw [htl] at hbo1
        have hpc1 : pc1 = s1.code.length := by
          rcases hbo1.2 rfl with h | ⟨_, h⟩
          · rw [h, htgt]
          · exact h
        subst hpc1
        have hevr : eval d ρ1 γ r = some v := by rw [eval_congr d hag1 r hloc.2]; simpa using hev
        obtain ⟨ρ2, pc2, hreach2, hag2, hbo2⟩ := ihr sc F reg thenl elsel hasnext ρ1 γ v (by rw [hsc_top]; exact htop)
          hloc.2 (by omega) hok hevr (by rw [hs2]; exact hF) (by rw [hs2]; exact hK)
          (by rw [hs2]; intro L h1 h2; exact hlab L (by omega) h2)
        rw [hsc_code] at hreach2
        rw [hs2] at hbo2
        exact ⟨ρ2, pc2, hreach1.trans hreach2, fun x hx => by rw [hag2 x hx, hag1 x hx], hbo2⟩

