/-
  The ORIGINAL branch-context theorem, kept with its original hypotheses: `compileBranchCondition` on the fragment
  `BCFrag` (and / or / not, relational operators whose operands are LEAVES, leaves).  It needs `LabelOK` only for the
  two outer labels (the general theorem `bcx_correct` of LoweringBC.lean covers every expression and asks for all
  label bindings of the final store to be ≥ -1, which every store built by the compiler satisfies).
-/
import GLua.Proofs.Lowering

namespace GLua.Lowering
open GLua.Compile GLua.MiniVM GLua.CondSpec

variable [NumStruct]
set_option linter.unusedSectionVars false
variable {V : Type}

/-- the code `compileRelationalOpExprAux` emits for two leaf operands. -/
def relLeaf (l r : Cond) (st : CState) (reg : Nat) (op : RelOp) (flip L : Nat) : CState :=
  let o1 := opnd true l reg st
  let o2 := opnd true r o1.2.2 o1.1
  emit (emit o2.1 (relInstr op flip o1.2.1 o2.2.1)) (.jmp L)

theorem relAux_leaf (l r : Cond) (hl : isLeaf l = true) (hr : isLeaf r = true) (st : CState) (reg : Nat) (op : RelOp) (flip L : Nat) :
    relAux (fun s g => comp l (.expr g ecnone0) s) (fun s g => comp r (.expr g ecnone0) s)
      l.isLogical r.isLogical st reg op flip L = relLeaf l r st reg op flip L := by
  simp only [relAux, binOperands, relLeaf, opnd, comp_leaf_expr l hl, comp_leaf_expr r hr, isLogical_leaf l hl, isLogical_leaf r hr]

theorem opnd_reg_le (kmv : Bool) (l : Cond) (hl : isLeaf l = true) (reg : Nat) (st : CState) (htop : st.regTop ≤ reg) :
    reg ≤ (opnd kmv l reg st).2.2 := by
  cases l <;> simp [isLeaf] at hl <;>
    simp [opnd_tru, opnd_fls, opnd_nil, opnd_loc _ _ _ _ htop, opnd_ev, opnd_num, opnd_str] <;> split <;> simp

theorem relLeaf_frame {lo : Nat} (l r : Cond) (hl : isLeaf l = true) (hr : isLeaf r = true) (st : CState) (reg : Nat) (op : RelOp)
    (flip L : Nat) (htop : st.regTop ≤ reg) : Frame lo st (relLeaf l r st reg op flip L) := by
  have f1 := opnd_frame (lo := lo) true l reg st hl htop
  have hle := opnd_reg_le true l hl reg st htop
  have f2 := opnd_frame (lo := lo) true r (opnd true l reg st).2.2 (opnd true l reg st).1 hr (by rw [f1.regTop]; omega)
  exact (f1.trans f2).trans ((frame_emit _ _).trans (frame_emit _ _))

theorem relLeaf_sem (d : Dom V) (hd : d.Lawful) (l r : Cond) (hl : isLeaf l = true) (hr : isLeaf r = true)
    (st F : CState) (reg : Nat) (op : RelOp) (flip L : Nat) (ρ γ : Nat → V) (v : V)
    (htop : st.regTop ≤ reg) (hll : LocalsBelow reg l) (hlr : LocalsBelow reg r) (hreg : reg + 1 < 256)
    (hev : eval d ρ γ (.rel op l r) = some v) (hflip : flip = 0 ∨ flip = 1)
    (hF : (relLeaf l r st reg op flip L).code <+: F.code) (hK : (relLeaf l r st reg op flip L).consts <+: F.consts)
    (hL : LabelOK F L) :
    ∃ ρ', Reaches d (P0 F) F.consts ⟨st.code.length, ρ, γ⟩
        ⟨if d.truthy v = decide (flip = 1) then tgt F L else (relLeaf l r st reg op flip L).code.length, ρ', γ⟩ ∧
      ∀ x, x < reg → ρ' x = ρ x := by
  -- the three values
  simp only [eval] at hev
  cases hx : eval d ρ γ l with
  | none => simp [hx] at hev
  | some x =>
    cases hy : eval d ρ γ r with
    | none => simp [hx, hy] at hev
    | some y =>
      simp only [hx, hy] at hev
      have f1 := opnd_frame (lo := 0) true l reg st hl htop
      have hle0 := opnd_reg_le true l hl reg st htop
      obtain ⟨ρ1, hr1, hag1, hrk1, hst1, hle1, hle1', -⟩ := opnd_sem d true l reg st F ρ γ x hl htop hll (by omega) hx
        (by
          have f2 := opnd_frame (lo := 0) true r (opnd true l reg st).2.2 (opnd true l reg st).1 hr (by rw [f1.regTop]; omega)
          exact f2.code.trans (List.IsPrefix.trans (by simp [relLeaf]) hF))
        (by
          have f2 := opnd_frame (lo := 0) true r (opnd true l reg st).2.2 (opnd true l reg st).1 hr (by rw [f1.regTop]; omega)
          exact f2.consts.trans (List.IsPrefix.trans (by simp [relLeaf]) hK))
      have hy1 : eval d ρ1 γ r = some y := by
        rw [eval_congr d (n := reg) (fun x hx => hag1 x (by omega)) r hlr, hy]
      obtain ⟨ρ2, hr2, hag2, hrk2, -, -, -, -⟩ := opnd_sem d true r (opnd true l reg st).2.2 (opnd true l reg st).1 F ρ1 γ y hr
        (by rw [f1.regTop]; omega) (LocalsBelow.mono hle1 r hlr) (by omega) hy1
        (List.IsPrefix.trans (by simp [relLeaf]) hF) (List.IsPrefix.trans (by simp [relLeaf]) hK)
      have hrk1' : rkValue d F.consts ρ2 (opnd true l reg st).2.1 = some x := by
        rw [rk_congr d (ρ1 := ρ1)]
        · exact hrk1
        · intro h256
          apply hag2
          rcases hst1 with h | h <;> omega
      -- the comparison and the jump
      have hc1 : F.code[(opnd true r (opnd true l reg st).2.2 (opnd true l reg st).1).1.code.length]? =
          some (relInstr op flip (opnd true l reg st).2.1 (opnd true r (opnd true l reg st).2.2 (opnd true l reg st).1).2.1) := by
        apply prefix_get_some hF; simp [relLeaf]
      have hc2 : F.code[(opnd true r (opnd true l reg st).2.2 (opnd true l reg st).1).1.code.length + 1]? = some (.jmp (L : Int)) := by
        apply prefix_get_some hF; simp [relLeaf]
      have hfin := rel_jmp_sem d hd (γ := γ) hc1 hc2 hL hflip hrk1' hrk2 hev
      refine ⟨ρ2, ?_, ?_⟩
      · have hlen : (relLeaf l r st reg op flip L).code.length =
            (opnd true r (opnd true l reg st).2.2 (opnd true l reg st).1).1.code.length + 2 := by simp [relLeaf]
        rw [hlen]
        exact (hr1.trans hr2).trans hfin
      · intro x hx
        rw [hag2 x (by omega), hag1 x (by omega)]


/-! ### default case of compileBranchCondition on a leaf: operand, TEST, JMP -/

def bcLeaf (e : Cond) (st : CState) (reg flip L : Nat) : CState :=
  emit (emit (opnd false e reg st).1 (.test (opnd false e reg st).2.1 0 flip)) (.jmp L)

theorem bcDefault_leaf (e : Cond) (st : CState) (reg flip L : Nat) :
    (bcDefault (leafExpr e reg ecnone0 st) reg flip L).st = bcLeaf e st reg flip L := by
  simp only [bcDefault, bcLeaf, opnd]

theorem bcLeaf_frame {lo : Nat} (e : Cond) (he : isLeaf e = true) (st : CState) (reg flip L : Nat) (htop : st.regTop ≤ reg) :
    Frame lo st (bcLeaf e st reg flip L) :=
  (opnd_frame false e reg st he htop).trans ((frame_emit _ _).trans (frame_emit _ _))

theorem bcLeaf_sem (d : Dom V) (e : Cond) (he : isLeaf e = true) (st F : CState) (reg flip L : Nat) (ρ γ : Nat → V) (v : V)
    (htop : st.regTop ≤ reg) (hloc : LocalsBelow reg e) (hreg : reg < 256) (hev : eval d ρ γ e = some v)
    (hflip : flip = 0 ∨ flip = 1)
    (hF : (bcLeaf e st reg flip L).code <+: F.code) (hK : (bcLeaf e st reg flip L).consts <+: F.consts) (hL : LabelOK F L) :
    ∃ ρ', Reaches d (P0 F) F.consts ⟨st.code.length, ρ, γ⟩
        ⟨if d.truthy v = decide (flip = 1) then tgt F L else (bcLeaf e st reg flip L).code.length, ρ', γ⟩ ∧
      ∀ x, x < reg → ρ' x = ρ x := by
  obtain ⟨ρ1, hr1, hag1, hrk1, -, -, -, h256⟩ := opnd_sem d false e reg st F ρ γ v he htop hloc hreg hev
    (List.IsPrefix.trans (by simp [bcLeaf]) hF) (List.IsPrefix.trans (by simp [bcLeaf]) hK)
  have hv : ρ1 (opnd false e reg st).2.1 = v := by
    rw [rk_reg (h256 rfl)] at hrk1; exact Option.some.inj hrk1
  have hc1 : F.code[(opnd false e reg st).1.code.length]? = some (.test (opnd false e reg st).2.1 0 flip) := by
    apply prefix_get_some hF; simp [bcLeaf]
  have hc2 : F.code[(opnd false e reg st).1.code.length + 1]? = some (.jmp (L : Int)) := by
    apply prefix_get_some hF; simp [bcLeaf]
  have hfin := test_jmp_sem d (ρ := ρ1) (γ := γ) hc1 hc2 hL hflip
  rw [hv] at hfin
  refine ⟨ρ1, ?_, fun x hx => hag1 x (by omega)⟩
  have hlen : (bcLeaf e st reg flip L).code.length = (opnd false e reg st).1.code.length + 2 := by simp [bcLeaf]
  rw [hlen]
  exact hr1.trans hfin

/-! ### compileBranchCondition on the original fragment -/

theorem bc_frame : ∀ (e : Cond), BCFrag e → ∀ (st : CState) (reg thenl elsel : Nat) (hasnext : Bool),
    st.regTop ≤ reg → Frame st.labelId st (comp e (.bc reg thenl elsel hasnext) st).st := by
  intro e
  induction e with
  | tru => intro _ st reg thenl elsel hasnext htop
           cases hasnext <;> simp only [comp, bcDefault_leaf] <;> first | exact Frame.refl _ | exact bcLeaf_frame _ rfl _ _ _ _ htop
  | num n => intro _ st reg thenl elsel hasnext htop
             cases hasnext <;> simp only [comp, bcDefault_leaf] <;> first | exact Frame.refl _ | exact bcLeaf_frame _ rfl _ _ _ _ htop
  | str s => intro _ st reg thenl elsel hasnext htop
             cases hasnext <;> simp only [comp, bcDefault_leaf] <;> first | exact Frame.refl _ | exact bcLeaf_frame _ rfl _ _ _ _ htop
  | fls => intro _ st reg thenl elsel hasnext htop
           cases hasnext <;> simp only [comp, bcDefault_leaf] <;> first | exact frame_emit _ _ | exact bcLeaf_frame _ rfl _ _ _ _ htop
  | nil => intro _ st reg thenl elsel hasnext htop
           cases hasnext <;> simp only [comp, bcDefault_leaf] <;> first | exact frame_emit _ _ | exact bcLeaf_frame _ rfl _ _ _ _ htop
  | loc r => intro _ st reg thenl elsel hasnext htop
             simp only [comp, bcDefault_leaf]; exact bcLeaf_frame _ rfl _ _ _ _ htop
  | ev id => intro _ st reg thenl elsel hasnext htop
             simp only [comp, bcDefault_leaf]; exact bcLeaf_frame _ rfl _ _ _ _ htop
  | arith op l r _ _ => intro hf; exact hf.elim
  | unm c _ => intro hf; exact hf.elim
  | len c _ => intro hf; exact hf.elim
  | concat l r _ _ => intro hf; exact hf.elim
  | not c ih => intro hf st reg thenl elsel hasnext htop
                simp only [comp]; exact ih hf st reg elsel thenl (!hasnext) htop
  | and l r ihl ihr =>
    intro hf st reg thenl elsel hasnext htop
    simp only [comp, newLabel]
    have f1 := ihl hf.1 { st with labelId := st.labelId + 1 } reg st.labelId elsel false htop
    have fc := frame_setLabelHere (lo := st.labelId) (comp l (.bc reg st.labelId elsel false) { st with labelId := st.labelId + 1 }).st st.labelId (Nat.le_refl _)
    have f2 := ihr hf.2 (setLabelHere (comp l (.bc reg st.labelId elsel false) { st with labelId := st.labelId + 1 }).st st.labelId)
      reg thenl elsel hasnext (by rw [fc.regTop, f1.regTop]; exact htop)
    have fa : Frame st.labelId st { st with labelId := st.labelId + 1 } := frame_newLabel st
    exact (fa.trans (f1.mono (Nat.le_succ _))).trans (fc.trans (f2.mono (by
      have := f1.labelId; have := fc.labelId; simp at *; omega)))
  | or l r ihl ihr =>
    intro hf st reg thenl elsel hasnext htop
    simp only [comp, newLabel]
    have f1 := ihl hf.1 { st with labelId := st.labelId + 1 } reg thenl st.labelId true htop
    have fc := frame_setLabelHere (lo := st.labelId) (comp l (.bc reg thenl st.labelId true) { st with labelId := st.labelId + 1 }).st st.labelId (Nat.le_refl _)
    have f2 := ihr hf.2 (setLabelHere (comp l (.bc reg thenl st.labelId true) { st with labelId := st.labelId + 1 }).st st.labelId)
      reg thenl elsel hasnext (by rw [fc.regTop, f1.regTop]; exact htop)
    have fa : Frame st.labelId st { st with labelId := st.labelId + 1 } := frame_newLabel st
    exact (fa.trans (f1.mono (Nat.le_succ _))).trans (fc.trans (f2.mono (by
      have := f1.labelId; have := fc.labelId; simp at *; omega)))
  | rel op l r _ _ =>
    intro hf st reg thenl elsel hasnext htop
    simp only [comp, relAux_leaf l r hf.1 hf.2]
    exact relLeaf_frame l r hf.1 hf.2 st reg op _ _ htop


/-- **compileBranchCondition is correct** on the branch-context fragment: for every completion `F` of the compile
    state (the emitted code is still there, the labels allocated inside keep their binding), running the
    label-resolved code from the start of the condition's code reaches the then-label when the condition's value
    is truthy and the else-label otherwise (or, for the side that does not jump, the end of the condition's code),
    with every register below `reg` unchanged. -/
theorem bc_correct (d : Dom V) (hd : d.Lawful) : ∀ (e : Cond), BCFrag e →
    ∀ (st F : CState) (reg thenl elsel : Nat) (hasnext : Bool) (ρ γ : Nat → V) (v : V),
    st.regTop ≤ reg → LocalsBelow reg e → reg + 1 < 256 →
    LabelOK F thenl → LabelOK F elsel →
    eval d ρ γ e = some v →
    (comp e (.bc reg thenl elsel hasnext) st).st.code <+: F.code →
    (comp e (.bc reg thenl elsel hasnext) st).st.consts <+: F.consts →
    (∀ L, st.labelId ≤ L → L < (comp e (.bc reg thenl elsel hasnext) st).st.labelId →
        getLabelPc F L = getLabelPc (comp e (.bc reg thenl elsel hasnext) st).st L) →
    ∃ ρ' pc', Reaches d (P0 F) F.consts ⟨st.code.length, ρ, γ⟩ ⟨pc', ρ', γ⟩ ∧ (∀ x, x < reg → ρ' x = ρ x) ∧
      BranchOut F thenl elsel hasnext (comp e (.bc reg thenl elsel hasnext) st).st.code.length (d.truthy v) pc' := by
  -- leaves compiled by the default case
  have leafCase : ∀ (e : Cond), isLeaf e = true → ∀ (st F : CState) (reg thenl elsel : Nat) (hasnext : Bool) (ρ γ : Nat → V) (v : V),
      st.regTop ≤ reg → LocalsBelow reg e → reg + 1 < 256 → LabelOK F thenl → LabelOK F elsel → eval d ρ γ e = some v →
      (bcLeaf e st reg (flipOf hasnext) (if hasnext then thenl else elsel)).code <+: F.code →
      (bcLeaf e st reg (flipOf hasnext) (if hasnext then thenl else elsel)).consts <+: F.consts →
      ∃ ρ' pc', Reaches d (P0 F) F.consts ⟨st.code.length, ρ, γ⟩ ⟨pc', ρ', γ⟩ ∧ (∀ x, x < reg → ρ' x = ρ x) ∧
        BranchOut F thenl elsel hasnext (bcLeaf e st reg (flipOf hasnext) (if hasnext then thenl else elsel)).code.length (d.truthy v) pc' := by
    intro e he st F reg thenl elsel hasnext ρ γ v htop hloc hreg hLt hLe hev hF hK
    obtain ⟨ρ', hr, hag⟩ := bcLeaf_sem d e he st F reg (flipOf hasnext) (if hasnext then thenl else elsel) ρ γ v htop hloc
      (by omega) hev (flipOf_cases _) hF hK (by cases hasnext <;> simp [hLt, hLe])
    exact ⟨ρ', _, hr, hag, branchOut_of_flip F thenl elsel hasnext _ _⟩
  intro e
  induction e with
  | loc r =>
    intro _ st F reg thenl elsel hasnext ρ γ v htop hloc hreg hLt hLe hev hF hK _
    simp only [comp, bcDefault_leaf] at hF hK ⊢
    exact leafCase (.loc r) rfl st F reg thenl elsel hasnext ρ γ v htop hloc hreg hLt hLe hev hF hK
  | ev id =>
    intro _ st F reg thenl elsel hasnext ρ γ v htop hloc hreg hLt hLe hev hF hK _
    simp only [comp, bcDefault_leaf] at hF hK ⊢
    exact leafCase (.ev id) rfl st F reg thenl elsel hasnext ρ γ v htop hloc hreg hLt hLe hev hF hK
  | tru =>
    intro _ st F reg thenl elsel hasnext ρ γ v htop hloc hreg hLt hLe hev hF hK _
    cases hasnext
    · simp only [comp, if_true] at hF hK ⊢
      simp only [eval, Option.some.injEq] at hev; subst hev
      exact ⟨ρ, _, .refl _, fun _ _ => rfl, by simp [BranchOut, hd.true_truthy]⟩
    · simp only [comp, bcDefault_leaf] at hF hK ⊢
      exact leafCase .tru rfl st F reg thenl elsel true ρ γ v htop hloc hreg hLt hLe hev hF hK
  | num n =>
    intro _ st F reg thenl elsel hasnext ρ γ v htop hloc hreg hLt hLe hev hF hK _
    cases hasnext
    · simp only [comp, if_true] at hF hK ⊢
      simp only [eval, Option.some.injEq] at hev; subst hev
      exact ⟨ρ, _, .refl _, fun _ _ => rfl, by simp [BranchOut, hd.num_truthy]⟩
    · simp only [comp, bcDefault_leaf] at hF hK ⊢
      exact leafCase (.num n) rfl st F reg thenl elsel true ρ γ v htop hloc hreg hLt hLe hev hF hK
  | str s =>
    intro _ st F reg thenl elsel hasnext ρ γ v htop hloc hreg hLt hLe hev hF hK _
    cases hasnext
    · simp only [comp, if_true] at hF hK ⊢
      simp only [eval, Option.some.injEq] at hev; subst hev
      exact ⟨ρ, _, .refl _, fun _ _ => rfl, by simp [BranchOut, hd.str_truthy]⟩
    · simp only [comp, bcDefault_leaf] at hF hK ⊢
      exact leafCase (.str s) rfl st F reg thenl elsel true ρ γ v htop hloc hreg hLt hLe hev hF hK
  | fls =>
    intro _ st F reg thenl elsel hasnext ρ γ v htop hloc hreg hLt hLe hev hF hK _
    cases hasnext
    · simp only [comp, if_true] at hF hK ⊢
      simp only [eval, Option.some.injEq] at hev; subst hev
      have hc : F.code[st.code.length]? = some (.jmp (elsel : Int)) := code_at_end rfl hF
      exact ⟨ρ, _, .single (step_jmp hc hLe), fun _ _ => rfl, by simp [BranchOut, hd.false_falsy]⟩
    · simp only [comp, bcDefault_leaf] at hF hK ⊢
      exact leafCase .fls rfl st F reg thenl elsel true ρ γ v htop hloc hreg hLt hLe hev hF hK
  | nil =>
    intro _ st F reg thenl elsel hasnext ρ γ v htop hloc hreg hLt hLe hev hF hK _
    cases hasnext
    · simp only [comp, if_true] at hF hK ⊢
      simp only [eval, Option.some.injEq] at hev; subst hev
      have hc : F.code[st.code.length]? = some (.jmp (elsel : Int)) := code_at_end rfl hF
      exact ⟨ρ, _, .single (step_jmp hc hLe), fun _ _ => rfl, by simp [BranchOut, hd.nil_falsy]⟩
    · simp only [comp, bcDefault_leaf] at hF hK ⊢
      exact leafCase .nil rfl st F reg thenl elsel true ρ γ v htop hloc hreg hLt hLe hev hF hK
  | arith op l r _ _ => intro hf; exact hf.elim
  | unm c _ => intro hf; exact hf.elim
  | len c _ => intro hf; exact hf.elim
  | concat l r _ _ => intro hf; exact hf.elim
  | not c ih =>
    intro hf st F reg thenl elsel hasnext ρ γ v htop hloc hreg hLt hLe hev hF hK hlab
    simp only [comp] at hF hK hlab ⊢
    simp only [eval, Option.map_eq_some_iff] at hev
    obtain ⟨vc, hvc, rfl⟩ := hev
    obtain ⟨ρ', pc', hr, hag, hbo⟩ := ih hf st F reg elsel thenl (!hasnext) ρ γ vc htop hloc hreg hLe hLt hvc hF hK hlab
    refine ⟨ρ', pc', hr, hag, ?_⟩
    have : d.truthy (if d.truthy vc = true then d.falseV else d.trueV) = !d.truthy vc := by
      cases h : d.truthy vc <;> simp [hd.true_truthy, hd.false_falsy]
    rw [this]
    exact hbo.swap
  | rel op l r _ _ =>
    intro hf st F reg thenl elsel hasnext ρ γ v htop hloc hreg hLt hLe hev hF hK _
    simp only [comp, relAux_leaf l r hf.1 hf.2] at hF hK ⊢
    obtain ⟨ρ', hr, hag⟩ := relLeaf_sem d hd l r hf.1 hf.2 st F reg op (flipOf hasnext) (if hasnext then thenl else elsel) ρ γ v
      htop hloc.1 hloc.2 hreg hev (flipOf_cases _) hF hK (by cases hasnext <;> simp [hLt, hLe])
    exact ⟨ρ', _, hr, hag, branchOut_of_flip F thenl elsel hasnext _ _⟩
  | and l r ihl ihr =>
    intro hf st F reg thenl elsel hasnext ρ γ v htop hloc hreg hLt hLe hev hF hK hlab
    simp only [comp, newLabel] at hF hK hlab ⊢
    -- names
    generalize hsta : ({ st with labelId := st.labelId + 1 } : CState) = sta at hF hK hlab ⊢
    have hsta_id : sta.labelId = st.labelId + 1 := by subst hsta; rfl
    have hsta_code : sta.code = st.code := by subst hsta; rfl
    have hsta_top : sta.regTop = st.regTop := by subst hsta; rfl
    generalize hr1 : (comp l (.bc reg st.labelId elsel false) sta).st = s1 at hF hK hlab ⊢
    have f1 : Frame sta.labelId sta s1 := by rw [← hr1]; exact bc_frame l hf.1 sta reg _ _ _ (by rw [hsta_top]; exact htop)
    generalize hsc : setLabelHere s1 st.labelId = sc at hF hK hlab ⊢
    have fc : Frame st.labelId s1 sc := by rw [← hsc]; exact frame_setLabelHere _ _ (Nat.le_refl _)
    have hsc_code : sc.code = s1.code := by subst hsc; rfl
    have hsc_id : sc.labelId = s1.labelId := by subst hsc; rfl
    have hsc_top : sc.regTop = st.regTop := by rw [fc.regTop, f1.regTop, hsta_top]
    generalize hs2 : (comp r (.bc reg thenl elsel hasnext) sc).st = s2 at hF hK hlab ⊢
    have f2 : Frame sc.labelId sc s2 := by rw [← hs2]; exact bc_frame r hf.2 sc reg _ _ _ (by rw [hsc_top]; exact htop)
    have hid1 : st.labelId + 1 ≤ s1.labelId := by rw [← hsta_id]; exact f1.labelId
    have hid2 : s1.labelId ≤ s2.labelId := by rw [← hsc_id]; exact f2.labelId
    -- the binding of nextcondlabel in F
    have hnl : getLabelPc F st.labelId = (s1.code.length : Int) - 1 := by
      rw [hlab st.labelId (Nat.le_refl _) (by omega), f2.labels st.labelId (by omega), ← hsc]
      exact getLabelPc_setLabelHere_same _ _
    have hnlOK : LabelOK F st.labelId := by unfold LabelOK; omega
    have htgt : tgt F st.labelId = s1.code.length := by unfold tgt; rw [hnl]; omega
    -- value of the left operand
    simp only [eval] at hev
    cases hvl : eval d ρ γ l with
    | none => simp [hvl] at hev
    | some vl =>
      simp only [hvl] at hev
      -- run the left operand
      have hlabL : ∀ L, sta.labelId ≤ L → L < s1.labelId → getLabelPc F L = getLabelPc s1 L := by
        intro L h1 h2
        rw [hlab L (by omega) (by omega), f2.labels L (by omega), ← hsc, getLabelPc_setLabelHere_other _ (by omega)]
      obtain ⟨ρ1, pc1, hreach1, hag1, hbo1⟩ := ihl hf.1 sta F reg st.labelId elsel false ρ γ vl (by rw [hsta_top]; exact htop)
        hloc.1 hreg hnlOK hLe hvl (by rw [hr1]; exact (fc.code.trans f2.code).trans hF)
        (by rw [hr1]; exact (fc.consts.trans f2.consts).trans hK) (by rw [hr1]; exact hlabL)
      rw [hsta_code] at hreach1
      rw [hr1] at hbo1
      cases htl : d.truthy vl with
      | false =>
        -- the whole conjunction is the (falsy) left value: control is at the else label
        simp only [htl] at hev
        cases hev
        refine ⟨ρ1, pc1, hreach1, hag1, ?_⟩
        rw [htl] at hbo1 ⊢
        have := hbo1.2 rfl
        unfold BranchOut
        refine ⟨fun h => Bool.noConfusion h, fun _ => ?_⟩
        rcases this with h | ⟨h, _⟩
        · exact Or.inl h
        · exact Bool.noConfusion h
      | true =>
        simp only [htl, if_true] at hev
        rw [htl] at hbo1
        have hpc1 : pc1 = s1.code.length := by
          rcases hbo1.1 rfl with h | ⟨_, h⟩
          · rw [h, htgt]
          · exact h
        subst hpc1
        -- run the right operand from there
        have hevr : eval d ρ1 γ r = some v := by rw [eval_congr d hag1 r hloc.2]; exact hev
        obtain ⟨ρ2, pc2, hreach2, hag2, hbo2⟩ := ihr hf.2 sc F reg thenl elsel hasnext ρ1 γ v (by rw [hsc_top]; exact htop)
          hloc.2 hreg hLt hLe hevr (by rw [hs2]; exact hF) (by rw [hs2]; exact hK)
          (by rw [hs2]; intro L h1 h2; exact hlab L (by omega) h2)
        rw [hsc_code] at hreach2
        rw [hs2] at hbo2
        exact ⟨ρ2, pc2, hreach1.trans hreach2, fun x hx => by rw [hag2 x hx, hag1 x hx], hbo2⟩
  | or l r ihl ihr =>
    intro hf st F reg thenl elsel hasnext ρ γ v htop hloc hreg hLt hLe hev hF hK hlab
    simp only [comp, newLabel] at hF hK hlab ⊢
    generalize hsta : ({ st with labelId := st.labelId + 1 } : CState) = sta at hF hK hlab ⊢
    have hsta_id : sta.labelId = st.labelId + 1 := by subst hsta; rfl
    have hsta_code : sta.code = st.code := by subst hsta; rfl
    have hsta_top : sta.regTop = st.regTop := by subst hsta; rfl
    generalize hr1 : (comp l (.bc reg thenl st.labelId true) sta).st = s1 at hF hK hlab ⊢
    have f1 : Frame sta.labelId sta s1 := by rw [← hr1]; exact bc_frame l hf.1 sta reg _ _ _ (by rw [hsta_top]; exact htop)
    generalize hsc : setLabelHere s1 st.labelId = sc at hF hK hlab ⊢
    have fc : Frame st.labelId s1 sc := by rw [← hsc]; exact frame_setLabelHere _ _ (Nat.le_refl _)
    have hsc_code : sc.code = s1.code := by subst hsc; rfl
    have hsc_id : sc.labelId = s1.labelId := by subst hsc; rfl
    have hsc_top : sc.regTop = st.regTop := by rw [fc.regTop, f1.regTop, hsta_top]
    generalize hs2 : (comp r (.bc reg thenl elsel hasnext) sc).st = s2 at hF hK hlab ⊢
    have f2 : Frame sc.labelId sc s2 := by rw [← hs2]; exact bc_frame r hf.2 sc reg _ _ _ (by rw [hsc_top]; exact htop)
    have hid1 : st.labelId + 1 ≤ s1.labelId := by rw [← hsta_id]; exact f1.labelId
    have hid2 : s1.labelId ≤ s2.labelId := by rw [← hsc_id]; exact f2.labelId
    have hnl : getLabelPc F st.labelId = (s1.code.length : Int) - 1 := by
      rw [hlab st.labelId (Nat.le_refl _) (by omega), f2.labels st.labelId (by omega), ← hsc]
      exact getLabelPc_setLabelHere_same _ _
    have hnlOK : LabelOK F st.labelId := by unfold LabelOK; omega
    have htgt : tgt F st.labelId = s1.code.length := by unfold tgt; rw [hnl]; omega
    simp only [eval] at hev
    cases hvl : eval d ρ γ l with
    | none => simp [hvl] at hev
    | some vl =>
      simp only [hvl] at hev
      have hlabL : ∀ L, sta.labelId ≤ L → L < s1.labelId → getLabelPc F L = getLabelPc s1 L := by
        intro L h1 h2
        rw [hlab L (by omega) (by omega), f2.labels L (by omega), ← hsc, getLabelPc_setLabelHere_other _ (by omega)]
      obtain ⟨ρ1, pc1, hreach1, hag1, hbo1⟩ := ihl hf.1 sta F reg thenl st.labelId true ρ γ vl (by rw [hsta_top]; exact htop)
        hloc.1 hreg hLt hnlOK hvl (by rw [hr1]; exact (fc.code.trans f2.code).trans hF)
        (by rw [hr1]; exact (fc.consts.trans f2.consts).trans hK) (by rw [hr1]; exact hlabL)
      rw [hsta_code] at hreach1
      rw [hr1] at hbo1
      cases htl : d.truthy vl with
      | true =>
        simp only [htl, if_true] at hev
        cases hev
        refine ⟨ρ1, pc1, hreach1, hag1, ?_⟩
        rw [htl] at hbo1 ⊢
        have := hbo1.1 rfl
        unfold BranchOut
        refine ⟨fun _ => ?_, fun h => Bool.noConfusion h⟩
        rcases this with h | ⟨h, _⟩
        · exact Or.inl h
        · exact Bool.noConfusion h
      | false =>
        simp only [htl] at hev
        rw [htl] at hbo1
        have hpc1 : pc1 = s1.code.length := by
          rcases hbo1.2 rfl with h | ⟨_, h⟩
          · rw [h, htgt]
          · exact h
        subst hpc1
        have hevr : eval d ρ1 γ r = some v := by rw [eval_congr d hag1 r hloc.2]; simpa using hev
        obtain ⟨ρ2, pc2, hreach2, hag2, hbo2⟩ := ihr hf.2 sc F reg thenl elsel hasnext ρ1 γ v (by rw [hsc_top]; exact htop)
          hloc.2 hreg hLt hLe hevr (by rw [hs2]; exact hF) (by rw [hs2]; exact hK)
          (by rw [hs2]; intro L h1 h2; exact hlab L (by omega) h2)
        rw [hsc_code] at hreach2
        rw [hs2] at hbo2
        exact ⟨ρ2, pc2, hreach1.trans hreach2, fun x hx => by rw [hag2 x hx, hag1 x hx], hbo2⟩

end GLua.Lowering
