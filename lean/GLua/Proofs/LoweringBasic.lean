/-
  Basic lemmas for the lowering proofs: label resolution, single MiniVM steps on resolved code,
  reachability, the constant pool and frame facts of the compile-state primitives.
-/
import GLua.Model.CompileStmt
import GLua.Spec.CondSpec

namespace GLua.Lowering
open GLua.Compile GLua.MiniVM

variable [NumStruct]

/-! ### lists -/

omit [NumStruct] in
theorem prefix_get {α} {l1 l2 : List α} (h : l1 <+: l2) {i : Nat} (hi : i < l1.length) : l2[i]? = l1[i]? := by
  obtain ⟨t, rfl⟩ := h
  simp [List.getElem?_append_left hi]

omit [NumStruct] in
theorem prefix_get_some {α} {l1 l2 : List α} (h : l1 <+: l2) {i : Nat} {x : α} (hx : l1[i]? = some x) : l2[i]? = some x := by
  have hi : i < l1.length := by
    rcases Nat.lt_or_ge i l1.length with h' | h'
    · exact h'
    · simp [List.getElem?_eq_none h'] at hx
  rw [prefix_get h hi, hx]

/-! ### label resolution -/

/-- one instruction of the label-resolved code. -/
def resInstr (lp : List (Nat × Int)) (pc : Nat) : Instr → Instr
  | .jmp sbx => .jmp (lookupLabel lp sbx.toNat - (pc : Int))
  | i => i

omit [NumStruct] in
theorem resolve_go_get (lp : List (Nat × Int)) (code : List Instr) (pc i : Nat) :
    (resolveLabels.go lp pc code)[i]? = (code[i]?).map (resInstr lp (pc + i)) := by
  induction code generalizing pc i with
  | nil => simp [resolveLabels.go]
  | cons x r ih =>
    cases i with
    | zero => cases x <;> simp [resolveLabels.go, resInstr]
    | succ j =>
      have := ih (pc + 1) j
      cases x <;> simp [resolveLabels.go, this] <;> congr 2 <;> omega

omit [NumStruct] in
theorem resolve_get (lp : List (Nat × Int)) (code : List Instr) (i : Nat) :
    (resolveLabels code lp)[i]? = (code[i]?).map (resInstr lp i) := by
  simpa [resolveLabels] using resolve_go_get lp code 0 i

/-- the label-resolved code of a (final) compile state: what the VM runs when `patchCode` only resolves labels. -/
def P0 (F : CState) : List Instr := resolveLabels F.code F.labelPc

/-- where a jump to label `L` lands. -/
def tgt (F : CState) (L : Nat) : Nat := (getLabelPc F L + 1).toNat

/-- the label was bound by `SetLabelPc(label, LastPC())` (LastPC ≥ -1). -/
def LabelOK (F : CState) (L : Nat) : Prop := -1 ≤ getLabelPc F L

theorem P0_get_nonjmp {F : CState} {p : Nat} {i : Instr} (h : F.code[p]? = some i) (hj : i.isJmp = false) :
    (P0 F)[p]? = some i := by
  simp only [P0, resolve_get, h, Option.map_some]
  cases i <;> simp_all [resInstr, Instr.isJmp]

theorem P0_get_jmp {F : CState} {p : Nat} {L : Nat} (h : F.code[p]? = some (.jmp (L : Int))) :
    (P0 F)[p]? = some (.jmp (getLabelPc F L - (p : Int))) := by
  simp [P0, resolve_get, h, resInstr, getLabelPc]

/-! ### reachability -/

variable {V : Type} {d : Dom V} {code : List Instr} {consts : List Konst}

theorem _root_.GLua.MiniVM.Reaches.trans {s1 s2 s3 : VM V} (h1 : Reaches d code consts s1 s2) (h2 : Reaches d code consts s2 s3) :
    Reaches d code consts s1 s3 := by
  induction h1 with
  | refl => exact h2
  | step hs _ ih => exact .step hs (ih h2)

theorem _root_.GLua.MiniVM.Reaches.single {s s' : VM V} (h : step d code consts s = .ok s') : Reaches d code consts s s' :=
  .step h (.refl _)

/-- executing `JMP L` of the resolved code. -/
theorem step_jmp {F : CState} {p L : Nat} {ρ g : Nat → V} (h : F.code[p]? = some (.jmp (L : Int))) (hok : LabelOK F L) :
    step d (P0 F) consts ⟨p, ρ, g⟩ = .ok ⟨tgt F L, ρ, g⟩ := by
  have hget := P0_get_jmp h
  have heq : (((p + 1 : Nat) : Int) + (getLabelPc F L - (p : Int))) = getLabelPc F L + 1 := by omega
  have hlt2 : ¬ (getLabelPc F L + 1 < 0) := by unfold LabelOK at hok; omega
  simp only [step, hget, heq, tgt, hlt2, if_false]

/-! ### setReg / fillNil -/

omit [NumStruct] in
@[simp] theorem setReg_same (ρ : Nat → V) (a : Nat) (v : V) : setReg ρ a v a = v := by simp [setReg]
omit [NumStruct] in
theorem setReg_other (ρ : Nat → V) {a r : Nat} (v : V) (h : r ≠ a) : setReg ρ a v r = ρ r := by simp [setReg, h]
omit [NumStruct] in
theorem fillNil_one (ρ : Nat → V) (a : Nat) (n : V) : fillNil ρ a a n = setReg ρ a n := by
  funext i; simp only [fillNil, setReg]
  by_cases h : i = a
  · simp [h]
  · have : ¬ (a ≤ i ∧ i ≤ a) := by omega
    simp [h, this]

/-! ### the constant pool -/

theorem findIdx_some {cs : List Konst} {k : Konst} {i : Nat} (h : findIdx cs k = some i) : cs[i]? = some k := by
  induction cs generalizing i with
  | nil => simp [findIdx] at h
  | cons c r ih =>
    simp only [findIdx] at h
    split at h
    · rename_i hc; cases h; simp [hc]
    · cases hr : findIdx r k with
      | none => simp [hr] at h
      | some j => simp [hr] at h; subst h; simpa using ih hr

/-- `ConstIndex` returns an index at which the pool holds the constant; the pool only grows at the end,
    nothing else changes. -/
theorem constIndex_spec (st : CState) (k : Konst) :
    (constIndex st k).1.consts[(constIndex st k).2]? = some k ∧ st.consts <+: (constIndex st k).1.consts ∧
    (constIndex st k).1.code = st.code ∧ (constIndex st k).1.labelId = st.labelId ∧
    (constIndex st k).1.labelPc = st.labelPc ∧ (constIndex st k).1.regTop = st.regTop := by
  unfold constIndex
  by_cases hn : k.isNaN = true
  · simp [hn]
  · simp only [hn, Bool.false_eq_true, if_false]
    cases h : findIdx st.consts k with
    | some i => simp [findIdx_some h]
    | none => simp

end GLua.Lowering
