/-
  The lowering theorems for expressions that RAISE: when the manual's evaluation of an expression raises an error
  (`eval = none`: a comparison, an arithmetic operation, a unary minus, a length or a concatenation answers "error" on
  the values of its operands, evaluated left to right), running the emitted code raises a Lua error as well.
  Part 1: expression mode for every kind except and / or (which need the aux-mode statements of part 2).
-/
import GLua.Proofs.LoweringBC

namespace GLua.Lowering
open GLua.Compile GLua.MiniVM GLua.CondSpec

variable [NumStruct]
set_option linter.unusedSectionVars false
variable {V : Type}

/-- from `s` the machine runs into an instruction that raises a Lua error. -/
def Raises (d : Dom V) (code : List Instr) (consts : List Konst) (s : VM V) : Prop :=
  ∃ s' site, Reaches d code consts s s' ∧ step d code consts s' = .luaError site

theorem Raises.of_reaches {d : Dom V} {code : List Instr} {consts : List Konst} {s s1 : VM V}
    (h1 : Reaches d code consts s s1) (h2 : Raises d code consts s1) : Raises d code consts s := by
  obtain ⟨s', site, hr, hs⟩ := h2
  exact ⟨s', site, h1.trans hr, hs⟩

/-- the expression-mode statement for raising expressions. -/
def ExprErr (d : Dom V) (e : Cond) : Prop :=
  ∀ (st F : CState) (reg : Nat) (ec : ExpCtx) (ρ γ : Nat → V),
    st.regTop ≤ reg → LocalsBelow reg e → reg + rh e < 256 → savereg ec reg ≤ reg →
    eval d ρ γ e = none → (∀ L, LabelOK F L) →
    (comp e (.expr reg ec) st).st.code <+: F.code →
    (comp e (.expr reg ec) st).st.consts <+: F.consts →
    (∀ L, st.labelId ≤ L → L < (comp e (.expr reg ec) st).st.labelId →
        getLabelPc F L = getLabelPc (comp e (.expr reg ec) st).st L) →
    Raises d (P0 F) F.consts ⟨st.code.length, ρ, γ⟩

theorem exprErr_leaf (d : Dom V) (e : Cond) (he : isLeaf e = true) : ExprErr d e := by
  intro st F reg ec ρ γ _ _ _ _ hev
  cases e <;> simp [isLeaf] at he <;> simp [eval] at hev

/-- one operand through compileExprWith(K)MVPropagation whose evaluation raises. -/
theorem opr_err (d : Dom V) (hd : d.Lawful) (kmv : Bool) (c : Cond) (hfr : ExprFrame c) (hc : ExprErr d c)
    (st F : CState) (reg : Nat) (ρ γ : Nat → V)
    (htop : st.regTop ≤ reg) (hloc : LocalsBelow reg c) (hreg : reg + rh c < 256) (hev : eval d ρ γ c = none)
    (hok : ∀ L, LabelOK F L)
    (hF : (opr kmv c reg st).1.code <+: F.code) (hK : (opr kmv c reg st).1.consts <+: F.consts)
    (hlab : ∀ L, st.labelId ≤ L → L < (opr kmv c reg st).1.labelId → getLabelPc F L = getLabelPc (opr kmv c reg st).1 L) :
    Raises d (P0 F) F.consts ⟨st.code.length, ρ, γ⟩ := by
  rcases opr_cases kmv c st reg (hfr st reg ecnone0 htop) htop with ⟨k, hk, _⟩ | ⟨r, hr, _⟩ | ⟨_, _, h⟩
  · have := konstOf_eval d hd ρ γ c k hk
    rw [hev] at this; cases this
  · subst hr; simp [eval] at hev
  · rw [h] at hF hK hlab
    exact hc st F reg ecnone0 ρ γ htop hloc hreg (by rw [savereg_ecnone0]; exact Nat.le_refl _) hev hok hF hK hlab

/-- a unary operator whose operand raises, or whose operation raises on the operand's value. -/
theorem unop_err (d : Dom V) (hd : d.Lawful) (mk : Nat → Nat → Instr) (f : V → Option V) (c : Cond) (hfr : ExprFrame c)
    (hcs : ExprSem d c) (hce : ExprErr d c)
    (hmk : ∀ a b, (mk a b).isJmp = false)
    (hstep : ∀ (code : List Instr) (consts : List Konst) (p a b : Nat) (ρ γ : Nat → V), code[p]? = some (mk a b) → b < 256 →
        f (ρ b) = none → ∃ site, step d code consts ⟨p, ρ, γ⟩ = .luaError site)
    (st F : CState) (reg : Nat) (ec : ExpCtx) (ρ γ : Nat → V)
    (htop : st.regTop ≤ reg) (hloc : LocalsBelow reg c) (hreg : reg + rh c < 256)
    (hev : eval d ρ γ c = none ∨ ∃ vc, eval d ρ γ c = some vc ∧ f vc = none)
    (hok : ∀ L, LabelOK F L)
    (hF : (unopExpr mk c.isLogical (fun s => comp c (.expr reg ecnone0) s) reg ec st).st.code <+: F.code)
    (hK : (unopExpr mk c.isLogical (fun s => comp c (.expr reg ecnone0) s) reg ec st).st.consts <+: F.consts)
    (hlab : ∀ L, st.labelId ≤ L → L < (unopExpr mk c.isLogical (fun s => comp c (.expr reg ecnone0) s) reg ec st).st.labelId →
        getLabelPc F L = getLabelPc (unopExpr mk c.isLogical (fun s => comp c (.expr reg ecnone0) s) reg ec st).st L) :
    Raises d (P0 F) F.consts ⟨st.code.length, ρ, γ⟩ := by
  obtain ⟨_, _, hst⟩ := unop_frame mk c hfr st reg ec htop
  rw [hst] at hF hK hlab
  have hF' : (opr false c reg st).1.code <+: F.code := List.IsPrefix.trans (by simp) hF
  have hK' : (opr false c reg st).1.consts <+: F.consts := by simpa using hK
  have hlab' : ∀ L, st.labelId ≤ L → L < (opr false c reg st).1.labelId → getLabelPc F L = getLabelPc (opr false c reg st).1 L := by
    simpa [getLabelPc] using hlab
  rcases hev with hn | ⟨vc, hvc, hfn⟩
  · exact opr_err d hd false c hfr hce st F reg ρ γ htop hloc hreg hn hok hF' hK' hlab'
  · obtain ⟨ρ1, hr1, _, hrk1, _, h256⟩ := opr_sem d hd false c hfr hcs st F reg ρ γ vc htop hloc hreg hvc hok hF' hK' hlab'
    have hb := h256 rfl
    rw [rk_reg hb] at hrk1
    have hv1 : ρ1 (opr false c reg st).2.1 = vc := Option.some.inj hrk1
    have hcd : F.code[(opr false c reg st).1.code.length]? = some (mk (savereg ec reg) (opr false c reg st).2.1) := by
      apply prefix_get_some hF; simp
    obtain ⟨site, hs⟩ := hstep (P0 F) F.consts _ _ _ ρ1 γ (P0_get_nonjmp hcd (hmk _ _)) hb (by rw [hv1]; exact hfn)
    exact ⟨_, site, hr1, hs⟩

theorem exprErr_not (d : Dom V) (hd : d.Lawful) (c : Cond) (hfr : ExprFrame c) (hcs : ExprSem d c) (hce : ExprErr d c) :
    ExprErr d (.not c) := by
  intro st F reg ec ρ γ htop hloc hreg hsreg hev hok hF hK hlab
  simp only [comp] at hF hK hlab
  have hn : eval d ρ γ c = none := by
    simp only [eval] at hev
    cases h : eval d ρ γ c with
    | none => rfl
    | some v => simp [h] at hev
  have hne : c ≠ .tru ∧ c ≠ .fls ∧ c ≠ .nil := by
    refine ⟨?_, ?_, ?_⟩ <;> intro h <;> subst h <;> simp [eval] at hn
  rw [notExpr_general c _ reg ec st hne] at hF hK hlab
  simp only [LocalsBelow] at hloc
  simp only [rh] at hreg
  exact unop_err d hd .not (fun x => some (if d.truthy x = true then d.falseV else d.trueV)) c hfr hcs hce (fun _ _ => rfl)
    (fun _ _ _ _ _ _ _ _ _ h => by simp at h) st F reg ec ρ γ htop hloc hreg (Or.inl hn) hok hF hK hlab

theorem eval_unop_none (d : Dom V) (ρ γ : Nat → V) (c : Cond) (f : V → Option V)
    (h : (match eval d ρ γ c with | none => none | some x => f x) = none) :
    eval d ρ γ c = none ∨ ∃ vc, eval d ρ γ c = some vc ∧ f vc = none := by
  cases hc : eval d ρ γ c with
  | none => exact Or.inl rfl
  | some vc => rw [hc] at h; exact Or.inr ⟨vc, rfl, h⟩

theorem exprErr_len (d : Dom V) (hd : d.Lawful) (c : Cond) (hfr : ExprFrame c) (hcs : ExprSem d c) (hce : ExprErr d c) :
    ExprErr d (.len c) := by
  intro st F reg ec ρ γ htop hloc hreg hsreg hev hok hF hK hlab
  simp only [comp] at hF hK hlab
  simp only [LocalsBelow] at hloc
  simp only [rh] at hreg
  simp only [eval] at hev
  exact unop_err d hd .len d.len c hfr hcs hce (fun _ _ => rfl)
    (fun code consts p a b ρ γ hcd hb hv => ⟨"len", by simp [step, hcd, rk_reg hb, hv, opStep]⟩)
    st F reg ec ρ γ htop hloc hreg (eval_unop_none d ρ γ c d.len hev) hok hF hK hlab

theorem exprErr_unm (d : Dom V) (hd : d.Lawful) (c : Cond) (hfr : ExprFrame c) (hcs : ExprSem d c) (hce : ExprErr d c) :
    ExprErr d (.unm c) := by
  intro st F reg ec ρ γ htop hloc hreg hsreg hev hok hF hK hlab
  cases hfold : lnum (.unm c) with
  | some x =>
    have := lnum_eval d hd ρ γ (.unm c) x hfold
    rw [hev] at this; cases this
  | none =>
    simp only [comp, hfold, unmExpr] at hF hK hlab
    simp only [LocalsBelow] at hloc
    simp only [rh] at hreg
    simp only [eval] at hev
    exact unop_err d hd .unm d.unm c hfr hcs hce (fun _ _ => rfl)
      (fun code consts p a b ρ γ hcd hb hv => ⟨"unm", by simp [step, hcd, rk_reg hb, hv, opStep]⟩)
      st F reg ec ρ γ htop hloc hreg (eval_unop_none d ρ γ c d.unm hev) hok hF hK hlab

/-- the two operands of a binary operator, one of which raises (the left one, or — after the left one has been
    evaluated — the right one). -/
theorem bops_err (d : Dom V) (hd : d.Lawful) (l r : Cond) (hfl : ExprFrame l) (hfr : ExprFrame r) (hl : ExprSem d l)
    (hle : ExprErr d l) (hre : ExprErr d r)
    (st F : CState) (reg : Nat) (ρ γ : Nat → V)
    (htop : st.regTop ≤ reg) (hll : LocalsBelow reg l) (hlr : LocalsBelow reg r) (hreg : reg + max (rh l) (rh r + 1) < 256)
    (hev : eval d ρ γ l = none ∨ ∃ x, eval d ρ γ l = some x ∧ eval d ρ γ r = none) (hok : ∀ L, LabelOK F L)
    (hF : (bops l r st reg).1.code <+: F.code) (hK : (bops l r st reg).1.consts <+: F.consts)
    (hlab : ∀ L, st.labelId ≤ L → L < (bops l r st reg).1.labelId → getLabelPc F L = getLabelPc (bops l r st reg).1 L) :
    Raises d (P0 F) F.consts ⟨st.code.length, ρ, γ⟩ := by
  rw [bops_eq] at hF hK hlab
  obtain ⟨f1, hle1, hr1le, hr1le'⟩ := opr_frame true l st reg (hfl st reg ecnone0 htop) htop
  have htop2 : (opr true l reg st).1.regTop ≤ (opr true l reg st).2.2 := by rw [f1.regTop]; omega
  obtain ⟨f2, hle2, _, _⟩ := opr_frame true r (opr true l reg st).1 (opr true l reg st).2.2 (hfr _ _ ecnone0 htop2) htop2
  have hF1 := f2.code.trans hF
  have hK1 := f2.consts.trans hK
  have hlab1 : ∀ L, st.labelId ≤ L → L < (opr true l reg st).1.labelId → getLabelPc F L = getLabelPc (opr true l reg st).1 L :=
    fun L h1 h2 => by rw [hlab L (by have := f1.labelId; omega) (by have := f2.labelId; simp only [] at *; omega), f2.labels L h2]
  rcases hev with hn | ⟨x, hx, hn⟩
  · exact opr_err d hd true l hfl hle st F reg ρ γ htop hll (by omega) hn hok hF1 hK1 hlab1
  · obtain ⟨ρ1, hreach1, hf1, _, _, _⟩ := opr_sem d hd true l hfl hl st F reg ρ γ x htop hll (by omega) hx hok hF1 hK1 hlab1
    have hn1 : eval d ρ1 γ r = none := by rw [eval_congr d hf1 r hlr, hn]
    exact Raises.of_reaches hreach1 (opr_err d hd true r hfr hre (opr true l reg st).1 F (opr true l reg st).2.2 ρ1 γ htop2
      (LocalsBelow.mono hr1le r hlr) (by omega) hn1 hok hF hK (fun L h1 h2 => hlab L (by have := f1.labelId; omega) h2))

/-- the ways a binary operation over two operand expressions raises. -/
theorem eval_binop_none (d : Dom V) (ρ γ : Nat → V) (l r : Cond) (f : V → V → Option V)
    (h : (match eval d ρ γ l with
          | none => none
          | some x => match eval d ρ γ r with
            | none => none
            | some y => f x y) = none) :
    (eval d ρ γ l = none ∨ ∃ x, eval d ρ γ l = some x ∧ eval d ρ γ r = none) ∨
    ∃ x y, eval d ρ γ l = some x ∧ eval d ρ γ r = some y ∧ f x y = none := by
  cases hl : eval d ρ γ l with
  | none => exact Or.inl (Or.inl rfl)
  | some x =>
    cases hr : eval d ρ γ r with
    | none => exact Or.inl (Or.inr ⟨x, rfl, rfl⟩)
    | some y => rw [hl, hr] at h; exact Or.inr ⟨x, y, rfl, rfl, h⟩

theorem exprErr_arith (d : Dom V) (hd : d.Lawful) (op : ArithOp) (l r : Cond) (hfl : ExprFrame l) (hfr : ExprFrame r)
    (hl : ExprSem d l) (hr : ExprSem d r) (hle : ExprErr d l) (hre : ExprErr d r) : ExprErr d (.arith op l r) := by
  intro st F reg ec ρ γ htop hloc hreg hsreg hev hok hF hK hlab
  cases hfold : lnum (.arith op l r) with
  | some x =>
    have := lnum_eval d hd ρ γ (.arith op l r) x hfold
    rw [hev] at this; cases this
  | none =>
    have hcomp : (comp (.arith op l r) (.expr reg ec) st).st =
        emit (bops l r st reg).1 (.arith op (savereg ec reg) (bops l r st reg).2.1 (bops l r st reg).2.2) := by
      simp only [comp, hfold, arithExpr]; rfl
    rw [hcomp] at hF hK hlab
    simp only [LocalsBelow] at hloc
    simp only [rh] at hreg
    simp only [eval] at hev
    have hF' : (bops l r st reg).1.code <+: F.code := List.IsPrefix.trans (by simp) hF
    have hK' : (bops l r st reg).1.consts <+: F.consts := by simpa using hK
    have hlab' : ∀ L, st.labelId ≤ L → L < (bops l r st reg).1.labelId → getLabelPc F L = getLabelPc (bops l r st reg).1 L := by
      simpa [getLabelPc] using hlab
    rcases eval_binop_none d ρ γ l r (d.arith op) hev with h | ⟨x, y, hx, hy, hn⟩
    · exact bops_err d hd l r hfl hfr hl hle hre st F reg ρ γ htop hloc.1 hloc.2 hreg h hok hF' hK' hlab'
    · obtain ⟨ρ2, hreach, _, hrk1, hrk2⟩ := bops_sem d hd l r hfl hfr hl hr st F reg ρ γ x y htop hloc.1 hloc.2 hreg hx hy hok hF' hK' hlab'
      have hcd : F.code[(bops l r st reg).1.code.length]? =
          some (.arith op (savereg ec reg) (bops l r st reg).2.1 (bops l r st reg).2.2) := by
        apply prefix_get_some hF; simp
      exact ⟨_, "arith", hreach, by simp [step, P0_get_nonjmp hcd rfl, hrk1, hrk2, hn, opStep]⟩

/-- a comparison instruction whose oracle answers "error". -/
theorem rel_step_err (d : Dom V) {F : CState} {p b c flip : Nat} {op : RelOp} {ρ γ : Nat → V} {x y : V}
    (h1 : F.code[p]? = some (relInstr op flip b c))
    (hx : rkValue d F.consts ρ b = some x) (hy : rkValue d F.consts ρ c = some y) (hv : relVal d op x y = none) :
    ∃ site, step d (P0 F) F.consts ⟨p, ρ, γ⟩ = .luaError site := by
  cases op <;> simp only [relVal, Option.map_eq_none_iff] at hv <;> simp only [relInstr] at h1
  · exact ⟨"lt", by simp [step, P0_get_nonjmp h1 rfl, hx, hy, hv, cmpStep]⟩
  · exact ⟨"lt", by simp [step, P0_get_nonjmp h1 rfl, hx, hy, hv, cmpStep]⟩
  · exact ⟨"le", by simp [step, P0_get_nonjmp h1 rfl, hx, hy, hv, cmpStep]⟩
  · exact ⟨"le", by simp [step, P0_get_nonjmp h1 rfl, hx, hy, hv, cmpStep]⟩
  · exact ⟨"eq", by simp [step, P0_get_nonjmp h1 rfl, hx, hy, hv, cmpStep]⟩
  · exact ⟨"eq", by simp [step, P0_get_nonjmp h1 rfl, hx, hy, hv, cmpStep]⟩

/-- `compileRelationalOpExprAux` on a raising comparison: only the code up to and including the comparison
    instruction has to be in `F` (the final JMP is never reached). -/
theorem relCode_err (d : Dom V) (hd : d.Lawful) (op : RelOp) (l r : Cond) (hfl : ExprFrame l) (hfr : ExprFrame r)
    (hl : ExprSem d l) (hr : ExprSem d r) (hle : ExprErr d l) (hre : ExprErr d r)
    (st F : CState) (reg flip L : Nat) (ρ γ : Nat → V)
    (htop : st.regTop ≤ reg) (hll : LocalsBelow reg l) (hlr : LocalsBelow reg r) (hreg : reg + max (rh l) (rh r + 1) < 256)
    (hev : eval d ρ γ (.rel op l r) = none) (hok : ∀ L, LabelOK F L)
    (hF : (emit (bops l r st reg).1 (relInstr op flip (bops l r st reg).2.1 (bops l r st reg).2.2)).code <+: F.code)
    (hK : (relCode op l r st reg flip L).consts <+: F.consts)
    (hlab : ∀ L', st.labelId ≤ L' → L' < (relCode op l r st reg flip L).labelId →
        getLabelPc F L' = getLabelPc (relCode op l r st reg flip L) L') :
    Raises d (P0 F) F.consts ⟨st.code.length, ρ, γ⟩ := by
  simp only [eval] at hev
  have hF' : (bops l r st reg).1.code <+: F.code := List.IsPrefix.trans (by simp) hF
  have hK' : (bops l r st reg).1.consts <+: F.consts := by simpa [relCode] using hK
  have hlab' : ∀ L', st.labelId ≤ L' → L' < (bops l r st reg).1.labelId → getLabelPc F L' = getLabelPc (bops l r st reg).1 L' :=
    fun L' h1 h2 => by rw [hlab L' h1 h2]; rfl
  rcases eval_binop_none d ρ γ l r (relVal d op) hev with h | ⟨x, y, hx, hy, hn⟩
  · exact bops_err d hd l r hfl hfr hl hle hre st F reg ρ γ htop hll hlr hreg h hok hF' hK' hlab'
  · obtain ⟨ρ2, hreach, _, hrk1, hrk2⟩ := bops_sem d hd l r hfl hfr hl hr st F reg ρ γ x y htop hll hlr hreg hx hy hok hF' hK' hlab'
    have hc1 : F.code[(bops l r st reg).1.code.length]? =
        some (relInstr op flip (bops l r st reg).2.1 (bops l r st reg).2.2) := by
      apply prefix_get_some hF; simp
    obtain ⟨site, hs⟩ := rel_step_err d (γ := γ) hc1 hrk1 hrk2 hn
    exact ⟨_, site, hreach, hs⟩

theorem exprErr_rel (d : Dom V) (hd : d.Lawful) (op : RelOp) (l r : Cond) (hfl : ExprFrame l) (hfr : ExprFrame r)
    (hl : ExprSem d l) (hr : ExprSem d r) (hle : ExprErr d l) (hre : ExprErr d r) : ExprErr d (.rel op l r) := by
  intro st F reg ec ρ γ htop hloc hreg hsreg hev hok hF hK hlab
  have hcomp : (comp (.rel op l r) (.expr reg ec) st).st =
      emit (setLabelHere (emit (relCode op l r { st with labelId := st.labelId + 1 } reg 1 st.labelId)
                (.loadbool (savereg ec reg) 0 1)) st.labelId) (.loadbool (savereg ec reg) 1 0) := by
    simp only [comp, newLabel, relAux_eq]; rfl
  rw [hcomp] at hF hK hlab
  simp only [LocalsBelow] at hloc
  simp only [rh] at hreg
  have hfr1 := (relCode_frame op l r hfl hfr { st with labelId := st.labelId + 1 } reg 1 st.labelId htop).1
  exact relCode_err d hd op l r hfl hfr hl hr hle hre { st with labelId := st.labelId + 1 } F reg 1 st.labelId ρ γ htop hloc.1 hloc.2 hreg hev hok
    (List.IsPrefix.trans (by simp [relCode]) hF) (by simpa using hK)
    (by
      intro L' h1 h2
      rw [hlab L' (by simp only [] at h1; omega) (by simpa using h2)]
      have hne : st.labelId ≠ L' := by simp only [] at h1; omega
      simp [getLabelPc, setLabelHere, setLabelPc, lookupLabel, hne])

/-! ### concatenation -/

/-- the operand part of a raising concatenation: either one of the operand expressions raises, or all of them are
    evaluated into their registers and the right-to-left join that `OP_CONCAT` performs raises. -/
def ChainErr (d : Dom V) (l r : Cond) : Prop :=
  ∀ (st F : CState) (reg : Nat) (ec : ExpCtx) (ρ γ : Nat → V),
    st.regTop ≤ reg → LocalsBelow reg (.concat l r) → reg + rh (.concat l r) < 256 →
    eval d ρ γ (.concat l r) = none → (∀ L, LabelOK F L) →
    (comp (.concat l r) (.expr reg ec) st).st.code.dropLast <+: F.code →
    (comp (.concat l r) (.expr reg ec) st).st.consts <+: F.consts →
    (∀ L, st.labelId ≤ L → L < (comp (.concat l r) (.expr reg ec) st).st.labelId →
        getLabelPc F L = getLabelPc (comp (.concat l r) (.expr reg ec) st).st L) →
    Raises d (P0 F) F.consts ⟨st.code.length, ρ, γ⟩ ∨
    ∃ ρ', Reaches d (P0 F) F.consts ⟨st.code.length, ρ, γ⟩ ⟨(comp (.concat l r) (.expr reg ec) st).st.code.length - 1, ρ', γ⟩ ∧
      concatVal d ρ' reg (reg + (1 + spine r)) = none

def ChainErrS (d : Dom V) (e : Cond) : Prop := ∀ l r, e = .concat l r → ChainErr d l r

theorem chainErr_concat (d : Dom V) (l r : Cond) (hl : ExprSem d l) (hr : ExprSem d r) (hcr : ChainS d r)
    (hle : ExprErr d l) (hre : ExprErr d r) (hcre : ChainErrS d r) : ChainErr d l r := by
  intro st F reg ec ρ γ htop hloc hreg hev hok hF hK hlab
  have hfl := (comp_frame l).1
  have hfr := (comp_frame r).1
  obtain ⟨pre, hst, hlt, hnc, hpfx, hcase⟩ := concat_code l r hfl hfr st reg ec htop
  have e1 := hfl st reg ecnone0 htop
  have htop2 : (comp l (.expr reg ecnone0) st).st.regTop ≤ reg + 1 := by rw [e1.frame.regTop]; omega
  have e2 := hfr (comp l (.expr reg ecnone0) st).st (reg + 1) ecnone0 htop2
  generalize hs1 : (comp l (.expr reg ecnone0) st).st = s1 at hst hlt hpfx hcase e1 e2 htop2
  generalize hs2 : (comp r (.expr (reg + 1) ecnone0) s1).st = s2 at hst hcase e2
  have f1 : Frame st.labelId st s1 := by rw [← hs1]; exact (hfl st reg ecnone0 htop).frame
  have f2 : Frame s1.labelId s1 s2 := by rw [← hs2]; exact (hfr s1 (reg + 1) ecnone0 htop2).frame
  have hcode : (comp (.concat l r) (.expr reg ec) st).st.code = pre ++ [.concat (savereg ec reg) reg (reg + (1 + spine r))] := by
    rw [hst]; rfl
  have hconsts : (comp (.concat l r) (.expr reg ec) st).st.consts = s2.consts := by rw [hst]; rfl
  have hlabid : (comp (.concat l r) (.expr reg ec) st).st.labelId = s2.labelId := by rw [hst]; rfl
  have hlabpc : ∀ L, getLabelPc (comp (.concat l r) (.expr reg ec) st).st L = getLabelPc s2 L := by
    intro L; rw [hst]; rfl
  rw [hcode] at hF ⊢
  rw [hconsts] at hK
  rw [hlabid] at hlab
  simp only [List.dropLast_concat] at hF
  simp only [List.length_append, List.length_singleton, Nat.add_sub_cancel]
  simp only [LocalsBelow] at hloc
  simp only [rh] at hreg
  simp only [eval] at hev
  have hFl : s1.code <+: F.code := hpfx.trans hF
  have hKl : s1.consts <+: F.consts := f2.consts.trans hK
  have hlabl : ∀ L, st.labelId ≤ L → L < s1.labelId → getLabelPc F L = getLabelPc s1 L := by
    intro L h1 h2
    rw [hlab L h1 (by have := f2.labelId; omega), hlabpc, f2.labels L h2]
  cases hx : eval d ρ γ l with
  | none =>
    left
    exact hle st F reg ecnone0 ρ γ htop hloc.1 (by omega) (by rw [savereg_ecnone0]; exact Nat.le_refl _) hx hok
      (by rw [hs1]; exact hFl) (by rw [hs1]; exact hKl) (by rw [hs1]; exact hlabl)
  | some x =>
    obtain ⟨ρ1, hreach1, hv1, hd1⟩ := hl st F reg ecnone0 ρ γ x htop hloc.1 (by omega) (by rw [savereg_ecnone0]; exact Nat.le_refl _) hx hok
      (by rw [hs1]; exact hFl) (by rw [hs1]; exact hKl) (by rw [hs1]; exact hlabl)
    rw [savereg_ecnone0] at hv1 hd1
    rw [hs1] at hreach1
    have hf1 : FullFrame reg ρ ρ1 := fun z hz => hd1 z hz (by omega)
    have hlab2 : ∀ L, s1.labelId ≤ L → L < s2.labelId → getLabelPc F L = getLabelPc s2 L := by
      intro L h1 h2
      rw [hlab L (by have := f1.labelId; omega) h2, hlabpc]
    simp only [hx] at hev
    have hloc2 := LocalsBelow.mono (Nat.le_succ reg) r hloc.2
    rcases hcase with ⟨hncr, hpre⟩ | ⟨l', r', hr', hpre⟩
    · -- the right operand is not a concatenation
      subst hpre
      cases hy : eval d ρ γ r with
      | none =>
        left
        have hy1 : eval d ρ1 γ r = none := by rw [eval_congr d hf1 r hloc.2, hy]
        exact Raises.of_reaches hreach1 (hre s1 F (reg + 1) ecnone0 ρ1 γ htop2 hloc2 (by omega)
          (by rw [savereg_ecnone0]; exact Nat.le_refl _) hy1 hok (by rw [hs2]; exact hF) (by rw [hs2]; exact hK) (by rw [hs2]; exact hlab2))
      | some y =>
        right
        simp only [hy] at hev
        have hy1 : eval d ρ1 γ r = some y := by rw [eval_congr d hf1 r hloc.2, hy]
        obtain ⟨ρ2, hreach2, hv2, hd2⟩ := hr s1 F (reg + 1) ecnone0 ρ1 γ y htop2 hloc2 (by omega)
          (by rw [savereg_ecnone0]; exact Nat.le_refl _) hy1 hok (by rw [hs2]; exact hF) (by rw [hs2]; exact hK) (by rw [hs2]; exact hlab2)
        rw [savereg_ecnone0] at hv2 hd2
        rw [hs2] at hreach2
        have hf2 : FullFrame (reg + 1) ρ1 ρ2 := fun z hz => hd2 z hz (by omega)
        refine ⟨ρ2, hreach1.trans hreach2, ?_⟩
        rw [spine_notConcat r hncr]
        have h0 : reg + (1 + 0) - reg = 0 + 1 := by omega
        unfold concatVal
        rw [h0, concatFold_low]
        simp only [concatFold, Option.bind_some]
        have : reg + (1 + 0) = reg + 1 := by omega
        rw [this, hv2, hf2 reg (Nat.lt_succ_self _), hv1]
        exact hev
    · -- the right operand is a concatenation whose own CONCAT was popped
      subst hr'
      have hlen2 : (comp (.concat l' r') (.expr (reg + 1) ecnone0) s1).st.code.length - 1 = pre.length := by
        rw [hs2, hpre]; simp
      have hsp : spine (Cond.concat l' r') = spine r' + 1 := rfl
      have h0 : reg + (1 + (spine r' + 1)) - reg = (1 + spine r') + 1 := by omega
      have hidx : reg + (1 + (spine r' + 1)) = reg + 1 + (1 + spine r') := by omega
      have hsub : reg + 1 + (1 + spine r') - (reg + 1) = 1 + spine r' := by omega
      cases hy : eval d ρ γ (.concat l' r') with
      | none =>
        have hy1 : eval d ρ1 γ (.concat l' r') = none := by rw [eval_congr d hf1 _ hloc.2, hy]
        rcases hcre l' r' rfl s1 F (reg + 1) ecnone0 ρ1 γ htop2 hloc2 (by omega) hy1 hok
          (by rw [hs2, hpre]; simpa using hF) (by rw [hs2]; exact hK) (by rw [hs2]; exact hlab2) with hra | ⟨ρ2, hreach2, hcv⟩
        · left; exact Raises.of_reaches hreach1 hra
        · right
          rw [hlen2] at hreach2
          refine ⟨ρ2, hreach1.trans hreach2, ?_⟩
          rw [hsp]
          unfold concatVal
          rw [h0, concatFold_low, hidx]
          unfold concatVal at hcv
          rw [hsub] at hcv
          rw [hcv]
          rfl
      | some y =>
        right
        simp only [hy] at hev
        have hy1 : eval d ρ1 γ (.concat l' r') = some y := by rw [eval_congr d hf1 _ hloc.2, hy]
        obtain ⟨ρ2, hreach2, hf2, hcv⟩ := hcr l' r' rfl s1 F (reg + 1) ecnone0 ρ1 γ y htop2 hloc2 (by omega) hy1 hok
          (by rw [hs2, hpre]; simpa using hF) (by rw [hs2]; exact hK) (by rw [hs2]; exact hlab2)
        rw [hlen2] at hreach2
        refine ⟨ρ2, hreach1.trans hreach2, ?_⟩
        rw [hsp]
        unfold concatVal
        rw [h0, concatFold_low, hidx]
        unfold concatVal at hcv
        rw [hsub] at hcv
        rw [hcv]
        simp only [Option.bind_some]
        rw [hf2 reg (Nat.lt_succ_self _), hv1]
        exact hev

theorem exprErr_concat' (d : Dom V) (l r : Cond) (hch : ChainErr d l r) : ExprErr d (.concat l r) := by
  intro st F reg ec ρ γ htop hloc hreg hsreg hev hok hF hK hlab
  have hfl := (comp_frame l).1
  have hfr := (comp_frame r).1
  obtain ⟨pre, hst, _, _, _, _⟩ := concat_code l r hfl hfr st reg ec htop
  have hcode : (comp (.concat l r) (.expr reg ec) st).st.code = pre ++ [.concat (savereg ec reg) reg (reg + (1 + spine r))] := by
    rw [hst]; rfl
  rcases hch st F reg ec ρ γ htop hloc hreg hev hok
    (by rw [hcode]; simp only [List.dropLast_concat]; exact (List.prefix_append _ _).trans (hcode ▸ hF)) hK hlab with hra | ⟨ρ1, hreach, hcv⟩
  · exact hra
  · rw [hcode] at hF hreach
    simp only [List.length_append, List.length_singleton, Nat.add_sub_cancel] at hreach
    have hcd : F.code[pre.length]? = some (.concat (savereg ec reg) reg (reg + (1 + spine r))) := by
      apply prefix_get_some hF; simp
    exact ⟨_, "concat", hreach, by simp [step, P0_get_nonjmp hcd rfl, hcv, opStep]⟩

end GLua.Lowering
