/-
  The lowering theorems for expressions that RAISE, part 2: compileLogicalOpExprAux / compileLogicalOpExpr
  (and / or in value context), and the main induction.
  (The proofs of the and / or cases repeat the set-up of `auxSem_and` … `exprSem_or`: the left operand either raises,
  or is evaluated — then the success theorems give the state at the start of the right operand's code — and the right
  operand raises.)
-/
import GLua.Proofs.LoweringErr

namespace GLua.Lowering
open GLua.Compile GLua.MiniVM GLua.CondSpec

variable [NumStruct]
set_option linter.unusedSectionVars false
set_option linter.unusedVariables false
variable {V : Type}

/-- the aux-mode statement for raising operands. -/
def AuxErr (d : Dom V) (e : Cond) : Prop :=
  ∀ (st F : CState) (reg : Nat) (ec : ExpCtx) (thenl elsel : Nat) (hasnext : Bool) (lb : LbLabels) (b : Bool) (ρ γ : Nat → V),
    AuxHyp st F reg ec thenl elsel hasnext lb → LocalsBelow reg e → reg + rh e < 256 → eval d ρ γ e = none →
    Emb F (comp e (.aux reg ec thenl elsel hasnext lb b) st).st.code lb.e (hasnext = false ∧ thenl = elsel) →
    (comp e (.aux reg ec thenl elsel hasnext lb b) st).st.consts <+: F.consts →
    (∀ L, st.labelId ≤ L → L < (comp e (.aux reg ec thenl elsel hasnext lb b) st).st.labelId →
        getLabelPc F L = getLabelPc (comp e (.aux reg ec thenl elsel hasnext lb b) st).st L) →
    Raises d (P0 F) F.consts ⟨st.code.length, ρ, γ⟩

theorem auxErr_leaf (d : Dom V) (e : Cond) (he : isLeaf e = true) : AuxErr d e := by
  intro st F reg ec thenl elsel hasnext lb b ρ γ _ _ _ hev
  cases e <;> simp [isLeaf] at he <;> simp [eval] at hev

/-- the default case of compileLogicalOpExprAux on a raising operand: the error happens inside the operand's own
    expression-mode code. -/
theorem auxDefault_err (d : Dom V) (sub : ExpCtx → CState → Res) (st F : CState) (reg : Nat) (ec : ExpCtx) (thenl elsel : Nat)
    (hasnext : Bool) (lb : LbLabels) (b : Bool) (ρ γ : Nat → V)
    (H : AuxHyp st F reg ec thenl elsel hasnext lb)
    (hnomove : (hasnext = false ∧ thenl = elsel) → ∀ ec' a' b', last (sub ec' st).st ≠ some (.move a' b'))
    (hsub : ∀ ec', savereg ec' reg = reg → (sub ec' st).st.code <+: F.code → (sub ec' st).st.consts <+: F.consts →
      (∀ L, st.labelId ≤ L → L < (sub ec' st).st.labelId → getLabelPc F L = getLabelPc (sub ec' st).st L) →
      Raises d (P0 F) F.consts ⟨st.code.length, ρ, γ⟩)
    (hE : Emb F (auxDefault sub reg ec thenl elsel hasnext lb b st).st.code lb.e (hasnext = false ∧ thenl = elsel))
    (hK : (auxDefault sub reg ec thenl elsel hasnext lb b st).st.consts <+: F.consts)
    (hlab : ∀ L, st.labelId ≤ L → L < (auxDefault sub reg ec thenl elsel hasnext lb b st).st.labelId →
        getLabelPc F L = getLabelPc (auxDefault sub reg ec thenl elsel hasnext lb b st).st L) :
    Raises d (P0 F) F.consts ⟨st.code.length, ρ, γ⟩ := by
  rw [auxDefault_eq] at hE hK hlab
  by_cases hlast : hasnext = false ∧ thenl = elsel
  · rw [if_pos hlast] at hE hK hlab
    rw [moveTo_nomove _ _ _ (hnomove hlast _)] at hE hK hlab
    have hsv := savereg_max ec reg H.hsreg H.hreg
    have hE' : Emb F (((sub ⟨ec.ctype, max reg (savereg ec reg)⟩ st).st.code ++ [.move (savereg ec reg) reg]) ++
        [.jmp ((if hasnext = true then thenl else elsel : Nat) : Int)]) lb.e (hasnext = false ∧ thenl = elsel) := by simpa using hE
    exact hsub ⟨ec.ctype, max reg (savereg ec reg)⟩ hsv ((List.prefix_append _ _).trans hE'.init)
      (by simpa using hK) (by simpa [getLabelPc] using hlab)
  · rw [if_neg hlast] at hE hK hlab
    have hfull := hE.full_of_not_allow hlast
    exact hsub ecnone0 (savereg_ecnone0 reg) (List.IsPrefix.trans (by simp) hfull) (by simpa using hK) (by simpa [getLabelPc] using hlab)

theorem auxErr_of_exprErr (d : Dom V) (e : Cond) (hfr : ExprFrame e) (hex : ExprErr d e)
    (hnl : isLoc e = false) (hlog : e.isLogical = false)
    (sub : Nat → ExpCtx → CState → Res)
    (hcomp : ∀ st reg ec thenl elsel hasnext lb b,
      comp e (.aux reg ec thenl elsel hasnext lb b) st = auxDefault (sub reg) reg ec thenl elsel hasnext lb b st)
    (hsubeq : ∀ reg ec' s, sub reg ec' s = comp e (.expr reg ec') s) : AuxErr d e := by
  intro st F reg ec thenl elsel hasnext lb b ρ γ H hloc hreg hev hE hK hlab
  rw [hcomp] at hE hK hlab
  refine auxDefault_err d _ st F reg ec thenl elsel hasnext lb b ρ γ H ?_ ?_ hE hK hlab
  · intro _ ec' a' b'
    rw [hsubeq]
    exact (hfr st reg ec' H.htop).nomove hnl hlog a' b'
  · intro ec' hsv hF' hK' hlab'
    rw [hsubeq] at hF' hK' hlab'
    exact hex st F reg ec' ρ γ H.htop hloc hreg (by rw [hsv]; exact Nat.le_refl _) hev H.allOK hF' hK' hlab'

theorem auxErr_not (d : Dom V) (c : Cond) (hex : ExprErr d (.not c)) : AuxErr d (.not c) :=
  auxErr_of_exprErr d (.not c) (comp_frame (.not c)).1 hex rfl rfl
    (fun reg ec' s => notExpr c (fun s' => comp c (.expr reg ecnone0) s') reg ec' s)
    (fun _ _ _ _ _ _ _ _ => by simp only [comp]) (fun _ _ _ => by simp only [comp])

theorem auxErr_unm (d : Dom V) (c : Cond) (hex : ExprErr d (.unm c)) : AuxErr d (.unm c) :=
  auxErr_of_exprErr d (.unm c) (comp_frame (.unm c)).1 hex rfl rfl
    (fun reg ec' s => unmExpr (lnum (.unm c)) c.isLogical (fun s' => comp c (.expr reg ecnone0) s') reg ec' s)
    (fun _ _ _ _ _ _ _ _ => by simp only [comp]) (fun _ _ _ => by simp only [comp])

theorem auxErr_len (d : Dom V) (c : Cond) (hex : ExprErr d (.len c)) : AuxErr d (.len c) :=
  auxErr_of_exprErr d (.len c) (comp_frame (.len c)).1 hex rfl rfl
    (fun reg ec' s => unopExpr .len c.isLogical (fun s' => comp c (.expr reg ecnone0) s') reg ec' s)
    (fun _ _ _ _ _ _ _ _ => by simp only [comp]) (fun _ _ _ => by simp only [comp])

theorem auxErr_arith (d : Dom V) (op : ArithOp) (l r : Cond) (hex : ExprErr d (.arith op l r)) : AuxErr d (.arith op l r) :=
  auxErr_of_exprErr d (.arith op l r) (comp_frame (.arith op l r)).1 hex rfl rfl
    (fun reg ec' s => arithExpr (lnum (.arith op l r)) op (fun s' g => comp l (.expr g ecnone0) s')
        (fun s' g => comp r (.expr g ecnone0) s') l.isLogical r.isLogical reg ec' s)
    (fun _ _ _ _ _ _ _ _ => by simp only [comp]) (fun _ _ _ => by simp only [comp])

theorem auxErr_concat (d : Dom V) (l r : Cond) (hex : ExprErr d (.concat l r)) : AuxErr d (.concat l r) :=
  auxErr_of_exprErr d (.concat l r) (comp_frame (.concat l r)).1 hex rfl rfl
    (fun reg ec' s => concatExpr (1 + spine r) (fun s' g => comp l (.expr g ecnone0) s')
        (fun s' g => comp r (.expr g ecnone0) s') reg ec' s)
    (fun _ _ _ _ _ _ _ _ => by simp only [comp]) (fun _ _ _ => by simp only [comp])

theorem auxErr_rel (d : Dom V) (hd : d.Lawful) (op : RelOp) (l r : Cond) (hfl : ExprFrame l) (hfr : ExprFrame r)
    (hl : ExprSem d l) (hr : ExprSem d r) (hle : ExprErr d l) (hre : ExprErr d r) : AuxErr d (.rel op l r) := by
  intro st F reg ec thenl elsel hasnext lb b ρ γ H hloc hreg hev hE hK hlab
  simp only [LocalsBelow] at hloc
  simp only [rh] at hreg
  rw [aux_rel_eq op l r] at hE hK hlab
  have hE' : Emb F ((emit (bops l r st reg).1 (relInstr op (relChoice thenl elsel hasnext lb b).1 (bops l r st reg).2.1 (bops l r st reg).2.2)).code ++
      [.jmp (((relChoice thenl elsel hasnext lb b).2.1 : Nat) : Int)]) lb.e (hasnext = false ∧ thenl = elsel) := by
    simpa [relCode] using hE
  exact relCode_err d hd op l r hfl hfr hl hr hle hre st F reg _ _ ρ γ H.htop hloc.1 hloc.2 hreg hev H.allOK hE'.init hK hlab

theorem auxErr_and (d : Dom V) (l r : Cond) (hl : AuxSem d l) (hle : AuxErr d l) (hre : AuxErr d r) :
    AuxErr d (.and l r) := by
  intro st F reg ec thenl elsel hasnext lb b ρ γ H hloc hreg hev hE hK hlab
  simp only [rh] at hreg
  simp only [comp, newLabel] at hE hK hlab
  simp only [LocalsBelow] at hloc
  generalize hsa : ({ st with labelId := st.labelId + 1 } : CState) = sa at hE hK hlab
  have hsa_id : sa.labelId = st.labelId + 1 := by subst hsa; rfl
  have hsa_code : sa.code = st.code := by subst hsa; rfl
  have hsa_top : sa.regTop = st.regTop := by subst hsa; rfl
  obtain ⟨f1, hlt1, hb1, _⟩ := (comp_frame l).2 sa reg ec st.labelId elsel false lb b (by rw [hsa_top]; exact H.htop)
  generalize hr1 : comp l (.aux reg ec st.labelId elsel false lb b) sa = r1 at hE hK hlab f1 hlt1 hb1
  generalize hsc : setLabelHere r1.st st.labelId = sc at hE hK hlab
  have hsc_code : sc.code = r1.st.code := by subst hsc; rfl
  have hsc_id : sc.labelId = r1.st.labelId := by subst hsc; rfl
  have hsc_top : sc.regTop = st.regTop := by subst hsc; simp [f1.regTop, hsa_top]
  have hsc_consts : sc.consts = r1.st.consts := by subst hsc; rfl
  obtain ⟨f2, hlt2, hb2, _⟩ := (comp_frame r).2 sc reg ec thenl elsel hasnext lb r1.b (by rw [hsc_top]; exact H.htop)
  generalize hr2 : comp r (.aux reg ec thenl elsel hasnext lb r1.b) sc = r2 at hE hK hlab f2 hlt2 hb2
  have hid1 : st.labelId + 1 ≤ r1.st.labelId := by rw [← hsa_id]; exact f1.labelId
  have hid2 : r1.st.labelId ≤ r2.st.labelId := by rw [← hsc_id]; exact f2.labelId
  -- the inner label
  have hnl : getLabelPc F st.labelId = (r1.st.code.length : Int) - 1 := by
    rw [hlab st.labelId (Nat.le_refl _) (by omega), f2.labels st.labelId (by omega), ← hsc]
    exact getLabelPc_setLabelHere_same _ _
  have hnlOK : LabelOK F st.labelId := by unfold LabelOK; omega
  have htgt : tgt F st.labelId = r1.st.code.length := by unfold tgt; rw [hnl]; omega
  have hpre1 : r1.st.code <+: F.code := by
    apply hE.prefix_lt (by rw [← hsc_code]; exact f2.code) (by rw [← hsc_code]; exact hlt2)
  -- the left operand
  have H1 : AuxHyp sa F reg ec st.labelId elsel false lb :=
    { htop := by rw [hsa_top]; exact H.htop, hreg := H.hreg, hsreg := H.hsreg,
      hthen := by omega, helse := by have := H.helse; omega, hle := by have := H.hle; omega,
      hlt := by have := H.hlt; omega, hlf := by have := H.hlf; omega, het := H.het, hef := H.hef,
      disc := ⟨fun h => Bool.noConfusion h, fun h => (by have := H.helse; omega), fun h => (by have := H.hle; omega)⟩,
      okThen := hnlOK, okElse := H.okElse, okE := H.okE, okT := H.okT, okF := H.okF, allOK := H.allOK }
  simp only [eval] at hev
  have hE1 : Emb F r1.st.code lb.e (false = false ∧ st.labelId = elsel) := Or.inl hpre1
  have hK1 : r1.st.consts <+: F.consts := (hsc_consts ▸ f2.consts).trans hK
  have hlab1 : ∀ L, sa.labelId ≤ L → L < r1.st.labelId → getLabelPc F L = getLabelPc r1.st L := by
    intro L h1 h2
    rw [hlab L (by omega) (by omega), f2.labels L (by omega), ← hsc, getLabelPc_setLabelHere_other _ (by omega)]
  cases hvl : eval d ρ γ l with
  | none =>
    have := hle sa F reg ec st.labelId elsel false lb b ρ γ H1 hloc.1 (by omega) hvl (by rw [hr1]; exact hE1)
      (by rw [hr1]; exact hK1) (by rw [hr1]; exact hlab1)
    rw [hsa_code] at this
    exact this
  | some vl =>
    simp only [hvl] at hev
    obtain ⟨ρ1, pc1, hreach1, hout1⟩ := hl sa F reg ec st.labelId elsel false lb b ρ γ vl H1 hloc.1 (by omega) hvl
      (by rw [hr1]; exact hE1) (by rw [hr1]; exact hK1) (by rw [hr1]; exact hlab1)
    rw [hr1] at hout1
    rw [hsa_code] at hreach1
    cases htl : d.truthy vl with
    | false => simp [htl] at hev
    | true =>
      simp only [htl, if_true] at hev
      have hj := hout1.1 htl
      have hcont : pc1 = r1.st.code.length ∧ FullFrame reg ρ ρ1 := by
        rcases hj with h | ⟨_, _, h, hf⟩
        · unfold JT at h
          rw [if_neg (by have := H.hle; show st.labelId ≠ lb.e; omega)] at h
          exact ⟨by rw [h.1, htgt], h.2⟩
        · exact ⟨h, hf⟩
      obtain ⟨hpc1, hf1⟩ := hcont
      subst hpc1
      have hevr : eval d ρ1 γ r = none := by rw [eval_congr d hf1 r hloc.2]; exact hev
      have H2 : AuxHyp sc F reg ec thenl elsel hasnext lb :=
        { htop := by rw [hsc_top]; exact H.htop, hreg := H.hreg, hsreg := H.hsreg,
          hthen := by have := H.hthen; omega, helse := by have := H.helse; omega, hle := by have := H.hle; omega,
          hlt := by have := H.hlt; omega, hlf := by have := H.hlf; omega, het := H.het, hef := H.hef, disc := H.disc,
          okThen := H.okThen, okElse := H.okElse, okE := H.okE, okT := H.okT, okF := H.okF, allOK := H.allOK }
      have := hre sc F reg ec thenl elsel hasnext lb r1.b ρ1 γ H2 hloc.2 (by omega) hevr
        (by rw [hr2]; exact hE) (by rw [hr2]; exact hK)
        (by rw [hr2]; intro L h1 h2; exact hlab L (by omega) h2)
      rw [hsc_code] at this
      exact Raises.of_reaches hreach1 this

theorem auxErr_or (d : Dom V) (l r : Cond) (hl : AuxSem d l) (hle : AuxErr d l) (hre : AuxErr d r) :
    AuxErr d (.or l r) := by
  intro st F reg ec thenl elsel hasnext lb b ρ γ H hloc hreg hev hE hK hlab
  simp only [rh] at hreg
  simp only [comp, newLabel] at hE hK hlab
  simp only [LocalsBelow] at hloc
  generalize hsa : ({ st with labelId := st.labelId + 1 } : CState) = sa at hE hK hlab
  have hsa_id : sa.labelId = st.labelId + 1 := by subst hsa; rfl
  have hsa_code : sa.code = st.code := by subst hsa; rfl
  have hsa_top : sa.regTop = st.regTop := by subst hsa; rfl
  obtain ⟨f1, hlt1, hb1, _⟩ := (comp_frame l).2 sa reg ec thenl st.labelId true lb b (by rw [hsa_top]; exact H.htop)
  generalize hr1 : comp l (.aux reg ec thenl st.labelId true lb b) sa = r1 at hE hK hlab f1 hlt1 hb1
  generalize hsc : setLabelHere r1.st st.labelId = sc at hE hK hlab
  have hsc_code : sc.code = r1.st.code := by subst hsc; rfl
  have hsc_id : sc.labelId = r1.st.labelId := by subst hsc; rfl
  have hsc_top : sc.regTop = st.regTop := by subst hsc; simp [f1.regTop, hsa_top]
  have hsc_consts : sc.consts = r1.st.consts := by subst hsc; rfl
  obtain ⟨f2, hlt2, hb2, _⟩ := (comp_frame r).2 sc reg ec thenl elsel hasnext lb r1.b (by rw [hsc_top]; exact H.htop)
  generalize hr2 : comp r (.aux reg ec thenl elsel hasnext lb r1.b) sc = r2 at hE hK hlab f2 hlt2 hb2
  have hid1 : st.labelId + 1 ≤ r1.st.labelId := by rw [← hsa_id]; exact f1.labelId
  have hid2 : r1.st.labelId ≤ r2.st.labelId := by rw [← hsc_id]; exact f2.labelId
  have hnl : getLabelPc F st.labelId = (r1.st.code.length : Int) - 1 := by
    rw [hlab st.labelId (Nat.le_refl _) (by omega), f2.labels st.labelId (by omega), ← hsc]
    exact getLabelPc_setLabelHere_same _ _
  have hnlOK : LabelOK F st.labelId := by unfold LabelOK; omega
  have htgt : tgt F st.labelId = r1.st.code.length := by unfold tgt; rw [hnl]; omega
  have hpre1 : r1.st.code <+: F.code := by
    apply hE.prefix_lt (by rw [← hsc_code]; exact f2.code) (by rw [← hsc_code]; exact hlt2)
  have H1 : AuxHyp sa F reg ec thenl st.labelId true lb :=
    { htop := by rw [hsa_top]; exact H.htop, hreg := H.hreg, hsreg := H.hsreg,
      hthen := by have := H.hthen; omega, helse := by omega, hle := by have := H.hle; omega,
      hlt := by have := H.hlt; omega, hlf := by have := H.hlf; omega, het := H.het, hef := H.hef,
      disc := ⟨fun _ => (by have := H.hle; omega), fun h => (by have := H.hthen; omega), fun _ _ => rfl⟩,
      okThen := H.okThen, okElse := hnlOK, okE := H.okE, okT := H.okT, okF := H.okF, allOK := H.allOK }
  simp only [eval] at hev
  have hE1 : Emb F r1.st.code lb.e (true = false ∧ thenl = st.labelId) := Or.inl hpre1
  have hK1 : r1.st.consts <+: F.consts := (hsc_consts ▸ f2.consts).trans hK
  have hlab1 : ∀ L, sa.labelId ≤ L → L < r1.st.labelId → getLabelPc F L = getLabelPc r1.st L := by
    intro L h1 h2
    rw [hlab L (by omega) (by omega), f2.labels L (by omega), ← hsc, getLabelPc_setLabelHere_other _ (by omega)]
  cases hvl : eval d ρ γ l with
  | none =>
    have := hle sa F reg ec thenl st.labelId true lb b ρ γ H1 hloc.1 (by omega) hvl (by rw [hr1]; exact hE1)
      (by rw [hr1]; exact hK1) (by rw [hr1]; exact hlab1)
    rw [hsa_code] at this
    exact this
  | some vl =>
    simp only [hvl] at hev
    obtain ⟨ρ1, pc1, hreach1, hout1⟩ := hl sa F reg ec thenl st.labelId true lb b ρ γ vl H1 hloc.1 (by omega) hvl
      (by rw [hr1]; exact hE1) (by rw [hr1]; exact hK1) (by rw [hr1]; exact hlab1)
    rw [hr1] at hout1
    rw [hsa_code] at hreach1
    cases htl : d.truthy vl with
    | true => simp [htl] at hev
    | false =>
      simp only [htl, Bool.false_eq_true, if_false] at hev
      have hj := hout1.2 htl
      have hcont : pc1 = r1.st.code.length ∧ FullFrame reg ρ ρ1 := by
        rcases hj with h | ⟨_, h, hf⟩ | ⟨h, _⟩
        · unfold JT at h
          rw [if_neg (by have := H.hle; show st.labelId ≠ lb.e; omega)] at h
          exact ⟨by rw [h.1, htgt], h.2⟩
        · exact ⟨h, hf⟩
        · have := H.hthen; omega
      obtain ⟨hpc1, hf1⟩ := hcont
      subst hpc1
      have hevr : eval d ρ1 γ r = none := by rw [eval_congr d hf1 r hloc.2]; exact hev
      have H2 : AuxHyp sc F reg ec thenl elsel hasnext lb :=
        { htop := by rw [hsc_top]; exact H.htop, hreg := H.hreg, hsreg := H.hsreg,
          hthen := by have := H.hthen; omega, helse := by have := H.helse; omega, hle := by have := H.hle; omega,
          hlt := by have := H.hlt; omega, hlf := by have := H.hlf; omega, het := H.het, hef := H.hef, disc := H.disc,
          okThen := H.okThen, okElse := H.okElse, okE := H.okE, okT := H.okT, okF := H.okF, allOK := H.allOK }
      have := hre sc F reg ec thenl elsel hasnext lb r1.b ρ1 γ H2 hloc.2 (by omega) hevr
        (by rw [hr2]; exact hE) (by rw [hr2]; exact hK)
        (by rw [hr2]; intro L h1 h2; exact hlab L (by omega) h2)
      rw [hsc_code] at this
      exact Raises.of_reaches hreach1 this

theorem exprErr_and (d : Dom V) (l r : Cond) (hl : AuxSem d l) (hle : AuxErr d l) (hre : AuxErr d r) :
    ExprErr d (.and l r) := by
  intro st F reg ec ρ γ htop hloc hreg hsreg hev hok hF hK hlab
  simp only [rh] at hreg
  simp only [comp, newLabel] at hF hK hlab
  simp only [LocalsBelow] at hloc
  generalize hs4 : ({ st with labelId := st.labelId + 1 + 1 + 1 + 1 } : CState) = s4 at hF hK hlab
  have hs4_id : s4.labelId = st.labelId + 4 := by subst hs4; rfl
  have hs4_code : s4.code = st.code := by subst hs4; rfl
  have hs4_top : s4.regTop = st.regTop := by subst hs4; rfl
  generalize hlb : (⟨st.labelId + 1, st.labelId + 1 + 1, st.labelId⟩ : LbLabels) = lb at hF hK hlab
  have hlbe : lb.e = st.labelId := by subst hlb; rfl
  have hlbt : lb.t = st.labelId + 1 := by subst hlb; rfl
  have hlbf : lb.f = st.labelId + 2 := by subst hlb; rfl
  obtain ⟨f1, hlt1, hb1, _⟩ := (comp_frame l).2 s4 reg ec (st.labelId + 1 + 1 + 1) st.labelId false lb false (by rw [hs4_top]; exact htop)
  generalize hr1 : comp l (.aux reg ec (st.labelId + 1 + 1 + 1) st.labelId false lb false) s4 = r1 at hF hK hlab f1 hlt1 hb1
  generalize hsc : setLabelHere r1.st (st.labelId + 1 + 1 + 1) = sc at hF hK hlab
  have hsc_code : sc.code = r1.st.code := by subst hsc; rfl
  have hsc_id : sc.labelId = r1.st.labelId := by subst hsc; rfl
  have hsc_top : sc.regTop = st.regTop := by subst hsc; simp [f1.regTop, hs4_top]
  have hsc_consts : sc.consts = r1.st.consts := by subst hsc; rfl
  obtain ⟨f2, hlt2, hb2, _⟩ := (comp_frame r).2 sc reg ec st.labelId st.labelId false lb r1.b (by rw [hsc_top]; exact htop)
  generalize hr2 : comp r (.aux reg ec st.labelId st.labelId false lb r1.b) sc = r2 at hF hK hlab f2 hlt2 hb2
  have hid1 : st.labelId + 4 ≤ r1.st.labelId := by rw [← hs4_id]; exact f1.labelId
  have hid2 : r1.st.labelId ≤ r2.st.labelId := by rw [← hsc_id]; exact f2.labelId
  have hfinId : (logicalTail r2.st (savereg ec reg) lb r2.b).labelId = r2.st.labelId := by
    unfold logicalTail
    rcases tailPop_cases (tailBools r2.st (savereg ec reg) lb r2.b) lb.e with h | ⟨h, _⟩ <;> rw [h] <;>
      simp [tailBools] <;> split <;> rfl
  rw [hfinId] at hlab
  have hfinK : (logicalTail r2.st (savereg ec reg) lb r2.b).consts = r2.st.consts := by
    unfold logicalTail
    rcases tailPop_cases (tailBools r2.st (savereg ec reg) lb r2.b) lb.e with h | ⟨h, _⟩ <;> rw [h] <;>
      simp [tailBools] <;> split <;> rfl
  rw [hfinK] at hK
  obtain ⟨htE, hEmb, hbools, hlabrest⟩ := logical_tail_facts F r2.st (savereg ec reg) lb r2.b
    ⟨by rw [hlbe, hlbt]; omega, by rw [hlbe, hlbf]; omega, by rw [hlbt, hlbf]; omega⟩ hF
    (hlab lb.e (by rw [hlbe]; exact Nat.le_refl _) (by rw [hlbe]; omega))
    (hlab lb.t (by rw [hlbt]; omega) (by rw [hlbt]; omega))
    (hlab lb.f (by rw [hlbf]; omega) (by rw [hlbf]; omega))
  -- lookups of labels allocated by the operands and of nextcondlabel
  have hlabIn : ∀ L, st.labelId + 3 ≤ L → L < r2.st.labelId → getLabelPc F L = getLabelPc r2.st L := by
    intro L h1 h2
    rw [hlab L (by omega) h2, hlabrest L (by rw [hlbe]; omega) (by rw [hlbt]; omega) (by rw [hlbf]; omega)]
  have hnl : getLabelPc F (st.labelId + 1 + 1 + 1) = (r1.st.code.length : Int) - 1 := by
    rw [hlabIn _ (by omega) (by omega), f2.labels _ (by omega), ← hsc]
    exact getLabelPc_setLabelHere_same _ _
  have htgtN : tgt F (st.labelId + 1 + 1 + 1) = r1.st.code.length := by unfold tgt; rw [hnl]; omega
  have hpre1 : r1.st.code <+: F.code := by
    apply hEmb.prefix_lt (by rw [← hsc_code]; exact f2.code) (by rw [← hsc_code]; exact hlt2)
  have H1 : AuxHyp s4 F reg ec (st.labelId + 1 + 1 + 1) st.labelId false lb :=
    { htop := by rw [hs4_top]; exact htop, hreg := (by omega), hsreg := hsreg,
      hthen := by omega, helse := by omega, hle := by omega, hlt := by omega, hlf := by omega,
      het := by rw [hlbe, hlbt]; omega, hef := by rw [hlbe, hlbf]; omega,
      disc := ⟨fun h => Bool.noConfusion h, fun h => (by omega), fun h => (by omega)⟩,
      okThen := hok _, okElse := hok _, okE := hok _, okT := hok _, okF := hok _, allOK := hok }
  have H2 : AuxHyp sc F reg ec st.labelId st.labelId false lb :=
    { htop := by rw [hsc_top]; exact htop, hreg := (by omega), hsreg := hsreg,
      hthen := by omega, helse := by omega, hle := by omega, hlt := by omega, hlf := by omega,
      het := by rw [hlbe, hlbt]; omega, hef := by rw [hlbe, hlbf]; omega,
      disc := ⟨fun h => Bool.noConfusion h, fun _ => hlbe.symm, fun _ h => absurd rfl h⟩,
      okThen := hok _, okElse := hok _, okE := hok _, okT := hok _, okF := hok _, allOK := hok }
  simp only [eval] at hev
  have hE1 : Emb F r1.st.code lb.e (false = false ∧ st.labelId + 1 + 1 + 1 = st.labelId) := Or.inl hpre1
  have hK1 : r1.st.consts <+: F.consts := (hsc_consts ▸ f2.consts).trans hK
  have hlab1 : ∀ L, s4.labelId ≤ L → L < r1.st.labelId → getLabelPc F L = getLabelPc r1.st L := by
    intro L h1 h2
    rw [hlabIn L (by omega) (by omega), f2.labels L (by omega), ← hsc, getLabelPc_setLabelHere_other _ (by omega)]
  cases hvl : eval d ρ γ l with
  | none =>
    have := hle s4 F reg ec (st.labelId + 1 + 1 + 1) st.labelId false lb false ρ γ H1 hloc.1 (by omega) hvl (by rw [hr1]; exact hE1)
      (by rw [hr1]; exact hK1) (by rw [hr1]; exact hlab1)
    rw [hs4_code] at this
    exact this
  | some vl =>
    simp only [hvl] at hev
    obtain ⟨ρ1, pc1, hreach1, hout1⟩ := hl s4 F reg ec (st.labelId + 1 + 1 + 1) st.labelId false lb false ρ γ vl H1 hloc.1 (by omega) hvl
      (by rw [hr1]; exact hE1) (by rw [hr1]; exact hK1) (by rw [hr1]; exact hlab1)
    rw [hr1] at hout1
    rw [hs4_code] at hreach1
    cases htl : d.truthy vl with
    | false => simp [htl] at hev
    | true =>
      simp only [htl, if_true] at hev
      have hcont : pc1 = r1.st.code.length ∧ FullFrame reg ρ ρ1 := by
        rcases hout1.1 htl with h | ⟨_, _, h, hf⟩
        · unfold JT at h
          rw [if_neg (by rw [hlbe]; omega)] at h
          exact ⟨by rw [h.1, htgtN], h.2⟩
        · exact ⟨h, hf⟩
      obtain ⟨hpc1, hf1⟩ := hcont
      subst hpc1
      have hevr : eval d ρ1 γ r = none := by rw [eval_congr d hf1 r hloc.2]; exact hev
      have := hre sc F reg ec st.labelId st.labelId false lb r1.b ρ1 γ H2 hloc.2 (by omega) hevr
        (by rw [hr2, ← hlbe]; exact hEmb) (by rw [hr2]; exact hK)
        (by rw [hr2]; intro L h1 h2; exact hlabIn L (by omega) h2)
      rw [hsc_code] at this
      exact Raises.of_reaches hreach1 this

theorem exprErr_or (d : Dom V) (l r : Cond) (hl : AuxSem d l) (hle : AuxErr d l) (hre : AuxErr d r) :
    ExprErr d (.or l r) := by
  intro st F reg ec ρ γ htop hloc hreg hsreg hev hok hF hK hlab
  simp only [rh] at hreg
  simp only [comp, newLabel] at hF hK hlab
  simp only [LocalsBelow] at hloc
  generalize hs4 : ({ st with labelId := st.labelId + 1 + 1 + 1 + 1 } : CState) = s4 at hF hK hlab
  have hs4_id : s4.labelId = st.labelId + 4 := by subst hs4; rfl
  have hs4_code : s4.code = st.code := by subst hs4; rfl
  have hs4_top : s4.regTop = st.regTop := by subst hs4; rfl
  generalize hlb : (⟨st.labelId + 1, st.labelId + 1 + 1, st.labelId⟩ : LbLabels) = lb at hF hK hlab
  have hlbe : lb.e = st.labelId := by subst hlb; rfl
  have hlbt : lb.t = st.labelId + 1 := by subst hlb; rfl
  have hlbf : lb.f = st.labelId + 2 := by subst hlb; rfl
  obtain ⟨f1, hlt1, hb1, _⟩ := (comp_frame l).2 s4 reg ec st.labelId (st.labelId + 1 + 1 + 1) true lb false (by rw [hs4_top]; exact htop)
  generalize hr1 : comp l (.aux reg ec st.labelId (st.labelId + 1 + 1 + 1) true lb false) s4 = r1 at hF hK hlab f1 hlt1 hb1
  generalize hsc : setLabelHere r1.st (st.labelId + 1 + 1 + 1) = sc at hF hK hlab
  have hsc_code : sc.code = r1.st.code := by subst hsc; rfl
  have hsc_id : sc.labelId = r1.st.labelId := by subst hsc; rfl
  have hsc_top : sc.regTop = st.regTop := by subst hsc; simp [f1.regTop, hs4_top]
  have hsc_consts : sc.consts = r1.st.consts := by subst hsc; rfl
  obtain ⟨f2, hlt2, hb2, _⟩ := (comp_frame r).2 sc reg ec st.labelId st.labelId false lb r1.b (by rw [hsc_top]; exact htop)
  generalize hr2 : comp r (.aux reg ec st.labelId st.labelId false lb r1.b) sc = r2 at hF hK hlab f2 hlt2 hb2
  have hid1 : st.labelId + 4 ≤ r1.st.labelId := by rw [← hs4_id]; exact f1.labelId
  have hid2 : r1.st.labelId ≤ r2.st.labelId := by rw [← hsc_id]; exact f2.labelId
  have hfinId : (logicalTail r2.st (savereg ec reg) lb r2.b).labelId = r2.st.labelId := by
    unfold logicalTail
    rcases tailPop_cases (tailBools r2.st (savereg ec reg) lb r2.b) lb.e with h | ⟨h, _⟩ <;> rw [h] <;>
      simp [tailBools] <;> split <;> rfl
  rw [hfinId] at hlab
  have hfinK : (logicalTail r2.st (savereg ec reg) lb r2.b).consts = r2.st.consts := by
    unfold logicalTail
    rcases tailPop_cases (tailBools r2.st (savereg ec reg) lb r2.b) lb.e with h | ⟨h, _⟩ <;> rw [h] <;>
      simp [tailBools] <;> split <;> rfl
  rw [hfinK] at hK
  obtain ⟨htE, hEmb, hbools, hlabrest⟩ := logical_tail_facts F r2.st (savereg ec reg) lb r2.b
    ⟨by rw [hlbe, hlbt]; omega, by rw [hlbe, hlbf]; omega, by rw [hlbt, hlbf]; omega⟩ hF
    (hlab lb.e (by rw [hlbe]; exact Nat.le_refl _) (by rw [hlbe]; omega))
    (hlab lb.t (by rw [hlbt]; omega) (by rw [hlbt]; omega))
    (hlab lb.f (by rw [hlbf]; omega) (by rw [hlbf]; omega))
  -- lookups of labels allocated by the operands and of nextcondlabel
  have hlabIn : ∀ L, st.labelId + 3 ≤ L → L < r2.st.labelId → getLabelPc F L = getLabelPc r2.st L := by
    intro L h1 h2
    rw [hlab L (by omega) h2, hlabrest L (by rw [hlbe]; omega) (by rw [hlbt]; omega) (by rw [hlbf]; omega)]
  have hnl : getLabelPc F (st.labelId + 1 + 1 + 1) = (r1.st.code.length : Int) - 1 := by
    rw [hlabIn _ (by omega) (by omega), f2.labels _ (by omega), ← hsc]
    exact getLabelPc_setLabelHere_same _ _
  have htgtN : tgt F (st.labelId + 1 + 1 + 1) = r1.st.code.length := by unfold tgt; rw [hnl]; omega
  have hpre1 : r1.st.code <+: F.code := by
    apply hEmb.prefix_lt (by rw [← hsc_code]; exact f2.code) (by rw [← hsc_code]; exact hlt2)
  have H1 : AuxHyp s4 F reg ec st.labelId (st.labelId + 1 + 1 + 1) true lb :=
    { htop := by rw [hs4_top]; exact htop, hreg := (by omega), hsreg := hsreg,
      hthen := by omega, helse := by omega, hle := by omega, hlt := by omega, hlf := by omega,
      het := by rw [hlbe, hlbt]; omega, hef := by rw [hlbe, hlbf]; omega,
      disc := ⟨fun _ => (by omega), fun h => (by omega), fun _ _ => rfl⟩,
      okThen := hok _, okElse := hok _, okE := hok _, okT := hok _, okF := hok _, allOK := hok }
  have H2 : AuxHyp sc F reg ec st.labelId st.labelId false lb :=
    { htop := by rw [hsc_top]; exact htop, hreg := (by omega), hsreg := hsreg,
      hthen := by omega, helse := by omega, hle := by omega, hlt := by omega, hlf := by omega,
      het := by rw [hlbe, hlbt]; omega, hef := by rw [hlbe, hlbf]; omega,
      disc := ⟨fun h => Bool.noConfusion h, fun _ => hlbe.symm, fun _ h => absurd rfl h⟩,
      okThen := hok _, okElse := hok _, okE := hok _, okT := hok _, okF := hok _, allOK := hok }
  simp only [eval] at hev
  have hE1 : Emb F r1.st.code lb.e (true = false ∧ st.labelId = st.labelId + 1 + 1 + 1) := Or.inl hpre1
  have hK1 : r1.st.consts <+: F.consts := (hsc_consts ▸ f2.consts).trans hK
  have hlab1 : ∀ L, s4.labelId ≤ L → L < r1.st.labelId → getLabelPc F L = getLabelPc r1.st L := by
    intro L h1 h2
    rw [hlabIn L (by omega) (by omega), f2.labels L (by omega), ← hsc, getLabelPc_setLabelHere_other _ (by omega)]
  cases hvl : eval d ρ γ l with
  | none =>
    have := hle s4 F reg ec st.labelId (st.labelId + 1 + 1 + 1) true lb false ρ γ H1 hloc.1 (by omega) hvl (by rw [hr1]; exact hE1)
      (by rw [hr1]; exact hK1) (by rw [hr1]; exact hlab1)
    rw [hs4_code] at this
    exact this
  | some vl =>
    simp only [hvl] at hev
    obtain ⟨ρ1, pc1, hreach1, hout1⟩ := hl s4 F reg ec st.labelId (st.labelId + 1 + 1 + 1) true lb false ρ γ vl H1 hloc.1 (by omega) hvl
      (by rw [hr1]; exact hE1) (by rw [hr1]; exact hK1) (by rw [hr1]; exact hlab1)
    rw [hr1] at hout1
    rw [hs4_code] at hreach1
    cases htl : d.truthy vl with
    | true => simp [htl] at hev
    | false =>
      simp only [htl, Bool.false_eq_true, if_false] at hev
      have hcont : pc1 = r1.st.code.length ∧ FullFrame reg ρ ρ1 := by
        rcases hout1.2 htl with h | ⟨_, h, hf⟩ | ⟨h, _⟩
        · unfold JT at h
          rw [if_neg (by rw [hlbe]; omega)] at h
          exact ⟨by rw [h.1, htgtN], h.2⟩
        · exact ⟨h, hf⟩
        · omega
      obtain ⟨hpc1, hf1⟩ := hcont
      subst hpc1
      have hevr : eval d ρ1 γ r = none := by rw [eval_congr d hf1 r hloc.2]; exact hev
      have := hre sc F reg ec st.labelId st.labelId false lb r1.b ρ1 γ H2 hloc.2 (by omega) hevr
        (by rw [hr2, ← hlbe]; exact hEmb) (by rw [hr2]; exact hK)
        (by rw [hr2]; intro L h1 h2; exact hlabIn L (by omega) h2)
      rw [hsc_code] at this
      exact Raises.of_reaches hreach1 this

/-- the main induction for raising expressions (expression mode, aux mode, concatenation chains). -/
theorem err_main3 (d : Dom V) (hd : d.Lawful) : ∀ (e : Cond), ExprErr d e ∧ AuxErr d e ∧ ChainErrS d e := by
  intro e
  induction e with
  | tru => exact ⟨exprErr_leaf d .tru rfl, auxErr_leaf d .tru rfl, fun _ _ h => by cases h⟩
  | fls => exact ⟨exprErr_leaf d .fls rfl, auxErr_leaf d .fls rfl, fun _ _ h => by cases h⟩
  | nil => exact ⟨exprErr_leaf d .nil rfl, auxErr_leaf d .nil rfl, fun _ _ h => by cases h⟩
  | num n => exact ⟨exprErr_leaf d (.num n) rfl, auxErr_leaf d (.num n) rfl, fun _ _ h => by cases h⟩
  | str s => exact ⟨exprErr_leaf d (.str s) rfl, auxErr_leaf d (.str s) rfl, fun _ _ h => by cases h⟩
  | loc r => exact ⟨exprErr_leaf d (.loc r) rfl, auxErr_leaf d (.loc r) rfl, fun _ _ h => by cases h⟩
  | ev id => exact ⟨exprErr_leaf d (.ev id) rfl, auxErr_leaf d (.ev id) rfl, fun _ _ h => by cases h⟩
  | not c ih =>
    have hex := exprErr_not d hd c (comp_frame c).1 (value_main d hd c).1 ih.1
    exact ⟨hex, auxErr_not d c hex, fun _ _ h => by cases h⟩
  | unm c ih =>
    have hex := exprErr_unm d hd c (comp_frame c).1 (value_main d hd c).1 ih.1
    exact ⟨hex, auxErr_unm d c hex, fun _ _ h => by cases h⟩
  | len c ih =>
    have hex := exprErr_len d hd c (comp_frame c).1 (value_main d hd c).1 ih.1
    exact ⟨hex, auxErr_len d c hex, fun _ _ h => by cases h⟩
  | arith op l r ihl ihr =>
    have hex := exprErr_arith d hd op l r (comp_frame l).1 (comp_frame r).1 (value_main d hd l).1 (value_main d hd r).1 ihl.1 ihr.1
    exact ⟨hex, auxErr_arith d op l r hex, fun _ _ h => by cases h⟩
  | concat l r ihl ihr =>
    have hch := chainErr_concat d l r (value_main d hd l).1 (value_main d hd r).1 (value_main3 d hd r).2.2 ihl.1 ihr.1 ihr.2.2
    have hex := exprErr_concat' d l r hch
    exact ⟨hex, auxErr_concat d l r hex, fun l' r' h => by cases h; exact hch⟩
  | rel op l r ihl ihr =>
    exact ⟨exprErr_rel d hd op l r (comp_frame l).1 (comp_frame r).1 (value_main d hd l).1 (value_main d hd r).1 ihl.1 ihr.1,
      auxErr_rel d hd op l r (comp_frame l).1 (comp_frame r).1 (value_main d hd l).1 (value_main d hd r).1 ihl.1 ihr.1,
      fun _ _ h => by cases h⟩
  | and l r ihl ihr =>
    exact ⟨exprErr_and d l r (value_main d hd l).2 ihl.2.1 ihr.2.1, auxErr_and d l r (value_main d hd l).2 ihl.2.1 ihr.2.1,
      fun _ _ h => by cases h⟩
  | or l r ihl ihr =>
    exact ⟨exprErr_or d l r (value_main d hd l).2 ihl.2.1 ihr.2.1, auxErr_or d l r (value_main d hd l).2 ihl.2.1 ihr.2.1,
      fun _ _ h => by cases h⟩

theorem err_main (d : Dom V) (hd : d.Lawful) (e : Cond) : ExprErr d e := (err_main3 d hd e).1

end GLua.Lowering
