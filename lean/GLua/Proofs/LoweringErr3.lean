/-
  The lowering theorems for expressions that RAISE, part 3: compileBranchCondition.
-/
import GLua.Proofs.LoweringErr2

namespace GLua.Lowering
open GLua.Compile GLua.MiniVM GLua.CondSpec

variable [NumStruct]
set_option linter.unusedSectionVars false
set_option linter.unusedVariables false
variable {V : Type}

theorem bcCode_err (d : Dom V) (hd : d.Lawful) (e : Cond) (st F : CState) (reg flip L : Nat) (ρ γ : Nat → V)
    (htop : st.regTop ≤ reg) (hloc : LocalsBelow reg e) (hreg : reg + rh e < 256) (hev : eval d ρ γ e = none)
    (hok : ∀ L, LabelOK F L)
    (hF : (bcCode e st reg flip L).code <+: F.code) (hK : (bcCode e st reg flip L).consts <+: F.consts)
    (hlab : ∀ L', st.labelId ≤ L' → L' < (bcCode e st reg flip L).labelId → getLabelPc F L' = getLabelPc (bcCode e st reg flip L) L') :
    Raises d (P0 F) F.consts ⟨st.code.length, ρ, γ⟩ :=
  opr_err d hd false e (comp_frame e).1 (err_main d hd e) st F reg ρ γ htop hloc hreg hev hok
    (List.IsPrefix.trans (by simp [bcCode]) hF) (by simpa [bcCode] using hK) (by simpa [bcCode, getLabelPc] using hlab)

/-- **compileBranchCondition on a raising condition**: the emitted code raises. -/
theorem bcx_err (d : Dom V) (hd : d.Lawful) : ∀ (e : Cond)
    (st F : CState) (reg thenl elsel : Nat) (hasnext : Bool) (ρ γ : Nat → V),
    st.regTop ≤ reg → LocalsBelow reg e → reg + rh e < 256 → (∀ L, LabelOK F L) →
    eval d ρ γ e = none →
    (comp e (.bc reg thenl elsel hasnext) st).st.code <+: F.code →
    (comp e (.bc reg thenl elsel hasnext) st).st.consts <+: F.consts →
    (∀ L, st.labelId ≤ L → L < (comp e (.bc reg thenl elsel hasnext) st).st.labelId →
        getLabelPc F L = getLabelPc (comp e (.bc reg thenl elsel hasnext) st).st L) →
    Raises d (P0 F) F.consts ⟨st.code.length, ρ, γ⟩ := by
  have leaf : ∀ e, isLeaf e = true → ∀ (st F : CState) (reg thenl elsel : Nat) (hasnext : Bool) (ρ γ : Nat → V),
      st.regTop ≤ reg → LocalsBelow reg e → reg + rh e < 256 → (∀ L, LabelOK F L) →
      eval d ρ γ e = none →
      (comp e (.bc reg thenl elsel hasnext) st).st.code <+: F.code →
      (comp e (.bc reg thenl elsel hasnext) st).st.consts <+: F.consts →
      (∀ L, st.labelId ≤ L → L < (comp e (.bc reg thenl elsel hasnext) st).st.labelId →
          getLabelPc F L = getLabelPc (comp e (.bc reg thenl elsel hasnext) st).st L) →
      Raises d (P0 F) F.consts ⟨st.code.length, ρ, γ⟩ := by
    intro e he st F reg thenl elsel hasnext ρ γ _ _ _ _ hev
    cases e <;> simp [isLeaf] at he <;> simp [eval] at hev
  have defK : ∀ e, bcDefaultKind e = true → ∀ (st F : CState) (reg thenl elsel : Nat) (hasnext : Bool) (ρ γ : Nat → V),
      st.regTop ≤ reg → LocalsBelow reg e → reg + rh e < 256 → (∀ L, LabelOK F L) →
      eval d ρ γ e = none →
      (comp e (.bc reg thenl elsel hasnext) st).st.code <+: F.code →
      (comp e (.bc reg thenl elsel hasnext) st).st.consts <+: F.consts →
      (∀ L, st.labelId ≤ L → L < (comp e (.bc reg thenl elsel hasnext) st).st.labelId →
          getLabelPc F L = getLabelPc (comp e (.bc reg thenl elsel hasnext) st).st L) →
      Raises d (P0 F) F.consts ⟨st.code.length, ρ, γ⟩ := by
    intro e he st F reg thenl elsel hasnext ρ γ htop hloc hreg hok hev hF hK hlab
    rw [bc_default_eq e he] at hF hK hlab
    exact bcCode_err d hd e st F reg _ _ ρ γ htop hloc hreg hev hok hF hK hlab
  intro e
  induction e with
  | tru => exact leaf _ rfl
  | num n => exact leaf _ rfl
  | str s => exact leaf _ rfl
  | fls => exact leaf _ rfl
  | nil => exact leaf _ rfl
  | loc r => exact leaf _ rfl
  | ev id => exact leaf _ rfl
  | arith op l r _ _ => exact defK _ rfl
  | unm c _ => exact defK _ rfl
  | len c _ => exact defK _ rfl
  | concat l r _ _ => exact defK _ rfl
  | not c ih =>
    intro st F reg thenl elsel hasnext ρ γ htop hloc hreg hok hev hF hK hlab
    simp only [comp] at hF hK hlab
    have hn : eval d ρ γ c = none := by
      simp only [eval] at hev
      cases h : eval d ρ γ c with
      | none => rfl
      | some v => simp [h] at hev
    exact ih st F reg elsel thenl (!hasnext) ρ γ htop hloc hreg hok hn hF hK hlab
  | rel op l r _ _ =>
    intro st F reg thenl elsel hasnext ρ γ htop hloc hreg hok hev hF hK hlab
    have hcomp : (comp (.rel op l r) (.bc reg thenl elsel hasnext) st).st =
        relCode op l r st reg (flipOf hasnext) (if hasnext then thenl else elsel) := by
      simp only [comp, relAux_eq]; rfl
    rw [hcomp] at hF hK hlab
    simp only [LocalsBelow] at hloc
    simp only [rh] at hreg
    exact relCode_err d hd op l r (comp_frame l).1 (comp_frame r).1 (value_main d hd l).1 (value_main d hd r).1
      (err_main d hd l) (err_main d hd r) st F reg _ _ ρ γ htop hloc.1 hloc.2 hreg hev hok
      (List.IsPrefix.trans (by simp [relCode]) hF) hK hlab
  | and l r ihl ihr =>
    intro st F reg thenl elsel hasnext ρ γ htop hloc hreg hok hev hF hK hlab
    have hLt := hok thenl
    have hLe := hok elsel
    simp only [rh] at hreg
    simp only [LocalsBelow] at hloc
    simp only [comp, newLabel] at hF hK hlab
    -- names
    generalize hsta : ({ st with labelId := st.labelId + 1 } : CState) = sta at hF hK hlab
    have hsta_id : sta.labelId = st.labelId + 1 := by subst hsta; rfl
    have hsta_code : sta.code = st.code := by subst hsta; rfl
    have hsta_top : sta.regTop = st.regTop := by subst hsta; rfl
    generalize hr1 : (comp l (.bc reg st.labelId elsel false) sta).st = s1 at hF hK hlab
    have f1 : Frame sta.labelId sta s1 := by rw [← hr1]; exact bcx_frame l sta reg _ _ _ (by rw [hsta_top]; exact htop)
    generalize hsc : setLabelHere s1 st.labelId = sc at hF hK hlab
    have fc : Frame st.labelId s1 sc := by rw [← hsc]; exact frame_setLabelHere _ _ (Nat.le_refl _)
    have hsc_code : sc.code = s1.code := by subst hsc; rfl
    have hsc_id : sc.labelId = s1.labelId := by subst hsc; rfl
    have hsc_top : sc.regTop = st.regTop := by rw [fc.regTop, f1.regTop, hsta_top]
    generalize hs2 : (comp r (.bc reg thenl elsel hasnext) sc).st = s2 at hF hK hlab
    have f2 : Frame sc.labelId sc s2 := by rw [← hs2]; exact bcx_frame r sc reg _ _ _ (by rw [hsc_top]; exact htop)
    have hid1 : st.labelId + 1 ≤ s1.labelId := by rw [← hsta_id]; exact f1.labelId
    have hid2 : s1.labelId ≤ s2.labelId := by rw [← hsc_id]; exact f2.labelId
    -- the binding of nextcondlabel in F
    have hnl : getLabelPc F st.labelId = (s1.code.length : Int) - 1 := by
      rw [hlab st.labelId (Nat.le_refl _) (by omega), f2.labels st.labelId (by omega), ← hsc]
      exact getLabelPc_setLabelHere_same _ _
    have hnlOK : LabelOK F st.labelId := by unfold LabelOK; omega
    have htgt : tgt F st.labelId = s1.code.length := by unfold tgt; rw [hnl]; omega
    -- value of the left operand
    simp only [eval] at hev
    have hlabL : ∀ L, sta.labelId ≤ L → L < s1.labelId → getLabelPc F L = getLabelPc s1 L := by
      intro L h1 h2
      rw [hlab L (by omega) (by omega), f2.labels L (by omega), ← hsc, getLabelPc_setLabelHere_other _ (by omega)]
    have hF1 : s1.code <+: F.code := (fc.code.trans f2.code).trans hF
    have hK1 : s1.consts <+: F.consts := (fc.consts.trans f2.consts).trans hK
    cases hvl : eval d ρ γ l with
    | none =>
      have := ihl sta F reg st.labelId elsel false ρ γ (by rw [hsta_top]; exact htop) hloc.1 (by omega) hok hvl
        (by rw [hr1]; exact hF1) (by rw [hr1]; exact hK1) (by rw [hr1]; exact hlabL)
      rw [hsta_code] at this
      exact this
    | some vl =>
      simp only [hvl] at hev
      obtain ⟨ρ1, pc1, hreach1, hag1, hbo1⟩ := bcx_correct d hd l sta F reg st.labelId elsel false ρ γ vl (by rw [hsta_top]; exact htop)
        hloc.1 (by omega) hok hvl (by rw [hr1]; exact hF1) (by rw [hr1]; exact hK1) (by rw [hr1]; exact hlabL)
      rw [hsta_code] at hreach1
      rw [hr1] at hbo1
      cases htl : d.truthy vl with
      | false => simp [htl] at hev
      | true =>
        simp only [htl, if_true] at hev
        rw [htl] at hbo1
        have hpc1 : pc1 = s1.code.length := by
          rcases hbo1.1 rfl with h | ⟨_, h⟩
          · rw [h, htgt]
          · exact h
        subst hpc1
        have hevr : eval d ρ1 γ r = none := by rw [eval_congr d hag1 r hloc.2]; exact hev
        have := ihr sc F reg thenl elsel hasnext ρ1 γ (by rw [hsc_top]; exact htop) hloc.2 (by omega) hok hevr
          (by rw [hs2]; exact hF) (by rw [hs2]; exact hK) (by rw [hs2]; intro L h1 h2; exact hlab L (by omega) h2)
        rw [hsc_code] at this
        exact Raises.of_reaches hreach1 this
  | or l r ihl ihr =>
    intro st F reg thenl elsel hasnext ρ γ htop hloc hreg hok hev hF hK hlab
    have hLt := hok thenl
    have hLe := hok elsel
    simp only [rh] at hreg
    simp only [LocalsBelow] at hloc
    simp only [comp, newLabel] at hF hK hlab
    generalize hsta : ({ st with labelId := st.labelId + 1 } : CState) = sta at hF hK hlab
    have hsta_id : sta.labelId = st.labelId + 1 := by subst hsta; rfl
    have hsta_code : sta.code = st.code := by subst hsta; rfl
    have hsta_top : sta.regTop = st.regTop := by subst hsta; rfl
    generalize hr1 : (comp l (.bc reg thenl st.labelId true) sta).st = s1 at hF hK hlab
    have f1 : Frame sta.labelId sta s1 := by rw [← hr1]; exact bcx_frame l sta reg _ _ _ (by rw [hsta_top]; exact htop)
    generalize hsc : setLabelHere s1 st.labelId = sc at hF hK hlab
    have fc : Frame st.labelId s1 sc := by rw [← hsc]; exact frame_setLabelHere _ _ (Nat.le_refl _)
    have hsc_code : sc.code = s1.code := by subst hsc; rfl
    have hsc_id : sc.labelId = s1.labelId := by subst hsc; rfl
    have hsc_top : sc.regTop = st.regTop := by rw [fc.regTop, f1.regTop, hsta_top]
    generalize hs2 : (comp r (.bc reg thenl elsel hasnext) sc).st = s2 at hF hK hlab
    have f2 : Frame sc.labelId sc s2 := by rw [← hs2]; exact bcx_frame r sc reg _ _ _ (by rw [hsc_top]; exact htop)
    have hid1 : st.labelId + 1 ≤ s1.labelId := by rw [← hsta_id]; exact f1.labelId
    have hid2 : s1.labelId ≤ s2.labelId := by rw [← hsc_id]; exact f2.labelId
    have hnl : getLabelPc F st.labelId = (s1.code.length : Int) - 1 := by
      rw [hlab st.labelId (Nat.le_refl _) (by omega), f2.labels st.labelId (by omega), ← hsc]
      exact getLabelPc_setLabelHere_same _ _
    have hnlOK : LabelOK F st.labelId := by unfold LabelOK; omega
    have htgt : tgt F st.labelId = s1.code.length := by unfold tgt; rw [hnl]; omega
    simp only [eval] at hev
    have hlabL : ∀ L, sta.labelId ≤ L → L < s1.labelId → getLabelPc F L = getLabelPc s1 L := by
      intro L h1 h2
      rw [hlab L (by omega) (by omega), f2.labels L (by omega), ← hsc, getLabelPc_setLabelHere_other _ (by omega)]
    have hF1 : s1.code <+: F.code := (fc.code.trans f2.code).trans hF
    have hK1 : s1.consts <+: F.consts := (fc.consts.trans f2.consts).trans hK
    cases hvl : eval d ρ γ l with
    | none =>
      have := ihl sta F reg thenl st.labelId true ρ γ (by rw [hsta_top]; exact htop) hloc.1 (by omega) hok hvl
        (by rw [hr1]; exact hF1) (by rw [hr1]; exact hK1) (by rw [hr1]; exact hlabL)
      rw [hsta_code] at this
      exact this
    | some vl =>
      simp only [hvl] at hev
      obtain ⟨ρ1, pc1, hreach1, hag1, hbo1⟩ := bcx_correct d hd l sta F reg thenl st.labelId true ρ γ vl (by rw [hsta_top]; exact htop)
        hloc.1 (by omega) hok hvl (by rw [hr1]; exact hF1) (by rw [hr1]; exact hK1) (by rw [hr1]; exact hlabL)
      rw [hsta_code] at hreach1
      rw [hr1] at hbo1
      cases htl : d.truthy vl with
      | true => simp [htl] at hev
      | false =>
        simp only [htl, Bool.false_eq_true, if_false] at hev
        rw [htl] at hbo1
        have hpc1 : pc1 = s1.code.length := by
          rcases hbo1.2 rfl with h | ⟨_, h⟩
          · rw [h, htgt]
          · exact h
        subst hpc1
        have hevr : eval d ρ1 γ r = none := by rw [eval_congr d hag1 r hloc.2]; exact hev
        have := ihr sc F reg thenl elsel hasnext ρ1 γ (by rw [hsc_top]; exact htop) hloc.2 (by omega) hok hevr
          (by rw [hs2]; exact hF) (by rw [hs2]; exact hK) (by rw [hs2]; intro L h1 h2; exact hlab L (by omega) h2)
        rw [hsc_code] at this
        exact Raises.of_reaches hreach1 this

/-- `Raises` in terms of the fuel-bounded interpreter: some run ends in `luaError`. -/
theorem Raises.run {d : Dom V} {code : List Instr} {consts : List Konst} {s : VM V} (h : Raises d code consts s) :
    ∃ n site, MiniVM.run d code consts n s = some (.luaError site) := by
  obtain ⟨s', site, hr, hs⟩ := h
  induction hr with
  | refl s0 => exact ⟨1, site, by simp [MiniVM.run, hs]⟩
  | step hstep _ ih =>
    obtain ⟨n, site', hn⟩ := ih hs
    exact ⟨n + 1, site', by simp [MiniVM.run, hstep, hn]⟩

end GLua.Lowering
