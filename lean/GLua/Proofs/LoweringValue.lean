/-
  Correctness of the lowering of conditions in VALUE context (`compileExpr` on not / relational / and / or,
  `compileLogicalOpExpr`, `compileLogicalOpExprAux`) on the same fragment as the branch-context theorem.
  Part 1: frame facts for all modes.
-/
import GLua.Proofs.Lowering

namespace GLua.Lowering
open GLua.Compile GLua.MiniVM GLua.CondSpec

variable {V : Type}

/-! ### lists / primitive steps -/

theorem prefix_dropLast {α} {l1 l2 : List α} (h : l1 <+: l2) (hlt : l1.length < l2.length) : l1 <+: l2.dropLast := by
  obtain ⟨t, rfl⟩ := h
  have ht : t ≠ [] := by intro h0; subst h0; simp at hlt
  rw [List.dropLast_append_of_ne_nil ht]
  exact List.prefix_append _ _

theorem frame_pop {lo : Nat} {a b : CState} (h : Frame lo a b) (hlt : a.code.length < b.code.length) : Frame lo a (pop b) :=
  ⟨prefix_dropLast h.code hlt, h.labelId, h.labels, h.regTop, h.consts⟩

@[simp] theorem setLabelHere_code (st : CState) (L : Nat) : (setLabelHere st L).code = st.code := rfl
@[simp] theorem setLabelHere_consts (st : CState) (L : Nat) : (setLabelHere st L).consts = st.consts := rfl
@[simp] theorem setLabelHere_labelId (st : CState) (L : Nat) : (setLabelHere st L).labelId = st.labelId := rfl
@[simp] theorem setLabelHere_regTop (st : CState) (L : Nat) : (setLabelHere st L).regTop = st.regTop := rfl
@[simp] theorem pop_labelId (st : CState) : (pop st).labelId = st.labelId := rfl
@[simp] theorem pop_consts (st : CState) : (pop st).consts = st.consts := rfl
@[simp] theorem pop_regTop (st : CState) : (pop st).regTop = st.regTop := rfl
@[simp] theorem pop_labelPc (st : CState) : (pop st).labelPc = st.labelPc := rfl
@[simp] theorem pop_code (st : CState) : (pop st).code = st.code.dropLast := rfl

/-- the last instruction is neither a MOVE nor a LOADK (so Propagate(K)MV leaves it alone). -/
def LastOK (st : CState) : Prop := (∀ a b, last st ≠ some (.move a b)) ∧ (∀ a b, last st ≠ some (.loadk a b))

theorem propagate_lastOK (kmv : Bool) (st : CState) (top reg inc : Nat) (h : LastOK st) :
    propagate kmv st top reg inc = (st, reg, reg + inc) := by
  unfold propagate
  split
  · rename_i a bx hl; exact absurd hl (h.2 a bx)
  · rename_i a b hl; exact absurd hl (h.1 a b)
  · rfl

theorem tailBools_frame {lo : Nat} (st : CState) (a : Nat) (lb : LbLabels) (b : Bool) (hlo : lo ≤ lb.t ∧ lo ≤ lb.f) :
    Frame lo st (tailBools st a lb b) ∧ st.code.length ≤ (tailBools st a lb b).code.length := by
  unfold tailBools
  split
  · exact ⟨(frame_setLabelHere _ _ hlo.2).trans ((frame_emit _ _).trans ((frame_setLabelHere _ _ hlo.1).trans (frame_emit _ _))),
      by simp⟩
  · exact ⟨Frame.refl _, Nat.le_refl _⟩

theorem tailPop_cases (st : CState) (e : Nat) :
    (tailPop st e = st) ∨ (tailPop st e = pop st ∧ ∃ c, st.code = c ++ [.jmp (e : Int)]) := by
  unfold tailPop
  split
  · rename_i sbx hl
    split
    · rename_i hs
      right
      subst hs
      simp only [last] at hl
      obtain ⟨ys, hys⟩ := List.getLast?_eq_some_iff.mp hl
      exact ⟨rfl, ys, hys⟩
    · left; rfl
  · left; rfl

/-- frame of `logicalTail` (the code may lose its last instruction). -/
theorem logicalTail_frame {lo : Nat} (s0 st : CState) (a : Nat) (lb : LbLabels) (b : Bool)
    (h : Frame lo s0 st) (hlt : s0.code.length < st.code.length) (hlo : lo ≤ lb.e ∧ lo ≤ lb.t ∧ lo ≤ lb.f) :
    Frame lo s0 (logicalTail st a lb b) ∧ s0.code.length ≤ (logicalTail st a lb b).code.length := by
  unfold logicalTail
  obtain ⟨f8, hle8⟩ := tailBools_frame (lo := lo) st a lb b ⟨hlo.2.1, hlo.2.2⟩
  have f8' := h.trans f8
  have hlt8 : s0.code.length < (tailBools st a lb b).code.length := by omega
  rcases tailPop_cases (tailBools st a lb b) lb.e with hp | ⟨hp, _⟩
  · rw [hp]; exact ⟨f8'.trans (frame_setLabelHere _ _ hlo.1), by simp; omega⟩
  · rw [hp]
    refine ⟨(frame_pop f8' hlt8).trans (frame_setLabelHere _ _ hlo.1), ?_⟩
    simp; omega


/-! ### frame facts of every mode -/

theorem leafExpr_frame {lo : Nat} (e : Cond) (he : isLeaf e = true) (reg : Nat) (ec : ExpCtx) (st : CState) :
    Frame lo st (leafExpr e reg ec st).st ∧ (leafExpr e reg ec st).st.code.length = st.code.length + 1 ∧
    (leafExpr e reg ec st).inc = (if savereg ec reg < reg then 0 else 1) := by
  cases e <;> simp [isLeaf] at he
  case tru => exact ⟨frame_emit _ _, by simp [leafExpr], rfl⟩
  case fls => exact ⟨frame_emit _ _, by simp [leafExpr], rfl⟩
  case nil => exact ⟨frame_emit _ _, by simp [leafExpr], rfl⟩
  case loc r => exact ⟨frame_emit _ _, by simp [leafExpr], rfl⟩
  case num n =>
    obtain ⟨_, _, h3, _⟩ := constIndex_spec st (.num n)
    exact ⟨(frame_constIndex st (.num n)).trans (frame_emit _ _), by simp [leafExpr, h3], rfl⟩
  case str n =>
    obtain ⟨_, _, h3, _⟩ := constIndex_spec st (.str n)
    exact ⟨(frame_constIndex st (.str n)).trans (frame_emit _ _), by simp [leafExpr, h3], rfl⟩
  case ev id =>
    obtain ⟨_, _, h3, _⟩ := constIndex_spec st (gname id)
    exact ⟨(frame_constIndex st (gname id)).trans (frame_emit _ _), by simp [leafExpr, h3], rfl⟩

def ExprFrame (e : Cond) : Prop := ∀ (st : CState) (reg : Nat) (ec : ExpCtx), st.regTop ≤ reg →
    Frame st.labelId st (comp e (.expr reg ec) st).st ∧
    st.code.length < (comp e (.expr reg ec) st).st.code.length ∧
    (comp e (.expr reg ec) st).inc = (if savereg ec reg < reg then 0 else 1) ∧
    (isLeaf e = false → e.isLogical = false → LastOK (comp e (.expr reg ec) st).st)

def AuxFrame (e : Cond) : Prop := ∀ (st : CState) (reg : Nat) (ec : ExpCtx) (thenl elsel : Nat) (hasnext : Bool) (lb : LbLabels) (b : Bool),
    st.regTop ≤ reg →
    Frame st.labelId st (comp e (.aux reg ec thenl elsel hasnext lb b) st).st ∧
    st.code.length < (comp e (.aux reg ec thenl elsel hasnext lb b) st).st.code.length ∧
    (b = true → (comp e (.aux reg ec thenl elsel hasnext lb b) st).b = true)

theorem lastOK_emit_not (st : CState) (a b : Nat) : LastOK (emit st (.not a b)) := by
  constructor <;> intro x y <;> simp
theorem lastOK_emit_loadbool (st : CState) (a b c : Nat) : LastOK (emit st (.loadbool a b c)) := by
  constructor <;> intro x y <;> simp

/-- the operand of `not` (compileExprWithMVPropagation): result of `withPropagation false`. -/
theorem notOperand_frame (c : Cond) (hc : ExprFrame c) (st : CState) (reg : Nat) (htop : st.regTop ≤ reg) :
    Frame st.labelId st (withPropagation false c.isLogical (comp c (.expr reg ecnone0) st) reg).1 ∧
    st.code.length ≤ (withPropagation false c.isLogical (comp c (.expr reg ecnone0) st) reg).1.code.length := by
  obtain ⟨f, hlt, _, hlast⟩ := hc st reg ecnone0 htop
  by_cases hleaf : isLeaf c = true
  · have : withPropagation false c.isLogical (comp c (.expr reg ecnone0) st) reg = opnd false c reg st := by
      rw [comp_leaf_expr c hleaf, isLogical_leaf c hleaf]; rfl
    rw [this]
    have f' := opnd_frame (lo := st.labelId) false c reg st hleaf htop
    exact ⟨f', by have := f'.code.length_le; exact this⟩
  · by_cases hlog : c.isLogical = true
    · simp only [withPropagation, hlog, if_true]
      exact ⟨f, Nat.le_of_lt hlt⟩
    · have hlog' : c.isLogical = false := by simpa using hlog
      have hleaf' : isLeaf c = false := by simpa using hleaf
      simp only [withPropagation, hlog', Bool.false_eq_true, if_false]
      rw [propagate_lastOK _ _ _ _ _ (hlast hleaf' hlog')]
      exact ⟨f, Nat.le_of_lt hlt⟩

theorem notExpr_frame (c : Cond) (hc : ExprFrame c) (st : CState) (reg : Nat) (ec : ExpCtx) (htop : st.regTop ≤ reg) :
    Frame st.labelId st (notExpr c (fun s => comp c (.expr reg ecnone0) s) reg ec st).st ∧
    st.code.length < (notExpr c (fun s => comp c (.expr reg ecnone0) s) reg ec st).st.code.length ∧
    (notExpr c (fun s => comp c (.expr reg ecnone0) s) reg ec st).inc = (if savereg ec reg < reg then 0 else 1) ∧
    LastOK (notExpr c (fun s => comp c (.expr reg ecnone0) s) reg ec st).st := by
  have general : ∀ (hne : c ≠ .tru ∧ c ≠ .fls ∧ c ≠ .nil),
      notExpr c (fun s => comp c (.expr reg ecnone0) s) reg ec st =
        { st := emit (withPropagation false c.isLogical (comp c (.expr reg ecnone0) st) reg).1
                  (.not (savereg ec reg) (withPropagation false c.isLogical (comp c (.expr reg ecnone0) st) reg).2.1),
          inc := if savereg ec reg < reg then 0 else 1 } := by
    intro hne
    cases c <;> simp_all [notExpr]
  by_cases h1 : c = .tru
  · subst h1; exact ⟨frame_emit _ _, by simp [notExpr], rfl, lastOK_emit_loadbool _ _ _ _⟩
  by_cases h2 : c = .fls
  · subst h2; exact ⟨frame_emit _ _, by simp [notExpr], rfl, lastOK_emit_loadbool _ _ _ _⟩
  by_cases h3 : c = .nil
  · subst h3; exact ⟨frame_emit _ _, by simp [notExpr], rfl, lastOK_emit_loadbool _ _ _ _⟩
  rw [general ⟨h1, h2, h3⟩]
  obtain ⟨f, hle⟩ := notOperand_frame c hc st reg htop
  exact ⟨f.trans (frame_emit _ _), by simp; omega, rfl, lastOK_emit_not _ _ _⟩


theorem ite_emit (c : Prop) [Decidable c] (s : CState) (i1 i2 : Instr) :
    (if c then emit s i1 else emit s i2) = emit s (if c then i1 else i2) := by
  split <;> rfl

theorem moveTo_nomove (s : CState) (sreg a : Nat) (h : ∀ a' b', last s ≠ some (.move a' b')) :
    moveTo s sreg a = emit s (.move sreg a) := by
  unfold moveTo
  split
  · rename_i a' b' hl; exact absurd hl (h a' b')
  · rfl

theorem moveTo_move (st : CState) (sreg a b' : Nat) : moveTo (emit st (.move a b')) sreg a = emit st (.move sreg b') := by
  simp [moveTo]

theorem moveTo_frame {lo : Nat} (s0 s : CState) (sreg a : Nat) (f : Frame lo s0 s) (hlt : s0.code.length < s.code.length) :
    Frame lo s0 (moveTo s sreg a) ∧ s0.code.length < (moveTo s sreg a).code.length := by
  unfold moveTo
  split
  · split
    · exact ⟨(frame_pop f hlt).trans (frame_emit _ _), by
        simp only [emit_code, pop_code, List.length_append, List.length_dropLast, List.length_singleton]; omega⟩
    · exact ⟨f.trans (frame_emit _ _), by simp; omega⟩
  · exact ⟨f.trans (frame_emit _ _), by simp; omega⟩

theorem auxDefault_frame (sub : ExpCtx → CState → Res) (reg : Nat) (ec : ExpCtx) (thenl elsel : Nat) (hasnext : Bool)
    (lb : LbLabels) (b : Bool) (st : CState)
    (hsub : ∀ ec', Frame st.labelId st (sub ec' st).st ∧ st.code.length < (sub ec' st).st.code.length) :
    Frame st.labelId st (auxDefault sub reg ec thenl elsel hasnext lb b st).st ∧
    st.code.length < (auxDefault sub reg ec thenl elsel hasnext lb b st).st.code.length ∧
    (auxDefault sub reg ec thenl elsel hasnext lb b st).b = b := by
  unfold auxDefault
  simp only []
  split
  · obtain ⟨f, hlt⟩ := hsub ⟨ec.ctype, max reg (savereg ec reg)⟩
    obtain ⟨f', hlt'⟩ := moveTo_frame st _ (savereg ec reg) reg f hlt
    exact ⟨f'.trans (frame_emit _ _), by simp; omega, rfl⟩
  · obtain ⟨f, hlt⟩ := hsub ecnone0
    rw [ite_emit]
    exact ⟨(f.trans (frame_emit _ _)).trans (frame_emit _ _), by simp; omega, rfl⟩

theorem comp_frame : ∀ (e : Cond), BCFrag e → ExprFrame e ∧ AuxFrame e := by
  intro e
  induction e with
  | tru =>
    intro _
    refine ⟨fun st reg ec _ => ?_, fun st reg ec thenl elsel hasnext lb b _ => ?_⟩
    · obtain ⟨f, hl, hi⟩ := leafExpr_frame (lo := st.labelId) .tru rfl reg ec st
      exact ⟨by simpa [comp] using f, by simp only [comp]; omega, by simpa [comp] using hi, fun h => by simp [isLeaf] at h⟩
    · simp only [comp]; split <;> exact ⟨frame_emit _ _, by simp, fun h => by simp [h]⟩
  | fls =>
    intro _
    refine ⟨fun st reg ec _ => ?_, fun st reg ec thenl elsel hasnext lb b _ => ?_⟩
    · obtain ⟨f, hl, hi⟩ := leafExpr_frame (lo := st.labelId) .fls rfl reg ec st
      exact ⟨by simpa [comp] using f, by simp only [comp]; omega, by simpa [comp] using hi, fun h => by simp [isLeaf] at h⟩
    · simp only [comp]; split <;> exact ⟨frame_emit _ _, by simp, fun h => by simp [h]⟩
  | nil =>
    intro _
    refine ⟨fun st reg ec _ => ?_, fun st reg ec thenl elsel hasnext lb b _ => ?_⟩
    · obtain ⟨f, hl, hi⟩ := leafExpr_frame (lo := st.labelId) .nil rfl reg ec st
      exact ⟨by simpa [comp] using f, by simp only [comp]; omega, by simpa [comp] using hi, fun h => by simp [isLeaf] at h⟩
    · simp only [comp]
      obtain ⟨f, hl, _⟩ := leafExpr_frame (lo := st.labelId) .nil rfl reg ec st
      split
      · exact ⟨f.trans (frame_emit _ _), by simp; omega, fun h => h⟩
      · exact ⟨frame_emit _ _, by simp, fun h => h⟩
  | num n =>
    intro _
    refine ⟨fun st reg ec _ => ?_, fun st reg ec thenl elsel hasnext lb b _ => ?_⟩
    · obtain ⟨f, hl, hi⟩ := leafExpr_frame (lo := st.labelId) (.num n) rfl reg ec st
      exact ⟨by simpa [comp] using f, by simp only [comp]; omega, by simpa [comp] using hi, fun h => by simp [isLeaf] at h⟩
    · simp only [comp]
      obtain ⟨f, hl, _⟩ := leafExpr_frame (lo := st.labelId) (.num n) rfl reg ec st
      split
      · exact ⟨f.trans (frame_emit _ _), by simp; omega, fun h => h⟩
      · exact ⟨frame_emit _ _, by simp, fun h => h⟩
  | str n =>
    intro _
    refine ⟨fun st reg ec _ => ?_, fun st reg ec thenl elsel hasnext lb b _ => ?_⟩
    · obtain ⟨f, hl, hi⟩ := leafExpr_frame (lo := st.labelId) (.str n) rfl reg ec st
      exact ⟨by simpa [comp] using f, by simp only [comp]; omega, by simpa [comp] using hi, fun h => by simp [isLeaf] at h⟩
    · simp only [comp]
      obtain ⟨f, hl, _⟩ := leafExpr_frame (lo := st.labelId) (.str n) rfl reg ec st
      split
      · exact ⟨f.trans (frame_emit _ _), by simp; omega, fun h => h⟩
      · exact ⟨frame_emit _ _, by simp, fun h => h⟩
  | loc r =>
    intro _
    refine ⟨fun st reg ec _ => ?_, fun st reg ec thenl elsel hasnext lb b _ => ?_⟩
    · obtain ⟨f, hl, hi⟩ := leafExpr_frame (lo := st.labelId) (.loc r) rfl reg ec st
      exact ⟨by simpa [comp] using f, by simp only [comp]; omega, by simpa [comp] using hi, fun h => by simp [isLeaf] at h⟩
    · simp only [comp]
      split
      · split
        · exact ⟨(frame_emit _ _).trans (frame_emit _ _), by simp, fun h => h⟩
        · exact ⟨(frame_emit _ _).trans (frame_emit _ _), by simp, fun h => h⟩
      · obtain ⟨f, hlt, hb⟩ := auxDefault_frame (fun ec' s => leafExpr (.loc r) reg ec' s) reg ec thenl elsel hasnext lb b st
          (fun ec' => by
            obtain ⟨f, hl, _⟩ := leafExpr_frame (lo := st.labelId) (.loc r) rfl reg ec' st
            exact ⟨f, by omega⟩)
        exact ⟨f, hlt, fun h => by rw [hb]; exact h⟩
  | ev id =>
    intro _
    refine ⟨fun st reg ec _ => ?_, fun st reg ec thenl elsel hasnext lb b _ => ?_⟩
    · obtain ⟨f, hl, hi⟩ := leafExpr_frame (lo := st.labelId) (.ev id) rfl reg ec st
      exact ⟨by simpa [comp] using f, by simp only [comp]; omega, by simpa [comp] using hi, fun h => by simp [isLeaf] at h⟩
    · simp only [comp]
      obtain ⟨f, hlt, hb⟩ := auxDefault_frame (fun ec' s => leafExpr (.ev id) reg ec' s) reg ec thenl elsel hasnext lb b st
        (fun ec' => by
          obtain ⟨f, hl, _⟩ := leafExpr_frame (lo := st.labelId) (.ev id) rfl reg ec' st
          exact ⟨f, by omega⟩)
      exact ⟨f, hlt, fun h => by rw [hb]; exact h⟩
  | not c ih =>
    intro hf
    have hc := (ih hf).1
    refine ⟨fun st reg ec htop => ?_, fun st reg ec thenl elsel hasnext lb b htop => ?_⟩
    · obtain ⟨f, hlt, hi, hl⟩ := notExpr_frame c hc st reg ec htop
      simp only [comp]
      exact ⟨f, hlt, hi, fun _ _ => hl⟩
    · simp only [comp]
      obtain ⟨f, hlt, hb⟩ := auxDefault_frame (fun ec' s => notExpr c (fun s' => comp c (.expr reg ecnone0) s') reg ec' s)
        reg ec thenl elsel hasnext lb b st
        (fun ec' => by
          obtain ⟨f, hlt, _, _⟩ := notExpr_frame c hc st reg ec' htop
          exact ⟨f, hlt⟩)
      exact ⟨f, hlt, fun h => by rw [hb]; exact h⟩
  | rel op l r _ _ =>
    intro hf
    refine ⟨fun st reg ec htop => ?_, fun st reg ec thenl elsel hasnext lb b htop => ?_⟩
    · simp only [comp, newLabel, relAux_leaf l r hf.1 hf.2]
      have fr := relLeaf_frame (lo := st.labelId) l r hf.1 hf.2 { st with labelId := st.labelId + 1 } reg op 1 st.labelId htop
      have fa : Frame st.labelId st { st with labelId := st.labelId + 1 } := frame_newLabel st
      have hle := fr.code.length_le
      refine ⟨(fa.trans fr).trans ((frame_emit _ _).trans ((frame_setLabelHere _ _ (Nat.le_refl _)).trans (frame_emit _ _))), ?_, by first | rfl | trivial,
        fun _ _ => lastOK_emit_loadbool _ _ _ _⟩
      simp only [emit_code, setLabelHere_code, List.length_append, List.length_singleton]
      simp at hle; omega
    · simp only [comp, relAux_leaf l r hf.1 hf.2]
      have hlen : ∀ flip L, st.code.length < (relLeaf l r st reg op flip L).code.length := by
        intro flip L
        have f1 := opnd_frame (lo := 0) true l reg st hf.1 htop
        have hle0 := opnd_reg_le true l hf.1 reg st htop
        have f2 := opnd_frame (lo := 0) true r (opnd true l reg st).2.2 (opnd true l reg st).1 hf.2 (by rw [f1.regTop]; omega)
        have := (f1.trans f2).code.length_le
        simp [relLeaf]; omega
      split <;> rename_i h <;> (try split) <;> (try split) <;>
        exact ⟨relLeaf_frame l r hf.1 hf.2 st reg op _ _ htop, hlen _ _, fun hb => by simp_all⟩
  | and l r ihl ihr =>
    intro hf
    obtain ⟨-, al⟩ := ihl hf.1
    obtain ⟨-, ar⟩ := ihr hf.2
    refine ⟨fun st reg ec htop => ?_, fun st reg ec thenl elsel hasnext lb b htop => ?_⟩
    · simp only [comp, newLabel]
      generalize hs4 : ({ st with labelId := st.labelId + 1 + 1 + 1 + 1 } : CState) = s4
      have hs4_id : s4.labelId = st.labelId + 4 := by subst hs4; rfl
      have hs4_top : s4.regTop = st.regTop := by subst hs4; rfl
      have hs4_code : s4.code = st.code := by subst hs4; rfl
      have fa : Frame st.labelId st s4 := by
        subst hs4; exact ⟨List.prefix_refl _, by simp; omega, fun _ _ => rfl, rfl, List.prefix_refl _⟩
      obtain ⟨f1, hlt1, _⟩ := al s4 reg ec (st.labelId + 1 + 1 + 1) st.labelId false ⟨st.labelId + 1, st.labelId + 1 + 1, st.labelId⟩ false
        (by rw [hs4_top]; exact htop)
      generalize hr1 : comp l (.aux reg ec (st.labelId + 1 + 1 + 1) st.labelId false ⟨st.labelId + 1, st.labelId + 1 + 1, st.labelId⟩ false) s4 = r1 at f1 hlt1 ⊢
      have fc : Frame st.labelId r1.st (setLabelHere r1.st (st.labelId + 1 + 1 + 1)) := frame_setLabelHere _ _ (by omega)
      obtain ⟨f2, hlt2, _⟩ := ar (setLabelHere r1.st (st.labelId + 1 + 1 + 1)) reg ec st.labelId st.labelId false
        ⟨st.labelId + 1, st.labelId + 1 + 1, st.labelId⟩ r1.b (by rw [fc.regTop, f1.regTop, hs4_top]; exact htop)
      generalize hr2 : comp r (.aux reg ec st.labelId st.labelId false ⟨st.labelId + 1, st.labelId + 1 + 1, st.labelId⟩ r1.b)
        (setLabelHere r1.st (st.labelId + 1 + 1 + 1)) = r2 at f2 hlt2 ⊢
      have f2' : Frame st.labelId (setLabelHere r1.st (st.labelId + 1 + 1 + 1)) r2.st :=
        f2.mono (by have := f1.labelId; simp at *; omega)
      obtain ⟨ft, hle⟩ := logicalTail_frame (lo := st.labelId) (setLabelHere r1.st (st.labelId + 1 + 1 + 1)) r2.st (savereg ec reg)
        ⟨st.labelId + 1, st.labelId + 1 + 1, st.labelId⟩ r2.b f2' hlt2 ⟨Nat.le_refl _, by simp, by simp; omega⟩
      refine ⟨(fa.trans (f1.mono (by omega))).trans (fc.trans ft), ?_, by first | rfl | trivial, fun _ h => by simp [Cond.isLogical] at h⟩
      simp only [setLabelHere_code] at hle
      rw [hs4_code] at hlt1; omega
    · simp only [comp, newLabel]
      generalize hsa : ({ st with labelId := st.labelId + 1 } : CState) = sa
      have hsa_id : sa.labelId = st.labelId + 1 := by subst hsa; rfl
      have hsa_top : sa.regTop = st.regTop := by subst hsa; rfl
      have hsa_code : sa.code = st.code := by subst hsa; rfl
      have fa : Frame st.labelId st sa := by subst hsa; exact frame_newLabel st
      obtain ⟨f1, hlt1, hb1⟩ := al sa reg ec st.labelId elsel false lb b (by rw [hsa_top]; exact htop)
      generalize hr1 : comp l (.aux reg ec st.labelId elsel false lb b) sa = r1 at f1 hlt1 hb1 ⊢
      have fc : Frame st.labelId r1.st (setLabelHere r1.st st.labelId) := frame_setLabelHere _ _ (Nat.le_refl _)
      obtain ⟨f2, hlt2, hb2⟩ := ar (setLabelHere r1.st st.labelId) reg ec thenl elsel hasnext lb r1.b
        (by rw [fc.regTop, f1.regTop, hsa_top]; exact htop)
      have f2' := f2.mono (lo' := st.labelId) (by have := f1.labelId; simp at *; omega)
      refine ⟨(fa.trans (f1.mono (by omega))).trans (fc.trans f2'), ?_, fun h => hb2 (hb1 h)⟩
      simp only [setLabelHere_code] at hlt2
      rw [hsa_code] at hlt1; omega
  | or l r ihl ihr =>
    intro hf
    obtain ⟨-, al⟩ := ihl hf.1
    obtain ⟨-, ar⟩ := ihr hf.2
    refine ⟨fun st reg ec htop => ?_, fun st reg ec thenl elsel hasnext lb b htop => ?_⟩
    · simp only [comp, newLabel]
      generalize hs4 : ({ st with labelId := st.labelId + 1 + 1 + 1 + 1 } : CState) = s4
      have hs4_id : s4.labelId = st.labelId + 4 := by subst hs4; rfl
      have hs4_top : s4.regTop = st.regTop := by subst hs4; rfl
      have hs4_code : s4.code = st.code := by subst hs4; rfl
      have fa : Frame st.labelId st s4 := by
        subst hs4; exact ⟨List.prefix_refl _, by simp; omega, fun _ _ => rfl, rfl, List.prefix_refl _⟩
      obtain ⟨f1, hlt1, _⟩ := al s4 reg ec st.labelId (st.labelId + 1 + 1 + 1) true ⟨st.labelId + 1, st.labelId + 1 + 1, st.labelId⟩ false
        (by rw [hs4_top]; exact htop)
      generalize hr1 : comp l (.aux reg ec st.labelId (st.labelId + 1 + 1 + 1) true ⟨st.labelId + 1, st.labelId + 1 + 1, st.labelId⟩ false) s4 = r1 at f1 hlt1 ⊢
      have fc : Frame st.labelId r1.st (setLabelHere r1.st (st.labelId + 1 + 1 + 1)) := frame_setLabelHere _ _ (by omega)
      obtain ⟨f2, hlt2, _⟩ := ar (setLabelHere r1.st (st.labelId + 1 + 1 + 1)) reg ec st.labelId st.labelId false
        ⟨st.labelId + 1, st.labelId + 1 + 1, st.labelId⟩ r1.b (by rw [fc.regTop, f1.regTop, hs4_top]; exact htop)
      generalize hr2 : comp r (.aux reg ec st.labelId st.labelId false ⟨st.labelId + 1, st.labelId + 1 + 1, st.labelId⟩ r1.b)
        (setLabelHere r1.st (st.labelId + 1 + 1 + 1)) = r2 at f2 hlt2 ⊢
      have f2' : Frame st.labelId (setLabelHere r1.st (st.labelId + 1 + 1 + 1)) r2.st :=
        f2.mono (by have := f1.labelId; simp at *; omega)
      obtain ⟨ft, hle⟩ := logicalTail_frame (lo := st.labelId) (setLabelHere r1.st (st.labelId + 1 + 1 + 1)) r2.st (savereg ec reg)
        ⟨st.labelId + 1, st.labelId + 1 + 1, st.labelId⟩ r2.b f2' hlt2 ⟨Nat.le_refl _, by simp, by simp; omega⟩
      refine ⟨(fa.trans (f1.mono (by omega))).trans (fc.trans ft), ?_, by first | rfl | trivial, fun _ h => by simp [Cond.isLogical] at h⟩
      simp only [setLabelHere_code] at hle
      rw [hs4_code] at hlt1; omega
    · simp only [comp, newLabel]
      generalize hsa : ({ st with labelId := st.labelId + 1 } : CState) = sa
      have hsa_id : sa.labelId = st.labelId + 1 := by subst hsa; rfl
      have hsa_top : sa.regTop = st.regTop := by subst hsa; rfl
      have hsa_code : sa.code = st.code := by subst hsa; rfl
      have fa : Frame st.labelId st sa := by subst hsa; exact frame_newLabel st
      obtain ⟨f1, hlt1, hb1⟩ := al sa reg ec thenl st.labelId true lb b (by rw [hsa_top]; exact htop)
      generalize hr1 : comp l (.aux reg ec thenl st.labelId true lb b) sa = r1 at f1 hlt1 hb1 ⊢
      have fc : Frame st.labelId r1.st (setLabelHere r1.st st.labelId) := frame_setLabelHere _ _ (Nat.le_refl _)
      obtain ⟨f2, hlt2, hb2⟩ := ar (setLabelHere r1.st st.labelId) reg ec thenl elsel hasnext lb r1.b
        (by rw [fc.regTop, f1.regTop, hsa_top]; exact htop)
      have f2' := f2.mono (lo' := st.labelId) (by have := f1.labelId; simp at *; omega)
      refine ⟨(fa.trans (f1.mono (by omega))).trans (fc.trans f2'), ?_, fun h => hb2 (hb1 h)⟩
      simp only [setLabelHere_code] at hlt2
      rw [hsa_code] at hlt1; omega

end GLua.Lowering
