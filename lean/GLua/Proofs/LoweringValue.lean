/-
  Correctness of the lowering of expressions in VALUE context (`compileExpr` on every expression kind of the
  model: leaves, not, relational, and / or, arithmetic with constant folding, unary minus, length,
  concatenation; `compileLogicalOpExpr`, `compileLogicalOpExprAux`).
  Part 1: frame facts for all modes — what each compile function does to the store, WITHOUT semantics:
  code / constants only grow, labels below the entry counter keep their binding, the shape of the last
  instruction (which decides whether Propagate(K)MV fires and whether the CONCAT-popping loop pops).
-/
import GLua.Proofs.Lowering

namespace GLua.Lowering
open GLua.Compile GLua.MiniVM GLua.CondSpec

variable [NumStruct]
set_option linter.unusedSectionVars false
variable {V : Type}

/-! ### lists / primitive steps -/

omit [NumStruct] in
theorem prefix_dropLast {α} {l1 l2 : List α} (h : l1 <+: l2) (hlt : l1.length < l2.length) : l1 <+: l2.dropLast := by
  obtain ⟨t, rfl⟩ := h
  have ht : t ≠ [] := by intro h0; subst h0; simp at hlt
  rw [List.dropLast_append_of_ne_nil ht]
  exact List.prefix_append _ _

theorem frame_pop {lo : Nat} {a b : CState} (h : Frame lo a b) (hlt : a.code.length < b.code.length) : Frame lo a (pop b) :=
  ⟨prefix_dropLast h.code hlt, h.labelId, h.labels, h.regTop, h.consts⟩

@[simp] theorem setLabelHere_code (st : CState) (L : Nat) : (setLabelHere st L).code = st.code := rfl
@[simp] theorem setLabelHere_consts (st : CState) (L : Nat) : (setLabelHere st L).consts = st.consts := rfl
@[simp] theorem setLabelHere_labelId (st : CState) (L : Nat) : (setLabelHere st L).labelId = st.labelId := rfl
@[simp] theorem setLabelHere_regTop (st : CState) (L : Nat) : (setLabelHere st L).regTop = st.regTop := rfl
@[simp] theorem pop_labelId (st : CState) : (pop st).labelId = st.labelId := rfl
@[simp] theorem pop_consts (st : CState) : (pop st).consts = st.consts := rfl
@[simp] theorem pop_regTop (st : CState) : (pop st).regTop = st.regTop := rfl
@[simp] theorem pop_labelPc (st : CState) : (pop st).labelPc = st.labelPc := rfl
@[simp] theorem pop_code (st : CState) : (pop st).code = st.code.dropLast := rfl

/-- the last instruction is neither a MOVE nor a LOADK (so Propagate(K)MV leaves it alone). -/
def LastOK (st : CState) : Prop := (∀ a b, last st ≠ some (.move a b)) ∧ (∀ a b, last st ≠ some (.loadk a b))

theorem propagate_lastOK (kmv : Bool) (st : CState) (top reg inc : Nat) (h : LastOK st) :
    propagate kmv st top reg inc = (st, reg, reg + inc) := by
  unfold propagate
  split
  · rename_i a bx hl; exact absurd hl (h.2 a bx)
  · rename_i a b hl; exact absurd hl (h.1 a b)
  · rfl

theorem tailBools_frame {lo : Nat} (st : CState) (a : Nat) (lb : LbLabels) (b : Bool) (hlo : lo ≤ lb.t ∧ lo ≤ lb.f) :
    Frame lo st (tailBools st a lb b) ∧ st.code.length ≤ (tailBools st a lb b).code.length := by
  unfold tailBools
  split
  · exact ⟨(frame_setLabelHere _ _ hlo.2).trans ((frame_emit _ _).trans ((frame_setLabelHere _ _ hlo.1).trans (frame_emit _ _))),
      by simp⟩
  · exact ⟨Frame.refl _, Nat.le_refl _⟩

theorem tailPop_cases (st : CState) (e : Nat) :
    (tailPop st e = st) ∨ (tailPop st e = pop st ∧ ∃ c, st.code = c ++ [.jmp (e : Int)]) := by
  unfold tailPop
  split
  · rename_i sbx hl
    split
    · rename_i hs
      right
      subst hs
      simp only [last] at hl
      obtain ⟨ys, hys⟩ := List.getLast?_eq_some_iff.mp hl
      exact ⟨rfl, ys, hys⟩
    · left; rfl
  · left; rfl

/-- frame of `logicalTail` (the code may lose its last instruction). -/
theorem logicalTail_frame {lo : Nat} (s0 st : CState) (a : Nat) (lb : LbLabels) (b : Bool)
    (h : Frame lo s0 st) (hlt : s0.code.length < st.code.length) (hlo : lo ≤ lb.e ∧ lo ≤ lb.t ∧ lo ≤ lb.f) :
    Frame lo s0 (logicalTail st a lb b) ∧ s0.code.length ≤ (logicalTail st a lb b).code.length := by
  unfold logicalTail
  obtain ⟨f8, hle8⟩ := tailBools_frame (lo := lo) st a lb b ⟨hlo.2.1, hlo.2.2⟩
  have f8' := h.trans f8
  have hlt8 : s0.code.length < (tailBools st a lb b).code.length := by omega
  rcases tailPop_cases (tailBools st a lb b) lb.e with hp | ⟨hp, _⟩
  · rw [hp]; exact ⟨f8'.trans (frame_setLabelHere _ _ hlo.1), by simp; omega⟩
  · rw [hp]
    refine ⟨(frame_pop f8' hlt8).trans (frame_setLabelHere _ _ hlo.1), ?_⟩
    simp; omega

/-! ### constants, concatenations: classification of expression kinds -/

/-- the pool constant an expression compiles to with a single LOADK: a string literal, a numeral, or an
    arithmetic / unary-minus tree that `constFold` turns into a constant. -/
def konstOf : Cond → Option Konst
  | .str s => some (.str s)
  | e => (lnum e).map Konst.num

def isConcat : Cond → Bool
  | .concat _ _ => true
  | _ => false

def isLoc : Cond → Bool
  | .loc _ => true
  | _ => false

/-- the last instruction is not a CONCAT (so the popping loop of compileStringConcatOpExpr stops). -/
def NoCat (c : List Instr) : Prop := ∀ a b c', c.getLast? ≠ some (Instr.concat a b c')

omit [NumStruct] in
theorem noCat_append_singleton (pre : List Instr) (i : Instr) (h : ∀ a b c, i ≠ .concat a b c) : NoCat (pre ++ [i]) := by
  intro a b c; simp; exact h a b c

theorem noCat_emit (st : CState) (i : Instr) (h : ∀ a b c, i ≠ .concat a b c) : NoCat (emit st i).code :=
  noCat_append_singleton _ _ h

omit [NumStruct] in
theorem dropConcats_noCat (n : Nat) (c : List Instr) (h : NoCat c) : dropConcats n c = c := by
  cases n with
  | zero => rfl
  | succ n =>
    unfold dropConcats
    split
    · rename_i a b c' hl; exact absurd hl (h a b c')
    · rfl

omit [NumStruct] in
/-- one trailing CONCAT behind code that does not end in a CONCAT: exactly that one is popped. -/
theorem dropConcats_one (pre : List Instr) (a b c : Nat) (hne : pre ≠ []) (h : NoCat pre) :
    dropConcats (pre ++ [Instr.concat a b c]).length (pre ++ [Instr.concat a b c]) = pre := by
  have hlen : (pre ++ [Instr.concat a b c]).length = pre.length + 1 := by simp
  rw [hlen]
  unfold dropConcats
  simp only [List.getLast?_append, List.getLast?_singleton, Option.some_or]
  have : ¬ (pre.length + 1 = 1) := by
    have : pre.length ≠ 0 := by intro h0; exact hne (List.length_eq_zero_iff.mp h0)
    omega
  simp only [List.length_append, List.length_singleton, this, if_false, List.dropLast_concat]
  exact dropConcats_noCat _ _ h

/-! ### frame facts of every mode -/

theorem loadK_frame {lo : Nat} (k : Konst) (reg : Nat) (ec : ExpCtx) (st : CState) :
    Frame lo st (loadK k reg ec st).st ∧ (loadK k reg ec st).st.code.length = st.code.length + 1 ∧
    (loadK k reg ec st).inc = (if savereg ec reg < reg then 0 else 1) ∧
    (loadK k reg ec st).st.code = st.code ++ [.loadk (savereg ec reg) (constIndex st k).2] := by
  obtain ⟨_, _, h3, _⟩ := constIndex_spec st k
  exact ⟨(frame_constIndex st k).trans (frame_emit _ _), by simp [loadK, h3], rfl, by simp [loadK, h3]⟩

theorem loadK_last (k : Konst) (reg : Nat) (ec : ExpCtx) (st : CState) :
    last (loadK k reg ec st).st = some (.loadk (savereg ec reg) (constIndex st k).2) := by simp [loadK]

theorem noCat_loadK (k : Konst) (reg : Nat) (ec : ExpCtx) (st : CState) : NoCat (loadK k reg ec st).st.code :=
  noCat_emit _ _ (by simp)

theorem leafExpr_nocat (e : Cond) (he : isLeaf e = true) (reg : Nat) (ec : ExpCtx) (st : CState) :
    NoCat (leafExpr e reg ec st).st.code := by
  cases e <;> simp [isLeaf] at he
  case num n => exact noCat_loadK _ _ _ _
  case str n => exact noCat_loadK _ _ _ _
  all_goals exact noCat_emit _ _ (by simp)

theorem leafExpr_nomove (e : Cond) (he : isLeaf e = true) (hl : isLoc e = false) (reg : Nat) (ec : ExpCtx) (st : CState) :
    ∀ a b, last (leafExpr e reg ec st).st ≠ some (.move a b) := by
  intro a b
  cases e <;> simp [isLeaf] at he <;> simp [isLoc] at hl
  case num n => simp [leafExpr, loadK_last]
  case str n => simp [leafExpr, loadK_last]
  all_goals simp [leafExpr]

theorem leafExpr_lastnocat (e : Cond) (he : isLeaf e = true) (reg : Nat) (ec : ExpCtx) (st : CState) :
    ∀ x y z, last (leafExpr e reg ec st).st ≠ some (.concat x y z) := by
  intro x y z
  cases e <;> simp [isLeaf] at he
  case num n => simp [leafExpr, loadK_last]
  case str n => simp [leafExpr, loadK_last]
  all_goals simp [leafExpr]

theorem leafExpr_frame {lo : Nat} (e : Cond) (he : isLeaf e = true) (reg : Nat) (ec : ExpCtx) (st : CState) :
    Frame lo st (leafExpr e reg ec st).st ∧ (leafExpr e reg ec st).st.code.length = st.code.length + 1 ∧
    (leafExpr e reg ec st).inc = (if savereg ec reg < reg then 0 else 1) := by
  cases e <;> simp [isLeaf] at he
  case tru => exact ⟨frame_emit _ _, by simp [leafExpr], rfl⟩
  case fls => exact ⟨frame_emit _ _, by simp [leafExpr], rfl⟩
  case nil => exact ⟨frame_emit _ _, by simp [leafExpr], rfl⟩
  case loc r => exact ⟨frame_emit _ _, by simp [leafExpr], rfl⟩
  case num n =>
    obtain ⟨h1, h2, h3, _⟩ := loadK_frame (lo := lo) (.num (NumStruct.lit n)) reg ec st
    exact ⟨h1, h2, h3⟩
  case str n =>
    obtain ⟨h1, h2, h3, _⟩ := loadK_frame (lo := lo) (.str n) reg ec st
    exact ⟨h1, h2, h3⟩
  case ev id =>
    obtain ⟨_, _, h3, _⟩ := constIndex_spec st (gname id)
    exact ⟨(frame_constIndex st (gname id)).trans (frame_emit _ _), by simp [leafExpr, h3], rfl⟩

/-- what `compileExpr` does to the store, for one expression at one place. -/
structure EF (e : Cond) (st : CState) (reg : Nat) (ec : ExpCtx) : Prop where
  frame : Frame st.labelId st (comp e (.expr reg ec) st).st
  lt : st.code.length < (comp e (.expr reg ec) st).st.code.length
  inc : (comp e (.expr reg ec) st).inc = (if savereg ec reg < reg then 0 else 1)
  /-- neither a constant nor a local nor a logical operator: the code ends in an instruction that
      Propagate(K)MV does not touch -/
  lastOK : isLoc e = false → e.isLogical = false → konstOf e = none → LastOK (comp e (.expr reg ec) st).st
  /-- a constant (literal or folded): exactly one LOADK -/
  konst : ∀ k, konstOf e = some k → comp e (.expr reg ec) st = loadK k reg ec st
  /-- a local: exactly one MOVE -/
  loc : ∀ r, e = .loc r → (comp e (.expr reg ec) st).st = emit st (.move (savereg ec reg) r)
  /-- only a concatenation ends in a CONCAT … -/
  nocat : isConcat e = false → NoCat (comp e (.expr reg ec) st).st.code
  /-- … and then in exactly one, over the registers reg … reg + 1 + spine r -/
  cat : ∀ l r, e = .concat l r → ∃ pre, (comp e (.expr reg ec) st).st.code = pre ++ [.concat (savereg ec reg) reg (reg + (1 + spine r))] ∧
      st.code.length < pre.length ∧ NoCat pre
  /-- no MOVE at the end unless the expression is a local or a logical operator -/
  nomove : isLoc e = false → e.isLogical = false → ∀ a b, last (comp e (.expr reg ec) st).st ≠ some (.move a b)

def ExprFrame (e : Cond) : Prop := ∀ (st : CState) (reg : Nat) (ec : ExpCtx), st.regTop ≤ reg → EF e st reg ec

/-- what `compileLogicalOpExprAux` does to the store. -/
structure AF (e : Cond) (st : CState) (reg : Nat) (ec : ExpCtx) (thenl elsel : Nat) (hasnext : Bool) (lb : LbLabels) (b : Bool) : Prop where
  frame : Frame st.labelId st (comp e (.aux reg ec thenl elsel hasnext lb b) st).st
  lt : st.code.length < (comp e (.aux reg ec thenl elsel hasnext lb b) st).st.code.length
  bmono : b = true → (comp e (.aux reg ec thenl elsel hasnext lb b) st).b = true
  /-- as the LAST operand of a logical expression: either the LOADBOOL pair will follow, or the code ends in
      `i; JMP endlabel` with `i` not a CONCAT (after the jump is removed the expression does not end in a CONCAT) -/
  lastop : hasnext = false → thenl = lb.e → elsel = lb.e →
    (comp e (.aux reg ec thenl elsel hasnext lb b) st).b = true ∨
    ∃ pre i, (comp e (.aux reg ec thenl elsel hasnext lb b) st).st.code = pre ++ [i, .jmp (lb.e : Int)] ∧
      st.code.length ≤ pre.length ∧ ∀ x y z, i ≠ .concat x y z

def AuxFrame (e : Cond) : Prop := ∀ (st : CState) (reg : Nat) (ec : ExpCtx) (thenl elsel : Nat) (hasnext : Bool) (lb : LbLabels) (b : Bool),
    st.regTop ≤ reg → AF e st reg ec thenl elsel hasnext lb b

theorem lastOK_emit (st : CState) (i : Instr) (h1 : ∀ a b, i ≠ .move a b) (h2 : ∀ a b, i ≠ .loadk a b) : LastOK (emit st i) := by
  constructor <;> intro x y <;> simp
  · exact h1 x y
  · exact h2 x y

theorem lastOK_emit_not (st : CState) (a b : Nat) : LastOK (emit st (.not a b)) := by
  constructor <;> intro x y <;> simp
theorem lastOK_emit_loadbool (st : CState) (a b c : Nat) : LastOK (emit st (.loadbool a b c)) := by
  constructor <;> intro x y <;> simp

/-! ### one operand through compileExprWith(K)MVPropagation -/

/-- `compileExprWithKMVPropagation` (kmv) / `…MV…` on an arbitrary expression: (store, operand, next free register). -/
def opr (kmv : Bool) (c : Cond) (reg : Nat) (st : CState) : CState × Nat × Nat :=
  withPropagation kmv c.isLogical (comp c (.expr reg ecnone0) st) reg

theorem konstOf_notLogical {c : Cond} {k : Konst} (h : konstOf c = some k) : c.isLogical = false := by
  cases c <;> simp [konstOf, lnum, Cond.isLogical] at h ⊢

theorem konstOf_notLoc {c : Cond} {k : Konst} (h : konstOf c = some k) : isLoc c = false := by
  cases c <;> simp [konstOf, lnum, isLoc] at h ⊢

/-- the three ways an operand reaches the instruction that uses it. -/
theorem opr_cases (kmv : Bool) (c : Cond) (st : CState) (reg : Nat) (hfr : EF c st reg ecnone0) (htop : st.regTop ≤ reg) :
    (∃ k, konstOf c = some k ∧ opr kmv c reg st =
        if reg ≥ (constIndex st k).1.regTop ∧ kmv = true ∧ (constIndex st k).2 ≤ Generated.opMaxIndexRk
        then ((constIndex st k).1, (constIndex st k).2 + Generated.opBitRk, reg)
        else (emit (constIndex st k).1 (.loadk reg (constIndex st k).2), reg, reg + 1)) ∨
    (∃ r, c = .loc r ∧ opr kmv c reg st = (st, r, reg)) ∨
    (konstOf c = none ∧ isLoc c = false ∧ opr kmv c reg st = ((comp c (.expr reg ecnone0) st).st, reg, reg + 1)) := by
  have hinc : (comp c (.expr reg ecnone0) st).inc = 1 := by
    rw [hfr.inc, savereg_ecnone0]; simp
  cases hk : konstOf c with
  | some k =>
    left
    refine ⟨k, rfl, ?_⟩
    unfold opr
    rw [konstOf_notLogical hk, hfr.konst k hk]
    exact opndK_eq kmv k reg st
  | none =>
    right
    cases hl : isLoc c with
    | true =>
      left
      cases c <;> simp [isLoc] at hl
      rename_i r
      refine ⟨r, rfl, ?_⟩
      have hst := hfr.loc r rfl
      rw [savereg_ecnone0] at hst
      have : reg ≥ st.regTop := htop
      simp [opr, withPropagation, Cond.isLogical, hst, propagate, this]
    | false =>
      right
      refine ⟨rfl, rfl, ?_⟩
      unfold opr
      cases hlog : c.isLogical with
      | true => simp only [withPropagation, if_true, hinc]
      | false =>
        simp only [withPropagation, Bool.false_eq_true, if_false]
        rw [propagate_lastOK _ _ _ _ _ (hfr.lastOK hl hlog hk), hinc]

theorem opr_frame (kmv : Bool) (c : Cond) (st : CState) (reg : Nat) (hfr : EF c st reg ecnone0) (htop : st.regTop ≤ reg) :
    Frame st.labelId st (opr kmv c reg st).1 ∧ st.code.length ≤ (opr kmv c reg st).1.code.length ∧
    reg ≤ (opr kmv c reg st).2.2 ∧ (opr kmv c reg st).2.2 ≤ reg + 1 := by
  rcases opr_cases kmv c st reg hfr htop with ⟨k, _, h⟩ | ⟨r, _, h⟩ | ⟨_, _, h⟩
  · rw [h]
    have hc := frame_constIndex (lo := st.labelId) st k
    obtain ⟨_, _, h3, _⟩ := constIndex_spec st k
    split
    · exact ⟨hc, by rw [h3]; exact Nat.le_refl _, Nat.le_refl _, Nat.le_succ _⟩
    · exact ⟨hc.trans (frame_emit _ _), by simp [h3], Nat.le_succ _, Nat.le_refl _⟩
  · rw [h]; exact ⟨Frame.refl _, Nat.le_refl _, Nat.le_refl _, Nat.le_succ _⟩
  · rw [h]; exact ⟨hfr.frame, Nat.le_of_lt hfr.lt, Nat.le_succ _, Nat.le_refl _⟩

/-- the two operands of a binary operator. -/
def bops (l r : Cond) (st : CState) (reg : Nat) : CState × Nat × Nat :=
  binOperands (fun s g => comp l (.expr g ecnone0) s) (fun s g => comp r (.expr g ecnone0) s) l.isLogical r.isLogical st reg

theorem bops_eq (l r : Cond) (st : CState) (reg : Nat) :
    bops l r st reg = ((opr true r (opr true l reg st).2.2 (opr true l reg st).1).1, (opr true l reg st).2.1,
      (opr true r (opr true l reg st).2.2 (opr true l reg st).1).2.1) := rfl

theorem bops_frame (l r : Cond) (hl : ExprFrame l) (hr : ExprFrame r) (st : CState) (reg : Nat) (htop : st.regTop ≤ reg) :
    Frame st.labelId st (bops l r st reg).1 ∧ st.code.length ≤ (bops l r st reg).1.code.length := by
  rw [bops_eq]
  obtain ⟨f1, hle1, hr1, _⟩ := opr_frame true l st reg (hl st reg ecnone0 htop) htop
  have htop2 : (opr true l reg st).1.regTop ≤ (opr true l reg st).2.2 := by rw [f1.regTop]; omega
  obtain ⟨f2, hle2, _, _⟩ := opr_frame true r (opr true l reg st).1 (opr true l reg st).2.2 (hr _ _ ecnone0 htop2) htop2
  exact ⟨f1.trans (f2.mono f1.labelId), by simp only []; omega⟩

theorem relAux_eq (op : RelOp) (l r : Cond) (st : CState) (reg flip L : Nat) :
    relAux (fun s g => comp l (.expr g ecnone0) s) (fun s g => comp r (.expr g ecnone0) s) l.isLogical r.isLogical st reg op flip L =
      emit (emit (bops l r st reg).1 (relInstr op flip (bops l r st reg).2.1 (bops l r st reg).2.2)) (.jmp (L : Int)) := rfl

/-- abbreviation: the code of `compileRelationalOpExprAux`. -/
def relCode (op : RelOp) (l r : Cond) (st : CState) (reg flip L : Nat) : CState :=
  emit (emit (bops l r st reg).1 (relInstr op flip (bops l r st reg).2.1 (bops l r st reg).2.2)) (.jmp (L : Int))

theorem relCode_frame (op : RelOp) (l r : Cond) (hl : ExprFrame l) (hr : ExprFrame r) (st : CState) (reg flip L : Nat)
    (htop : st.regTop ≤ reg) :
    Frame st.labelId st (relCode op l r st reg flip L) ∧ st.code.length < (relCode op l r st reg flip L).code.length := by
  obtain ⟨f, hle⟩ := bops_frame l r hl hr st reg htop
  exact ⟨f.trans ((frame_emit _ _).trans (frame_emit _ _)), by simp [relCode]; omega⟩

omit [NumStruct] in
theorem relInstr_ne_concat (op : RelOp) (flip b c : Nat) : ∀ x y z, relInstr op flip b c ≠ .concat x y z := by
  intro x y z; cases op <;> simp [relInstr]

/-! ### the expression kinds -/

theorem ef_leaf (e : Cond) (he : isLeaf e = true) : ExprFrame e := by
  intro st reg ec _
  obtain ⟨f, hl, hi⟩ := leafExpr_frame (lo := st.labelId) e he reg ec st
  have hc := comp_leaf_expr e he reg ec st
  refine ⟨by rw [hc]; exact f, by rw [hc]; omega, by rw [hc]; exact hi, ?_, ?_, ?_, ?_, ?_, ?_⟩
  · intro h1 _ h3
    rw [hc]
    cases e <;> simp [isLeaf] at he <;> simp [isLoc] at h1 <;> simp [konstOf, lnum] at h3
    · exact lastOK_emit_loadbool _ _ _ _
    · exact lastOK_emit_loadbool _ _ _ _
    · exact lastOK_emit _ _ (by simp) (by simp)
    · exact lastOK_emit _ _ (by simp) (by simp)
  · intro k hk
    rw [hc]
    cases e <;> simp [isLeaf] at he <;> simp [konstOf, lnum] at hk
    · subst hk; rfl
    · subst hk; rfl
  · intro r hr; subst hr; rw [hc]; rfl
  · intro _; rw [hc]; exact leafExpr_nocat e he reg ec st
  · intro l r h; subst h; simp [isLeaf] at he
  · intro h1 _; rw [hc]; exact leafExpr_nomove e he h1 reg ec st

/-- an expression whose code is produced by `loadK` (a folded constant). -/
theorem ef_of_loadK (e : Cond) (x : NumStruct.N) (hk : konstOf e = some (.num x)) (st : CState) (reg : Nat) (ec : ExpCtx)
    (hc : comp e (.expr reg ec) st = loadK (.num x) reg ec st) (hcat : isConcat e = false) : EF e st reg ec := by
  obtain ⟨f, hl, hi, hcode⟩ := loadK_frame (lo := st.labelId) (.num x) reg ec st
  refine ⟨by rw [hc]; exact f, by rw [hc]; omega, by rw [hc]; exact hi, ?_, ?_, ?_, ?_, ?_, ?_⟩
  · intro _ _ h3; rw [hk] at h3; cases h3
  · intro k hk'; rw [hk] at hk'; cases hk'; exact hc
  · intro r hr; subst hr; simp [konstOf, lnum] at hk
  · intro _; rw [hc, hcode]; exact noCat_append_singleton _ _ (by simp)
  · intro l r h; subst h; simp [isConcat] at hcat
  · intro _ _ a b; rw [hc]; simp [last, hcode]

/-- a unary operator through `unopExpr` (NOT, UNM, LEN). -/
theorem unop_frame (mk : Nat → Nat → Instr) (c : Cond) (hc : ExprFrame c) (st : CState) (reg : Nat) (ec : ExpCtx) (htop : st.regTop ≤ reg) :
    Frame st.labelId st (unopExpr mk c.isLogical (fun s => comp c (.expr reg ecnone0) s) reg ec st).st ∧
    st.code.length < (unopExpr mk c.isLogical (fun s => comp c (.expr reg ecnone0) s) reg ec st).st.code.length ∧
    (unopExpr mk c.isLogical (fun s => comp c (.expr reg ecnone0) s) reg ec st).st =
      emit (opr false c reg st).1 (mk (savereg ec reg) (opr false c reg st).2.1) := by
  obtain ⟨f, hle, _, _⟩ := opr_frame false c st reg (hc st reg ecnone0 htop) htop
  refine ⟨f.trans (frame_emit _ _), ?_, rfl⟩
  show st.code.length < (emit (opr false c reg st).1 _).code.length
  simp; omega

theorem ef_of_unop (e c : Cond) (mk : Nat → Nat → Instr) (hc : ExprFrame c) (st : CState) (reg : Nat) (ec : ExpCtx) (htop : st.regTop ≤ reg)
    (hcomp : comp e (.expr reg ec) st = unopExpr mk c.isLogical (fun s => comp c (.expr reg ecnone0) s) reg ec st)
    (hkn : konstOf e = none) (hloc : isLoc e = false) (hcat : isConcat e = false)
    (hmk1 : ∀ a b x y, mk a b ≠ .move x y) (hmk2 : ∀ a b x y, mk a b ≠ .loadk x y) (hmk3 : ∀ a b x y z, mk a b ≠ .concat x y z) :
    EF e st reg ec := by
  obtain ⟨f, hlt, hst⟩ := unop_frame mk c hc st reg ec htop
  refine ⟨by rw [hcomp]; exact f, by rw [hcomp]; exact hlt, by rw [hcomp]; rfl, ?_, ?_, ?_, ?_, ?_, ?_⟩
  · intro _ _ _; rw [hcomp, hst]; exact lastOK_emit _ _ (hmk1 _ _) (hmk2 _ _)
  · intro k hk; rw [hkn] at hk; cases hk
  · intro r hr; subst hr; simp [isLoc] at hloc
  · intro _; rw [hcomp, hst]; exact noCat_emit _ _ (hmk3 _ _)
  · intro l r h; subst h; simp [isConcat] at hcat
  · intro _ _ a b; rw [hcomp, hst]; simp; exact hmk1 _ _ a b

theorem notExpr_general (c : Cond) (sub : CState → Res) (reg : Nat) (ec : ExpCtx) (st : CState)
    (hne : c ≠ .tru ∧ c ≠ .fls ∧ c ≠ .nil) :
    notExpr c sub reg ec st = unopExpr .not c.isLogical sub reg ec st := by
  cases c <;> simp_all [notExpr, unopExpr]

theorem ef_not (c : Cond) (hc : ExprFrame c) : ExprFrame (.not c) := by
  intro st reg ec htop
  have simple : ∀ bb, comp (.not c) (.expr reg ec) st = { st := emit st (.loadbool (savereg ec reg) bb 0), inc := if savereg ec reg < reg then 0 else 1 } →
      EF (.not c) st reg ec := by
    intro bb h
    refine ⟨by rw [h]; exact frame_emit _ _, by rw [h]; simp, by rw [h], ?_, ?_, ?_, ?_, ?_, ?_⟩
    · intro _ _ _; rw [h]; exact lastOK_emit_loadbool _ _ _ _
    · intro k hk; simp [konstOf, lnum] at hk
    · intro r hr; cases hr
    · intro _; rw [h]; exact noCat_emit _ _ (by simp)
    · intro l r h'; cases h'
    · intro _ _ a b; rw [h]; simp
  by_cases h1 : c = .tru
  · subst h1; exact simple 0 (by simp [comp, notExpr])
  by_cases h2 : c = .fls
  · subst h2; exact simple 1 (by simp [comp, notExpr])
  by_cases h3 : c = .nil
  · subst h3; exact simple 1 (by simp [comp, notExpr])
  exact ef_of_unop (.not c) c .not hc st reg ec htop (by simp only [comp]; exact notExpr_general c _ reg ec st ⟨h1, h2, h3⟩)
    (by simp [konstOf, lnum]) rfl rfl (by simp) (by simp) (by simp)

theorem ef_len (c : Cond) (hc : ExprFrame c) : ExprFrame (.len c) := by
  intro st reg ec htop
  exact ef_of_unop (.len c) c .len hc st reg ec htop (by simp only [comp])
    (by simp [konstOf, lnum]) rfl rfl (by simp) (by simp) (by simp)

theorem ef_unm (c : Cond) (hc : ExprFrame c) : ExprFrame (.unm c) := by
  intro st reg ec htop
  cases hf : lnum (.unm c) with
  | some x =>
    exact ef_of_loadK (.unm c) x (by simp [konstOf, hf]) st reg ec (by simp only [comp, hf, unmExpr]) rfl
  | none =>
    exact ef_of_unop (.unm c) c .unm hc st reg ec htop (by simp only [comp, hf, unmExpr])
      (by simp [konstOf, hf]) rfl rfl (by simp) (by simp) (by simp)

theorem ef_arith (op : ArithOp) (l r : Cond) (hl : ExprFrame l) (hr : ExprFrame r) : ExprFrame (.arith op l r) := by
  intro st reg ec htop
  cases hf : lnum (.arith op l r) with
  | some x =>
    exact ef_of_loadK (.arith op l r) x (by simp [konstOf, hf]) st reg ec (by simp only [comp, hf, arithExpr]) rfl
  | none =>
    have hcomp : comp (.arith op l r) (.expr reg ec) st =
        { st := emit (bops l r st reg).1 (.arith op (savereg ec reg) (bops l r st reg).2.1 (bops l r st reg).2.2),
          inc := if savereg ec reg < reg then 0 else 1 } := by
      simp only [comp, hf, arithExpr]; rfl
    obtain ⟨f, hle⟩ := bops_frame l r hl hr st reg htop
    refine ⟨by rw [hcomp]; exact f.trans (frame_emit _ _), by rw [hcomp]; simp; omega, by rw [hcomp], ?_, ?_, ?_, ?_, ?_, ?_⟩
    · intro _ _ _; rw [hcomp]; exact lastOK_emit _ _ (by simp) (by simp)
    · intro k hk; simp [konstOf, hf] at hk
    · intro r' hr'; cases hr'
    · intro _; rw [hcomp]; exact noCat_emit _ _ (by simp)
    · intro l' r' h'; cases h'
    · intro _ _ a b; rw [hcomp]; simp

theorem ef_rel (op : RelOp) (l r : Cond) (hl : ExprFrame l) (hr : ExprFrame r) : ExprFrame (.rel op l r) := by
  intro st reg ec htop
  have hcomp : comp (.rel op l r) (.expr reg ec) st =
      { st := emit (setLabelHere (emit (relCode op l r { st with labelId := st.labelId + 1 } reg 1 st.labelId)
                (.loadbool (savereg ec reg) 0 1)) st.labelId) (.loadbool (savereg ec reg) 1 0),
        inc := if savereg ec reg < reg then 0 else 1 } := by
    simp only [comp, newLabel, relAux_eq]; rfl
  obtain ⟨fr, hlt⟩ := relCode_frame op l r hl hr { st with labelId := st.labelId + 1 } reg 1 st.labelId htop
  have fa : Frame st.labelId st { st with labelId := st.labelId + 1 } := frame_newLabel st
  refine ⟨?_, ?_, by rw [hcomp], ?_, ?_, ?_, ?_, ?_, ?_⟩
  · rw [hcomp]
    exact (fa.trans (fr.mono (Nat.le_succ _))).trans ((frame_emit _ _).trans ((frame_setLabelHere _ _ (Nat.le_refl _)).trans (frame_emit _ _)))
  · rw [hcomp]
    simp only [emit_code, setLabelHere_code, List.length_append, List.length_singleton]
    simp at hlt; omega
  · intro _ _ _; rw [hcomp]; exact lastOK_emit_loadbool _ _ _ _
  · intro k hk; simp [konstOf, lnum] at hk
  · intro r' hr'; cases hr'
  · intro _; rw [hcomp]; exact noCat_emit _ _ (by simp)
  · intro l' r' h'; cases h'
  · intro _ _ a b; rw [hcomp]; simp

/-- `compileStringConcatOpExpr`: the two operands, then the trailing CONCAT of a right operand that is itself a
    concatenation is removed, then one CONCAT over the whole chain. -/
theorem concat_code (l r : Cond) (hl : ExprFrame l) (hr : ExprFrame r) (st : CState) (reg : Nat) (ec : ExpCtx) (htop : st.regTop ≤ reg) :
    ∃ pre, (comp (.concat l r) (.expr reg ec) st).st =
        emit { (comp r (.expr (reg + 1) ecnone0) (comp l (.expr reg ecnone0) st).st).st with code := pre } (.concat (savereg ec reg) reg (reg + (1 + spine r))) ∧
      (comp l (.expr reg ecnone0) st).st.code.length < pre.length ∧ NoCat pre ∧
      (comp l (.expr reg ecnone0) st).st.code <+: pre ∧
      ((isConcat r = false ∧ pre = (comp r (.expr (reg + 1) ecnone0) (comp l (.expr reg ecnone0) st).st).st.code) ∨
       (∃ l' r', r = .concat l' r' ∧
          (comp r (.expr (reg + 1) ecnone0) (comp l (.expr reg ecnone0) st).st).st.code = pre ++ [.concat (reg + 1) (reg + 1) (reg + 1 + (1 + spine r'))])) := by
  have e1 := hl st reg ecnone0 htop
  have hinc1 : (comp l (.expr reg ecnone0) st).inc = 1 := by rw [e1.inc, savereg_ecnone0]; simp
  have htop2 : (comp l (.expr reg ecnone0) st).st.regTop ≤ reg + 1 := by rw [e1.frame.regTop]; omega
  have e2 := hr (comp l (.expr reg ecnone0) st).st (reg + 1) ecnone0 htop2
  have hcomp : (comp (.concat l r) (.expr reg ec) st).st =
      emit (popConcats (comp r (.expr (reg + 1) ecnone0) (comp l (.expr reg ecnone0) st).st).st) (.concat (savereg ec reg) reg (reg + (1 + spine r))) := by
    simp only [comp, concatExpr, hinc1]
  cases hcr : isConcat r with
  | false =>
    have hn := e2.nocat hcr
    refine ⟨(comp r (.expr (reg + 1) ecnone0) (comp l (.expr reg ecnone0) st).st).st.code, ?_, e2.lt, hn, e2.frame.code, Or.inl ⟨rfl, rfl⟩⟩
    rw [hcomp]; unfold popConcats; rw [dropConcats_noCat _ _ hn]
  | true =>
    cases r <;> simp [isConcat] at hcr
    rename_i l' r'
    obtain ⟨pre, hpre, hlt, hnc⟩ := e2.cat l' r' rfl
    rw [savereg_ecnone0] at hpre
    have hne : pre ≠ [] := by intro h0; subst h0; simp at hlt
    have hpfx : (comp l (.expr reg ecnone0) st).st.code <+: pre := by
      have := e2.frame.code
      rw [hpre] at this
      have h2 := prefix_dropLast this (by simp; omega)
      simpa using h2
    refine ⟨pre, ?_, hlt, hnc, hpfx, Or.inr ⟨l', r', rfl, hpre⟩⟩
    rw [hcomp]; unfold popConcats; rw [hpre, dropConcats_one _ _ _ _ hne hnc]

theorem ef_concat (l r : Cond) (hl : ExprFrame l) (hr : ExprFrame r) : ExprFrame (.concat l r) := by
  intro st reg ec htop
  have e1 := hl st reg ecnone0 htop
  have htop2 : (comp l (.expr reg ecnone0) st).st.regTop ≤ reg + 1 := by rw [e1.frame.regTop]; omega
  have e2 := hr (comp l (.expr reg ecnone0) st).st (reg + 1) ecnone0 htop2
  obtain ⟨pre, hst, hlt, hnc, hpfx, _⟩ := concat_code l r hl hr st reg ec htop
  have hinc : (comp (.concat l r) (.expr reg ec) st).inc = (if savereg ec reg < reg then 0 else 1) := by
    simp only [comp, concatExpr]
  have hcode : (comp (.concat l r) (.expr reg ec) st).st.code = pre ++ [.concat (savereg ec reg) reg (reg + (1 + spine r))] := by
    rw [hst]; rfl
  have hlast : last (comp (.concat l r) (.expr reg ec) st).st = some (.concat (savereg ec reg) reg (reg + (1 + spine r))) := by
    simp [last, hcode]
  refine ⟨?_, ?_, hinc, ?_, ?_, ?_, ?_, ?_, ?_⟩
  · rw [hst]
    have f12 := e1.frame.trans (e2.frame.mono e1.frame.labelId)
    exact ⟨by simp only [emit_code]; exact (e1.frame.code.trans hpfx).trans (List.prefix_append _ _), f12.labelId,
      f12.labels, f12.regTop, f12.consts⟩
  · rw [hcode]; have := e1.lt; simp; omega
  · intro _ _ _
    constructor <;> intro a b <;> rw [hlast] <;> simp
  · intro k hk; simp [konstOf, lnum] at hk
  · intro r' hr'; cases hr'
  · intro h; simp [isConcat] at h
  · intro l' r' h
    cases h
    exact ⟨pre, hcode, by have := e1.lt; omega, hnc⟩
  · intro _ _ a b; rw [hlast]; simp

/-! ### compileLogicalOpExprAux -/

theorem ite_emit (c : Prop) [Decidable c] (s : CState) (i1 i2 : Instr) :
    (if c then emit s i1 else emit s i2) = emit s (if c then i1 else i2) := by
  split <;> rfl

theorem moveTo_nomove (s : CState) (sreg a : Nat) (h : ∀ a' b', last s ≠ some (.move a' b')) :
    moveTo s sreg a = emit s (.move sreg a) := by
  unfold moveTo
  split
  · rename_i a' b' hl; exact absurd hl (h a' b')
  · rfl

theorem moveTo_move (st : CState) (sreg a b' : Nat) : moveTo (emit st (.move a b')) sreg a = emit st (.move sreg b') := by
  simp [moveTo]

theorem moveTo_frame {lo : Nat} (s0 s : CState) (sreg a : Nat) (f : Frame lo s0 s) (hlt : s0.code.length < s.code.length) :
    Frame lo s0 (moveTo s sreg a) ∧ s0.code.length < (moveTo s sreg a).code.length ∧
    ∃ pre x y, (moveTo s sreg a).code = pre ++ [.move x y] ∧ s0.code.length ≤ pre.length := by
  unfold moveTo
  split
  · split
    · refine ⟨(frame_pop f hlt).trans (frame_emit _ _), by
        simp only [emit_code, pop_code, List.length_append, List.length_dropLast, List.length_singleton]; omega, ?_⟩
      exact ⟨_, _, _, rfl, by simp; omega⟩
    · exact ⟨f.trans (frame_emit _ _), by simp; omega, _, _, _, rfl, by omega⟩
  · exact ⟨f.trans (frame_emit _ _), by simp; omega, _, _, _, rfl, by omega⟩

theorem auxDefault_frame (sub : ExpCtx → CState → Res) (reg : Nat) (ec : ExpCtx) (thenl elsel : Nat) (hasnext : Bool)
    (lb : LbLabels) (b : Bool) (st : CState)
    (hsub : ∀ ec', Frame st.labelId st (sub ec' st).st ∧ st.code.length < (sub ec' st).st.code.length) :
    Frame st.labelId st (auxDefault sub reg ec thenl elsel hasnext lb b st).st ∧
    st.code.length < (auxDefault sub reg ec thenl elsel hasnext lb b st).st.code.length ∧
    (auxDefault sub reg ec thenl elsel hasnext lb b st).b = b ∧
    (hasnext = false → thenl = lb.e → elsel = lb.e →
      ∃ pre i, (auxDefault sub reg ec thenl elsel hasnext lb b st).st.code = pre ++ [i, .jmp (lb.e : Int)] ∧
        st.code.length ≤ pre.length ∧ ∀ x y z, i ≠ .concat x y z) := by
  unfold auxDefault
  simp only []
  split
  · rename_i hcond
    obtain ⟨f, hlt⟩ := hsub ⟨ec.ctype, max reg (savereg ec reg)⟩
    obtain ⟨f', hlt', pre, x, y, hpre, hple⟩ := moveTo_frame st _ (savereg ec reg) reg f hlt
    refine ⟨f'.trans (frame_emit _ _), by simp; omega, rfl, ?_⟩
    intro hn _ he
    refine ⟨pre, .move x y, ?_, hple, by simp⟩
    simp only [emit_code, hpre, hn, Bool.false_eq_true, if_false, he]
    simp
  · rename_i hcond
    obtain ⟨f, hlt⟩ := hsub ecnone0
    rw [ite_emit]
    refine ⟨(f.trans (frame_emit _ _)).trans (frame_emit _ _), by simp; omega, rfl, ?_⟩
    intro hn ht he
    exact absurd ⟨hn, ht.trans he.symm⟩ hcond

/-- an operand handled by the default case of compileLogicalOpExprAux. -/
theorem af_of_default (e : Cond) (sub : ExpCtx → CState → Res) (st : CState) (reg : Nat) (ec : ExpCtx) (thenl elsel : Nat)
    (hasnext : Bool) (lb : LbLabels) (b : Bool)
    (hcomp : comp e (.aux reg ec thenl elsel hasnext lb b) st = auxDefault sub reg ec thenl elsel hasnext lb b st)
    (hsub : ∀ ec', Frame st.labelId st (sub ec' st).st ∧ st.code.length < (sub ec' st).st.code.length) :
    AF e st reg ec thenl elsel hasnext lb b := by
  obtain ⟨f, hlt, hb, hlast⟩ := auxDefault_frame sub reg ec thenl elsel hasnext lb b st hsub
  exact ⟨by rw [hcomp]; exact f, by rw [hcomp]; exact hlt, fun h => by rw [hcomp, hb]; exact h,
    fun h1 h2 h3 => Or.inr (by rw [hcomp]; exact hlast h1 h2 h3)⟩

theorem af_of_exprFrame (e : Cond) (he : ExprFrame e) (sub : ExpCtx → CState → Res) (st : CState) (reg : Nat) (ec : ExpCtx) (thenl elsel : Nat)
    (hasnext : Bool) (lb : LbLabels) (b : Bool) (htop : st.regTop ≤ reg)
    (hcomp : comp e (.aux reg ec thenl elsel hasnext lb b) st = auxDefault sub reg ec thenl elsel hasnext lb b st)
    (hsubeq : ∀ ec' s, sub ec' s = comp e (.expr reg ec') s) :
    AF e st reg ec thenl elsel hasnext lb b :=
  af_of_default e sub st reg ec thenl elsel hasnext lb b hcomp (fun ec' => by
    rw [hsubeq]; exact ⟨(he st reg ec' htop).frame, (he st reg ec' htop).lt⟩)

/-- a constant operand: `JMP x` alone, or the load followed by `JMP endlabel`. -/
theorem af_const (e : Cond) (st : CState) (reg : Nat) (ec : ExpCtx) (thenl elsel : Nat) (hasnext : Bool) (lb : LbLabels) (b : Bool)
    (he : isLeaf e = true)
    (h : (∃ L b', comp e (.aux reg ec thenl elsel hasnext lb b) st = { st := emit st (.jmp (L : Int)), b := b' } ∧ (b = true → b' = true) ∧
            (hasnext = false → thenl = lb.e → elsel = lb.e → b' = true)) ∨
         (comp e (.aux reg ec thenl elsel hasnext lb b) st = { st := emit (leafExpr e reg ec st).st (.jmp (lb.e : Int)), b := b } ∧
            ∀ x y z, last (leafExpr e reg ec st).st ≠ some (.concat x y z))) :
    AF e st reg ec thenl elsel hasnext lb b := by
  rcases h with ⟨L, b', h, hb, hl⟩ | ⟨h, hnc⟩
  · exact ⟨by rw [h]; exact frame_emit _ _, by rw [h]; simp, fun hb0 => by rw [h]; exact hb hb0,
      fun h1 h2 h3 => Or.inl (by rw [h]; exact hl h1 h2 h3)⟩
  · obtain ⟨f, hl, _⟩ := leafExpr_frame (lo := st.labelId) e he reg ec st
    refine ⟨by rw [h]; exact f.trans (frame_emit _ _), by rw [h]; simp; omega, fun hb0 => by rw [h]; exact hb0, fun _ _ _ => Or.inr ?_⟩
    rw [h]
    have hcode := f.code
    obtain ⟨t, ht⟩ := hcode
    have htl : t.length = 1 := by
      have := congrArg List.length ht; simp at this; omega
    match t, htl with
    | [i], _ =>
      refine ⟨st.code, i, by simp [← ht], Nat.le_refl _, ?_⟩
      intro x y z hi
      apply hnc x y z
      simp [last, ← ht, hi]

theorem aux_loc_eq (r : Nat) (st : CState) (reg : Nat) (ec : ExpCtx) (thenl elsel : Nat) (hasnext : Bool) (lb : LbLabels) (b : Bool) :
    comp (.loc r) (.aux reg ec thenl elsel hasnext lb b) st =
      if (elsel = lb.e ∧ thenl ≠ elsel) ∨ (thenl = lb.e ∧ hasnext = true) then
        { st := emit (emit st (if savereg ec reg = r then .test (savereg ec reg) r (flipOf hasnext)
                                else .testset (savereg ec reg) r (flipOf hasnext)))
                  (.jmp ((if hasnext then thenl else elsel : Nat) : Int)), b := b }
      else auxDefault (fun ec' s => leafExpr (.loc r) reg ec' s) reg ec thenl elsel hasnext lb b st := by
  simp only [comp, ite_emit]
  cases hasnext <;> rfl

/-- the (flip, jump label, lb.b) that compileLogicalOpExprAux chooses for a relational operand. -/
def relChoice (thenl elsel : Nat) (hasnext : Bool) (lb : LbLabels) (b : Bool) : Nat × Nat × Bool :=
  if thenl = elsel then (1 - flipOf hasnext, lb.t, true)
  else if thenl = lb.e then (flipOf hasnext, lb.t, true)
  else if elsel = lb.e then (flipOf hasnext, lb.f, true)
  else (flipOf hasnext, if hasnext then thenl else elsel, b)

theorem aux_rel_eq (op : RelOp) (l r : Cond) (st : CState) (reg : Nat) (ec : ExpCtx)
    (thenl elsel : Nat) (hasnext : Bool) (lb : LbLabels) (b : Bool) :
    comp (.rel op l r) (.aux reg ec thenl elsel hasnext lb b) st =
      { st := relCode op l r st reg (relChoice thenl elsel hasnext lb b).1 (relChoice thenl elsel hasnext lb b).2.1,
        b := (relChoice thenl elsel hasnext lb b).2.2 } := by
  simp only [comp, relAux_eq, relChoice, relCode]

theorem AF_iff (e : Cond) (st : CState) (reg : Nat) (ec : ExpCtx) (thenl elsel : Nat) (hasnext : Bool) (lb : LbLabels) (b : Bool) :
    AF e st reg ec thenl elsel hasnext lb b ↔
      (Frame st.labelId st (comp e (.aux reg ec thenl elsel hasnext lb b) st).st ∧
       st.code.length < (comp e (.aux reg ec thenl elsel hasnext lb b) st).st.code.length ∧
       (b = true → (comp e (.aux reg ec thenl elsel hasnext lb b) st).b = true) ∧
       (hasnext = false → thenl = lb.e → elsel = lb.e →
        (comp e (.aux reg ec thenl elsel hasnext lb b) st).b = true ∨
        ∃ pre i, (comp e (.aux reg ec thenl elsel hasnext lb b) st).st.code = pre ++ [i, .jmp (lb.e : Int)] ∧
          st.code.length ≤ pre.length ∧ ∀ x y z, i ≠ .concat x y z)) :=
  ⟨fun h => ⟨h.frame, h.lt, h.bmono, h.lastop⟩, fun ⟨h1, h2, h3, h4⟩ => ⟨h1, h2, h3, h4⟩⟩

/-- frames of the two operands of a logical operator inside compileLogicalOpExpr(Aux). -/
theorem af_logical (l r : Cond) (al : AuxFrame l) (ar : AuxFrame r) (st : CState) (reg : Nat) (ec : ExpCtx)
    (t1 e1 : Nat) (h1 : Bool) (thenl elsel : Nat) (hasnext : Bool) (lb : LbLabels) (b : Bool) (htop : st.regTop ≤ reg)
    (res : Res)
    (hres : res = comp r (.aux reg ec thenl elsel hasnext lb (comp l (.aux reg ec t1 e1 h1 lb b) { st with labelId := st.labelId + 1 }).b)
        (setLabelHere (comp l (.aux reg ec t1 e1 h1 lb b) { st with labelId := st.labelId + 1 }).st st.labelId)) :
    Frame st.labelId st res.st ∧ st.code.length < res.st.code.length ∧ (b = true → res.b = true) ∧
    (hasnext = false → thenl = lb.e → elsel = lb.e →
      res.b = true ∨ ∃ pre i, res.st.code = pre ++ [i, .jmp (lb.e : Int)] ∧ st.code.length ≤ pre.length ∧ ∀ x y z, i ≠ .concat x y z) := by
  generalize hsa : ({ st with labelId := st.labelId + 1 } : CState) = sa at hres
  have hsa_id : sa.labelId = st.labelId + 1 := by subst hsa; rfl
  have hsa_top : sa.regTop = st.regTop := by subst hsa; rfl
  have hsa_code : sa.code = st.code := by subst hsa; rfl
  have fa : Frame st.labelId st sa := by subst hsa; exact frame_newLabel st
  have a1 := al sa reg ec t1 e1 h1 lb b (by rw [hsa_top]; exact htop)
  generalize hr1 : comp l (.aux reg ec t1 e1 h1 lb b) sa = r1 at hres a1
  have f1 := a1.frame; have hlt1 := a1.lt; have hb1 := a1.bmono
  rw [hr1] at f1 hlt1 hb1
  have fc : Frame st.labelId r1.st (setLabelHere r1.st st.labelId) := frame_setLabelHere _ _ (Nat.le_refl _)
  have a2 := ar (setLabelHere r1.st st.labelId) reg ec thenl elsel hasnext lb r1.b
    (by rw [fc.regTop, f1.regTop, hsa_top]; exact htop)
  rw [AF_iff, ← hres] at a2
  obtain ⟨a2f, hlt2, a2b, a2l⟩ := a2
  have f2' := a2f.mono (lo' := st.labelId) (by have := f1.labelId; simp at *; omega)
  simp only [setLabelHere_code] at hlt2
  refine ⟨(fa.trans (f1.mono (by omega))).trans (fc.trans f2'), by rw [hsa_code] at hlt1; omega,
    fun h => a2b (hb1 h), fun hn ht he => ?_⟩
  rcases a2l hn ht he with h | ⟨pre, i, hc, hle, hi⟩
  · exact Or.inl h
  · exact Or.inr ⟨pre, i, hc, by simp only [setLabelHere_code] at hle; rw [hsa_code] at hlt1; omega, hi⟩

/-- `compileLogicalOpExpr` (both operators): frame facts. `e` is `.and l r` or `.or l r`; the hypothesis says how
    `comp` unfolds (t1 e1 h1 = the labels / hasnextcond handed to the left operand). -/
theorem logical_ef (l r : Cond) (al : AuxFrame l) (ar : AuxFrame r) (e : Cond)
    (hcomp : ∀ (st : CState) (reg : Nat) (ec : ExpCtx), ∃ (t1 e1 : Nat) (h1 : Bool) (hl : e.isLogical = true) (hc : isConcat e = false),
      comp e (.expr reg ec) st =
        { st := logicalTail (comp r (.aux reg ec st.labelId st.labelId false ⟨st.labelId + 1, st.labelId + 1 + 1, st.labelId⟩
              (comp l (.aux reg ec t1 e1 h1 ⟨st.labelId + 1, st.labelId + 1 + 1, st.labelId⟩ false)
                { st with labelId := st.labelId + 1 + 1 + 1 + 1 }).b)
              (setLabelHere (comp l (.aux reg ec t1 e1 h1 ⟨st.labelId + 1, st.labelId + 1 + 1, st.labelId⟩ false)
                { st with labelId := st.labelId + 1 + 1 + 1 + 1 }).st (st.labelId + 1 + 1 + 1))).st (savereg ec reg)
              ⟨st.labelId + 1, st.labelId + 1 + 1, st.labelId⟩
              (comp r (.aux reg ec st.labelId st.labelId false ⟨st.labelId + 1, st.labelId + 1 + 1, st.labelId⟩
              (comp l (.aux reg ec t1 e1 h1 ⟨st.labelId + 1, st.labelId + 1 + 1, st.labelId⟩ false)
                { st with labelId := st.labelId + 1 + 1 + 1 + 1 }).b)
              (setLabelHere (comp l (.aux reg ec t1 e1 h1 ⟨st.labelId + 1, st.labelId + 1 + 1, st.labelId⟩ false)
                { st with labelId := st.labelId + 1 + 1 + 1 + 1 }).st (st.labelId + 1 + 1 + 1))).b,
          inc := if savereg ec reg < reg then 0 else 1 }) :
    ExprFrame e := by
  intro st reg ec htop
  obtain ⟨t1, e1, h1, hlog, hncat, hc⟩ := hcomp st reg ec
  generalize hlb : (⟨st.labelId + 1, st.labelId + 1 + 1, st.labelId⟩ : LbLabels) = lb at hc
  have hlbe : lb.e = st.labelId := by subst hlb; rfl
  have hlbt : lb.t = st.labelId + 1 := by subst hlb; rfl
  have hlbf : lb.f = st.labelId + 2 := by subst hlb; rfl
  generalize hs4 : ({ st with labelId := st.labelId + 1 + 1 + 1 + 1 } : CState) = s4 at hc
  have hs4_id : s4.labelId = st.labelId + 4 := by subst hs4; rfl
  have hs4_top : s4.regTop = st.regTop := by subst hs4; rfl
  have hs4_code : s4.code = st.code := by subst hs4; rfl
  have fa : Frame st.labelId st s4 := by
    subst hs4; exact ⟨List.prefix_refl _, by simp; omega, fun _ _ => rfl, rfl, List.prefix_refl _⟩
  have a1 := al s4 reg ec t1 e1 h1 lb false (by rw [hs4_top]; exact htop)
  generalize hr1 : comp l (.aux reg ec t1 e1 h1 lb false) s4 = r1 at hc a1
  have f1 := a1.frame; have hlt1 := a1.lt
  rw [hr1] at f1 hlt1
  have fc : Frame st.labelId r1.st (setLabelHere r1.st (st.labelId + 1 + 1 + 1)) := frame_setLabelHere _ _ (by omega)
  have a2 := ar (setLabelHere r1.st (st.labelId + 1 + 1 + 1)) reg ec st.labelId st.labelId false lb r1.b
    (by rw [fc.regTop, f1.regTop, hs4_top]; exact htop)
  generalize hr2 : comp r (.aux reg ec st.labelId st.labelId false lb r1.b) (setLabelHere r1.st (st.labelId + 1 + 1 + 1)) = r2 at hc a2
  have f2 := a2.frame; have hlt2 := a2.lt
  rw [hr2] at f2 hlt2
  have f2' : Frame st.labelId (setLabelHere r1.st (st.labelId + 1 + 1 + 1)) r2.st :=
    f2.mono (by have := f1.labelId; simp at *; omega)
  obtain ⟨ft, hle⟩ := logicalTail_frame (lo := st.labelId) (setLabelHere r1.st (st.labelId + 1 + 1 + 1)) r2.st (savereg ec reg)
    lb r2.b f2' hlt2 ⟨by omega, by omega, by omega⟩
  simp only [setLabelHere_code] at hle hlt2
  -- the last instruction after the tail
  have hlast : NoCat (logicalTail r2.st (savereg ec reg) lb r2.b).code := by
    unfold logicalTail
    simp only [setLabelHere_code]
    cases hb : r2.b with
    | true =>
      have : tailPop (tailBools r2.st (savereg ec reg) lb true) lb.e = tailBools r2.st (savereg ec reg) lb true := by
        rcases tailPop_cases (tailBools r2.st (savereg ec reg) lb true) lb.e with h | ⟨_, c, hc'⟩
        · exact h
        · exfalso
          simp [tailBools] at hc'
          have := congrArg List.getLast? hc'
          simp at this
      rw [this]
      simp only [tailBools, if_true]
      exact noCat_emit _ _ (by simp)
    | false =>
      simp only [tailBools, Bool.false_eq_true, if_false]
      have hl := a2.lastop rfl hlbe.symm hlbe.symm
      rw [hr2, hb] at hl
      rcases hl with h | ⟨pre, i, hcode, _, hi⟩
      · cases h
      · have : tailPop r2.st lb.e = pop r2.st := by
          unfold tailPop
          simp [last, hcode]
        rw [this]
        simp only [pop_code, hcode]
        have : (pre ++ [i, Instr.jmp (lb.e : Int)]).dropLast = pre ++ [i] := by
          rw [show pre ++ [i, Instr.jmp (lb.e : Int)] = (pre ++ [i]) ++ [Instr.jmp (lb.e : Int)] by simp]
          exact List.dropLast_concat
        rw [this]
        exact noCat_append_singleton _ _ hi
  refine ⟨?_, ?_, by rw [hc], ?_, ?_, ?_, ?_, ?_, ?_⟩
  · rw [hc]; exact (fa.trans (f1.mono (by omega))).trans (fc.trans ft)
  · rw [hc]; rw [hs4_code] at hlt1; simp only []; omega
  · intro _ h; rw [hlog] at h; cases h
  · intro k hk; have := konstOf_notLogical hk; rw [hlog] at this; cases this
  · intro r' hr'; subst hr'; simp [Cond.isLogical] at hlog
  · intro _; rw [hc]; exact hlast
  · intro l' r' h'; subst h'; simp [isConcat] at hncat
  · intro _ h; rw [hlog] at h; cases h

theorem comp_frame : ∀ (e : Cond), ExprFrame e ∧ AuxFrame e := by
  intro e
  induction e with
  | tru =>
    refine ⟨ef_leaf .tru rfl, fun st reg ec thenl elsel hasnext lb b _ => ?_⟩
    refine af_const .tru st reg ec thenl elsel hasnext lb b rfl (Or.inl ?_)
    simp only [comp]
    split
    · exact ⟨_, _, rfl, fun _ => rfl, fun _ _ _ => rfl⟩
    · rename_i hne; exact ⟨_, _, rfl, fun h => h, fun _ h _ => absurd h hne⟩
  | fls =>
    refine ⟨ef_leaf .fls rfl, fun st reg ec thenl elsel hasnext lb b _ => ?_⟩
    refine af_const .fls st reg ec thenl elsel hasnext lb b rfl (Or.inl ?_)
    simp only [comp]
    split
    · exact ⟨_, _, rfl, fun _ => rfl, fun _ _ _ => rfl⟩
    · rename_i hne; exact ⟨_, _, rfl, fun h => h, fun _ _ h => absurd h hne⟩
  | nil =>
    refine ⟨ef_leaf .nil rfl, fun st reg ec thenl elsel hasnext lb b _ => ?_⟩
    refine af_const .nil st reg ec thenl elsel hasnext lb b rfl ?_
    simp only [comp]
    split
    · exact Or.inr ⟨rfl, leafExpr_lastnocat .nil rfl reg ec st⟩
    · rename_i hne; exact Or.inl ⟨_, _, rfl, fun h => h, fun _ _ h => absurd h hne⟩
  | num n =>
    refine ⟨ef_leaf (.num n) rfl, fun st reg ec thenl elsel hasnext lb b _ => ?_⟩
    refine af_const (.num n) st reg ec thenl elsel hasnext lb b rfl ?_
    simp only [comp]
    split
    · exact Or.inr ⟨rfl, leafExpr_lastnocat (.num n) rfl reg ec st⟩
    · rename_i hne; exact Or.inl ⟨_, _, rfl, fun h => h, fun _ h _ => absurd h hne⟩
  | str n =>
    refine ⟨ef_leaf (.str n) rfl, fun st reg ec thenl elsel hasnext lb b _ => ?_⟩
    refine af_const (.str n) st reg ec thenl elsel hasnext lb b rfl ?_
    simp only [comp]
    split
    · exact Or.inr ⟨rfl, leafExpr_lastnocat (.str n) rfl reg ec st⟩
    · rename_i hne; exact Or.inl ⟨_, _, rfl, fun h => h, fun _ h _ => absurd h hne⟩
  | loc r =>
    refine ⟨ef_leaf (.loc r) rfl, fun st reg ec thenl elsel hasnext lb b htop => ?_⟩
    by_cases hin : (elsel = lb.e ∧ thenl ≠ elsel) ∨ (thenl = lb.e ∧ hasnext = true)
    · have hcomp : comp (.loc r) (.aux reg ec thenl elsel hasnext lb b) st =
          { st := emit (emit st (if savereg ec reg = r then .test (savereg ec reg) r (flipOf hasnext)
                                  else .testset (savereg ec reg) r (flipOf hasnext)))
                    (.jmp ((if hasnext then thenl else elsel : Nat) : Int)), b := b } := by
        rw [aux_loc_eq, if_pos hin]
      refine ⟨by rw [hcomp]; exact (frame_emit _ _).trans (frame_emit _ _), by rw [hcomp]; simp, fun h => by rw [hcomp]; exact h, ?_⟩
      intro hn ht he
      exfalso
      rcases hin with ⟨_, h⟩ | ⟨_, h⟩
      · exact h (ht.trans he.symm)
      · rw [hn] at h; cases h
    · exact af_of_exprFrame (.loc r) (ef_leaf (.loc r) rfl) (fun ec' s => leafExpr (.loc r) reg ec' s) st reg ec thenl elsel hasnext lb b htop
        (by rw [aux_loc_eq, if_neg hin]) (fun ec' s => by simp [comp])
  | ev id =>
    refine ⟨ef_leaf (.ev id) rfl, fun st reg ec thenl elsel hasnext lb b htop => ?_⟩
    exact af_of_exprFrame (.ev id) (ef_leaf (.ev id) rfl) (fun ec' s => leafExpr (.ev id) reg ec' s) st reg ec thenl elsel hasnext lb b htop
      (by simp only [comp]) (fun ec' s => by simp [comp])
  | not c ih =>
    have hex := ef_not c ih.1
    refine ⟨hex, fun st reg ec thenl elsel hasnext lb b htop => ?_⟩
    exact af_of_exprFrame (.not c) hex (fun ec' s => notExpr c (fun s' => comp c (.expr reg ecnone0) s') reg ec' s)
      st reg ec thenl elsel hasnext lb b htop (by simp only [comp]) (fun ec' s => by simp only [comp])
  | unm c ih =>
    have hex := ef_unm c ih.1
    refine ⟨hex, fun st reg ec thenl elsel hasnext lb b htop => ?_⟩
    exact af_of_exprFrame (.unm c) hex (fun ec' s => unmExpr (lnum (.unm c)) c.isLogical (fun s' => comp c (.expr reg ecnone0) s') reg ec' s)
      st reg ec thenl elsel hasnext lb b htop (by simp only [comp]) (fun ec' s => by simp only [comp])
  | len c ih =>
    have hex := ef_len c ih.1
    refine ⟨hex, fun st reg ec thenl elsel hasnext lb b htop => ?_⟩
    exact af_of_exprFrame (.len c) hex (fun ec' s => unopExpr .len c.isLogical (fun s' => comp c (.expr reg ecnone0) s') reg ec' s)
      st reg ec thenl elsel hasnext lb b htop (by simp only [comp]) (fun ec' s => by simp only [comp])
  | arith op l r ihl ihr =>
    have hex := ef_arith op l r ihl.1 ihr.1
    refine ⟨hex, fun st reg ec thenl elsel hasnext lb b htop => ?_⟩
    exact af_of_exprFrame (.arith op l r) hex (fun ec' s => arithExpr (lnum (.arith op l r)) op (fun s' g => comp l (.expr g ecnone0) s')
        (fun s' g => comp r (.expr g ecnone0) s') l.isLogical r.isLogical reg ec' s)
      st reg ec thenl elsel hasnext lb b htop (by simp only [comp]) (fun ec' s => by simp only [comp])
  | concat l r ihl ihr =>
    have hex := ef_concat l r ihl.1 ihr.1
    refine ⟨hex, fun st reg ec thenl elsel hasnext lb b htop => ?_⟩
    exact af_of_exprFrame (.concat l r) hex (fun ec' s => concatExpr (1 + spine r) (fun s' g => comp l (.expr g ecnone0) s')
        (fun s' g => comp r (.expr g ecnone0) s') reg ec' s)
      st reg ec thenl elsel hasnext lb b htop (by simp only [comp]) (fun ec' s => by simp only [comp])
  | rel op l r ihl ihr =>
    refine ⟨ef_rel op l r ihl.1 ihr.1, fun st reg ec thenl elsel hasnext lb b htop => ?_⟩
    rw [AF_iff, aux_rel_eq]
    obtain ⟨f, hlt⟩ := relCode_frame op l r ihl.1 ihr.1 st reg (relChoice thenl elsel hasnext lb b).1 (relChoice thenl elsel hasnext lb b).2.1 htop
    refine ⟨f, hlt, ?_, ?_⟩
    · intro hb; unfold relChoice; subst hb; split <;> (try split) <;> (try split) <;> rfl
    · intro _ ht he; left; unfold relChoice; rw [if_pos (ht.trans he.symm)]
  | and l r ihl ihr =>
    refine ⟨logical_ef l r ihl.2 ihr.2 _ (fun st reg ec => ⟨st.labelId + 1 + 1 + 1, st.labelId, false, rfl, rfl, by simp only [comp, newLabel]⟩),
      fun st reg ec thenl elsel hasnext lb b htop => ?_⟩
    rw [AF_iff]
    exact af_logical l r ihl.2 ihr.2 st reg ec st.labelId elsel false thenl elsel hasnext lb b htop _ (by simp only [comp, newLabel])
  | or l r ihl ihr =>
    refine ⟨logical_ef l r ihl.2 ihr.2 _ (fun st reg ec => ⟨st.labelId, st.labelId + 1 + 1 + 1, true, rfl, rfl, by simp only [comp, newLabel]⟩),
      fun st reg ec thenl elsel hasnext lb b htop => ?_⟩
    rw [AF_iff]
    exact af_logical l r ihl.2 ihr.2 st reg ec thenl st.labelId true thenl elsel hasnext lb b htop _ (by simp only [comp, newLabel])

end GLua.Lowering
