/-
  Value-context lowering, part 2: semantics of compileExpr on leaves and constants, of ONE OPERAND compiled through
  compileExprWith(K)MVPropagation (the operand lemma: when Propagate(K)MV pops, what it popped was the operand's
  own single instruction into its own scratch register), of unary operators, of the two operands of a binary
  operator, of compileRelationalOpExpr(Aux).
-/
import GLua.Proofs.LoweringValue

set_option linter.unusedSectionVars false

namespace GLua.Lowering
open GLua.Compile GLua.MiniVM GLua.CondSpec

variable [NumStruct]
variable {V : Type}

def FullFrame (reg : Nat) (ρ ρ' : Nat → V) : Prop := ∀ x, x < reg → ρ' x = ρ x
def DestFrame (reg sreg : Nat) (ρ ρ' : Nat → V) : Prop := ∀ x, x < reg → x ≠ sreg → ρ' x = ρ x

theorem FullFrame.dest {reg sreg : Nat} {ρ ρ' : Nat → V} (h : FullFrame reg ρ ρ') : DestFrame reg sreg ρ ρ' :=
  fun x hx _ => h x hx
theorem FullFrame.refl (reg : Nat) (ρ : Nat → V) : FullFrame reg ρ ρ := fun _ _ => rfl
theorem DestFrame.refl (reg sreg : Nat) (ρ : Nat → V) : DestFrame reg sreg ρ ρ := fun _ _ _ => rfl
theorem FullFrame.trans {reg : Nat} {ρ ρ1 ρ2 : Nat → V} (h1 : FullFrame reg ρ ρ1) (h2 : FullFrame reg ρ1 ρ2) : FullFrame reg ρ ρ2 :=
  fun x hx => by rw [h2 x hx, h1 x hx]
theorem FullFrame.mono {reg reg' : Nat} {ρ ρ1 : Nat → V} (h : FullFrame reg' ρ ρ1) (hle : reg ≤ reg') : FullFrame reg ρ ρ1 :=
  fun x hx => h x (Nat.lt_of_lt_of_le hx hle)
theorem DestFrame.trans {reg sreg : Nat} {ρ ρ1 ρ2 : Nat → V} (h1 : DestFrame reg sreg ρ ρ1) (h2 : DestFrame reg sreg ρ1 ρ2) :
    DestFrame reg sreg ρ ρ2 := fun x hx hs => by rw [h2 x hx hs, h1 x hx hs]
theorem DestFrame.setReg {reg sreg : Nat} {ρ ρ1 : Nat → V} (h : DestFrame reg sreg ρ ρ1) (v : V) :
    DestFrame reg sreg ρ (setReg ρ1 sreg v) := fun x hx hs => by rw [setReg_other _ _ hs, h x hx hs]

/-- the expression-mode statement: the destination receives the value, control is behind the code,
    registers below `reg` other than the destination are unchanged. -/
def ExprSem (d : Dom V) (e : Cond) : Prop :=
  ∀ (st F : CState) (reg : Nat) (ec : ExpCtx) (ρ γ : Nat → V) (v : V),
    st.regTop ≤ reg → LocalsBelow reg e → reg + rh e < 256 → savereg ec reg ≤ reg →
    eval d ρ γ e = some v → (∀ L, LabelOK F L) →
    (comp e (.expr reg ec) st).st.code <+: F.code →
    (comp e (.expr reg ec) st).st.consts <+: F.consts →
    (∀ L, st.labelId ≤ L → L < (comp e (.expr reg ec) st).st.labelId →
        getLabelPc F L = getLabelPc (comp e (.expr reg ec) st).st L) →
    ∃ ρ', Reaches d (P0 F) F.consts ⟨st.code.length, ρ, γ⟩ ⟨(comp e (.expr reg ec) st).st.code.length, ρ', γ⟩ ∧
      ρ' (savereg ec reg) = v ∧ DestFrame reg (savereg ec reg) ρ ρ'

/-! ### constants -/

/-- one LOADK of a pool constant into the destination. -/
theorem loadK_sem (d : Dom V) (k : Konst) (st F : CState) (reg : Nat) (ec : ExpCtx) (ρ γ : Nat → V)
    (hF : (loadK k reg ec st).st.code <+: F.code) (hK : (loadK k reg ec st).st.consts <+: F.consts) :
    Reaches d (P0 F) F.consts ⟨st.code.length, ρ, γ⟩
      ⟨(loadK k reg ec st).st.code.length, setReg ρ (savereg ec reg) (Env.konst d k), γ⟩ := by
  obtain ⟨hk1, _, hk3, _⟩ := constIndex_spec st k
  have hc := code_at_end (st := (constIndex st k).1) (i := .loadk (savereg ec reg) (constIndex st k).2) (by simp [loadK]) hF
  rw [hk3] at hc
  have hkF := prefix_get_some hK (by simpa [loadK] using hk1)
  refine Reaches.single ?_
  simp [step, P0_get_nonjmp hc rfl, loadK, hkF, hk3]

/-- constant folding is sound for the manual's semantics: a tree that folds to the number x evaluates to x
    (by the two laws of `Dom.Lawful` about arithmetic on numbers). -/
theorem lnum_eval (d : Dom V) (hd : d.Lawful) (ρ γ : Nat → V) : ∀ (e : Cond) (x : NumStruct.N), lnum e = some x →
    eval d ρ γ e = some (d.num x) := by
  intro e
  induction e with
  | num n => intro x h; simp only [lnum, Option.some.injEq] at h; subst h; rfl
  | arith op l r ihl ihr =>
    intro x h
    simp only [lnum] at h
    cases hl : lnum l with
    | none => simp [hl] at h
    | some a =>
      cases hr : lnum r with
      | none => simp [hl, hr] at h
      | some b =>
        simp only [hl, hr, Option.some.injEq] at h
        subst h
        simp only [eval, ihl a hl, ihr b hr, hd.arith_num]
  | unm c ih =>
    intro x h
    simp only [lnum] at h
    cases hc : lnum c with
    | none => simp [hc] at h
    | some a =>
      simp only [hc, Option.some.injEq] at h
      subst h
      simp only [eval, ih a hc, hd.unm_num]
  | _ => intro x h; simp [lnum] at h

theorem konstOf_eval (d : Dom V) (hd : d.Lawful) (ρ γ : Nat → V) (e : Cond) (k : Konst) (h : konstOf e = some k) :
    eval d ρ γ e = some (Env.konst d k) := by
  cases e
  case str s => simp only [konstOf, Option.some.injEq] at h; subst h; rfl
  all_goals
    simp only [konstOf, Option.map_eq_some_iff] at h
    obtain ⟨x, hx, rfl⟩ := h
    exact lnum_eval d hd ρ γ _ x hx

/-- a leaf in expression mode: one instruction. -/
theorem leafExpr_sem (d : Dom V) (e : Cond) (he : isLeaf e = true) (st F : CState) (reg : Nat) (ec : ExpCtx) (ρ γ : Nat → V) (v : V)
    (hloc : LocalsBelow reg e) (hev : eval d ρ γ e = some v)
    (hF : (leafExpr e reg ec st).st.code <+: F.code) (hK : (leafExpr e reg ec st).st.consts <+: F.consts) :
    Reaches d (P0 F) F.consts ⟨st.code.length, ρ, γ⟩ ⟨(leafExpr e reg ec st).st.code.length, setReg ρ (savereg ec reg) v, γ⟩ := by
  cases e <;> simp [isLeaf] at he
  case tru =>
    simp only [eval, Option.some.injEq] at hev; subst hev
    have hc := code_at_end (st := st) (i := .loadbool (savereg ec reg) 1 0) (by simp [leafExpr]) hF
    refine Reaches.single ?_
    simp [step, P0_get_nonjmp hc rfl, leafExpr]
  case fls =>
    simp only [eval, Option.some.injEq] at hev; subst hev
    have hc := code_at_end (st := st) (i := .loadbool (savereg ec reg) 0 0) (by simp [leafExpr]) hF
    refine Reaches.single ?_
    simp [step, P0_get_nonjmp hc rfl, leafExpr]
  case nil =>
    simp only [eval, Option.some.injEq] at hev; subst hev
    have hc := code_at_end (st := st) (i := .loadnil (savereg ec reg) (savereg ec reg)) (by simp [leafExpr]) hF
    refine Reaches.single ?_
    simp [step, P0_get_nonjmp hc rfl, leafExpr, fillNil_one]
  case num n =>
    simp only [eval, Option.some.injEq] at hev; subst hev
    exact loadK_sem d (.num (NumStruct.lit n)) st F reg ec ρ γ hF hK
  case str n =>
    simp only [eval, Option.some.injEq] at hev; subst hev
    exact loadK_sem d (.str n) st F reg ec ρ γ hF hK
  case loc r =>
    simp only [eval, Option.some.injEq] at hev; subst hev
    have hc := code_at_end (st := st) (i := .move (savereg ec reg) r) (by simp [leafExpr]) hF
    refine Reaches.single ?_
    simp [step, P0_get_nonjmp hc rfl, leafExpr]
  case ev id =>
    simp only [eval, Option.some.injEq] at hev; subst hev
    obtain ⟨_, _, hk3, _⟩ := constIndex_spec st (gname id)
    have hc := code_at_end (st := (constIndex st (gname id)).1) (i := .eval (savereg ec reg) id) (by simp [leafExpr]) hF
    rw [hk3] at hc
    refine Reaches.single ?_
    simp [step, P0_get_nonjmp hc rfl, leafExpr, hk3]

theorem exprSem_leaf (d : Dom V) (e : Cond) (he : isLeaf e = true) : ExprSem d e := by
  intro st F reg ec ρ γ v _ hloc _ _ hev _ hF hK _
  rw [comp_leaf_expr e he] at hF hK ⊢
  exact ⟨_, leafExpr_sem d e he st F reg ec ρ γ v hloc hev hF hK, setReg_same _ _ _, fun x _ hs => setReg_other _ _ hs⟩

/-- an expression that `constFold` turns into the constant x: one LOADK, and x is the manual's value. -/
theorem exprSem_folded (d : Dom V) (hd : d.Lawful) (e : Cond) (x : NumStruct.N) (hx : lnum e = some x)
    (hcomp : ∀ st reg ec, comp e (.expr reg ec) st = loadK (.num x) reg ec st) : ExprSem d e := by
  intro st F reg ec ρ γ v _ _ _ _ hev _ hF hK _
  rw [hcomp] at hF hK ⊢
  have hv := lnum_eval d hd ρ γ e x hx
  rw [hev] at hv
  cases hv
  exact ⟨_, loadK_sem d (.num x) st F reg ec ρ γ hF hK, setReg_same _ _ _, fun y _ hs => setReg_other _ _ hs⟩

/-! ### one operand through compileExprWith(K)MVPropagation -/

/-- **the operand lemma.**  After the code of one operand (compiled at the free register `reg`, then passed through
    PropagateKMV / PropagateMV) the operand's value is where the returned operand field says: in a local below `reg`
    (the popped `MOVE reg r`), in the constant pool (the popped `LOADK reg k`, KMV only), or in `reg` itself; every
    register below `reg` is unchanged, and the operand field is below the next free register (or a constant), so the
    code of a following operand cannot overwrite it. -/
theorem opr_sem (d : Dom V) (hd : d.Lawful) (kmv : Bool) (c : Cond) (hfr : ExprFrame c) (hc : ExprSem d c)
    (st F : CState) (reg : Nat) (ρ γ : Nat → V) (vc : V)
    (htop : st.regTop ≤ reg) (hloc : LocalsBelow reg c) (hreg : reg + rh c < 256) (hev : eval d ρ γ c = some vc)
    (hok : ∀ L, LabelOK F L)
    (hF : (opr kmv c reg st).1.code <+: F.code) (hK : (opr kmv c reg st).1.consts <+: F.consts)
    (hlab : ∀ L, st.labelId ≤ L → L < (opr kmv c reg st).1.labelId → getLabelPc F L = getLabelPc (opr kmv c reg st).1 L) :
    ∃ ρ1, Reaches d (P0 F) F.consts ⟨st.code.length, ρ, γ⟩ ⟨(opr kmv c reg st).1.code.length, ρ1, γ⟩ ∧
      FullFrame reg ρ ρ1 ∧ rkValue d F.consts ρ1 (opr kmv c reg st).2.1 = some vc ∧
      ((opr kmv c reg st).2.1 < (opr kmv c reg st).2.2 ∨ 256 ≤ (opr kmv c reg st).2.1) ∧
      (kmv = false → (opr kmv c reg st).2.1 < 256) := by
  have hreg' : reg < 256 := by omega
  rcases opr_cases kmv c st reg (hfr st reg ecnone0 htop) htop with ⟨k, hk, h⟩ | ⟨r, hr, h⟩ | ⟨_, _, h⟩
  · -- a constant: opnd_sem_konst
    have hv := konstOf_eval d hd ρ γ c k hk
    rw [hev] at hv; cases hv
    obtain ⟨ρ1, hr1, hag1, hrk1, hst1, _, _, h256⟩ := opnd_sem_konst d kmv reg st F ρ γ k _ hreg' h hF hK
    exact ⟨ρ1, hr1, fun x hx => hag1 x (by omega), hrk1, hst1, h256⟩
  · -- a local: no code at all
    subst hr
    simp only [eval, Option.some.injEq] at hev; subst hev
    simp only [LocalsBelow] at hloc
    rw [h]
    exact ⟨ρ, .refl _, FullFrame.refl _ _, rk_reg (show r < 256 by omega), Or.inl hloc, fun _ => by show r < 256; omega⟩
  · -- anything else: its value is in `reg`
    rw [h] at hF hK hlab ⊢
    obtain ⟨ρ1, hr1, hv1, hd1⟩ := hc st F reg ecnone0 ρ γ vc htop hloc hreg (by rw [savereg_ecnone0]; exact Nat.le_refl _) hev hok hF hK hlab
    rw [savereg_ecnone0] at hv1 hd1
    refine ⟨ρ1, hr1, fun x hx => hd1 x hx (by omega), ?_, Or.inl (Nat.lt_succ_self _), fun _ => hreg'⟩
    simp only []
    rw [rk_reg hreg', hv1]

/-! ### unary operators (NOT, UNM, LEN) -/

/-- `compileUnaryOpExpr`'s general tail: operand through PropagateMV, then one instruction `mk a b` whose meaning is
    `R(a) := f(R(b))`. -/
theorem unop_sem (d : Dom V) (hd : d.Lawful) (mk : Nat → Nat → Instr) (f : V → Option V) (c : Cond) (hfr : ExprFrame c) (hc : ExprSem d c)
    (hmk : ∀ a b, (mk a b).isJmp = false)
    (hstep : ∀ (code : List Instr) (consts : List Konst) (p a b : Nat) (ρ γ : Nat → V) (v : V), code[p]? = some (mk a b) → b < 256 →
        f (ρ b) = some v → step d code consts ⟨p, ρ, γ⟩ = .ok ⟨p + 1, setReg ρ a v, γ⟩)
    (st F : CState) (reg : Nat) (ec : ExpCtx) (ρ γ : Nat → V) (vc v : V)
    (htop : st.regTop ≤ reg) (hloc : LocalsBelow reg c) (hreg : reg + rh c < 256) (hev : eval d ρ γ c = some vc) (hf : f vc = some v)
    (hok : ∀ L, LabelOK F L)
    (hF : (unopExpr mk c.isLogical (fun s => comp c (.expr reg ecnone0) s) reg ec st).st.code <+: F.code)
    (hK : (unopExpr mk c.isLogical (fun s => comp c (.expr reg ecnone0) s) reg ec st).st.consts <+: F.consts)
    (hlab : ∀ L, st.labelId ≤ L → L < (unopExpr mk c.isLogical (fun s => comp c (.expr reg ecnone0) s) reg ec st).st.labelId →
        getLabelPc F L = getLabelPc (unopExpr mk c.isLogical (fun s => comp c (.expr reg ecnone0) s) reg ec st).st L) :
    ∃ ρ', Reaches d (P0 F) F.consts ⟨st.code.length, ρ, γ⟩
        ⟨(unopExpr mk c.isLogical (fun s => comp c (.expr reg ecnone0) s) reg ec st).st.code.length, ρ', γ⟩ ∧
      ρ' (savereg ec reg) = v ∧ DestFrame reg (savereg ec reg) ρ ρ' := by
  obtain ⟨_, _, hst⟩ := unop_frame mk c hfr st reg ec htop
  rw [hst] at hF hK hlab ⊢
  obtain ⟨ρ1, hr1, hf1, hrk1, _, h256⟩ := opr_sem d hd false c hfr hc st F reg ρ γ vc htop hloc hreg hev hok
    (List.IsPrefix.trans (by simp) hF) (by simpa using hK) (by simpa [getLabelPc] using hlab)
  have hb := h256 rfl
  rw [rk_reg hb] at hrk1
  have hv1 : ρ1 (opr false c reg st).2.1 = vc := Option.some.inj hrk1
  have hcd : F.code[(opr false c reg st).1.code.length]? = some (mk (savereg ec reg) (opr false c reg st).2.1) := by
    apply prefix_get_some hF; simp
  refine ⟨setReg ρ1 (savereg ec reg) v, ?_, setReg_same _ _ _, (hf1.dest).setReg _⟩
  refine hr1.trans (Reaches.single ?_)
  have := hstep (P0 F) F.consts _ _ _ ρ1 γ v (P0_get_nonjmp hcd (hmk _ _)) hb (by rw [hv1]; exact hf)
  simpa using this

theorem exprSem_not (d : Dom V) (hd : d.Lawful) (c : Cond) (hfr : ExprFrame c) (hc : ExprSem d c) : ExprSem d (.not c) := by
  intro st F reg ec ρ γ v htop hloc hreg hsreg hev hok hF hK hlab
  simp only [comp] at hF hK hlab ⊢
  simp only [eval, Option.map_eq_some_iff] at hev
  obtain ⟨vc, hvc, rfl⟩ := hev
  have simple : ∀ (bb : Nat) (hbb : (if d.truthy vc = true then d.falseV else d.trueV) = (if bb ≠ 0 then d.trueV else d.falseV))
      (hst : (notExpr c (fun s => comp c (.expr reg ecnone0) s) reg ec st).st = emit st (.loadbool (savereg ec reg) bb 0)),
      ∃ ρ', Reaches d (P0 F) F.consts ⟨st.code.length, ρ, γ⟩
          ⟨(notExpr c (fun s => comp c (.expr reg ecnone0) s) reg ec st).st.code.length, ρ', γ⟩ ∧
        ρ' (savereg ec reg) = (if d.truthy vc = true then d.falseV else d.trueV) ∧ DestFrame reg (savereg ec reg) ρ ρ' := by
    intro bb hbb hst
    rw [hst] at hF ⊢
    have hcd := code_at_end (st := st) (i := .loadbool (savereg ec reg) bb 0) rfl hF
    refine ⟨setReg ρ (savereg ec reg) (if bb ≠ 0 then d.trueV else d.falseV), ?_, by rw [setReg_same, hbb], fun x _ hs => setReg_other _ _ hs⟩
    refine Reaches.single ?_
    simp [step, P0_get_nonjmp hcd rfl]
  by_cases h1 : c = .tru
  · subst h1
    simp only [eval, Option.some.injEq] at hvc; subst hvc
    exact simple 0 (by simp [hd.true_truthy]) (by simp [notExpr])
  by_cases h2 : c = .fls
  · subst h2
    simp only [eval, Option.some.injEq] at hvc; subst hvc
    exact simple 1 (by simp [hd.false_falsy]) (by simp [notExpr])
  by_cases h3 : c = .nil
  · subst h3
    simp only [eval, Option.some.injEq] at hvc; subst hvc
    exact simple 1 (by simp [hd.nil_falsy]) (by simp [notExpr])
  rw [notExpr_general c _ reg ec st ⟨h1, h2, h3⟩] at hF hK hlab ⊢
  simp only [LocalsBelow] at hloc
  simp only [rh] at hreg
  exact unop_sem d hd .not (fun x => some (if d.truthy x = true then d.falseV else d.trueV)) c hfr hc (fun _ _ => rfl)
    (fun code consts p a b ρ γ v hcd _ hv => by
      simp only [Option.some.injEq] at hv; subst hv
      simp [step, hcd])
    st F reg ec ρ γ vc _ htop hloc hreg hvc rfl hok hF hK hlab

theorem exprSem_len (d : Dom V) (hd : d.Lawful) (c : Cond) (hfr : ExprFrame c) (hc : ExprSem d c) : ExprSem d (.len c) := by
  intro st F reg ec ρ γ v htop hloc hreg hsreg hev hok hF hK hlab
  simp only [comp] at hF hK hlab ⊢
  simp only [eval] at hev
  cases hvc : eval d ρ γ c with
  | none => simp [hvc] at hev
  | some vc =>
    simp only [hvc] at hev
    simp only [LocalsBelow] at hloc
    simp only [rh] at hreg
    exact unop_sem d hd .len d.len c hfr hc (fun _ _ => rfl)
      (fun code consts p a b ρ γ v hcd hb hv => by
        simp [step, hcd, rk_reg hb, hv, opStep])
      st F reg ec ρ γ vc v htop hloc hreg hvc hev hok hF hK hlab

theorem exprSem_unm (d : Dom V) (hd : d.Lawful) (c : Cond) (hfr : ExprFrame c) (hc : ExprSem d c) : ExprSem d (.unm c) := by
  cases hfold : lnum (.unm c) with
  | some x =>
    exact exprSem_folded d hd (.unm c) x hfold (fun st reg ec => by simp only [comp, hfold, unmExpr])
  | none =>
    intro st F reg ec ρ γ v htop hloc hreg hsreg hev hok hF hK hlab
    simp only [comp, hfold, unmExpr] at hF hK hlab ⊢
    simp only [eval] at hev
    cases hvc : eval d ρ γ c with
    | none => simp [hvc] at hev
    | some vc =>
      simp only [hvc] at hev
      simp only [LocalsBelow] at hloc
      simp only [rh] at hreg
      exact unop_sem d hd .unm d.unm c hfr hc (fun _ _ => rfl)
        (fun code consts p a b ρ γ v hcd hb hv => by
          simp [step, hcd, rk_reg hb, hv, opStep])
        st F reg ec ρ γ vc v htop hloc hreg hvc hev hok hF hK hlab

/-! ### the two operands of a binary operator -/

/-- **both operands, left to right**: the code of `b := reg; …KMV(Lhs); c := reg; …KMV(Rhs)` is the code of the left
    operand followed by the code of the right operand.  Running it passes through the MIDPOINT behind the left operand's
    code, where the left operand field already denotes the left value and no instruction of the right operand has run;
    at the end both operand fields denote the two values (the left one has survived the code of the right one) and
    every register below `reg` is unchanged. -/
theorem bops_sem_mid (d : Dom V) (hd : d.Lawful) (l r : Cond) (hfl : ExprFrame l) (hfr : ExprFrame r) (hl : ExprSem d l) (hr : ExprSem d r)
    (st F : CState) (reg : Nat) (ρ γ : Nat → V) (x y : V)
    (htop : st.regTop ≤ reg) (hll : LocalsBelow reg l) (hlr : LocalsBelow reg r) (hreg : reg + max (rh l) (rh r + 1) < 256)
    (hx : eval d ρ γ l = some x) (hy : eval d ρ γ r = some y) (hok : ∀ L, LabelOK F L)
    (hF : (bops l r st reg).1.code <+: F.code) (hK : (bops l r st reg).1.consts <+: F.consts)
    (hlab : ∀ L, st.labelId ≤ L → L < (bops l r st reg).1.labelId → getLabelPc F L = getLabelPc (bops l r st reg).1 L) :
    (opr true l reg st).1.code <+: (bops l r st reg).1.code ∧
    ∃ ρ1 ρ2, Reaches d (P0 F) F.consts ⟨st.code.length, ρ, γ⟩ ⟨(opr true l reg st).1.code.length, ρ1, γ⟩ ∧
      rkValue d F.consts ρ1 (bops l r st reg).2.1 = some x ∧ FullFrame reg ρ ρ1 ∧
      Reaches d (P0 F) F.consts ⟨(opr true l reg st).1.code.length, ρ1, γ⟩ ⟨(bops l r st reg).1.code.length, ρ2, γ⟩ ∧
      FullFrame reg ρ ρ2 ∧
      rkValue d F.consts ρ2 (bops l r st reg).2.1 = some x ∧ rkValue d F.consts ρ2 (bops l r st reg).2.2 = some y := by
  rw [bops_eq] at hF hK hlab ⊢
  obtain ⟨f1, hle1, hr1le, hr1le'⟩ := opr_frame true l st reg (hfl st reg ecnone0 htop) htop
  have htop2 : (opr true l reg st).1.regTop ≤ (opr true l reg st).2.2 := by rw [f1.regTop]; omega
  obtain ⟨f2, hle2, _, _⟩ := opr_frame true r (opr true l reg st).1 (opr true l reg st).2.2 (hfr _ _ ecnone0 htop2) htop2
  obtain ⟨ρ1, hreach1, hf1, hrk1, hst1, _⟩ := opr_sem d hd true l hfl hl st F reg ρ γ x htop hll (by omega) hx hok
    (f2.code.trans hF) (f2.consts.trans hK)
    (fun L h1 h2 => by rw [hlab L (by have := f1.labelId; omega) (by have := f2.labelId; simp only [] at *; omega), f2.labels L h2])
  have hy1 : eval d ρ1 γ r = some y := by rw [eval_congr d hf1 r hlr, hy]
  obtain ⟨ρ2, hreach2, hf2, hrk2, _, _⟩ := opr_sem d hd true r hfr hr (opr true l reg st).1 F (opr true l reg st).2.2 ρ1 γ y htop2
    (LocalsBelow.mono hr1le r hlr) (by omega) hy1 hok hF hK
    (fun L h1 h2 => hlab L (by have := f1.labelId; omega) h2)
  refine ⟨f2.code, ρ1, ρ2, hreach1, hrk1, hf1, hreach2, hf1.trans (hf2.mono hr1le), ?_, hrk2⟩
  simp only []
  rw [rk_congr d (ρ1 := ρ1)]
  · exact hrk1
  · intro _
    apply hf2
    rcases hst1 with h | h <;> omega

theorem bops_sem (d : Dom V) (hd : d.Lawful) (l r : Cond) (hfl : ExprFrame l) (hfr : ExprFrame r) (hl : ExprSem d l) (hr : ExprSem d r)
    (st F : CState) (reg : Nat) (ρ γ : Nat → V) (x y : V)
    (htop : st.regTop ≤ reg) (hll : LocalsBelow reg l) (hlr : LocalsBelow reg r) (hreg : reg + max (rh l) (rh r + 1) < 256)
    (hx : eval d ρ γ l = some x) (hy : eval d ρ γ r = some y) (hok : ∀ L, LabelOK F L)
    (hF : (bops l r st reg).1.code <+: F.code) (hK : (bops l r st reg).1.consts <+: F.consts)
    (hlab : ∀ L, st.labelId ≤ L → L < (bops l r st reg).1.labelId → getLabelPc F L = getLabelPc (bops l r st reg).1 L) :
    ∃ ρ2, Reaches d (P0 F) F.consts ⟨st.code.length, ρ, γ⟩ ⟨(bops l r st reg).1.code.length, ρ2, γ⟩ ∧
      FullFrame reg ρ ρ2 ∧
      rkValue d F.consts ρ2 (bops l r st reg).2.1 = some x ∧ rkValue d F.consts ρ2 (bops l r st reg).2.2 = some y := by
  obtain ⟨_, ρ1, ρ2, h1, _, _, h2, h3, h4, h5⟩ := bops_sem_mid d hd l r hfl hfr hl hr st F reg ρ γ x y htop hll hlr hreg hx hy hok hF hK hlab
  exact ⟨ρ2, h1.trans h2, h3, h4, h5⟩

/-! ### relational operators -/

theorem relCode_labelId (op : RelOp) (l r : Cond) (st : CState) (reg flip L : Nat) :
    (relCode op l r st reg flip L).labelId = (bops l r st reg).1.labelId := rfl

/-- `compileRelationalOpExprAux` with arbitrary operands: the jump is taken iff the truth value of the comparison
    = (flip = 1); every register below `reg` is unchanged. -/
theorem relCode_sem (d : Dom V) (hd : d.Lawful) (op : RelOp) (l r : Cond) (hfl : ExprFrame l) (hfr : ExprFrame r) (hl : ExprSem d l) (hr : ExprSem d r)
    (st F : CState) (reg flip L : Nat) (ρ γ : Nat → V) (v : V)
    (htop : st.regTop ≤ reg) (hll : LocalsBelow reg l) (hlr : LocalsBelow reg r) (hreg : reg + max (rh l) (rh r + 1) < 256)
    (hev : eval d ρ γ (.rel op l r) = some v) (hflip : flip = 0 ∨ flip = 1) (hok : ∀ L, LabelOK F L)
    (hF : (relCode op l r st reg flip L).code <+: F.code) (hK : (relCode op l r st reg flip L).consts <+: F.consts)
    (hlab : ∀ L', st.labelId ≤ L' → L' < (relCode op l r st reg flip L).labelId →
        getLabelPc F L' = getLabelPc (relCode op l r st reg flip L) L') :
    ∃ ρ', Reaches d (P0 F) F.consts ⟨st.code.length, ρ, γ⟩
        ⟨if d.truthy v = decide (flip = 1) then tgt F L else (relCode op l r st reg flip L).code.length, ρ', γ⟩ ∧
      FullFrame reg ρ ρ' := by
  simp only [eval] at hev
  cases hx : eval d ρ γ l with
  | none => simp [hx] at hev
  | some x =>
    cases hy : eval d ρ γ r with
    | none => simp [hx, hy] at hev
    | some y =>
      simp only [hx, hy] at hev
      obtain ⟨ρ2, hreach, hf2, hrk1, hrk2⟩ := bops_sem d hd l r hfl hfr hl hr st F reg ρ γ x y htop hll hlr hreg hx hy hok
        (List.IsPrefix.trans (by simp [relCode]) hF) (by simpa [relCode] using hK)
        (fun L' h1 h2 => by rw [hlab L' h1 h2]; rfl)
      have hc1 : F.code[(bops l r st reg).1.code.length]? =
          some (relInstr op flip (bops l r st reg).2.1 (bops l r st reg).2.2) := by
        apply prefix_get_some hF; simp [relCode]
      have hc2 : F.code[(bops l r st reg).1.code.length + 1]? = some (.jmp (L : Int)) := by
        apply prefix_get_some hF; simp [relCode]
      have hfin := rel_jmp_sem d hd (γ := γ) hc1 hc2 (hok L) hflip hrk1 hrk2 hev
      refine ⟨ρ2, ?_, hf2⟩
      have hlen : (relCode op l r st reg flip L).code.length = (bops l r st reg).1.code.length + 2 := by simp [relCode]
      rw [hlen]
      exact hreach.trans hfin

/-- a relational expression yields true or false. -/
theorem rel_val_bool (d : Dom V) (hd : d.Lawful) {ρ γ : Nat → V} {op : RelOp} {l r : Cond} {v : V}
    (h : eval d ρ γ (.rel op l r) = some v) : v = ofBool d (d.truthy v) := by
  simp only [eval] at h
  cases hx : eval d ρ γ l with
  | none => simp [hx] at h
  | some x =>
    cases hy : eval d ρ γ r with
    | none => simp [hx, hy] at h
    | some y =>
      simp only [hx, hy] at h
      cases op <;> simp only [relVal, Option.map_eq_some_iff] at h <;> obtain ⟨b, _, rfl⟩ := h <;> rw [truthy_ofBool hd]

theorem exprSem_rel (d : Dom V) (hd : d.Lawful) (op : RelOp) (l r : Cond) (hfl : ExprFrame l) (hfr : ExprFrame r)
    (hl : ExprSem d l) (hr : ExprSem d r) : ExprSem d (.rel op l r) := by
  intro st F reg ec ρ γ v htop hloc hreg hsreg hev hok hF hK hlab
  have hcomp : (comp (.rel op l r) (.expr reg ec) st).st =
      emit (setLabelHere (emit (relCode op l r { st with labelId := st.labelId + 1 } reg 1 st.labelId)
                (.loadbool (savereg ec reg) 0 1)) st.labelId) (.loadbool (savereg ec reg) 1 0) := by
    simp only [comp, newLabel, relAux_eq]; rfl
  rw [hcomp] at hF hK hlab ⊢
  generalize hs1 : ({ st with labelId := st.labelId + 1 } : CState) = s1 at hF hK hlab ⊢
  have hs1_code : s1.code = st.code := by subst hs1; rfl
  have hs1_top : s1.regTop = st.regTop := by subst hs1; rfl
  have hs1_id : s1.labelId = st.labelId + 1 := by subst hs1; rfl
  generalize hs2 : relCode op l r s1 reg 1 st.labelId = s2 at hF hK hlab ⊢
  have f2 : Frame s1.labelId s1 s2 := by
    rw [← hs2]; exact (relCode_frame op l r hfl hfr s1 reg 1 st.labelId (by rw [hs1_top]; exact htop)).1
  -- the label
  have hjl : getLabelPc F st.labelId = (s2.code.length : Int) := by
    rw [hlab st.labelId (Nat.le_refl _) (by simp; have := f2.labelId; omega)]
    simp [getLabelPc, setLabelHere, setLabelPc, lookupLabel, lastPC]
  have htgt : tgt F st.labelId = s2.code.length + 1 := by unfold tgt; rw [hjl]; omega
  simp only [LocalsBelow] at hloc
  simp only [rh] at hreg
  obtain ⟨ρ1, hr1, hag1⟩ := relCode_sem d hd op l r hfl hfr hl hr s1 F reg 1 st.labelId ρ γ v (by rw [hs1_top]; exact htop) hloc.1 hloc.2 hreg hev
    (Or.inr rfl) hok (by rw [hs2]; exact List.IsPrefix.trans (by simp) hF) (by rw [hs2]; simpa using hK)
    (by
      rw [hs2]
      intro L' h1 h2
      rw [hlab L' (by omega) (by simpa using h2)]
      have hne : st.labelId ≠ L' := by omega
      simp [getLabelPc, setLabelHere, setLabelPc, lookupLabel, hne])
  rw [hs2, hs1_code] at hr1
  have hc1 : F.code[s2.code.length]? = some (.loadbool (savereg ec reg) 0 1) := by
    apply prefix_get_some hF; simp
  have hc2 : F.code[s2.code.length + 1]? = some (.loadbool (savereg ec reg) 1 0) := by
    apply prefix_get_some hF; simp
  have hvb := rel_val_bool d hd hev
  have hlen : (emit (setLabelHere (emit s2 (.loadbool (savereg ec reg) 0 1)) st.labelId) (.loadbool (savereg ec reg) 1 0)).code.length
      = s2.code.length + 2 := by simp
  rw [hlen]
  cases ht : d.truthy v with
  | true =>
    rw [ht] at hr1 hvb
    simp only [decide_true, if_true, htgt] at hr1
    refine ⟨setReg ρ1 (savereg ec reg) d.trueV, ?_, by rw [setReg_same, hvb]; rfl, fun x hx hs => by rw [setReg_other _ _ hs, hag1 x hx]⟩
    refine hr1.trans (Reaches.single ?_)
    simp [step, P0_get_nonjmp hc2 rfl]
  | false =>
    rw [ht] at hr1 hvb
    simp only [decide_true, Bool.false_eq_true, if_false] at hr1
    refine ⟨setReg ρ1 (savereg ec reg) d.falseV, ?_, by rw [setReg_same, hvb]; rfl, fun x hx hs => by rw [setReg_other _ _ hs, hag1 x hx]⟩
    refine hr1.trans (Reaches.single ?_)
    simp [step, P0_get_nonjmp hc1 rfl]

end GLua.Lowering
