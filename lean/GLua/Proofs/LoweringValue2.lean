/-
  Value-context lowering, part 2: semantics of compileExpr (leaves, not, relational) and the exits of
  compileLogicalOpExprAux.
-/
import GLua.Proofs.LoweringValue

namespace GLua.Lowering
open GLua.Compile GLua.MiniVM GLua.CondSpec

variable {V : Type}

def FullFrame (reg : Nat) (ρ ρ' : Nat → V) : Prop := ∀ x, x < reg → ρ' x = ρ x
def DestFrame (reg sreg : Nat) (ρ ρ' : Nat → V) : Prop := ∀ x, x < reg → x ≠ sreg → ρ' x = ρ x

theorem FullFrame.dest {reg sreg : Nat} {ρ ρ' : Nat → V} (h : FullFrame reg ρ ρ') : DestFrame reg sreg ρ ρ' :=
  fun x hx _ => h x hx
theorem FullFrame.refl (reg : Nat) (ρ : Nat → V) : FullFrame reg ρ ρ := fun _ _ => rfl
theorem DestFrame.refl (reg sreg : Nat) (ρ : Nat → V) : DestFrame reg sreg ρ ρ := fun _ _ _ => rfl
theorem FullFrame.trans {reg : Nat} {ρ ρ1 ρ2 : Nat → V} (h1 : FullFrame reg ρ ρ1) (h2 : FullFrame reg ρ1 ρ2) : FullFrame reg ρ ρ2 :=
  fun x hx => by rw [h2 x hx, h1 x hx]
theorem DestFrame.trans {reg sreg : Nat} {ρ ρ1 ρ2 : Nat → V} (h1 : DestFrame reg sreg ρ ρ1) (h2 : DestFrame reg sreg ρ1 ρ2) :
    DestFrame reg sreg ρ ρ2 := fun x hx hs => by rw [h2 x hx hs, h1 x hx hs]
theorem DestFrame.setReg {reg sreg : Nat} {ρ ρ1 : Nat → V} (h : DestFrame reg sreg ρ ρ1) (v : V) :
    DestFrame reg sreg ρ (setReg ρ1 sreg v) := fun x hx hs => by rw [setReg_other _ _ hs, h x hx hs]

/-- the expression-mode statement: the destination receives the value, control is behind the code,
    registers below `reg` other than the destination are unchanged. -/
def ExprSem (d : Dom V) (e : Cond) : Prop :=
  ∀ (st F : CState) (reg : Nat) (ec : ExpCtx) (ρ γ : Nat → V) (v : V),
    st.regTop ≤ reg → LocalsBelow reg e → reg + 1 < 256 → savereg ec reg ≤ reg →
    eval d ρ γ e = some v → (∀ L, LabelOK F L) →
    (comp e (.expr reg ec) st).st.code <+: F.code →
    (comp e (.expr reg ec) st).st.consts <+: F.consts →
    (∀ L, st.labelId ≤ L → L < (comp e (.expr reg ec) st).st.labelId →
        getLabelPc F L = getLabelPc (comp e (.expr reg ec) st).st L) →
    ∃ ρ', Reaches d (P0 F) F.consts ⟨st.code.length, ρ, γ⟩ ⟨(comp e (.expr reg ec) st).st.code.length, ρ', γ⟩ ∧
      ρ' (savereg ec reg) = v ∧ DestFrame reg (savereg ec reg) ρ ρ'

/-- a leaf in expression mode: one instruction. -/
theorem leafExpr_sem (d : Dom V) (e : Cond) (he : isLeaf e = true) (st F : CState) (reg : Nat) (ec : ExpCtx) (ρ γ : Nat → V) (v : V)
    (hloc : LocalsBelow reg e) (hev : eval d ρ γ e = some v)
    (hF : (leafExpr e reg ec st).st.code <+: F.code) (hK : (leafExpr e reg ec st).st.consts <+: F.consts) :
    Reaches d (P0 F) F.consts ⟨st.code.length, ρ, γ⟩ ⟨(leafExpr e reg ec st).st.code.length, setReg ρ (savereg ec reg) v, γ⟩ := by
  cases e <;> simp [isLeaf] at he
  case tru =>
    simp only [eval, Option.some.injEq] at hev; subst hev
    have hc := code_at_end (st := st) (i := .loadbool (savereg ec reg) 1 0) (by simp [leafExpr]) hF
    refine Reaches.single ?_
    simp [step, P0_get_nonjmp hc rfl, leafExpr]
  case fls =>
    simp only [eval, Option.some.injEq] at hev; subst hev
    have hc := code_at_end (st := st) (i := .loadbool (savereg ec reg) 0 0) (by simp [leafExpr]) hF
    refine Reaches.single ?_
    simp [step, P0_get_nonjmp hc rfl, leafExpr]
  case nil =>
    simp only [eval, Option.some.injEq] at hev; subst hev
    have hc := code_at_end (st := st) (i := .loadnil (savereg ec reg) (savereg ec reg)) (by simp [leafExpr]) hF
    refine Reaches.single ?_
    simp [step, P0_get_nonjmp hc rfl, leafExpr, fillNil_one]
  case num n =>
    simp only [eval, Option.some.injEq] at hev; subst hev
    obtain ⟨hk1, _, hk3, _⟩ := constIndex_spec st (.num n)
    have hc := code_at_end (st := (constIndex st (.num n)).1) (i := .loadk (savereg ec reg) (constIndex st (.num n)).2) (by simp [leafExpr]) hF
    rw [hk3] at hc
    have hkF := prefix_get_some hK (by simpa [leafExpr] using hk1)
    refine Reaches.single ?_
    simp [step, P0_get_nonjmp hc rfl, leafExpr, hkF, hk3, Env.konst]
  case str n =>
    simp only [eval, Option.some.injEq] at hev; subst hev
    obtain ⟨hk1, _, hk3, _⟩ := constIndex_spec st (.str n)
    have hc := code_at_end (st := (constIndex st (.str n)).1) (i := .loadk (savereg ec reg) (constIndex st (.str n)).2) (by simp [leafExpr]) hF
    rw [hk3] at hc
    have hkF := prefix_get_some hK (by simpa [leafExpr] using hk1)
    refine Reaches.single ?_
    simp [step, P0_get_nonjmp hc rfl, leafExpr, hkF, hk3, Env.konst]
  case loc r =>
    simp only [eval, Option.some.injEq] at hev; subst hev
    have hc := code_at_end (st := st) (i := .move (savereg ec reg) r) (by simp [leafExpr]) hF
    refine Reaches.single ?_
    simp [step, P0_get_nonjmp hc rfl, leafExpr]
  case ev id =>
    simp only [eval, Option.some.injEq] at hev; subst hev
    obtain ⟨_, _, hk3, _⟩ := constIndex_spec st (gname id)
    have hc := code_at_end (st := (constIndex st (gname id)).1) (i := .eval (savereg ec reg) id) (by simp [leafExpr]) hF
    rw [hk3] at hc
    refine Reaches.single ?_
    simp [step, P0_get_nonjmp hc rfl, leafExpr, hk3]

theorem exprSem_leaf (d : Dom V) (e : Cond) (he : isLeaf e = true) : ExprSem d e := by
  intro st F reg ec ρ γ v _ hloc _ _ hev _ hF hK _
  rw [comp_leaf_expr e he] at hF hK ⊢
  exact ⟨_, leafExpr_sem d e he st F reg ec ρ γ v hloc hev hF hK, setReg_same _ _ _, fun x _ hs => setReg_other _ _ hs⟩


theorem notExpr_general (c : Cond) (sub : CState → Res) (reg : Nat) (ec : ExpCtx) (st : CState)
    (hne : c ≠ .tru ∧ c ≠ .fls ∧ c ≠ .nil) :
    notExpr c sub reg ec st =
      { st := emit (withPropagation false c.isLogical (sub st) reg).1 (.not (savereg ec reg) (withPropagation false c.isLogical (sub st) reg).2.1),
        inc := if savereg ec reg < reg then 0 else 1 } := by
  cases c <;> simp_all [notExpr]

/-- the operand of `not`: its value ends up in the register the propagation reports; nothing below `reg` changes. -/
theorem notOperand_sem (d : Dom V) (c : Cond) (hfr : ExprFrame c) (hc : ExprSem d c)
    (st F : CState) (reg : Nat) (ρ γ : Nat → V) (vc : V)
    (htop : st.regTop ≤ reg) (hloc : LocalsBelow reg c) (hreg : reg + 1 < 256) (hev : eval d ρ γ c = some vc)
    (hok : ∀ L, LabelOK F L)
    (hF : (withPropagation false c.isLogical (comp c (.expr reg ecnone0) st) reg).1.code <+: F.code)
    (hK : (withPropagation false c.isLogical (comp c (.expr reg ecnone0) st) reg).1.consts <+: F.consts)
    (hlab : ∀ L, st.labelId ≤ L → L < (withPropagation false c.isLogical (comp c (.expr reg ecnone0) st) reg).1.labelId →
        getLabelPc F L = getLabelPc (withPropagation false c.isLogical (comp c (.expr reg ecnone0) st) reg).1 L) :
    ∃ ρ1, Reaches d (P0 F) F.consts ⟨st.code.length, ρ, γ⟩
        ⟨(withPropagation false c.isLogical (comp c (.expr reg ecnone0) st) reg).1.code.length, ρ1, γ⟩ ∧
      ρ1 (withPropagation false c.isLogical (comp c (.expr reg ecnone0) st) reg).2.1 = vc ∧ FullFrame reg ρ ρ1 := by
  obtain ⟨_, _, _, hlast⟩ := hfr st reg ecnone0 htop
  by_cases hleaf : isLeaf c = true
  · have hw : withPropagation false c.isLogical (comp c (.expr reg ecnone0) st) reg = opnd false c reg st := by
      rw [comp_leaf_expr c hleaf, isLogical_leaf c hleaf]; rfl
    rw [hw] at hF hK ⊢
    obtain ⟨ρ1, hr1, hag1, hrk1, -, -, -, h256⟩ := opnd_sem d false c reg st F ρ γ vc hleaf htop hloc (by omega) hev hF hK
    refine ⟨ρ1, hr1, ?_, fun x hx => hag1 x (by omega)⟩
    rw [rk_reg (h256 rfl)] at hrk1; exact Option.some.inj hrk1
  · have hw : withPropagation false c.isLogical (comp c (.expr reg ecnone0) st) reg =
        ((comp c (.expr reg ecnone0) st).st, reg, reg + (comp c (.expr reg ecnone0) st).inc) := by
      by_cases hlog : c.isLogical = true
      · simp only [withPropagation, hlog, if_true]
      · have hlog' : c.isLogical = false := by simpa using hlog
        have hleaf' : isLeaf c = false := by simpa using hleaf
        simp only [withPropagation, hlog', Bool.false_eq_true, if_false]
        exact propagate_lastOK _ _ _ _ _ (hlast hleaf' hlog')
    rw [hw] at hF hK hlab ⊢
    obtain ⟨ρ1, hr1, hv1, hd1⟩ := hc st F reg ecnone0 ρ γ vc htop hloc hreg (by rw [savereg_ecnone0]; exact Nat.le_refl _) hev hok hF hK hlab
    rw [savereg_ecnone0] at hv1 hd1
    exact ⟨ρ1, hr1, hv1, fun x hx => hd1 x hx (by omega)⟩

theorem exprSem_not (d : Dom V) (hd : d.Lawful) (c : Cond) (hfr : ExprFrame c) (hc : ExprSem d c) : ExprSem d (.not c) := by
  intro st F reg ec ρ γ v htop hloc hreg hsreg hev hok hF hK hlab
  simp only [comp] at hF hK hlab ⊢
  simp only [eval, Option.map_eq_some_iff] at hev
  obtain ⟨vc, hvc, rfl⟩ := hev
  have simple : ∀ (bb : Nat) (hbb : (if d.truthy vc = true then d.falseV else d.trueV) = (if bb ≠ 0 then d.trueV else d.falseV))
      (hst : (notExpr c (fun s => comp c (.expr reg ecnone0) s) reg ec st).st = emit st (.loadbool (savereg ec reg) bb 0)),
      ∃ ρ', Reaches d (P0 F) F.consts ⟨st.code.length, ρ, γ⟩
          ⟨(notExpr c (fun s => comp c (.expr reg ecnone0) s) reg ec st).st.code.length, ρ', γ⟩ ∧
        ρ' (savereg ec reg) = (if d.truthy vc = true then d.falseV else d.trueV) ∧ DestFrame reg (savereg ec reg) ρ ρ' := by
    intro bb hbb hst
    rw [hst] at hF ⊢
    have hcd := code_at_end (st := st) (i := .loadbool (savereg ec reg) bb 0) rfl hF
    refine ⟨setReg ρ (savereg ec reg) (if bb ≠ 0 then d.trueV else d.falseV), ?_, by rw [setReg_same, hbb], fun x _ hs => setReg_other _ _ hs⟩
    refine Reaches.single ?_
    simp [step, P0_get_nonjmp hcd rfl]
  by_cases h1 : c = .tru
  · subst h1
    simp only [eval, Option.some.injEq] at hvc; subst hvc
    exact simple 0 (by simp [hd.true_truthy]) (by simp [notExpr])
  by_cases h2 : c = .fls
  · subst h2
    simp only [eval, Option.some.injEq] at hvc; subst hvc
    exact simple 1 (by simp [hd.false_falsy]) (by simp [notExpr])
  by_cases h3 : c = .nil
  · subst h3
    simp only [eval, Option.some.injEq] at hvc; subst hvc
    exact simple 1 (by simp [hd.nil_falsy]) (by simp [notExpr])
  rw [notExpr_general c _ reg ec st ⟨h1, h2, h3⟩] at hF hK hlab ⊢
  simp only [LocalsBelow] at hloc
  obtain ⟨ρ1, hr1, hv1, hf1⟩ := notOperand_sem d c hfr hc st F reg ρ γ vc htop hloc hreg hvc hok
    (List.IsPrefix.trans (by simp) hF) (by simpa using hK) (by simpa [getLabelPc] using hlab)
  have hcd : F.code[(withPropagation false c.isLogical (comp c (.expr reg ecnone0) st) reg).1.code.length]? =
      some (.not (savereg ec reg) (withPropagation false c.isLogical (comp c (.expr reg ecnone0) st) reg).2.1) := by
    apply prefix_get_some hF; simp
  refine ⟨setReg ρ1 (savereg ec reg) (if d.truthy vc = true then d.falseV else d.trueV), ?_, setReg_same _ _ _, ?_⟩
  · refine hr1.trans (Reaches.single ?_)
    simp [step, P0_get_nonjmp hcd rfl, hv1]
  · exact (hf1.dest).setReg _


/-- a relational expression yields true or false. -/
theorem rel_val_bool (d : Dom V) (hd : d.Lawful) {ρ γ : Nat → V} {op : RelOp} {l r : Cond} {v : V}
    (h : eval d ρ γ (.rel op l r) = some v) : v = ofBool d (d.truthy v) := by
  simp only [eval] at h
  cases hx : eval d ρ γ l with
  | none => simp [hx] at h
  | some x =>
    cases hy : eval d ρ γ r with
    | none => simp [hx, hy] at h
    | some y =>
      simp only [hx, hy] at h
      cases op <;> simp only [relVal, Option.map_eq_some_iff] at h <;> obtain ⟨b, _, rfl⟩ := h <;> rw [truthy_ofBool hd]

theorem exprSem_rel (d : Dom V) (hd : d.Lawful) (op : RelOp) (l r : Cond) (hl : isLeaf l = true) (hr : isLeaf r = true) :
    ExprSem d (.rel op l r) := by
  intro st F reg ec ρ γ v htop hloc hreg hsreg hev _ hF hK hlab
  simp only [comp, newLabel, relAux_leaf l r hl hr] at hF hK hlab ⊢
  generalize hs1 : ({ st with labelId := st.labelId + 1 } : CState) = s1 at hF hK hlab ⊢
  have hs1_code : s1.code = st.code := by subst hs1; rfl
  have hs1_top : s1.regTop = st.regTop := by subst hs1; rfl
  have hs1_id : s1.labelId = st.labelId + 1 := by subst hs1; rfl
  generalize hs2 : relLeaf l r s1 reg op 1 st.labelId = s2 at hF hK hlab ⊢
  have f2 : Frame 0 s1 s2 := by rw [← hs2]; exact relLeaf_frame l r hl hr s1 reg op 1 st.labelId (by rw [hs1_top]; exact htop)
  -- the label
  have hjl : getLabelPc F st.labelId = (s2.code.length : Int) := by
    rw [hlab st.labelId (Nat.le_refl _) (by simp; have := f2.labelId; omega)]
    simp [getLabelPc, setLabelHere, setLabelPc, lookupLabel, lastPC]
  have hjlOK : LabelOK F st.labelId := by unfold LabelOK; omega
  have htgt : tgt F st.labelId = s2.code.length + 1 := by unfold tgt; rw [hjl]; omega
  simp only [LocalsBelow] at hloc
  obtain ⟨ρ1, hr1, hag1⟩ := relLeaf_sem d hd l r hl hr s1 F reg op 1 st.labelId ρ γ v (by rw [hs1_top]; exact htop) hloc.1 hloc.2 hreg hev
    (Or.inr rfl) (by rw [hs2]; exact List.IsPrefix.trans (by simp) hF) (by rw [hs2]; simpa using hK) hjlOK
  rw [hs2, hs1_code] at hr1
  have hc1 : F.code[s2.code.length]? = some (.loadbool (savereg ec reg) 0 1) := by
    apply prefix_get_some hF; simp
  have hc2 : F.code[s2.code.length + 1]? = some (.loadbool (savereg ec reg) 1 0) := by
    apply prefix_get_some hF; simp
  have hvb := rel_val_bool d hd hev
  have hlen : (emit (setLabelHere (emit s2 (.loadbool (savereg ec reg) 0 1)) st.labelId) (.loadbool (savereg ec reg) 1 0)).code.length
      = s2.code.length + 2 := by simp
  rw [hlen]
  cases ht : d.truthy v with
  | true =>
    rw [ht] at hr1 hvb
    simp only [decide_true, if_true, htgt] at hr1
    refine ⟨setReg ρ1 (savereg ec reg) d.trueV, ?_, by rw [setReg_same, hvb]; rfl, fun x hx hs => by rw [setReg_other _ _ hs, hag1 x hx]⟩
    refine hr1.trans (Reaches.single ?_)
    simp [step, P0_get_nonjmp hc2 rfl]
  | false =>
    rw [ht] at hr1 hvb
    simp only [decide_true, Bool.false_eq_true, if_false] at hr1
    refine ⟨setReg ρ1 (savereg ec reg) d.falseV, ?_, by rw [setReg_same, hvb]; rfl, fun x hx hs => by rw [setReg_other _ _ hs, hag1 x hx]⟩
    refine hr1.trans (Reaches.single ?_)
    simp [step, P0_get_nonjmp hc1 rfl]

end GLua.Lowering
