/-
  Value-context lowering, part 3: the exits of compileLogicalOpExprAux (statement `AuxSem`) and its leaf cases.
-/
import GLua.Proofs.LoweringValue2

namespace GLua.Lowering
open GLua.Compile GLua.MiniVM GLua.CondSpec

variable [NumStruct]
set_option linter.unusedSectionVars false
variable {V : Type}

/-! ### code embedded in the final code, possibly without its final `JMP endlabel` -/

/-- `code` is in `F` — or, when `allow`, all of it except a final `JMP e` that `compileLogicalOpExpr` removed
    because the end label is bound right there. -/
def Emb (F : CState) (code : List Instr) (e : Nat) (allow : Prop) : Prop :=
  code <+: F.code ∨ (allow ∧ ∃ c, code = c ++ [.jmp (e : Int)] ∧ c <+: F.code ∧ tgt F e = c.length)

theorem Emb.init {F : CState} {pre : List Instr} {i : Instr} {e : Nat} {allow : Prop}
    (h : Emb F (pre ++ [i]) e allow) : pre <+: F.code := by
  rcases h with h | ⟨_, c, hc, hp, _⟩
  · exact (List.prefix_append _ _).trans h
  · have := List.append_inj' hc (by simp)
    rw [this.1]; exact hp

theorem Emb.prefix_lt {F : CState} {code c1 : List Instr} {e : Nat} {allow : Prop}
    (h : Emb F code e allow) (hp : c1 <+: code) (hlt : c1.length < code.length) : c1 <+: F.code := by
  rcases h with h | ⟨_, c, hc, hpc, _⟩
  · exact hp.trans h
  · subst hc
    have := prefix_dropLast hp hlt
    simp at this
    exact this.trans hpc

theorem Emb.full_of_last {F : CState} {pre : List Instr} {i : Instr} {e : Nat} {allow : Prop}
    (h : Emb F (pre ++ [i]) e allow) (hi : i ≠ .jmp (e : Int)) : (pre ++ [i]) <+: F.code := by
  rcases h with h | ⟨_, c, hc, _, _⟩
  · exact h
  · have := List.append_inj' hc (by simp)
    simp at this
    exact absurd this.2 hi

theorem Emb.full_of_not_allow {F : CState} {code : List Instr} {e : Nat} {allow : Prop}
    (h : Emb F code e allow) (hn : ¬ allow) : code <+: F.code := by
  rcases h with h | ⟨ha, _⟩
  · exact h
  · exact absurd ha hn

/-- executing the final `JMP L` of an embedded code (if it was removed, control already is at its target). -/
theorem Emb.final_jmp (d : Dom V) {F : CState} {pre : List Instr} {L e : Nat} {allow : Prop}
    (h : Emb F (pre ++ [.jmp (L : Int)]) e allow) (hL : LabelOK F L) (ρ γ : Nat → V) :
    Reaches d (P0 F) F.consts ⟨pre.length, ρ, γ⟩ ⟨tgt F L, ρ, γ⟩ := by
  rcases h with h | ⟨_, c, hc, _, ht⟩
  · have hcd : F.code[pre.length]? = some (.jmp (L : Int)) := by
      apply prefix_get_some h; simp
    exact .single (step_jmp hcd hL)
  · have := List.append_inj' hc (by simp)
    simp at this
    obtain ⟨h1, h2⟩ := this
    subst h1
    have : L = e := by exact_mod_cast h2
    subst this
    rw [ht]; exact .refl _

/-! ### exits -/

/-- fixed data of one value-context logical expression: the final code, its three labels, the first free
    register, the destination, the value domain and the register file at entry. -/
structure AuxP (V : Type) where
  F : CState
  lb : LbLabels
  reg : Nat
  sreg : Nat
  d : Dom V
  ρ : Nat → V

/-- the value `v` of the WHOLE logical expression is delivered: stored in the destination at the end label, or
    control is at lb.t / lb.f (the LOADBOOL pair, which exists because `bfin`) with v = true / false. -/
def ExitE (P : AuxP V) (v : V) (bfin : Bool) (pc' : Nat) (ρ' : Nat → V) : Prop :=
  (pc' = tgt P.F P.lb.e ∧ ρ' P.sreg = v ∧ DestFrame P.reg P.sreg P.ρ ρ') ∨
  (pc' = tgt P.F P.lb.t ∧ v = P.d.trueV ∧ bfin = true ∧ DestFrame P.reg P.sreg P.ρ ρ') ∨
  (pc' = tgt P.F P.lb.f ∧ v = P.d.falseV ∧ bfin = true ∧ DestFrame P.reg P.sreg P.ρ ρ')

/-- a jump to label `L` carrying `v`: if `L` is the end label the value is delivered, otherwise evaluation
    continues at `L` with ALL registers below `reg` (destination included) intact. -/
def JT (P : AuxP V) (L : Nat) (v : V) (bfin : Bool) (pc' : Nat) (ρ' : Nat → V) : Prop :=
  if L = P.lb.e then ExitE P v bfin pc' ρ' else (pc' = tgt P.F L ∧ FullFrame P.reg P.ρ ρ')

theorem JT_e {P : AuxP V} {L : Nat} {v : V} {b : Bool} {pc' : Nat} {ρ' : Nat → V} (hL : L = P.lb.e) (h : ExitE P v b pc' ρ') :
    JT P L v b pc' ρ' := by unfold JT; rw [if_pos hL]; exact h
theorem JT_ne {P : AuxP V} {L : Nat} {v : V} {b : Bool} {pc' : Nat} {ρ' : Nat → V} (hL : L ≠ P.lb.e)
    (h : pc' = tgt P.F L ∧ FullFrame P.reg P.ρ ρ') : JT P L v b pc' ρ' := by unfold JT; rw [if_neg hL]; exact h

/-- where control is after the code of one operand whose value is `v`. -/
def AuxOut (P : AuxP V) (thenl elsel : Nat) (hasnext : Bool) (endpc : Nat) (v : V) (bfin : Bool) (pc' : Nat) (ρ' : Nat → V) : Prop :=
  (P.d.truthy v = true →
      JT P thenl v bfin pc' ρ' ∨ (hasnext = false ∧ thenl ≠ elsel ∧ pc' = endpc ∧ FullFrame P.reg P.ρ ρ')) ∧
  (P.d.truthy v = false →
      JT P elsel v bfin pc' ρ' ∨ (hasnext = true ∧ pc' = endpc ∧ FullFrame P.reg P.ρ ρ') ∨
      (thenl = elsel ∧ pc' = endpc ∧ v = P.d.falseV ∧ bfin = true ∧ DestFrame P.reg P.sreg P.ρ ρ'))

/-- the discipline of the labels handed down by compileLogicalOpExpr(Aux). -/
structure Disc (lb : LbLabels) (thenl elsel : Nat) (hasnext : Bool) : Prop where
  d1 : hasnext = true → elsel ≠ lb.e
  d2 : thenl = elsel → thenl = lb.e
  d3 : thenl = lb.e → thenl ≠ elsel → hasnext = true

theorem ExitE.mono {P : AuxP V} {v : V} {b b' : Bool} {pc' : Nat} {ρ' : Nat → V} (h : ExitE P v b pc' ρ') (hb : b = true → b' = true) :
    ExitE P v b' pc' ρ' := by
  rcases h with h | ⟨h1, h2, h3, h4⟩ | ⟨h1, h2, h3, h4⟩
  · exact Or.inl h
  · exact Or.inr (Or.inl ⟨h1, h2, hb h3, h4⟩)
  · exact Or.inr (Or.inr ⟨h1, h2, hb h3, h4⟩)

theorem JT.mono {P : AuxP V} {L : Nat} {v : V} {b b' : Bool} {pc' : Nat} {ρ' : Nat → V} (h : JT P L v b pc' ρ') (hb : b = true → b' = true) :
    JT P L v b' pc' ρ' := by
  unfold JT at h ⊢
  split
  · rename_i hL; rw [if_pos hL] at h; exact h.mono hb
  · rename_i hL; rw [if_neg hL] at h; exact h

/-- re-basing the exits on an earlier register file that agrees below `reg`. -/
theorem ExitE.rebase {P : AuxP V} {ρ0 : Nat → V} {v : V} {b : Bool} {pc' : Nat} {ρ' : Nat → V} (h : ExitE P v b pc' ρ')
    (hf : FullFrame P.reg ρ0 P.ρ) : ExitE { P with ρ := ρ0 } v b pc' ρ' := by
  have hd : DestFrame P.reg P.sreg P.ρ ρ' → DestFrame P.reg P.sreg ρ0 ρ' := fun h => (hf.dest).trans h
  rcases h with ⟨h1, h2, h3⟩ | ⟨h1, h2, h3, h4⟩ | ⟨h1, h2, h3, h4⟩
  · exact Or.inl ⟨h1, h2, hd h3⟩
  · exact Or.inr (Or.inl ⟨h1, h2, h3, hd h4⟩)
  · exact Or.inr (Or.inr ⟨h1, h2, h3, hd h4⟩)

theorem JT.rebase {P : AuxP V} {ρ0 : Nat → V} {L : Nat} {v : V} {b : Bool} {pc' : Nat} {ρ' : Nat → V} (h : JT P L v b pc' ρ')
    (hf : FullFrame P.reg ρ0 P.ρ) : JT { P with ρ := ρ0 } L v b pc' ρ' := by
  unfold JT at h ⊢
  by_cases hL : L = P.lb.e
  · rw [if_pos hL] at h; simp only [hL, if_true]; exact h.rebase hf
  · rw [if_neg hL] at h; simp only [hL, if_false]; exact ⟨h.1, hf.trans h.2⟩

end GLua.Lowering
