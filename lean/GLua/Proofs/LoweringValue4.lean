/-
  Value-context lowering, part 4: `AuxSem` for constants, relational operators, locals tested in place.
-/
import GLua.Proofs.LoweringValue3

namespace GLua.Lowering
open GLua.Compile GLua.MiniVM GLua.CondSpec

variable [NumStruct]
set_option linter.unusedSectionVars false
variable {V : Type}

/-- standing hypotheses of one compileLogicalOpExprAux call. -/
structure AuxHyp (st F : CState) (reg : Nat) (ec : ExpCtx) (thenl elsel : Nat) (hasnext : Bool) (lb : LbLabels) : Prop where
  htop : st.regTop ≤ reg
  hreg : reg < 256
  hsreg : savereg ec reg ≤ reg
  hthen : thenl < st.labelId
  helse : elsel < st.labelId
  hle : lb.e < st.labelId
  hlt : lb.t < st.labelId
  hlf : lb.f < st.labelId
  het : lb.e ≠ lb.t
  hef : lb.e ≠ lb.f
  disc : Disc lb thenl elsel hasnext
  okThen : LabelOK F thenl
  okElse : LabelOK F elsel
  okE : LabelOK F lb.e
  okT : LabelOK F lb.t
  okF : LabelOK F lb.f
  allOK : ∀ L, LabelOK F L

/-- the aux-mode statement. -/
def AuxSem (d : Dom V) (e : Cond) : Prop :=
  ∀ (st F : CState) (reg : Nat) (ec : ExpCtx) (thenl elsel : Nat) (hasnext : Bool) (lb : LbLabels) (b : Bool) (ρ γ : Nat → V) (v : V),
    AuxHyp st F reg ec thenl elsel hasnext lb → LocalsBelow reg e → reg + rh e < 256 → eval d ρ γ e = some v →
    Emb F (comp e (.aux reg ec thenl elsel hasnext lb b) st).st.code lb.e (hasnext = false ∧ thenl = elsel) →
    (comp e (.aux reg ec thenl elsel hasnext lb b) st).st.consts <+: F.consts →
    (∀ L, st.labelId ≤ L → L < (comp e (.aux reg ec thenl elsel hasnext lb b) st).st.labelId →
        getLabelPc F L = getLabelPc (comp e (.aux reg ec thenl elsel hasnext lb b) st).st L) →
    ∃ ρ' pc', Reaches d (P0 F) F.consts ⟨st.code.length, ρ, γ⟩ ⟨pc', ρ', γ⟩ ∧
      AuxOut ⟨F, lb, reg, savereg ec reg, d, ρ⟩ thenl elsel hasnext
        (comp e (.aux reg ec thenl elsel hasnext lb b) st).st.code.length v
        (comp e (.aux reg ec thenl elsel hasnext lb b) st).b pc' ρ'

/-- the code is just `JMP L`. -/
theorem only_jmp (d : Dom V) {st F : CState} {L e : Nat} {allow : Prop} (hE : Emb F (emit st (.jmp (L : Int))).code e allow)
    (hL : LabelOK F L) (ρ γ : Nat → V) :
    Reaches d (P0 F) F.consts ⟨st.code.length, ρ, γ⟩ ⟨tgt F L, ρ, γ⟩ :=
  Emb.final_jmp d (by simpa using hE) hL ρ γ

/-- the code is one leaf load into the destination followed by `JMP L`. -/
theorem load_jmp (d : Dom V) (e : Cond) (he : isLeaf e = true) {st F : CState} {reg : Nat} {ec : ExpCtx} {L le : Nat} {allow : Prop}
    {ρ γ : Nat → V} {v : V} (hloc : LocalsBelow reg e) (hev : eval d ρ γ e = some v)
    (hE : Emb F (emit (leafExpr e reg ec st).st (.jmp (L : Int))).code le allow)
    (hK : (leafExpr e reg ec st).st.consts <+: F.consts) (hL : LabelOK F L) :
    Reaches d (P0 F) F.consts ⟨st.code.length, ρ, γ⟩ ⟨tgt F L, setReg ρ (savereg ec reg) v, γ⟩ := by
  have hE' : Emb F ((leafExpr e reg ec st).st.code ++ [.jmp (L : Int)]) le allow := by simpa using hE
  have h1 := leafExpr_sem d e he st F reg ec ρ γ v hloc hev hE'.init hK
  exact h1.trans (Emb.final_jmp d hE' hL _ γ)

theorem auxSem_fls (d : Dom V) (hd : d.Lawful) : AuxSem d .fls := by
  intro st F reg ec thenl elsel hasnext lb b ρ γ v H _ _ hev hE _ _
  simp only [eval, Option.some.injEq] at hev; subst hev
  simp only [comp] at hE ⊢
  by_cases he : elsel = lb.e
  · simp only [he, if_true] at hE ⊢
    refine ⟨ρ, _, only_jmp d hE H.okF ρ γ, fun h => by simp [hd.false_falsy] at h, fun _ => Or.inl ?_⟩
    exact JT_e rfl (Or.inr (Or.inr ⟨rfl, rfl, rfl, DestFrame.refl _ _ _⟩))
  · simp only [he, if_false] at hE ⊢
    refine ⟨ρ, _, only_jmp d hE H.okElse ρ γ, fun h => by simp [hd.false_falsy] at h, fun _ => Or.inl ?_⟩
    exact JT_ne he ⟨rfl, FullFrame.refl _ _⟩

theorem auxSem_tru (d : Dom V) (hd : d.Lawful) : AuxSem d .tru := by
  intro st F reg ec thenl elsel hasnext lb b ρ γ v H _ _ hev hE _ _
  simp only [eval, Option.some.injEq] at hev; subst hev
  simp only [comp] at hE ⊢
  by_cases he : thenl = lb.e
  · simp only [he, if_true] at hE ⊢
    refine ⟨ρ, _, only_jmp d hE H.okT ρ γ, fun _ => Or.inl ?_, fun h => by simp [hd.true_truthy] at h⟩
    exact JT_e rfl (Or.inr (Or.inl ⟨rfl, rfl, rfl, DestFrame.refl _ _ _⟩))
  · simp only [he, if_false] at hE ⊢
    refine ⟨ρ, _, only_jmp d hE H.okThen ρ γ, fun _ => Or.inl ?_, fun h => by simp [hd.true_truthy] at h⟩
    exact JT_ne he ⟨rfl, FullFrame.refl _ _⟩

theorem auxSem_nil (d : Dom V) (hd : d.Lawful) : AuxSem d .nil := by
  intro st F reg ec thenl elsel hasnext lb b ρ γ v H hloc _ hev hE hK _
  simp only [comp] at hE hK ⊢
  have hv : v = d.nilV := by simp only [eval, Option.some.injEq] at hev; exact hev.symm
  by_cases he : elsel = lb.e
  · simp only [he, if_true] at hE hK ⊢
    refine ⟨_, _, load_jmp d .nil rfl hloc hev hE (by simpa using hK) H.okE, fun h => by simp [hv, hd.nil_falsy] at h, fun _ => Or.inl ?_⟩
    exact JT_e rfl (Or.inl ⟨rfl, setReg_same _ _ _, fun x _ hs => setReg_other _ _ hs⟩)
  · simp only [he, if_false] at hE ⊢
    refine ⟨ρ, _, only_jmp d hE H.okElse ρ γ, fun h => by simp [hv, hd.nil_falsy] at h, fun _ => Or.inl ?_⟩
    exact JT_ne he ⟨rfl, FullFrame.refl _ _⟩

theorem auxSem_num (d : Dom V) (hd : d.Lawful) (n : Int) : AuxSem d (.num n) := by
  intro st F reg ec thenl elsel hasnext lb b ρ γ v H hloc _ hev hE hK _
  simp only [comp] at hE hK ⊢
  have hv : v = d.num (NumStruct.lit n) := by simp only [eval, Option.some.injEq] at hev; exact hev.symm
  by_cases he : thenl = lb.e
  · simp only [he, if_true] at hE hK ⊢
    refine ⟨_, _, load_jmp d (.num n) rfl hloc hev hE (by simpa using hK) H.okE, fun _ => Or.inl ?_, fun h => by simp [hv, hd.num_truthy] at h⟩
    exact JT_e rfl (Or.inl ⟨rfl, setReg_same _ _ _, fun x _ hs => setReg_other _ _ hs⟩)
  · simp only [he, if_false] at hE ⊢
    refine ⟨ρ, _, only_jmp d hE H.okThen ρ γ, fun _ => Or.inl ?_, fun h => by simp [hv, hd.num_truthy] at h⟩
    exact JT_ne he ⟨rfl, FullFrame.refl _ _⟩

theorem auxSem_str (d : Dom V) (hd : d.Lawful) (n : String) : AuxSem d (.str n) := by
  intro st F reg ec thenl elsel hasnext lb b ρ γ v H hloc _ hev hE hK _
  simp only [comp] at hE hK ⊢
  have hv : v = d.str n := by simp only [eval, Option.some.injEq] at hev; exact hev.symm
  by_cases he : thenl = lb.e
  · simp only [he, if_true] at hE hK ⊢
    refine ⟨_, _, load_jmp d (.str n) rfl hloc hev hE (by simpa using hK) H.okE, fun _ => Or.inl ?_, fun h => by simp [hv, hd.str_truthy] at h⟩
    exact JT_e rfl (Or.inl ⟨rfl, setReg_same _ _ _, fun x _ hs => setReg_other _ _ hs⟩)
  · simp only [he, if_false] at hE ⊢
    refine ⟨ρ, _, only_jmp d hE H.okThen ρ γ, fun _ => Or.inl ?_, fun h => by simp [hv, hd.str_truthy] at h⟩
    exact JT_ne he ⟨rfl, FullFrame.refl _ _⟩


theorem relCode_last (op : RelOp) (l r : Cond) (st : CState) (reg flip L : Nat) :
    ∃ pre, (relCode op l r st reg flip L).code = pre ++ [.jmp (L : Int)] :=
  ⟨(bops l r st reg).1.code ++ [relInstr op flip (bops l r st reg).2.1 (bops l r st reg).2.2], by simp [relCode]⟩

theorem auxSem_rel (d : Dom V) (hd : d.Lawful) (op : RelOp) (l r : Cond) (hfl : ExprFrame l) (hfr : ExprFrame r)
    (hl : ExprSem d l) (hr : ExprSem d r) : AuxSem d (.rel op l r) := by
  intro st F reg ec thenl elsel hasnext lb b ρ γ v H hloc hreg hev hE hK hlab
  have hvb := rel_val_bool d hd hev
  simp only [LocalsBelow] at hloc
  simp only [rh] at hreg
  rw [aux_rel_eq op l r] at hE hK hlab ⊢
  -- the generic step: whatever (flip, L) was chosen with L ≠ lb.e
  have run : ∀ (flip L : Nat) (hflip : flip = 0 ∨ flip = 1) (hLne : L ≠ lb.e) (hLok : LabelOK F L)
      (hE' : Emb F (relCode op l r st reg flip L).code lb.e (hasnext = false ∧ thenl = elsel))
      (hK' : (relCode op l r st reg flip L).consts <+: F.consts)
      (hlab' : ∀ L', st.labelId ≤ L' → L' < (relCode op l r st reg flip L).labelId →
        getLabelPc F L' = getLabelPc (relCode op l r st reg flip L) L'),
      ∃ ρ', Reaches d (P0 F) F.consts ⟨st.code.length, ρ, γ⟩
          ⟨if d.truthy v = decide (flip = 1) then tgt F L else (relCode op l r st reg flip L).code.length, ρ', γ⟩ ∧
        FullFrame reg ρ ρ' := by
    intro flip L hflip hLne hLok hE' hK' hlab'
    obtain ⟨pre, hpre⟩ := relCode_last op l r st reg flip L
    have hfull : (relCode op l r st reg flip L).code <+: F.code := by
      rw [hpre] at hE' ⊢
      exact hE'.full_of_last (by intro h; injection h with h; exact hLne (by exact_mod_cast h))
    exact relCode_sem d hd op l r hfl hfr hl hr st F reg flip L ρ γ v H.htop hloc.1 hloc.2 hreg hev hflip H.allOK hfull hK' hlab'
  -- closing a case: the jump is taken iff truthiness = jmpOnTrue
  have absT : ∀ {X : Prop}, d.truthy v = true → d.truthy v = false → X := fun h1 h2 => by rw [h1] at h2; cases h2
  by_cases h1 : thenl = elsel
  · -- last operand: then = else = end; true jumps to lb.t, false falls into the LOADBOOL pair
    have he : thenl = lb.e := H.disc.d2 h1
    have hn : hasnext = false := by
      cases hh : hasnext with
      | false => rfl
      | true => exact absurd (h1 ▸ he) (H.disc.d1 hh)
    have hch : relChoice thenl elsel hasnext lb b = (1, lb.t, true) := by
      unfold relChoice; rw [if_pos h1]; simp [hn, flipOf]
    rw [hch] at hE hK hlab ⊢
    obtain ⟨ρ', hr', hf'⟩ := run 1 lb.t (Or.inr rfl) (fun h => H.het h.symm) H.okT hE hK hlab
    cases ht : d.truthy v with
    | true =>
      rw [ht] at hr' hvb
      simp only [decide_true, if_true] at hr'
      exact ⟨ρ', _, hr', fun _ => Or.inl (JT_e he (Or.inr (Or.inl ⟨rfl, hvb, rfl, hf'.dest⟩))), fun h => absT ht h⟩
    | false =>
      rw [ht] at hr' hvb
      simp only [decide_true, Bool.false_eq_true, if_false] at hr'
      exact ⟨ρ', _, hr', fun h => absT h ht, fun _ => Or.inr (Or.inr ⟨h1, rfl, hvb, rfl, hf'.dest⟩)⟩
  · by_cases h2 : thenl = lb.e
    · have hn : hasnext = true := H.disc.d3 h2 h1
      have hch : relChoice thenl elsel hasnext lb b = (1, lb.t, true) := by
        unfold relChoice; rw [if_neg h1, if_pos h2]; simp [hn, flipOf]
      rw [hch] at hE hK hlab ⊢
      obtain ⟨ρ', hr', hf'⟩ := run 1 lb.t (Or.inr rfl) (fun h => H.het h.symm) H.okT hE hK hlab
      cases ht : d.truthy v with
      | true =>
        rw [ht] at hr' hvb
        simp only [decide_true, if_true] at hr'
        exact ⟨ρ', _, hr', fun _ => Or.inl (JT_e h2 (Or.inr (Or.inl ⟨rfl, hvb, rfl, hf'.dest⟩))), fun h => absT ht h⟩
      | false =>
        rw [ht] at hr'
        simp only [decide_true, Bool.false_eq_true, if_false] at hr'
        exact ⟨ρ', _, hr', fun h => absT h ht, fun _ => Or.inr (Or.inl ⟨hn, rfl, hf'⟩)⟩
    · by_cases h3 : elsel = lb.e
      · have hn : hasnext = false := by
          cases hh : hasnext with
          | false => rfl
          | true => exact absurd h3 (H.disc.d1 hh)
        have hch : relChoice thenl elsel hasnext lb b = (0, lb.f, true) := by
          unfold relChoice; rw [if_neg h1, if_neg h2, if_pos h3]; simp [hn, flipOf]
        rw [hch] at hE hK hlab ⊢
        obtain ⟨ρ', hr', hf'⟩ := run 0 lb.f (Or.inl rfl) (fun h => H.hef h.symm) H.okF hE hK hlab
        cases ht : d.truthy v with
        | true =>
          rw [ht] at hr'
          simp only [Nat.zero_ne_one, decide_false, Bool.true_eq_false, if_false] at hr'
          exact ⟨ρ', _, hr', fun _ => Or.inr ⟨hn, h1, rfl, hf'⟩, fun h => absT ht h⟩
        | false =>
          rw [ht] at hr' hvb
          simp only [Nat.zero_ne_one, decide_false, if_true] at hr'
          exact ⟨ρ', _, hr', fun h => absT h ht, fun _ => Or.inl (JT_e h3 (Or.inr (Or.inr ⟨rfl, hvb, rfl, hf'.dest⟩)))⟩
      · by_cases hn : hasnext = true
        · have hch : relChoice thenl elsel hasnext lb b = (1, thenl, b) := by
            unfold relChoice; rw [if_neg h1, if_neg h2, if_neg h3]; simp [hn, flipOf]
          rw [hch] at hE hK hlab ⊢
          obtain ⟨ρ', hr', hf'⟩ := run 1 thenl (Or.inr rfl) h2 H.okThen hE hK hlab
          cases ht : d.truthy v with
          | true =>
            rw [ht] at hr'
            simp only [decide_true, if_true] at hr'
            exact ⟨ρ', _, hr', fun _ => Or.inl (JT_ne h2 ⟨rfl, hf'⟩), fun h => absT ht h⟩
          | false =>
            rw [ht] at hr'
            simp only [decide_true, Bool.false_eq_true, if_false] at hr'
            exact ⟨ρ', _, hr', fun h => absT h ht, fun _ => Or.inr (Or.inl ⟨hn, rfl, hf'⟩)⟩
        · have hn' : hasnext = false := by simpa using hn
          have hch : relChoice thenl elsel hasnext lb b = (0, elsel, b) := by
            unfold relChoice; rw [if_neg h1, if_neg h2, if_neg h3]; simp [hn', flipOf]
          rw [hch] at hE hK hlab ⊢
          obtain ⟨ρ', hr', hf'⟩ := run 0 elsel (Or.inl rfl) h3 H.okElse hE hK hlab
          cases ht : d.truthy v with
          | true =>
            rw [ht] at hr'
            simp only [Nat.zero_ne_one, decide_false, Bool.true_eq_false, if_false] at hr'
            exact ⟨ρ', _, hr', fun _ => Or.inr ⟨hn', h1, rfl, hf'⟩, fun h => absT ht h⟩
          | false =>
            rw [ht] at hr'
            simp only [Nat.zero_ne_one, decide_false, if_true] at hr'
            exact ⟨ρ', _, hr', fun h => absT h ht, fun _ => Or.inl (JT_ne h3 ⟨rfl, hf'⟩)⟩

end GLua.Lowering
