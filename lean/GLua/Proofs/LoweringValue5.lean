/-
  Value-context lowering, part 5: the default case of compileLogicalOpExprAux (locals tested in place,
  "last operand" MOVE, TEST/TESTSET + JMP).
-/
import GLua.Proofs.LoweringValue4

namespace GLua.Lowering
open GLua.Compile GLua.MiniVM GLua.CondSpec

variable [NumStruct]
set_option linter.unusedSectionVars false
variable {V : Type}

/-- `TESTSET A B flip; JMP L`: when truthiness = (flip = 1) the value is copied to A and the jump is taken,
    otherwise nothing is written and the jump is skipped. -/
theorem testset_jmp_sem (d : Dom V) {F : CState} {p a b flip L : Nat} {ρ γ : Nat → V}
    (h1 : F.code[p]? = some (.testset a b flip)) (h2 : F.code[p + 1]? = some (.jmp (L : Int))) (hL : LabelOK F L)
    (hflip : flip = 0 ∨ flip = 1) :
    Reaches d (P0 F) F.consts ⟨p, ρ, γ⟩
      (if d.truthy (ρ b) = decide (flip = 1) then ⟨tgt F L, setReg ρ a (ρ b), γ⟩ else ⟨p + 2, ρ, γ⟩) := by
  have hs2 : ∀ ρ' : Nat → V, step d (P0 F) F.consts ⟨p + 1, ρ', γ⟩ = .ok ⟨tgt F L, ρ', γ⟩ := fun _ => step_jmp h2 hL
  have hg := P0_get_nonjmp h1 rfl
  rcases hflip with rfl | rfl <;> cases ht : d.truthy (ρ b)
  · have hs1 : step d (P0 F) F.consts ⟨p, ρ, γ⟩ = .ok ⟨p + 1, setReg ρ a (ρ b), γ⟩ := by simp [step, hg, ht]
    simpa using Reaches.step hs1 (.single (hs2 _))
  · have hs1 : step d (P0 F) F.consts ⟨p, ρ, γ⟩ = .ok ⟨p + 2, ρ, γ⟩ := by simp [step, hg, ht]
    simpa using Reaches.single hs1
  · have hs1 : step d (P0 F) F.consts ⟨p, ρ, γ⟩ = .ok ⟨p + 2, ρ, γ⟩ := by simp [step, hg, ht]
    simpa using Reaches.single hs1
  · have hs1 : step d (P0 F) F.consts ⟨p, ρ, γ⟩ = .ok ⟨p + 1, setReg ρ a (ρ b), γ⟩ := by simp [step, hg, ht]
    simpa using Reaches.step hs1 (.single (hs2 _))

theorem savereg_max (ec : ExpCtx) (reg : Nat) (h : savereg ec reg ≤ reg) (hreg : reg < 256) :
    savereg ⟨ec.ctype, max reg (savereg ec reg)⟩ reg = reg := by
  have : max reg (savereg ec reg) = reg := Nat.max_eq_left h
  rw [this]
  unfold savereg
  split <;> rfl

/-- what `auxDefault` computes, as two explicit shapes. -/
theorem auxDefault_eq (sub : ExpCtx → CState → Res) (reg : Nat) (ec : ExpCtx) (thenl elsel : Nat) (hasnext : Bool)
    (lb : LbLabels) (b : Bool) (st : CState) :
    auxDefault sub reg ec thenl elsel hasnext lb b st =
      if hasnext = false ∧ thenl = elsel then
        { st := emit (moveTo (sub ⟨ec.ctype, max reg (savereg ec reg)⟩ st).st (savereg ec reg) reg) (.jmp ((if hasnext then thenl else elsel : Nat) : Int)), b := b }
      else
        { st := emit (emit (sub ecnone0 st).st
                  (if (if hasnext then thenl else elsel) = lb.e ∧ savereg ec reg ≠ reg
                    then .testset (savereg ec reg) reg (flipOf hasnext) else .test reg 0 (flipOf hasnext)))
                (.jmp ((if hasnext then thenl else elsel : Nat) : Int)), b := b } := by
  unfold auxDefault
  simp only [ite_emit]

/-- the default case for an operand whose expression-mode code ends in something other than a MOVE
    (opaque atoms, `not …`). -/
theorem auxDefault_sem (d : Dom V) (sub : ExpCtx → CState → Res) (st F : CState) (reg : Nat) (ec : ExpCtx) (thenl elsel : Nat)
    (hasnext : Bool) (lb : LbLabels) (b : Bool) (ρ γ : Nat → V) (v : V)
    (H : AuxHyp st F reg ec thenl elsel hasnext lb)
    (hnomove : (hasnext = false ∧ thenl = elsel) → ∀ ec' a' b', last (sub ec' st).st ≠ some (.move a' b'))
    (hsub : ∀ ec', savereg ec' reg = reg → (sub ec' st).st.code <+: F.code → (sub ec' st).st.consts <+: F.consts →
      (∀ L, st.labelId ≤ L → L < (sub ec' st).st.labelId → getLabelPc F L = getLabelPc (sub ec' st).st L) →
      ∃ ρ1, Reaches d (P0 F) F.consts ⟨st.code.length, ρ, γ⟩ ⟨(sub ec' st).st.code.length, ρ1, γ⟩ ∧ ρ1 reg = v ∧ FullFrame reg ρ ρ1)
    (hE : Emb F (auxDefault sub reg ec thenl elsel hasnext lb b st).st.code lb.e (hasnext = false ∧ thenl = elsel))
    (hK : (auxDefault sub reg ec thenl elsel hasnext lb b st).st.consts <+: F.consts)
    (hlab : ∀ L, st.labelId ≤ L → L < (auxDefault sub reg ec thenl elsel hasnext lb b st).st.labelId →
        getLabelPc F L = getLabelPc (auxDefault sub reg ec thenl elsel hasnext lb b st).st L) :
    ∃ ρ' pc', Reaches d (P0 F) F.consts ⟨st.code.length, ρ, γ⟩ ⟨pc', ρ', γ⟩ ∧
      AuxOut ⟨F, lb, reg, savereg ec reg, d, ρ⟩ thenl elsel hasnext
        (auxDefault sub reg ec thenl elsel hasnext lb b st).st.code.length v
        (auxDefault sub reg ec thenl elsel hasnext lb b st).b pc' ρ' := by
  have absT : ∀ {X : Prop}, d.truthy v = true → d.truthy v = false → X := fun h1 h2 => by rw [h1] at h2; cases h2
  rw [auxDefault_eq] at hE hK hlab ⊢
  by_cases hlast : hasnext = false ∧ thenl = elsel
  · -- last operand: value into the destination, jump to the end label
    obtain ⟨hn, hte⟩ := hlast
    have he : thenl = lb.e := H.disc.d2 hte
    have hee : elsel = lb.e := hte ▸ he
    rw [if_pos ⟨hn, hte⟩] at hE hK hlab ⊢
    have hJ : (if hasnext = true then thenl else elsel) = lb.e := by rw [hn]; simpa using hee
    rw [hJ] at hE hK hlab ⊢
    rw [moveTo_nomove _ _ _ (hnomove ⟨hn, hte⟩ _)] at hE hK hlab ⊢
    have hsv := savereg_max ec reg H.hsreg (by have := H.hreg; omega)
    have hE' : Emb F (((sub ⟨ec.ctype, max reg (savereg ec reg)⟩ st).st.code ++ [.move (savereg ec reg) reg]) ++ [.jmp (lb.e : Int)]) lb.e
        (hasnext = false ∧ thenl = elsel) := by simpa using hE
    have hpre := hE'.init
    obtain ⟨ρ1, hr1, hv1, hf1⟩ := hsub ⟨ec.ctype, max reg (savereg ec reg)⟩ hsv ((List.prefix_append _ _).trans hpre)
      (by simpa using hK) (by simpa [getLabelPc] using hlab)
    have hcm : F.code[(sub ⟨ec.ctype, max reg (savereg ec reg)⟩ st).st.code.length]? = some (.move (savereg ec reg) reg) := by
      apply prefix_get_some hpre; simp
    have hmove : Reaches d (P0 F) F.consts ⟨(sub ⟨ec.ctype, max reg (savereg ec reg)⟩ st).st.code.length, ρ1, γ⟩
        ⟨(sub ⟨ec.ctype, max reg (savereg ec reg)⟩ st).st.code.length + 1, setReg ρ1 (savereg ec reg) (ρ1 reg), γ⟩ := by
      refine Reaches.single ?_
      simp [step, P0_get_nonjmp hcm rfl]
    have hjmp := Emb.final_jmp d hE' H.okE (setReg ρ1 (savereg ec reg) (ρ1 reg)) γ
    simp only [List.length_append, List.length_singleton] at hjmp
    have hreach := (hr1.trans hmove).trans hjmp
    have hexit : ExitE ⟨F, lb, reg, savereg ec reg, d, ρ⟩ v b (tgt F lb.e) (setReg ρ1 (savereg ec reg) (ρ1 reg)) :=
      Or.inl ⟨rfl, by rw [setReg_same, hv1], (hf1.dest).setReg _⟩
    exact ⟨_, _, hreach, fun _ => Or.inl (JT_e he hexit), fun _ => Or.inl (JT_e hee hexit)⟩
  · -- TEST / TESTSET and a conditional jump
    rw [if_neg hlast] at hE hK hlab ⊢
    have hfull := hE.full_of_not_allow hlast
    have hsv : savereg ecnone0 reg = reg := savereg_ecnone0 reg
    obtain ⟨ρ1, hr1, hv1, hf1⟩ := hsub ecnone0 hsv (List.IsPrefix.trans (by simp) hfull)
      (by simpa using hK) (by simpa [getLabelPc] using hlab)
    have hc2 : F.code[(sub ecnone0 st).st.code.length + 1]? = some (.jmp ((if hasnext = true then thenl else elsel : Nat) : Int)) := by
      apply prefix_get_some hfull; simp
    have hJok : LabelOK F (if hasnext = true then thenl else elsel) := by
      cases hasnext <;> simp [H.okThen, H.okElse]
    have hlen : (emit (emit (sub ecnone0 st).st
          (if (if hasnext = true then thenl else elsel) = lb.e ∧ savereg ec reg ≠ reg
            then Instr.testset (savereg ec reg) reg (flipOf hasnext) else Instr.test reg 0 (flipOf hasnext)))
          (Instr.jmp ((if hasnext = true then thenl else elsel : Nat) : Int))).code.length = (sub ecnone0 st).st.code.length + 2 := by
      simp
    by_cases hts : (if hasnext = true then thenl else elsel) = lb.e ∧ savereg ec reg ≠ reg
    · -- TESTSET: the jump leaves the expression and the destination is another register
      rw [if_pos hts] at hfull hlen ⊢
      have hc1 : F.code[(sub ecnone0 st).st.code.length]? = some (.testset (savereg ec reg) reg (flipOf hasnext)) := by
        apply prefix_get_some hfull; simp
      have hfin := testset_jmp_sem d (ρ := ρ1) (γ := γ) hc1 hc2 hJok (flipOf_cases _)
      rw [hv1] at hfin
      rw [hlen]
      obtain ⟨hJe, hne⟩ := hts
      cases hn : hasnext with
      | true =>
        rw [hn] at hJe hfin hlast
        simp only [if_true] at hJe
        simp only [flipOf, if_true, decide_true] at hfin
        cases ht : d.truthy v with
        | true =>
          rw [ht] at hfin; simp only [if_true] at hfin
          exact ⟨_, _, hr1.trans hfin, fun _ => Or.inl (JT_e hJe (Or.inl ⟨by rw [hJe], setReg_same _ _ _, (hf1.dest).setReg _⟩)), fun h => absT ht h⟩
        | false =>
          rw [ht] at hfin; simp only [Bool.false_eq_true, if_false] at hfin
          exact ⟨_, _, hr1.trans hfin, fun h => absT h ht, fun _ => Or.inr (Or.inl ⟨rfl, rfl, hf1⟩)⟩
      | false =>
        rw [hn] at hJe hfin hlast
        simp only [Bool.false_eq_true, if_false] at hJe
        simp only [flipOf, Bool.false_eq_true, if_false, Nat.zero_ne_one, decide_false] at hfin
        have hte : thenl ≠ elsel := fun h => hlast ⟨rfl, h⟩
        cases ht : d.truthy v with
        | true =>
          rw [ht] at hfin; simp only [Bool.true_eq_false, if_false] at hfin
          exact ⟨_, _, hr1.trans hfin, fun _ => Or.inr ⟨rfl, hte, rfl, hf1⟩, fun h => absT ht h⟩
        | false =>
          rw [ht] at hfin; simp only [if_true] at hfin
          exact ⟨_, _, hr1.trans hfin, fun h => absT h ht, fun _ => Or.inl (JT_e hJe (Or.inl ⟨by rw [hJe], setReg_same _ _ _, (hf1.dest).setReg _⟩))⟩
    · -- TEST: either the jump stays inside the expression, or the operand already sits in the destination
      rw [if_neg hts] at hfull hlen ⊢
      have hc1 : F.code[(sub ecnone0 st).st.code.length]? = some (.test reg 0 (flipOf hasnext)) := by
        apply prefix_get_some hfull; simp
      have hfin := test_jmp_sem d (ρ := ρ1) (γ := γ) hc1 hc2 hJok (flipOf_cases _)
      rw [hv1] at hfin
      rw [hlen]
      -- a jump to the end label delivers the value because then sreg = reg
      have deliver : ∀ L, L = (if hasnext = true then thenl else elsel) → L = lb.e →
          ExitE ⟨F, lb, reg, savereg ec reg, d, ρ⟩ v b (tgt F L) ρ1 := by
        intro L hL hLe
        have hsr : savereg ec reg = reg := by
          by_cases h : savereg ec reg = reg
          · exact h
          · exact absurd ⟨hL ▸ hLe, h⟩ hts
        exact Or.inl ⟨by rw [hLe], by rw [hsr]; exact hv1, hf1.dest⟩
      cases hn : hasnext with
      | true =>
        rw [hn] at hfin hlast deliver
        simp only [flipOf, if_true, decide_true] at hfin deliver
        cases ht : d.truthy v with
        | true =>
          rw [ht] at hfin; simp only [if_true] at hfin
          refine ⟨_, _, hr1.trans hfin, fun _ => Or.inl ?_, fun h => absT ht h⟩
          by_cases hLe : thenl = lb.e
          · exact JT_e hLe (deliver thenl rfl hLe)
          · exact JT_ne hLe ⟨rfl, hf1⟩
        | false =>
          rw [ht] at hfin; simp only [Bool.false_eq_true, if_false] at hfin
          exact ⟨_, _, hr1.trans hfin, fun h => absT h ht, fun _ => Or.inr (Or.inl ⟨rfl, rfl, hf1⟩)⟩
      | false =>
        rw [hn] at hfin hlast deliver
        simp only [flipOf, Bool.false_eq_true, if_false, Nat.zero_ne_one, decide_false] at hfin deliver
        have hte : thenl ≠ elsel := fun h => hlast ⟨rfl, h⟩
        cases ht : d.truthy v with
        | true =>
          rw [ht] at hfin; simp only [Bool.true_eq_false, if_false] at hfin
          exact ⟨_, _, hr1.trans hfin, fun _ => Or.inr ⟨rfl, hte, rfl, hf1⟩, fun h => absT ht h⟩
        | false =>
          rw [ht] at hfin; simp only [if_true] at hfin
          refine ⟨_, _, hr1.trans hfin, fun h => absT h ht, fun _ => Or.inl ?_⟩
          by_cases hLe : elsel = lb.e
          · exact JT_e hLe (deliver elsel rfl hLe)
          · exact JT_ne hLe ⟨rfl, hf1⟩


/-- the expression-mode statement of `e` gives the hypothesis `auxDefault_sem` wants about `sub`. -/
theorem hsub_of_exprSem (d : Dom V) (e : Cond) (he : ExprSem d e) (sub : ExpCtx → CState → Res) (reg : Nat)
    (hsubeq : ∀ ec' s, sub ec' s = comp e (.expr reg ec') s)
    (st F : CState) (ρ γ : Nat → V) (v : V) (htop : st.regTop ≤ reg) (hloc : LocalsBelow reg e) (hreg : reg + rh e < 256)
    (hev : eval d ρ γ e = some v) (hok : ∀ L, LabelOK F L) :
    ∀ ec', savereg ec' reg = reg → (sub ec' st).st.code <+: F.code → (sub ec' st).st.consts <+: F.consts →
      (∀ L, st.labelId ≤ L → L < (sub ec' st).st.labelId → getLabelPc F L = getLabelPc (sub ec' st).st L) →
      ∃ ρ1, Reaches d (P0 F) F.consts ⟨st.code.length, ρ, γ⟩ ⟨(sub ec' st).st.code.length, ρ1, γ⟩ ∧ ρ1 reg = v ∧ FullFrame reg ρ ρ1 := by
  intro ec' hsv hF hK hlab
  rw [hsubeq] at hF hK hlab ⊢
  obtain ⟨ρ1, hr1, hv1, hd1⟩ := he st F reg ec' ρ γ v htop hloc hreg (by rw [hsv]; exact Nat.le_refl _) hev hok hF hK hlab
  rw [hsv] at hv1 hd1
  exact ⟨ρ1, hr1, hv1, fun x hx => hd1 x hx (by omega)⟩

/-- an operand that goes through the default case of compileLogicalOpExprAux (opaque atoms, not, unary minus, #,
    arithmetic, concatenation): everything follows from its expression-mode statement. -/
theorem auxSem_of_exprSem (d : Dom V) (e : Cond) (hfr : ExprFrame e) (hex : ExprSem d e)
    (hnl : isLoc e = false) (hlog : e.isLogical = false)
    (sub : Nat → ExpCtx → CState → Res)
    (hcomp : ∀ st reg ec thenl elsel hasnext lb b,
      comp e (.aux reg ec thenl elsel hasnext lb b) st = auxDefault (sub reg) reg ec thenl elsel hasnext lb b st)
    (hsubeq : ∀ reg ec' s, sub reg ec' s = comp e (.expr reg ec') s) : AuxSem d e := by
  intro st F reg ec thenl elsel hasnext lb b ρ γ v H hloc hreg hev hE hK hlab
  rw [hcomp] at hE hK hlab ⊢
  refine auxDefault_sem d _ st F reg ec thenl elsel hasnext lb b ρ γ v H ?_ ?_ hE hK hlab
  · intro _ ec' a' b'
    rw [hsubeq]
    exact (hfr st reg ec' H.htop).nomove hnl hlog a' b'
  · exact hsub_of_exprSem d e hex _ reg (hsubeq reg) st F ρ γ v H.htop hloc hreg hev H.allOK

theorem auxSem_ev (d : Dom V) (id : Nat) : AuxSem d (.ev id) :=
  auxSem_of_exprSem d (.ev id) (ef_leaf (.ev id) rfl) (exprSem_leaf d (.ev id) rfl) rfl rfl
    (fun reg ec' s => leafExpr (.ev id) reg ec' s) (fun _ _ _ _ _ _ _ _ => by simp only [comp]) (fun _ _ _ => by simp [comp])

theorem auxSem_not (d : Dom V) (c : Cond) (hfr : ExprFrame (.not c)) (hex : ExprSem d (.not c)) : AuxSem d (.not c) :=
  auxSem_of_exprSem d (.not c) hfr hex rfl rfl
    (fun reg ec' s => notExpr c (fun s' => comp c (.expr reg ecnone0) s') reg ec' s)
    (fun _ _ _ _ _ _ _ _ => by simp only [comp]) (fun _ _ _ => by simp only [comp])

theorem auxSem_unm (d : Dom V) (c : Cond) (hfr : ExprFrame (.unm c)) (hex : ExprSem d (.unm c)) : AuxSem d (.unm c) :=
  auxSem_of_exprSem d (.unm c) hfr hex rfl rfl
    (fun reg ec' s => unmExpr (lnum (.unm c)) c.isLogical (fun s' => comp c (.expr reg ecnone0) s') reg ec' s)
    (fun _ _ _ _ _ _ _ _ => by simp only [comp]) (fun _ _ _ => by simp only [comp])

theorem auxSem_len (d : Dom V) (c : Cond) (hfr : ExprFrame (.len c)) (hex : ExprSem d (.len c)) : AuxSem d (.len c) :=
  auxSem_of_exprSem d (.len c) hfr hex rfl rfl
    (fun reg ec' s => unopExpr .len c.isLogical (fun s' => comp c (.expr reg ecnone0) s') reg ec' s)
    (fun _ _ _ _ _ _ _ _ => by simp only [comp]) (fun _ _ _ => by simp only [comp])

theorem auxSem_arith (d : Dom V) (op : ArithOp) (l r : Cond) (hfr : ExprFrame (.arith op l r)) (hex : ExprSem d (.arith op l r)) :
    AuxSem d (.arith op l r) :=
  auxSem_of_exprSem d (.arith op l r) hfr hex rfl rfl
    (fun reg ec' s => arithExpr (lnum (.arith op l r)) op (fun s' g => comp l (.expr g ecnone0) s')
        (fun s' g => comp r (.expr g ecnone0) s') l.isLogical r.isLogical reg ec' s)
    (fun _ _ _ _ _ _ _ _ => by simp only [comp]) (fun _ _ _ => by simp only [comp])

theorem auxSem_concat (d : Dom V) (l r : Cond) (hfr : ExprFrame (.concat l r)) (hex : ExprSem d (.concat l r)) :
    AuxSem d (.concat l r) :=
  auxSem_of_exprSem d (.concat l r) hfr hex rfl rfl
    (fun reg ec' s => concatExpr (1 + spine r) (fun s' g => comp l (.expr g ecnone0) s')
        (fun s' g => comp r (.expr g ecnone0) s') reg ec' s)
    (fun _ _ _ _ _ _ _ _ => by simp only [comp]) (fun _ _ _ => by simp only [comp])

theorem auxSem_loc (d : Dom V) (r : Nat) : AuxSem d (.loc r) := by
  intro st F reg ec thenl elsel hasnext lb b ρ γ v H hloc hreg hev hE hK hlab
  have absT : ∀ {X : Prop}, d.truthy v = true → d.truthy v = false → X := fun h1 h2 => by rw [h1] at h2; cases h2
  have hv : v = ρ r := by simp only [eval, Option.some.injEq] at hev; exact hev.symm
  simp only [LocalsBelow] at hloc
  rw [aux_loc_eq] at hE hK hlab ⊢
  by_cases hin : (elsel = lb.e ∧ thenl ≠ elsel) ∨ (thenl = lb.e ∧ hasnext = true)
  · -- tested (and stored) in place
    rw [if_pos hin] at hE hK hlab ⊢
    have hna : ¬ (hasnext = false ∧ thenl = elsel) := by
      rintro ⟨hn, hte⟩
      rcases hin with ⟨_, h⟩ | ⟨_, h⟩
      · exact h hte
      · rw [hn] at h; cases h
    have hfull := hE.full_of_not_allow hna
    -- in both sub-cases the jump goes to the end label
    have hJ : (if hasnext = true then thenl else elsel) = lb.e ∧
        ((hasnext = false ∧ thenl ≠ elsel ∧ elsel = lb.e) ∨ (hasnext = true ∧ thenl = lb.e)) := by
      rcases hin with ⟨h1, h2⟩ | ⟨h1, h2⟩
      · have hn : hasnext = false := by
          cases hh : hasnext with
          | false => rfl
          | true => exact absurd h1 (H.disc.d1 hh)
        rw [hn]; exact ⟨by simpa using h1, Or.inl ⟨rfl, h2, h1⟩⟩
      · rw [h2]; exact ⟨by simpa using h1, Or.inr ⟨rfl, h1⟩⟩
    obtain ⟨hJe, hcase⟩ := hJ
    rw [hJe] at hfull hE hK hlab ⊢
    have hc2 : F.code[st.code.length + 1]? = some (.jmp (lb.e : Int)) := by
      apply prefix_get_some hfull; simp
    have hlen : (emit (emit st (if savereg ec reg = r then Instr.test (savereg ec reg) r (flipOf hasnext)
          else Instr.testset (savereg ec reg) r (flipOf hasnext))) (Instr.jmp (lb.e : Int))).code.length = st.code.length + 2 := by simp
    rw [hlen]
    -- what the pair does: jump with the value in the destination iff truthiness = (flip = 1)
    have pair : ∃ ρj, (ρj (savereg ec reg) = v ∧ DestFrame reg (savereg ec reg) ρ ρj) ∧
        Reaches d (P0 F) F.consts ⟨st.code.length, ρ, γ⟩
          (if d.truthy v = decide (flipOf hasnext = 1) then ⟨tgt F lb.e, ρj, γ⟩ else ⟨st.code.length + 2, ρ, γ⟩) := by
      by_cases hsr : savereg ec reg = r
      · rw [if_pos hsr] at hfull
        have hc1 : F.code[st.code.length]? = some (.test (savereg ec reg) r (flipOf hasnext)) := by
          apply prefix_get_some hfull; simp
        have := test_jmp_sem d (ρ := ρ) (γ := γ) hc1 hc2 H.okE (flipOf_cases _)
        rw [hsr, ← hv] at this
        refine ⟨ρ, ⟨by rw [hsr, hv], DestFrame.refl _ _ _⟩, ?_⟩
        split
        · rename_i h; rw [if_pos h] at this; exact this
        · rename_i h; rw [if_neg h] at this; exact this
      · rw [if_neg hsr] at hfull
        have hc1 : F.code[st.code.length]? = some (.testset (savereg ec reg) r (flipOf hasnext)) := by
          apply prefix_get_some hfull; simp
        have := testset_jmp_sem d (ρ := ρ) (γ := γ) hc1 hc2 H.okE (flipOf_cases _)
        rw [← hv] at this
        exact ⟨setReg ρ (savereg ec reg) v, ⟨setReg_same _ _ _, fun x _ hs => setReg_other _ _ hs⟩, this⟩
    obtain ⟨ρj, ⟨hvj, hdj⟩, hreach⟩ := pair
    rcases hcase with ⟨hn, hte, hee⟩ | ⟨hn, hthe⟩
    · rw [hn] at hreach
      simp only [flipOf, Bool.false_eq_true, if_false, Nat.zero_ne_one, decide_false] at hreach
      cases ht : d.truthy v with
      | true =>
        rw [ht] at hreach; simp only [Bool.true_eq_false, if_false] at hreach
        exact ⟨_, _, hreach, fun _ => Or.inr ⟨hn, hte, rfl, FullFrame.refl _ _⟩, fun h => absT ht h⟩
      | false =>
        rw [ht] at hreach; simp only [if_true] at hreach
        exact ⟨_, _, hreach, fun h => absT h ht, fun _ => Or.inl (JT_e hee (Or.inl ⟨rfl, hvj, hdj⟩))⟩
    · rw [hn] at hreach
      simp only [flipOf, if_true, decide_true] at hreach
      cases ht : d.truthy v with
      | true =>
        rw [ht] at hreach; simp only [if_true] at hreach
        exact ⟨_, _, hreach, fun _ => Or.inl (JT_e hthe (Or.inl ⟨rfl, hvj, hdj⟩)), fun h => absT ht h⟩
      | false =>
        rw [ht] at hreach; simp only [Bool.false_eq_true, if_false] at hreach
        exact ⟨_, _, hreach, fun h => absT h ht, fun _ => Or.inr (Or.inl ⟨hn, rfl, FullFrame.refl _ _⟩)⟩
  · rw [if_neg hin] at hE hK hlab ⊢
    by_cases hlast : hasnext = false ∧ thenl = elsel
    · -- last operand: `MOVE reg r` is retargeted to the destination
      obtain ⟨hn, hte⟩ := hlast
      have he : thenl = lb.e := H.disc.d2 hte
      have hee : elsel = lb.e := hte ▸ he
      rw [auxDefault_eq, if_pos ⟨hn, hte⟩] at hE hK hlab ⊢
      have hJ : (if hasnext = true then thenl else elsel) = lb.e := by rw [hn]; simpa using hee
      have hsv := savereg_max ec reg H.hsreg (by have := H.hreg; omega)
      have hsub : (leafExpr (.loc r) reg ⟨ec.ctype, max reg (savereg ec reg)⟩ st).st = emit st (.move reg r) := by
        simp only [leafExpr, hsv]
      rw [hJ, hsub, moveTo_move] at hE hK hlab ⊢
      have hE' : Emb F ((st.code ++ [.move (savereg ec reg) r]) ++ [.jmp (lb.e : Int)]) lb.e (hasnext = false ∧ thenl = elsel) := by
        simpa using hE
      have hcm : F.code[st.code.length]? = some (.move (savereg ec reg) r) := by
        apply prefix_get_some hE'.init; simp
      have hmove : Reaches d (P0 F) F.consts ⟨st.code.length, ρ, γ⟩ ⟨st.code.length + 1, setReg ρ (savereg ec reg) (ρ r), γ⟩ := by
        refine Reaches.single ?_
        simp [step, P0_get_nonjmp hcm rfl]
      have hjmp := Emb.final_jmp d hE' H.okE (setReg ρ (savereg ec reg) (ρ r)) γ
      simp only [List.length_append, List.length_singleton] at hjmp
      have hexit : ExitE ⟨F, lb, reg, savereg ec reg, d, ρ⟩ v b (tgt F lb.e) (setReg ρ (savereg ec reg) (ρ r)) :=
        Or.inl ⟨rfl, by rw [setReg_same, hv], fun x _ hs => setReg_other _ _ hs⟩
      exact ⟨_, _, hmove.trans hjmp, fun _ => Or.inl (JT_e he hexit), fun _ => Or.inl (JT_e hee hexit)⟩
    · refine auxDefault_sem d _ st F reg ec thenl elsel hasnext lb b ρ γ v H (fun h => absurd h hlast) ?_ hE hK hlab
      exact hsub_of_exprSem d (.loc r) (exprSem_leaf d (.loc r) rfl) _ reg (fun ec' s => by simp [comp]) st F ρ γ v H.htop hloc hreg hev H.allOK

end GLua.Lowering
