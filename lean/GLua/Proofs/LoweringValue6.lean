/-
  Value-context lowering, part 6: and / or inside compileLogicalOpExprAux.
-/
import GLua.Proofs.LoweringValue5

namespace GLua.Lowering
open GLua.Compile GLua.MiniVM GLua.CondSpec

variable [NumStruct]
set_option linter.unusedSectionVars false
variable {V : Type}

theorem AuxOut.rebase {P : AuxP V} {ρ0 : Nat → V} {thenl elsel : Nat} {hasnext : Bool} {endpc : Nat} {v : V} {b b' : Bool}
    {pc' : Nat} {ρ' : Nat → V} (h : AuxOut P thenl elsel hasnext endpc v b pc' ρ') (hf : FullFrame P.reg ρ0 P.ρ)
    (hb : b = true → b' = true) : AuxOut { P with ρ := ρ0 } thenl elsel hasnext endpc v b' pc' ρ' := by
  constructor
  · intro ht
    rcases h.1 ht with h1 | ⟨h1, h2, h3, h4⟩
    · exact Or.inl ((h1.mono hb).rebase hf)
    · exact Or.inr ⟨h1, h2, h3, hf.trans h4⟩
  · intro ht
    rcases h.2 ht with h1 | ⟨h1, h2, h3⟩ | ⟨h1, h2, h3, h4, h5⟩
    · exact Or.inl ((h1.mono hb).rebase hf)
    · exact Or.inr (Or.inl ⟨h1, h2, hf.trans h3⟩)
    · exact Or.inr (Or.inr ⟨h1, h2, h3, hb h4, (hf.dest).trans h5⟩)

theorem auxSem_and (d : Dom V) (l r : Cond) (hl : AuxSem d l) (hr : AuxSem d r) :
    AuxSem d (.and l r) := by
  intro st F reg ec thenl elsel hasnext lb b ρ γ v H hloc hreg hev hE hK hlab
  simp only [rh] at hreg
  simp only [comp, newLabel] at hE hK hlab ⊢
  simp only [LocalsBelow] at hloc
  generalize hsa : ({ st with labelId := st.labelId + 1 } : CState) = sa at hE hK hlab ⊢
  have hsa_id : sa.labelId = st.labelId + 1 := by subst hsa; rfl
  have hsa_code : sa.code = st.code := by subst hsa; rfl
  have hsa_top : sa.regTop = st.regTop := by subst hsa; rfl
  obtain ⟨f1, hlt1, hb1, _⟩ := (comp_frame l).2 sa reg ec st.labelId elsel false lb b (by rw [hsa_top]; exact H.htop)
  generalize hr1 : comp l (.aux reg ec st.labelId elsel false lb b) sa = r1 at hE hK hlab f1 hlt1 hb1 ⊢
  generalize hsc : setLabelHere r1.st st.labelId = sc at hE hK hlab ⊢
  have hsc_code : sc.code = r1.st.code := by subst hsc; rfl
  have hsc_id : sc.labelId = r1.st.labelId := by subst hsc; rfl
  have hsc_top : sc.regTop = st.regTop := by subst hsc; simp [f1.regTop, hsa_top]
  have hsc_consts : sc.consts = r1.st.consts := by subst hsc; rfl
  obtain ⟨f2, hlt2, hb2, _⟩ := (comp_frame r).2 sc reg ec thenl elsel hasnext lb r1.b (by rw [hsc_top]; exact H.htop)
  generalize hr2 : comp r (.aux reg ec thenl elsel hasnext lb r1.b) sc = r2 at hE hK hlab f2 hlt2 hb2 ⊢
  have hid1 : st.labelId + 1 ≤ r1.st.labelId := by rw [← hsa_id]; exact f1.labelId
  have hid2 : r1.st.labelId ≤ r2.st.labelId := by rw [← hsc_id]; exact f2.labelId
  -- the inner label
  have hnl : getLabelPc F st.labelId = (r1.st.code.length : Int) - 1 := by
    rw [hlab st.labelId (Nat.le_refl _) (by omega), f2.labels st.labelId (by omega), ← hsc]
    exact getLabelPc_setLabelHere_same _ _
  have hnlOK : LabelOK F st.labelId := by unfold LabelOK; omega
  have htgt : tgt F st.labelId = r1.st.code.length := by unfold tgt; rw [hnl]; omega
  have hpre1 : r1.st.code <+: F.code := by
    apply hE.prefix_lt (by rw [← hsc_code]; exact f2.code) (by rw [← hsc_code]; exact hlt2)
  -- the left operand
  have H1 : AuxHyp sa F reg ec st.labelId elsel false lb :=
    { htop := by rw [hsa_top]; exact H.htop, hreg := H.hreg, hsreg := H.hsreg,
      hthen := by omega, helse := by have := H.helse; omega, hle := by have := H.hle; omega,
      hlt := by have := H.hlt; omega, hlf := by have := H.hlf; omega, het := H.het, hef := H.hef,
      disc := ⟨fun h => Bool.noConfusion h, fun h => (by have := H.helse; omega), fun h => (by have := H.hle; omega)⟩,
      okThen := hnlOK, okElse := H.okElse, okE := H.okE, okT := H.okT, okF := H.okF, allOK := H.allOK }
  simp only [eval] at hev
  cases hvl : eval d ρ γ l with
  | none => simp [hvl] at hev
  | some vl =>
    simp only [hvl] at hev
    obtain ⟨ρ1, pc1, hreach1, hout1⟩ := hl sa F reg ec st.labelId elsel false lb b ρ γ vl H1 hloc.1 (by omega) hvl
      (by rw [hr1]; exact Or.inl hpre1)
      (by rw [hr1]; exact (hsc_consts ▸ f2.consts).trans hK)
      (by rw [hr1]; intro L h1 h2
          rw [hlab L (by omega) (by omega), f2.labels L (by omega), ← hsc, getLabelPc_setLabelHere_other _ (by omega)])
    rw [hr1] at hout1
    rw [hsa_code] at hreach1
    cases htl : d.truthy vl with
    | false =>
      simp only [htl] at hev
      cases hev
      have hj := hout1.2 htl
      refine ⟨ρ1, pc1, hreach1, fun h => (by rw [htl] at h; cases h), fun _ => Or.inl ?_⟩
      rcases hj with h | ⟨h, _⟩ | ⟨h, _⟩
      · exact h.mono hb2
      · cases h
      · have := H.helse; omega
    | true =>
      simp only [htl, if_true] at hev
      have hj := hout1.1 htl
      have hcont : pc1 = r1.st.code.length ∧ FullFrame reg ρ ρ1 := by
        rcases hj with h | ⟨_, _, h, hf⟩
        · unfold JT at h
          rw [if_neg (by have := H.hle; show st.labelId ≠ lb.e; omega)] at h
          exact ⟨by rw [h.1, htgt], h.2⟩
        · exact ⟨h, hf⟩
      obtain ⟨hpc1, hf1⟩ := hcont
      subst hpc1
      have hevr : eval d ρ1 γ r = some v := by rw [eval_congr d hf1 r hloc.2]; exact hev
      have H2 : AuxHyp sc F reg ec thenl elsel hasnext lb :=
        { htop := by rw [hsc_top]; exact H.htop, hreg := H.hreg, hsreg := H.hsreg,
          hthen := by have := H.hthen; omega, helse := by have := H.helse; omega, hle := by have := H.hle; omega,
          hlt := by have := H.hlt; omega, hlf := by have := H.hlf; omega, het := H.het, hef := H.hef, disc := H.disc,
          okThen := H.okThen, okElse := H.okElse, okE := H.okE, okT := H.okT, okF := H.okF, allOK := H.allOK }
      obtain ⟨ρ2, pc2, hreach2, hout2⟩ := hr sc F reg ec thenl elsel hasnext lb r1.b ρ1 γ v H2 hloc.2 (by omega) hevr
        (by rw [hr2]; exact hE) (by rw [hr2]; exact hK)
        (by rw [hr2]; intro L h1 h2; exact hlab L (by omega) h2)
      rw [hr2] at hout2
      rw [hsc_code] at hreach2
      exact ⟨ρ2, pc2, hreach1.trans hreach2, hout2.rebase (P := ⟨F, lb, reg, savereg ec reg, d, ρ1⟩) hf1 (fun h => h)⟩

theorem auxSem_or (d : Dom V) (l r : Cond) (hl : AuxSem d l) (hr : AuxSem d r) :
    AuxSem d (.or l r) := by
  intro st F reg ec thenl elsel hasnext lb b ρ γ v H hloc hreg hev hE hK hlab
  simp only [rh] at hreg
  simp only [comp, newLabel] at hE hK hlab ⊢
  simp only [LocalsBelow] at hloc
  generalize hsa : ({ st with labelId := st.labelId + 1 } : CState) = sa at hE hK hlab ⊢
  have hsa_id : sa.labelId = st.labelId + 1 := by subst hsa; rfl
  have hsa_code : sa.code = st.code := by subst hsa; rfl
  have hsa_top : sa.regTop = st.regTop := by subst hsa; rfl
  obtain ⟨f1, hlt1, hb1, _⟩ := (comp_frame l).2 sa reg ec thenl st.labelId true lb b (by rw [hsa_top]; exact H.htop)
  generalize hr1 : comp l (.aux reg ec thenl st.labelId true lb b) sa = r1 at hE hK hlab f1 hlt1 hb1 ⊢
  generalize hsc : setLabelHere r1.st st.labelId = sc at hE hK hlab ⊢
  have hsc_code : sc.code = r1.st.code := by subst hsc; rfl
  have hsc_id : sc.labelId = r1.st.labelId := by subst hsc; rfl
  have hsc_top : sc.regTop = st.regTop := by subst hsc; simp [f1.regTop, hsa_top]
  have hsc_consts : sc.consts = r1.st.consts := by subst hsc; rfl
  obtain ⟨f2, hlt2, hb2, _⟩ := (comp_frame r).2 sc reg ec thenl elsel hasnext lb r1.b (by rw [hsc_top]; exact H.htop)
  generalize hr2 : comp r (.aux reg ec thenl elsel hasnext lb r1.b) sc = r2 at hE hK hlab f2 hlt2 hb2 ⊢
  have hid1 : st.labelId + 1 ≤ r1.st.labelId := by rw [← hsa_id]; exact f1.labelId
  have hid2 : r1.st.labelId ≤ r2.st.labelId := by rw [← hsc_id]; exact f2.labelId
  have hnl : getLabelPc F st.labelId = (r1.st.code.length : Int) - 1 := by
    rw [hlab st.labelId (Nat.le_refl _) (by omega), f2.labels st.labelId (by omega), ← hsc]
    exact getLabelPc_setLabelHere_same _ _
  have hnlOK : LabelOK F st.labelId := by unfold LabelOK; omega
  have htgt : tgt F st.labelId = r1.st.code.length := by unfold tgt; rw [hnl]; omega
  have hpre1 : r1.st.code <+: F.code := by
    apply hE.prefix_lt (by rw [← hsc_code]; exact f2.code) (by rw [← hsc_code]; exact hlt2)
  have H1 : AuxHyp sa F reg ec thenl st.labelId true lb :=
    { htop := by rw [hsa_top]; exact H.htop, hreg := H.hreg, hsreg := H.hsreg,
      hthen := by have := H.hthen; omega, helse := by omega, hle := by have := H.hle; omega,
      hlt := by have := H.hlt; omega, hlf := by have := H.hlf; omega, het := H.het, hef := H.hef,
      disc := ⟨fun _ => (by have := H.hle; omega), fun h => (by have := H.hthen; omega), fun _ _ => rfl⟩,
      okThen := H.okThen, okElse := hnlOK, okE := H.okE, okT := H.okT, okF := H.okF, allOK := H.allOK }
  simp only [eval] at hev
  cases hvl : eval d ρ γ l with
  | none => simp [hvl] at hev
  | some vl =>
    simp only [hvl] at hev
    obtain ⟨ρ1, pc1, hreach1, hout1⟩ := hl sa F reg ec thenl st.labelId true lb b ρ γ vl H1 hloc.1 (by omega) hvl
      (by rw [hr1]; exact Or.inl hpre1)
      (by rw [hr1]; exact (hsc_consts ▸ f2.consts).trans hK)
      (by rw [hr1]; intro L h1 h2
          rw [hlab L (by omega) (by omega), f2.labels L (by omega), ← hsc, getLabelPc_setLabelHere_other _ (by omega)])
    rw [hr1] at hout1
    rw [hsa_code] at hreach1
    cases htl : d.truthy vl with
    | true =>
      simp only [htl, if_true] at hev
      cases hev
      have hj := hout1.1 htl
      refine ⟨ρ1, pc1, hreach1, fun _ => Or.inl ?_, fun h => (by rw [htl] at h; cases h)⟩
      rcases hj with h | ⟨h, _⟩
      · exact h.mono hb2
      · cases h
    | false =>
      simp only [htl] at hev
      have hj := hout1.2 htl
      have hcont : pc1 = r1.st.code.length ∧ FullFrame reg ρ ρ1 := by
        rcases hj with h | ⟨_, h, hf⟩ | ⟨h, _⟩
        · unfold JT at h
          rw [if_neg (by have := H.hle; show st.labelId ≠ lb.e; omega)] at h
          exact ⟨by rw [h.1, htgt], h.2⟩
        · exact ⟨h, hf⟩
        · have := H.hthen; omega
      obtain ⟨hpc1, hf1⟩ := hcont
      subst hpc1
      have hevr : eval d ρ1 γ r = some v := by rw [eval_congr d hf1 r hloc.2]; simpa using hev
      have H2 : AuxHyp sc F reg ec thenl elsel hasnext lb :=
        { htop := by rw [hsc_top]; exact H.htop, hreg := H.hreg, hsreg := H.hsreg,
          hthen := by have := H.hthen; omega, helse := by have := H.helse; omega, hle := by have := H.hle; omega,
          hlt := by have := H.hlt; omega, hlf := by have := H.hlf; omega, het := H.het, hef := H.hef, disc := H.disc,
          okThen := H.okThen, okElse := H.okElse, okE := H.okE, okT := H.okT, okF := H.okF, allOK := H.allOK }
      obtain ⟨ρ2, pc2, hreach2, hout2⟩ := hr sc F reg ec thenl elsel hasnext lb r1.b ρ1 γ v H2 hloc.2 (by omega) hevr
        (by rw [hr2]; exact hE) (by rw [hr2]; exact hK)
        (by rw [hr2]; intro L h1 h2; exact hlab L (by omega) h2)
      rw [hr2] at hout2
      rw [hsc_code] at hreach2
      exact ⟨ρ2, pc2, hreach1.trans hreach2, hout2.rebase (P := ⟨F, lb, reg, savereg ec reg, d, ρ1⟩) hf1 (fun h => h)⟩

end GLua.Lowering
